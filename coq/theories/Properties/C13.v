(** Properties/C13.v — "Concurrent readers get the answers sequential readers would".
    Only statements, each closed by [exact] of a lemma proved in Cache/ConcProofs.v / ConcLink.v / Tables.v.
    Level: proof on the interleaving model of Cache/Conc.v (partial: see the header of Conc.v for what is
    outside the model). *)
From PdfV Require Import Base.Prelude Gen.Generated Cache.Model Cache.Conc Cache.Proofs Cache.ConcProofs Cache.ConcLink Cache.Tables.

(** for every configuration, document, programs and schedule: no abort, no poisoned lock, every finished call
    answered as alone, no deadlock.  False as it stands (C13_full_refuted: cyclic documents deadlock, and the
    guard shared between threads — the code before the fix — fails even on acyclic ones). *)
Definition C13_full_statement : Prop := conc_full_statement.

(** the guard keyed by thread (the code as it is now, C13_chain_table), documents whose eager loads follow a
    rank: every reachable state of every schedule of ANY number of threads making ANY number of calls, each call
    requesting ANY type (the proof is an induction over the schedule, nothing is enumerated) is safe and not
    deadlocked, and each thread has received a prefix of the sequential answers [D ty r] of its typed calls.  The
    cache is keyed by the reference only: a thread may find a value another thread loaded as another type, or
    an error of any kind another load left there (an object that does not exist, a wrong type, a parse error,
    a "Recursive reference"), published before or while it waited: it is answered as alone all the same. *)
Theorem C13_per_thread_chain : forall c prog cells rank,
  per_thread c = true -> acyclic prog rank -> conc_statement c prog cells (lazy_seq cells (D prog rank)).
Proof. exact conc_per_thread_chain. Qed.
Print Assumptions C13_per_thread_chain.

(** ... also after letting the remaining threads run (the harness' completion phase) *)
Theorem C13_completion : forall c prog cells rank progs sched fuel,
  per_thread c = true -> acyclic prog rank ->
  state_ok c (lazy_seq cells (D prog rank)) progs
           (complete c prog cells fuel (length progs) (run_sched c prog cells (ginit cells progs) sched)).
Proof. exact conc_per_thread_complete. Qed.
Print Assumptions C13_completion.

(** ... and every run ends with all threads finished *)
Theorem C13_terminates : forall c prog cells rank progs sched,
  per_thread c = true -> acyclic prog rank ->
  exists fuel, all_finished (complete c prog cells fuel (length progs)
                                      (run_sched c prog cells (ginit cells progs) sched)) (length progs) = true.
Proof. exact conc_terminates. Qed.
Print Assumptions C13_terminates.

(** the expected answer D ty r is the answer of the sequential model of get (C12), cached or not, after any
    sequential history of read calls, and the answer of the cache-free resolver *)
Theorem C13_sequential_answer :
  forall (prog : tytag -> ref -> comp) (filters : ref -> list filt) (raw : ref -> outcome)
         (appf : filt -> val -> outcome) (imgc : ref -> filt -> val -> outcome)
         (rank : ref -> nat) (oc sc : bool) (fuel : nat) (history : list call) (ty : tytag) (r : ref),
    acyclic prog rank -> fuel_ok rank fuel history -> (rank r < fuel)%nat ->
    let st := final_state prog filters raw appf imgc oc sc fuel history init in
    fst (get (cfg_fixed oc sc) prog fuel [] ty r st) = D prog rank ty r /\
    fst (get no_cache prog fuel [] ty r init) = D prog rank ty r.
Proof. exact D_is_sequential_answer. Qed.
Print Assumptions C13_sequential_answer.

(** the property as worded: every call of every thread returns what it returns when it runs alone *)
Theorem C13_answers_alone : forall c prog cells rank progs sched fuel t,
  per_thread c = true -> acyclic prog rank ->
  (forall cl, In cl (nth t progs []) -> (rank (item_ref cells cl) < fuel)%nat) ->
  let g := run_sched c prog cells (ginit cells progs) sched in
  let alone := call_ans (lazy_seq cells (fun ty r => fst (get no_cache prog fuel [] ty r init))) in
  (exists k, results (threads g t) = map alone (firstn k (nth t progs []))) /\
  (finished g t = true -> results (threads g t) = map alone (nth t progs [])).
Proof. exact conc_answers_alone. Qed.
Print Assumptions C13_answers_alone.

(** the lazily loaded references (object/mod.rs Lazy<T>::load, a once-cell shared by all threads): under every
    schedule a value published into a cell is the sequential answer of the reference the cell holds, and the cell
    is never written again — concurrent initialisers are serialised, exactly one publishes, later loads clone.
    That nobody panics and everybody returns what it returns alone is C13_per_thread_chain / C13_answers_alone
    (program items (LAZY, i)); that a thread waiting for a cell is not a deadlock is part of [state_ok] *)
Theorem C13_cell_once : forall c prog cells rank progs sched1 sched2 i o,
  per_thread c = true -> acyclic prog rank ->
  let g1 := run_sched c prog cells (ginit cells progs) sched1 in
  cellst g1 i = CFull o ->
  o = D prog rank (fst (cells i)) (snd (cells i)) /\
  cellst (run_sched c prog cells g1 sched2) i = CFull o.
Proof. exact conc_cell_once. Qed.
Print Assumptions C13_cell_once.

Theorem C13_full_refuted : ~ C13_full_statement.
Proof. exact conc_full_refuted. Qed.
Print Assumptions C13_full_refuted.

(** C13-a (fixed): one guard stack per resolver shared by all threads — spurious "Recursive reference" *)
Theorem C13_refuted_shared_chain : exists prog progs sched,
  let c := mkCcfg true false false in
  let g := complete c prog no_cells 100 (length progs) (run_sched c prog no_cells (ginit no_cells progs) sched) in
  results (threads g 1%nat) = [Err E_OTHER] /\
  (forall fuel, fst (get no_cache prog (S fuel) [] 0 1 init) = Ok 5).
Proof. exact conc_refuted_shared_chain. Qed.
Print Assumptions C13_refuted_shared_chain.

(** C13-a: assert_eq! in the drop guard fails, the mutex is poisoned, the other thread panics too *)
Theorem C13_refuted_pop_assert : exists prog progs sched,
  let c := mkCcfg true false false in
  let g := complete c prog no_cells 100 (length progs) (run_sched c prog no_cells (ginit no_cells progs) sched) in
  poisoned g 0 = true /\ results (threads g 0%nat) = [Panic 1] /\ results (threads g 1%nat) = [Panic 1].
Proof. exact conc_refuted_pop_assert. Qed.
Print Assumptions C13_refuted_pop_assert.

(** C13-a: the failing pop in a nested load: second panic while unwinding = process abort *)
Theorem C13_refuted_abort : exists prog progs sched,
  let c := mkCcfg true false false in
  aborted (complete c prog no_cells 100 (length progs) (run_sched c prog no_cells (ginit no_cells progs) sched)) = true.
Proof. exact conc_refuted_abort. Qed.
Print Assumptions C13_refuted_abort.

(** C13-b (open): objects that eagerly load each other, cache on: mutual wait on InProcess — with the fixed guard too *)
Theorem C13_cyclic_deadlock : exists prog progs sched,
  let c := mkCcfg true true true in
  deadlocked c (complete c prog no_cells 100 (length progs) (run_sched c prog no_cells (ginit no_cells progs) sched)) (length progs) = true.
Proof. exact conc_cyclic_deadlock. Qed.
Print Assumptions C13_cyclic_deadlock.

(** the class of changes "serve a cached error of some kinds to a load that did not compute it" (the seeded change
    missed_C13b: the missing-object kinds) breaks the property for every error kind of the harness, in the interleaving the seed's
    demonstration forces: B arrives while A computes, waits, and receives A's error *)
Theorem C13_serving_cached_errors_refuted : forall k : N, In k error_kinds ->
  let serve := fun e : N => e =? k in
  let prog := kind_prog k in
  let c := mkCcfg true true true in
  let g := fold_left (step_gen c prog no_cells serve) [0; 0; 1; 1; 0; 0; 0; 1; 1; 1; 1; 1]%nat (ginit no_cells [[(1, 3)]; [(2, 3)]]) in
  acyclic prog (fun _ => O) /\ finished g 1%nat = true /\
  results (threads g 1%nat) = [Err k] /\ fst (get no_cache prog 2 [] 2 3 init) = Ok 7.
Proof. exact conc_serving_cached_errors_refuted. Qed.
Print Assumptions C13_serving_cached_errors_refuted.

Theorem C13_chain_table : cache_chain_per_thread = true.
Proof. exact chain_table. Qed.
Print Assumptions C13_chain_table.

(** non-vacuity (cells 0 and 2 are published once, cell 1 — whose load fails — stays empty and is tried again by
    every thread that loads it): an acyclic document in which object 2 loaded eagerly (type 0) follows a reference to object 3,
    which does not exist, and fails with the missing-object error, while the same object loaded lazily (type 1)
    succeeds; object 4 fails as type 0 with a parse error and succeeds as type 2.  Two threads sharing the
    resolver and the cache load the same references as different types, interleaved step by step: the error
    (or the value) one of them leaves in the cache is found by the other, and both get the sequential answers *)
Definition ex_prog (ty : tytag) (r : ref) : comp :=
  if r =? 2 then (if ty =? 1 then Ret (Ok 7)
                  else Call 0 3 (fun o => Ret (match o with Ok v => Ok (v + 1) | _ => o end)))
  else if r =? 3 then Ret (Err 3)
  else if r =? 4 then (if ty =? 0 then Ret (Err 11) else Ret (Ok 9))
  else Ret (Ok 5).
Definition ex_rank (r : ref) : nat := if r =? 2 then 1%nat else 0%nat.
Definition ex_cells (i : N) : tcall := if i =? 0 then (1, 2) else if i =? 1 then (0, 2) else (2, 4).
Example C13_nonvacuous :
  acyclic ex_prog ex_rank /\
  let c := mkCcfg true true true in
  let progs := [[(0, 2); (LAZY, 0); (1, 2); (LAZY, 1); (2, 4)]; [(LAZY, 0); (1, 2); (LAZY, 1); (0, 2); (LAZY, 2); (0, 4); (0, 1)];
                [(LAZY, 1); (LAZY, 0); (LAZY, 2)]] in
  let g := complete c ex_prog ex_cells 300 3
             (run_sched c ex_prog ex_cells (ginit ex_cells progs)
                        [0; 1; 0; 1; 2; 0; 1; 0; 2; 1; 1; 0; 0; 2; 1; 1; 0; 2; 2; 1; 0; 1; 0; 2]%nat) in
  map results (map (threads g) [0; 1; 2]%nat)
  = [[Err 3; Ok 7; Ok 7; Err 3; Ok 9]; [Ok 7; Ok 7; Err 3; Err 3; Ok 9; Err 11; Ok 5]; [Err 3; Ok 7; Ok 9]] /\
  all_finished g 3 = true /\
  map (cellst g) [0; 1; 2] = [CFull (Ok 7); CEmpty; CFull (Ok 9)].
Proof.
  split; [|vm_compute; repeat split; reflexivity].
  intros ty r. unfold ex_prog, ex_rank. destruct (r =? 2) eqn:E2.
  - destruct (ty =? 1); [exact I|]. cbn [bounded]. change (3 =? 2) with false. cbv iota.
    split; [lia|]. intros o. exact I.
  - destruct (r =? 3); [exact I|]. destruct (r =? 4); [destruct (ty =? 0); exact I|exact I].
Qed.
