(** Properties/C04.v — "Serialised objects parse back to the same value".  The round trip is a corollary of
    conformance of the writer: what [ser] writes is a spelling in the sense of C03 ([spells] + [renders]). *)
From PdfV Require Import Base.Prelude Base.DecProofs Gen.Generated Lex.Lexer Lex.StrLexer Lex.LexProofs Lex.StrProofs
  Syn.Prim Syn.Utf8 Syn.Parser Syn.Serialize Syn.Spells Syn.ParserProofs Syn.NameProofs Syn.RenderProofs Syn.SerProofs Syn.NumSerProofs Syn.StreamProofs Syn.IndirectSerProofs Syn.StreamSerProofs.

(** the writer is conformant: for every storable value the bytes it writes are the items [items_of v] (which denote v),
    separated and delimited as the standard requires, whatever non-regular byte follows *)
Theorem C04_ser_spells : forall v, storable v ->
  exists core, ser v = Ok (core ++ trail v) /\ spells v (items_of v) /\
    forall tl, boundary tl -> renders (items_of v) (core ++ trail v ++ tl) (trail v ++ tl).
Proof. exact ser_spells. Qed.
Print Assumptions C04_ser_spells.

(** round trip in any context whose first byte after the value is not a regular character (that is what every writer
    context provides: a newline before endobj, the newline after a dictionary value, the space or bracket after an
    array element, the space before an operator); the parser stops exactly behind the value *)
Theorem C04_roundtrip : forall v, storable v -> vdepth v <= MAX_DEPTH ->
  forall R cx tl, boundary tl ->
  exists core, ser v = Ok (core ++ trail v) /\
    (follow_ok [] (mkLx (lenN core) (trail v ++ tl)) -> nostream_at [] (mkLx (lenN core) (trail v ++ tl)) ->
     parse_ctx R cx F_ANY MAX_DEPTH (mkLx 0 ((core ++ trail v) ++ tl)) = Ok (v, mkLx (lenN core) (trail v ++ tl))).
Proof. exact ser_parse_roundtrip. Qed.
Print Assumptions C04_roundtrip.

Theorem C04_roundtrip_eof : forall v, storable v -> vdepth v <= MAX_DEPTH -> forall R,
  exists b, ser v = Ok b /\ parse R F_ANY b = Ok v.
Proof. exact ser_parse_eof. Qed.
Print Assumptions C04_roundtrip_eof.

(** pieces: every 32-bit integer, every name (any bytes of a UTF-8 string), every byte string in both string forms *)
Theorem C04_integer : forall z, (-2147483648 <= z <= 2147483647)%Z -> int_word (dec_of_Z z) z.
Proof. exact ser_int_word. Qed.
Theorem C04_decimal : forall n, forallb isdig (dec_of_N n) = true /\ dec_of_N n <> [] /\ N_of_dec (dec_of_N n) = n.
Proof. exact dec_of_N_spec. Qed.
Theorem C04_name : forall s, wf_bytes s -> name_enc s (flat_map ser_name_byte s).
Proof. exact ser_name_enc. Qed.
Theorem C04_string_literal : forall closing s, Forall (fun b => b < 128) s ->
  spell_run closing 0 s (flat_map ser_str_byte s) 0.
Proof. exact ser_string_literal_run. Qed.
Theorem C04_string_hex : forall s, wf_bytes s ->
  hex_run s (flat_map (fun b => [hexdig_lower (b / 16); hexdig_lower (b mod 16)]) s).
Proof. exact ser_string_hex_run. Qed.
Print Assumptions C04_string_hex.

(** "any finite real": a `Primitive::Number` is given to the model by its exact decimal expansion and by the text `{}` prints
    (`PNum exact short`, `short` of the form minus? digits (point digits)?).  The serializer writes either the integer the value is
    (integral, magnitude below 2^31) or `short` with a decimal point; [norm] replaces every number by what those bytes denote — the
    integer of equal value, or the real lexeme written — and the bytes written for v are those written for [norm v], which is
    storable; hence every value the object model holds parses back to its normal form ("integers and reals of equal numeric
    value being identified"). *)
Theorem C04_numbers_normal : forall v, holdable v -> storable (norm v) /\ ser (norm v) = ser v.
Proof. intros v H. split; [exact (norm_storable v H)|exact (ser_norm v)]. Qed.
Print Assumptions C04_numbers_normal.
Theorem C04_roundtrip_holdable : forall v, holdable v -> vdepth (norm v) <= MAX_DEPTH -> forall R,
  exists b, ser v = Ok b /\ parse R F_ANY b = Ok (norm v).
Proof. exact ser_parse_roundtrip_num. Qed.
Print Assumptions C04_roundtrip_holdable.
Example C04_numbers_nonvacuous :
  let tenth := [48; 46; 49] in        (* 0.1f32 = 0.100000001490116119384765625, printed "0.1" *)
  let exact := [48; 46; 49; 48; 48; 48; 48; 48; 48; 48; 49; 52; 57; 48; 49; 49; 54; 49; 49; 57; 51; 56; 52; 55; 54; 53; 54; 50; 53] in
  let big := [49; 54; 55; 55; 55; 50; 49; 54] in      (* 16777216.0 *)
  let huge := [52; 50; 57; 52; 57; 54; 55; 50; 57; 54] in   (* 2^32: integral but not below 2^31, printed with a point *)
  norm (PArr [PNum exact tenth; PNum big big; PNum huge huge]) = PArr [PReal tenth; PInt 16777216; PReal (huge ++ [46])] /\
  holdable (PArr [PNum exact tenth; PNum big big; PNum huge huge]).
Proof.
  split; [vm_compute; reflexivity|].
  apply ho_arr. repeat constructor.
  - exists [], [48], [49]. repeat split; try reflexivity; try discriminate. left. reflexivity. right. split; [discriminate|reflexivity].
  - exists [], [49; 54; 55; 55; 55; 50; 49; 54], []. repeat split; try reflexivity; try discriminate. left. reflexivity. left. reflexivity.
  - exists [], [52; 50; 57; 52; 57; 54; 55; 50; 57; 54], []. repeat split; try reflexivity; try discriminate. left. reflexivity. left. reflexivity.
Qed.

(** placement "indirect-object body": the object as Storage::write_revision writes it (header and terminator literals regenerated
    from file.rs) is read back as exactly (id, gen, v) — scalars included — and the parser stops right behind `endobj` *)
Theorem C04_indirect_body : forall v id gen,
  storable v -> vdepth v <= MAX_DEPTH -> id < 18446744073709551616 -> gen < 18446744073709551616 ->
  forall R allow rest p,
  exists body, ser v = Ok body /\
    parse_indirect_object R allow F_ANY (mkLx p (obj_text id gen body rest)) =
      Ok (id, gen, v, mkLx (p + lenN (obj_text id gen body rest) - lenN ([10] ++ rest)) ([10] ++ rest)).
Proof. exact ser_indirect_roundtrip. Qed.
Print Assumptions C04_indirect_body.

(** streams: a stream with pending data (any bytes) written as an indirect object — dictionary, `stream` LF, the data, LF `endstream`,
    the object terminator — is read back as the stream with the same dictionary whose data window is exactly the data written;
    /Length may be the direct integer or a reference the resolver resolves to it *)
Theorem C04_stream : forall d data id gen,
  NoDup (keys d) -> entries_storable d -> 1 + ddepth d <= MAX_DEPTH ->
  id < 18446744073709551616 -> gen < 18446744073709551616 ->
  forall R, length_entry R d (lenN data) ->
  forall allow rest p,
  exists body st s_end,
    ser (PStreamData d data) = Ok body /\
    parse_indirect_object R allow F_ANY (mkLx p (obj_text id gen body rest)) = Ok (id, gen, PStream d id gen st (lenN data), s_end) /\
    p <= st /\ take (lenN data) (drop (st - p) (obj_text id gen body rest)) = data /\
    lrest s_end = [10] ++ rest.
Proof. exact ser_stream_indirect. Qed.
Print Assumptions C04_stream.

(** serialising never panics — for every value, storable or not *)
Theorem C04_ser_no_panic : forall v s, ser v <> Panic s.
Proof. exact ser_no_panic. Qed.
Print Assumptions C04_ser_no_panic.

(** non-vacuity: a nested value is storable and round-trips *)
Example C04_nonvacuous :
  let v := PDict [([75], PArr [PInt (-5); PStr [40; 200]; PName [65; 32]; PRef 7 0]); ([76], PNull)] in
  storable v /\ vdepth v <= MAX_DEPTH /\ exists b, ser v = Ok b /\ parse no_resolve F_ANY b = Ok v.
Proof.
  split; [|split; [vm_compute; discriminate|]].
  2:{ eexists. split. - vm_compute. reflexivity. - vm_compute. reflexivity. }
  assert (W : forall l, forallb (fun b => b <? 256) l = true -> wf_bytes l).
  { intros l H. apply Forall_forall. intros b Hin. rewrite forallb_forall in H. apply N.ltb_lt. apply H. exact Hin. }
  apply st_dict.
  - apply NoDup_cons; [cbn; intros [H|[]]; discriminate|]. apply NoDup_cons; [intros []|constructor].
  - apply Forall_cons; [|apply Forall_cons; [|apply Forall_nil]]; cbn [fst snd].
    + split; [apply W; reflexivity|]. split; [reflexivity|].
      apply st_arr. apply Forall_cons; [apply st_int; lia|].
      apply Forall_cons; [apply st_str; apply W; reflexivity|].
      apply Forall_cons; [apply st_name; [apply W; reflexivity|reflexivity]|].
      apply Forall_cons; [apply st_ref; reflexivity|apply Forall_nil].
    + split; [apply W; reflexivity|]. split; [reflexivity|apply st_null].
Qed.
