(** PageTree/Model.v — executable model of the page-tree code of pdf-rs (property C07).

    Rust anchors (pdf/src/object/types.rs unless noted):
      PagesNode / PageTree / Page (the derive(Object) structs: /Type, /Parent, /Kids, /Count, /Resources,
      /MediaBox, /CropBox), PagesRc / PageRc, PageTree::{page, page_limited}, inherit,
      Page::{media_box, crop_box, resources}; pdf/src/file.rs File::{num_pages, get_page, pages} and
      StorageResolver::get (the "Recursive reference" chain).

    Object references are resolved through an abstract *store* (object number -> page-tree object), so the
    /Parent links and the order of /Kids are explicit.  How a file becomes such a store (lexer, parser, xref,
    object streams) is the business of other properties; the correspondence run feeds the model the store of the
    very tree whose file the implementation reads.  No proofs in this file. *)
From PdfV Require Import Base.Prelude Gen.Generated.

(** inheritable attributes of a node; boxes and resources are opaque tokens (the f32 bit patterns of the four
    numbers / the identity of the resource dictionary) — the code only moves them around *)
Record attrs := mkattrs { a_mb : option bytes; a_cb : option bytes; a_res : option bytes }.

Inductive kind := KPage | KPages.

(** one indirect object of the page tree as the derive(Object) readers see it *)
Record obj := mkobj {
  o_kind : kind;            (* /Type /Page | /Pages               (PagesNode::from_primitive) *)
  o_parent : option N;      (* /Parent                             (Page.parent : PagesRc, PageTree.parent : Option<PagesRc>) *)
  o_kids : list N;          (* /Kids  : Vec<Ref<PagesNode>>        (PageTree only) *)
  o_count : N;              (* /Count : u32                        (PageTree only) *)
  o_attrs : attrs }.

Definition store := list (N * obj).

Fixpoint lookup (st : store) (id : N) : option obj :=
  match st with
  | [] => None
  | (k, o) :: rest => if k =? id then Some o else lookup rest id
  end.

(** error kinds (util.rs::ekind) *)
Definition EOther : N := 0.
Definition EPageOutOfBounds : N := 1.
Definition EMissingEntry : N := 2.

(** panic sites *)
Definition site_sub : N := 1.     (* types.rs page_limited: `page_nr - pos`      (u32, debug: overflow check) *)
Definition site_add : N := 2.     (* types.rs page_limited: `pos += tree.count`  (u32) *)
Definition site_inc : N := 3.     (* types.rs page_limited: `pos += 1`           (u32) *)

Definition u32_max : N := 4294967295.

Definition u32_add (site a b : N) : res N :=
  if a + b <=? u32_max then Ok (a + b) else Panic site.
Definition u32_sub (site a b : N) : res N :=
  if b <=? a then Ok (a - b) else Panic site.

(** a loaded PageTree (the value behind a PagesRc): its own entries and the already loaded parent *)
Inductive ltree := LTree (a : attrs) (count : N) (kids : list N) (parent : option ltree).

(** a loaded PagesNode *)
Inductive lnode :=
| LNTree (t : ltree)
| LNLeaf (a : attrs) (parent : ltree).

(** file.rs StorageResolver::get::<PagesNode> followed by PagesRc::from_primitive, for a /Parent entry (or the
    catalog's /Pages): `chain` is the resolver's stack of references being loaded ("Recursive reference" when the
    key is on it); the object must be a /Pages dictionary; its own /Parent is loaded eagerly (Option<PagesRc>).
    Fuel: one unit per link; [S (length st)] always suffices (PageTree/Proofs.v load_tree_total). *)
Fixpoint load_tree (st : store) (fuel : nat) (chain : list N) (id : N) : res ltree :=
  match fuel with
  | O => OutOfFuel
  | S f =>
    if memN id chain then Err EOther                       (* bail!("Recursive reference") *)
    else match lookup st id with
    | None => Err EOther                                   (* NullRef / FreeObject *)
    | Some o =>
      match o_kind o with
      | KPage => Err EOther                                (* WrongDictionaryType {expected: "Pages"} *)
      | KPages =>
        match o_parent o with
        | None => Ok (LTree (o_attrs o) (o_count o) (o_kids o) None)
        | Some p => do pt <- load_tree st f (id :: chain) p;
                    Ok (LTree (o_attrs o) (o_count o) (o_kids o) (Some pt))
        end
      end
    end
  end.

(** file.rs StorageResolver::get::<PagesNode>(kid) as called from page_limited (empty chain at entry):
    PagesNode::from_primitive dispatches on /Type; a Page requires /Parent (PagesRc). *)
Definition get_node (st : store) (fuel : nat) (id : N) : res lnode :=
  match lookup st id with
  | None => Err EOther
  | Some o =>
    match o_kind o with
    | KPages => rmap LNTree (load_tree st fuel [] id)
    | KPage =>
      match o_parent o with
      | None => Err EMissingEntry                          (* MissingEntry {typ: "Page", field: "Parent"} *)
      | Some p => do pt <- load_tree st fuel [id] p; Ok (LNLeaf (o_attrs o) pt)
      end
    end
  end.

(** types.rs PageTree::page_limited — the `for &kid in &self.kids` loop.  [rec] is the recursive call
    `tree.page_limited(resolve, _, depth - 1)`.  Result: the PageRc (reference + loaded node). *)
Fixpoint walk (st : store) (fuel : nat) (rec : list N -> N -> res (N * lnode))
              (page_nr : N) (kids : list N) (pos : N) : res (N * lnode) :=
  match kids with
  | [] => Err EPageOutOfBounds                              (* PageOutOfBounds {page_nr, max: pos} *)
  | kid :: rest =>
    do node <- get_node st fuel kid;                        (* resolve.get(kid)? *)
    match node with
    | LNTree (LTree _ count tkids _) =>
      do off <- u32_sub site_sub page_nr pos;               (* page_nr - pos *)
      if off <? count then rec tkids off                    (* if page_nr - pos < tree.count { return tree.page_limited(..) } *)
      else do pos' <- u32_add site_add pos count;           (* pos += tree.count *)
           walk st fuel rec page_nr rest pos'
    | LNLeaf _ _ =>
      if pos =? page_nr then Ok (kid, node)                 (* return Ok(PageRc(node)) *)
      else do pos' <- u32_add site_inc pos page_leaf_step;  (* pos += 1 *)
           walk st fuel rec page_nr rest pos'
    end
  end.

(** types.rs PageTree::page_limited: `if depth == 0 { bail!("page tree depth exeeded") }`, `let mut pos = 0` *)
Fixpoint page_limited (st : store) (fuel : nat) (depth : nat) (kids : list N) (page_nr : N) : res (N * lnode) :=
  match depth with
  | O => Err EOther
  | S d => walk st fuel (page_limited st fuel d) page_nr kids page_pos_init
  end.

(** types.rs PageTree::page: `self.page_limited(resolve, page_nr, 16)` — the budget is regenerated from the source *)
Definition page (st : store) (fuel : nat) (t : ltree) (page_nr : N) : res (N * lnode) :=
  match t with LTree _ _ kids _ => page_limited st fuel (N.to_nat page_depth) kids page_nr end.

(** file.rs File::load_data: Trailer -> Catalog -> `pages: PagesRc` is loaded once, eagerly *)
Definition load_root (st : store) (fuel : nat) (root : N) : res ltree := load_tree st fuel [] root.

(** file.rs File::num_pages: `self.trailer.root.pages.count` *)
Definition num_pages (t : ltree) : N := match t with LTree _ count _ _ => count end.

(** file.rs File::get_page *)
Definition get_page (st : store) (fuel : nat) (root : ltree) (n : N) : res (N * lnode) := page st fuel root n.

(** file.rs File::pages: `(0 .. self.num_pages()).map(move |n| self.get_page(n))` *)
Definition pages (st : store) (fuel : nat) (root : ltree) : list (res (N * lnode)) :=
  map (get_page st fuel root) (seqN 0 (N.to_nat (num_pages root))).

(** types.rs inherit: walk up the loaded /Parent chain until [f] yields a value *)
Fixpoint inherit {T} (f : attrs -> option T) (t : ltree) : option T :=
  match t with
  | LTree a _ _ parent =>
    match f a with
    | Some x => Some x
    | None => match parent with Some p => inherit f p | None => None end
    end
  end.

(** types.rs Page::media_box *)
Definition media_box (a : attrs) (parent : ltree) : res bytes :=
  match a_mb a with
  | Some b => Ok b
  | None => match inherit a_mb parent with Some b => Ok b | None => Err EMissingEntry end
  end.

(** types.rs Page::crop_box *)
Definition crop_box (a : attrs) (parent : ltree) : res bytes :=
  match a_cb a with
  | Some b => Ok b
  | None => match inherit a_cb parent with Some b => Ok b | None => media_box a parent end
  end.

(** types.rs Page::resources *)
Definition resources (a : attrs) (parent : ltree) : res bytes :=
  match a_res a with
  | Some r => Ok r
  | None => match inherit a_res parent with Some r => Ok r | None => Err EMissingEntry end
  end.
