(** PageTree/Run.v — harness entry points of the page-tree model (modes page_query, page_iter).

    Model fields (the plugin passes the store of the tree whose file the implementation reads):
      page_query:  store-text  root  nq  extra     page_iter:  store-text  root
    store-text: one object per line (LF), tokens separated by one space:
      id  T|L  parent|-  count  mediabox|-  cropbox|-  resources|-  kid kid …
    Output fields are those of harness/src/modes/pagetree.rs. *)
From Coq Require Import String Ascii.
From PdfV Require Import Base.Prelude Gen.Generated PageTree.Model PageTree.Spec.

Definition field (fs : list bytes) (i : nat) : bytes := nth i fs [].

Definition bytes_of_string (s : string) : bytes := map N_of_ascii (list_ascii_of_string s).

Fixpoint split_on (sep : N) (l : bytes) : list bytes :=
  match l with
  | [] => [[]]
  | c :: t =>
    if c =? sep then [] :: split_on sep t
    else match split_on sep t with h :: r => (c :: h) :: r | [] => [[c]] end
  end.

Definition nonempty (l : bytes) : bool := match l with [] => false | _ => true end.

Definition opt_tok (t : bytes) : option bytes :=
  match t with
  | [c] => if c =? 45 then None else Some t
  | _ => Some t
  end.

Definition is_L (t : bytes) : bool := match t with [c] => c =? 76 | _ => false end.

Definition parse_obj (toks : list bytes) : option (N * obj) :=
  match toks with
  | id :: k :: par :: cnt :: mb :: cb :: rs :: kids =>
    Some (N_of_dec id,
          mkobj (if is_L k then KPage else KPages)
                (option_map N_of_dec (opt_tok par))
                (map N_of_dec kids) (N_of_dec cnt)
                (mkattrs (opt_tok mb) (opt_tok cb) (opt_tok rs)))
  | _ => None
  end.

Fixpoint cat_some {A} (l : list (option A)) : list A :=
  match l with [] => [] | Some a :: t => a :: cat_some t | None :: t => cat_some t end.

Definition parse_store (b : bytes) : store :=
  cat_some (map (fun ln => parse_obj (filter nonempty (split_on 32 ln)))
                (filter nonempty (split_on 10 b))).

Definition ename (e : N) : bytes :=
  if e =? EPageOutOfBounds then bytes_of_string "PageOutOfBounds"
  else if e =? EMissingEntry then bytes_of_string "MissingEntry"
  else bytes_of_string "Other".

(** a Result printed inside a field: value or !Kind; panics propagate (the harness catches them per case) *)
Definition tok (r : res bytes) : res bytes :=
  match r with
  | Ok b => Ok b
  | Err e => Ok (33 :: ename e)
  | Panic s => Panic s
  | OutOfFuel => OutOfFuel
  end.

Definition describe (r : res (N * lnode)) : res bytes :=
  match r with
  | Ok (id, LNLeaf a parent) =>
    do m <- tok (media_box a parent);
    do c <- tok (crop_box a parent);
    do s <- tok (resources a parent);
    Ok (80 :: dec_of_N id ++ [32] ++ m ++ [32] ++ c ++ [32] ++ s)
  | Ok (id, LNTree _) => Ok [63]             (* unreachable: PageRc always wraps a Leaf *)
  | Err e => Ok (33 :: ename e)
  | Panic s => Panic s
  | OutOfFuel => OutOfFuel
  end.

Definition ident (r : res (N * lnode)) : res bytes :=
  match r with
  | Ok (id, _) => Ok (80 :: dec_of_N id)
  | Err e => Ok (33 :: ename e)
  | Panic s => Panic s
  | OutOfFuel => OutOfFuel
  end.

Fixpoint collect {A} (l : list (res A)) : res (list A) :=
  match l with
  | [] => Ok []
  | r :: t => do a <- r; do rest <- collect t; Ok (a :: rest)
  end.

Definition run_page_query (fs : list bytes) : res (list bytes) :=
  let st := parse_store (field fs 0) in
  let fuel := S (length st) in
  do rt <- load_root st fuel (N_of_dec (field fs 1));
  let nq := N.to_nat (N_of_dec (field fs 2)) in
  let extra := map N_of_dec (filter nonempty (split_on 44 (field fs 3))) in
  do qs <- collect (map (fun i => describe (get_page st fuel rt i)) (seqN 0 nq ++ extra));
  Ok (dec_of_N (num_pages rt) :: qs).

Definition run_page_iter (fs : list bytes) : res (list bytes) :=
  let st := parse_store (field fs 0) in
  let fuel := S (length st) in
  do rt <- load_root st fuel (N_of_dec (field fs 1));
  collect (map ident (pages st fuel rt)).

(** ** the specification object itself, executable (mode page_spec): the tree the standard sees in the store,
    its [leaves], and [first_some] along the ancestors — compared on every run with the python oracle and with
    the implementation, so that the object the theorems talk about is the one the code is judged against *)
Fixpoint all_some {A} (l : list (option A)) : option (list A) :=
  match l with
  | [] => Some []
  | Some a :: t => option_map (cons a) (all_some t)
  | None :: _ => None
  end.

Fixpoint tree_of (st : store) (fuel : nat) (id : N) : option tree :=
  match fuel with
  | O => None
  | S f =>
    match lookup st id with
    | None => None
    | Some o =>
      match o_kind o with
      | KPage => Some (Leaf id (o_attrs o))
      | KPages => option_map (Node id (o_attrs o) (o_count o)) (all_some (map (tree_of st f) (o_kids o)))
      end
    end
  end.

Definition spec_describe (l : list (N * attrs * list attrs)) (i : N) : res bytes :=
  match nth_error l (N.to_nat i) with
  | Some (id, a, anc) =>
    do m <- tok (spec_media_box (a :: anc));
    do c <- tok (spec_crop_box (a :: anc));
    do s <- tok (spec_resources (a :: anc));
    Ok (80 :: dec_of_N id ++ [32] ++ m ++ [32] ++ c ++ [32] ++ s)
  | None => Ok (33 :: ename EPageOutOfBounds)
  end.

Definition run_page_spec (fs : list bytes) : res (list bytes) :=
  let st := parse_store (field fs 0) in
  match tree_of st (S (length st)) (N_of_dec (field fs 1)) with
  | None => Err EOther
  | Some t =>
    let nq := N.to_nat (N_of_dec (field fs 2)) in
    let extra := map N_of_dec (filter nonempty (split_on 44 (field fs 3))) in
    do qs <- collect (map (spec_describe (leaves t)) (seqN 0 nq ++ extra));
    Ok (dec_of_N (lenN (leaves t)) :: qs)
  end.
