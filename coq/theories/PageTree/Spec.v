(** PageTree/Spec.v — the specification object of C07, written from ISO 32000-1 §7.7.3 (page tree) and
    §7.7.3.4 (inheritance of page attributes), independently of the code:

      * a page tree is a finite ordered tree; its leaves are page objects, its inner nodes /Pages objects;
      * the pages of the document are the leaves in depth-first, left-to-right order of /Kids ([leaves]);
      * /Count of an inner node is the number of leaves below it ([accurate]);
      * an inheritable attribute of a page is the page's own entry if present, else that of the nearest
        ancestor that has one ([first_some] over the page followed by its ancestors, nearest first).

    Plus the relation between such a tree and an object store ([stored]: every node is an object with the
    right /Type, /Parent, /Kids, /Count and attributes), which is what "correct parent links" means. *)
From PdfV Require Import Base.Prelude Gen.Generated PageTree.Model.

Inductive tree :=
| Leaf (id : N) (a : attrs)
| Node (id : N) (a : attrs) (count : N) (kids : list tree).

Definition root_id (t : tree) : N := match t with Leaf id _ => id | Node id _ _ _ => id end.

Definition sumN (l : list N) : N := fold_right N.add 0 l.

(** number of leaves below a node *)
Fixpoint nleaves (t : tree) : N :=
  match t with
  | Leaf _ _ => 1
  | Node _ _ _ kids => sumN (map nleaves kids)
  end.

(** number of /Pages levels on the longest path *)
Fixpoint theight (t : tree) : nat :=
  match t with
  | Leaf _ _ => O
  | Node _ _ _ kids => S (list_max (map theight kids))
  end.

(** every /Count is the number of leaves below *)
Fixpoint accurateb (t : tree) : bool :=
  match t with
  | Leaf _ _ => true
  | Node _ _ c kids => (c =? sumN (map nleaves kids)) && forallb accurateb kids
  end.
Definition accurate (t : tree) : Prop := accurateb t = true.

(** no object number occurs twice on a path from the root ("acyclic kids") *)
Fixpoint acyclicb (seen : list N) (t : tree) : bool :=
  match t with
  | Leaf id _ => negb (memN id seen)
  | Node id _ _ kids => negb (memN id seen) && forallb (acyclicb (id :: seen)) kids
  end.
Definition acyclic (t : tree) : Prop := acyclicb [] t = true.

(** the pages in document order: object number, own attributes, attributes of the ancestors nearest first *)
Fixpoint leaves_from (anc : list attrs) (t : tree) : list (N * attrs * list attrs) :=
  match t with
  | Leaf id a => [(id, a, anc)]
  | Node _ a _ kids => flat_map (leaves_from (a :: anc)) kids
  end.
Definition leaves (t : tree) : list (N * attrs * list attrs) := leaves_from [] t.

(** nearest value of an attribute along a chain *)
Fixpoint first_some {T} (f : attrs -> option T) (chain : list attrs) : option T :=
  match chain with
  | [] => None
  | a :: rest => match f a with Some x => Some x | None => first_some f rest end
  end.

(** what the standard says a page's boxes and resources are (own :: ancestors) *)
Definition spec_media_box (chain : list attrs) : res bytes :=
  match first_some a_mb chain with Some b => Ok b | None => Err EMissingEntry end.
Definition spec_crop_box (chain : list attrs) : res bytes :=
  match first_some a_cb chain with Some b => Ok b | None => spec_media_box chain end.
Definition spec_resources (chain : list attrs) : res bytes :=
  match first_some a_res chain with Some b => Ok b | None => Err EMissingEntry end.

(** the tree is what the store holds: object [id] is a /Page (resp. /Pages) dictionary whose /Parent is the
    node above it, whose /Kids are the children's object numbers in order, whose /Count and attributes are
    the node's *)
Definition is_page (o : obj) (parent : option N) (a : attrs) : Prop :=
  o_kind o = KPage /\ o_parent o = parent /\ o_attrs o = a.
Definition is_pages (o : obj) (parent : option N) (a : attrs) (c : N) (kids : list N) : Prop :=
  o_kind o = KPages /\ o_parent o = parent /\ o_attrs o = a /\ o_count o = c /\ o_kids o = kids.

Fixpoint stored (st : store) (parent : option N) (t : tree) : Prop :=
  match t with
  | Leaf id a => exists o, lookup st id = Some o /\ is_page o parent a
  | Node id a c kids =>
    (exists o, lookup st id = Some o /\ is_pages o parent a c (map root_id kids)) /\
    fold_right (fun k P => stored st (Some id) k /\ P) True kids
  end.

(** the attribute chain a loaded /Pages node carries (itself, then its loaded parents) *)
Fixpoint chain_attrs (t : ltree) : list attrs :=
  match t with
  | LTree a _ _ parent => a :: match parent with Some p => chain_attrs p | None => [] end
  end.
