(** PageTree/Proofs.v — the page walk returns the n-th leaf with its true ancestor chain (C07). *)
From PdfV Require Import Base.Prelude Gen.Generated PageTree.Model PageTree.Spec.

(** ** generated-table lemmas (re-checked against the source on every run) *)
Lemma page_pos_init_0 : page_pos_init = 0. Proof. reflexivity. Qed.
Lemma page_leaf_step_1 : page_leaf_step = 1. Proof. reflexivity. Qed.
Lemma page_depth_step_1 : page_depth_step = 1. Proof. reflexivity. Qed.
Lemma page_depth_dozen : 12 <= page_depth. Proof. vm_compute. discriminate. Qed.

(** ** induction principle for the nested tree type *)
Section tree_ind'.
  Variable P : tree -> Prop.
  Hypothesis Hleaf : forall id a, P (Leaf id a).
  Hypothesis Hnode : forall id a c kids, Forall P kids -> P (Node id a c kids).
  Fixpoint tree_ind' (t : tree) : P t :=
    match t with
    | Leaf id a => Hleaf id a
    | Node id a c kids =>
      Hnode id a c kids
        ((fix go (l : list tree) : Forall P l :=
            match l with [] => Forall_nil _ | k :: r => Forall_cons _ (tree_ind' k) (go r) end) kids)
    end.
End tree_ind'.

(** ** the ancestors of a leaf with everything the store says about them *)
Record ninfo := mkninfo { n_id : N; n_attrs : attrs; n_count : N; n_kids : list N }.

Fixpoint leaves_anc (anc : list ninfo) (t : tree) : list (N * attrs * list ninfo) :=
  match t with
  | Leaf id a => [(id, a, anc)]
  | Node id a c kids => flat_map (leaves_anc (mkninfo id a c (map root_id kids) :: anc)) kids
  end.

Definition strip (e : N * attrs * list ninfo) : N * attrs * list attrs :=
  match e with (id, a, l) => (id, a, map n_attrs l) end.

Lemma leaves_anc_strip t : forall anc, map strip (leaves_anc anc t) = leaves_from (map n_attrs anc) t.
Proof.
  induction t as [id a|id a c kids IH] using tree_ind'; intros anc.
  - reflexivity.
  - cbn [leaves_anc leaves_from].
    set (me := mkninfo id a c (map root_id kids)).
    change (a :: map n_attrs anc) with (map n_attrs (me :: anc)).
    generalize (me :: anc). clear me. intros l.
    induction IH as [|k r Hk _ IHr]; [reflexivity|].
    cbn [flat_map]. rewrite map_app, IHr. rewrite Hk. reflexivity.
Qed.

Lemma len_leaves t : forall anc, length (leaves_anc anc t) = N.to_nat (nleaves t).
Proof.
  induction t as [id a|id a c kids IH] using tree_ind'; intros anc.
  - reflexivity.
  - cbn [leaves_anc nleaves].
    generalize (mkninfo id a c (map root_id kids) :: anc). intros l.
    induction IH as [|k r Hk _ IHr]; [reflexivity|].
    cbn [flat_map map sumN fold_right]. rewrite app_length, IHr, Hk.
    fold (sumN (map nleaves r)). lia.
Qed.

Lemma len_leaves_from t anc : lenN (leaves_from anc t) = nleaves t.
Proof.
  unfold lenN.
  assert (H : forall l, length (leaves_from (map n_attrs l) t) = N.to_nat (nleaves t)).
  { intros l. rewrite <- leaves_anc_strip, map_length. apply len_leaves. }
  assert (E : anc = map n_attrs (map (fun a => mkninfo 0 a 0 []) anc)).
  { rewrite map_map. cbn [n_attrs]. symmetry. apply map_id. }
  rewrite E, H. lia.
Qed.

(** ** what the store holds along a path of /Pages nodes (nearest first) *)
Fixpoint path_stored (st : store) (n : ninfo) (anc : list ninfo) : Prop :=
  (exists o, lookup st (n_id n) = Some o /\
             is_pages o (option_map n_id (hd_error anc)) (n_attrs n) (n_count n) (n_kids n)) /\
  match anc with [] => True | p :: rest => path_stored st p rest end.

Fixpoint ltree_of (n : ninfo) (anc : list ninfo) : ltree :=
  LTree (n_attrs n) (n_count n) (n_kids n)
        (match anc with [] => None | p :: rest => Some (ltree_of p rest) end).

Definition ltree_of_list (l : list ninfo) : ltree :=
  match l with
  | [] => LTree (mkattrs None None None) 0 [] None
  | n :: r => ltree_of n r
  end.

Lemma chain_attrs_ltree_of anc : forall n, chain_attrs (ltree_of n anc) = map n_attrs (n :: anc).
Proof.
  induction anc as [|p rest IH]; intros n.
  - reflexivity.
  - cbn [ltree_of chain_attrs]. rewrite IH. reflexivity.
Qed.

Lemma path_stored_head st n anc : path_stored st n anc ->
  exists o, lookup st (n_id n) = Some o /\
            is_pages o (option_map n_id (hd_error anc)) (n_attrs n) (n_count n) (n_kids n).
Proof. destruct anc; intros [H _]; exact H. Qed.

Lemma path_stored_tail st n p rest : path_stored st n (p :: rest) -> path_stored st p rest.
Proof. intros [_ H]. exact H. Qed.

(** loading a /Parent chain that the store holds yields exactly that chain *)
Lemma load_path st : forall anc n chain f,
  path_stored st n anc ->
  NoDup (map n_id (n :: anc)) ->
  (forall x, In x (map n_id (n :: anc)) -> ~ In x chain) ->
  (length anc < f)%nat ->
  load_tree st f chain (n_id n) = Ok (ltree_of n anc).
Proof.
  induction anc as [|p rest IH]; intros n chain f Hst Hnd Hdis Hf.
  - destruct f as [|f]; [cbn in Hf; lia|].
    destruct (path_stored_head _ _ _ Hst) as [o [Hlk [Hk [Hp [Ha [Hc Hkids]]]]]].
    cbn [load_tree].
    destruct (memN (n_id n) chain) eqn:E.
    { apply memN_In in E. exfalso. apply (Hdis (n_id n)); [left; reflexivity|exact E]. }
    rewrite Hlk, Hk, Hp. cbn [hd_error option_map]. rewrite Ha, Hc, Hkids. reflexivity.
  - destruct f as [|f]; [cbn in Hf; lia|].
    destruct (path_stored_head _ _ _ Hst) as [o [Hlk [Hk [Hp [Ha [Hc Hkids]]]]]].
    cbn [load_tree].
    destruct (memN (n_id n) chain) eqn:E.
    { apply memN_In in E. exfalso. apply (Hdis (n_id n)); [left; reflexivity|exact E]. }
    rewrite Hlk, Hk, Hp. cbn [hd_error option_map].
    rewrite (IH p (n_id n :: chain) f).
    + cbn [bind ltree_of]. rewrite Ha, Hc, Hkids. reflexivity.
    + exact (path_stored_tail _ _ _ _ Hst).
    + cbn [map] in Hnd. inversion Hnd; assumption.
    + intros x Hx [Hxe|Hxc].
      * cbn [map] in Hnd. inversion Hnd as [|y l Hni _]. subst. apply Hni. exact Hx.
      * apply (Hdis x); [right; exact Hx|exact Hxc].
    + cbn [length] in Hf. lia.
Qed.

(** ** helpers on the spec side *)
Lemma stored_kid st id k : forall kids,
  fold_right (fun k P => stored st (Some id) k /\ P) True kids -> In k kids -> stored st (Some id) k.
Proof.
  induction kids as [|x r IH]; intros H Hin; [destruct Hin|].
  destruct H as [Hx Hr]. destruct Hin as [->|Hin]; [exact Hx|exact (IH Hr Hin)].
Qed.

Lemma nleaves_kid_le k kids : In k kids -> nleaves k <= sumN (map nleaves kids).
Proof.
  induction kids as [|x r IH]; intros Hin; [destruct Hin|].
  cbn [map sumN fold_right]. fold (sumN (map nleaves r)).
  destruct Hin as [->|Hin]; [lia|]. specialize (IH Hin). lia.
Qed.

Lemma theight_kid_lt k kids : In k kids -> (theight k <= list_max (map theight kids))%nat.
Proof.
  intros Hin.
  assert (H : Forall (fun x => (x <= list_max (map theight kids))%nat) (map theight kids)).
  { apply list_max_le. lia. }
  rewrite Forall_forall in H. apply H. apply in_map. exact Hin.
Qed.

(** ** the loop *)
Section Walk.
  Variable st : store.
  Variable fuel : nat.

  Definition leaf_result (e : N * attrs * list ninfo) : res (N * lnode) :=
    match e with (lid, la, lanc) => Ok (lid, LNLeaf la (ltree_of_list lanc)) end.

  Definition answer (l : list (N * attrs * list ninfo)) (i : N) : res (N * lnode) :=
    match nth_error l (N.to_nat i) with Some e => leaf_result e | None => Err EPageOutOfBounds end.

  (** what is known about a kid of the node [me] whose ancestors are [anc] *)
  Definition kid_ok (me : ninfo) (anc : list ninfo) (k : tree) : Prop :=
    stored st (Some (n_id me)) k /\ accurate k /\ acyclicb (map n_id (me :: anc)) k = true.

  Lemma get_leaf me anc lid la :
    path_stored st me anc -> NoDup (map n_id (me :: anc)) -> (length anc < fuel)%nat ->
    kid_ok me anc (Leaf lid la) ->
    get_node st fuel lid = Ok (LNLeaf la (ltree_of me anc)).
  Proof.
    intros Hst Hnd Hf [Hsto [_ Hac]].
    destruct Hsto as [o [Hlk [Hk [Hp Ha]]]].
    unfold get_node. rewrite Hlk, Hk, Hp.
    rewrite (load_path st anc me [lid] fuel Hst Hnd); [cbn [bind]; rewrite Ha; reflexivity| |exact Hf].
    intros x Hx [Hxe|[]]. subst x.
    cbn [acyclicb] in Hac. apply negb_true_iff in Hac.
    assert (Hm : memN lid (map n_id (me :: anc)) = true) by (apply memN_In; exact Hx).
    congruence.
  Qed.

  Lemma get_tree me anc kid ka kc kkids :
    let kme := mkninfo kid ka kc (map root_id kkids) in
    path_stored st me anc -> NoDup (map n_id (me :: anc)) -> (S (length anc) < fuel)%nat ->
    kid_ok me anc (Node kid ka kc kkids) ->
    get_node st fuel kid = Ok (LNTree (ltree_of kme (me :: anc))) /\
    path_stored st kme (me :: anc) /\ NoDup (map n_id (kme :: me :: anc)).
  Proof.
    intros kme Hst Hnd Hf [Hsto [_ Hac]].
    destruct Hsto as [[o [Hlk Hpages]] Hkids].
    assert (Hst' : path_stored st kme (me :: anc)).
    { split; [|exact Hst]. exists o. split; [exact Hlk|exact Hpages]. }
    assert (Hnd' : NoDup (map n_id (kme :: me :: anc))).
    { cbn [map n_id kme]. constructor; [|exact Hnd].
      cbn [acyclicb] in Hac. apply andb_true_iff in Hac. destruct Hac as [Hac _].
      apply negb_true_iff in Hac. intros Hin.
      assert (Hm : memN kid (map n_id (me :: anc)) = true) by (apply memN_In; exact Hin).
      congruence. }
    split; [|split; assumption].
    destruct Hpages as [Hk _].
    unfold get_node. rewrite Hlk, Hk.
    change kid with (n_id kme) at 1.
    rewrite (load_path st (me :: anc) kme [] fuel Hst' Hnd'); [reflexivity| |cbn [length]; lia].
    intros x _ [].
  Qed.

  Lemma nth_error_skip {A} (e : A) l a b : b < a ->
    nth_error (e :: l) (N.to_nat (a - b)) = nth_error l (N.to_nat (a - (b + 1))).
  Proof.
    intros H. replace (a - b) with (N.succ (a - (b + 1))) by lia.
    rewrite N2Nat.inj_succ. reflexivity.
  Qed.

  (** the `for &kid in &self.kids` loop from position [pos] on, for the remaining kids [todo] *)
  Lemma walk_ok rec me anc page_nr : forall todo pos,
    path_stored st me anc -> NoDup (map n_id (me :: anc)) -> (S (length anc) < fuel)%nat ->
    (forall k, In k todo -> kid_ok me anc k) ->
    (forall kid ka kc kkids, In (Node kid ka kc kkids) todo ->
       forall off, off <= u32_max ->
         rec (map root_id kkids) off = answer (leaves_anc (me :: anc) (Node kid ka kc kkids)) off) ->
    pos <= page_nr -> page_nr <= u32_max ->
    walk st fuel rec page_nr (map root_id todo) pos =
      answer (flat_map (leaves_anc (me :: anc)) todo) (page_nr - pos).
  Proof.
    induction todo as [|k rest IH]; intros pos Hst Hnd Hf Hkids Hrec Hpos Hmax.
    - unfold answer. cbn [map walk flat_map]. destruct (N.to_nat (page_nr - pos)); reflexivity.
    - assert (Hk : kid_ok me anc k) by (apply Hkids; left; reflexivity).
      assert (IH' : forall pos', pos' <= page_nr ->
                walk st fuel rec page_nr (map root_id rest) pos' =
                answer (flat_map (leaves_anc (me :: anc)) rest) (page_nr - pos')).
      { intros pos' Hp'. apply IH; try assumption.
        - intros k' Hin. apply Hkids. right. exact Hin.
        - intros kid ka kc kkids Hin. apply Hrec. right. exact Hin. }
      destruct k as [lid la|kid ka kc kkids].
      + (* a leaf *)
        cbn [map root_id walk flat_map leaves_anc app].
        rewrite (get_leaf me anc lid la Hst Hnd ltac:(lia) Hk). cbn [bind].
        destruct (pos =? page_nr) eqn:E.
        * apply N.eqb_eq in E. subst pos. unfold answer.
          replace (page_nr - page_nr) with 0 by lia. reflexivity.
        * apply N.eqb_neq in E. rewrite page_leaf_step_1.
          unfold u32_add. assert (Hle : pos + 1 <=? u32_max = true) by (apply N.leb_le; lia).
          rewrite Hle. cbn [bind]. rewrite IH' by lia.
          unfold answer. rewrite nth_error_skip by lia. reflexivity.
      + (* a /Pages node *)
        destruct (get_tree me anc kid ka kc kkids Hst Hnd Hf Hk) as [Hget [Hst' Hnd']].
        cbn [map root_id walk flat_map].
        rewrite Hget. cbn [bind ltree_of n_count n_kids n_attrs].
        unfold u32_sub. assert (Hle : pos <=? page_nr = true) by (apply N.leb_le; exact Hpos).
        rewrite Hle. cbn [bind].
        assert (Hacc : kc = nleaves (Node kid ka kc kkids)).
        { destruct Hk as [_ [Hacc _]]. unfold accurate in Hacc. cbn [accurateb] in Hacc.
          apply andb_true_iff in Hacc. destruct Hacc as [Hacc _]. apply N.eqb_eq in Hacc. exact Hacc. }
        pose proof (len_leaves (Node kid ka kc kkids) (me :: anc)) as Hlen.
        rewrite <- Hacc in Hlen.
        destruct (page_nr - pos <? kc) eqn:E.
        * apply N.ltb_lt in E.
          rewrite (Hrec kid ka kc kkids) by (try (left; reflexivity); lia).
          unfold answer. rewrite nth_error_app1 by lia. reflexivity.
        * apply N.ltb_ge in E.
          unfold u32_add. assert (Hle2 : pos + kc <=? u32_max = true) by (apply N.leb_le; lia).
          rewrite Hle2. cbn [bind]. rewrite IH' by lia.
          unfold answer. rewrite nth_error_app2 by lia.
          rewrite Hlen.
          replace (N.to_nat (page_nr - pos) - N.to_nat kc)%nat with (N.to_nat (page_nr - (pos + kc))) by lia.
          reflexivity.
  Qed.

  (** PageTree::page_limited on a stored, accurate, acyclic sub-tree within the depth budget *)
  Lemma page_limited_ok : forall d id a c kids anc parent,
    let me := mkninfo id a c (map root_id kids) in
    let t := Node id a c kids in
    (theight t <= d)%nat -> (length anc + theight t < fuel)%nat ->
    stored st parent t -> accurate t -> acyclicb (map n_id anc) t = true ->
    path_stored st me anc -> NoDup (map n_id (me :: anc)) ->
    forall i, i <= u32_max ->
    page_limited st fuel d (map root_id kids) i = answer (leaves_anc anc t) i.
  Proof.
    induction d as [|d IH]; intros id a c kids anc parent me t Hh Hf Hsto Hacc Hcyc Hst Hnd i Hi.
    - cbn [theight t] in Hh. lia.
    - cbn [page_limited]. rewrite page_pos_init_0.
      replace i with (i - 0) at 2 by lia.
      cbn [t leaves_anc]. fold me.
      destruct Hsto as [_ Hkids].
      unfold accurate in Hacc. cbn [t accurateb] in Hacc. apply andb_true_iff in Hacc.
      destruct Hacc as [_ Hacck]. rewrite forallb_forall in Hacck.
      cbn [t acyclicb] in Hcyc. apply andb_true_iff in Hcyc. destruct Hcyc as [_ Hcyck].
      rewrite forallb_forall in Hcyck.
      cbn [theight t] in Hh, Hf.
      assert (Hkok : forall k, In k kids -> kid_ok me anc k).
      { intros k Hin. split; [|split].
        - exact (stored_kid st id k kids Hkids Hin).
        - apply Hacck. exact Hin.
        - cbn [map n_id me]. apply Hcyck. exact Hin. }
      apply walk_ok; try assumption; try lia.
      intros kid ka kc kkids Hin off Hoff.
      pose proof (theight_kid_lt _ _ Hin) as Hlt.
      destruct (Hkok _ Hin) as [Hs [Ha Hc]].
      destruct (get_tree me anc kid ka kc kkids Hst Hnd ltac:(cbn [theight] in Hlt; lia) (Hkok _ Hin)) as [_ [Hst' Hnd']].
      apply (IH kid ka kc kkids (me :: anc) (Some (n_id me))); try assumption.
      + lia.
      + cbn [length]. lia.
  Qed.
End Walk.

(** ** the theorems about the public API *)

Lemma leaves_anc_nonempty t : forall anc e, anc <> [] -> In e (leaves_anc anc t) -> snd e <> [].
Proof.
  induction t as [id a|id a c kids IH] using tree_ind'; intros anc e Hne Hin.
  - destruct Hin as [<-|[]]. exact Hne.
  - cbn [leaves_anc] in Hin. apply in_flat_map in Hin. destruct Hin as [k [Hk He]].
    rewrite Forall_forall in IH. eapply (IH k Hk); [|exact He]. discriminate.
Qed.

(** what get_page must answer for page [i] of tree [t] *)
Definition page_answer (t : tree) (i : N) (r : res (N * lnode)) : Prop :=
  match nth_error (leaves t) (N.to_nat i) with
  | Some (lid, la, lanc) => exists p, r = Ok (lid, LNLeaf la p) /\ chain_attrs p = lanc
  | None => r = Err EPageOutOfBounds
  end.

Lemma answer_page_answer id a c kids i :
  page_answer (Node id a c kids) i (answer (leaves_anc [] (Node id a c kids)) i).
Proof.
  unfold page_answer, answer, leaves.
  change (@nil attrs) with (map n_attrs []). rewrite <- leaves_anc_strip.
  rewrite nth_error_map.
  destruct (nth_error (leaves_anc [] (Node id a c kids)) (N.to_nat i)) as [[[lid la] lanc]|] eqn:E;
    cbn [option_map strip leaf_result]; [|reflexivity].
  exists (ltree_of_list lanc). split; [reflexivity|].
  apply nth_error_In in E. cbn [leaves_anc] in E. apply in_flat_map in E. destruct E as [k [_ He]].
  apply leaves_anc_nonempty in He; [|discriminate]. cbn [snd] in He.
  destruct lanc as [|n r]; [congruence|]. cbn [ltree_of_list]. apply chain_attrs_ltree_of.
Qed.

Theorem page_correct st fuel id a c kids i :
  let t := Node id a c kids in
  stored st None t -> accurate t -> acyclic t ->
  (theight t <= N.to_nat page_depth)%nat -> (theight t < fuel)%nat -> i <= u32_max ->
  exists rt, load_root st fuel id = Ok rt /\ num_pages rt = lenN (leaves t) /\
             page_answer t i (get_page st fuel rt i).
Proof.
  intros t Hsto Hacc Hcyc Hd Hf Hi.
  set (me := mkninfo id a c (map root_id kids)).
  assert (Hst : path_stored st me []).
  { split; [|exact I]. destruct Hsto as [Ho _]. exact Ho. }
  assert (Hnd : NoDup (map n_id [me])) by (constructor; [intros []|constructor]).
  exists (ltree_of me []). split; [|split].
  - unfold load_root. change id with (n_id me).
    apply load_path; [exact Hst|exact Hnd|intros x _ []|cbn [length theight t] in *; lia].
  - cbn [ltree_of num_pages n_count me]. unfold leaves. rewrite len_leaves_from.
    unfold accurate in Hacc. cbn [t accurateb] in Hacc. apply andb_true_iff in Hacc.
    destruct Hacc as [Hacc _]. apply N.eqb_eq in Hacc. exact Hacc.
  - unfold get_page, page. cbn [ltree_of n_kids me].
    rewrite (page_limited_ok st fuel (N.to_nat page_depth) id a c kids [] None Hd
               ltac:(cbn [length]; fold t; lia) Hsto Hacc Hcyc Hst Hnd i Hi).
    apply answer_page_answer.
Qed.

Theorem count_correct st fuel id a c kids :
  let t := Node id a c kids in
  stored st None t -> accurate t -> acyclic t ->
  (theight t <= N.to_nat page_depth)%nat -> (theight t < fuel)%nat ->
  exists rt, load_root st fuel id = Ok rt /\ num_pages rt = lenN (leaves t).
Proof.
  intros t H1 H2 H3 H4 H5.
  destruct (page_correct st fuel id a c kids 0 H1 H2 H3 H4 H5) as [rt [Ha [Hb _]]]; [discriminate|].
  exists rt. split; assumption.
Qed.

(** File::pages yields exactly the leaves, in order *)
Lemma Forall2_seqN {A B} (R : A -> B -> Prop) (g : N -> A) : forall (l : list B) s,
  (forall i e, nth_error l i = Some e -> R (g (s + N.of_nat i)) e) ->
  Forall2 R (map g (seqN s (length l))) l.
Proof.
  induction l as [|e l IH]; intros s H; [constructor|].
  cbn [length seqN map]. constructor.
  - specialize (H O e eq_refl). cbn in H. rewrite N.add_0_r in H. exact H.
  - apply IH. intros i e' He. specialize (H (S i) e' He).
    replace (s + 1 + N.of_nat i) with (s + N.of_nat (S i)) by lia. exact H.
Qed.

Theorem pages_correct st fuel id a c kids :
  let t := Node id a c kids in
  stored st None t -> accurate t -> acyclic t ->
  (theight t <= N.to_nat page_depth)%nat -> (theight t < fuel)%nat -> c <= u32_max ->
  exists rt, load_root st fuel id = Ok rt /\
    Forall2 (fun r l => match l with (lid, la, lanc) =>
                          exists p, r = Ok (lid, LNLeaf la p) /\ chain_attrs p = lanc end)
            (pages st fuel rt) (leaves t).
Proof.
  intros t Hsto Hacc Hcyc Hd Hf Hc.
  destruct (page_correct st fuel id a c kids 0 Hsto Hacc Hcyc Hd Hf ltac:(unfold u32_max; lia)) as [rt [Hload [Hnum _]]].
  exists rt. split; [exact Hload|].
  unfold pages. fold t in Hnum. rewrite Hnum. unfold lenN. rewrite Nat2N.id.
  apply Forall2_seqN. intros i e He.
  assert (Hlt : (i < length (leaves t))%nat) by (apply nth_error_Some; congruence).
  assert (Hc' : lenN (leaves t) = c).
  { unfold leaves. rewrite len_leaves_from.
    unfold accurate in Hacc. cbn [t accurateb] in Hacc. apply andb_true_iff in Hacc.
    destruct Hacc as [Hacc _]. apply N.eqb_eq in Hacc. symmetry. exact Hacc. }
  unfold lenN in Hc'.
  destruct (page_correct st fuel id a c kids (0 + N.of_nat i) Hsto Hacc Hcyc Hd Hf ltac:(lia))
    as [rt' [Hload' [_ Hans]]].
  rewrite Hload in Hload'. inversion Hload'; subst rt'.
  unfold page_answer in Hans. fold t in Hans.
  replace (N.to_nat (0 + N.of_nat i)) with i in Hans by lia.
  rewrite He in Hans. exact Hans.
Qed.

(** inherit walks the loaded chain nearest first *)
Fixpoint inherit_first_some {T} (f : attrs -> option T) (p : ltree) {struct p} :
  inherit f p = first_some f (chain_attrs p).
Proof.
  destruct p as [a c k [q|]]; cbn [inherit chain_attrs first_some]; destruct (f a); try reflexivity.
  apply inherit_first_some.
Qed.

Theorem inherit_correct a p :
  media_box a p = spec_media_box (a :: chain_attrs p) /\
  crop_box a p = spec_crop_box (a :: chain_attrs p) /\
  resources a p = spec_resources (a :: chain_attrs p).
Proof.
  unfold crop_box, spec_crop_box. unfold media_box, resources, spec_media_box, spec_resources.
  cbn [first_some]. rewrite !inherit_first_some.
  destruct (a_mb a), (a_cb a), (a_res a); repeat split; reflexivity.
Qed.

(** the two halves composed: what the caller of get_page(i) observes *)
Theorem page_attributes_correct st fuel id a c kids i :
  let t := Node id a c kids in
  stored st None t -> accurate t -> acyclic t ->
  (theight t <= N.to_nat page_depth)%nat -> (theight t < fuel)%nat -> i <= u32_max ->
  exists rt, load_root st fuel id = Ok rt /\
    match nth_error (leaves t) (N.to_nat i) with
    | Some (lid, la, lanc) =>
      exists p, get_page st fuel rt i = Ok (lid, LNLeaf la p) /\
                media_box la p = spec_media_box (la :: lanc) /\
                crop_box la p = spec_crop_box (la :: lanc) /\
                resources la p = spec_resources (la :: lanc)
    | None => get_page st fuel rt i = Err EPageOutOfBounds
    end.
Proof.
  intros t H1 H2 H3 H4 H5 H6.
  destruct (page_correct st fuel id a c kids i H1 H2 H3 H4 H5 H6) as [rt [Hl [_ Hp]]].
  exists rt. split; [exact Hl|]. unfold page_answer in Hp. fold t in Hp.
  destruct (nth_error (leaves t) (N.to_nat i)) as [[[lid la] lanc]|]; [|exact Hp].
  destruct Hp as [p [Hg Hc]]. exists p. split; [exact Hg|].
  rewrite <- Hc. apply inherit_correct.
Qed.

(** ** no panic, no fuel exhaustion — for every store, whatever its counts, links and cycles *)
Lemma no_panic_bind {A B} (r : res A) (f : A -> res B) :
  no_panic r -> (forall x, r = Ok x -> no_panic (f x)) -> no_panic (bind r f).
Proof. destruct r; cbn; intros H Hf; try exact H. apply Hf. reflexivity. Qed.

Lemma lookup_In st id o : lookup st id = Some o -> In id (map fst st).
Proof.
  induction st as [|[k v] st IH]; cbn [lookup map fst]; [discriminate|].
  destruct (k =? id) eqn:E; [apply N.eqb_eq in E; left; exact E|right; auto].
Qed.

Lemma load_tree_total st : forall fuel chain id,
  NoDup chain -> incl chain (map fst st) -> (length st < fuel + length chain)%nat ->
  no_panic (load_tree st fuel chain id).
Proof.
  induction fuel as [|f IH]; intros chain id Hnd Hin Hlen.
  - exfalso. pose proof (NoDup_incl_length Hnd Hin) as H. rewrite map_length in H. cbn in Hlen. lia.
  - cbn [load_tree]. destruct (memN id chain) eqn:E; [exact I|].
    destruct (lookup st id) as [o|] eqn:Hlk; [|exact I].
    destruct (o_kind o); [exact I|]. destruct (o_parent o) as [p|]; [|exact I].
    apply no_panic_bind; [|intros; exact I].
    apply IH.
    + constructor; [|exact Hnd]. intros Hc. apply memN_In in Hc. congruence.
    + intros x [<-|Hx]; [exact (lookup_In _ _ _ Hlk)|apply Hin; exact Hx].
    + cbn [length]. lia.
Qed.

Lemma get_node_total st id : no_panic (get_node st (S (length st)) id).
Proof.
  unfold get_node. destruct (lookup st id) as [o|] eqn:Hlk; [|exact I].
  destruct (o_kind o).
  - destruct (o_parent o) as [p|]; [|exact I].
    apply no_panic_bind; [|intros; exact I].
    apply load_tree_total.
    + constructor; [intros []|constructor].
    + intros x [<-|[]]. exact (lookup_In _ _ _ Hlk).
    + cbn [length]. lia.
  - assert (H : no_panic (load_tree st (S (length st)) [] id)).
    { apply load_tree_total; [constructor|intros x []|cbn [length]; lia]. }
    destruct (load_tree st (S (length st)) [] id); exact H.
Qed.

Lemma walk_total st rec page_nr :
  (forall ks off, off <= u32_max -> no_panic (rec ks off)) -> page_nr <= u32_max ->
  forall kids pos, pos <= page_nr -> no_panic (walk st (S (length st)) rec page_nr kids pos).
Proof.
  intros Hrec Hmax. induction kids as [|k rest IH]; intros pos Hpos; [exact I|].
  cbn [walk]. apply no_panic_bind; [apply get_node_total|]. intros node _.
  destruct node as [[ta count tkids tp]|la lp].
  - unfold u32_sub. assert (Hle : pos <=? page_nr = true) by (apply N.leb_le; exact Hpos).
    rewrite Hle. cbn [bind].
    destruct (page_nr - pos <? count) eqn:E.
    + apply Hrec. lia.
    + apply N.ltb_ge in E. unfold u32_add.
      assert (Hle2 : pos + count <=? u32_max = true) by (apply N.leb_le; lia).
      rewrite Hle2. cbn [bind]. apply IH. lia.
  - destruct (pos =? page_nr) eqn:E; [exact I|]. apply N.eqb_neq in E.
    rewrite page_leaf_step_1. unfold u32_add.
    assert (Hle2 : pos + 1 <=? u32_max = true) by (apply N.leb_le; lia).
    rewrite Hle2. cbn [bind]. apply IH. lia.
Qed.

Lemma page_limited_total st : forall d kids i, i <= u32_max ->
  no_panic (page_limited st (S (length st)) d kids i).
Proof.
  induction d as [|d IH]; intros kids i Hi; [exact I|].
  cbn [page_limited]. rewrite page_pos_init_0.
  apply walk_total; [intros ks off Hoff; apply IH; exact Hoff|exact Hi|lia].
Qed.

Theorem page_api_total st root i : i <= u32_max ->
  no_panic (load_root st (S (length st)) root) /\
  forall rt, no_panic (get_page st (S (length st)) rt i).
Proof.
  intros Hi. split.
  - apply load_tree_total; [constructor|intros x []|cbn [length]; lia].
  - intros [a c kids p]. unfold get_page, page. apply page_limited_total. exact Hi.
Qed.

(** ** generated dictionary keys and /Type dispatch are the standard's *)
Definition str (l : list N) : list N := l.
Lemma keys_std :
  pagetree_keys = [ ([80;97;114;101;110;116], [112;97;114;101;110;116]);                              (* Parent    -> parent *)
                    ([75;105;100;115], [107;105;100;115]);                                            (* Kids      -> kids *)
                    ([67;111;117;110;116], [99;111;117;110;116]);                                     (* Count     -> count *)
                    ([82;101;115;111;117;114;99;101;115], [114;101;115;111;117;114;99;101;115]);      (* Resources -> resources *)
                    ([77;101;100;105;97;66;111;120], [109;101;100;105;97;95;98;111;120]);             (* MediaBox  -> media_box *)
                    ([67;114;111;112;66;111;120], [99;114;111;112;95;98;111;120]) ] /\                (* CropBox   -> crop_box *)
  page_inh_keys = [ ([80;97;114;101;110;116], [112;97;114;101;110;116]);
                    ([82;101;115;111;117;114;99;101;115], [114;101;115;111;117;114;99;101;115]);
                    ([77;101;100;105;97;66;111;120], [109;101;100;105;97;95;98;111;120]);
                    ([67;114;111;112;66;111;120], [99;114;111;112;95;98;111;120]) ] /\
  pagesnode_types = [ ([80;97;103;101], 0); ([80;97;103;101;115], 1) ] /\                             (* Page -> Leaf, Pages -> Tree *)
  num_pages_field = [116;114;97;105;108;101;114;46;114;111;111;116;46;112;97;103;101;115;46;99;111;117;110;116] /\ (* trailer.root.pages.count *)
  page_pos_init = 0 /\ page_leaf_step = 1 /\ page_depth_step = 1.
Proof. repeat split; reflexivity. Qed.
