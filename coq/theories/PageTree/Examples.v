(** PageTree/Examples.v — non-vacuity: an uneven three-level tree with empty intermediate nodes meets every
    premise of the C07 theorems, and the model answers on it are the expected pages. *)
From PdfV Require Import Base.Prelude Gen.Generated PageTree.Model PageTree.Spec PageTree.Proofs.

Definition no_attrs : attrs := mkattrs None None None.
Definition M0 : bytes := [77; 48].   (* "M0" stands for a media box token *)
Definition M1 : bytes := [77; 49].
Definition M2 : bytes := [77; 50].
Definition C1 : bytes := [67; 49].
Definition C2 : bytes := [67; 50].
Definition RA : bytes := [82; 65].
Definition RR : bytes := [82; 82].

(**  1 (mb M0, res RR)
     ├─ 2 leaf (res RA)
     ├─ 3 (mb M1)          count 2
     │   ├─ 4 leaf
     │   ├─ 5              count 0   (empty intermediate node)
     │   └─ 6 leaf (cb C1)
     ├─ 7                  count 0   (empty intermediate node)
     ├─ 8                  count 2
     │   └─ 9 (cb C2)      count 2
     │       ├─ 10 leaf (mb M2)
     │       └─ 11 leaf
     └─ 12 leaf                                                          6 pages, three /Pages levels *)
Definition ex_tree : tree :=
  Node 1 (mkattrs (Some M0) None (Some RR)) 6
    [ Leaf 2 (mkattrs None None (Some RA));
      Node 3 (mkattrs (Some M1) None None) 2
        [ Leaf 4 no_attrs; Node 5 no_attrs 0 []; Leaf 6 (mkattrs None (Some C1) None) ];
      Node 7 no_attrs 0 [];
      Node 8 no_attrs 2
        [ Node 9 (mkattrs None (Some C2) None) 2
            [ Leaf 10 (mkattrs (Some M2) None None); Leaf 11 no_attrs ] ];
      Leaf 12 no_attrs ].

(** the objects of the tree, in an arbitrary order *)
Fixpoint encode (parent : option N) (t : tree) : store :=
  match t with
  | Leaf id a => [(id, mkobj KPage parent [] 0 a)]
  | Node id a c kids =>
    flat_map (encode (Some id)) kids ++ [(id, mkobj KPages parent (map root_id kids) c a)]
  end.
Definition ex_store : store := encode None ex_tree.

Lemma ex_stored : stored ex_store None ex_tree.
Proof. cbn [stored ex_tree fold_right map root_id]. repeat (split || eexists). Qed.

Lemma ex_premises :
  stored ex_store None ex_tree /\ accurate ex_tree /\ acyclic ex_tree /\
  (theight ex_tree <= N.to_nat page_depth)%nat /\ (theight ex_tree < S (length ex_store))%nat /\
  theight ex_tree = 3%nat /\ lenN (leaves ex_tree) = 6.
Proof.
  split; [exact ex_stored|]. split; [reflexivity|]. split; [reflexivity|].
  split; [vm_compute; lia|]. split; [vm_compute; lia|]. split; reflexivity.
Qed.

(** the pages in order: object numbers and the three attributes each page ends up with *)
Definition observe (r : res (N * lnode)) : res (N * res bytes * res bytes * res bytes) :=
  match r with
  | Ok (id, LNLeaf a p) => Ok (id, media_box a p, crop_box a p, resources a p)
  | Ok (_, LNTree _) => Err 99
  | Err e => Err e | Panic s => Panic s | OutOfFuel => OutOfFuel
  end.

Example ex_answers :
  exists rt, load_root ex_store (S (length ex_store)) 1 = Ok rt /\ num_pages rt = 6 /\
  map (fun i => observe (get_page ex_store (S (length ex_store)) rt i)) [0; 1; 2; 3; 4; 5; 6; 7; 4294967295] =
  [ Ok (2,  Ok M0, Ok M0, Ok RA);       (* own resources, media box from the root, crop box = media box *)
    Ok (4,  Ok M1, Ok M1, Ok RR);       (* media box from the parent, resources from the grand-parent *)
    Ok (6,  Ok M1, Ok C1, Ok RR);       (* own crop box; the empty node 5 contributes no page *)
    Ok (10, Ok M2, Ok C2, Ok RR);       (* own media box, crop box from the parent 9, resources from the root *)
    Ok (11, Ok M0, Ok C2, Ok RR);       (* media box from the root three levels up *)
    Ok (12, Ok M0, Ok M0, Ok RR);
    Err EPageOutOfBounds; Err EPageOutOfBounds; Err EPageOutOfBounds ].
Proof. eexists. split; [vm_compute; reflexivity|]. split; vm_compute; reflexivity. Qed.

(** the general theorem instantiated on the example agrees with the computation above *)
Example ex_theorem_applies : forall i, i <= u32_max ->
  exists rt, load_root ex_store (S (length ex_store)) 1 = Ok rt /\ num_pages rt = lenN (leaves ex_tree) /\
             page_answer ex_tree i (get_page ex_store (S (length ex_store)) rt i).
Proof.
  intros i Hi. destruct ex_premises as [H1 [H2 [H3 [H4 [H5 _]]]]].
  exact (page_correct ex_store (S (length ex_store)) _ _ _ _ i H1 H2 H3 H4 H5 Hi).
Qed.

(** "correct parent links" is a real premise: the code follows /Parent, not the path it descended.
    Page 4 re-parented to node 8 is still found as page 1 but now inherits from 8 and the root. *)
Definition ex_store_foreign : store :=
  (4, mkobj KPage (Some 8) [] 0 no_attrs) :: ex_store.
Example ex_foreign_parent :
  exists rt, load_root ex_store_foreign (S (length ex_store_foreign)) 1 = Ok rt /\
  observe (get_page ex_store_foreign (S (length ex_store_foreign)) rt 1) = Ok (4, Ok M0, Ok M0, Ok RR).
Proof. eexists. split; [vm_compute; reflexivity|vm_compute; reflexivity]. Qed.

(** a tree one level deeper than the budget is refused with an error, never answered wrongly *)
Fixpoint spine (n : nat) (id : N) : tree :=
  match n with
  | O => Leaf id no_attrs
  | S k => Node id no_attrs 1 [spine k (id + 1)]
  end.
Example ex_budget :
  let deep := spine (S (N.to_nat page_depth)) 1 in
  let st := encode None deep in
  (exists rt, load_root st (S (length st)) 1 = Ok rt /\ get_page st (S (length st)) rt 0 = Err EOther) /\
  let ok := spine (N.to_nat page_depth) 1 in
  let st' := encode None ok in
  (exists rt, load_root st' (S (length st')) 1 = Ok rt /\
              observe (get_page st' (S (length st')) rt 0) = Ok (1 + page_depth, Err EMissingEntry, Err EMissingEntry, Err EMissingEntry)).
Proof.
  split; (eexists; split; [vm_compute; reflexivity|vm_compute; reflexivity]).
Qed.
