(** Safety/Front.v — what "never panics, never hangs" means for the modelled front end (C01).
    Definitions only; the proofs are in Safety/FrontProofs.v.

    The models of the byte-level front end live in Lex/Lexer.v, Lex/StrLexer.v, Syn/Parser.v and
    Syn/Run.v (lex_all); the stream decoders (Codec/) are proved total by their own area and are
    re-exported in Properties/C01.v; every Rust operation that can panic is an explicit
    [Panic site] there, every loop that is not structural takes fuel.  The entry points call
    the fuelled functions with a fuel that is LINEAR in the input (lexer/parser:
    [fuel_for s = 2 * remaining + 4], loops: [S (length input)]): "the result is never
    [OutOfFuel]" is therefore the termination-with-linear-cost half of C01, "never [Panic]" the
    totality half. *)
From PdfV Require Import Base.Prelude Gen.Generated Lex.Lexer Syn.Prim Syn.Parser.

(* the outcome is a value or an error value: no panic at any site, fuel not exhausted *)
Definition never_crashes {A} (r : res A) : Prop := (forall site, r <> Panic site) /\ r <> OutOfFuel.

(* a resolver that itself returns a value or an error (Resolve::resolve_flags is the caller's object) *)
Definition total_resolver (R : resolver) : Prop := forall id gen flags, never_crashes (R id gen flags).

(* postcondition style used by the proofs: [r] is a value satisfying Q, or an error value *)
Definition post {A} (Q : A -> Prop) (r : res A) : Prop :=
  match r with Ok a => Q a | Err _ => True | Panic _ => False | OutOfFuel => False end.

(* remaining input of a lexer state *)
Definition remaining (s : lx) : nat := length (lrest s).

(* the recursion fuel handed out by the entry points is linear in the remaining input *)
Definition linear_fuel (s : lx) : Prop := fuel_for s = (2 * remaining s + 4)%nat.
