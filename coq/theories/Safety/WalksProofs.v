(** Safety/WalksProofs.v — the guarded recursion terminates within depth |graph| + 1 on every finite graph, never
    trips its own assertion and leaves the guard stack as it found it; unguarded recursion diverges on a cycle;
    the repaired tree walks visit every node at most once. *)
From PdfV Require Import Base.Prelude Gen.Generated Safety.Front Safety.FrontProofs Safety.Walks.

Lemma memN_false_notin x l : memN x l = false -> ~ In x l.
Proof. intros H Hin. apply memN_In in Hin. rewrite Hin in H. discriminate. Qed.

Section Guarded.
  Variable nodes : list N.
  Variable g : graph.
  Hypothesis closed : forall n, In n nodes -> incl (g n) nodes.
  Variable stop : bool.

  Definition inv (chain : list N) : Prop := NoDup chain /\ incl chain nodes.

  Lemma guarded_restores : forall fuel chain key, inv chain -> In key nodes ->
    (length nodes - length chain < fuel)%nat ->
    exists ok, guarded fuel stop g chain key = Ok (chain, ok).
  Proof.
    induction fuel as [|f IH]; intros chain key [Hnd Hinc] Hk Hf; [lia|].
    cbn [guarded]. destruct (memN key chain) eqn:Em; [eexists; reflexivity|].
    apply memN_false_notin in Em.
    assert (Hinv1 : inv (key :: chain)).
    { split; [constructor; assumption|]. intros x [Hx|Hx]; [subst; exact Hk|apply Hinc; exact Hx]. }
    assert (Hlen : (S (length chain) <= length nodes)%nat).
    { destruct Hinv1 as [A B]. apply (NoDup_incl_length A B). }
    assert (Hf1 : (length nodes - length (key :: chain) < f)%nat) by (cbn [length]; lia).
    (* the loop over the referenced objects leaves the chain unchanged *)
    assert (Hloop : forall cs ok0, incl cs nodes -> exists ok1,
      (fix each (cs : list N) (ch : list N) (ok : bool) {struct cs} : res (list N * bool) :=
         match cs with
         | [] => Ok (ch, ok)
         | c :: t =>
           do (ch', ok') <- guarded f stop g ch c;
           if negb ok' && stop then Ok (ch', false) else each t ch' (ok && ok')
         end) cs (key :: chain) ok0 = Ok (key :: chain, ok1)).
    { induction cs as [|c t IHc]; intros ok0 Hcs; [eexists; reflexivity|].
      destruct (IH (key :: chain) c Hinv1 (Hcs c (or_introl eq_refl)) Hf1) as [okc Hc].
      rewrite Hc. cbn [bind]. destruct (negb okc && stop); [eexists; reflexivity|].
      apply IHc. intros x Hx. apply Hcs. right. exact Hx. }
    destruct (Hloop (g key) true (closed key Hk)) as [ok1 H1]. rewrite H1. cbn [bind].
    rewrite N.eqb_refl. eexists; reflexivity.
  Qed.

  Theorem guarded_walk_total : forall key, In key nodes ->
    exists ok, guarded (S (length nodes)) stop g [] key = Ok ([], ok).
  Proof.
    intros key Hk. apply guarded_restores; [split; [constructor|intros x []]|exact Hk|cbn [length]; lia].
  Qed.
End Guarded.

(* C14-a (before the repair): on a node that refers to itself, recursion without a guard uses up ANY budget *)
Theorem unguarded_cycle_diverges : forall fuel, unguarded fuel (fun _ => [0]) 0 = OutOfFuel.
Proof. induction fuel as [|f IH]; [reflexivity|]. cbn [unguarded]. rewrite IH. reflexivity. Qed.

Theorem unguarded_refuted : ~ (forall g key, exists fuel, unguarded fuel g key <> OutOfFuel).
Proof. intros H. destruct (H (fun _ => [0]) 0) as [fuel Hf]. apply Hf. apply unguarded_cycle_diverges. Qed.

(* the repaired walks: the visited set stays duplicate-free and only grows by nodes of the graph, so the number of
   nodes visited (= loads + recursive calls) is at most the number of distinct nodes; depth <= tree_depth by construction *)
Lemma tree_walk_inv (g : graph) : forall depth kids seen seen',
  tree_walk depth g kids seen = Ok seen' -> NoDup seen ->
  NoDup seen' /\ (forall x, In x seen -> In x seen') /\
  (forall nodes, incl kids nodes -> (forall n, In n nodes -> incl (g n) nodes) -> incl seen nodes -> incl seen' nodes).
Proof.
  induction depth as [|d IH]; intros kids seen seen' H Hnd; [discriminate|].
  cbn [tree_walk] in H. revert seen seen' H Hnd.
  induction kids as [|k t IHk]; intros seen seen' H Hnd.
  - inversion H; subst. split; [exact Hnd|]. split; [auto|]. intros; assumption.
  - destruct (memN k seen) eqn:Em; [discriminate|]. apply memN_false_notin in Em.
    destruct (tree_walk d g (g k) (k :: seen)) as [s1| | |] eqn:E1; try discriminate. cbn [bind] in H.
    destruct (IH _ _ _ E1 ltac:(constructor; assumption)) as (A1 & A2 & A3).
    destruct (IHk _ _ H A1) as (B1 & B2 & B3).
    split; [exact B1|]. split.
    + intros x Hx. apply B2. apply A2. right. exact Hx.
    + intros nodes Hk Hcl Hs. apply B3.
      * intros x Hx. apply Hk. right. exact Hx.
      * exact Hcl.
      * apply A3; [apply Hcl; apply Hk; left; reflexivity|exact Hcl|].
        intros x [Hx|Hx]; [subst; apply Hk; left; reflexivity|apply Hs; exact Hx].
Qed.

Theorem tree_walk_total : forall depth g kids seen, never_crashes (tree_walk depth g kids seen).
Proof.
  intros depth g kids seen. eapply post_never with (Q := fun _ => True). revert kids seen.
  induction depth as [|d IH]; intros kids seen; [cbn; exact I|].
  cbn [tree_walk]. revert seen. induction kids as [|k t IHk]; intros seen; [cbn; exact I|].
  destruct (memN k seen); [cbn; exact I|].
  eapply post_bind; [apply IH|]. intros s1 _. apply IHk.
Qed.

Theorem tree_walk_linear : forall g root nodes seen',
  In root nodes -> (forall n, In n nodes -> incl (g n) nodes) ->
  tree_walk_root g root = Ok seen' -> NoDup seen' /\ (length seen' <= length nodes)%nat.
Proof.
  intros g root nodes seen' Hr Hcl H. unfold tree_walk_root in H.
  destruct (tree_walk_inv g _ _ _ _ H (NoDup_nil _)) as (A1 & _ & A3).
  split; [exact A1|]. apply (NoDup_incl_length A1). apply A3; [apply Hcl; exact Hr|exact Hcl|intros x []].
Qed.

(* a cycle (here: a node that is its own kid) and a node reachable twice end in an error value *)
Theorem tree_walk_cycle_is_error :
  tree_walk_root (fun _ => [10]) 10 = Err E_TWICE /\
  tree_walk_root (fun n => if n =? 10 then [11; 11] else []) 10 = Err E_TWICE /\
  tree_walk_root (fun n => if n =? 10 then [11; 12] else []) 10 = Ok [12; 11].
Proof. repeat split; vm_compute; reflexivity. Qed.

Theorem colorspace_total : forall depth base n, never_crashes (colorspace depth base n).
Proof.
  intros depth base n. eapply post_never with (Q := fun _ => True). revert n.
  induction depth as [|d IH]; intros n; cbn [colorspace]; destruct (base n); cbn; auto.
Qed.
