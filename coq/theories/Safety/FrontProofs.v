(** Safety/FrontProofs.v — C01, proved half: the byte-level front end (lexer, string lexers,
    name decoding, parser, indirect objects) returns a value or an error value for EVERY byte
    string, with the linear fuel its entry points use.  (The stream decoders are proved total
    in Codec/ — C05_no_panic — and only re-exported by Properties/C01.v.)
    Method: a postcondition calculus ([post]) + "every step consumes input" (progress) lemmas;
    the fuel bound is by induction on the fuel with the invariant [2 * remaining + c <= fuel]. *)
From PdfV Require Import Base.Prelude Gen.Generated Lex.Lexer Lex.StrLexer Syn.Prim Syn.Utf8 Syn.Parser
  Syn.ParserProofs Syn.Run Codec.Model Safety.Front.

(* ------------------------------------------------------------------ the calculus *)
Lemma post_never {A} (Q : A -> Prop) (r : res A) : post Q r -> never_crashes r.
Proof. destruct r; cbn; intros H; try contradiction; split; intros; discriminate. Qed.

Lemma never_post {A} (r : res A) : never_crashes r -> post (fun _ => True) r.
Proof. intros [Hp Hf]. destruct r; cbn; auto. all: try (exact (Hp _ eq_refl)); try (exact (Hf eq_refl)). Qed.

Lemma post_bind {A B} (Q : A -> Prop) (Q' : B -> Prop) (r : res A) (f : A -> res B) :
  post Q r -> (forall a, Q a -> post Q' (f a)) -> post Q' (bind r f).
Proof. destruct r; cbn; auto. Qed.

Lemma post_weaken {A} (Q Q' : A -> Prop) (r : res A) : post Q r -> (forall a, Q a -> Q' a) -> post Q' r.
Proof. destruct r; cbn; auto. Qed.

Lemma post_rmap {A B} (Q : B -> Prop) (g : A -> B) (r : res A) : post (fun a => Q (g a)) r -> post Q (rmap g r).
Proof. destruct r; cbn; auto. Qed.

Definition le_lx (s' s : lx) : Prop := (remaining s' <= remaining s)%nat.
Definition lt_lx (s' s : lx) : Prop := (remaining s' < remaining s)%nat.
Definition headnws (s : lx) : Prop := match lrest s with b :: _ => is_ws b = false | [] => True end.

(* ------------------------------------------------------------------ lexer *)
Lemma skip_while_len p : forall l pos pos' r, skip_while p pos l = (pos', r) ->
  (length r <= length l)%nat /\ match r with b :: _ => p b = false | [] => True end.
Proof.
  induction l as [|a l IH]; intros pos pos' r H; cbn [skip_while] in H.
  - inversion H; subst. cbn. auto.
  - destruct (p a) eqn:E.
    + apply IH in H. destruct H as [H1 H2]. cbn [length]. split; [lia|exact H2].
    + inversion H; subst. split; [lia|exact E].
Qed.

Lemma skip_ws_some s s1 : skip_ws s = Some s1 -> le_lx s1 s /\ headnws s1.
Proof.
  unfold skip_ws. destruct (skip_while is_ws (lpos s) (lrest s)) as [p r] eqn:E.
  apply skip_while_len in E. destruct E as [E1 E2].
  destruct r as [|b t]; [discriminate|]. intros H. inversion H; subst.
  unfold le_lx, headnws, remaining. cbn [lrest]. split; [exact E1|exact E2].
Qed.

Lemma after_eol_len : forall l pos p r, after_eol pos l = (p, r) -> (length r <= length l)%nat.
Proof.
  induction l as [|b t IH]; intros pos p r H; cbn [after_eol] in H.
  - inversion H; subst. cbn. lia.
  - destruct (memN b lex_comment_ends).
    + inversion H; subst. cbn [length]. lia.
    + apply IH in H. cbn [length]. lia.
Qed.

Lemma skip_comments_post : forall fuel s, (remaining s < fuel)%nat -> headnws s ->
  post (fun s2 => le_lx s2 s /\ headnws s2) (skip_comments fuel s).
Proof.
  induction fuel as [|f IH]; intros s Hf Hh; [lia|].
  cbn [skip_comments]. destruct (lrest s) as [|b t] eqn:E.
  - cbn. split; [unfold le_lx; lia|exact Hh].
  - destruct (b =? lex_comment).
    + destruct (after_eol (lpos s + 1) t) as [p r] eqn:Ea. apply after_eol_len in Ea.
      destruct (skip_ws (mkLx p r)) as [s2|] eqn:Es; [|cbn; exact I].
      apply skip_ws_some in Es. destruct Es as [Es1 Es2].
      unfold le_lx, remaining in *. cbn [lrest] in Es1. rewrite E in Hf. cbn [length] in Hf.
      eapply post_weaken. { apply IH; [unfold remaining; lia|exact Es2]. }
      intros s3 [H1 H2]. split; [|exact H2]. unfold le_lx, remaining in *. rewrite E. cbn [length]. lia.
    + cbn. split; [unfold le_lx; lia|exact Hh].
Qed.

Lemma span_reg_len : forall l tok r, span_reg l = (tok, r) -> (length tok + length r = length l)%nat.
Proof.
  induction l as [|b t IH]; intros tok r H; cbn [span_reg] in H.
  - inversion H; subst. reflexivity.
  - destruct (is_reg b).
    + destruct (span_reg t) as [tok' r'] eqn:E. inversion H; subst. cbn [length]. specialize (IH _ _ eq_refl). lia.
    + inversion H; subst. reflexivity.
Qed.

Lemma span_reg_progress b t tok r : is_reg b = true -> span_reg (b :: t) = (tok, r) -> (length r <= length t)%nat.
Proof.
  intros Hb H. cbn [span_reg] in H. rewrite Hb in H. destruct (span_reg t) as [tok' r'] eqn:E.
  inversion H; subst. apply span_reg_len in E. lia.
Qed.

Theorem next_word_post s : post (fun x => lt_lx (snd x) s) (next_word s).
Proof.
  unfold next_word. destruct (lrest s) as [|b0 t0] eqn:E0; [cbn; exact I|].
  destruct (skip_ws s) as [s1|] eqn:Es; [|cbn; exact I].
  apply skip_ws_some in Es. destruct Es as [Es1 Es2].
  eapply post_bind. { apply skip_comments_post; [unfold remaining; lia|exact Es2]. }
  intros s2 [H1 H2]. unfold le_lx, lt_lx, remaining, headnws in *.
  destruct (lrest s2) as [|b t] eqn:E2; [cbn; exact I|]. cbn [length] in H1.
  destruct (is_delim b) eqn:Ed.
  - destruct (b =? SLASH).
    + destruct (span_reg t) as [tok r] eqn:Esp. apply span_reg_len in Esp. cbn. lia.
    + destruct t as [|b2 t2]; [cbn; lia|].
      destruct (((b =? LT) && (b2 =? LT)) || ((b =? GT) && (b2 =? GT))); cbn; cbn [length] in H1; lia.
  - destruct (span_reg (b :: t)) as [tok r] eqn:Esp.
    apply span_reg_progress in Esp; [|unfold is_reg; rewrite H2, Ed; reflexivity]. cbn. lia.
Qed.

Theorem next_post s : post (fun x => lt_lx (snd x) s) (next s).
Proof.
  unfold next. eapply post_bind; [apply next_word_post|]. intros [[tok st] s'] H. cbn in *. exact H.
Qed.

Theorem peek_post s : post (fun _ => True) (peek s).
Proof.
  unfold peek. pose proof (next_word_post s) as H. destruct (next_word s) as [[[tok st] s']|e| |]; cbn in *; auto.
  destruct (e =? E_EOF); cbn; exact I.
Qed.

Lemma next_expect_post s kw : post (fun s' => lt_lx s' s) (next_expect s kw).
Proof.
  unfold next_expect. eapply post_bind; [apply next_post|]. intros [tok s'] H. cbn in H.
  destruct (bytes_eqb tok kw); cbn; auto.
Qed.

Lemma advance_le s n : le_lx (advance s n) s.
Proof. unfold le_lx, remaining, advance, drop. cbn [lrest]. rewrite skipn_length. lia. Qed.

Lemma next_stream_post s : post (fun s' => le_lx s' s) (next_stream s).
Proof.
  unfold next_stream. eapply post_bind; [apply next_post|]. intros [tok s1] H. cbn in H.
  assert (Ha : forall n, le_lx (advance s1 n) s).
  { intros n. pose proof (advance_le s1 n). unfold le_lx, lt_lx in *. lia. }
  destruct (lrest s1) as [|b0 t]; [cbn; exact I|].
  destruct (b0 =? stream_lf); [cbn; apply Ha|].
  destruct (b0 =? stream_cr); [|cbn; exact I].
  destruct t as [|b1 t1]; [cbn; exact I|]. destruct (b1 =? stream_cr_lf); cbn; auto.
Qed.

(* Run.v: lex_all with the fuel of run_lex *)
Lemma lex_all_post : forall fuel s, (remaining s < fuel)%nat -> post (fun _ => True) (lex_all fuel s).
Proof.
  induction fuel as [|f IH]; intros s Hf; [lia|].
  cbn [lex_all]. pose proof (next_post s) as H. destruct (next s) as [[tok s']|e| |]; cbn in H; try contradiction; [|cbn; exact I].
  eapply post_bind; [apply IH; unfold lt_lx in H; lia|]. intros; cbn; exact I.
Qed.

Theorem lex_all_total data : never_crashes (lex_all (S (length data)) (mkLx 0 data)).
Proof. eapply post_never. apply lex_all_post. unfold remaining. cbn [lrest]. lia. Qed.

(* ------------------------------------------------------------------ string lexers *)
Lemma octal_post : forall n l code k, post (fun x => (length (snd x) <= length l)%nat) (octal n l code k).
Proof.
  induction n as [|n IH]; intros l code k; cbn [octal]; [cbn; lia|].
  destruct l as [|c t]; [cbn; exact I|].
  destruct ((str_octal_lo <=? c) && (c <=? str_octal_hi)).
  - eapply post_weaken; [apply IH|]. intros x H. cbn beta in H. cbn [length]. lia.
  - cbn. lia.
Qed.

Lemma str_loop_post : forall fuel nested off l acc, (length l < fuel)%nat ->
  post (fun _ => True) (str_loop fuel nested off l acc).
Proof.
  induction fuel as [|f IH]; intros nested off l acc Hf; [lia|].
  cbn [str_loop]. destruct l as [|c t]; [cbn; exact I|]. cbn [length] in Hf.
  destruct (c =? BACKSLASH).
  { destruct t as [|e t2]; [cbn; exact I|]. cbn [length] in Hf.
    destruct (assocN e str_escapes); [apply IH; lia|].
    destruct (e =? LF); [apply IH; lia|].
    destruct (e =? CR).
    { destruct t2 as [|x t3]; [apply IH; cbn [length]; lia|].
      destruct (x =? LF); apply IH; cbn [length] in *; lia. }
    pose proof (octal_post (N.to_nat str_octal_max_digits) (e :: t2) 0 0) as Ho.
    destruct (octal (N.to_nat str_octal_max_digits) (e :: t2) 0 0) as [[[code k] r]|x| |]; cbn in Ho; try contradiction; [|cbn; exact I].
    destruct (k =? 0); apply IH; cbn [length] in *; lia. }
  destruct (c =? LPAREN); [apply IH; lia|].
  destruct (c =? RPAREN).
  { destruct (nested =? 0); [cbn; exact I|apply IH; lia]. }
  destruct (c =? CR).
  { destruct t as [|x t2]; [apply IH; cbn [length]; lia|].
    destruct (x =? LF); apply IH; cbn [length] in *; lia. }
  apply IH; lia.
Qed.

Theorem string_lex_total l : never_crashes (string_lex l).
Proof. eapply post_never. apply str_loop_post. lia. Qed.

Lemma hex_next_len : forall l off c off' l', hex_next off l = Some (c, off', l') -> (length l' < length l)%nat.
Proof.
  induction l as [|b t IH]; intros off c off' l' H; cbn [hex_next] in H; [discriminate|].
  destruct (memN b hexstr_ws).
  - apply IH in H. cbn [length]. lia.
  - inversion H; subst. cbn [length]. lia.
Qed.

Lemma hex_loop_post : forall fuel off l acc, (length l < fuel)%nat -> post (fun _ => True) (hex_loop fuel off l acc).
Proof.
  induction fuel as [|f IH]; intros off l acc Hf; [lia|].
  cbn [hex_loop]. destruct (hex_next off l) as [[[c1 off1] l1]|] eqn:E1; [|cbn; exact I].
  apply hex_next_len in E1.
  destruct (hex_digit c1); [|destruct (c1 =? hexstr_end); cbn; exact I].
  destruct (hex_next off1 l1) as [[[c2 off2] l2]|] eqn:E2; [|cbn; exact I].
  apply hex_next_len in E2.
  destruct (hex_digit c2); [apply IH; lia|].
  destruct (c2 =? hexstr_end); [apply IH; cbn [length]; lia|cbn; exact I].
Qed.

Theorem hexstring_lex_total l : never_crashes (hexstring_lex l).
Proof. eapply post_never. apply hex_loop_post. lia. Qed.

(* ------------------------------------------------------------------ names *)
Lemma decode_name_go_post : forall fuel l, (length l < fuel)%nat -> post (fun _ => True) (decode_name_go fuel l).
Proof.
  induction fuel as [|f IH]; intros l Hf; [lia|].
  cbn [decode_name_go]. destruct l as [|b t]; [cbn; exact I|]. cbn [length] in Hf.
  destruct (b =? HASH).
  - destruct t as [|hi [|lo t']]; try (cbn; exact I). cbn [length] in Hf.
    destruct (decode_nibble lo); [|cbn; exact I]. destruct (decode_nibble hi); [|cbn; exact I].
    eapply post_bind; [apply IH; lia|]. intros; cbn; exact I.
  - eapply post_bind; [apply IH; lia|]. intros; cbn; exact I.
Qed.

Lemma decode_name_post l : post (fun _ => True) (decode_name l).
Proof.
  unfold decode_name. eapply post_bind; [apply decode_name_go_post; lia|].
  intros s _. destruct (is_utf8 s); cbn; exact I.
Qed.

(* ------------------------------------------------------------------ parser *)
Lemma check_post a b : post (fun _ => True) (check a b).
Proof. unfold check. destruct (N.land a b =? 0); cbn; exact I. Qed.

Lemma parse_u64_post t : post (fun _ => True) (parse_u64 t).
Proof.
  unfold parse_u64. destruct (match t with c :: r => if c =? PLUS then r else t | [] => [] end); [cbn; exact I|].
  destruct (all_digits (n :: l)); [|cbn; exact I]. destruct (N_of_dec (n :: l) <? 18446744073709551616); cbn; exact I.
Qed.

Lemma parse_i32_cases t : (exists v, parse_i32 t = Ok v) \/ (exists e, parse_i32 t = Err e).
Proof.
  unfold parse_i32. destruct t as [|c r]; [right; eauto|].
  match goal with |- context [if ?c then _ else _] => destruct c end; [left|right]; eauto.
Qed.

Lemma as_usize_prim_post p : post (fun _ => True) (as_usize_prim p).
Proof. destruct p; cbn; try exact I. destruct (0 <=? z)%Z; cbn; exact I. Qed.

Lemma read_n_le s n : le_lx (snd (read_n s n)) s.
Proof. unfold read_n. cbn [snd]. apply advance_le. Qed.

Lemma parse_stream_object_post R d id gen s : total_resolver R ->
  post (fun x => le_lx (snd x) s) (parse_stream_object R d id gen s).
Proof.
  intros HR. unfold parse_stream_object.
  eapply post_bind; [apply next_stream_post|]. intros s1 H1.
  eapply post_bind with (Q := fun _ => True).
  { destruct (dict_get key_Length d) as [p|]; [|cbn; exact I].
    destruct p; try (cbn; exact I).
    - destruct (0 <=? z)%Z; cbn; exact I.
    - eapply post_bind; [apply never_post; apply HR|]. intros p _. apply as_usize_prim_post. }
  intros len _.
  pose proof (read_n_le s1 len) as Hr. destruct (read_n s1 len) as [[start got] s2]. cbn [snd] in Hr.
  destruct (negb (got =? len)); [cbn; exact I|].
  eapply post_bind; [apply next_expect_post|]. intros s3 H3. cbn. unfold le_lx, lt_lx in *. lia.
Qed.

Section ParseTotal.
  Variable R : resolver.
  Hypothesis HR : total_resolver R.

  Definition Pv (f : nat) : Prop := forall cx flags depth s, (2 * remaining s + 1 <= f)%nat ->
    post (fun x => lt_lx (snd x) s) (parse_fuel f R cx flags depth s).
  Definition Pa (f : nat) : Prop := forall cx depth s acc, (2 * remaining s + 2 <= f)%nat ->
    post (fun x => lt_lx (snd x) s) (parse_array_fuel f R cx depth s acc).
  Definition Pd (f : nat) : Prop := forall cx depth s acc, (2 * remaining s + 1 <= f)%nat ->
    post (fun x => lt_lx (snd x) s) (parse_dict_fuel f R cx depth s acc).

  (* one step of parse_fuel, after the first lexeme: ends at or before s1 *)
  Lemma parse_body_post f cx flags depth tok s1 : Pa f -> Pd f -> (2 * remaining s1 + 2 <= f)%nat ->
    post (fun x => le_lx (snd x) s1) (parse_body f R cx flags depth tok s1).
  Proof.
    intros HPa HPd Hf. unfold parse_body.
    destruct (bytes_eqb tok kw_dict_open).
    { eapply post_bind; [apply check_post|]. intros _ _.
      destruct (depth =? 0); [cbn; exact I|].
      eapply post_bind; [apply HPd; lia|]. intros [d s2] H2. cbn [snd] in H2.
      eapply post_bind; [apply peek_post|]. intros pk _.
      destruct (bytes_eqb pk kw_stream).
      - destruct cx as [[id gen]|]; [|cbn; exact I].
        eapply post_weaken; [apply parse_stream_object_post; exact HR|].
        intros x Hx. unfold le_lx, lt_lx in *. lia.
      - cbn. unfold le_lx, lt_lx in *. lia. }
    destruct (is_integer tok).
    { eapply post_bind; [apply check_post|]. intros _ _.
      pose proof (next_post s1) as N1.
      destruct (next s1) as [[tok2 s2]|e1| |]; cbn in N1; try contradiction.
      - destruct (is_integer tok2).
        + pose proof (next_post s2) as N2.
          destruct (next s2) as [[tok3 s3]|e2| |]; cbn in N2; try contradiction.
          * destruct (bytes_eqb tok3 kw_R).
            { eapply post_bind; [apply check_post|]. intros _ _.
              eapply post_bind; [apply parse_u64_post|]. intros id _.
              eapply post_bind; [apply parse_u64_post|]. intros gen _.
              cbn. unfold le_lx, lt_lx in *. lia. }
            eapply post_bind; [apply check_post|]. intros _ _.
            destruct (parse_i32_cases tok) as [[v E]|[e E]]; rewrite E.
            -- cbn. unfold le_lx; lia.
            -- eapply post_bind; [apply check_post|]. intros _ _. cbn. unfold le_lx; lia.
          * eapply post_bind; [apply check_post|]. intros _ _.
            destruct (parse_i32_cases tok) as [[v E]|[e E]]; rewrite E.
            -- cbn. unfold le_lx; lia.
            -- eapply post_bind; [apply check_post|]. intros _ _. cbn. unfold le_lx; lia.
        + eapply post_bind; [apply check_post|]. intros _ _.
          destruct (parse_i32_cases tok) as [[v E]|[e E]]; rewrite E.
          * cbn. unfold le_lx; lia.
          * eapply post_bind; [apply check_post|]. intros _ _. cbn. unfold le_lx; lia.
      - eapply post_bind; [apply check_post|]. intros _ _.
        destruct (parse_i32_cases tok) as [[v E]|[e E]]; rewrite E.
        + cbn. unfold le_lx; lia.
        + eapply post_bind; [apply check_post|]. intros _ _. cbn. unfold le_lx; lia. }
    destruct (real_number tok) as [txt|].
    { eapply post_bind; [apply check_post|]. intros _ _.
      destruct (f32_parsable txt); cbn; [unfold le_lx; lia|exact I]. }
    destruct (starts_slash tok) as [rest|].
    { eapply post_bind; [apply check_post|]. intros _ _.
      eapply post_bind; [apply decode_name_post|]. intros n _. cbn. unfold le_lx; lia. }
    destruct (bytes_eqb tok kw_arr_open).
    { eapply post_bind; [apply check_post|]. intros _ _.
      destruct (depth =? 0); [cbn; exact I|].
      eapply post_weaken; [apply HPa; lia|]. intros x Hx. unfold le_lx, lt_lx in *. lia. }
    destruct (bytes_eqb tok kw_lparen).
    { eapply post_bind; [apply check_post|]. intros _ _.
      eapply post_bind; [apply (never_post _ (string_lex_total (lrest s1)))|]. intros [str off] _.
      cbn. apply advance_le. }
    destruct (bytes_eqb tok kw_lt).
    { eapply post_bind; [apply check_post|]. intros _ _.
      eapply post_bind; [apply (never_post _ (hexstring_lex_total (lrest s1)))|]. intros [str off] _.
      cbn. apply advance_le. }
    destruct (bytes_eqb tok kw_true).
    { eapply post_bind; [apply check_post|]. intros _ _. cbn. unfold le_lx; lia. }
    destruct (bytes_eqb tok kw_false).
    { eapply post_bind; [apply check_post|]. intros _ _. cbn. unfold le_lx; lia. }
    destruct (bytes_eqb tok kw_null).
    { eapply post_bind; [apply check_post|]. intros _ _. cbn. unfold le_lx; lia. }
    cbn. exact I.
  Qed.

  Lemma parse_all_P : forall f, Pv f /\ Pa f /\ Pd f.
  Proof.
    induction f as [|f [IHv [IHa IHd]]].
    { split; [|split]; intros ? ? ? ? ?; lia. }
    split; [|split].
    - intros cx flags depth s Hf. rewrite parse_fuel_S.
      eapply post_bind; [apply next_post|]. intros [tok s1] H1. cbn [snd] in H1. unfold lt_lx in H1.
      eapply post_weaken; [apply parse_body_post; [exact IHa|exact IHd|lia]|].
      intros x Hx. unfold le_lx, lt_lx in *. lia.
    - intros cx depth s acc Hf. rewrite parse_array_fuel_S.
      eapply post_bind; [apply peek_post|]. intros pk _.
      destruct (bytes_eqb pk kw_arr_close).
      + eapply post_bind; [apply next_post|]. intros [t s1] H1. cbn in *. exact H1.
      + eapply post_bind; [apply IHv; lia|]. intros [v s1] H1. cbn [snd] in H1. unfold lt_lx in H1.
        eapply post_weaken; [apply IHa; lia|]. intros x Hx. unfold lt_lx in *. lia.
    - intros cx depth s acc Hf. rewrite parse_dict_fuel_S.
      eapply post_bind; [apply next_post|]. intros [tok s1] H1. cbn [snd] in H1. unfold lt_lx in H1.
      destruct (starts_slash tok) as [rest|].
      + eapply post_bind; [apply decode_name_post|]. intros key _.
        eapply post_bind; [apply IHv; lia|]. intros [v s2] H2. cbn [snd] in H2. unfold lt_lx in H2.
        eapply post_weaken; [apply IHd; lia|]. intros x Hx. unfold lt_lx in *. lia.
      + destruct (bytes_eqb tok kw_dict_close); cbn; [unfold lt_lx; lia|exact I].
  Qed.

  Lemma parse_ctx_post cx flags depth s : post (fun x => lt_lx (snd x) s) (parse_ctx R cx flags depth s).
  Proof. unfold parse_ctx. apply (proj1 (parse_all_P (fuel_for s))). unfold fuel_for, remaining. lia. Qed.

  Theorem parse_total flags data : never_crashes (parse R flags data).
  Proof.
    eapply post_never with (Q := fun _ => True). unfold parse.
    eapply post_bind; [apply parse_ctx_post|]. intros [v s] _. cbn. exact I.
  Qed.

  Theorem parse_indirect_total allow flags s : never_crashes (parse_indirect_object R allow flags s).
  Proof.
    eapply post_never with (Q := fun _ => True). unfold parse_indirect_object.
    eapply post_bind; [apply next_post|]. intros [t1 s1] _.
    eapply post_bind; [apply parse_u64_post|]. intros id _.
    eapply post_bind; [apply next_post|]. intros [t2 s2] _.
    eapply post_bind; [apply parse_u64_post|]. intros gen _.
    eapply post_bind; [apply next_expect_post|]. intros s3 _.
    eapply post_bind; [apply parse_ctx_post|]. intros [v s4] _.
    destruct allow.
    - pose proof (next_expect_post s4 kw_endobj) as H. destruct (next_expect s4 kw_endobj); cbn in *; auto.
    - eapply post_bind; [apply next_expect_post|]. intros s5 _. cbn. exact I.
  Qed.

End ParseTotal.

Lemma no_resolve_total : total_resolver no_resolve.
Proof. intros i g f. split; intros; discriminate. Qed.

(* Run.v: parse_all (mode parse_seq): objects until the first error, linear fuel *)
Lemma parse_all_post : forall fuel buf s, (remaining s < fuel)%nat -> post (fun _ => True) (parse_all fuel buf s).
Proof.
  induction fuel as [|f IH]; intros buf s Hf; [lia|]. cbn [parse_all].
  pose proof (parse_ctx_post no_resolve no_resolve_total None F_ANY MAX_DEPTH s) as H.
  destruct (parse_ctx no_resolve None F_ANY MAX_DEPTH s) as [[v s']|e| |]; cbn in H; try contradiction; [|cbn; exact I].
  eapply post_bind; [apply IH; unfold lt_lx in H; lia|]. intros; cbn; exact I.
Qed.

Theorem parse_seq_total data : never_crashes (parse_all (S (length data)) data (mkLx 0 data)).
Proof. eapply post_never. apply parse_all_post. unfold remaining. cbn [lrest]. lia. Qed.
