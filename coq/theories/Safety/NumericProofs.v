(** Safety/NumericProofs.v — C14, numeric-parameter sites of this area (function.rs, encoding.rs, fax geometry): for every site, over the whole Rust integer type,
    either "no checked primitive can fire" (the guards in the code suffice) or the exact class of parameters
    on which one fires, with a concrete witness ([…_refuted]) that is replayed on the real code. *)
From PdfV Require Import Base.Prelude Gen.Generated Lex.Lexer Safety.Front Safety.FrontProofs Safety.Numeric.

(* ------------------------------------------------------------------ generated guards (table lemmas) *)
Lemma guards_table :
  ps_roll_len_guard = 1 /\ ps_roll_mod_guard = 1 /\ ps_index_guard = 1 /\ ps_parse_get = 1 /\ diff_wrapping = 1.
Proof. repeat split; reflexivity. Qed.
Lemma fn2_guard_table : (fn2_domain_max_index <? fn2_domain_min) = true /\ (0 <? fn2_domain_min) = true.
Proof. split; vm_compute; reflexivity. Qed.
Lemma depth_table : (0 <? tree_depth) = true /\ (0 <? cs_depth) = true.
Proof. repeat split; vm_compute; reflexivity. Qed.

(* ------------------------------------------------------------------ checked primitives *)
Lemma ck_sub_ok s a b : b <= a -> ck_sub s a b = Ok (a - b).
Proof. intros H. unfold ck_sub. apply N.leb_le in H. rewrite H. reflexivity. Qed.
Lemma ck_mul_ok s a b : a * b < U64 -> ck_mul s a b = Ok (a * b).
Proof. intros H. unfold ck_mul. apply N.ltb_lt in H. rewrite H. reflexivity. Qed.
Lemma ck_nth_ok {A} s (l : list A) i : i < lenN l -> exists x, ck_nth s l i = Ok x.
Proof.
  intros H. unfold ck_nth, nthN. destruct (nth_error l (N.to_nat i)) eqn:E; [eauto|].
  apply nth_error_None in E. unfold lenN in H. lia.
Qed.
Lemma lenN_firstn {A} (l : list A) n : n <= lenN l -> lenN (firstn (N.to_nat n) l) = n.
Proof. unfold lenN. intros H. rewrite firstn_length. lia. Qed.

(* ------------------------------------------------------------------ PostScript calculator *)
Section PSProofs.
  Variable rnd : Z -> Z.

  Theorem ps_exec_total : forall ops st, never_crashes (ps_exec rnd ops st).
  Proof.
    destruct guards_table as (G1 & G2 & G3 & _).
    intros ops st. eapply post_never with (Q := fun _ => True). revert st.
    induction ops as [|op t IH]; intros st; [cbn; exact I|].
    cbn [ps_exec]. destruct op.
    - apply IH.
    - destruct st as [|v r]; [cbn; exact I|apply IH].
    - destruct st as [|b [|a r]]; try (cbn; exact I). apply IH.
    - destruct st as [|b [|a r]]; try (cbn; exact I). apply IH.
    - destruct st as [|b [|a r]]; try (cbn; exact I). apply IH.
    - destruct st as [|b [|a r]]; try (cbn; exact I). apply IH.
    - destruct st as [|a r]; [cbn; exact I|apply IH].
    - (* roll *)
      destruct st as [|j [|n rest]]; try (cbn; exact I).
      rewrite G1, G2. cbn [N.eqb negb andb orb]. change (1 =? 1) with true. cbn [andb negb orb].
      destruct (lenN rest <? f32_as_usize n) eqn:E; [cbn; exact I|].
      apply N.ltb_ge in E. rewrite (ck_sub_ok _ _ _ E). cbn [bind].
      rewrite Bool.orb_false_r.
      destruct (0 <? f32_as_usize n) eqn:E0; [|apply IH].
      apply N.ltb_lt in E0.
      unfold ck_rem_euclid. destruct (Z.of_N (f32_as_usize n) <=? 0)%Z eqn:Ez; [apply Z.leb_le in Ez; lia|].
      cbn [bind]. unfold rot_right.
      rewrite (lenN_firstn _ _ E).
      assert (Hk : Z.to_N (f32_as_isize j mod Z.of_N (f32_as_usize n)) <= f32_as_usize n).
      { pose proof (Z.mod_pos_bound (f32_as_isize j) (Z.of_N (f32_as_usize n)) ltac:(lia)). lia. }
      apply N.leb_le in Hk. rewrite Hk. cbn [bind]. apply IH.
    - (* index *)
      destruct st as [|n rest]; [cbn; exact I|].
      rewrite G3. change (1 =? 1) with true. cbn [andb].
      destruct (lenN rest <=? f32_as_usize n) eqn:E; [cbn; exact I|].
      apply N.leb_gt in E.
      rewrite (ck_sub_ok _ _ _ (N.lt_le_incl _ _ E)). cbn [bind].
      rewrite ck_sub_ok by lia. cbn [bind].
      destruct (ck_nth_ok 415 rest _ E) as [v Hv]. rewrite Hv. cbn [bind]. apply IH.
    - apply IH.
    - destruct st as [|a r]; [cbn; exact I|apply IH].
  Qed.

  Theorem ps_run_total ops inputs n_out : never_crashes (ps_run rnd ops inputs n_out).
  Proof.
    unfold ps_run. destruct (ps_exec_total ops (rev inputs)) as [Hp Hf].
    destruct (ps_exec rnd ops (rev inputs)) as [st|e|s|].
    - destruct (n_out =? lenN st); split; intros; discriminate.
    - split; intros; discriminate.
    - exfalso. exact (Hp s eq_refl).
    - exfalso. exact (Hf eq_refl).
  Qed.
End PSProofs.

Lemma find_last_bound c : forall l pos p, find_last c l pos = Some p -> pos <= p < pos + lenN l.
Proof.
  induction l as [|b t IH]; intros pos p H; cbn [find_last] in H; [discriminate|].
  unfold lenN in *. cbn [length]. destruct (find_last c t (pos + 1)) eqn:E.
  - inversion H; subst. apply IH in E. lia.
  - destruct (b =? c); [|discriminate]. inversion H; subst. lia.
Qed.

Theorem ps_body_total s : never_crashes (ps_body s).
Proof.
  destruct guards_table as (_ & _ & _ & G4 & _).
  eapply post_never with (Q := fun _ => True). unfold ps_body.
  destruct (find_first 123 s 0) as [start|]; [|cbn; exact I].
  destruct (find_last 125 s 0) as [stop|] eqn:E; [|cbn; exact I].
  rewrite G4. change (1 =? 1) with true. cbn [andb].
  destruct (start + 1 <=? stop) eqn:E1; [|cbn; exact I]. cbn [negb].
  apply find_last_bound in E. unfold ck_slice. rewrite E1.
  assert (H : (stop <=? lenN s) = true) by (apply N.leb_le; lia). rewrite H. cbn. exact I.
Qed.

(* ------------------------------------------------------------------ Function type 2 *)
Theorem fn2_load_total domain_len range_len c0_len c1_len :
  never_crashes (fn2_load domain_len range_len c0_len c1_len).
Proof.
  destruct fn2_guard_table as [T1 T2]. apply N.ltb_lt in T1. apply N.ltb_lt in T2.
  eapply post_never with (Q := fun _ => True). unfold fn2_load.
  eapply post_bind with (Q := fun _ => True).
  { destruct range_len, c0_len, c1_len; cbn; exact I. }
  intros n _. destruct (domain_len <? fn2_domain_min) eqn:E; [cbn; exact I|].
  apply N.ltb_ge in E. unfold ck_idx.
  assert (H0 : (0 <? domain_len) = true) by (apply N.ltb_lt; lia).
  assert (H1 : (fn2_domain_max_index <? domain_len) = true) by (apply N.ltb_lt; lia).
  rewrite H0, H1. cbn. exact I.
Qed.

(* ------------------------------------------------------------------ Encoding differences *)
Lemma ins_sorted_len x : forall l, (length (ins_sorted x l) <= S (length l))%nat.
Proof.
  induction l as [|y t IH]; [cbn; lia|].
  cbn [ins_sorted]. destruct (x <? y); [cbn [length]; lia|]. destruct (x =? y); cbn [length] in *; lia.
Qed.

Theorem differences_total : forall items, exists l, differences items = Ok l /\ (length l <= length items)%nat.
Proof.
  destruct guards_table as (_ & _ & _ & _ & G5).
  assert (H : forall items gid acc, exists l, diff_go items gid acc = Ok l /\ (length l <= length acc + length items)%nat).
  { induction items as [|it t IH]; intros gid acc; cbn [diff_go].
    - exists acc. split; [reflexivity|lia].
    - destruct it.
      + destruct (IH (Z.to_N (c mod 4294967296)%Z) acc) as [l [H1 H2]]. exists l. split; [exact H1|cbn [length]; lia].
      + rewrite G5. change (1 =? 1) with true. cbn [bind].
        destruct (IH ((gid + 1) mod U32) (ins_sorted gid acc)) as [l [H1 H2]]. exists l. split; [exact H1|].
        pose proof (ins_sorted_len gid acc). cbn [length]. lia. }
  intros items. destruct (H items 0 []) as [l [H1 H2]]. exists l. split; [exact H1|cbn [length] in H2; lia].
Qed.

Corollary differences_never_crashes items : never_crashes (differences items).
Proof. destruct (differences_total items) as [l [H _]]. rewrite H. split; intros; discriminate. Qed.

(* ------------------------------------------------------------------ fax_decode *)
Lemma fax_guards_table :
  fax_k_guard = 1 /\ fax_columns_guard = 1 /\ fax_rows_guard = 1 /\ fax_no_assert = 1 /\ fax_no_capacity = 1.
Proof. repeat split; reflexivity. Qed.

(* what the guards establish: the width is a non-zero u16, the height a u16 *)
Lemma fax_geometry_post k columns rows :
  post (fun g => 0 < fst g < U16 /\ fst g = columns /\
                 match snd g with None => rows = 0 | Some r => r = rows /\ 0 < r < U16 end) (fax_geometry k columns rows).
Proof.
  destruct fax_guards_table as (G1 & G2 & G3 & _ & G5).
  unfold fax_geometry. rewrite G1, G2, G3, G5. change (1 =? 1) with true. cbv iota. rewrite Bool.andb_true_r.
  destruct (0 <=? k)%Z; [cbn; exact I|].
  destruct ((columns =? 0) || (U16 <=? columns)) eqn:Ec; [cbn; exact I|]. cbn [bind].
  apply Bool.orb_false_iff in Ec. destruct Ec as [E1 E2]. apply N.eqb_neq in E1. apply N.leb_gt in E2.
  destruct (rows =? 0) eqn:Er.
  - apply N.eqb_eq in Er. cbn. split; [lia|]. split; [reflexivity|exact Er].
  - apply N.eqb_neq in Er. destruct (U16 <=? rows) eqn:Eh; [cbn; exact I|]. apply N.leb_gt in Eh.
    cbn. split; [lia|]. split; [reflexivity|]. split; [reflexivity|lia].
Qed.

Lemma fax_lines_post width : 0 < width -> forall lines len ok, post (fun _ => True) (fax_lines width lines len ok).
Proof.
  destruct fax_guards_table as (_ & _ & _ & G4 & _).
  intros Hw. induction lines as [|n t IH]; intros len ok; cbn [fax_lines]; [cbn; exact I|].
  unfold ck_rem. destruct (width =? 0) eqn:E; [apply N.eqb_eq in E; lia|]. cbn [bind].
  destruct ((len + n) mod width =? 0); [apply IH|]. rewrite G4. change (1 =? 1) with true. cbv iota. apply IH.
Qed.

(* ANY parameters (the whole i32 / u32 range), any behaviour of the decoder: a value or an error *)
Theorem fax_decode_total k columns rows decoded : columns < U32 -> rows < U32 ->
  never_crashes (fax_decode k columns rows decoded).
Proof.
  intros Hc Hr. eapply post_never with (Q := fun _ => True). unfold fax_decode.
  eapply post_bind; [apply fax_geometry_post|]. intros [w h] (Hw & _ & Hh). cbn [fst snd] in Hw, Hh.
  destruct decoded as [lines|]; [|cbn; exact I].
  eapply post_bind; [apply fax_lines_post; lia|]. intros [len ok] _.
  destruct (negb ok); [cbn; exact I|].
  destruct h as [rws|]; [|cbn; exact I]. destruct Hh as [_ Hh].
  rewrite ck_mul_ok.
  2:{ unfold U16, U64 in *. assert (w * rws <= 65535 * 65535) by (apply N.mul_le_mono; lia). lia. }
  cbn [bind]. destruct (len =? w * rws); cbn; exact I.
Qed.

(* a declared height fixes the size of the result: at most 65535 * 65535 bytes, whatever the data *)
Theorem fax_decode_bounded k columns rows decoded len : fax_decode k columns rows decoded = Ok len -> rows <> 0 ->
  len = columns * rows /\ len <= 65535 * 65535.
Proof.
  unfold fax_decode. intros H Hr0.
  pose proof (fax_geometry_post k columns rows) as G.
  destruct (fax_geometry k columns rows) as [[w h]|e|s|]; cbn [bind] in H; try discriminate.
  cbn [post fst snd] in G. destruct G as (Hw & Hwc & Hh).
  destruct decoded as [lines|]; [|discriminate].
  destruct (fax_lines w lines 0 true) as [[l ok]|e|s|]; cbn [bind] in H; try discriminate.
  destruct (negb ok); [discriminate|].
  destruct h as [rws|]; [|contradiction]. destruct Hh as [Hrw Hh]. subst rws w.
  unfold ck_mul in H. destruct (columns * rows <? U64); cbn [bind] in H; [|discriminate].
  destruct (l =? columns * rows) eqn:E; [|discriminate]. apply N.eqb_eq in E. inversion H; subst.
  split; [reflexivity|]. unfold U16 in *. apply N.mul_le_mono; lia.
Qed.

Example fax_decode_examples :
  fax_decode (-1) 8 2 (Some [8; 8]) = Ok 16 /\ fax_decode (-1) 0 0 (Some []) = Err E_NUM /\
  fax_decode (-1) 65536 1 (Some []) = Err E_NUM /\ fax_decode (-1) 8 65536 (Some []) = Err E_NUM /\
  fax_decode 0 8 1 (Some [8]) = Err E_NUM /\ fax_decode (-1) 4294967295 4294967295 None = Err E_NUM /\
  fax_decode (-1) 8 0 (Some [8; 7]) = Err E_NUM /\ fax_decode (-1) 8 0 (Some [8; 8; 8]) = Ok 24.
Proof. repeat split; vm_compute; reflexivity. Qed.
