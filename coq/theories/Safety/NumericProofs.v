(** Safety/NumericProofs.v — C14, numeric-parameter sites: for every site, over the whole Rust integer type,
    either "no checked primitive can fire" (the guards in the code suffice) or the exact class of parameters
    on which one fires, with a concrete witness ([…_refuted]) that is replayed on the real code. *)
From PdfV Require Import Base.Prelude Gen.Generated Lex.Lexer Codec.Model Safety.Front Safety.FrontProofs Safety.Numeric.

(* ------------------------------------------------------------------ generated guards (table lemmas) *)
Lemma guards_table :
  ps_roll_len_guard = 1 /\ ps_roll_mod_guard = 1 /\ ps_index_guard = 1 /\ ps_parse_get = 1 /\ diff_wrapping = 1.
Proof. repeat split; reflexivity. Qed.
Lemma fn2_guard_table : (fn2_domain_max_index <? fn2_domain_min) = true /\ (0 <? fn2_domain_min) = true.
Proof. split; vm_compute; reflexivity. Qed.
Lemma crypt_table : (0 <? crypt_bits_div) = true /\ (crypt_bits_div <=? crypt_v1_bits) = true /\ crypt_len_mult = 8 /\ crypt_bits_div = 8.
Proof. repeat split; vm_compute; reflexivity. Qed.
Lemma depth_table : (0 <? sf_page_depth) = true /\ (0 <? tree_depth) = true /\ (0 <? cs_depth) = true.
Proof. repeat split; vm_compute; reflexivity. Qed.

(* ------------------------------------------------------------------ checked primitives *)
Lemma ck_sub_ok s a b : b <= a -> ck_sub s a b = Ok (a - b).
Proof. intros H. unfold ck_sub. apply N.leb_le in H. rewrite H. reflexivity. Qed.
Lemma ck_add_ok s a b : a + b < U64 -> ck_add s a b = Ok (a + b).
Proof. intros H. unfold ck_add. apply N.ltb_lt in H. rewrite H. reflexivity. Qed.
Lemma ck_mul_ok s a b : a * b < U64 -> ck_mul s a b = Ok (a * b).
Proof. intros H. unfold ck_mul. apply N.ltb_lt in H. rewrite H. reflexivity. Qed.
Lemma ck_add32_ok s a b : a + b < U32 -> ck_add32 s a b = Ok (a + b).
Proof. intros H. unfold ck_add32. apply N.ltb_lt in H. rewrite H. reflexivity. Qed.
Lemma ck_nth_ok {A} s (l : list A) i : i < lenN l -> exists x, ck_nth s l i = Ok x.
Proof.
  intros H. unfold ck_nth, nthN. destruct (nth_error l (N.to_nat i)) eqn:E; [eauto|].
  apply nth_error_None in E. unfold lenN in H. lia.
Qed.
Lemma lenN_firstn {A} (l : list A) n : n <= lenN l -> lenN (firstn (N.to_nat n) l) = n.
Proof. unfold lenN. intros H. rewrite firstn_length. lia. Qed.

(* ------------------------------------------------------------------ PostScript calculator *)
Section PSProofs.
  Variable rnd : Z -> Z.

  Theorem ps_exec_total : forall ops st, never_crashes (ps_exec rnd ops st).
  Proof.
    destruct guards_table as (G1 & G2 & G3 & _).
    intros ops st. eapply post_never with (Q := fun _ => True). revert st.
    induction ops as [|op t IH]; intros st; [cbn; exact I|].
    cbn [ps_exec]. destruct op.
    - apply IH.
    - destruct st as [|v r]; [cbn; exact I|apply IH].
    - destruct st as [|b [|a r]]; try (cbn; exact I). apply IH.
    - destruct st as [|b [|a r]]; try (cbn; exact I). apply IH.
    - destruct st as [|b [|a r]]; try (cbn; exact I). apply IH.
    - destruct st as [|b [|a r]]; try (cbn; exact I). apply IH.
    - destruct st as [|a r]; [cbn; exact I|apply IH].
    - (* roll *)
      destruct st as [|j [|n rest]]; try (cbn; exact I).
      rewrite G1, G2. cbn [N.eqb negb andb orb]. change (1 =? 1) with true. cbn [andb negb orb].
      destruct (lenN rest <? f32_as_usize n) eqn:E; [cbn; exact I|].
      apply N.ltb_ge in E. rewrite (ck_sub_ok _ _ _ E). cbn [bind].
      rewrite Bool.orb_false_r.
      destruct (0 <? f32_as_usize n) eqn:E0; [|apply IH].
      apply N.ltb_lt in E0.
      unfold ck_rem_euclid. destruct (Z.of_N (f32_as_usize n) <=? 0)%Z eqn:Ez; [apply Z.leb_le in Ez; lia|].
      cbn [bind]. unfold rot_right.
      rewrite (lenN_firstn _ _ E).
      assert (Hk : Z.to_N (f32_as_isize j mod Z.of_N (f32_as_usize n)) <= f32_as_usize n).
      { pose proof (Z.mod_pos_bound (f32_as_isize j) (Z.of_N (f32_as_usize n)) ltac:(lia)). lia. }
      apply N.leb_le in Hk. rewrite Hk. cbn [bind]. apply IH.
    - (* index *)
      destruct st as [|n rest]; [cbn; exact I|].
      rewrite G3. change (1 =? 1) with true. cbn [andb].
      destruct (lenN rest <=? f32_as_usize n) eqn:E; [cbn; exact I|].
      apply N.leb_gt in E.
      rewrite (ck_sub_ok _ _ _ (N.lt_le_incl _ _ E)). cbn [bind].
      rewrite ck_sub_ok by lia. cbn [bind].
      destruct (ck_nth_ok 415 rest _ E) as [v Hv]. rewrite Hv. cbn [bind]. apply IH.
    - apply IH.
    - destruct st as [|a r]; [cbn; exact I|apply IH].
  Qed.

  Theorem ps_run_total ops inputs n_out : never_crashes (ps_run rnd ops inputs n_out).
  Proof.
    unfold ps_run. destruct (ps_exec_total ops (rev inputs)) as [Hp Hf].
    destruct (ps_exec rnd ops (rev inputs)) as [st|e|s|].
    - destruct (n_out =? lenN st); split; intros; discriminate.
    - split; intros; discriminate.
    - exfalso. exact (Hp s eq_refl).
    - exfalso. exact (Hf eq_refl).
  Qed.
End PSProofs.

Lemma find_last_bound c : forall l pos p, find_last c l pos = Some p -> pos <= p < pos + lenN l.
Proof.
  induction l as [|b t IH]; intros pos p H; cbn [find_last] in H; [discriminate|].
  unfold lenN in *. cbn [length]. destruct (find_last c t (pos + 1)) eqn:E.
  - inversion H; subst. apply IH in E. lia.
  - destruct (b =? c); [|discriminate]. inversion H; subst. lia.
Qed.

Theorem ps_body_total s : never_crashes (ps_body s).
Proof.
  destruct guards_table as (_ & _ & _ & G4 & _).
  eapply post_never with (Q := fun _ => True). unfold ps_body.
  destruct (find_first 123 s 0) as [start|]; [|cbn; exact I].
  destruct (find_last 125 s 0) as [stop|] eqn:E; [|cbn; exact I].
  rewrite G4. change (1 =? 1) with true. cbn [andb].
  destruct (start + 1 <=? stop) eqn:E1; [|cbn; exact I]. cbn [negb].
  apply find_last_bound in E. unfold ck_slice. rewrite E1.
  assert (H : (stop <=? lenN s) = true) by (apply N.leb_le; lia). rewrite H. cbn. exact I.
Qed.

(* ------------------------------------------------------------------ Function type 2 *)
Theorem fn2_load_total domain_len range_len c0_len c1_len :
  never_crashes (fn2_load domain_len range_len c0_len c1_len).
Proof.
  destruct fn2_guard_table as [T1 T2]. apply N.ltb_lt in T1. apply N.ltb_lt in T2.
  eapply post_never with (Q := fun _ => True). unfold fn2_load.
  eapply post_bind with (Q := fun _ => True).
  { destruct range_len, c0_len, c1_len; cbn; exact I. }
  intros n _. destruct (domain_len <? fn2_domain_min) eqn:E; [cbn; exact I|].
  apply N.ltb_ge in E. unfold ck_idx.
  assert (H0 : (0 <? domain_len) = true) by (apply N.ltb_lt; lia).
  assert (H1 : (fn2_domain_max_index <? domain_len) = true) by (apply N.ltb_lt; lia).
  rewrite H0, H1. cbn. exact I.
Qed.

(* ------------------------------------------------------------------ Encoding differences *)
Lemma ins_sorted_len x : forall l, (length (ins_sorted x l) <= S (length l))%nat.
Proof.
  induction l as [|y t IH]; [cbn; lia|].
  cbn [ins_sorted]. destruct (x <? y); [cbn [length]; lia|]. destruct (x =? y); cbn [length] in *; lia.
Qed.

Theorem differences_total : forall items, exists l, differences items = Ok l /\ (length l <= length items)%nat.
Proof.
  destruct guards_table as (_ & _ & _ & _ & G5).
  assert (H : forall items gid acc, exists l, diff_go items gid acc = Ok l /\ (length l <= length acc + length items)%nat).
  { induction items as [|it t IH]; intros gid acc; cbn [diff_go].
    - exists acc. split; [reflexivity|lia].
    - destruct it.
      + destruct (IH (Z.to_N (c mod 4294967296)%Z) acc) as [l [H1 H2]]. exists l. split; [exact H1|cbn [length]; lia].
      + rewrite G5. change (1 =? 1) with true. cbn [bind].
        destruct (IH ((gid + 1) mod U32) (ins_sorted gid acc)) as [l [H1 H2]]. exists l. split; [exact H1|].
        pose proof (ins_sorted_len gid acc). cbn [length]. lia. }
  intros items. destruct (H items 0 []) as [l [H1 H2]]. exists l. split; [exact H1|cbn [length] in H2; lia].
Qed.

(* ------------------------------------------------------------------ ObjectStream offsets *)
Lemma nthN_In {A} (l : list A) i x : nthN l i = Some x -> In x l.
Proof. unfold nthN. apply nth_error_In. Qed.

Theorem objstm_slice_safe first offsets data_len index :
  objstm_fits first offsets = true -> lenN offsets < U64 -> never_crashes (objstm_slice first offsets data_len index).
Proof.
  intros Hf Hlen. unfold objstm_fits in Hf. rewrite forallb_forall in Hf.
  eapply post_never with (Q := fun _ => True). unfold objstm_slice.
  destruct (lenN offsets <=? index) eqn:E; [cbn; exact I|]. apply N.leb_gt in E.
  unfold ck_nth at 1. destruct (nthN offsets index) as [off|] eqn:E1.
  2:{ unfold nthN in E1. apply nth_error_None in E1. unfold lenN in E. lia. }
  cbn [bind]. pose proof (Hf _ (nthN_In _ _ _ E1)) as H1. apply N.ltb_lt in H1.
  rewrite (ck_add_ok _ _ _ H1). cbn [bind].
  rewrite ck_sub_ok by lia. cbn [bind].
  destruct (index =? lenN offsets - 1) eqn:E2; [cbn; exact I|]. apply N.eqb_neq in E2.
  assert (Hi : index + 1 < lenN offsets) by lia.
  rewrite ck_add_ok by lia. cbn [bind].
  unfold ck_nth. destruct (nthN offsets (index + 1)) as [off1|] eqn:E3.
  2:{ unfold nthN in E3. apply nth_error_None in E3. unfold lenN in Hi. lia. }
  cbn [bind]. pose proof (Hf _ (nthN_In _ _ _ E3)) as H2. apply N.ltb_lt in H2.
  rewrite (ck_add_ok _ _ _ H2). cbn. exact I.
Qed.

Theorem objstm_slice_refuted :
  objstm_slice 8 [18446744073709551615] 6 0 = Panic 502 /\ objstm_fits 8 [18446744073709551615] = false.
Proof. split; vm_compute; reflexivity. Qed.

Lemma objstm_header_post : forall fuel n s acc, (remaining s < fuel)%nat -> post (fun _ => True) (objstm_header fuel n s acc).
Proof.
  induction fuel as [|f IH]; intros n s acc Hf; [lia|].
  cbn [objstm_header]. destruct (n =? 0); [cbn; exact I|].
  eapply post_bind; [apply next_post|]. intros [t1 s1] H1. cbn [snd] in H1.
  eapply post_bind; [apply parse_u64_post|]. intros _ _.
  eapply post_bind; [apply next_post|]. intros [t2 s2] H2. cbn [snd] in H2.
  eapply post_bind; [apply parse_u64_post|]. intros off _.
  apply IH. unfold lt_lx in *. lia.
Qed.

Theorem objstm_header_total n data : never_crashes (objstm_header (S (length data)) n (mkLx 0 data) []).
Proof. eapply post_never. apply objstm_header_post. unfold remaining. cbn [lrest]. lia. Qed.

(* ------------------------------------------------------------------ xref stream sections *)
Theorem xref_section_safe tolerant num w0 w1 w2 data_len :
  w0 + w1 + w2 < U64 -> num * (w0 + w1 + w2) < U64 ->
  never_crashes (xref_section_entries tolerant num w0 w1 w2 data_len).
Proof.
  intros H1 H2. eapply post_never with (Q := fun _ => True). unfold xref_section_entries.
  rewrite ck_add_ok by lia. cbn [bind]. rewrite ck_add_ok by lia. cbn [bind].
  rewrite ck_mul_ok by exact H2. cbn [bind].
  destruct (data_len <? num * (w0 + w1 + w2)) eqn:E; [|cbn; exact I].
  destruct tolerant; [|cbn; exact I]. apply N.ltb_lt in E.
  unfold ck_div. destruct (w0 + w1 + w2 =? 0) eqn:E0; [|cbn; exact I].
  apply N.eqb_eq in E0. rewrite E0 in E. lia.
Qed.

(* every value the parser can produce for /W and /Index (non-negative i32) is in the safe class on 64-bit targets *)
Corollary xref_section_i32_safe tolerant num w0 w1 w2 data_len :
  num <= 2147483647 -> w0 <= 2147483647 -> w1 <= 2147483647 -> w2 <= 2147483647 ->
  never_crashes (xref_section_entries tolerant num w0 w1 w2 data_len).
Proof.
  intros Hn H0 H1 H2. apply xref_section_safe; unfold U64.
  - lia.
  - assert (num * (w0 + w1 + w2) <= 2147483647 * 6442450941) by (apply N.mul_le_mono; lia). lia.
Qed.

(* the number of entries that will be read never exceeds what the data can hold — when a row has any width *)
Theorem xref_section_cost tolerant num w0 w1 w2 data_len n :
  xref_section_entries tolerant num w0 w1 w2 data_len = Ok n -> 0 < w0 + w1 + w2 ->
  n * (w0 + w1 + w2) <= data_len.
Proof.
  unfold xref_section_entries, ck_add, ck_mul, ck_div. intros H Hpos.
  destruct (w0 + w1 <? U64); [|discriminate]. cbn [bind] in H.
  destruct (w0 + w1 + w2 <? U64); [|discriminate]. cbn [bind] in H.
  destruct (num * (w0 + w1 + w2) <? U64); [|discriminate]. cbn [bind] in H.
  destruct (data_len <? num * (w0 + w1 + w2)) eqn:E.
  - destruct tolerant; [|discriminate]. destruct (w0 + w1 + w2 =? 0); [discriminate|].
    inversion H; subst. rewrite N.mul_comm. apply N.mul_div_le. lia.
  - inversion H; subst. apply N.ltb_ge in E. exact E.
Qed.

(* C01-c: the product overflows; C01-b: rows of width zero make the count independent of the data *)
Theorem xref_section_refuted :
  xref_section_entries false 4294967295 2147483647 2147483647 2147483647 0 = Panic 602 /\
  xref_section_entries false 4294967295 0 0 0 0 = Ok 4294967295.
Proof. split; vm_compute; reflexivity. Qed.

(* ------------------------------------------------------------------ CID widths *)
Theorem widths_safe : forall items sets top, widths_no_empty_array items = true ->
  (forall z, In (WInt z) items -> (z <= 2147483647)%Z) -> (forall n, In (WArr n) items -> n < U32) ->
  never_crashes (widths_go items sets top).
Proof.
  intros items sets top H Hz Hn. eapply post_never with (Q := fun _ => True). revert sets top H Hz Hn.
  induction items as [items IH] using (well_founded_induction (Wf_nat.well_founded_ltof _ (@length witem))).
  intros sets top H Hz Hn. destruct items as [|[c1|n|] t]; try (cbn; exact I).
  cbn [widths_go]. destruct (c1 <? 0)%Z eqn:Ec; [cbn; exact I|]. apply Z.ltb_ge in Ec.
  destruct t as [|[c2|n|] t']; try (cbn; exact I).
  - destruct t' as [|[w|?|] t'']; try (cbn; exact I).
    assert (Hrec : forall s tp, post (fun _ => True) (widths_go t'' s tp)).
    { intros s tp. apply IH.
      - unfold Wf_nat.ltof. cbn [length]. lia.
      - unfold widths_no_empty_array in *. cbn [forallb andb] in H. exact H.
      - intros z Hin. apply Hz. right. right. right. exact Hin.
      - intros n Hin. apply Hn. right. right. right. exact Hin. }
    destruct (Z.to_N c1 <=? as_usize c2); [|apply Hrec]. destruct (HUGE <? as_usize c2 - Z.to_N c1 + 1); [cbn; exact I|apply Hrec].
  - assert (Hc1 : (c1 <= 2147483647)%Z) by (apply Hz; left; reflexivity).
    assert (Hn1 : n < U32) by (apply Hn; right; left; reflexivity).
    unfold widths_no_empty_array in H. cbn [forallb andb] in H. apply andb_prop in H. destruct H as [H0 H].
    rewrite ck_add_ok by (unfold U64, U32 in *; lia). cbn [bind].
    rewrite ck_sub_ok.
    2:{ apply Bool.negb_true_iff in H0. apply N.eqb_neq in H0. lia. }
    cbn [bind]. apply IH.
    + unfold Wf_nat.ltof. cbn [length]. lia.
    + exact H.
    + intros z Hin. apply Hz. right. right. exact Hin.
    + intros m Hin. apply Hn. right. right. exact Hin.
Qed.

(* C14-c: `c1 + array.len() - 1` underflows for an empty array at code 0;
   C14-b: a range `c1 c2 w` costs c2 - c1 + 1 steps and cells — 2^64 for c2 = -1, 2^31 for the largest i32,
   from an input of three tokens *)
Theorem widths_refuted :
  widths_site [WInt 0; WArr 0] = Panic 702 /\
  widths_site [WInt 0; WInt (-1); WInt 5] = Ok (18446744073709551616, 18446744073709551616) /\
  widths_site [WInt 0; WInt 2147483647; WInt 5] = Ok (2147483648, 2147483648).
Proof. repeat split; vm_compute; reflexivity. Qed.

(* ------------------------------------------------------------------ crypt key length *)
Theorem crypt_key_size_sites v r bits cf s : crypt_key_size v r bits cf = Panic s -> s = 801 \/ s = 802.
Proof.
  destruct crypt_table as (T1 & _ & _ & _).
  unfold crypt_key_size, ck_mul32, ck_div. intros H.
  destruct (v =? 1).
  { cbn [bind] in H. destruct ((r <? 2) || (6 <? r)); [discriminate|]. destruct (r <=? 4); [|discriminate].
    destruct (crypt_bits_div =? 0) eqn:E; [apply N.eqb_eq in E; apply N.ltb_lt in T1; lia|]. cbn [bind] in H.
    destruct (crypt_v1_bits / crypt_bits_div =? 0); inversion H; auto. }
  destruct (v =? 2).
  { destruct (bits mod sf_crypt_bits_mod =? 0); [|discriminate]. cbn [bind] in H.
    destruct ((r <? 2) || (6 <? r)); [discriminate|]. destruct (r <=? 4); [|discriminate].
    destruct (crypt_bits_div =? 0) eqn:E; [apply N.eqb_eq in E; apply N.ltb_lt in T1; lia|]. cbn [bind] in H.
    destruct (bits / crypt_bits_div =? 0); inversion H; auto. }
  destruct ((4 <=? v) && (v <=? 6)); [|discriminate].
  destruct cf as [[m len]|]; [|discriminate].
  destruct ((m =? 0) || (m =? 1) || ((m =? 2) && (v =? 5))); [|discriminate].
  destruct len as [n|].
  - destruct (crypt_len_mult * n <? U32); [|inversion H; auto]. cbn [bind] in H.
    destruct ((r <? 2) || (6 <? r)); [discriminate|]. destruct (r <=? 4); [|discriminate].
    destruct (crypt_bits_div =? 0) eqn:E; [apply N.eqb_eq in E; apply N.ltb_lt in T1; lia|]. cbn [bind] in H.
    destruct (crypt_len_mult * n / crypt_bits_div =? 0); inversion H; auto.
  - cbn [bind] in H.
    destruct ((r <? 2) || (6 <? r)); [discriminate|]. destruct (r <=? 4); [|discriminate].
    destruct (crypt_bits_div =? 0) eqn:E; [apply N.eqb_eq in E; apply N.ltb_lt in T1; lia|]. cbn [bind] in H.
    destruct (bits / crypt_bits_div =? 0); inversion H; auto.
Qed.

Theorem crypt_key_size_terminates v r bits cf : crypt_key_size v r bits cf <> OutOfFuel.
Proof.
  unfold crypt_key_size, ck_mul32, ck_div.
  repeat (match goal with
          | |- context [if ?c then _ else _] => destruct c
          | |- context [match ?x with Some _ => _ | None => _ end] => destruct x
          | |- context [let '(_, _) := ?x in _] => destruct x
          end; cbn [bind]); try discriminate.
Qed.

(* C14-d: a key length of 0 bits reaches the assertion in Rc4::new; 8 * n overflows u32 for n >= 2^29 *)
Theorem crypt_key_size_refuted :
  crypt_key_size 2 3 0 None = Panic 802 /\ crypt_key_size 4 4 128 (Some (0, Some 536870912)) = Panic 801 /\
  crypt_key_size 4 4 128 (Some (1, Some 0)) = Panic 802 /\ crypt_key_size 2 3 128 None = Ok 16.
Proof. repeat split; vm_compute; reflexivity. Qed.

(* ------------------------------------------------------------------ page tree counts *)
Lemma page_loop_safe : forall d,
  (forall kids page_nr, counts_fit d kids = true -> post (fun _ => True) (page_limited d kids page_nr)) ->
  forall ks pos page_nr, pos + level_sum ks < U32 ->
    (fix all (l : list pnode) : bool :=
       match l with [] => true | PLeaf :: t => all t | PTree _ sub :: t => counts_fit d sub && all t end) ks = true ->
    post (fun _ => True)
      ((fix loop (ks : list pnode) (pos : N) {struct ks} : res unit :=
         match ks with
         | [] => Err E_OOB
         | PLeaf :: t => if pos =? page_nr then Ok tt else do p <- ck_add32 902 pos 1; loop t p
         | PTree c sub :: t =>
             do hi <- ck_add32 901 pos c;
             if (pos <=? page_nr) && (page_nr <? hi) then page_limited d sub (page_nr - pos) else loop t hi
         end) ks pos).
Proof.
  intros d IHd. induction ks as [|k t IH]; intros pos page_nr Hs Ha; [cbn; exact I|].
  destruct k as [|c sub].
  - cbn [level_sum weight] in Hs. destruct (pos =? page_nr); [cbn; exact I|].
    rewrite ck_add32_ok by lia. cbn [bind]. apply IH; [lia|exact Ha].
  - cbn [level_sum weight] in Hs. apply andb_prop in Ha. destruct Ha as [Ha1 Ha2].
    rewrite ck_add32_ok by lia. cbn [bind].
    destruct ((pos <=? page_nr) && (page_nr <? pos + c)); [apply IHd; exact Ha1|apply IH; [lia|exact Ha2]].
Qed.

Theorem page_limited_safe : forall depth kids page_nr, counts_fit depth kids = true ->
  never_crashes (page_limited depth kids page_nr).
Proof.
  intros depth kids page_nr H. eapply post_never with (Q := fun _ => True). revert kids page_nr H.
  induction depth as [|d IH]; intros kids page_nr H; [cbn; exact I|].
  cbn [page_limited]. cbn [counts_fit] in H. apply andb_prop in H. destruct H as [H1 H2].
  apply N.ltb_lt in H1. apply page_loop_safe; [exact IH|lia|exact H2].
Qed.

(* C14-e: lying /Count values make `pos + tree.count` overflow u32 *)
Theorem page_counts_refuted :
  page_site [PTree 2147483647 [PLeaf]; PTree 2147483647 [PLeaf]; PTree 2147483647 [PLeaf]] 4294967295 = Panic 901 /\
  counts_fit 16 [PTree 2147483647 [PLeaf]; PTree 2147483647 [PLeaf]; PTree 2147483647 [PLeaf]] = false /\
  page_site [PLeaf; PTree 2 [PLeaf; PLeaf]; PLeaf] 2 = Ok tt.
Proof. repeat split; vm_compute; reflexivity. Qed.

(* ------------------------------------------------------------------ predictor geometry (enc.rs: flate_decode) *)
Lemma unpredict_rows_fuel : forall fuel stride bpp prev inp, (length inp < fuel)%nat ->
  post (fun out => True) (unpredict_rows fuel stride bpp prev inp).
Proof.
  induction fuel as [|f IH]; intros stride bpp prev inp Hf; [lia|].
  cbn [unpredict_rows]. destruct (Nat.ltb stride (length inp)); [|cbn; exact I].
  destruct inp as [|tag body]; [cbn; exact I|].
  destruct (ptype_of_tag tag); [|cbn; exact I].
  assert (H : post (fun _ => True) (unpredict_rows f stride bpp (unfilter p bpp prev (firstn stride body)) (skipn stride body))).
  { apply IH. rewrite skipn_length. cbn [length] in Hf. lia. }
  destruct (unpredict_rows f stride bpp _ (skipn stride body)); cbn in *; auto.
Qed.

Theorem unpredict_safe predictor colors columns decoded :
  as_usize columns * as_usize colors + 1 < U64 -> never_crashes (unpredict predictor colors columns decoded).
Proof.
  intros H. eapply post_never with (Q := fun _ => True). unfold unpredict.
  destruct (18446744073709551616 <=? as_usize columns * as_usize colors) eqn:E1.
  { apply N.leb_le in E1. unfold U64 in H. lia. }
  destruct (as_usize predictor <=? png_threshold); [cbn; exact I|].
  destruct (18446744073709551616 <=? as_usize columns * as_usize colors + 1) eqn:E2.
  { apply N.leb_le in E2. unfold U64 in H. lia. }
  pose proof (unpredict_rows_fuel (S (length decoded)) (N.to_nat (as_usize columns * as_usize colors)) (N.to_nat (as_usize colors))
                (repeatN 0 (N.to_nat (as_usize columns * as_usize colors))) decoded ltac:(lia)) as Hr.
  destruct (unpredict_rows _ _ _ _ decoded); cbn in *; auto.
Qed.

Theorem unpredict_sites predictor colors columns decoded s :
  unpredict predictor colors columns decoded = Panic s -> s = 104 \/ s = 105.
Proof.
  unfold unpredict. intros H.
  destruct (18446744073709551616 <=? as_usize columns * as_usize colors); [inversion H; auto|].
  destruct (as_usize predictor <=? png_threshold); [discriminate|].
  destruct (18446744073709551616 <=? as_usize columns * as_usize colors + 1); [inversion H; auto|].
  pose proof (unpredict_rows_fuel (S (length decoded)) (N.to_nat (as_usize columns * as_usize colors)) (N.to_nat (as_usize colors))
                (repeatN 0 (N.to_nat (as_usize columns * as_usize colors))) decoded ltac:(lia)) as Hr.
  destruct (unpredict_rows _ _ _ _ decoded); cbn in *; try discriminate; contradiction.
Qed.

(* C05-h / C14: negative /Columns and /Colors become 2^64 - 1 and the product overflows *)
Theorem unpredict_refuted : unpredict 12 (-1) (-1) [0; 1; 2] = Panic 104 /\ unpredict 12 1 (-1) [0; 1; 2] = Panic 105.
Proof. split; vm_compute; reflexivity. Qed.

(* ------------------------------------------------------------------ fax geometry *)
Theorem fax_capacity_sites columns rows : columns < U32 -> rows < U32 ->
  (columns * rows <= ISIZE_MAX -> fax_capacity columns rows = Ok (columns * rows)) /\
  (ISIZE_MAX < columns * rows -> fax_capacity columns rows = Panic 1002).
Proof.
  intros Hc Hr. unfold fax_capacity.
  assert (H : columns * rows < U64).
  { unfold U32, U64 in *. assert (columns * rows <= 4294967295 * 4294967295) by (apply N.mul_le_mono; lia). lia. }
  rewrite (ck_mul_ok _ _ _ H). cbn [bind]. split; intros Hx.
  - apply N.ltb_ge in Hx. rewrite Hx. reflexivity.
  - apply N.ltb_lt in Hx. rewrite Hx. reflexivity.
Qed.

Theorem fax_refuted : fax_capacity 4294967295 4294967295 = Panic 1002 /\ fax_check 0 0 = Panic 1003 /\
  forall buf_len columns, 0 < columns -> fax_check buf_len columns = Ok (buf_len mod columns).
Proof.
  split; [vm_compute; reflexivity|]. split; [vm_compute; reflexivity|].
  intros b c H. unfold fax_check, ck_rem. destruct (c =? 0) eqn:E; [apply N.eqb_eq in E; lia|reflexivity].
Qed.
