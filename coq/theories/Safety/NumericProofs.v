(** Safety/NumericProofs.v — C14, numeric-parameter sites of this area (function.rs, encoding.rs, fax geometry): for every site, over the whole Rust integer type,
    either "no checked primitive can fire" (the guards in the code suffice) or the exact class of parameters
    on which one fires, with a concrete witness ([…_refuted]) that is replayed on the real code. *)
From PdfV Require Import Base.Prelude Gen.Generated Lex.Lexer Safety.Front Safety.FrontProofs Safety.Numeric.

(* ------------------------------------------------------------------ generated guards (table lemmas) *)
Lemma guards_table :
  ps_roll_len_guard = 1 /\ ps_roll_mod_guard = 1 /\ ps_index_guard = 1 /\ ps_parse_get = 1 /\ diff_wrapping = 1.
Proof. repeat split; reflexivity. Qed.
Lemma fn2_guard_table : (fn2_domain_max_index <? fn2_domain_min) = true /\ (0 <? fn2_domain_min) = true.
Proof. split; vm_compute; reflexivity. Qed.
Lemma depth_table : (0 <? tree_depth) = true /\ (0 <? cs_depth) = true.
Proof. repeat split; vm_compute; reflexivity. Qed.

(* ------------------------------------------------------------------ checked primitives *)
Lemma ck_sub_ok s a b : b <= a -> ck_sub s a b = Ok (a - b).
Proof. intros H. unfold ck_sub. apply N.leb_le in H. rewrite H. reflexivity. Qed.
Lemma ck_mul_ok s a b : a * b < U64 -> ck_mul s a b = Ok (a * b).
Proof. intros H. unfold ck_mul. apply N.ltb_lt in H. rewrite H. reflexivity. Qed.
Lemma ck_nth_ok {A} s (l : list A) i : i < lenN l -> exists x, ck_nth s l i = Ok x.
Proof.
  intros H. unfold ck_nth, nthN. destruct (nth_error l (N.to_nat i)) eqn:E; [eauto|].
  apply nth_error_None in E. unfold lenN in H. lia.
Qed.
Lemma lenN_firstn {A} (l : list A) n : n <= lenN l -> lenN (firstn (N.to_nat n) l) = n.
Proof. unfold lenN. intros H. rewrite firstn_length. lia. Qed.

(* ------------------------------------------------------------------ PostScript calculator *)
Section PSProofs.
  Variable rnd : Z -> Z.

  Theorem ps_exec_total : forall ops st, never_crashes (ps_exec rnd ops st).
  Proof.
    destruct guards_table as (G1 & G2 & G3 & _).
    intros ops st. eapply post_never with (Q := fun _ => True). revert st.
    induction ops as [|op t IH]; intros st; [cbn; exact I|].
    cbn [ps_exec]. destruct op.
    - apply IH.
    - destruct st as [|v r]; [cbn; exact I|apply IH].
    - destruct st as [|b [|a r]]; try (cbn; exact I). apply IH.
    - destruct st as [|b [|a r]]; try (cbn; exact I). apply IH.
    - destruct st as [|b [|a r]]; try (cbn; exact I). apply IH.
    - destruct st as [|b [|a r]]; try (cbn; exact I). apply IH.
    - destruct st as [|a r]; [cbn; exact I|apply IH].
    - (* roll *)
      destruct st as [|j [|n rest]]; try (cbn; exact I).
      rewrite G1, G2. cbn [N.eqb negb andb orb]. change (1 =? 1) with true. cbn [andb negb orb].
      destruct (lenN rest <? f32_as_usize n) eqn:E; [cbn; exact I|].
      apply N.ltb_ge in E. rewrite (ck_sub_ok _ _ _ E). cbn [bind].
      rewrite Bool.orb_false_r.
      destruct (0 <? f32_as_usize n) eqn:E0; [|apply IH].
      apply N.ltb_lt in E0.
      unfold ck_rem_euclid. destruct (Z.of_N (f32_as_usize n) <=? 0)%Z eqn:Ez; [apply Z.leb_le in Ez; lia|].
      cbn [bind]. unfold rot_right.
      rewrite (lenN_firstn _ _ E).
      assert (Hk : Z.to_N (f32_as_isize j mod Z.of_N (f32_as_usize n)) <= f32_as_usize n).
      { pose proof (Z.mod_pos_bound (f32_as_isize j) (Z.of_N (f32_as_usize n)) ltac:(lia)). lia. }
      apply N.leb_le in Hk. rewrite Hk. cbn [bind]. apply IH.
    - (* index *)
      destruct st as [|n rest]; [cbn; exact I|].
      rewrite G3. change (1 =? 1) with true. cbn [andb].
      destruct (lenN rest <=? f32_as_usize n) eqn:E; [cbn; exact I|].
      apply N.leb_gt in E.
      rewrite (ck_sub_ok _ _ _ (N.lt_le_incl _ _ E)). cbn [bind].
      rewrite ck_sub_ok by lia. cbn [bind].
      destruct (ck_nth_ok 415 rest _ E) as [v Hv]. rewrite Hv. cbn [bind]. apply IH.
    - apply IH.
    - destruct st as [|a r]; [cbn; exact I|apply IH].
  Qed.

  Theorem ps_run_total ops inputs n_out : never_crashes (ps_run rnd ops inputs n_out).
  Proof.
    unfold ps_run. destruct (ps_exec_total ops (rev inputs)) as [Hp Hf].
    destruct (ps_exec rnd ops (rev inputs)) as [st|e|s|].
    - destruct (n_out =? lenN st); split; intros; discriminate.
    - split; intros; discriminate.
    - exfalso. exact (Hp s eq_refl).
    - exfalso. exact (Hf eq_refl).
  Qed.
End PSProofs.

Lemma find_last_bound c : forall l pos p, find_last c l pos = Some p -> pos <= p < pos + lenN l.
Proof.
  induction l as [|b t IH]; intros pos p H; cbn [find_last] in H; [discriminate|].
  unfold lenN in *. cbn [length]. destruct (find_last c t (pos + 1)) eqn:E.
  - inversion H; subst. apply IH in E. lia.
  - destruct (b =? c); [|discriminate]. inversion H; subst. lia.
Qed.

Theorem ps_body_total s : never_crashes (ps_body s).
Proof.
  destruct guards_table as (_ & _ & _ & G4 & _).
  eapply post_never with (Q := fun _ => True). unfold ps_body.
  destruct (find_first 123 s 0) as [start|]; [|cbn; exact I].
  destruct (find_last 125 s 0) as [stop|] eqn:E; [|cbn; exact I].
  rewrite G4. change (1 =? 1) with true. cbn [andb].
  destruct (start + 1 <=? stop) eqn:E1; [|cbn; exact I]. cbn [negb].
  apply find_last_bound in E. unfold ck_slice. rewrite E1.
  assert (H : (stop <=? lenN s) = true) by (apply N.leb_le; lia). rewrite H. cbn. exact I.
Qed.

(* ------------------------------------------------------------------ Function type 2 *)
Theorem fn2_load_total domain_len range_len c0_len c1_len :
  never_crashes (fn2_load domain_len range_len c0_len c1_len).
Proof.
  destruct fn2_guard_table as [T1 T2]. apply N.ltb_lt in T1. apply N.ltb_lt in T2.
  eapply post_never with (Q := fun _ => True). unfold fn2_load.
  eapply post_bind with (Q := fun _ => True).
  { destruct range_len, c0_len, c1_len; cbn; exact I. }
  intros n _. destruct (domain_len <? fn2_domain_min) eqn:E; [cbn; exact I|].
  apply N.ltb_ge in E. unfold ck_idx.
  assert (H0 : (0 <? domain_len) = true) by (apply N.ltb_lt; lia).
  assert (H1 : (fn2_domain_max_index <? domain_len) = true) by (apply N.ltb_lt; lia).
  rewrite H0, H1. cbn. exact I.
Qed.

(* ------------------------------------------------------------------ Encoding differences *)
Lemma ins_sorted_len x : forall l, (length (ins_sorted x l) <= S (length l))%nat.
Proof.
  induction l as [|y t IH]; [cbn; lia|].
  cbn [ins_sorted]. destruct (x <? y); [cbn [length]; lia|]. destruct (x =? y); cbn [length] in *; lia.
Qed.

Theorem differences_total : forall items, exists l, differences items = Ok l /\ (length l <= length items)%nat.
Proof.
  destruct guards_table as (_ & _ & _ & _ & G5).
  assert (H : forall items gid acc, exists l, diff_go items gid acc = Ok l /\ (length l <= length acc + length items)%nat).
  { induction items as [|it t IH]; intros gid acc; cbn [diff_go].
    - exists acc. split; [reflexivity|lia].
    - destruct it.
      + destruct (IH (Z.to_N (c mod 4294967296)%Z) acc) as [l [H1 H2]]. exists l. split; [exact H1|cbn [length]; lia].
      + rewrite G5. change (1 =? 1) with true. cbn [bind].
        destruct (IH ((gid + 1) mod U32) (ins_sorted gid acc)) as [l [H1 H2]]. exists l. split; [exact H1|].
        pose proof (ins_sorted_len gid acc). cbn [length]. lia. }
  intros items. destruct (H items 0 []) as [l [H1 H2]]. exists l. split; [exact H1|cbn [length] in H2; lia].
Qed.

(* ------------------------------------------------------------------ fax geometry *)
Theorem fax_capacity_sites columns rows : columns < U32 -> rows < U32 ->
  (columns * rows <= ISIZE_MAX -> fax_capacity columns rows = Ok (columns * rows)) /\
  (ISIZE_MAX < columns * rows -> fax_capacity columns rows = Panic 1002).
Proof.
  intros Hc Hr. unfold fax_capacity.
  assert (H : columns * rows < U64).
  { unfold U32, U64 in *. assert (columns * rows <= 4294967295 * 4294967295) by (apply N.mul_le_mono; lia). lia. }
  rewrite (ck_mul_ok _ _ _ H). cbn [bind]. split; intros Hx.
  - apply N.ltb_ge in Hx. rewrite Hx. reflexivity.
  - apply N.ltb_lt in Hx. rewrite Hx. reflexivity.
Qed.

Theorem fax_refuted : fax_capacity 4294967295 4294967295 = Panic 1002 /\ fax_check 0 0 = Panic 1003 /\
  forall buf_len columns, 0 < columns -> fax_check buf_len columns = Ok (buf_len mod columns).
Proof.
  split; [vm_compute; reflexivity|]. split; [vm_compute; reflexivity|].
  intros b c H. unfold fax_check, ck_rem. destruct (c =? 0) eqn:E; [apply N.eqb_eq in E; lia|reflexivity].
Qed.
