(** Safety/Walks.v — C14: the recursion schemes of typed loading over an ARBITRARY finite object graph.
    [graph]: object number -> the object numbers its typed load gets eagerly.  Model file: definitions only. *)
From PdfV Require Import Base.Prelude Gen.Generated Safety.Front.

Definition graph := N -> list N.
Definition E_REC : N := 40.      (* "Recursive reference" *)
Definition E_DEPTH : N := 41.    (* depth budget exceeded *)
Definition E_TWICE : N := 42.    (* node reachable twice *)

(* file.rs: StorageResolver::get — push the key on `chain` unless it is there ("Recursive reference"), run the typed
   load (which gets the referenced objects), then the drop guard `assert_eq!(chain.pop(), Some(key))` (Panic 951).
   A failed load is an error VALUE ((chain, false)); [stop_on_error]: `?` propagation vs. a field that swallows the
   error (Option in tolerant mode) and goes on with the next field.  Cached results only remove calls. *)
Fixpoint guarded (fuel : nat) (stop_on_error : bool) (g : graph) (chain : list N) (key : N) : res (list N * bool) :=
  match fuel with
  | O => OutOfFuel
  | S f =>
    if memN key chain then Ok (chain, false) else
    do (chain2, ok) <-
      (fix each (cs : list N) (ch : list N) (ok : bool) {struct cs} : res (list N * bool) :=
         match cs with
         | [] => Ok (ch, ok)
         | c :: t =>
           do (ch', ok') <- guarded f stop_on_error g ch c;
           if negb ok' && stop_on_error then Ok (ch', false) else each t ch' (ok && ok')
         end) (g key) (key :: chain) true;
    match chain2 with
    | k :: rest => if k =? key then Ok (rest, ok) else Panic 951
    | [] => Panic 951
    end
  end.

(* the scheme of NameTree::walk / NumberTree::walk BEFORE the repair (and of any recursion that releases the guard
   before it descends): no visited set, no budget *)
Fixpoint unguarded (fuel : nat) (g : graph) (key : N) : res unit :=
  match fuel with
  | O => OutOfFuel
  | S f =>
    (fix each (cs : list N) : res unit :=
       match cs with [] => Ok tt | c :: t => do _ <- unguarded f g c; each t end) (g key)
  end.

(* object/types.rs: NameTree::walk_limited / NumberTree::walk_limited (after the repair): depth budget first,
   then for every kid: error if already seen, mark, get, recurse with depth - 1.  Returns the visited set. *)
Fixpoint tree_walk (depth : nat) (g : graph) (kids : list N) (seen : list N) {struct depth} : res (list N) :=
  match depth with
  | O => Err E_DEPTH
  | S d =>
    (fix each (ks : list N) (seen : list N) {struct ks} : res (list N) :=
       match ks with
       | [] => Ok seen
       | k :: t =>
         if memN k seen then Err E_TWICE else
         do seen' <- tree_walk d g (g k) (k :: seen);
         each t seen'
       end) kids seen
  end.
Definition tree_walk_root (g : graph) (root : N) : res (list N) := tree_walk (N.to_nat tree_depth) g (g root) [].

(* object/color.rs: ColorSpace::from_primitive_depth — base colour space chains (Indexed / Separation / DeviceN alt)
   with budget cs_depth; [base n] = the object the base entry of n refers to, None for a device space *)
Fixpoint colorspace (depth : nat) (base : N -> option N) (n : N) : res unit :=
  match base n with
  | None => Ok tt
  | Some b => match depth with O => Err E_DEPTH | S d => colorspace d base b end
  end.
