(** Safety/RunNum.v — harness entry points of the numeric-site and walk models (one per mode; see modes.txt). *)
From PdfV Require Import Base.Prelude Gen.Generated Lex.Lexer Codec.Model Safety.Front Safety.Numeric Safety.Walks.

Definition field (fs : list bytes) (i : nat) : bytes := nth i fs [].

Fixpoint split_on (sep : N -> bool) (l : bytes) (cur : bytes) : list bytes :=
  match l with
  | [] => match cur with [] => [] | _ => [rev cur] end
  | b :: t => if sep b then match cur with [] => split_on sep t [] | _ => rev cur :: split_on sep t [] end
              else split_on sep t (b :: cur)
  end.
Definition commas (l : bytes) : list bytes := split_on (fun b => b =? 44) l [].
Definition is_dash (l : bytes) : bool := match l with [45] => true | _ => false end.
Definition opt_dec (l : bytes) : option N := if is_dash l then None else Some (N_of_dec l).

(* binary32 rounding of an integer (round to nearest, ties to even); exact below 2^24 *)
Definition rnd32 (z : Z) : Z :=
  let a := Z.abs z in
  if (a <? 16777216)%Z then z else
  let e := (Z.log2 a - 23)%Z in
  let q := Z.shiftr a e in
  let r := (a - Z.shiftl q e)%Z in
  let half := Z.shiftl 1 (e - 1) in
  let q' := if (r <? half)%Z then q else if (half <? r)%Z then (q + 1)%Z else if Z.even q then q else (q + 1)%Z in
  (Z.sgn z * Z.shiftl q' e)%Z.

(* str::split_ascii_whitespace *)
Definition ascii_ws (b : N) : bool := memN b [9; 10; 12; 13; 32].
Definition kw (s : list N) (t : bytes) : bool := bytes_eqb s t.
(* PsOp::parse on the tokens the generator emits: integers (i32 or, out of range, the same digits as f32) and operator names *)
Definition psop_of (t : bytes) : option psop :=
  if is_integer t then Some (PsNum (Z_of_dec (match t with c :: r => if c =? PLUS then r else t | [] => t end)))
  else if kw [97;100;100] t then Some PsAdd else if kw [115;117;98] t then Some PsSub
  else if kw [97;98;115] t then Some PsAbs else if kw [109;117;108] t then Some PsMul
  else if kw [100;117;112] t then Some PsDup else if kw [101;120;99;104] t then Some PsExch
  else if kw [114;111;108;108] t then Some PsRoll else if kw [105;110;100;101;120] t then Some PsIndex
  else if kw [99;118;114] t then Some PsCvr else if kw [112;111;112] t then Some PsPop else None.
Fixpoint psops_of (ts : list bytes) : option (list psop) :=
  match ts with
  | [] => Some []
  | t :: r => match psop_of t, psops_of r with Some o, Some os => Some (o :: os) | _, _ => None end
  end.
Fixpoint join_dec (l : list Z) : bytes :=
  match l with [] => [] | [x] => dec_of_Z x | x :: t => dec_of_Z x ++ 44 :: join_dec t end.
Fixpoint join_decN (l : list N) : bytes :=
  match l with [] => [] | [x] => dec_of_N x | x :: t => dec_of_N x ++ 44 :: join_decN t end.

(* num_ps: program, inputs, n_out *)
Definition run_num_ps (fs : list bytes) : res (list bytes) :=
  do body <- ps_body (field fs 0);
  match psops_of (split_on ascii_ws body []) with
  | None => Err E_NUM
  | Some ops =>
    do out <- ps_run rnd32 ops (map (fun t => rnd32 (Z_of_dec t)) (commas (field fs 1))) (N_of_dec (field fs 2));
    Ok [join_dec out]
  end.

(* num_diff: items *)
Definition ditem_of (t : bytes) : ditem := match t with 105 :: r => DCode (Z_of_dec r) | _ => DName end.
Definition run_num_diff (fs : list bytes) : res (list bytes) :=
  do l <- differences (map ditem_of (commas (field fs 0)));
  Ok [dec_of_N (lenN l); join_decN l].

(* num_fnload (model fields): domain_len range_len|- c0_len|- c1_len|- *)
Definition run_num_fnload (fs : list bytes) : res (list bytes) :=
  do n <- fn2_load (N_of_dec (field fs 0)) (opt_dec (field fs 1)) (opt_dec (field fs 2)) (opt_dec (field fs 3));
  Ok [dec_of_N 1; dec_of_N n].

(* num_objstm: N First data index *)
Definition run_num_objstm (fs : list bytes) : res (list bytes) :=
  let n := Z_of_dec (field fs 0) in let first := Z_of_dec (field fs 1) in
  if ((n <? 0) || (first <? 0))%Z then Err E_NUM else
  let data := field fs 2 in
  do offs <- objstm_header (S (length data)) (Z.to_N n) (mkLx 0 data) [];
  do r <- objstm_slice (Z.to_N first) offs (lenN data) (N_of_dec (field fs 3));
  Ok [dec_of_N (fst r); dec_of_N (snd r)].

(* num_widths (model fields): items i<z> | a<n> *)
Definition witem_of (t : bytes) : witem :=
  match t with 105 :: r => WInt (Z_of_dec r) | 97 :: r => WArr (N_of_dec r) | _ => WOther end.
Definition BLOWUP : N := 134217728.
Definition run_num_widths (fs : list bytes) : res (list bytes) :=
  do r <- widths_site (map witem_of (commas (field fs 0)));
  if (BLOWUP <? fst r) || (BLOWUP <? snd r) then Ok [[66; 76; 79; 87; 85; 80]] else Ok [].

(* num_crypt: V R Length|- CFM|- cf_length|- : the password never matches, so a key size means InvalidPassword / Other *)
Definition cfm_of (t : bytes) : N :=
  if kw [86; 50] t then 0 else if kw [65; 69; 83; 86; 50] t then 1 else if kw [65; 69; 83; 86; 51] t then 2 else 3.
Definition run_num_crypt (fs : list bytes) : res (list bytes) :=
  let bits := match opt_dec (field fs 2) with Some b => b | None => 40 end in
  let cf := if is_dash (field fs 3) then None else Some (cfm_of (field fs 3), opt_dec (field fs 4)) in
  do _ <- crypt_key_size (N_of_dec (field fs 0)) (N_of_dec (field fs 1)) bits cf;
  Err E_NUM.

(* num_pages (model fields): tree tokens "nkids,<node>…" with node = L | T,count,nkids,<node>… ; page_nr *)
Fixpoint pnodes_of (fuel : nat) (k : N) (ts : list bytes) : option (list pnode * list bytes) :=
  match fuel with
  | O => None
  | S f =>
    if k =? 0 then Some ([], ts) else
    match ts with
    | [76] :: r => match pnodes_of f (k - 1) r with Some (ns, r') => Some (PLeaf :: ns, r') | None => None end
    | [84] :: c :: nk :: r =>
        match pnodes_of f (N_of_dec nk) r with
        | Some (sub, r1) => match pnodes_of f (k - 1) r1 with Some (ns, r2) => Some (PTree (N_of_dec c) sub :: ns, r2) | None => None end
        | None => None
        end
    | _ => None
    end
  end.
Definition run_num_pages (fs : list bytes) : res (list bytes) :=
  match commas (field fs 0) with
  | nk :: ts =>
    match pnodes_of (S (S (length ts))) (N_of_dec nk) ts with
    | Some (kids, _) => do _ <- page_site kids (N_of_dec (field fs 1)); Ok []
    | None => Err E_NUM
    end
  | [] => Err E_NUM
  end.

(* num_tree (model fields): adjacency "n:k.k.k;n:;…" (kids of each intermediate node), root *)
Definition graph_of (f : bytes) : graph :=
  let rows := split_on (fun b => b =? 59) f [] in
  let tbl := map (fun row => match split_on (fun b => b =? 58) row [] with
                             | k :: v :: _ => (N_of_dec k, map N_of_dec (split_on (fun b => b =? 46) v []))
                             | k :: _ => (N_of_dec k, [])
                             | [] => (0, [])
                             end) rows in
  fun n => match find (fun p => fst p =? n) tbl with Some p => snd p | None => [] end.
Definition run_num_tree (fs : list bytes) : res (list bytes) :=
  do _ <- tree_walk_root (graph_of (field fs 0)) (N_of_dec (field fs 1)); Ok [].
