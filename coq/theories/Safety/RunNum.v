(** Safety/RunNum.v — harness entry points of the numeric-site and walk models of this area (one per mode; see modes.txt).
    The sites owned by other areas have their correspondence modes in those areas (objstm, xref_stream, cid_widths, …). *)
From PdfV Require Import Base.Prelude Gen.Generated Lex.Lexer Safety.Front Safety.Numeric Safety.Walks.

Definition field (fs : list bytes) (i : nat) : bytes := nth i fs [].

Fixpoint split_on (sep : N -> bool) (l : bytes) (cur : bytes) : list bytes :=
  match l with
  | [] => match cur with [] => [] | _ => [rev cur] end
  | b :: t => if sep b then match cur with [] => split_on sep t [] | _ => rev cur :: split_on sep t [] end
              else split_on sep t (b :: cur)
  end.
Definition commas (l : bytes) : list bytes := split_on (fun b => b =? 44) l [].
Definition is_dash (l : bytes) : bool := match l with [45] => true | _ => false end.
Definition opt_dec (l : bytes) : option N := if is_dash l then None else Some (N_of_dec l).

(* binary32 rounding of an integer (round to nearest, ties to even); exact below 2^24 *)
Definition rnd32 (z : Z) : Z :=
  let a := Z.abs z in
  if (a <? 16777216)%Z then z else
  let e := (Z.log2 a - 23)%Z in
  let q := Z.shiftr a e in
  let r := (a - Z.shiftl q e)%Z in
  let half := Z.shiftl 1 (e - 1) in
  let q' := if (r <? half)%Z then q else if (half <? r)%Z then (q + 1)%Z else if Z.even q then q else (q + 1)%Z in
  (Z.sgn z * Z.shiftl q' e)%Z.

(* str::split_ascii_whitespace *)
Definition ascii_ws (b : N) : bool := memN b [9; 10; 12; 13; 32].
Definition kw (s : list N) (t : bytes) : bool := bytes_eqb s t.
(* PsOp::parse on the tokens the generator emits: integers (i32 or, out of range, the same digits as f32) and operator names *)
Definition psop_of (t : bytes) : option psop :=
  if is_integer t then Some (PsNum (Z_of_dec (match t with c :: r => if c =? PLUS then r else t | [] => t end)))
  else if kw [97;100;100] t then Some PsAdd else if kw [115;117;98] t then Some PsSub
  else if kw [97;98;115] t then Some PsAbs else if kw [109;117;108] t then Some PsMul
  else if kw [100;117;112] t then Some PsDup else if kw [101;120;99;104] t then Some PsExch
  else if kw [114;111;108;108] t then Some PsRoll else if kw [105;110;100;101;120] t then Some PsIndex
  else if kw [99;118;114] t then Some PsCvr else if kw [112;111;112] t then Some PsPop else None.
Fixpoint psops_of (ts : list bytes) : option (list psop) :=
  match ts with
  | [] => Some []
  | t :: r => match psop_of t, psops_of r with Some o, Some os => Some (o :: os) | _, _ => None end
  end.
Fixpoint join_dec (l : list Z) : bytes :=
  match l with [] => [] | [x] => dec_of_Z x | x :: t => dec_of_Z x ++ 44 :: join_dec t end.
Fixpoint join_decN (l : list N) : bytes :=
  match l with [] => [] | [x] => dec_of_N x | x :: t => dec_of_N x ++ 44 :: join_decN t end.

(* num_ps: program, inputs, n_out *)
Definition run_num_ps (fs : list bytes) : res (list bytes) :=
  do body <- ps_body (field fs 0);
  match psops_of (split_on ascii_ws body []) with
  | None => Err E_NUM
  | Some ops =>
    do out <- ps_run rnd32 ops (map (fun t => rnd32 (Z_of_dec t)) (commas (field fs 1))) (N_of_dec (field fs 2));
    Ok [join_dec out]
  end.

(* num_diff: items *)
Definition ditem_of (t : bytes) : ditem := match t with 105 :: r => DCode (Z_of_dec r) | _ => DName end.
Definition run_num_diff (fs : list bytes) : res (list bytes) :=
  do l <- differences (map ditem_of (commas (field fs 0)));
  Ok [dec_of_N (lenN l); join_decN l].

(* num_fnload (model fields): domain_len range_len|- c0_len|- c1_len|- *)
Definition run_num_fnload (fs : list bytes) : res (list bytes) :=
  do n <- fn2_load (N_of_dec (field fs 0)) (opt_dec (field fs 1)) (opt_dec (field fs 2)) (opt_dec (field fs 3));
  Ok [dec_of_N 1; dec_of_N n].

(* num_tree (model fields): adjacency "n:k.k.k;n:;…" (kids of each intermediate node), root *)
Definition graph_of (f : bytes) : graph :=
  let rows := split_on (fun b => b =? 59) f [] in
  let tbl := map (fun row => match split_on (fun b => b =? 58) row [] with
                             | k :: v :: _ => (N_of_dec k, map N_of_dec (split_on (fun b => b =? 46) v []))
                             | k :: _ => (N_of_dec k, [])
                             | [] => (0, [])
                             end) rows in
  fun n => match find (fun p => fst p =? n) tbl with Some p => snd p | None => [] end.
Definition run_num_tree (fs : list bytes) : res (list bytes) :=
  do _ <- tree_walk_root (graph_of (field fs 0)) (N_of_dec (field fs 1)); Ok [].

(* num_fax: K columns rows data.  The lines the external decoder delivers are not known to the model: it answers for the
   geometry only — an error value when fax_decode refuses the parameters, the marker GEOM when the decoder is called
   (the implementation then returns a value or an error, which the plugin's comparison accepts; never a panic). *)
Definition run_num_fax (fs : list bytes) : res (list bytes) :=
  do _ <- fax_geometry (Z_of_dec (field fs 0)) (N_of_dec (field fs 1)) (N_of_dec (field fs 2));
  Ok [[71; 69; 79; 77]].
