(** Safety/Imported.v — C01/C14: sites that live in files of OTHER areas.  This area keeps no model of them.
    The models used here are those areas' own (ObjStm/Model.v, Crypt/Model.v, Crypt/Rc4.v), kept faithful to the
    current code by the correspondence runs of their checks (C11, C06); where the owning area already states the
    no-panic fact, Properties/C01.v / C14.v re-export that lemma directly.  What is proved HERE are the two
    facts the owning areas do not state themselves: the whole compressed-object path (header + slice + parse of
    the member) is total, and Decoder::from_password for the RC4 revisions is total for EVERY key length
    (the former finding C14-d / C01-l / C01-m: /Length 0 and 8 * n overflow). *)
From PdfV Require Import Base.Prelude Gen.Generated Lex.Lexer Syn.Prim Syn.Parser Safety.Front Safety.FrontProofs.
From PdfV Require Import Lex.StrLexer Syn.Run Codec.Model Codec.Dispatch Codec.Pairing.
From PdfV Require Codec.RleProofs Codec.ChainProofs ObjStm.Model ObjStm.Proofs XRef.Model XRef.StreamProofs Crypt.Rc4 Crypt.Model.

Lemma no_panic_never {A} (r : res A) : no_panic r <-> never_crashes r.
Proof.
  split.
  - intros H. destruct r; cbn in H; try contradiction; split; intros; discriminate.
  - intros [Hp Hf]. destruct r; cbn; auto; try (exact (Hp _ eq_refl)); try (exact (Hf eq_refl)).
Qed.

(* ---------------- stream decoders: Codec/ChainProofs.v (the lemmas behind Properties/C05.v: C05_no_panic) *)
Theorem decoders_total : forall izlib iraw ld, Codec.ChainProofs.oracles_total izlib iraw ld ->
  (forall f d, never_crashes (decode izlib iraw ld f d)) /\
  (forall fs d, never_crashes (decode_chain izlib iraw ld fs d)) /\
  (forall f pv d, never_crashes (stream_data izlib iraw ld f pv d)).
Proof.
  intros izlib iraw ld T. split; [|split]; intros; apply no_panic_never.
  - exact (Codec.ChainProofs.decode_no_panic izlib iraw ld T f d).
  - exact (Codec.ChainProofs.chain_no_panic izlib iraw ld T fs d).
  - exact (Codec.ChainProofs.stream_no_panic izlib iraw ld T f pv d).
Qed.

Theorem decode_hex_total data : never_crashes (decode_hex data).
Proof. apply no_panic_never. apply Codec.RleProofs.hex_no_panic. Qed.
Theorem decode_85_total data : never_crashes (decode_85 data).
Proof. apply no_panic_never. apply Codec.RleProofs.a85_no_panic. Qed.
Theorem rle_total data : never_crashes (run_length_decode data).
Proof. apply no_panic_never. apply Codec.RleProofs.rle_no_panic. Qed.

(* ---------------- cross-reference streams: XRef/StreamProofs.v (the lemma behind C02_stream_no_panic) *)
Theorem xref_stream_total first num width data allow :
  never_crashes (XRef.Model.parse_xref_section_from_stream first num width data allow).
Proof. apply no_panic_never. apply XRef.StreamProofs.stream_section_no_panic. Qed.

(* ---------------- the whole front end (Properties/C01.v: C01_full_statement) *)
Theorem front_full :
  (forall R, total_resolver R -> forall flags data, never_crashes (parse R flags data)) /\
  (forall data, never_crashes (lex_all (S (length data)) (mkLx 0 data))) /\
  (forall data, never_crashes (string_lex data)) /\ (forall data, never_crashes (hexstring_lex data)) /\
  (forall data, never_crashes (decode_hex data)) /\ (forall data, never_crashes (decode_85 data)) /\
  (forall data, never_crashes (run_length_decode data)).
Proof.
  repeat split; intros.
  all: first [ apply parse_total; assumption | apply lex_all_total | apply string_lex_total | apply hexstring_lex_total
             | apply decode_hex_total | apply decode_85_total | apply rle_total ].
Qed.

(* ---------------- object streams *)
Lemma header_offsets_post : forall n s, post (fun _ => True) (ObjStm.Model.header_offsets n s).
Proof.
  induction n as [|n IH]; intros s; cbn [ObjStm.Model.header_offsets]; [cbn; exact I|].
  eapply post_bind; [apply next_post|]. intros [t1 s1] _.
  eapply post_bind; [apply parse_u64_post|]. intros _ _.
  eapply post_bind; [apply next_post|]. intros [t2 s2] _.
  eapply post_bind; [apply parse_u64_post|]. intros off _.
  eapply post_bind; [apply IH|]. intros r _. cbn. exact I.
Qed.

Theorem objstm_header_total n s : never_crashes (ObjStm.Model.header_offsets n s).
Proof. eapply post_never. apply header_offsets_post. Qed.

Theorem objstm_member_total R : total_resolver R -> forall flags first nobj data index,
  never_crashes (ObjStm.Model.resolve_member R flags first nobj data index).
Proof.
  intros HR flags first nobj data index. eapply post_never with (Q := fun _ => True).
  unfold ObjStm.Model.resolve_member.
  eapply post_bind; [apply header_offsets_post|]. intros offs _.
  pose proof (ObjStm.Proofs.object_slice_no_panic first offs (lenN data) index) as Hs.
  destruct (ObjStm.Model.object_slice first offs (lenN data) index) as [[st en]|e|site|] eqn:E.
  - cbn [bind]. destruct ((st <=? en) && (en <=? lenN data)); [|cbn; exact I].
    apply never_post. apply parse_total. exact HR.
  - cbn. exact I.
  - exfalso. exact (Hs site eq_refl).
  - exfalso. revert E. unfold ObjStm.Model.object_slice.
    repeat match goal with |- context [match ?x with _ => _ end] => destruct x end; discriminate.
Qed.

(* ---------------- crypt key length (Crypt/Model.v: from_password, revisions 2-4) *)
Module CM := Crypt.Model.
Module R4 := Crypt.Rc4.

Lemma lenN_nat {A} (l : list A) : lenN l = N.of_nat (length l).
Proof. reflexivity. Qed.

Lemma rc4_ok key data : (1 <= length key <= 256)%nat -> exists c, R4.rc4 key data = Ok c.
Proof.
  intros H. unfold R4.rc4, R4.rc4_key_ok. rewrite lenN_nat.
  assert (E1 : (N.of_nat (length key) =? 0) = false) by (apply N.eqb_neq; lia).
  assert (E2 : (N.of_nat (length key) <=? 256) = true) by (apply N.leb_le; lia).
  rewrite E1, E2. cbn. eauto.
Qed.

Lemma repeatN_len {A} (x : A) n : length (repeatN x n) = n.
Proof. induction n as [|n IH]; cbn [repeatN length]; [reflexivity|rewrite IH; reflexivity]. Qed.

Lemma xor_key_len key i : length (CM.xor_key key i) = length key.
Proof. unfold CM.xor_key. apply map_length. Qed.

Section CryptLen.
  Variable md5 : bytes -> res bytes.
  Hypothesis Hmd5 : forall x, exists h, md5 x = Ok h /\ length h = 16%nat.

  Lemma md5_post x : post (fun h => length h = 16%nat) (md5 x).
  Proof. destruct (Hmd5 x) as [h [E L]]. rewrite E. cbn. exact L. Qed.

  Lemma rc4_rounds_post : forall n from key data, (1 <= length key <= 256)%nat ->
    post (fun _ => True) (CM.rc4_rounds n from key data).
  Proof.
    induction n as [|n IH]; intros from key data Hk; cbn [CM.rc4_rounds]; [cbn; exact I|].
    destruct (rc4_ok (CM.xor_key key from) data) as [c E]; [rewrite xor_key_len; exact Hk|].
    rewrite E. cbn [bind]. apply IH. exact Hk.
  Qed.

  Lemma check_post revision u id key : (1 <= length key <= 256)%nat ->
    post (fun _ => True) (CM.check_password_rc4 md5 revision u id key).
  Proof.
    intros Hk. unfold CM.check_password_rc4, CM.compute_u_rev_2, CM.compute_u_rev_3_4.
    destruct (revision =? 2).
    - destruct (rc4_ok key PADDING Hk) as [c E]. rewrite E. cbn. exact I.
    - eapply post_bind; [|intros c _; cbn; exact I].
      eapply post_bind; [apply md5_post|]. intros h _.
      destruct (rc4_ok key h Hk) as [c E]. rewrite E. cbn [bind]. apply rc4_rounds_post. exact Hk.
  Qed.

  Lemma md5_rounds_post : forall n ks data, length data = 16%nat -> post (fun h => length h = 16%nat) (CM.md5_rounds md5 n ks data).
  Proof.
    induction n as [|n IH]; intros ks data Hd; cbn [CM.md5_rounds]; [cbn; exact Hd|].
    eapply post_bind; [apply md5_post|]. intros d Hl. apply IH. exact Hl.
  Qed.

  Lemma md5_iter_post : forall n h, length h = 16%nat -> post (fun h => length h = 16%nat) (CM.md5_iter md5 n h).
  Proof.
    induction n as [|n IH]; intros h Hd; cbn [CM.md5_iter]; [cbn; exact Hd|].
    eapply post_bind; [apply md5_post|]. intros d Hl. apply IH. exact Hl.
  Qed.

  Lemma kd_user_post revision ks d id pass :
    post (fun k => length k = N.to_nat (N.max ks 16)) (CM.kd_user md5 revision ks d id pass).
  Proof.
    unfold CM.kd_user.
    eapply post_bind; [apply md5_post|]. intros data Hl.
    eapply post_bind with (Q := fun h => length h = 16%nat).
    { destruct (3 <=? revision); [apply md5_rounds_post; exact Hl|cbn; exact Hl]. }
    intros data2 Hl2. cbn. rewrite app_length, repeatN_len, Hl2. lia.
  Qed.

  Lemma kd_owner_post revision ks pass :
    post (fun k => ks <= 16 /\ length k = N.to_nat ks) (CM.kd_owner md5 revision ks pass).
  Proof.
    unfold CM.kd_owner. destruct (16 <? ks) eqn:E; [cbn; exact I|]. apply N.ltb_ge in E.
    eapply post_bind; [apply md5_post|]. intros h Hl.
    eapply post_bind with (Q := fun h => length h = 16%nat).
    { destruct (3 <=? revision); [apply md5_iter_post; exact Hl|cbn; exact Hl]. }
    intros h2 Hl2. cbn. split; [exact E|]. unfold take. rewrite firstn_length. lia.
  Qed.

  Theorem from_password_rc4_total level key_bits m ms d id pass :
    never_crashes (CM.from_password_rc4 md5 level key_bits m ms d id pass).
  Proof.
    eapply post_never with (Q := fun _ => True). unfold CM.from_password_rc4.
    destruct (key_bits / 8 =? 0) eqn:E0; [cbn; exact I|]. apply N.eqb_neq in E0.
    set (ks := key_bits / 8) in *.
    eapply post_bind; [apply kd_user_post|]. intros key Hk. cbn beta in Hk. clearbody ks.
    eapply post_bind with (Q := fun _ => True).
    { apply check_post. unfold take. rewrite firstn_length. lia. }
    intros okk _. destruct okk; [cbn; exact I|].
    eapply post_bind; [apply kd_owner_post|]. intros wrap [Hks Hw].
    eapply post_bind with (Q := fun _ => True).
    { apply rc4_rounds_post. lia. }
    intros upw _.
    eapply post_bind; [apply kd_user_post|]. intros key2 Hk2. cbn beta in Hk2.
    eapply post_bind with (Q := fun _ => True).
    { apply check_post. unfold take. rewrite firstn_length. lia. }
    intros okk _. destruct okk; cbn; exact I.
  Qed.

  (* the whole of Decoder::from_password, every revision, is the Crypt area's own theorem
     (Crypt/SafeProofs.v: from_password_no_panic, re-exported as C14_crypt_key_length in Properties/C14.v) *)
End CryptLen.
