(** Safety/Numeric.v — C14: every place where a number taken from the file is used in
    arithmetic, as an index, as a length or as a loop bound ("numeric-parameter sites").
    Each site is modelled with CHECKED primitives: an operation that panics in Rust (debug
    profile: overflow checks on; slice/array index; assert!; division by zero) returns
    [Panic site] here.  Whether a guard in the code makes the panic unreachable is then a
    theorem (Safety/NumericProofs.v), quantified over the whole Rust integer type.
    Model file: definitions only, every definition names its Rust anchor. *)
From PdfV Require Import Base.Prelude Gen.Generated Lex.Lexer Codec.Model Safety.Front.

Definition U64 : N := 18446744073709551616.
Definition U32 : N := 4294967296.
Definition ISIZE_MAX : N := 9223372036854775807.
(* a loop of more than 2^27 steps is not followed further by the models: they stop and report the cost *)
Definition HUGE : N := 134217728.
Definition E_NUM : N := 30.      (* an error value (bail!, try_opt!, Bounds, …) *)
Definition E_PS : N := 31.       (* PdfError::PostScriptExec / PostScriptParse *)
Definition E_OOB : N := 32.      (* PageOutOfBounds / ObjStmOutOfBounds *)

(* ---- checked primitives ------------------------------------------------------------------ *)
Definition ck_add (site a b : N) : res N := if a + b <? U64 then Ok (a + b) else Panic site.   (* usize + usize *)
Definition ck_sub (site a b : N) : res N := if b <=? a then Ok (a - b) else Panic site.        (* usize - usize *)
Definition ck_mul (site a b : N) : res N := if a * b <? U64 then Ok (a * b) else Panic site.   (* usize * usize *)
Definition ck_add32 (site a b : N) : res N := if a + b <? U32 then Ok (a + b) else Panic site. (* u32 + u32 *)
Definition ck_mul32 (site a b : N) : res N := if a * b <? U32 then Ok (a * b) else Panic site. (* u32 * u32 *)
Definition ck_div (site a b : N) : res N := if b =? 0 then Panic site else Ok (a / b).         (* a / b *)
Definition ck_rem (site a b : N) : res N := if b =? 0 then Panic site else Ok (a mod b).       (* a % b *)
Definition ck_idx (site len i : N) : res unit := if i <? len then Ok tt else Panic site.       (* v[i] *)
Definition ck_nth {A} (site : N) (l : list A) (i : N) : res A :=                               (* v[i] *)
  match nthN l i with Some x => Ok x | None => Panic site end.
(* isize::rem_euclid: panics on a zero divisor (and on MIN rem -1, excluded by the positive divisor) *)
Definition ck_rem_euclid (site : N) (j n : Z) : res N :=
  if (n <=? 0)%Z then Panic site else Ok (Z.to_N (j mod n)).
(* slice::rotate_right(k): assert!(k <= self.len()).  Lists are TOP FIRST (head = last element of the Vec):
   rotating the slice right by k = moving the first k elements of the reversed list to its end *)
Definition rot_right {A} (site k : N) (l : list A) : res (list A) :=
  if k <=? lenN l then Ok (skipn (N.to_nat k) l ++ firstn (N.to_nat k) l) else Panic site.

(* `x as usize` / `x as isize` for an f32 holding the integer z: saturating *)
Definition f32_as_usize (z : Z) : N := if (z <? 0)%Z then 0 else N.min (Z.to_N z) (U64 - 1).
Definition f32_as_isize (z : Z) : Z := Z.max (-9223372036854775808) (Z.min z 9223372036854775807).

(* ---- object/function.rs: PsFunc::exec_inner, PsFunc::exec --------------------------------- *)
Inductive psop := PsNum (z : Z) | PsDup | PsExch | PsAdd | PsSub | PsMul | PsAbs | PsRoll | PsIndex | PsCvr | PsPop.

Section PS.
  (* rounding of an exactly known integer to f32 (oracle: nothing is assumed about it) *)
  Variable rnd : Z -> Z.

  (* stack: top first *)
  Fixpoint ps_exec (ops : list psop) (st : list Z) : res (list Z) :=
    match ops with
    | [] => Ok st
    | op :: t =>
      match op with
      | PsNum z => ps_exec t (rnd z :: st)
      | PsDup => match st with v :: r => ps_exec t (v :: v :: r) | _ => Err E_PS end
      | PsExch => match st with b :: a :: r => ps_exec t (a :: b :: r) | _ => Err E_PS end
      | PsAdd => match st with b :: a :: r => ps_exec t (rnd (a + b) :: r) | _ => Err E_PS end
      | PsSub => match st with b :: a :: r => ps_exec t (rnd (a - b) :: r) | _ => Err E_PS end
      | PsMul => match st with b :: a :: r => ps_exec t (rnd (a * b) :: r) | _ => Err E_PS end
      | PsAbs => match st with a :: r => ps_exec t (Z.abs a :: r) | _ => Err E_PS end
      | PsCvr => ps_exec t st
      | PsPop => match st with _ :: r => ps_exec t r | _ => Err E_PS end
      | PsRoll =>
        match st with
        | j :: n :: rest =>
          let j' := f32_as_isize j in
          let n' := f32_as_usize n in
          if (ps_roll_len_guard =? 1) && (lenN rest <? n') then Err E_PS else   (* if n > stack.len() { return Err } *)
          do _ <- ck_sub 411 (lenN rest) n';                 (* let start = stack.len() - n *)
          let sl := firstn (N.to_nat n') rest in             (* &mut stack[start..] *)
          if (0 <? n') || negb (ps_roll_mod_guard =? 1) then          (* if n > 0 { … } *)
            do k <- ck_rem_euclid 412 j' (Z.of_N n');        (* j.rem_euclid(n as isize) *)
            do sl' <- rot_right 413 k sl;                    (* slice.rotate_right(k) *)
            ps_exec t (sl' ++ skipn (N.to_nat n') rest)
          else ps_exec t rest
        | _ => Err E_PS
        end
      | PsIndex =>
        match st with
        | n :: rest =>
          let n' := f32_as_usize n in
          if (ps_index_guard =? 1) && (lenN rest <=? n') then Err E_PS else     (* if n >= stack.len() { return Err } *)
          do i <- ck_sub 414 (lenN rest) n';                 (* stack.len() - n *)
          do _ <- ck_sub 414 i 1;                            (* … - 1 *)
          do v <- ck_nth 415 rest n';                        (* stack[len - n - 1]: the n-th from the top *)
          ps_exec t (v :: rest)
        | _ => Err E_PS
        end
      end
    end.

  (* PsFunc::exec: inputs bottom first; output length must equal the final stack length *)
  Definition ps_run (ops : list psop) (inputs : list Z) (n_out : N) : res (list Z) :=
    match ps_exec ops (rev inputs) with
    | Ok st => if n_out =? lenN st then Ok (rev st) else Err E_NUM
    | Err _ => Err E_PS
    | Panic s => Panic s
    | OutOfFuel => OutOfFuel
    end.
End PS.

(* ---- object/function.rs: PsFunc::parse (the body between the first '{' and the last '}') ---- *)
Fixpoint find_first (c : N) (l : bytes) (pos : N) : option N :=
  match l with [] => None | b :: t => if b =? c then Some pos else find_first c t (pos + 1) end.
Fixpoint find_last (c : N) (l : bytes) (pos : N) : option N :=
  match l with
  | [] => None
  | b :: t => match find_last c t (pos + 1) with Some p => Some p | None => if b =? c then Some pos else None end
  end.
(* &s[a..b]: panics unless a <= b <= len *)
Definition ck_slice (site : N) (s : bytes) (a b : N) : res bytes :=
  if (a <=? b) && (b <=? lenN s) then Ok (firstn (N.to_nat (b - a)) (skipn (N.to_nat a) s)) else Panic site.
Definition ps_body (s : bytes) : res bytes :=
  match find_first 123 s 0, find_last 125 s 0 with
  | Some start, Some stop =>
      if (ps_parse_get =? 1) && negb (start + 1 <=? stop) then Err E_PS   (* s.get(start + 1 .. end) is None *)
      else ck_slice 416 s (start + 1) stop                              (* … is Some / plain slicing *)
  | _, _ => Err E_PS
  end.

(* ---- object/function.rs: Function::from_dict, FunctionType 2 ------------------------------ *)
(* lengths of /Domain, /Range, /C0, /C1; result: number of output dimensions *)
Definition fn2_load (domain_len : N) (range_len c0_len c1_len : option N) : res N :=
  do n_dim <- match range_len, c0_len, c1_len with
              | Some r, _, _ => Ok (r / 2)
              | None, Some c, _ => Ok c
              | None, None, Some c => Ok c
              | None, None, None => Err E_NUM
              end;
  if domain_len <? fn2_domain_min then Err E_NUM else   (* if raw.domain.len() < 2 { bail!(…) } *)
  do _ <- ck_idx 401 domain_len 0;                        (* raw.domain[0] *)
  do _ <- ck_idx 401 domain_len fn2_domain_max_index;     (* raw.domain[1] *)
  Ok n_dim.

(* ---- encoding.rs: Encoding::from_primitive, the /Differences loop --------------------------- *)
Inductive ditem := DCode (c : Z) | DName.
Fixpoint ins_sorted (x : N) (l : list N) : list N :=
  match l with
  | [] => [x]
  | y :: t => if x <? y then x :: l else if x =? y then l else y :: ins_sorted x t
  end.
(* gid: u32; `code as u32` wraps; `gid.wrapping_add(1)`; HashMap::insert keeps one entry per code *)
Fixpoint diff_go (items : list ditem) (gid : N) (acc : list N) : res (list N) :=
  match items with
  | [] => Ok acc
  | DCode c :: t => diff_go t (Z.to_N (c mod 4294967296)%Z) acc
  | DName :: t =>
      do g <- (if diff_wrapping =? 1 then Ok ((gid + 1) mod U32) else ck_add32 451 gid 1);   (* gid.wrapping_add(1) *)
      diff_go t g (ins_sorted gid acc)
  end.
Definition differences (items : list ditem) : res (list N) := diff_go items 0 [].

(* ---- object/stream.rs: ObjectStream::get_object_slice ------------------------------------- *)
Definition objstm_slice (first : N) (offsets : list N) (data_len index : N) : res (N * N) :=
  if lenN offsets <=? index then Err E_OOB else
  do off <- ck_nth 501 offsets index;
  do start <- ck_add 502 first off;                      (* self.inner.info.first + self.offsets[index] *)
  do last <- ck_sub 503 (lenN offsets) 1;
  if index =? last then Ok (start, data_len) else
  do i1 <- ck_add 504 index 1;
  do off1 <- ck_nth 501 offsets i1;
  do stop <- ck_add 502 first off1;
  Ok (start, stop).

(* ObjectStream::from_primitive: the header loop `for _ in 0..num_objects { next()?.to::<u64>()?; next()?.to::<usize>()? }` *)
Fixpoint objstm_header (fuel : nat) (n : N) (s : lx) (acc : list N) : res (list N) :=
  match fuel with
  | O => OutOfFuel
  | S f =>
    if n =? 0 then Ok (rev acc) else
    do (t1, s1) <- next s; do _ <- parse_u64 t1;
    do (t2, s2) <- next s1; do off <- parse_u64 t2;
    objstm_header f (n - 1) s2 (off :: acc)
  end.

(* ---- parser/parse_xref.rs: parse_xref_section_from_stream, the entry count ------------------ *)
Definition xref_section_entries (tolerant : bool) (num w0 w1 w2 data_len : N) : res N :=
  do s01 <- ck_add 601 w0 w1;
  do sum <- ck_add 601 s01 w2;
  do need <- ck_mul 602 num sum;                         (* num_entries * (w0 + w1 + w2) *)
  if data_len <? need then
    if tolerant then ck_div 603 data_len sum             (* data.len() / (w0 + w1 + w2) *)
    else Err E_NUM
  else Ok num.

(* ---- font.rs: Font::widths, CID branch ------------------------------------------------------ *)
Inductive witem := WInt (z : Z) | WArr (n : N) | WOther.   (* WArr n: an array of n numbers *)
(* result: (number of `set` calls, largest cid set + 1) — the time and the memory of the call *)
Fixpoint widths_go (items : list witem) (sets top : N) : res (N * N) :=
  match items with
  | [] => Ok (sets, top)
  | WInt c1 :: t =>
    if (c1 <? 0)%Z then Err E_NUM else                    (* p.as_usize()? *)
    let c1 := Z.to_N c1 in
    match t with
    | WArr n :: t' =>
        do x <- ck_add 701 c1 n;
        do hi <- ck_sub 702 x 1;                          (* c1 + array.len() - 1 *)
        widths_go t' (sets + n) (if n =? 0 then top else N.max top (hi + 1))
    | WInt c2 :: t' =>
        match t' with
        | WInt _ :: t'' =>                                (* try_opt!(iter.next()).as_number()? *)
            let c2' := as_usize c2 in                     (* c2 as usize *)
            if c1 <=? c2' then                                                               (* for c in c1 ..= c2 *)
              if HUGE <? c2' - c1 + 1 then Ok (sets + (c2' - c1 + 1), N.max top (c2' + 1))   (* not waited for: the cost is reported *)
              else widths_go t'' (sets + (c2' - c1 + 1)) (N.max top (c2' + 1))
            else widths_go t'' sets top
        | _ => Err E_NUM
        end
    | _ => Err E_NUM
    end
  | _ => Err E_NUM
  end.
Definition widths_site (items : list witem) : res (N * N) := widths_go items 0 0.

(* ---- crypt.rs: Decoder::from_password, key length ------------------------------------------ *)
(* method: 0 = V2, 1 = AESV2, 2 = AESV3, other = None/Identity; result: key size in bytes at the point
   where the RC4 password check is made (revisions <= 4), or Err *)
Definition crypt_key_size (v r bits : N) (cf : option (N * option N)) : res N :=
  do key_bits <-
    (if v =? 1 then Ok crypt_v1_bits
     else if v =? 2 then (if bits mod sf_crypt_bits_mod =? 0 then Ok bits else Err E_NUM)
     else if (4 <=? v) && (v <=? 6) then
       match cf with
       | None => Err E_NUM
       | Some (m, len) =>
         if (m =? 0) || (m =? 1) || ((m =? 2) && (v =? 5)) then
           match len with Some n => ck_mul32 801 crypt_len_mult n | None => Ok bits end     (* default.length.map(|n| 8 * n) *)
         else Err E_NUM
       end
     else Err E_NUM);
  if (r <? 2) || (6 <? r) then Err E_NUM else
  if r <=? 4 then
    do key_size <- ck_div 803 key_bits crypt_bits_div;
    if key_size =? 0 then Panic 802                       (* Rc4::new: assert!(!key.is_empty() …) *)
    else Ok key_size
  else Err E_NUM.                                         (* revisions 5, 6: /U must have 48 bytes … *)

(* ---- object/types.rs: PageTree::page_limited ------------------------------------------------ *)
Inductive pnode := PLeaf | PTree (count : N) (kids : list pnode).
Fixpoint page_limited (depth : nat) (kids : list pnode) (page_nr : N) {struct depth} : res unit :=
  match depth with
  | O => Err E_NUM                                          (* "page tree depth exeeded" *)
  | S d =>
    (fix loop (ks : list pnode) (pos : N) {struct ks} : res unit :=
       match ks with
       | [] => Err E_OOB
       | PLeaf :: t => if pos =? page_nr then Ok tt else do p <- ck_add32 902 pos 1; loop t p
       | PTree c sub :: t =>
           do hi <- ck_add32 901 pos c;                     (* pos + tree.count *)
           if (pos <=? page_nr) && (page_nr <? hi) then page_limited d sub (page_nr - pos)
           else loop t hi
       end) kids 0
  end.
Definition page_site (kids : list pnode) (page_nr : N) : res unit := page_limited (N.to_nat sf_page_depth) kids page_nr.

(* ---- enc.rs: fax_decode geometry ------------------------------------------------------------- *)
(* Vec::with_capacity(columns * rows): "capacity overflow" above isize::MAX *)
Definition fax_capacity (columns rows : N) : res N :=
  do c <- ck_mul 1001 columns rows;
  if ISIZE_MAX <? c then Panic 1002 else Ok c.
(* assert_eq!(buf.len() % columns, 0) *)
Definition fax_check (buf_len columns : N) : res N := ck_rem 1003 buf_len columns.

(* ---- decidable classes excluded by the theorems (open findings) ----------------------------- *)
Definition objstm_fits (first : N) (offsets : list N) : bool := forallb (fun o => first + o <? U64) offsets.
(* no /W entry `c [ ]` with an empty array (the precise panic condition is: empty array at code 0) *)
Definition widths_no_empty_array (items : list witem) : bool :=
  forallb (fun it => match it with WArr n => negb (n =? 0) | _ => true end) items.
Fixpoint pnode_ok (n : pnode) : bool :=
  match n with
  | PLeaf => true
  | PTree c kids => (fix all (l : list pnode) : bool := match l with [] => true | k :: t => pnode_ok k && all t end) kids
  end.
Definition weight (n : pnode) : N := match n with PLeaf => 1 | PTree c _ => c end.
Fixpoint level_sum (ks : list pnode) : N := match ks with [] => 0 | k :: t => weight k + level_sum t end.
Fixpoint counts_fit (fuel : nat) (ks : list pnode) : bool :=
  match fuel with
  | O => true
  | S f => (level_sum ks <? U32) &&
           (fix all (l : list pnode) : bool :=
              match l with [] => true | PLeaf :: t => all t | PTree _ sub :: t => counts_fit f sub && all t end) ks
  end.
