(** Safety/Numeric.v — C14: the places where a number taken from the file is used in
    arithmetic, as an index, as a length or as a loop bound ("numeric-parameter sites") IN THE FILES
    OF THIS AREA: object/function.rs, encoding.rs (/Differences), enc.rs: fax_decode.  The sites in
    files of other areas (object streams, xref streams, CID /W, crypt key length, page counts,
    predictor geometry, RunLength) are modelled and proved by those areas; Properties/C14.v
    re-exports their theorems (Safety/Imported.v).
    Each site is modelled with CHECKED primitives: an operation that panics in Rust (debug
    profile: overflow checks on; slice/array index; assert!; division by zero) returns
    [Panic site] here.  Whether a guard in the code makes the panic unreachable is then a
    theorem (Safety/NumericProofs.v), quantified over the whole Rust integer type.
    Model file: definitions only, every definition names its Rust anchor. *)
From PdfV Require Import Base.Prelude Gen.Generated Lex.Lexer Safety.Front.

Definition U64 : N := 18446744073709551616.
Definition U32 : N := 4294967296.
Definition ISIZE_MAX : N := 9223372036854775807.
Definition E_NUM : N := 30.      (* an error value (bail!, try_opt!, Bounds, …) *)
Definition E_PS : N := 31.       (* PdfError::PostScriptExec / PostScriptParse *)

(* ---- checked primitives ------------------------------------------------------------------ *)
Definition ck_sub (site a b : N) : res N := if b <=? a then Ok (a - b) else Panic site.        (* usize - usize *)
Definition ck_mul (site a b : N) : res N := if a * b <? U64 then Ok (a * b) else Panic site.   (* usize * usize *)
Definition ck_add32 (site a b : N) : res N := if a + b <? U32 then Ok (a + b) else Panic site. (* u32 + u32 *)
Definition ck_rem (site a b : N) : res N := if b =? 0 then Panic site else Ok (a mod b).       (* a % b *)
Definition ck_idx (site len i : N) : res unit := if i <? len then Ok tt else Panic site.       (* v[i] *)
Definition ck_nth {A} (site : N) (l : list A) (i : N) : res A :=                               (* v[i] *)
  match nthN l i with Some x => Ok x | None => Panic site end.
(* isize::rem_euclid: panics on a zero divisor (and on MIN rem -1, excluded by the positive divisor) *)
Definition ck_rem_euclid (site : N) (j n : Z) : res N :=
  if (n <=? 0)%Z then Panic site else Ok (Z.to_N (j mod n)).
(* slice::rotate_right(k): assert!(k <= self.len()).  Lists are TOP FIRST (head = last element of the Vec):
   rotating the slice right by k = moving the first k elements of the reversed list to its end *)
Definition rot_right {A} (site k : N) (l : list A) : res (list A) :=
  if k <=? lenN l then Ok (skipn (N.to_nat k) l ++ firstn (N.to_nat k) l) else Panic site.

(* `x as usize` / `x as isize` for an f32 holding the integer z: saturating *)
Definition f32_as_usize (z : Z) : N := if (z <? 0)%Z then 0 else N.min (Z.to_N z) (U64 - 1).
Definition f32_as_isize (z : Z) : Z := Z.max (-9223372036854775808) (Z.min z 9223372036854775807).

(* ---- object/function.rs: PsFunc::exec_inner, PsFunc::exec --------------------------------- *)
Inductive psop := PsNum (z : Z) | PsDup | PsExch | PsAdd | PsSub | PsMul | PsAbs | PsRoll | PsIndex | PsCvr | PsPop.

Section PS.
  (* rounding of an exactly known integer to f32 (oracle: nothing is assumed about it) *)
  Variable rnd : Z -> Z.

  (* stack: top first *)
  Fixpoint ps_exec (ops : list psop) (st : list Z) : res (list Z) :=
    match ops with
    | [] => Ok st
    | op :: t =>
      match op with
      | PsNum z => ps_exec t (rnd z :: st)
      | PsDup => match st with v :: r => ps_exec t (v :: v :: r) | _ => Err E_PS end
      | PsExch => match st with b :: a :: r => ps_exec t (a :: b :: r) | _ => Err E_PS end
      | PsAdd => match st with b :: a :: r => ps_exec t (rnd (a + b) :: r) | _ => Err E_PS end
      | PsSub => match st with b :: a :: r => ps_exec t (rnd (a - b) :: r) | _ => Err E_PS end
      | PsMul => match st with b :: a :: r => ps_exec t (rnd (a * b) :: r) | _ => Err E_PS end
      | PsAbs => match st with a :: r => ps_exec t (Z.abs a :: r) | _ => Err E_PS end
      | PsCvr => ps_exec t st
      | PsPop => match st with _ :: r => ps_exec t r | _ => Err E_PS end
      | PsRoll =>
        match st with
        | j :: n :: rest =>
          let j' := f32_as_isize j in
          let n' := f32_as_usize n in
          if (ps_roll_len_guard =? 1) && (lenN rest <? n') then Err E_PS else   (* if n > stack.len() { return Err } *)
          do _ <- ck_sub 411 (lenN rest) n';                 (* let start = stack.len() - n *)
          let sl := firstn (N.to_nat n') rest in             (* &mut stack[start..] *)
          if (0 <? n') || negb (ps_roll_mod_guard =? 1) then          (* if n > 0 { … } *)
            do k <- ck_rem_euclid 412 j' (Z.of_N n');        (* j.rem_euclid(n as isize) *)
            do sl' <- rot_right 413 k sl;                    (* slice.rotate_right(k) *)
            ps_exec t (sl' ++ skipn (N.to_nat n') rest)
          else ps_exec t rest
        | _ => Err E_PS
        end
      | PsIndex =>
        match st with
        | n :: rest =>
          let n' := f32_as_usize n in
          if (ps_index_guard =? 1) && (lenN rest <=? n') then Err E_PS else     (* if n >= stack.len() { return Err } *)
          do i <- ck_sub 414 (lenN rest) n';                 (* stack.len() - n *)
          do _ <- ck_sub 414 i 1;                            (* … - 1 *)
          do v <- ck_nth 415 rest n';                        (* stack[len - n - 1]: the n-th from the top *)
          ps_exec t (v :: rest)
        | _ => Err E_PS
        end
      end
    end.

  (* PsFunc::exec: inputs bottom first; output length must equal the final stack length *)
  Definition ps_run (ops : list psop) (inputs : list Z) (n_out : N) : res (list Z) :=
    match ps_exec ops (rev inputs) with
    | Ok st => if n_out =? lenN st then Ok (rev st) else Err E_NUM
    | Err _ => Err E_PS
    | Panic s => Panic s
    | OutOfFuel => OutOfFuel
    end.
End PS.

(* ---- object/function.rs: PsFunc::parse (the body between the first '{' and the last '}') ---- *)
Fixpoint find_first (c : N) (l : bytes) (pos : N) : option N :=
  match l with [] => None | b :: t => if b =? c then Some pos else find_first c t (pos + 1) end.
Fixpoint find_last (c : N) (l : bytes) (pos : N) : option N :=
  match l with
  | [] => None
  | b :: t => match find_last c t (pos + 1) with Some p => Some p | None => if b =? c then Some pos else None end
  end.
(* &s[a..b]: panics unless a <= b <= len *)
Definition ck_slice (site : N) (s : bytes) (a b : N) : res bytes :=
  if (a <=? b) && (b <=? lenN s) then Ok (firstn (N.to_nat (b - a)) (skipn (N.to_nat a) s)) else Panic site.
Definition ps_body (s : bytes) : res bytes :=
  match find_first 123 s 0, find_last 125 s 0 with
  | Some start, Some stop =>
      if (ps_parse_get =? 1) && negb (start + 1 <=? stop) then Err E_PS   (* s.get(start + 1 .. end) is None *)
      else ck_slice 416 s (start + 1) stop                              (* … is Some / plain slicing *)
  | _, _ => Err E_PS
  end.

(* ---- object/function.rs: Function::from_dict, FunctionType 2 ------------------------------ *)
(* lengths of /Domain, /Range, /C0, /C1; result: number of output dimensions *)
Definition fn2_load (domain_len : N) (range_len c0_len c1_len : option N) : res N :=
  do n_dim <- match range_len, c0_len, c1_len with
              | Some r, _, _ => Ok (r / 2)
              | None, Some c, _ => Ok c
              | None, None, Some c => Ok c
              | None, None, None => Err E_NUM
              end;
  if domain_len <? fn2_domain_min then Err E_NUM else   (* if raw.domain.len() < 2 { bail!(…) } *)
  do _ <- ck_idx 401 domain_len 0;                        (* raw.domain[0] *)
  do _ <- ck_idx 401 domain_len fn2_domain_max_index;     (* raw.domain[1] *)
  Ok n_dim.

(* ---- encoding.rs: Encoding::from_primitive, the /Differences loop --------------------------- *)
Inductive ditem := DCode (c : Z) | DName.
Fixpoint ins_sorted (x : N) (l : list N) : list N :=
  match l with
  | [] => [x]
  | y :: t => if x <? y then x :: l else if x =? y then l else y :: ins_sorted x t
  end.
(* gid: u32; `code as u32` wraps; `gid.wrapping_add(1)`; HashMap::insert keeps one entry per code *)
Fixpoint diff_go (items : list ditem) (gid : N) (acc : list N) : res (list N) :=
  match items with
  | [] => Ok acc
  | DCode c :: t => diff_go t (Z.to_N (c mod 4294967296)%Z) acc
  | DName :: t =>
      do g <- (if diff_wrapping =? 1 then Ok ((gid + 1) mod U32) else ck_add32 451 gid 1);   (* gid.wrapping_add(1) *)
      diff_go t g (ins_sorted gid acc)
  end.
Definition differences (items : list ditem) : res (list N) := diff_go items 0 [].

(* ---- enc.rs: fax_decode ---------------------------------------------------------------------- *)
Definition U16 : N := 65536.
(* the code before the repair: Vec::with_capacity(columns * rows) — "capacity overflow" above isize::MAX.
   Only reached when the generated flag [fax_no_capacity] is 0, i.e. if the call comes back. *)
Definition fax_capacity (columns rows : N) : res N :=
  do c <- ck_mul 1001 columns rows;
  if ISIZE_MAX <? c then Panic 1002 else Ok c.

(* fax_decode up to the decoder call: the width (u16 > 0) and the height (Option<u16>) handed to fax::decode_g4, or an
   error value.  [columns], [rows]: the u32 parameters, [k]: the i32 parameter.  Each guard is read from the source
   (Gen/Generated.v, the fax_ flags); with a guard missing the model does what the code did before the repair. *)
Definition fax_geometry (k : Z) (columns rows : N) : res (N * option N) :=
  (* `if params.k >= 0 { bail!(..) }` (the crate's unimplemented!() is a bail! too); without the test K >= 0 is decoded as Group 4 *)
  if (0 <=? k)%Z && (fax_k_guard =? 1) then Err E_NUM else
  do w <- (if fax_columns_guard =? 1
           then (if (columns =? 0) || (U16 <=? columns) then Err E_NUM else Ok columns)   (* u16::try_from(columns), c > 0 *)
           else Ok columns);                                                              (* `columns as usize`, any value *)
  do h <- (if rows =? 0 then Ok None
           else if fax_rows_guard =? 1 then (if U16 <=? rows then Err E_NUM else Ok (Some rows))   (* u16::try_from(rows) *)
           else Ok (Some (rows mod U16)));                                                         (* `rows as u16` *)
  do _ <- (if fax_no_capacity =? 1 then Ok 0 else fax_capacity columns rows);
  Ok (w, h).

(* the closure given to decode_g4: line by line, `buf.extend(pels(..))` then `buf.len() % width`.  [lines]: the number of
   pels each delivered line contributed — ARBITRARY here (that pels() yields exactly `width` of them is the fax crate's
   contract, not assumed).  A line that breaks the invariant sets a flag (an error after the call); before the repair
   it was an assert_eq!. *)
Fixpoint fax_lines (width : N) (lines : list N) (len : N) (ok : bool) : res (N * bool) :=
  match lines with
  | [] => Ok (len, ok)
  | n :: t =>
      do r <- ck_rem 1003 (len + n) width;                                                (* buf.len() % width *)
      if r =? 0 then fax_lines width t (len + n) ok
      else if fax_no_assert =? 1 then fax_lines width t (len + n) false else Panic 1005
  end.

(* fax_decode.  [decoded]: None = decode_g4 gave up, Some lines = it called the closure once per line *)
Definition fax_decode (k : Z) (columns rows : N) (decoded : option (list N)) : res N :=
  do g <- fax_geometry k columns rows;
  let '(w, h) := g in
  match decoded with
  | None => Err E_NUM
  | Some lines =>
    do r <- fax_lines w lines 0 true;
    let '(len, ok) := r in
    if negb ok then Err E_NUM else
    match h with
    | None => Ok len
    | Some rws => do e <- ck_mul 1001 w rws;                                              (* width * rows *)
                  if len =? e then Ok len else Err E_NUM
    end
  end.
