From PdfV Require Import Base.Prelude Gen.Generated Crypt.Rc4 Crypt.Model Properties.C06.
Check C06_rc4_involution : forall k m, 1 <= lenN k <= 256 ->
  exists c, rc4 k m = Ok c /\ rc4 k c = Ok m /\ length c = length m.
