(** Pins/C06.v — the statements of the C06 theorems, pinned. *)
From PdfV Require Import Base.Prelude Gen.Generated Crypt.Rc4 Crypt.Rc4Proofs Crypt.Model Crypt.Spec Crypt.Tables Crypt.Proofs Crypt.KdfProofs Properties.C06.

Check C06_rc4_involution : forall k m, 1 <= lenN k <= 256 ->
  exists c, rc4 k m = Ok c /\ rc4 k c = Ok m /\ length c = length m.
Check C06_rc4_bad_key : forall k m, lenN k = 0 \/ 256 < lenN k -> rc4 k m = Panic 601.
Check C06_pkcs7 : forall m, pkcs7_unpad (pkcs7_pad m) = Some m.
Check C06_tables : PADDING = spec_pad /\ crypt_salt = salt_tag /\
  crypt_constants = [1; 19; 3; 50; 4; 32; 16;  16; 3; 50; 2; 1; 20;  1; 40; 2; 8; 4; 6; 5; 2; 6;  4; 48; 48; 127; 64; 32; 64; 16;
                     3; 16; 32; 32; 3; 2; 5; 16;  16; 16; 16] /\
  crypt_meta_bytes = [255; 255; 255; 255] /\
  crypt_r56_slices = [(0, 32); (32, 40); (40, 48); (0, 32); (32, 40); (40, 48)] /\
  crypt_kdf_arms = [(32, 256); (48, 384); (64, 512)].
Check C06_open_user_rc4 : forall MD5 SHA256 SHA384 SHA512 AESE AESD PREP, (forall x, length (MD5 x) = 16%nat) ->
  forall fuel d id0 upw R n m tail, std_rc4_dict d R n m ->
  let fk := alg2 MD5 R n upw (d_o d) (d_p d) id0 (d_em d) in
  d_u d = u_entry MD5 R fk id0 tail ->
  opens_with (from_password (fun x => Ok (MD5 x)) (fun x => Ok (SHA256 x)) (fun x => Ok (SHA384 x)) (fun x => Ok (SHA512 x))
                (fun k iv x => Ok (AESE k iv x)) (fun k iv x => Ok (AESD k iv x)) (fun x => Ok (PREP x)) fuel d id0 upw)
             n fk m (d_em d || (d_v d <? 4)%Z).
Check C06_open_owner_rc4 : forall MD5 SHA256 SHA384 SHA512 AESE AESD PREP, (forall x, length (MD5 x) = 16%nat) ->
  forall fuel d id0 upw opw R n m tail, std_rc4_dict d R n m ->
  d_o d = alg3 MD5 R n opw upw ->
  let fk := alg2 MD5 R n upw (d_o d) (d_p d) id0 (d_em d) in
  d_u d = u_entry MD5 R fk id0 tail ->
  alg6 MD5 R n opw (d_o d) (d_u d) (d_p d) id0 (d_em d) = None ->
  opens_with (from_password (fun x => Ok (MD5 x)) (fun x => Ok (SHA256 x)) (fun x => Ok (SHA384 x)) (fun x => Ok (SHA512 x))
                (fun k iv x => Ok (AESE k iv x)) (fun k iv x => Ok (AESD k iv x)) (fun x => Ok (PREP x)) fuel d id0 opw)
             n fk m (d_em d || (d_v d <? 4)%Z).
Check C06_wrong_pw_rc4 : forall MD5 SHA256 SHA384 SHA512 AESE AESD PREP, (forall x, length (MD5 x) = 16%nat) ->
  forall fuel d id0 pw R n m, std_rc4_dict d R n m ->
  alg6 MD5 R n pw (d_o d) (d_u d) (d_p d) id0 (d_em d) = None ->
  alg7 MD5 R n pw (d_o d) (d_u d) (d_p d) id0 (d_em d) = None ->
  from_password (fun x => Ok (MD5 x)) (fun x => Ok (SHA256 x)) (fun x => Ok (SHA384 x)) (fun x => Ok (SHA512 x))
                (fun k iv x => Ok (AESE k iv x)) (fun k iv x => Ok (AESD k iv x)) (fun x => Ok (PREP x)) fuel d id0 pw
  = Err E_INVALID_PASSWORD.
Check C06_accepted_iff_rc4 : forall MD5 SHA256 SHA384 SHA512 AESE AESD PREP, (forall x, length (MD5 x) = 16%nat) ->
  forall fuel d id0 pw R n m, std_rc4_dict d R n m ->
  (exists dc, from_password (fun x => Ok (MD5 x)) (fun x => Ok (SHA256 x)) (fun x => Ok (SHA384 x)) (fun x => Ok (SHA512 x))
                (fun k iv x => Ok (AESE k iv x)) (fun k iv x => Ok (AESD k iv x)) (fun x => Ok (PREP x)) fuel d id0 pw = Ok dc) <->
  (alg6 MD5 R n pw (d_o d) (d_u d) (d_p d) id0 (d_em d) <> None \/ alg7 MD5 R n pw (d_o d) (d_u d) (d_p d) id0 (d_em d) <> None).
Check C06_plaintext : forall MD5 AESE AESD, (forall x, length (MD5 x) = 16%nat) ->
  (forall k iv x, lenN x mod 16 = 0 -> AESD k iv (AESE k iv x) = x) -> (forall k iv x, lenN (AESE k iv x) = lenN x) ->
  forall dc fk m num gen iv data, decoder_for dc fk m -> lenN iv = 16 ->
  decrypt (fun x => Ok (MD5 x)) (fun k iv x => Ok (AESD k iv x)) dc num gen
    (protect_bytes MD5 AESE m fk (k_enc_obj dc) (k_meta_obj dc) (negb (k_em dc)) num gen iv data) = Ok data.
Check C06_exempt : forall MD5 AESD dc enc meta data,
  (forall num gen, enc = Some (num, gen) ->
     decrypt (fun x => Ok (MD5 x)) (fun k iv x => Ok (AESD k iv x)) (install dc enc meta) num gen data = Ok data) /\
  (forall num gen, meta = Some (num, gen) -> k_em dc = false ->
     decrypt (fun x => Ok (MD5 x)) (fun k iv x => Ok (AESD k iv x)) (install dc enc meta) num gen data = Ok data).
Check C06_strf_refuted : ~ C06_full_statement.
Check C06_kdf_refines : forall SHA256 SHA384 SHA512 AESE, (forall x, length (SHA256 x) = 32%nat) ->
  forall fuel pw salt u h, alg2b SHA256 SHA384 SHA512 AESE fuel pw salt u = Some h ->
  revision_6_kdf (fun x => Ok (SHA256 x)) (fun x => Ok (SHA384 x)) (fun x => Ok (SHA512 x)) (fun k iv x => Ok (AESE k iv x)) fuel pw salt u = Ok h.
