(** Pins/C06.v — the statements of the C06 theorems, pinned. *)
From PdfV Require Import Base.Prelude Gen.Generated Crypt.Rc4 Crypt.Rc4Proofs Crypt.Rc4Spec Crypt.Model Crypt.Spec Crypt.Tables Crypt.Proofs Crypt.KdfProofs Crypt.Proofs56 Crypt.SafeProofs Properties.C06.

Check C06_rc4_involution : forall k m, 1 <= lenN k <= 256 ->
  exists c, rc4 k m = Ok c /\ rc4 k c = Ok m /\ length c = length m.
Check C06_rc4_bad_key : forall k m, lenN k = 0 \/ 256 < lenN k -> rc4 k m = Panic 601.
Check C06_rc4_is_rc4 : forall k m, 1 <= lenN k <= 256 -> rc4 k m = Ok (rc4_spec k m).
Check C06_pkcs7 : forall m, pkcs7_unpad (pkcs7_pad m) = Some m.
Check C06_tables : PADDING = spec_pad /\ crypt_salt = salt_tag /\
  crypt_constants = [1; 19; 3; 50; 4; 32; 16;  16; 3; 50; 2; 1; 20;  1; 40; 2; 8; 4; 6; 5; 2; 6;  4; 48; 48; 127; 64; 32; 64; 16;
                     3; 16; 32; 32; 3; 2; 5; 16;  16; 16; 16;  32; 32] /\
  crypt_meta_bytes = [255; 255; 255; 255] /\
  crypt_r56_slices = [(0, 32); (32, 40); (40, 48); (0, 32); (32, 40); (40, 48)] /\
  crypt_kdf_arms = [(32, 256); (48, 384); (64, 512)] /\
  crypt_identity_name = identity_name.
Check C06_from_password_rc4_refines : forall MD5, (forall x, length (MD5 x) = 16%nat) ->
  forall R bits n m ms d id0 pass, 2 <= R <= 4 -> bits / 8 = n -> 1 <= n <= 16 ->
  from_password_rc4 (fun x => Ok (MD5 x)) R bits m ms d id0 pass =
    match alg6 MD5 R n pass (d_o d) (d_u d) (d_p d) id0 (d_em d) with
    | Some _ => Ok (decoder_with (alg2_full MD5 R n pass (d_o d) (d_p d) id0 (d_em d) ++ []) n m ms (d_em d || (d_v d <? 4)%Z))
    | None =>
        let upw := if R =? 2 then rc4_raw (owner_key MD5 R n pass) (d_o d)
                   else rc4_passes (rev (xkeys (owner_key MD5 R n pass) 0 20)) (d_o d) in
        match alg6 MD5 R n upw (d_o d) (d_u d) (d_p d) id0 (d_em d) with
        | Some _ => Ok (decoder_with (alg2_full MD5 R n upw (d_o d) (d_p d) id0 (d_em d) ++ []) n m ms (d_em d || (d_v d <? 4)%Z))
        | None => Err E_INVALID_PASSWORD
        end
    end.
Check C06_open_user_rc4 : forall MD5 SHA256 SHA384 SHA512 AESE AESD PREP, (forall x, length (MD5 x) = 16%nat) ->
  forall fuel d id0 upw R n m ms tail, std_rc4_dict d R n m ms ->
  let fk := alg2 MD5 R n upw (d_o d) (d_p d) id0 (d_em d) in
  d_u d = u_entry MD5 R fk id0 tail ->
  opens_with (from_password (fun x => Ok (MD5 x)) (fun x => Ok (SHA256 x)) (fun x => Ok (SHA384 x)) (fun x => Ok (SHA512 x))
                (fun k iv x => Ok (AESE k iv x)) (fun k iv x => Ok (AESD k iv x)) (fun x => Ok (PREP x)) fuel d id0 upw)
             n fk m ms (d_em d || (d_v d <? 4)%Z).
Check C06_open_owner_rc4 : forall MD5 SHA256 SHA384 SHA512 AESE AESD PREP, (forall x, length (MD5 x) = 16%nat) ->
  forall fuel d id0 upw opw R n m ms tail, std_rc4_dict d R n m ms ->
  d_o d = alg3 MD5 R n opw upw ->
  let fk := alg2 MD5 R n upw (d_o d) (d_p d) id0 (d_em d) in
  d_u d = u_entry MD5 R fk id0 tail ->
  alg6 MD5 R n opw (d_o d) (d_u d) (d_p d) id0 (d_em d) = None ->
  opens_with (from_password (fun x => Ok (MD5 x)) (fun x => Ok (SHA256 x)) (fun x => Ok (SHA384 x)) (fun x => Ok (SHA512 x))
                (fun k iv x => Ok (AESE k iv x)) (fun k iv x => Ok (AESD k iv x)) (fun x => Ok (PREP x)) fuel d id0 opw)
             n fk m ms (d_em d || (d_v d <? 4)%Z).
Check C06_wrong_pw_rc4 : forall MD5 SHA256 SHA384 SHA512 AESE AESD PREP, (forall x, length (MD5 x) = 16%nat) ->
  forall fuel d id0 pw R n m ms, std_rc4_dict d R n m ms ->
  alg6 MD5 R n pw (d_o d) (d_u d) (d_p d) id0 (d_em d) = None ->
  alg7 MD5 R n pw (d_o d) (d_u d) (d_p d) id0 (d_em d) = None ->
  from_password (fun x => Ok (MD5 x)) (fun x => Ok (SHA256 x)) (fun x => Ok (SHA384 x)) (fun x => Ok (SHA512 x))
                (fun k iv x => Ok (AESE k iv x)) (fun k iv x => Ok (AESD k iv x)) (fun x => Ok (PREP x)) fuel d id0 pw
  = Err E_INVALID_PASSWORD.
Check C06_accepted_iff_rc4 : forall MD5 SHA256 SHA384 SHA512 AESE AESD PREP, (forall x, length (MD5 x) = 16%nat) ->
  forall fuel d id0 pw R n m ms, std_rc4_dict d R n m ms ->
  (exists dc, from_password (fun x => Ok (MD5 x)) (fun x => Ok (SHA256 x)) (fun x => Ok (SHA384 x)) (fun x => Ok (SHA512 x))
                (fun k iv x => Ok (AESE k iv x)) (fun k iv x => Ok (AESD k iv x)) (fun x => Ok (PREP x)) fuel d id0 pw = Ok dc) <->
  (alg6 MD5 R n pw (d_o d) (d_u d) (d_p d) id0 (d_em d) <> None \/ alg7 MD5 R n pw (d_o d) (d_u d) (d_p d) id0 (d_em d) <> None).
Check C06_kdf_refines : forall SHA256 SHA384 SHA512 AESE, (forall x, length (SHA256 x) = 32%nat) ->
  forall fuel pw salt u h, alg2b SHA256 SHA384 SHA512 AESE fuel pw salt u = Some h ->
  revision_6_kdf (fun x => Ok (SHA256 x)) (fun x => Ok (SHA384 x)) (fun x => Ok (SHA512 x)) (fun k iv x => Ok (AESE k iv x)) fuel pw salt u = Ok h.
Check C06_from_password_56_refines : forall SHA256 SHA384 SHA512 AESE AESD PREP, (forall x, length (SHA256 x) = 32%nat) ->
  forall fuel R m ms d pass p ue oe ru ro,
  PREP pass = Some p -> lenN (d_u d) = 48 -> lenN (d_o d) = 48 ->
  d_ue d = Some ue -> d_oe d = Some oe -> lenN ue mod 16 = 0 -> lenN oe mod 16 = 0 ->
  alg2a_user SHA256 SHA384 SHA512 AESE AESD R fuel (pw56 p) (d_u d) ue = Some ru ->
  (ru = None -> alg2a_owner SHA256 SHA384 SHA512 AESE AESD R fuel (pw56 p) (d_o d) (d_u d) oe = Some ro) ->
  from_password_56 (fun x => Ok (SHA256 x)) (fun x => Ok (SHA384 x)) (fun x => Ok (SHA512 x))
                (fun k iv x => Ok (AESE k iv x)) (fun k iv x => Ok (AESD k iv x)) (fun x => Ok (PREP x)) fuel R m ms d pass
  = match ru with Some k => finish56 m ms d k | None => result56 m ms d ro end.
Check C06_open_user_56 : forall MD5 SHA256 SHA384 SHA512 AESE AESD PREP,
  (forall x, length (SHA256 x) = 32%nat) -> (forall x, length (SHA384 x) = 48%nat) -> (forall x, length (SHA512 x) = 64%nat) ->
  (forall k iv x, lenN x mod 16 = 0 -> AESD k iv (AESE k iv x) = x) -> (forall k iv x, lenN (AESE k iv x) = lenN x) ->
  forall fuel d id0 upw p R m ms hv hk vs ks fk oe,
  std_56_dict d R m ms -> PREP upw = Some p ->
  lenN vs = 8 -> lenN ks = 8 -> lenN fk = 32 ->
  hash56 SHA256 SHA384 SHA512 AESE R fuel (pw56 p) vs [] = Some hv ->
  hash56 SHA256 SHA384 SHA512 AESE R fuel (pw56 p) ks [] = Some hk ->
  d_u d = alg8_U hv vs ks -> d_ue d = Some (alg8_UE AESE hk fk) ->
  lenN (d_o d) = 48 -> d_oe d = Some oe -> lenN oe mod 16 = 0 ->
  opens_with (from_password (fun x => Ok (MD5 x)) (fun x => Ok (SHA256 x)) (fun x => Ok (SHA384 x)) (fun x => Ok (SHA512 x))
                (fun k iv x => Ok (AESE k iv x)) (fun k iv x => Ok (AESD k iv x)) (fun x => Ok (PREP x)) fuel d id0 upw)
             32 fk m ms (em_of d).
Check C06_open_owner_56 : forall MD5 SHA256 SHA384 SHA512 AESE AESD PREP,
  (forall x, length (SHA256 x) = 32%nat) -> (forall x, length (SHA384 x) = 48%nat) -> (forall x, length (SHA512 x) = 64%nat) ->
  (forall k iv x, lenN x mod 16 = 0 -> AESD k iv (AESE k iv x) = x) -> (forall k iv x, lenN (AESE k iv x) = lenN x) ->
  forall fuel d id0 opw p R m ms hx ho hk vs ks fk ue,
  std_56_dict d R m ms -> PREP opw = Some p ->
  lenN vs = 8 -> lenN ks = 8 -> lenN fk = 32 ->
  lenN (d_u d) = 48 -> d_ue d = Some ue -> lenN ue mod 16 = 0 ->
  hash56 SHA256 SHA384 SHA512 AESE R fuel (pw56 p) (vsalt (d_u d)) [] = Some hx -> hx <> take 32 (d_u d) ->
  hash56 SHA256 SHA384 SHA512 AESE R fuel (pw56 p) vs (d_u d) = Some ho ->
  hash56 SHA256 SHA384 SHA512 AESE R fuel (pw56 p) ks (d_u d) = Some hk ->
  d_o d = alg9_O ho vs ks -> d_oe d = Some (alg9_OE AESE hk fk) ->
  opens_with (from_password (fun x => Ok (MD5 x)) (fun x => Ok (SHA256 x)) (fun x => Ok (SHA384 x)) (fun x => Ok (SHA512 x))
                (fun k iv x => Ok (AESE k iv x)) (fun k iv x => Ok (AESD k iv x)) (fun x => Ok (PREP x)) fuel d id0 opw)
             32 fk m ms (em_of d).
Check C06_wrong_pw_56 : forall MD5 SHA256 SHA384 SHA512 AESE AESD PREP, (forall x, length (SHA256 x) = 32%nat) ->
  forall fuel d id0 pw R m ms ue oe,
  std_56_dict d R m ms -> lenN (d_u d) = 48 -> lenN (d_o d) = 48 ->
  d_ue d = Some ue -> d_oe d = Some oe -> lenN ue mod 16 = 0 -> lenN oe mod 16 = 0 ->
  (PREP pw = None \/
   exists p, PREP pw = Some p /\
     alg2a_user SHA256 SHA384 SHA512 AESE AESD R fuel (pw56 p) (d_u d) ue = Some None /\
     alg2a_owner SHA256 SHA384 SHA512 AESE AESD R fuel (pw56 p) (d_o d) (d_u d) oe = Some None) ->
  from_password (fun x => Ok (MD5 x)) (fun x => Ok (SHA256 x)) (fun x => Ok (SHA384 x)) (fun x => Ok (SHA512 x))
                (fun k iv x => Ok (AESE k iv x)) (fun k iv x => Ok (AESD k iv x)) (fun x => Ok (PREP x)) fuel d id0 pw
  = Err E_INVALID_PASSWORD.
Check C06_accepted_iff_56 : forall MD5 SHA256 SHA384 SHA512 AESE AESD PREP, (forall x, length (SHA256 x) = 32%nat) ->
  forall fuel d id0 pw p R m ms ue oe ru ro,
  std_56_dict d R m ms -> PREP pw = Some p -> lenN (d_u d) = 48 -> lenN (d_o d) = 48 ->
  d_ue d = Some ue -> d_oe d = Some oe -> lenN ue mod 16 = 0 -> lenN oe mod 16 = 0 ->
  alg2a_user SHA256 SHA384 SHA512 AESE AESD R fuel (pw56 p) (d_u d) ue = Some ru ->
  alg2a_owner SHA256 SHA384 SHA512 AESE AESD R fuel (pw56 p) (d_o d) (d_u d) oe = Some ro ->
  ((exists dc, from_password (fun x => Ok (MD5 x)) (fun x => Ok (SHA256 x)) (fun x => Ok (SHA384 x)) (fun x => Ok (SHA512 x))
                (fun k iv x => Ok (AESE k iv x)) (fun k iv x => Ok (AESD k iv x)) (fun x => Ok (PREP x)) fuel d id0 pw = Ok dc) <->
   (exists k, lenN k = 32 /\ (ru = Some k \/ (ru = None /\ ro = Some k)))).
Check C06_no_panic : forall MD5 SHA256 SHA384 SHA512 AESE AESD PREP, (forall x, length (MD5 x) = 16%nat) ->
  forall fuel d id0 pass s,
  from_password (fun x => Ok (MD5 x)) (fun x => Ok (SHA256 x)) (fun x => Ok (SHA384 x)) (fun x => Ok (SHA512 x))
                (fun k iv x => Ok (AESE k iv x)) (fun k iv x => Ok (AESD k iv x)) (fun x => Ok (PREP x)) fuel d id0 pass
  <> Panic s.
Check C06_decrypt_no_panic : forall MD5 SHA256 SHA384 SHA512 AESE AESD PREP, (forall x, length (MD5 x) = 16%nat) ->
  forall fuel d id0 pass enc meta dc num gen data s,
  load_decoder (fun x => Ok (MD5 x)) (fun x => Ok (SHA256 x)) (fun x => Ok (SHA384 x)) (fun x => Ok (SHA512 x))
                (fun k iv x => Ok (AESE k iv x)) (fun k iv x => Ok (AESD k iv x)) (fun x => Ok (PREP x)) fuel d id0 pass enc meta = Ok dc ->
  decrypt (fun x => Ok (MD5 x)) (fun k iv x => Ok (AESD k iv x)) dc num gen data <> Panic s /\
  ctx_decrypt (fun x => Ok (MD5 x)) (fun k iv x => Ok (AESD k iv x)) (Some dc) num gen data <> Panic s.
Check C06_plaintext : forall MD5 AESE AESD, (forall x, length (MD5 x) = 16%nat) ->
  (forall k iv x, lenN x mod 16 = 0 -> AESD k iv (AESE k iv x) = x) -> (forall k iv x, lenN (AESE k iv x) = lenN x) ->
  forall dc fk m ms num gen iv data, decoder_for dc fk m ms -> lenN iv = 16 ->
  decrypt (fun x => Ok (MD5 x)) (fun k iv x => Ok (AESD k iv x)) dc num gen
    (protect_bytes MD5 AESE m fk (k_enc_obj dc) (k_meta_obj dc) (negb (k_em dc)) num gen iv data) = Ok data.
Check C06_plaintext_string : forall MD5 AESE AESD, (forall x, length (MD5 x) = 16%nat) ->
  (forall k iv x, lenN x mod 16 = 0 -> AESD k iv (AESE k iv x) = x) -> (forall k iv x, lenN (AESE k iv x) = lenN x) ->
  forall dc fk m ms num gen iv s, decoder_for dc fk m ms -> lenN iv = 16 ->
  ctx_decrypt (fun x => Ok (MD5 x)) (fun k iv x => Ok (AESD k iv x)) (Some dc) num gen
    (protect_bytes MD5 AESE ms fk (k_enc_obj dc) (k_meta_obj dc) (negb (k_em dc)) num gen iv s) = Ok s.
Check C06_plaintext_decode : forall MD5 AESE AESD, (forall x, length (MD5 x) = 16%nat) ->
  (forall k iv x, lenN x mod 16 = 0 -> AESD k iv (AESE k iv x) = x) -> (forall k iv x, lenN (AESE k iv x) = lenN x) ->
  forall filters dc fk m ms num gen iv data, decoder_for dc fk m ms -> lenN iv = 16 ->
  storage_decode (fun x => Ok (MD5 x)) (fun k iv x => Ok (AESD k iv x)) filters (Some dc) num gen
    (protect_bytes MD5 AESE m fk (k_enc_obj dc) (k_meta_obj dc) (negb (k_em dc)) num gen iv data) = filters data.
Check C06_open_user_rc4_reads : forall MD5 SHA256 SHA384 SHA512 AESE AESD PREP, (forall x, length (MD5 x) = 16%nat) ->
  (forall k iv x, lenN x mod 16 = 0 -> AESD k iv (AESE k iv x) = x) -> (forall k iv x, lenN (AESE k iv x) = lenN x) ->
  forall fuel d id0 upw R n m ms tail, std_rc4_dict d R n m ms -> meth_fits n m -> meth_fits n ms ->
  let fk := alg2 MD5 R n upw (d_o d) (d_p d) id0 (d_em d) in
  d_u d = u_entry MD5 R fk id0 tail ->
  exists dc, from_password (fun x => Ok (MD5 x)) (fun x => Ok (SHA256 x)) (fun x => Ok (SHA384 x)) (fun x => Ok (SHA512 x))
                (fun k iv x => Ok (AESE k iv x)) (fun k iv x => Ok (AESD k iv x)) (fun x => Ok (PREP x)) fuel d id0 upw = Ok dc /\
    forall enc meta num gen iv data, lenN iv = 16 ->
      let dc' := install dc enc meta in
      decrypt (fun x => Ok (MD5 x)) (fun k iv x => Ok (AESD k iv x)) dc' num gen (protect_bytes MD5 AESE m fk enc meta (negb (k_em dc)) num gen iv data) = Ok data /\
      ctx_decrypt (fun x => Ok (MD5 x)) (fun k iv x => Ok (AESD k iv x)) (Some dc') num gen (protect_bytes MD5 AESE ms fk enc meta (negb (k_em dc)) num gen iv data) = Ok data.
Check C06_open_user_56_key : forall MD5 SHA256 SHA384 SHA512 AESE AESD PREP,
  (forall x, length (SHA256 x) = 32%nat) -> (forall x, length (SHA384 x) = 48%nat) -> (forall x, length (SHA512 x) = 64%nat) ->
  (forall k iv x, lenN x mod 16 = 0 -> AESD k iv (AESE k iv x) = x) -> (forall k iv x, lenN (AESE k iv x) = lenN x) ->
  forall fuel d id0 upw p R m ms hv hk vs ks fk oe,
  std_56_dict d R m ms -> PREP upw = Some p ->
  lenN vs = 8 -> lenN ks = 8 -> lenN fk = 32 ->
  hash56 SHA256 SHA384 SHA512 AESE R fuel (pw56 p) vs [] = Some hv ->
  hash56 SHA256 SHA384 SHA512 AESE R fuel (pw56 p) ks [] = Some hk ->
  d_u d = alg8_U hv vs ks -> d_ue d = Some (alg8_UE AESE hk fk) ->
  lenN (d_o d) = 48 -> d_oe d = Some oe -> lenN oe mod 16 = 0 ->
  from_password (fun x => Ok (MD5 x)) (fun x => Ok (SHA256 x)) (fun x => Ok (SHA384 x)) (fun x => Ok (SHA512 x))
                (fun k iv x => Ok (AESE k iv x)) (fun k iv x => Ok (AESD k iv x)) (fun x => Ok (PREP x)) fuel d id0 upw
  = Ok (decoder_with fk 32 m ms (em_of d)).
Check C06_open_owner_56_key : forall MD5 SHA256 SHA384 SHA512 AESE AESD PREP,
  (forall x, length (SHA256 x) = 32%nat) -> (forall x, length (SHA384 x) = 48%nat) -> (forall x, length (SHA512 x) = 64%nat) ->
  (forall k iv x, lenN x mod 16 = 0 -> AESD k iv (AESE k iv x) = x) -> (forall k iv x, lenN (AESE k iv x) = lenN x) ->
  forall fuel d id0 opw p R m ms hx ho hk vs ks fk ue,
  std_56_dict d R m ms -> PREP opw = Some p ->
  lenN vs = 8 -> lenN ks = 8 -> lenN fk = 32 ->
  lenN (d_u d) = 48 -> d_ue d = Some ue -> lenN ue mod 16 = 0 ->
  hash56 SHA256 SHA384 SHA512 AESE R fuel (pw56 p) (vsalt (d_u d)) [] = Some hx -> hx <> take 32 (d_u d) ->
  hash56 SHA256 SHA384 SHA512 AESE R fuel (pw56 p) vs (d_u d) = Some ho ->
  hash56 SHA256 SHA384 SHA512 AESE R fuel (pw56 p) ks (d_u d) = Some hk ->
  d_o d = alg9_O ho vs ks -> d_oe d = Some (alg9_OE AESE hk fk) ->
  from_password (fun x => Ok (MD5 x)) (fun x => Ok (SHA256 x)) (fun x => Ok (SHA384 x)) (fun x => Ok (SHA512 x))
                (fun k iv x => Ok (AESE k iv x)) (fun k iv x => Ok (AESD k iv x)) (fun x => Ok (PREP x)) fuel d id0 opw
  = Ok (decoder_with fk 32 m ms (em_of d)).
Check C06_opened_56_reads : forall MD5 AESE AESD, (forall k iv x, lenN x mod 16 = 0 -> AESD k iv (AESE k iv x) = x) -> (forall k iv x, lenN (AESE k iv x) = lenN x) ->
  (forall x, length (MD5 x) = 16%nat) ->
  forall r fk m ms em, r = Ok (decoder_with fk 32 m ms em) -> lenN fk = 32 -> meth_fits 32 m -> meth_fits 32 ms ->
  exists dc, r = Ok dc /\
    forall enc meta num gen iv data, lenN iv = 16 ->
      let dc' := install dc enc meta in
      decrypt (fun x => Ok (MD5 x)) (fun k iv x => Ok (AESD k iv x)) dc' num gen (protect_bytes MD5 AESE m fk enc meta (negb (k_em dc)) num gen iv data) = Ok data /\
      ctx_decrypt (fun x => Ok (MD5 x)) (fun k iv x => Ok (AESD k iv x)) (Some dc') num gen (protect_bytes MD5 AESE ms fk enc meta (negb (k_em dc)) num gen iv data) = Ok data.
Check C06_exempt : forall MD5 AESD dc enc meta data,
  (forall num gen, enc = Some (num, gen) ->
     decrypt (fun x => Ok (MD5 x)) (fun k iv x => Ok (AESD k iv x)) (install dc enc meta) num gen data = Ok data /\
     decrypt_string (fun x => Ok (MD5 x)) (fun k iv x => Ok (AESD k iv x)) (install dc enc meta) num gen data = Ok data) /\
  (forall num gen, meta = Some (num, gen) -> k_em dc = false ->
     decrypt (fun x => Ok (MD5 x)) (fun k iv x => Ok (AESD k iv x)) (install dc enc meta) num gen data = Ok data /\
     decrypt_string (fun x => Ok (MD5 x)) (fun k iv x => Ok (AESD k iv x)) (install dc enc meta) num gen data = Ok data).
Check C06_full : forall MD5 AESE AESD, (forall x, length (MD5 x) = 16%nat) ->
  (forall k iv x, lenN x mod 16 = 0 -> AESD k iv (AESE k iv x) = x) -> (forall k iv x, lenN (AESE k iv x) = lenN x) ->
  forall dc fk m ms num gen iv data, decoder_for dc fk m ms -> lenN iv = 16 ->
  (* a stream of object (num, gen), stored under /StmF's method, read through Storage::decode's Decoder::decrypt *)
  decrypt (fun x => Ok (MD5 x)) (fun k iv x => Ok (AESD k iv x)) dc num gen
    (protect_bytes MD5 AESE m fk (k_enc_obj dc) (k_meta_obj dc) (negb (k_em dc)) num gen iv data) = Ok data /\
  (* a string of object (num, gen), stored under /StrF's method, read through the parser's Context::decrypt *)
  ctx_decrypt (fun x => Ok (MD5 x)) (fun k iv x => Ok (AESD k iv x)) (Some dc) num gen
    (protect_bytes MD5 AESE ms fk (k_enc_obj dc) (k_meta_obj dc) (negb (k_em dc)) num gen iv data) = Ok data.
