(** Pins/C03.v — statements of the C03 theorems, pinned. *)
From PdfV Require Import Base.Prelude Gen.Generated Lex.Lexer Lex.StrLexer Lex.LexProofs Lex.NumProofs Lex.StrProofs
  Syn.Prim Syn.Utf8 Syn.Parser Syn.Spells Syn.ParserProofs Syn.NameProofs Syn.RenderProofs Properties.C03.

Check C03_token_regular : forall sp tok rest p,
  sep sp -> tok <> [] -> Forall (fun b => is_reg b = true) tok -> boundary rest ->
  next_word (mkLx p (sp ++ tok ++ rest)) = Ok (tok, p + lenN sp, mkLx (p + lenN sp + lenN tok) rest).
Check C03_integer : forall sg ds, sign_ok sg -> ds <> [] -> all_digits ds = true ->
  let v := Z.of_N (N_of_dec ds) in
  let z := if match sg with [c] => c =? MINUS | _ => false end then Z.opp v else v in
  (-2147483648 <= z <= 2147483647)%Z -> int_word (sg ++ ds) z.
Check C03_real : forall sg ip fp, sign_ok sg -> all_digits ip = true -> all_digits fp = true -> ip ++ fp <> [] ->
  real_word (sg ++ ip ++ DOT :: fp).
Check C03_name : forall s e, name_enc s e -> is_utf8 s = true -> name_word (SLASH :: e) s.
Check C03_string : forall out text rest,
  spell_run (RPAREN :: rest) 0 out text 0 ->
  string_lex (text ++ RPAREN :: rest) = Ok (out, lenN (text ++ [RPAREN])).
Check C03_hexstring : forall out text rest, hex_run out text ->
  hexstring_lex (text ++ hexstr_end :: rest) = Ok (out, lenN (text ++ [hexstr_end])).
Check C03_value : forall v its, spells v its ->
  forall fuel R cx depth s k s_end,
    (length its <= fuel)%nat -> vdepth v <= depth ->
    Lexes s (its ++ k) s_end -> follow_ok k s_end -> nostream_at k s_end ->
    exists s1, parse_fuel fuel R cx F_ANY depth s = Ok (v, s1) /\ Lexes s1 k s_end.
Check C03_value_bytes : forall v its text tl R cx p,
  spells v its -> vdepth v <= MAX_DEPTH -> renders its text tl ->
  forall p', p' + lenN tl = p + lenN text ->
  follow_ok [] (mkLx p' tl) -> nostream_at [] (mkLx p' tl) ->
  parse_ctx R cx F_ANY MAX_DEPTH (mkLx p text) = Ok (v, mkLx p' tl).
Check C03_sequence : forall vs body, spells_list vs body ->
  forall fuel R cx depth s k s_end,
    (length body <= fuel)%nat -> ldepth vs <= depth ->
    Lexes s (body ++ k) s_end -> follow_ok k s_end -> nostream_at k s_end -> notR_at k s_end ->
    exists s1, parse_n (length vs) fuel R cx depth s = Ok (vs, s1) /\ Lexes s1 k s_end.
