(** Pins/C10.v — pinned statements of the C10 theorems. *)
From PdfV Require Import Base.Prelude Storage.Prim Storage.Model Storage.Proofs Storage.Valid Properties.C10.

Check (C10_offsets : forall ser s tr s' tr',
  wf_st s -> save ser s tr = Ok (s', tr', None) ->
  forall id p g, clookup (changes (save_pre s tr)) id = Some (p, g) ->
    exists pre post, backend s' = pre ++ obj_header id g ++ post /\ start s <= lenN pre /\
                     nthN (refs s') id = Some (XRaw (lenN pre - start s) g)).

Check (C10_xref_consistent : forall es aw bw data,
  table_in_range es -> write_stream es (lenN es) = Ok (aw, bw, data) ->
  read_section 0 (lenN es) 1 aw bw data = Ok ((0, es), []) /\ aw <= 8 /\ bw <= 8 /\ lenN data = lenN es * (1 + aw + bw)).

Check (C10_startxref : forall ser s tr s' tr',
  wf_st s -> save ser s tr = Ok (s', tr', None) ->
  exists xpos xs pre, nthN (refs s') (lenN (refs (save_pre s tr))) = Some (XRaw xpos 0) /\
    backend s' = pre ++ obj_header (lenN (refs (save_pre s tr))) 0 ++ xs ++ kw_endobj_nl ++ startxref_tail xpos /\
    lenN pre = start s + xpos).

