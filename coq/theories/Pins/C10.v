(** Pins/C10.v — pinned statements of the C10 theorems. *)
From PdfV Require Import Base.Prelude Storage.Prim Storage.Model Storage.Proofs Storage.Valid Properties.C10.

Check (C10_offsets : forall ser s tr s' tr',
  wf_st s -> save ser s tr = Ok (s', tr', None) ->
  forall id p g, clookup (changes (save_pre s tr)) id = Some (p, g) ->
    exists pre post, backend s' = pre ++ obj_header id g ++ post /\ start s <= lenN pre /\
                     nthN (refs s') id = Some (XRaw (lenN pre - start s) g)).

Check (C10_xref_consistent : forall es aw bw data,
  table_in_range es -> write_stream es (lenN es) = Ok (aw, bw, data) ->
  read_section 0 (lenN es) 1 aw bw data = Ok ((0, es), []) /\ aw <= 8 /\ bw <= 8 /\ lenN data = lenN es * (1 + aw + bw)).

Check (C10_startxref : forall ser s tr s' tr',
  wf_st s -> save ser s tr = Ok (s', tr', None) ->
  exists xpos xs pre, nthN (refs s') (lenN (refs (save_pre s tr))) = Some (XRaw xpos 0) /\
    backend s' = pre ++ obj_header (lenN (refs (save_pre s tr))) 0 ++ xs ++ kw_endobj_nl ++ startxref_tail xpos /\
    lenN pre = start s + xpos).

From PdfV Require Import Storage.Syntax Storage.Builder Storage.Reload Storage.BuilderProofs.
From PdfV Require Syn.Serialize.

Check (C10_valid_struct : forall ps info s' tr',
  build ps info = Ok (s', tr', None) -> lenN (backend s') < 2 ^ 64 -> valid_struct (backend s') (refs s')).

Check (C10_reload : forall ps info s' tr',
  Forall page_ok ps -> info_ok info -> lenN ps < 1000000 ->
  build ps info = Ok (s', tr', None) ->
  forall member s3, reloaded s' s3 ->
  exists tree kids,
    resolve parse_obj member s3 (t_root tr') = Ok (PDict (catalog_dict tree)) /\
    resolve parse_obj member s3 tree = Ok (PDict (tree_dict kids)) /\
    Forall2 (page_reloaded member s3 tree) kids ps /\
    t_info tr' = info /\
    match info with
    | Some d => resolve parse_obj member s3 (lenN (refs s') - 2, 0) = Ok (PDict d)
    | None => True
    end).

Check (C10_build_state : forall ps s4 cat,
  build_catalog ps = Ok (s4, cat) ->
  wf_st s4 /\ start s4 = 0 /\ backend s4 = backend empty_storage /\ lenN (refs s4) = 3 * lenN ps + 3 /\
  exists tree kids,
    clookup (changes s4) (fst cat) = Some (PDict (catalog_dict tree), 0) /\ snd cat = 0 /\ fst cat < lenN (refs s4) /\
    clookup (changes s4) (fst tree) = Some (PDict (tree_dict kids), 0) /\ snd tree = 0 /\ fst tree < lenN (refs s4) /\
    Forall2 (page_written s4 tree) kids ps).

Check (C10_load : forall read_classic ps info s' tr' c,
  build ps info = Ok (s', tr', None) -> lenN ps < 300000 -> lenN (backend s') < 2 ^ 64 ->
  exists s3 td, load parse_obj read_classic (backend s') c = Ok (s3, td) /\ reloaded s' s3).

(* the definitions the statements are made of (a weakened definition fails here) *)
Check (eq_refl : valid_struct = fun (b : bytes) (tbl : list xent) =>
  prefixb HEADER b = true /\
  nthN tbl 0 = Some (XFree 0 65535) /\
  (forall id, 0 < id -> id < lenN tbl -> exists pos pre post,
      nthN tbl id = Some (XRaw pos 0) /\ b = pre ++ obj_header id 0 ++ post /\ lenN pre = pos) /\
  exists xpos aw bw data xd xs pre,
    0 < lenN tbl /\ nthN tbl (lenN tbl - 1) = Some (XRaw xpos 0) /\
    b = pre ++ obj_header (lenN tbl - 1) 0 ++ xs ++ kw_endobj_nl ++ startxref_tail xpos /\ lenN pre = xpos /\
    write_stream tbl (lenN tbl) = Ok (aw, bw, data) /\
    read_section 0 (lenN tbl) 1 aw bw data = Ok ((0, tbl), []) /\
    Serialize.ser (PStreamData xd data) = Ok xs /\
    (exists size, dget xd k_Size = Some (PInt size) /\ (Z.of_N (lenN tbl) <= size)%Z) /\ dget xd k_Length = Some (pN (lenN data)) /\
    dget xd k_W = Some (PArr [pN 1; pN aw; pN bw]) /\ dget xd k_Index = Some (PArr [pN 0; pN (lenN tbl)])).
