(** Pins/C14.v — the statements of the C14 theorems, pinned: weakening a statement in Properties/C14.v makes this file fail. *)
From PdfV Require Import Base.Prelude Gen.Generated Lex.Lexer Codec.Model
  Safety.Front Safety.Numeric Safety.Walks Properties.C14.

Check C14_guarded_walk : forall nodes g, (forall n, In n nodes -> incl (g n) nodes) -> forall stop key, In key nodes ->
  exists ok, guarded (S (length nodes)) stop g [] key = Ok ([], ok).
Check C14_tree_walk_unguarded_refuted : forall fuel, unguarded fuel (fun _ => [0]) 0 = OutOfFuel.
Check C14_tree_walk_total : forall depth g kids seen, never_crashes (tree_walk depth g kids seen).
Check C14_tree_walk_linear : forall g root nodes seen',
  In root nodes -> (forall n, In n nodes -> incl (g n) nodes) ->
  tree_walk_root g root = Ok seen' -> NoDup seen' /\ (length seen' <= length nodes)%nat.
Check C14_colorspace_total : forall depth base n, never_crashes (colorspace depth base n).
Check C14_ps_exec : forall rnd ops st, never_crashes (ps_exec rnd ops st).
Check C14_ps_run : forall rnd ops inputs n_out, never_crashes (ps_run rnd ops inputs n_out).
Check C14_ps_body : forall s, never_crashes (ps_body s).
Check C14_fn2_load : forall domain_len range_len c0_len c1_len, never_crashes (fn2_load domain_len range_len c0_len c1_len).
Check C14_differences : forall items, exists l, differences items = Ok l /\ (length l <= length items)%nat.
Check C14_objstm_slice : forall first offsets data_len index,
  objstm_fits first offsets = true -> lenN offsets < U64 -> never_crashes (objstm_slice first offsets data_len index).
Check C14_objstm_header : forall n data, never_crashes (objstm_header (S (length data)) n (mkLx 0 data) []).
Check C14_objstm_refuted : objstm_slice 8 [18446744073709551615] 6 0 = Panic 502 /\ objstm_fits 8 [18446744073709551615] = false.
Check C14_xref_section : forall tolerant num w0 w1 w2 data_len,
  w0 + w1 + w2 < U64 -> num * (w0 + w1 + w2) < U64 -> never_crashes (xref_section_entries tolerant num w0 w1 w2 data_len).
Check C14_xref_section_i32 : forall tolerant num w0 w1 w2 data_len,
  num <= 2147483647 -> w0 <= 2147483647 -> w1 <= 2147483647 -> w2 <= 2147483647 ->
  never_crashes (xref_section_entries tolerant num w0 w1 w2 data_len).
Check C14_xref_section_cost : forall tolerant num w0 w1 w2 data_len n,
  xref_section_entries tolerant num w0 w1 w2 data_len = Ok n -> 0 < w0 + w1 + w2 -> n * (w0 + w1 + w2) <= data_len.
Check C14_xref_section_refuted : xref_section_entries false 4294967295 2147483647 2147483647 2147483647 0 = Panic 602 /\
  xref_section_entries false 4294967295 0 0 0 0 = Ok 4294967295.
Check C14_widths : forall items sets top, widths_no_empty_array items = true ->
  (forall z, In (WInt z) items -> (z <= 2147483647)%Z) -> (forall n, In (WArr n) items -> n < U32) ->
  never_crashes (widths_go items sets top).
Check C14_widths_refuted : widths_site [WInt 0; WArr 0] = Panic 702 /\
  widths_site [WInt 0; WInt (-1); WInt 5] = Ok (18446744073709551616, 18446744073709551616) /\
  widths_site [WInt 0; WInt 2147483647; WInt 5] = Ok (2147483648, 2147483648).
Check C14_crypt_sites : forall v r bits cf s, crypt_key_size v r bits cf = Panic s -> s = 801 \/ s = 802.
Check C14_crypt_refuted : crypt_key_size 2 3 0 None = Panic 802 /\ crypt_key_size 4 4 128 (Some (0, Some 536870912)) = Panic 801 /\
  crypt_key_size 4 4 128 (Some (1, Some 0)) = Panic 802 /\ crypt_key_size 2 3 128 None = Ok 16.
Check C14_page_counts : forall depth kids page_nr, counts_fit depth kids = true -> never_crashes (page_limited depth kids page_nr).
Check C14_page_counts_refuted : page_site [PTree 2147483647 [PLeaf]; PTree 2147483647 [PLeaf]; PTree 2147483647 [PLeaf]] 4294967295 = Panic 901 /\
  counts_fit 16 [PTree 2147483647 [PLeaf]; PTree 2147483647 [PLeaf]; PTree 2147483647 [PLeaf]] = false /\
  page_site [PLeaf; PTree 2 [PLeaf; PLeaf]; PLeaf] 2 = Ok tt.
Check C14_predictor : forall predictor colors columns decoded,
  as_usize columns * as_usize colors + 1 < U64 -> never_crashes (unpredict predictor colors columns decoded).
Check C14_predictor_sites : forall predictor colors columns decoded s,
  unpredict predictor colors columns decoded = Panic s -> s = 104 \/ s = 105.
Check C14_predictor_refuted : unpredict 12 (-1) (-1) [0; 1; 2] = Panic 104 /\ unpredict 12 1 (-1) [0; 1; 2] = Panic 105.
Check C14_fax_capacity : forall columns rows, columns < U32 -> rows < U32 ->
  (columns * rows <= ISIZE_MAX -> fax_capacity columns rows = Ok (columns * rows)) /\
  (ISIZE_MAX < columns * rows -> fax_capacity columns rows = Panic 1002).
Check C14_fax_refuted : fax_capacity 4294967295 4294967295 = Panic 1002 /\ fax_check 0 0 = Panic 1003 /\
  forall buf_len columns, 0 < columns -> fax_check buf_len columns = Ok (buf_len mod columns).
Check C14_full_statement_refuted : ~ C14_full_statement.
Check C14_guards_in_source : ps_roll_len_guard = 1 /\ ps_roll_mod_guard = 1 /\ ps_index_guard = 1 /\ ps_parse_get = 1 /\ diff_wrapping = 1.
Check C14_budgets_in_source : (0 <? sf_page_depth) = true /\ (0 <? tree_depth) = true /\ (0 <? cs_depth) = true.
