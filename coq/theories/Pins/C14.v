(** Pins/C14.v — the statements of the C14 theorems, pinned: weakening a statement in Properties/C14.v makes this file fail. *)
From PdfV Require Import Base.Prelude Gen.Generated Lex.Lexer
  Safety.Front Safety.Numeric Safety.Walks Properties.C14.
From PdfV Require Codec.Model Codec.Dispatch Codec.Pairing Codec.ChainProofs ObjStm.Model XRef.Model
  Font.Model Font.WidthProofs PageTree.Model Crypt.Model Crypt.SafeProofs Import.Model Import.Theorems Syn.Prim.

Check C14_guarded_walk : forall nodes g, (forall n, In n nodes -> incl (g n) nodes) -> forall stop key, In key nodes ->
  exists ok, guarded (S (length nodes)) stop g [] key = Ok ([], ok).
Check C14_tree_walk_unguarded_refuted : forall fuel, unguarded fuel (fun _ => [0]) 0 = OutOfFuel.
Check C14_tree_walk_total : forall depth g kids seen, never_crashes (tree_walk depth g kids seen).
Check C14_tree_walk_linear : forall g root nodes seen',
  In root nodes -> (forall n, In n nodes -> incl (g n) nodes) ->
  tree_walk_root g root = Ok seen' -> NoDup seen' /\ (length seen' <= length nodes)%nat.
Check C14_colorspace_total : forall depth base n, never_crashes (colorspace depth base n).
Check C14_ps_exec : forall rnd ops st, never_crashes (ps_exec rnd ops st).
Check C14_ps_run : forall rnd ops inputs n_out, never_crashes (ps_run rnd ops inputs n_out).
Check C14_ps_body : forall s, never_crashes (ps_body s).
Check C14_fn2_load : forall domain_len range_len c0_len c1_len, never_crashes (fn2_load domain_len range_len c0_len c1_len).
Check C14_differences : forall items, exists l, differences items = Ok l /\ (length l <= length items)%nat.
Check C14_objstm_slice : forall first offsets datalen index site,
  ObjStm.Model.object_slice first offsets datalen index <> Panic site.
Check C14_objstm_header : forall n s, never_crashes (ObjStm.Model.header_offsets n s).
Check C14_objstm_member : forall R, total_resolver R -> forall flags first nobj data index,
  never_crashes (ObjStm.Model.resolve_member R flags first nobj data index).
Check C14_xref_section : forall first num width data allow,
  no_panic (XRef.Model.parse_xref_section_from_stream first num width data allow).
Check C14_xref_section_cost : forall first num w0 w1 w2 data allow s rest,
  XRef.Model.parse_xref_section_from_stream first num [w0; w1; w2] data allow = Ok (s, rest) ->
  0 < w0 + w1 + w2 /\ lenN data = lenN rest + lenN (XRef.Model.entries s) * (w0 + w1 + w2) /\
  lenN (XRef.Model.entries s) <= lenN data.
Check C14_widths : forall dw items, Font.WidthProofs.clean (Font.Model.cid_widths dw items).
Check C14_type0 : forall (A : Type) (ds : list A) f, (forall d, Font.WidthProofs.clean (f d)) ->
  Font.WidthProofs.clean (Font.Model.type0_widths ds f).
Check C14_crypt_key_length : forall MD5 SHA256 SHA384 SHA512 AESE AESD PREP, (forall x, length (MD5 x) = 16%nat) ->
  forall fuel d id0 pass s,
  Crypt.Model.from_password (fun x => Ok (MD5 x)) (fun x => Ok (SHA256 x)) (fun x => Ok (SHA384 x)) (fun x => Ok (SHA512 x))
                (fun k iv x => Ok (AESE k iv x)) (fun k iv x => Ok (AESD k iv x)) (fun x => Ok (PREP x)) fuel d id0 pass
  <> Panic s.
Check C14_page_counts : forall st root i, i <= PageTree.Model.u32_max ->
  no_panic (PageTree.Model.load_root st (S (length st)) root) /\
  forall rt, no_panic (PageTree.Model.get_page st (S (length st)) rt i).
Check C14_decoders : forall izlib iraw ld, Codec.ChainProofs.oracles_total izlib iraw ld ->
  (forall f d, never_crashes (Codec.Dispatch.decode izlib iraw ld f d)) /\
  (forall fs d, never_crashes (Codec.Dispatch.decode_chain izlib iraw ld fs d)) /\
  (forall f pv d, never_crashes (Codec.Pairing.stream_data izlib iraw ld f pv d)).
Check C14_predictor : forall p d, no_panic (Codec.Model.unpredict p d).
Check C14_import_total : forall fetch g roots fuel,
  (forall i gn st ln, Import.Theorems.ok_or_err (fetch i gn st ln)) ->
  (Import.Model.fuel_for g (map (fun r => PdfV.Syn.Prim.PRef (fst r) (snd r)) roots) <= fuel)%nat ->
  Import.Theorems.ok_or_err (Import.Model.import_roots fetch g fuel roots Import.Model.st0).
Check C14_guard_per_thread : cache_chain_per_thread = true.
Check C14_fax_total : forall k columns rows decoded, columns < U32 -> rows < U32 ->
  never_crashes (fax_decode k columns rows decoded).
Check C14_fax_bounded : forall k columns rows decoded len, fax_decode k columns rows decoded = Ok len -> rows <> 0 ->
  len = columns * rows /\ len <= 65535 * 65535.
Check C14_full :
  (forall rnd ops st, never_crashes (ps_exec rnd ops st)) /\
  (forall domain_len range_len c0_len c1_len, never_crashes (fn2_load domain_len range_len c0_len c1_len)) /\
  (forall items, never_crashes (differences items)) /\
  (forall k columns rows decoded, columns < U32 -> rows < U32 -> never_crashes (fax_decode k columns rows decoded)).
Check C14_fax_guards_in_source :
  fax_k_guard = 1 /\ fax_columns_guard = 1 /\ fax_rows_guard = 1 /\ fax_no_assert = 1 /\ fax_no_capacity = 1.
Check C14_guards_in_source : ps_roll_len_guard = 1 /\ ps_roll_mod_guard = 1 /\ ps_index_guard = 1 /\ ps_parse_get = 1 /\ diff_wrapping = 1.
Check C14_budgets_in_source : (0 <? tree_depth) = true /\ (0 <? cs_depth) = true.
