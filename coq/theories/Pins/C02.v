(** Pins/C02.v — the statements of the C02 theorems, pinned. *)
From PdfV Require Import Base.Prelude Gen.Generated XRef.Model XRef.Spec XRef.MergeProofs XRef.StreamProofs XRef.FrontProofs XRef.TableProofs XRef.At XRef.AtProofs Syn.Prim Syn.Parser Syn.Spells Syn.RenderProofs Properties.C02.
Set Warnings "-notation-overridden".   (* also ends the import list for the dependency scanner of tools/vplib *)

Check C02_merge_latest : forall (h : history) (secss : list (list section)) (size n : N),
  Forall2 represents secss h -> wf_history h -> n < size ->
  exists t, merge size (concat (rev secss)) = Ok t /\ table_get t n = Ok (xent_opt (latest h n)).
Check C02_beyond_size : forall (h : history) (secss : list (list section)) (size n : N),
  Forall2 represents secss h -> wf_history h -> size <= n ->
  exists t, merge size (concat (rev secss)) = Ok t /\
    table_get t n = if n =? size then Ok (XFree xr_new_free_next xr_new_free_gen) else Err E_UNSPEC.
Check C02_walk_latest : forall xref_at file_len start (h : history) secss q0 secs0 tr0 older size fuel n,
  Forall2 represents secss h -> wf_history h ->
  map snd ((q0, secs0) :: older) = rev secss ->
  xref_at (start + q0) = Ok (secs0, tr0) -> t_size tr0 = Some size -> size <= xr_max_id ->
  linked xref_at start (t_prev tr0) older -> NoDup (map fst older) ->
  (forall q, In q (q0 :: map fst older) -> start + q < file_len) -> file_len < usize_max ->
  (length older <= fuel)%nat -> n < size ->
  exists t, read_xref_table_and_trailer xref_at file_len fuel start q0 = Ok (t, t_id tr0) /\
            table_get t n = Ok (xent_opt (latest h n)).
Check C02_stream_roundtrip : forall w0 w1 w2 first es rest allow,
  w0 <= 8 -> w1 <= 8 -> w2 <= 8 -> 0 < w0 + w1 + w2 ->
  Forall (entry_fits w0 w1 w2) es ->
  lenN (print_rows w0 w1 w2 es ++ rest) < usize_max ->
  parse_xref_section_from_stream first (lenN es) [w0; w1; w2] (print_rows w0 w1 w2 es ++ rest) allow
  = Ok ({| first_id := first; entries := es |}, rest).
Check C02_stream_sections_roundtrip : forall w0 w1 w2 secs allow,
  w0 <= 8 -> w1 <= 8 -> w2 <= 8 -> 0 < w0 + w1 + w2 ->
  Forall (section_fits w0 w1 w2) secs ->
  lenN (print_stream w0 w1 w2 secs) < usize_max ->
  parse_xref_stream_sections (index_of secs) [w0; w1; w2] (print_stream w0 w1 w2 secs) allow = Ok secs.
Check C02_stream_no_panic : forall first num width data allow,
  no_panic (parse_xref_section_from_stream first num width data allow).
Check C02_stream_bounded : forall first num w0 w1 w2 data allow s rest,
  parse_xref_section_from_stream first num [w0; w1; w2] data allow = Ok (s, rest) ->
  0 < w0 + w1 + w2 /\ lenN data = lenN rest + lenN (entries s) * (w0 + w1 + w2) /\ lenN (entries s) <= lenN data.
Check C02_table_roundtrip : forall (L : layout) (secs : list section) (rest : bytes) (p : N),
  layout_ok L secs -> token_end rest ->
  read_xref_table_at (mkLx p (print_table_spec L secs ++ rest))
  = Ok (secs, mkLx (p + lenN (print_table_spec L secs)) rest).
Check C02_table_row_20 : forall e el, row_fits e -> lenN (print_row e el) = 20.
Check C02_section_roundtrip : forall (R : resolver) (L : layout) (secs : list section) (d : dict) its text tl p,
  layout_ok L secs -> spells (PDict d) its -> vdepth (PDict d) <= MAX_DEPTH ->
  renders its text tl -> tail_ok tl ->
  exists p', p' + lenN tl = p + lenN (print_table_spec L secs) + lenN text /\
    read_xref_and_trailer_at R (mkLx p (print_table_spec L secs ++ text)) = Ok (secs, d, mkLx p' tl).
Check C02_xref_at_section : forall (R : resolver) (tid : dict -> N) file pos secs d,
  section_at file pos secs d -> xref_at_tables R tid file pos = Ok (secs, tinfo_of tid d).
Check C02_walk_latest_tables : forall (R : resolver) (tid : dict -> N) file start (h : history) secss q0 secs0 d0 older size fuel n,
  Forall2 represents secss h -> wf_history h ->
  map snd ((q0, secs0) :: older) = rev secss ->
  section_at file (start + q0) secs0 d0 ->
  t_size (tinfo_of tid d0) = Some size -> size <= xr_max_id ->
  chain_at tid file start (t_prev (tinfo_of tid d0)) older -> NoDup (map fst older) ->
  (forall q, In q (q0 :: map fst older) -> start + q < lenN file) -> lenN file < usize_max ->
  (length older <= fuel)%nat -> n < size ->
  exists t, read_xref_table_and_trailer (xref_at_tables R tid file) (lenN file) fuel start q0 = Ok (t, tid d0) /\
            table_get t n = Ok (xent_opt (latest h n)).
Check C02_object_at : forall (R : resolver) allow file pos id gen v,
  object_at file pos id gen v -> obj_at_parse R allow F_ANY file pos = Ok v.
Check C02_resolve_latest : forall (R : resolver) (tid : dict -> N) allow (member : bytes -> prim -> N -> res prim)
    file (h : history) secss q0 secs0 d0 older size,
  Forall2 represents secss h -> wf_history h ->
  map snd ((q0, secs0) :: older) = rev secss ->
  starts_with xr_header file = true -> startxref_at file q0 ->
  section_at file q0 secs0 d0 -> t_size (tinfo_of tid d0) = Some size -> size <= xr_max_id ->
  chain_at tid file 0 (t_prev (tinfo_of tid d0)) older -> NoDup (map fst older) ->
  lenN file < usize_max ->
  (forall n g pos, latest h n = Some (Direct g pos) -> exists v, object_at file pos n g v) ->
  (forall n s i, latest h n <> Some (Compressed s i)) ->
  exists t, load (xref_at_tables R tid) file = Ok (0, t, tid d0) /\
    forall n fuel, n < size ->
      stored file 0 n (latest h n) (resolve_ref prim (obj_at_parse R allow F_ANY) member (S fuel) file 0 t n).
Check C02_locate_startxref : forall file q, startxref_at file q -> locate_xref_offset file = Ok q.
Check C02_table_total : forall s, no_panic (read_xref_table_at s).
Check C02_locate_xref_total : forall file, no_panic (locate_xref_offset file).
Check C02_lexer_progress : forall s,
  match next_word s with
  | Ok (_, _, s') => (length (lrest s') < length (lrest s))%nat
  | Err _ => True
  | _ => False
  end.
