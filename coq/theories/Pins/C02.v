(** Pins/C02.v — the statements of the C02 theorems, pinned. *)
From PdfV Require Import Base.Prelude Gen.Generated XRef.Model XRef.Spec XRef.MergeProofs XRef.StreamProofs XRef.FrontProofs Properties.C02.
Set Warnings "-notation-overridden".   (* also ends the import list for the dependency scanner of tools/vplib *)

Check C02_merge_latest : forall (h : history) (secss : list (list section)) (size n : N),
  Forall2 represents secss h -> wf_history h -> n < size ->
  exists t, merge size (concat (rev secss)) = Ok t /\ table_get t n = Ok (xent_opt (latest h n)).
Check C02_beyond_size : forall (h : history) (secss : list (list section)) (size n : N),
  Forall2 represents secss h -> wf_history h -> size <= n ->
  exists t, merge size (concat (rev secss)) = Ok t /\
    table_get t n = if n =? size then Ok (XFree xr_new_free_next xr_new_free_gen) else Err E_UNSPEC.
Check C02_walk_latest : forall xref_at file_len start (h : history) secss q0 secs0 tr0 older size fuel n,
  Forall2 represents secss h -> wf_history h ->
  map snd ((q0, secs0) :: older) = rev secss ->
  xref_at (start + q0) = Ok (secs0, tr0) -> t_size tr0 = Some size -> size <= xr_max_id ->
  linked xref_at start (t_prev tr0) older -> NoDup (map fst older) ->
  (forall q, In q (q0 :: map fst older) -> start + q < file_len) -> file_len < usize_max ->
  (length older <= fuel)%nat -> n < size ->
  exists t, read_xref_table_and_trailer xref_at file_len fuel start q0 = Ok (t, t_id tr0) /\
            table_get t n = Ok (xent_opt (latest h n)).
Check C02_stream_roundtrip : forall w0 w1 w2 first es rest allow,
  w0 <= 8 -> w1 <= 8 -> w2 <= 8 -> 0 < w0 + w1 + w2 ->
  Forall (entry_fits w0 w1 w2) es ->
  lenN (print_rows w0 w1 w2 es ++ rest) < usize_max ->
  parse_xref_section_from_stream first (lenN es) [w0; w1; w2] (print_rows w0 w1 w2 es ++ rest) allow
  = Ok ({| first_id := first; entries := es |}, rest).
Check C02_stream_sections_roundtrip : forall w0 w1 w2 secs allow,
  w0 <= 8 -> w1 <= 8 -> w2 <= 8 -> 0 < w0 + w1 + w2 ->
  Forall (section_fits w0 w1 w2) secs ->
  lenN (print_stream w0 w1 w2 secs) < usize_max ->
  parse_xref_stream_sections (index_of secs) [w0; w1; w2] (print_stream w0 w1 w2 secs) allow = Ok secs.
Check C02_stream_no_panic : forall first num width data allow,
  no_panic (parse_xref_section_from_stream first num width data allow).
Check C02_stream_bounded : forall first num w0 w1 w2 data allow s rest,
  parse_xref_section_from_stream first num [w0; w1; w2] data allow = Ok (s, rest) ->
  0 < w0 + w1 + w2 /\ lenN data = lenN rest + lenN (entries s) * (w0 + w1 + w2) /\ lenN (entries s) <= lenN data.
Check C02_table_roundtrip : forall (L : layout) (secs : list section) (rest : bytes) (p : N),
  layout_ok L secs -> token_end rest ->
  read_xref_table_at (mkLx p (print_table_spec L secs ++ rest))
  = Ok (secs, mkLx (p + lenN (print_table_spec L secs)) rest).
Check C02_table_row_20 : forall e el, row_fits e -> lenN (print_row e el) = 20.
