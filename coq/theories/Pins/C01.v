(** Pins/C01.v — the statements of the C01 theorems, pinned: weakening a statement in Properties/C01.v makes this file fail. *)
From PdfV Require Import Base.Prelude Gen.Generated Lex.Lexer Lex.StrLexer Syn.Prim Syn.Parser Syn.Run Codec.Model Codec.Dispatch
  Codec.Pairing Codec.ChainProofs Safety.Front Safety.FrontProofs Properties.C01.
From PdfV Require ObjStm.Model XRef.Model.

Check C01_lexer_step : forall s, post (fun x => (remaining (snd x) < remaining s)%nat) (next_word s).
Check C01_lex_total : forall data, never_crashes (lex_all (S (length data)) (mkLx 0 data)).
Check C01_string_lex_total : forall data, never_crashes (string_lex data).
Check C01_hexstring_lex_total : forall data, never_crashes (hexstring_lex data).
Check C01_parse_total : forall R, total_resolver R -> forall flags data, never_crashes (parse R flags data).
Check C01_parse_progress : forall R, total_resolver R -> forall cx flags depth s,
  post (fun x => (remaining (snd x) < remaining s)%nat) (parse_ctx R cx flags depth s).
Check C01_parse_fuel_linear : forall s, fuel_for s = (2 * remaining s + 4)%nat.
Check C01_parse_indirect_total : forall R, total_resolver R -> forall allow_missing_endobj flags s,
  never_crashes (parse_indirect_object R allow_missing_endobj flags s).
Check C01_parse_seq_total : forall data, never_crashes (parse_all (S (length data)) data (mkLx 0 data)).
Check C01_decoders_total : forall izlib iraw ld, oracles_total izlib iraw ld ->
  (forall f d, never_crashes (decode izlib iraw ld f d)) /\
  (forall fs d, never_crashes (decode_chain izlib iraw ld fs d)) /\
  (forall f pv d, never_crashes (stream_data izlib iraw ld f pv d)).
Check C01_decode_hex_total : forall data, never_crashes (decode_hex data).
Check C01_decode_85_total : forall data, never_crashes (decode_85 data).
Check C01_rle_total : forall data, never_crashes (run_length_decode data).
Check C01_objstm_member_total : forall R, total_resolver R -> forall flags first nobj data index,
  never_crashes (ObjStm.Model.resolve_member R flags first nobj data index).
Check C01_xref_stream_total : forall first num width data allow,
  never_crashes (XRef.Model.parse_xref_section_from_stream first num width data allow).
Check C01_full :
  (forall R, total_resolver R -> forall flags data, never_crashes (parse R flags data)) /\
  (forall data, never_crashes (lex_all (S (length data)) (mkLx 0 data))) /\
  (forall data, never_crashes (string_lex data)) /\ (forall data, never_crashes (hexstring_lex data)) /\
  (forall data, never_crashes (decode_hex data)) /\ (forall data, never_crashes (decode_85 data)) /\
  (forall data, never_crashes (run_length_decode data)).
