(** Pins/C01.v — the statements of the C01 theorems, pinned: weakening a statement in Properties/C01.v makes this file fail. *)
From PdfV Require Import Base.Prelude Gen.Generated Lex.Lexer Lex.StrLexer Syn.Prim Syn.Parser Syn.Run Codec.Model
  Safety.Front Safety.FrontProofs Properties.C01.

Check C01_lexer_step : forall s, post (fun x => (remaining (snd x) < remaining s)%nat) (next_word s).
Check C01_lex_total : forall data, never_crashes (lex_all (S (length data)) (mkLx 0 data)).
Check C01_string_lex_total : forall data, never_crashes (string_lex data).
Check C01_hexstring_lex_total : forall data, never_crashes (hexstring_lex data).
Check C01_parse_total : forall R, total_resolver R -> forall flags data, never_crashes (parse R flags data).
Check C01_parse_progress : forall R, total_resolver R -> forall cx flags depth s,
  post (fun x => (remaining (snd x) < remaining s)%nat) (parse_ctx R cx flags depth s).
Check C01_parse_fuel_linear : forall s, fuel_for s = (2 * remaining s + 4)%nat.
Check C01_parse_indirect_total : forall R, total_resolver R -> forall allow_missing_endobj flags s,
  never_crashes (parse_indirect_object R allow_missing_endobj flags s).
Check C01_parse_seq_total : forall data, never_crashes (parse_all (S (length data)) data (mkLx 0 data)).
Check C01_decode_hex_total : forall data, never_crashes (decode_hex data).
Check C01_decode_85_total : forall data, never_crashes (decode_85 data).
Check C01_rle_terminates : forall data, run_length_decode data <> OutOfFuel.
Check C01_rle_total_on_complete : forall data, rle_complete data = true -> never_crashes (run_length_decode data).
Check C01_rle_panic_sites : forall data s, run_length_decode data = Panic s -> s = 102 \/ s = 103.
Check C01_rle_refuted : ~ (forall d, never_crashes (run_length_decode d)) /\
  run_length_decode [0] = Panic 102 /\ run_length_decode [200] = Panic 103 /\
  rle_complete [0] = false /\ rle_complete [200] = false.
Check C01_full_statement_refuted : ~ C01_full_statement.
