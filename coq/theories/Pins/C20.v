(** Pins/C20.v — the statements of Properties/C20.v, pinned. *)
From PdfV Require Import Base.Prelude Lex.Lexer Syn.Prim Gen.Generated
     Import.Model Import.Spec Import.ImportProofs Import.Theorems Import.PageProofs Properties.C20.

Check C20_closed : forall fetch g fuel roots rs s,
  import_roots fetch g fuel roots st0 = Ok (rs, s) ->
  forall r', reach (out s) (new_refs rs) r' -> exists v, g_find (out s) (fst r') = Some v.

Check C20_equal : forall fetch g fuel roots rs s,
  import_roots fetch g fuel roots st0 = Ok (rs, s) ->
  Forall2 (root_rel (memo s)) roots rs /\
  forall r x, lookup (memo s) r = Some x ->
    exists v v', resolve g r = Ok v /\ g_find (out s) (fst x) = Some v' /\ iso fetch (memo s) v v'.

Check C20_once : forall fetch g fuel roots rs s,
  import_roots fetch g fuel roots st0 = Ok (rs, s) ->
  NoDup (map fst (memo s)) /\ NoDup (map snd (memo s)) /\ NoDup (map fst (out s)) /\
  (forall i, In i (map fst (out s)) <-> exists r, lookup (memo s) r = Some (i, 0)).

Check C20_reachable_only : forall fetch g fuel roots rs s,
  import_roots fetch g fuel roots st0 = Ok (rs, s) ->
  (forall r x, lookup (memo s) r = Some x -> reach g roots r) /\
  (forall r, reach g roots r -> exists x, lookup (memo s) r = Some x).

Check C20_total : forall fetch g roots fuel,
  (forall i gn st ln, ok_or_err (fetch i gn st ln)) ->
  (fuel_for g (map (fun r => PRef (fst r) (snd r)) roots) <= fuel)%nat ->
  ok_or_err (import_roots fetch g fuel roots st0).

Check C20_never_panics : forall fetch g,
  (forall i gn st ln, ok_or_err (fetch i gn st ln)) ->
  forall U D,
  (forall r v r2, In r U -> resolve g r = Ok v -> has_ref v r2 -> In r2 U) ->
  (forall r v, resolve g r = Ok v -> (depth v <= D)%nat) ->
  forall fuel v s, (forall r, has_ref v r -> In r U) -> (depth v + missL U s * (D + 2) < fuel)%nat ->
  fine_res s (clone_prim fetch g fuel v s).

Check C20_page_resources : forall fetch g fuel old u new s new' s' P,
  clone_use fetch g fuel old u (new, s) = Ok (new', s') ->
  wf fetch g (fun _ => True) s -> pend s P ->
  wf fetch g (fun _ => True) s' /\ pend s' P /\ ext s s' /\
  match u with
  | UProps _ => new' = new
  | UName op name =>
      match cat_of_op op with
      | None => new' = new
      | Some cat =>
          match dict_get name (cat_get new cat), dict_get name (cat_get old cat) with
          | None, Some v => exists v0 v', src_value g cat v v0 /\ iso fetch (memo s') v0 v' /\
                                          new' = cat_set new cat (cat_get new cat ++ [(name, v')])
          | _, _ => new' = new
          end
      end
  end.

Check C20_page_pruned : forall fetch g fuel p s po s' P,
  clone_page fetch g fuel p s = Ok (po, s') -> wf fetch g (fun _ => True) s -> pend s P ->
  wf fetch g (fun _ => True) s' /\ pend s' P /\ ext s s' /\ Forall2 (iso_entry fetch (memo s')) (pg_tail p) (po_tail po).

Check C20_tables :
  forallb (fun x => existsb (pair_eqb x) spec_op_cats) import_op_cats = true /\
  forallb (fun x => existsb (pairN_eqb x) import_res_kinds)
          [([69;120;116;71;83;116;97;116;101], 0); ([70;111;110;116], 1); ([88;79;98;106;101;99;116], 2)] = true /\
  forallb (fun l => before 1 3 l && before 3 4 l && before 4 5 l && before 5 6 l)
          [import_plainref_order; import_ref_order; import_rcref_order] = true /\
  import_prim_arms =
    [([65;114;114;97;121], 1); ([66;111;111;108;101;97;110], 0); ([68;105;99;116;105;111;110;97;114;121], 1);
     ([73;110;116;101;103;101;114], 0); ([78;97;109;101], 0); ([78;117;108;108], 0); ([78;117;109;98;101;114], 0);
     ([82;101;102;101;114;101;110;99;101], 1); ([83;116;114;101;97;109], 1); ([83;116;114;105;110;103], 0)] /\
  1 <= import_first_id.

Check C20_old_order_refuted : forall fuel, clone_old self_loop fuel (PRef 1 0) st0 = OutOfFuel.

Check C20_categories_refuted : ~ C20_full_statement.
