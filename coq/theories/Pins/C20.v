(** Pins/C20.v — the statements of Properties/C20.v, pinned. *)
From PdfV Require Import Base.Prelude Lex.Lexer Syn.Prim Gen.Generated
     Import.Model Import.Spec Import.ImportProofs Import.Theorems Import.PageProofs Import.PagePresent Import.GraphIso Import.Target Properties.C20.
From PdfV Require Storage.Prim Storage.Model Storage.Proofs Storage.Builder Storage.Syntax Storage.Reload.
From PdfV Require Syn.Serialize Syn.SerProofs Syn.Spells Syn.Parser.

Check C20_closed : forall fetch g fuel roots rs s,
  import_roots fetch g fuel roots st0 = Ok (rs, s) ->
  forall r', reach (out s) (new_refs rs) r' -> exists v, g_find (out s) (fst r') = Some v.

Check C20_equal : forall fetch g fuel roots rs s,
  import_roots fetch g fuel roots st0 = Ok (rs, s) ->
  Forall2 (root_rel (memo s)) roots rs /\
  forall r x, lookup (memo s) r = Some x ->
    exists v v', resolve g r = Ok v /\ g_find (out s) (fst x) = Some v' /\ iso fetch (memo s) v v'.

Check C20_once : forall fetch g fuel roots rs s,
  import_roots fetch g fuel roots st0 = Ok (rs, s) ->
  NoDup (map fst (memo s)) /\ NoDup (map snd (memo s)) /\ NoDup (map fst (out s)) /\
  (forall i, In i (map fst (out s)) <-> exists r, lookup (memo s) r = Some (i, 0)).

Check C20_reachable_only : forall fetch g fuel roots rs s,
  import_roots fetch g fuel roots st0 = Ok (rs, s) ->
  (forall r x, lookup (memo s) r = Some x -> reach g roots r) /\
  (forall r, reach g roots r -> exists x, lookup (memo s) r = Some x).

Check C20_total : forall fetch g roots fuel,
  (forall i gn st ln, ok_or_err (fetch i gn st ln)) ->
  (fuel_for g (map (fun r => PRef (fst r) (snd r)) roots) <= fuel)%nat ->
  ok_or_err (import_roots fetch g fuel roots st0).

Check C20_never_panics : forall fetch g,
  (forall i gn st ln, ok_or_err (fetch i gn st ln)) ->
  forall U D,
  (forall r v r2, In r U -> resolve g r = Ok v -> has_ref v r2 -> In r2 U) ->
  (forall r v, resolve g r = Ok v -> (depth v <= D)%nat) ->
  forall fuel v s, (forall r, has_ref v r -> In r U) -> (depth v + missL U s * (D + 2) < fuel)%nat ->
  fine_res s (clone_prim fetch g fuel v s).

Check C20_page_resources : forall fetch g fuel old u new s new' s' P,
  clone_use fetch g fuel old u (new, s) = Ok (new', s') ->
  wf fetch g (fun _ => True) s -> pend s P ->
  wf fetch g (fun _ => True) s' /\ pend s' P /\ ext s s' /\
  match u with
  | UProps _ => new' = new
  | UName op name =>
      match cat_of_op op with
      | None => new' = new
      | Some cat =>
          match dict_get name (cat_get new cat), dict_get name (cat_get old cat) with
          | None, Some v => exists v0 v', src_value g cat v v0 /\ iso fetch (memo s') v0 v' /\
                                          new' = cat_set new cat (cat_get new cat ++ [(name, v')])
          | _, _ => new' = new
          end
      end
  end.

Check C20_page_pruned : forall fetch g fuel p s po s' P,
  clone_page fetch g fuel p s = Ok (po, s') -> wf fetch g (fun _ => True) s -> pend s P ->
  wf fetch g (fun _ => True) s' /\ pend s' P /\ ext s s' /\ Forall2 (iso_entry fetch (memo s')) (pg_tail p) (po_tail po).

Check C20_tables :
  forallb (fun x => existsb (pair_eqb x) spec_op_cats) import_op_cats = true /\
  forallb (fun x => existsb (pairN_eqb x) import_res_kinds)
          [([69;120;116;71;83;116;97;116;101], 0); ([70;111;110;116], 1); ([88;79;98;106;101;99;116], 2)] = true /\
  forallb (fun l => before 1 3 l && before 3 4 l && before 4 5 l && before 5 6 l)
          [import_plainref_order; import_ref_order; import_rcref_order] = true /\
  import_prim_arms =
    [([65;114;114;97;121], 1); ([66;111;111;108;101;97;110], 0); ([68;105;99;116;105;111;110;97;114;121], 1);
     ([73;110;116;101;103;101;114], 0); ([78;97;109;101], 0); ([78;117;108;108], 0); ([78;117;109;98;101;114], 0);
     ([82;101;102;101;114;101;110;99;101], 1); ([83;116;114;101;97;109], 1); ([83;116;114;105;110;103], 0)] /\
  1 <= import_first_id.

Check C20_old_order_refuted : forall fuel, clone_old self_loop fuel (PRef 1 0) st0 = OutOfFuel.

Check C20_categories_refuted : ~ C20_full_statement.

Check C20_graph_iso : forall fetch g fuel roots rs s,
  import_roots fetch g fuel roots st0 = Ok (rs, s) ->
  NoDup (map fst (memo s)) /\ NoDup (map snd (memo s)) /\
  (forall r, reach g roots r <-> exists x, lookup (memo s) r = Some x) /\
  (forall x, reach (out s) (new_refs rs) x <-> exists r, lookup (memo s) r = Some x) /\
  (forall i, In i (map fst (out s)) <-> exists r, lookup (memo s) r = Some (i, 0)) /\ NoDup (map fst (out s)) /\
  Forall2 (root_rel (memo s)) roots rs /\
  (forall r x, lookup (memo s) r = Some x ->
     exists v v', resolve g r = Ok v /\ resolve (out s) x = Ok v' /\ iso fetch (memo s) v v' /\ rename fetch (memo s) v = Some v').

Check C20_edges : forall fetch g fuel roots rs s,
  import_roots fetch g fuel roots st0 = Ok (rs, s) ->
  forall r x r2, lookup (memo s) r = Some x ->
  forall v v', resolve g r = Ok v -> resolve (out s) x = Ok v' ->
    (has_ref v r2 -> exists x2, lookup (memo s) r2 = Some x2 /\ has_ref v' x2) /\
    (forall x2, has_ref v' x2 -> exists r3, lookup (memo s) r3 = Some x2 /\ has_ref v r3).

Check C20_copy_determined : forall fetch m v a b, iso fetch m v a -> iso fetch m v b -> a = b.

Check C20_stream_equal : forall fetch g fuel roots rs s,
  import_roots fetch g fuel roots st0 = Ok (rs, s) ->
  forall r x d i gn st ln, lookup (memo s) r = Some x -> resolve g r = Ok (PStream d i gn st ln) ->
    exists d' data, fetch i gn st ln = Ok data /\ resolve (out s) x = Ok (PStreamData d' data) /\
                    map fst d' = map fst d /\ Forall2 (iso_entry fetch (memo s)) d d'.

Check C20_dict_equal : forall fetch g fuel roots rs s,
  import_roots fetch g fuel roots st0 = Ok (rs, s) ->
  forall r x d, lookup (memo s) r = Some x -> resolve g r = Ok (PDict d) ->
    exists d', resolve (out s) x = Ok (PDict d') /\ map fst d' = map fst d /\ Forall2 (iso_entry fetch (memo s)) d d'.

Check C20_target_steps :
  target false st0 = Storage.Builder.empty_storage /\
  (forall c s m', 1 <= next s -> Storage.Model.promise (target c s) = (target c (mkSt m' (next s + 1) (out s)), (next s, 0))) /\
  (forall c s m' id v, 1 <= id -> id < next s -> ~ In id (map fst (out s)) ->
     Storage.Model.fulfill (target c s) (id, 0) v = Ok (target c (mkSt m' (next s) ((id, v) :: out s)), (id, 0))).

Check C20_target_valid : forall fetch g fuel roots rs s,
  import_roots fetch g fuel roots st0 = Ok (rs, s) ->
  forall c, Storage.Proofs.wf_st (target c s) /\
    lenN (Storage.Model.refs (target c s)) = next s /\
    forall i, 1 <= i -> i < next s ->
      nthN (Storage.Model.refs (target c s)) i = Some Storage.Model.XPromised /\
      exists v, Storage.Model.clookup (Storage.Model.changes (target c s)) i = Some (v, 0) /\ g_find (out s) i = Some v.

Check C20_reload_object : forall fetch g fuel roots rs s,
  import_roots fetch g fuel roots st0 = Ok (rs, s) -> next s < 18446744073709551616 ->
  forall cached member tr tr' S' S3,
  Storage.Model.save Syn.Serialize.ser (target cached s) tr = Ok (S', tr', None) ->
  Storage.Model.changes S3 = [] -> Storage.Model.backend S3 = Storage.Model.backend S' -> Storage.Model.start S3 = 0 ->
  (forall i, i < lenN (Storage.Model.refs S') -> nthN (Storage.Model.refs S3) i = nthN (Storage.Model.refs S') i) ->
  forall r x v, lookup (memo s) r = Some x -> resolve g r = Ok v ->
    Syn.SerProofs.storable v -> Syn.Spells.vdepth v <= MAX_DEPTH ->
    exists v', iso fetch (memo s) v v' /\ rename fetch (memo s) v = Some v' /\
               forall g', Storage.Model.resolve Storage.Syntax.parse_obj member S3 (fst x, g') = Ok v'.

Check C20_reload_stream : forall fetch g fuel roots rs s,
  import_roots fetch g fuel roots st0 = Ok (rs, s) -> next s < 18446744073709551616 ->
  forall cached member tr tr' S' S3,
  Storage.Model.save Syn.Serialize.ser (target cached s) tr = Ok (S', tr', None) ->
  Storage.Model.changes S3 = [] -> Storage.Model.backend S3 = Storage.Model.backend S' -> Storage.Model.start S3 = 0 ->
  (forall i, i < lenN (Storage.Model.refs S') -> nthN (Storage.Model.refs S3) i = nthN (Storage.Model.refs S') i) ->
  forall r x d i gn st ln, lookup (memo s) r = Some x -> resolve g r = Ok (PStream d i gn st ln) ->
    Syn.SerProofs.storable (PDict d) -> Syn.Spells.vdepth (PDict d) <= MAX_DEPTH ->
    dict_get Syn.Parser.key_Length d = Some (PInt (Z.of_N ln)) ->
    exists d' data, fetch i gn st ln = Ok data /\ Forall2 (iso_entry fetch (memo s)) d d' /\ map fst d' = map fst d /\
      (lenN data = ln -> forall g', exists st',
         Storage.Model.resolve Storage.Syntax.parse_obj member S3 (fst x, g') = Ok (PStream d' (fst x) 0 st' ln) /\
         Storage.Prim.raw_data (Storage.Model.backend S3) (PStream d' (fst x) 0 st' ln) = Some data).

Check C20_page_present : forall fetch g fuel p s po s' P,
  clone_page fetch g fuel p s = Ok (po, s') -> wf fetch g (fun _ => True) s -> pend s P ->
  (forall op name cat v, In (UName op name) (pg_uses p) -> cat_of_op op = Some cat ->
     dict_get name (cat_get (pg_res p) cat) = Some v ->
     exists v0 v', src_value g cat v v0 /\ dict_get name (cat_get (po_res po) cat) = Some v' /\ iso fetch (memo s') v0 v') /\
  (forall cat name v', dict_get name (cat_get (po_res po) cat) = Some v' ->
     exists v v0, dict_get name (cat_get (pg_res p) cat) = Some v /\ src_value g cat v v0 /\ iso fetch (memo s') v0 v').
