From PdfV Require Import Base.Prelude Import.Model.
