From PdfV Require Import Base.Prelude Gen.Generated Codec.Model Codec.Spec Codec.Dispatch Codec.HexProofs Properties.C05.
Check C05_hex : forall x s, hex_spells_iso x s -> decode_hex s = Ok x.
