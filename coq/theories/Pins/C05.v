(** Pins/C05.v — the statements of the C05 theorems, pinned: weakening a statement in
    Properties/C05.v makes this file fail. *)
From PdfV Require Import Base.Prelude Gen.Generated Codec.Model Codec.Spec Codec.Dispatch Codec.Pairing
  Codec.HexProofs Codec.A85Proofs Codec.A85Spell Codec.RleProofs Codec.PngProofs Codec.TiffProofs Codec.ChainProofs Properties.C05.

Check C05_hex : forall x s, hex_spells_iso x s -> decode_hex s = Ok x.
Check C05_a85 : forall x s, a85_spells x s -> decode_85 s = Ok x.
Check C05_a85_group : forall a b c d, a < 256 -> b < 256 -> c < 256 -> d < 256 ->
  exists s0 s1 s2 s3 s4, base85_chunk (of_be4 a b c d) = [s0; s1; s2; s3; s4] /\
    digit s0 /\ digit s1 /\ digit s2 /\ digit s3 /\ digit s4 /\
    word_85 s0 s1 s2 s3 s4 = Some [a; b; c; d].
Check C05_rle : forall x e, rle_encodes x e -> run_length_decode e = Ok x.
Check C05_paeth : forall a b c, a < 256 -> b < 256 -> c < 256 -> filter_paeth a b c = paeth_iso a b c.
Check C05_png_row : forall tag ft bpp prior row,
  tag < 5 -> ptype_of_tag tag = Some ft -> (1 <= bpp <= length row)%nat -> length prior = length row ->
  wf_bytes prior -> wf_bytes row ->
  unfilter ft bpp prior (png_filter_row tag bpp prior row) = Ok row.
Check C05_geometry : forall p,
  (1 <= p_colors p)%Z -> (1 <= p_columns p)%Z -> In (p_bpc p) [1;2;4;8;16]%Z ->
  Z.to_N (p_columns p) * (Z.to_N (p_colors p) * Z.to_N (p_bpc p)) < usize_lim ->
  predictor_geometry p = Ok (iso_row_bytes (Z.to_N (p_colors p)) (Z.to_N (p_bpc p)) (Z.to_N (p_columns p)),
                             iso_pixel_bytes (Z.to_N (p_colors p)) (Z.to_N (p_bpc p))).
Check C05_png : forall p fts rows,
  (png_from <= p_predictor p)%Z ->
  (1 <= p_colors p)%Z -> (1 <= p_columns p)%Z -> In (p_bpc p) [1;2;4;8;16]%Z ->
  Z.to_N (p_columns p) * (Z.to_N (p_colors p) * Z.to_N (p_bpc p)) < usize_lim ->
  length fts = length rows -> Forall (fun t => t < 5) fts ->
  Forall (fun r => lenN r = iso_row_bytes (Z.to_N (p_colors p)) (Z.to_N (p_bpc p)) (Z.to_N (p_columns p))) rows ->
  Forall wf_bytes rows ->
  unpredict p (png_encode (Z.to_N (p_colors p)) (Z.to_N (p_bpc p)) (Z.to_N (p_columns p)) fts rows) = Ok (concat rows).
Check C05_tiff_row : forall colors bpc columns row,
  1 <= colors -> 1 <= columns -> In bpc [1;2;4;8;16] -> wf_bytes row ->
  lenN row = iso_row_bytes colors bpc columns ->
  tiff_unpredict_row (N.to_nat colors) bpc (N.to_nat (colors * columns)) (tiff_encode_row colors bpc columns row) = Ok row.
Check C05_tiff : forall p rows,
  p_predictor p = tiff_pred ->
  (1 <= p_colors p)%Z -> (1 <= p_columns p)%Z -> In (p_bpc p) [1;2;4;8;16]%Z ->
  Z.to_N (p_columns p) * (Z.to_N (p_colors p) * Z.to_N (p_bpc p)) < usize_lim ->
  Forall (fun r => lenN r = iso_row_bytes (Z.to_N (p_colors p)) (Z.to_N (p_bpc p)) (Z.to_N (p_columns p))) rows ->
  Forall wf_bytes rows ->
  unpredict p (tiff_encode (Z.to_N (p_colors p)) (Z.to_N (p_bpc p)) (Z.to_N (p_columns p)) rows) = Ok (concat rows).
Check C05_flate : forall izlib iraw ld zenc renc,
  flate_oracle izlib iraw zenc renc -> forall p x y, predicted p x y ->
  decode izlib iraw ld (FFlate p) (zenc y) = Ok x /\ decode izlib iraw ld (FFlate p) (renc y) = Ok x.
Check C05_lzw : forall izlib iraw ld lenc,
  lzw_oracle ld lenc -> forall p x y, predicted p x y ->
  decode izlib iraw ld (FLzw p) (lenc (early_of p) y) = Ok x.
Check C05_chain : forall izlib iraw ld zenc renc lenc,
  flate_oracle izlib iraw zenc renc -> lzw_oracle ld lenc ->
  forall fs x e, chain_encodes zenc renc lenc fs x e -> decode_chain izlib iraw ld fs e = Ok x.
Check C05_pairing : forall fs f pv, dict_spells fs f pv -> filters_of f pv = Ok fs.
Check C05_stream : forall izlib iraw ld zenc renc lenc,
  flate_oracle izlib iraw zenc renc -> lzw_oracle ld lenc ->
  forall fs f pv x e, dict_spells fs f pv -> chain_encodes zenc renc lenc fs x e ->
  stream_data izlib iraw ld f pv e = Ok x.
Check C05_no_panic : C05_no_panic_statement.
Check C05_full : C05_full_statement.

Check (eq_refl : C05_no_panic_statement =
  (forall izlib iraw ld, oracles_total izlib iraw ld ->
    (forall f d, no_panic (decode izlib iraw ld f d)) /\
    (forall fs d, no_panic (decode_chain izlib iraw ld fs d)) /\
    (forall f pv d, no_panic (stream_data izlib iraw ld f pv d)))).
Check (eq_refl : C05_full_statement =
  (forall izlib iraw ld zenc renc lenc,
    flate_oracle izlib iraw zenc renc -> lzw_oracle ld lenc -> oracles_total izlib iraw ld ->
    (forall fs f pv x e, dict_spells fs f pv -> chain_encodes zenc renc lenc fs x e ->
       stream_data izlib iraw ld f pv e = Ok x) /\
    (forall f pv d, no_panic (stream_data izlib iraw ld f pv d)))).
(* the oracle premises, pinned *)
Check (eq_refl : flate_oracle = fun izlib iraw zenc renc =>
  (forall y, izlib (zenc y) = Ok y) /\ (forall y, iraw (renc y) = Ok y) /\ (forall y, exists e, izlib (renc y) = Err e)).
Check (eq_refl : lzw_oracle = fun ld lenc => forall ec y, ld ec (lenc ec y) = Ok y).
Check (eq_refl : oracles_total = fun izlib iraw ld =>
  (forall d, no_panic (izlib d)) /\ (forall d, no_panic (iraw d)) /\ (forall (ec : bool) d, no_panic (ld ec d))).
