(** Pins/C16.v — the statements of the C16 theorems, pinned: weakening a statement in
    Properties/C16.v makes this file fail. *)
From PdfV Require Import Base.Prelude Gen.Generated Codec.Model Codec.Dispatch Codec.HexProofs Codec.A85Proofs Properties.C16.

Check C16_hex : forall izlib iraw dz ld le x, wf_bytes x ->
  exists e, encode dz le FHex x = Ok e /\ decode izlib iraw ld FHex e = Ok x /\ hex_spells x e.
Check C16_a85 : forall izlib iraw dz ld le x, wf_bytes x ->
  exists e, encode dz le FA85 x = Ok e /\ decode izlib iraw ld FA85 e = Ok x /\
    exists body, e = body ++ [126; 62] /\ Forall sym_ok body.
Check C16_flate : forall izlib iraw dz ld le,
  (forall y, izlib (dz y) = Ok y) ->
  forall p x, (p_predictor p < png_from)%Z -> p_predictor p <> tiff_pred ->
    exists e, encode dz le (FFlate p) x = Ok e /\ decode izlib iraw ld (FFlate p) e = Ok x.
Check C16_lzw : forall izlib iraw dz ld le,
  (forall y e, le y = Ok e -> ld false e = Ok y) ->
  forall p x e, p_early p = 0%Z -> (p_predictor p < png_from)%Z -> p_predictor p <> tiff_pred ->
    encode dz le (FLzw p) x = Ok e -> decode izlib iraw ld (FLzw p) e = Ok x.
