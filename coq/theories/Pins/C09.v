(** Pins/C09.v — pinned statements of the C09 theorems (a weakened statement fails this file). *)
From PdfV Require Import Base.Prelude Gen.Generated Storage.Prim Storage.Model Storage.Proofs Properties.C09.
From PdfV Require Storage.Syntax Syn.Serialize Syn.Parser Syn.Spells Syn.SerProofs.

Check (C09_read_your_writes : forall parse_obj member,
  (forall s old v s' r, update s old v = Ok (s', r) ->
     fst r = fst old /\ (forall f g, resolve_ref parse_obj member f s' (fst old, g) = Ok v) /\
     (not_container s (fst old) -> forall f r0, fst r0 <> fst old ->
        resolve_ref parse_obj member f s' r0 = resolve_ref parse_obj member f s r0) /\
     backend s' = backend s /\ refs s' = refs s /\ cache s' = []) /\
  (forall s v s' r, create s v = (s', r) ->
     r = (lenN (refs s), 0) /\ (forall f g, resolve_ref parse_obj member f s' (fst r, g) = Ok v) /\
     (not_container s (fst r) -> forall f r0, fst r0 <> fst r ->
        resolve_ref parse_obj member f s' r0 = resolve_ref parse_obj member f s r0) /\
     backend s' = backend s /\ cache s' = []) /\
  (forall s s' r, promise s = (s', r) ->
     r = (lenN (refs s), 0) /\ changes s' = changes s /\ backend s' = backend s /\
     (not_container s (fst r) -> forall f r0, fst r0 <> fst r ->
        resolve_ref parse_obj member f s' r0 = resolve_ref parse_obj member f s r0))).

Check (C09_create_nested : forall parse_obj member s v s' rp rc,
  create_nested s v = Ok (s', (rp, rc)) ->
  rp = (lenN (refs s), 0) /\ rc = (lenN (refs s) + 1, 0) /\ fst rp <> fst rc /\
  (forall f g, resolve_ref parse_obj member f s' (fst rc, g) = Ok v) /\
  (forall f g, resolve_ref parse_obj member f s' (fst rp, g) = Ok (PDict [(k_Child, PRef (fst rc) (snd rc))])) /\
  (not_container s (fst rp) -> not_container s (fst rc) -> forall f r0, fst r0 <> fst rp -> fst r0 <> fst rc ->
     resolve_ref parse_obj member f s' r0 = resolve_ref parse_obj member f s r0) /\
  backend s' = backend s /\ cache s' = [] /\ lenN (refs s') = lenN (refs s) + 2).

Check (C09_create_is_create_with : forall s v, create_with s (fun s1 => Ok (s1, v)) = Ok (create s v)).

Check (C09_create_with : forall parse_obj member s conv s' r,
  conservative conv -> create_with s conv = Ok (s', r) ->
  r = (lenN (refs s), 0) /\
  (exists s2 p, conv (mkSt (refs s ++ [XPromised]) (changes s) (backend s) (start s) [] (cached s)) = Ok (s2, p) /\
     (forall f g, resolve_ref parse_obj member f s' (fst r, g) = Ok p) /\
     lenN (refs s) < lenN (refs s') /\ refs s' = refs s2) /\
  ((forall i sid idx, i < lenN (refs s) -> nthN (refs s) i = Some (XStream sid idx) -> sid < lenN (refs s)) ->
     forall f r0, fst r0 < lenN (refs s) -> resolve_ref parse_obj member f s' r0 = resolve_ref parse_obj member f s r0) /\
  backend s' = backend s).

Check (C09_conservative_closed : (forall conv (k : N * N -> prim), conservative conv -> conservative (fun s => do r <- create_with s conv; Ok (fst r, k (snd r)))) /\
  (forall v, conservative (nested_conv v)) /\ (forall v, conservative (fun s => Ok (s, v)))).

Check (C09_get_coherent : forall parse_obj member s r s' v,
  cache_ok parse_obj member s -> get parse_obj member s r = (s', v) ->
  v = resolve parse_obj member s r /\ cache_ok parse_obj member s' /\ refs s' = refs s /\ changes s' = changes s /\
  backend s' = backend s /\ (forall r0, resolve parse_obj member s' r0 = resolve parse_obj member s r0)).

Check (C09_byte_len_fits : forall n, n < 2 ^ 64 -> n < 256 ^ byte_len n /\ byte_len n <= 8 /\ 1 <= byte_len n).

Check (C09_byte_len_boundaries : forallb (fun k => (byte_len (256 ^ k - 1) =? k) && (byte_len (256 ^ k) =? k + 1) && (byte_len (256 ^ k + 1) =? k + 1))
          [1; 2; 3; 4; 5; 6; 7] = true /\ byte_len 0 = 1 /\ byte_len 1 = 1 /\ byte_len (2 ^ 64 - 1) = 8).

Check (C09_xref_roundtrip : forall es aw bw data,
  table_in_range es -> write_stream es (lenN es) = Ok (aw, bw, data) ->
  read_section 0 (lenN es) 1 aw bw data = Ok ((0, es), []) /\ aw <= 8 /\ bw <= 8 /\ lenN data = lenN es * (1 + aw + bw)).

Check (C09_prefix : forall ser s tr s' tr' fl,
  save ser s tr = Ok (s', tr', fl) -> exists ext, backend s' = backend s ++ ext).

Check (C09_save_layout : forall ser s tr s' tr',
  wf_st s -> save ser s tr = Ok (s', tr', None) ->
  let s1 := save_pre s tr in
  (forall id p g, clookup (changes s1) id = Some (p, g) ->
     exists body pre post, ser p = Ok body /\ backend s' = pre ++ obj_bytes id g body ++ post /\
                           start s <= lenN pre /\ nthN (refs s') id = Some (XRaw (lenN pre - start s) g)) /\
  (forall i, clookup (changes s1) i = None -> i < lenN (refs s1) -> nthN (refs s') i = nthN (refs s1) i) /\
  lenN (refs s') = lenN (refs s1) + 1 /\
  (exists xpos aw bw data xd xs,
     write_stream (refs s') (lenN (refs s')) = Ok (aw, bw, data) /\
     nthN (refs s') (lenN (refs s1)) = Some (XRaw xpos 0) /\
     ser (PStreamData xd data) = Ok xs /\
     (exists pre, backend s' = pre ++ obj_header (lenN (refs s1)) 0 ++ xs ++ kw_endobj_nl ++ startxref_tail xpos /\
                  lenN pre = start s + xpos)) /\
  start s' = start s /\ cache s' = []).

Check (C09_parse_ser : forall pre id g v post,
  SerProofs.storable v -> Spells.vdepth v <= MAX_DEPTH -> id < 2 ^ 64 -> g < 2 ^ 64 ->
  forall body, Serialize.ser v = Ok body ->
    Syntax.parse_obj (pre ++ obj_bytes id g body ++ post) (lenN pre) = Ok (id, g, v)).

Check (C09_reload : forall member s tr s' tr' s3,
  wf_st s -> save Serialize.ser s tr = Ok (s', tr', None) ->
  changes s3 = [] -> backend s3 = backend s' -> start s3 = start s ->
  (forall i, i < lenN (refs s') -> nthN (refs s3) i = nthN (refs s') i) ->
  forall id p g g', clookup (changes (save_pre s tr)) id = Some (p, g) ->
    SerProofs.storable p -> Spells.vdepth p <= MAX_DEPTH -> id < 2 ^ 64 -> g < 2 ^ 64 ->
    resolve Syntax.parse_obj member s3 (id, g') = Ok p).

Check (C09_reload_stream : forall member s tr s' tr' s3,
  wf_st s -> save Serialize.ser s tr = Ok (s', tr', None) ->
  changes s3 = [] -> backend s3 = backend s' -> start s3 = start s ->
  (forall i, i < lenN (refs s') -> nthN (refs s3) i = nthN (refs s') i) ->
  forall id d data g g', clookup (changes (save_pre s tr)) id = Some (PStreamData d data, g) ->
    SerProofs.storable (PDict d) -> Spells.vdepth (PDict d) <= MAX_DEPTH ->
    dict_get Parser.key_Length d = Some (PInt (Z.of_N (lenN data))) -> id < 2 ^ 64 -> g < 2 ^ 64 ->
    exists st, resolve Syntax.parse_obj member s3 (id, g') = Ok (PStream d id g st (lenN data)) /\
               raw_data (backend s3) (PStream d id g st (lenN data)) = Some data).

Check (C09_reload_untouched : forall ser parse_obj member s tr s' tr' s3,
  (forall b ext pos v, parse_obj b pos = Ok v -> parse_obj (b ++ ext) pos = Ok v) ->
  wf_st s -> save ser s tr = Ok (s', tr', None) ->
  changes s3 = [] -> backend s3 = backend s' -> start s3 = start s ->
  (forall i, i < lenN (refs s') -> nthN (refs s3) i = nthN (refs s') i) ->
  forall i g pos gen v, clookup (changes (save_pre s tr)) i = None -> nthN (refs s) i = Some (XRaw pos gen) ->
    parse_obj (backend s) (start s + pos) = Ok v ->
    resolve parse_obj member s3 (i, g) = Ok (snd v)).

Check (C09_failed_save_recovers : forall ser s tr s' tr' e,
  wf_st s -> save ser s tr = Ok (s', tr', Some e) ->
  let s1 := save_pre s tr in
  backend s' = backend s /\ changes s' = changes s1 /\ lenN (refs s') = lenN (refs s1) /\ tr' = tr /\
  (forall i, clookup (changes s1) i = None -> nthN (refs s') i = nthN (refs s1) i) /\
  (forall i x, nthN (refs s') i = Some x -> nthN (refs s1) i = Some x \/ exists p g, x = XRaw p g) /\
  wf_st s').

Check (C09_second_save : forall ser s tr s' tr',
  wf_st s -> save ser s tr = Ok (s', tr', None) -> wf_st s' /\ backend s' <> backend s).

Check (C09_wf_preserved : forall s,
  wf_st s ->
  (forall v s' r, create s v = (s', r) -> wf_st s') /\
  (forall s' r, promise s = (s', r) -> wf_st s') /\
  (forall old v s' r, update s old v = Ok (s', r) -> wf_st s')).

Check (C09_container_update_refuted : ~ C09_full_statement).

Check (C09_locate_xref : forall pre xpos, locate_xref_offset (pre ++ startxref_tail xpos) = Ok xpos).

Check (C09_load_table : forall read_classic s tr s' tr' c,
  wf_st s -> save Serialize.ser s tr = Ok (s', tr', None) -> t_prev tr = None ->
  lenN (refs s) < 999998 -> table_in_range (refs s') ->
  Forall wf_bytes (t_id tr) -> fst (t_root tr) < 2 ^ 64 -> snd (t_root tr) < 2 ^ 64 ->
  locate_start_offset (backend s') = Ok (start s) ->
  exists s3 td, load Syntax.parse_obj read_classic (backend s') c = Ok (s3, td) /\
    changes s3 = [] /\ backend s3 = backend s' /\ start s3 = start s /\
    (forall i, i < lenN (refs s') -> nthN (refs s3) i = nthN (refs s') i) /\
    dget td k_Size = Some (PInt (Z.of_N (lenN (refs s) + 2)))).
