(** Pins/C18.v — the statements of the C18 theorems, pinned. *)
From PdfV Require Import Base.Prelude Gen.Generated Typed.Prim Typed.Schema Typed.Derive Typed.DictProofs Typed.DanglingProofs Properties.C18.

Check C18_option_null : forall SC H allow E f chain t i g,
  resolving SC t = true -> dangling E i -> chain_has i g chain = false ->
  read SC H allow E (S (S f)) chain (TOption t) (PRef i g) = TOk VNone.
Check C18_optional_null : forall SC H allow E f chain i s pre fd0 post t0 d r g,
  get_struct SC i = Some s -> s_fields s = pre ++ fd0 :: post ->
  Forall (fun g => normal g = true /\ beqb (f_key g) (f_key fd0) = false) pre ->
  normal fd0 = true -> f_default fd0 = DNone -> f_ty fd0 = TOption t0 -> resolving SC t0 = true ->
  beqb (f_key fd0) TypeKey = false -> forallb (fun c => negb (beqb (fst c) (f_key fd0))) (s_checks s) = true ->
  dget (f_key fd0) (ddel (f_key fd0) d) = None ->
  dangling E r -> chain_has r g chain = false ->
  read SC H allow E (S (S (S f))) chain (TStruct i) (PDict (dinsert (f_key fd0) (PRef r g) d))
  = read SC H allow E (S (S (S f))) chain (TStruct i) (PDict (ddel (f_key fd0) d)).
Check C18_required_err : forall SC H allow E f chain fd0 post d acc r g,
  normal fd0 = true -> resolving SC (f_ty fd0) = true -> dget (f_key fd0) d = Some (PRef r g) ->
  dangling E r -> chain_has r g chain = false ->
  exists e, read_fields (read SC H allow E (S f) chain) (fd0 :: post) d acc = TErr (EFromPrim (f_name fd0) e)
            /\ is_missing e = true.
Check C18_missing_recognised :
  is_missing (EBase resolve_ref_free_err) = true /\
  is_missing (EBase resolve_ref_invalid_err) = true /\
  is_missing (if resolve_ref_get_in_try then ETry (EBase xref_get_none_err) else EBase xref_get_none_err) = true.
Check C18_existing_object_not_missing : forall f e, is_missing (EFromPrim f e) = false /\ opt_none (EFromPrim f e) = false.
Check C18_element_skipped : forall SC H allow E f chain t i g pre post e0,
  resolving SC t = true -> dangling E i -> chain_has i g chain = false ->
  read SC H allow E (S f) chain t PNull = TErr e0 ->
  read SC H allow E (S (S f)) chain (TVec t) (PArr (pre ++ PRef i g :: post))
  = read SC H allow E (S (S f)) chain (TVec t) (PArr (pre ++ post)).
Check C18_element_null : forall SC H allow E f chain t i g pre post v0,
  resolving SC t = true -> dangling E i -> chain_has i g chain = false ->
  read SC H allow E (S f) chain t PNull = TOk v0 ->
  read SC H allow E (S (S f)) chain (TVec t) (PArr (pre ++ PRef i g :: post))
  = read SC H allow E (S (S f)) chain (TVec t) (PArr (pre ++ PNull :: post)).
Check C18_enums_resolve :
  forallb (fun i => resolving gen_schemas (TNameEnum (N.of_nat i))) (seq 0 (length (nenums gen_schemas))) = true /\
  forallb (fun i => resolving gen_schemas (TIntEnum (N.of_nat i))) (seq 0 (length (ienums gen_schemas))) = true.
