From PdfV Require Import Base.Prelude Gen.Generated Lex.Lexer Lex.LexProofs Syn.Prim Syn.Parser Syn.Spells Syn.ParserProofs Syn.RenderProofs
  ObjStm.Model ObjStm.Proofs Properties.C11.
Check C11_member : forall R head texts i v its body ws_tail n,
  header_offsets n (mkLx 0 (head ++ concat texts)) = Ok (offs_of texts 0) ->
  nth_error texts i = Some (body ++ ws_tail) ->
  spells v its -> vdepth v <= MAX_DEPTH -> renders its (body ++ ws_tail) ws_tail ->
  Forall (fun b => is_ws b = true) ws_tail ->
  lenN (head ++ concat texts) < USIZE ->
  resolve_member R F_ANY (lenN head) (N.of_nat n) (head ++ concat texts) (N.of_nat i) = Ok v.
Check C11_slice_no_panic : forall first offsets datalen index site,
  object_slice first offsets datalen index <> Panic site.
