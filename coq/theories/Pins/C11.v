From PdfV Require Import Base.Prelude Gen.Generated Lex.Lexer Lex.LexProofs Syn.Prim Syn.Parser Syn.Spells Syn.ParserProofs Syn.RenderProofs Syn.StreamProofs
  Codec.Model Codec.Dispatch ObjStm.Model ObjStm.Proofs ObjStm.Filtered Properties.C11.
Check C11_member : forall R head texts i v its body ws_tail n,
  header_offsets n (mkLx 0 (head ++ concat texts)) = Ok (offs_of texts 0) ->
  nth_error texts i = Some (body ++ ws_tail) ->
  spells v its -> vdepth v <= MAX_DEPTH -> renders its (body ++ ws_tail) ws_tail ->
  Forall (fun b => is_ws b = true) ws_tail ->
  lenN (head ++ concat texts) < USIZE ->
  resolve_member R F_ANY (lenN head) (N.of_nat n) (head ++ concat texts) (N.of_nat i) = Ok v.
Check C11_slice_no_panic : forall first offsets datalen index site,
  object_slice first offsets datalen index <> Panic site.
Check C11_stream_length : forall d1 body1 d2 body2 a b id gen,
  spells_dict d1 body1 -> NoDup (keys d1) -> spells_dict d2 body2 -> NoDup (keys d2) ->
  parse_u64 a = Ok id -> parse_u64 b = Ok gen ->
  forall R allow i g data eol rest,
    dict_get key_Length d1 = Some (PInt (Z.of_N (lenN data))) ->
    dict_get key_Length d2 = Some (PRef i g) -> R i g F_INTEGER = Ok (PInt (Z.of_N (lenN data))) ->
    1 + ddepth d1 <= MAX_DEPTH -> 1 + ddepth d2 <= MAX_DEPTH -> stream_eol eol ->
    forall s s2 s3 s4 s5 t t2 t3 t4 t5,
    Lexes s (IWord a :: IWord b :: IWord kw_obj :: IWord kw_dict_open :: body1 ++ [IWord kw_dict_close]) s2 ->
    next s2 = Ok (kw_stream, s3) -> lrest s3 = eol ++ data ++ rest ->
    next_expect (mkLx (lpos s3 + lenN eol + lenN data) rest) kw_endstream = Ok s4 -> next_expect s4 kw_endobj = Ok s5 ->
    Lexes t (IWord a :: IWord b :: IWord kw_obj :: IWord kw_dict_open :: body2 ++ [IWord kw_dict_close]) t2 ->
    next t2 = Ok (kw_stream, t3) -> lrest t3 = eol ++ data ++ rest ->
    next_expect (mkLx (lpos t3 + lenN eol + lenN data) rest) kw_endstream = Ok t4 -> next_expect t4 kw_endobj = Ok t5 ->
    exists st1 st2,
      parse_indirect_object R allow F_ANY s = Ok (id, gen, PStream d1 id gen st1 (lenN data), s5) /\
      parse_indirect_object R allow F_ANY t = Ok (id, gen, PStream d2 id gen st2 (lenN data), t5) /\
      firstn (length data) (skipn (N.to_nat (st1 - lpos s3)) (lrest s3)) = data /\
      firstn (length data) (skipn (N.to_nat (st2 - lpos t3)) (lrest t3)) = data.
Check C11_member_any_filter : forall inflate_zlib inflate_raw deflate_zlib lzw_dec lzw_enc f R head texts i v its body ws_tail n e,
    (forall y, inflate_zlib (deflate_zlib y) = Ok y) ->
    (forall y c, lzw_enc y = Ok c -> lzw_dec false c = Ok y) ->
    standard_filter f -> wf_bytes (head ++ concat texts) ->
    encode deflate_zlib lzw_enc f (head ++ concat texts) = Ok e ->
    header_offsets n (mkLx 0 (head ++ concat texts)) = Ok (offs_of texts 0) ->
    nth_error texts i = Some (body ++ ws_tail) ->
    spells v its -> vdepth v <= MAX_DEPTH -> renders its (body ++ ws_tail) ws_tail ->
    Forall (fun b => is_ws b = true) ws_tail ->
    lenN (head ++ concat texts) < USIZE ->
    resolve_member_filtered inflate_zlib inflate_raw lzw_dec [f] R F_ANY (lenN head) (N.of_nat n) e (N.of_nat i) = Ok v.
