(** Pins/C12.v — the statements of the C12 theorems, pinned: weakening a statement in Properties/C12.v makes this file fail. *)
From PdfV Require Import Base.Prelude Gen.Generated Cache.Model Cache.Node Cache.Proofs Cache.Tables Properties.C12.

Check C12_invisible : forall prog filters raw appf imgc rank oc sc fuel calls,
  acyclic prog rank -> fuel_ok rank fuel calls ->
  run (cfg_fixed oc sc) prog filters raw appf imgc fuel calls init
  = map (answer_alone prog filters raw appf imgc fuel) calls.
Check C12_order_independent : forall prog filters raw appf imgc rank oc sc fuel pre1 pre2 cl,
  acyclic prog rank -> fuel_ok rank fuel (pre1 ++ [cl]) -> fuel_ok rank fuel (pre2 ++ [cl]) ->
  nth (length pre1) (run (cfg_fixed oc sc) prog filters raw appf imgc fuel (pre1 ++ [cl]) init) OutOfFuel
  = nth (length pre2) (run (cfg_fixed oc sc) prog filters raw appf imgc fuel (pre2 ++ [cl]) init) OutOfFuel.
Check C12_get_is_denotation : forall (prog : tytag -> ref -> comp) (filters : ref -> list filt) (raw : ref -> outcome)
    (appf : filt -> val -> outcome) (imgc : ref -> filt -> val -> outcome) (rank : ref -> nat) (oc sc : bool)
    (fuel : nat) (ty : tytag) (r : ref) (st' : state) (o : outcome),
  acyclic prog rank -> (rank r < fuel)%nat ->
  get (cfg_fixed oc sc) prog fuel [] ty r init = (o, st') -> o = D prog rank ty r.
Check C12_cyclic_refuted : ~ C12_full_statement.
Check C12_a_refuted_before_fix : exists prog filters raw appf imgc fuel calls,
  run (mkCfg true true false true) prog filters raw appf imgc fuel calls init
  <> map (fun cl => fst (do_call no_cache prog filters raw appf imgc fuel cl init)) calls.
Check C12_b_refuted_before_fix : exists prog filters raw appf imgc fuel calls,
  run (mkCfg true true true false) prog filters raw appf imgc fuel calls init
  <> map (fun cl => fst (do_call no_cache prog filters raw appf imgc fuel cl init)) calls.
Check C12_split_table : forall f, In f filter_codes -> is_image_filter f = spec_is_image f.
Check C12_codecs_table : forall f, In f filter_codes -> memN f cache_image_codecs = memN f [5; 6; 7; 8; 9].
Check (eq_refl : C12_full_statement = full_statement).
Check C12_typed_get_any_history :
  forall (prog : tytag -> ref -> comp) (filters : ref -> list filt) (raw : ref -> outcome)
         (appf : filt -> val -> outcome) (imgc : ref -> filt -> val -> outcome)
         (rank : ref -> nat) (oc sc : bool) (fuel : nat) (history : list call) (ty : tytag) (r : ref),
    acyclic prog rank -> fuel_ok rank fuel history -> (rank r < fuel)%nat ->
    let st := final_state prog filters raw appf imgc oc sc fuel history init in
    fst (get (cfg_fixed oc sc) prog fuel [] ty r st) = D prog rank ty r /\
    fst (get no_cache prog fuel [] ty r init) = D prog rank ty r.
Check C12_error_entries_irrelevant :
  forall (prog : tytag -> ref -> comp) (filters : ref -> list filt) (raw : ref -> outcome)
         (appf : filt -> val -> outcome) (imgc : ref -> filt -> val -> outcome)
         (rank : ref -> nat) (oc sc : bool) (fuel : nat) (history : list call) (ty : tytag) (r r0 : ref) (k : N),
    acyclic prog rank -> fuel_ok rank fuel history -> (rank r < fuel)%nat ->
    let st := final_state prog filters raw appf imgc oc sc fuel history init in
    fst (get (cfg_fixed oc sc) prog fuel [] ty r (set_oc st r0 (EErr k))) = D prog rank ty r.
Check C12_value_entries_typed :
  forall (prog : tytag -> ref -> comp) (filters : ref -> list filt) (raw : ref -> outcome)
         (appf : filt -> val -> outcome) (imgc : ref -> filt -> val -> outcome)
         (rank : ref -> nat) (oc sc : bool) (fuel : nat) (history : list call) (ty ty0 : tytag) (r r0 : ref) (v0 : val),
    acyclic prog rank -> fuel_ok rank fuel history -> (rank r < fuel)%nat ->
    D prog rank ty0 r0 = Ok v0 ->
    let st := final_state prog filters raw appf imgc oc sc fuel history init in
    fst (get (cfg_fixed oc sc) prog fuel [] ty r (set_oc st r0 (EOk ty0 v0))) = D prog rank ty r.
Check C12_stream_entries_full :
  forall (prog : tytag -> ref -> comp) (filters : ref -> list filt) (raw : ref -> outcome)
         (appf : filt -> val -> outcome) (imgc : ref -> filt -> val -> outcome)
         (rank : ref -> nat) (oc sc : bool) (fuel : nat) (history : list call) (r : ref) (x : outcome),
    acyclic prog rank -> fuel_ok rank fuel history ->
    let st := final_state prog filters raw appf imgc oc sc fuel history init in
    lookup r (scache st) = Some x -> x = sdecode raw appf r (filters r).
Check C12_partial_decode :
  forall (prog : tytag -> ref -> comp) (filters : ref -> list filt) (raw : ref -> outcome)
         (appf : filt -> val -> outcome) (imgc : ref -> filt -> val -> outcome)
         (rank : ref -> nat) (oc sc : bool) (fuel : nat) (history : list call) (r : ref),
    acyclic prog rank -> fuel_ok rank fuel history ->
    let st := final_state prog filters raw appf imgc oc sc fuel history init in
    fst (raw_image_data (cfg_fixed oc sc) filters raw appf r st) = raw_image_pure filters raw appf r /\
    (skipn (match rposition is_image_filter (filters r) with Some i => i | None => length (filters r) end)
           (filters r) <> [] ->
     snd (raw_image_data (cfg_fixed oc sc) filters raw appf r st) = st).
Check (eq_refl : final_state = fun prog filters raw appf imgc oc sc =>
  fix final_state (fuel : nat) (calls : list call) (st : state) {struct calls} : state :=
    match calls with
    | [] => st
    | cl :: t => final_state fuel t (snd (do_call (cfg_fixed oc sc) prog filters raw appf imgc fuel cl st))
    end).
Check C12_serving_cached_errors_refuted : forall (serve : N -> bool) (k : N),
  serve k = true ->
  exists (prog : tytag -> ref -> comp) (rank : ref -> nat) (fuel : nat) (ty1 ty2 : tytag) (r : ref),
    acyclic prog rank /\
    let first := get_gen (cfg_fixed true true) prog serve fuel [] ty1 r init in
    fst (get_gen (cfg_fixed true true) prog serve fuel [] ty2 r (snd first))
    <> fst (get no_cache prog fuel [] ty2 r init).
Check (eq_refl : get = fun c prog => get_gen c prog (fun _ => negb (fix_b c))).
