(** Pins/C17.v — the statements of the C17 theorems, pinned. *)
From PdfV Require Import Base.Prelude Gen.Generated XRef.Model XRef.Spec XRef.HeaderProofs XRef.FrontProofs XRef.LexShift XRef.At XRef.ParseShift XRef.PrefixProofs XRef.AtProofs Syn.Prim Syn.Parser Properties.C17.
Set Warnings "-notation-overridden".   (* also ends the import list for the dependency scanner of tools/vplib *)

Check C17_marker_first_occurrence : forall pat p s, pat <> [] -> no_border pat = true ->
  find_sub pat p = None -> starts_with pat s = true -> find_sub pat (p ++ s) = Some (lenN p).
Check C17_header_no_border : no_border xr_header = true.
Check C17_locate_start : forall p f,
  find_sub xr_header p = None -> starts_with xr_header f = true ->
  lenN p + lenN xr_header <= xr_header_window ->
  locate_start_offset (p ++ f) = Ok (lenN p).
Check C17_locate_xref : forall p f x, locate_xref_offset f = Ok x -> locate_xref_offset (p ++ f) = Ok x.
Check C17_load_invariant : forall (xref_at : bytes -> N -> res (list section * tinfo)) (p f : bytes),
  (forall pos, xref_at (p ++ f) (lenN p + pos) = xref_at f pos) ->
  lenN (p ++ f) < usize_max ->
  starts_with xr_header f = true -> find_sub xr_header p = None -> lenN p + lenN xr_header <= xr_header_window ->
  forall s t tid, load xref_at f = Ok (s, t, tid) -> s = 0 /\ load xref_at (p ++ f) = Ok (lenN p, t, tid).
Check C17_resolve_invariant : forall (value : Type) (obj_at : bytes -> N -> res value)
    (member : bytes -> value -> N -> res value) (shift : N -> value -> value) (p f : bytes),
  (forall pos, obj_at (p ++ f) (lenN p + pos) = rmap (shift (lenN p)) (obj_at f pos)) ->
  (forall v i, member (p ++ f) (shift (lenN p) v) i = rmap (shift (lenN p)) (member f v i)) ->
  lenN (p ++ f) < usize_max ->
  forall t fuel id,
  resolve_ref value obj_at member fuel (p ++ f) (lenN p) t id
  = rmap (shift (lenN p)) (resolve_ref value obj_at member fuel f 0 t id).
Check C17_scan_invariant : forall (value : Type) (scan_slice : bytes -> bytes -> N -> list (res value))
    (shift : N -> value -> value) (p f : bytes),
  (forall s o, scan_slice (p ++ f) s (lenN p + o) = map (rmap (shift (lenN p))) (scan_slice f s o)) ->
  lenN (p ++ f) < usize_max -> lenN p + lenN xr_header <= xr_header_window ->
  forall items, scan value scan_slice f 0 = Ok items ->
  scan value scan_slice (p ++ f) (lenN p) = Ok (map (rmap (shift (lenN p))) items).
Check C17_full_statement_proved : C17_full_statement.
Check C17_full_statement_proved : forall (value : Type) (obj_at : bytes -> N -> res value) (member : bytes -> value -> N -> res value)
    (shift : N -> value -> value) (p f : bytes),
  (forall pos, obj_at (p ++ f) (lenN p + pos) = rmap (shift (lenN p)) (obj_at f pos)) ->
  (forall v i, member (p ++ f) (shift (lenN p) v) i = rmap (shift (lenN p)) (member f v i)) ->
  lenN (p ++ f) < usize_max ->
  forall t fuel id,
  resolve_ref value obj_at member fuel (p ++ f) (lenN p) t id
  = rmap (shift (lenN p)) (resolve_ref value obj_at member fuel f 0 t id).
Check C17_resolve_no_panic : forall (value : Type) (obj_at : bytes -> N -> res value) (member : bytes -> value -> N -> res value),
  (forall fl pos, no_panic (obj_at fl pos) \/ obj_at fl pos = OutOfFuel) ->
  (forall fl v i, no_panic (member fl v i) \/ member fl v i = OutOfFuel) ->
  forall fuel file start t id,
  match resolve_ref value obj_at member fuel file start t id with Panic _ => False | _ => True end.
Check C17_lexer_position : forall d s, next_word (shift_lx d s) = rmap (shift_word d) (next_word s).
Check C17_parser_position : forall d fuel R cx flags depth s,
  parse_fuel fuel R cx flags depth (shift_lx d s) = rmap (shift_pv d) (parse_fuel fuel R cx flags depth s).
Check C17_xref_at_prefix : forall (R : resolver) (tid : dict -> N) (p f : bytes),
  (forall e, tid (shift_dict (lenN p) e) = tid e) ->
  forall pos, xref_at_tables R tid (p ++ f) (lenN p + pos) = xref_at_tables R tid f pos.
Check C17_obj_at_prefix : forall (R : resolver) (p f : bytes) allow flags pos,
  obj_at_parse R allow flags (p ++ f) (lenN p + pos) = rmap (shift_prim (lenN p)) (obj_at_parse R allow flags f pos).
Check C17_tables_invariant : forall (R : resolver) (tid : dict -> N) allow flags (p f : bytes),
  (forall e, tid (shift_dict (lenN p) e) = tid e) ->
  lenN (p ++ f) < usize_max ->
  starts_with xr_header f = true -> find_sub xr_header p = None -> lenN p + lenN xr_header <= xr_header_window ->
  (forall s t i, load (xref_at_tables R tid) f = Ok (s, t, i) -> s = 0 /\ load (xref_at_tables R tid) (p ++ f) = Ok (lenN p, t, i)) /\
  (forall t fuel id,
     resolve_ref prim (obj_at_parse R allow flags) (fun _ _ _ => Err E_OTHER) fuel (p ++ f) (lenN p) t id
     = rmap (shift_prim (lenN p)) (resolve_ref prim (obj_at_parse R allow flags) (fun _ _ _ => Err E_OTHER) fuel f 0 t id)).
Check C17_resolve_latest_prefixed : forall R tid allow (p file : bytes) (h : history) secss q0 secs0 d0 older size,
  (forall e, tid (shift_dict (lenN p) e) = tid e) ->
  find_sub xr_header p = None -> lenN p + lenN xr_header <= xr_header_window -> lenN (p ++ file) < usize_max ->
  Forall2 represents secss h -> wf_history h ->
  map snd ((q0, secs0) :: older) = rev secss ->
  starts_with xr_header file = true -> startxref_at file q0 ->
  section_at file q0 secs0 d0 -> t_size (tinfo_of tid d0) = Some size -> size <= xr_max_id ->
  chain_at tid file 0 (t_prev (tinfo_of tid d0)) older -> NoDup (map fst older) ->
  (forall n g pos, latest h n = Some (Direct g pos) -> exists v, object_at file pos n g v) ->
  (forall n s i, latest h n <> Some (Compressed s i)) ->
  exists t, load (xref_at_tables R tid) (p ++ file) = Ok (lenN p, t, tid d0) /\
    forall n fuel, n < size ->
      stored_shifted (lenN p) file n (latest h n)
        (resolve_ref prim (obj_at_parse R allow F_ANY) (fun _ _ _ => Err E_OTHER) (S fuel) (p ++ file) (lenN p) t n).
