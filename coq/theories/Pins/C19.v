(** Pins/C19.v — the statements of the C19 theorems, pinned: weakening a statement in
    Properties/C19.v makes this file fail. *)
From Coq Require Import Sorted.
From PdfV Require Import Base.Prelude Gen.Generated Font.Model Font.Spec Font.WidthProofs Font.UtfProofs Font.CmapProofs Font.WriterProofs Font.LexEq Font.SpellProofs Properties.C19.

Check C19_get_set : forall w c x, exists w', _set w c x = Ok w' /\
  forall c', get w' c' = if c' =? c then x else get w c'.
Check C19_set_ok : forall w c x, exists w', set w c x = Ok w' /\ w_default w' = w_default w /\
  forall c', get w' c' = if c' =? c then x else get w c'.
Check C19_cid_widths : forall gs dw, wf_groups gs ->
  exists w, cid_widths dw (render_groups gs) = Ok w /\ forall c, get w c = w_spec gs dw c.
Check C19_cid_widths_last_wins : forall gs dw, Forall wf_group gs ->
  exists w, cid_widths dw (render_groups gs) = Ok w /\ forall c, get w c = w_spec (rev gs) dw c.
Check C19_widths_no_panic : forall dw items, clean (cid_widths dw items).
Check C19_type0_no_panic : forall (A : Type) (ds : list A) f, (forall d, clean (f d)) -> clean (type0_widths ds f).
Check C19_simple_widths : forall first ws missing c, (0 <= first)%Z ->
  exists w, simple_widths (Some first) (Some ws) missing = Some w /\
    get w c = simple_spec (Z.to_N first) ws (match missing with Some d => d | None => 0 end) c.
Check C19_utf16_rt : forall u, forallb is_scalar u = true -> utf16be_to_string (utf16be_bytes u) = Ok u.
Check C19_cmap_read : forall t, wf_cmap t -> parse_cmap (render_cmap t) = Ok (cmap_denote t).
Check C19_cmap_rt : forall m : cmap, (forall e, In e m -> fst e < 65536 /\ wf_ustr (snd e)) ->
    StronglySorted (fun a b => fst a < fst b) m ->
    exists t, write_cmap m = Ok t /\ parse_cmap t = Ok m.
Check C19_cmap_write : forall m : cmap, Forall wf_entry m -> StronglySorted key_lt m ->
  exists t, write_cmap m = Ok (render_cmap t) /\ wf_cmap t /\ cmap_denote t = m.
Check C19_cmap_rt_created : forall l, Forall wf_entry l ->
  exists t, write_cmap (map_create l) = Ok t /\ parse_cmap t = Ok (map_create l).
Check C19_cmap_read_spelled : forall t s, sp_text t s -> parse_cmap s = Ok (cmap_denote t).
Check C19_lexer_shared : forall s p,
  Font.Model.next_word s = proj_word (PdfV.Lex.Lexer.next_word (PdfV.Lex.Lexer.mkLx p s)).
Check C19_hexstr_shared : forall l,
  match PdfV.Lex.StrLexer.hexstring_lex l with
  | Ok (b, n) => hexstr None l = Ok (b, skipn (N.to_nat n) l)
  | Err _ => exists e, hexstr None l = Err e
  | Panic _ => False
  | OutOfFuel => False
  end.
Check C19_simple_widths_any : forall first ws missing c,
  exists w, simple_widths (Some first) ws missing = Some w /\
    get w c = simple_spec (i32_as_usize first) (match ws with Some l => l | None => [] end)
                          (match missing with Some d => d | None => 0 end) c.
Check C19_simple_widths_negative : forall first ws missing c, (-2147483648 <= first < 0)%Z -> c < 18446744071562067968 ->
  exists w, simple_widths (Some first) ws missing = Some w /\ get w c = match missing with Some d => d | None => 0 end.
