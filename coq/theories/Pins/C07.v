(** Pins/C07.v — the statements of the C07 theorems, pinned: weakening a statement in Properties/C07.v makes this file fail. *)
From PdfV Require Import Base.Prelude Gen.Generated PageTree.Model PageTree.Spec PageTree.Proofs PageTree.Examples Properties.C07.

Check C07_page :
  forall st fuel id a c kids i,
  let t := Node id a c kids in
  stored st None t -> accurate t -> acyclic t ->
  (theight t <= N.to_nat page_depth)%nat -> (theight t < fuel)%nat -> i <= u32_max ->
  exists rt, load_root st fuel id = Ok rt /\ num_pages rt = lenN (leaves t) /\
    match nth_error (leaves t) (N.to_nat i) with
    | Some (lid, la, lanc) => exists p, get_page st fuel rt i = Ok (lid, LNLeaf la p) /\ chain_attrs p = lanc
    | None => get_page st fuel rt i = Err EPageOutOfBounds
    end.

Check C07_count :
  forall st fuel id a c kids,
  let t := Node id a c kids in
  stored st None t -> accurate t -> acyclic t ->
  (theight t <= N.to_nat page_depth)%nat -> (theight t < fuel)%nat ->
  exists rt, load_root st fuel id = Ok rt /\ num_pages rt = lenN (leaves t).

Check C07_pages :
  forall st fuel id a c kids,
  let t := Node id a c kids in
  stored st None t -> accurate t -> acyclic t ->
  (theight t <= N.to_nat page_depth)%nat -> (theight t < fuel)%nat -> c <= u32_max ->
  exists rt, load_root st fuel id = Ok rt /\
    Forall2 (fun r l => match l with (lid, la, lanc) =>
                          exists p, r = Ok (lid, LNLeaf la p) /\ chain_attrs p = lanc end)
            (pages st fuel rt) (leaves t).

Check C07_inherit :
  forall a p,
  media_box a p = spec_media_box (a :: chain_attrs p) /\
  crop_box a p = spec_crop_box (a :: chain_attrs p) /\
  resources a p = spec_resources (a :: chain_attrs p).

Check C07_depth_budget :
  12 <= page_depth.

Check C07_keys :
  pagetree_keys = [ ([80;97;114;101;110;116], [112;97;114;101;110;116]);
                    ([75;105;100;115], [107;105;100;115]);
                    ([67;111;117;110;116], [99;111;117;110;116]);
                    ([82;101;115;111;117;114;99;101;115], [114;101;115;111;117;114;99;101;115]);
                    ([77;101;100;105;97;66;111;120], [109;101;100;105;97;95;98;111;120]);
                    ([67;114;111;112;66;111;120], [99;114;111;112;95;98;111;120]) ] /\
  page_inh_keys = [ ([80;97;114;101;110;116], [112;97;114;101;110;116]);
                    ([82;101;115;111;117;114;99;101;115], [114;101;115;111;117;114;99;101;115]);
                    ([77;101;100;105;97;66;111;120], [109;101;100;105;97;95;98;111;120]);
                    ([67;114;111;112;66;111;120], [99;114;111;112;95;98;111;120]) ] /\
  pagesnode_types = [ ([80;97;103;101], 0); ([80;97;103;101;115], 1) ] /\
  num_pages_field = [116;114;97;105;108;101;114;46;114;111;111;116;46;112;97;103;101;115;46;99;111;117;110;116] /\
  page_pos_init = 0 /\ page_leaf_step = 1 /\ page_depth_step = 1.

Check C07_no_panic :
  forall st root i, i <= u32_max ->
  no_panic (load_root st (S (length st)) root) /\
  forall rt, no_panic (get_page st (S (length st)) rt i).

Check C07_full : forall st fuel id a c kids i,
  let t := Node id a c kids in
  stored st None t -> accurate t -> acyclic t ->
  (theight t <= N.to_nat page_depth)%nat -> (theight t < fuel)%nat -> i <= u32_max ->
  exists rt, load_root st fuel id = Ok rt /\
    match nth_error (leaves t) (N.to_nat i) with
    | Some (lid, la, lanc) =>
      exists p, get_page st fuel rt i = Ok (lid, LNLeaf la p) /\
                media_box la p = spec_media_box (la :: lanc) /\
                crop_box la p = spec_crop_box (la :: lanc) /\
                resources la p = spec_resources (la :: lanc)
    | None => get_page st fuel rt i = Err EPageOutOfBounds
    end.
