From PdfV Require Import Base.Prelude Base.DecProofs Gen.Generated Lex.Lexer Lex.StrLexer Lex.LexProofs Lex.StrProofs
  Syn.Prim Syn.Utf8 Syn.Parser Syn.Serialize Syn.Spells Syn.ParserProofs Syn.NameProofs Syn.RenderProofs Syn.SerProofs Syn.NumSerProofs Syn.StreamProofs Syn.IndirectSerProofs Syn.StreamSerProofs Properties.C04.
Check C04_ser_spells : forall v, storable v ->
  exists core, ser v = Ok (core ++ trail v) /\ spells v (items_of v) /\
    forall tl, boundary tl -> renders (items_of v) (core ++ trail v ++ tl) (trail v ++ tl).
Check C04_roundtrip : forall v, storable v -> vdepth v <= MAX_DEPTH ->
  forall R cx tl, boundary tl ->
  exists core, ser v = Ok (core ++ trail v) /\
    (follow_ok [] (mkLx (lenN core) (trail v ++ tl)) -> nostream_at [] (mkLx (lenN core) (trail v ++ tl)) ->
     parse_ctx R cx F_ANY MAX_DEPTH (mkLx 0 ((core ++ trail v) ++ tl)) = Ok (v, mkLx (lenN core) (trail v ++ tl))).
Check C04_roundtrip_eof : forall v, storable v -> vdepth v <= MAX_DEPTH -> forall R,
  exists b, ser v = Ok b /\ parse R F_ANY b = Ok v.
Check C04_ser_no_panic : forall v s, ser v <> Panic s.
Check C04_indirect_body : forall v id gen,
  storable v -> vdepth v <= MAX_DEPTH -> id < 18446744073709551616 -> gen < 18446744073709551616 ->
  forall R allow rest p,
  exists body, ser v = Ok body /\
    parse_indirect_object R allow F_ANY (mkLx p (obj_text id gen body rest)) =
      Ok (id, gen, v, mkLx (p + lenN (obj_text id gen body rest) - lenN ([10] ++ rest)) ([10] ++ rest)).
Check C04_stream : forall d data id gen,
  NoDup (keys d) -> entries_storable d -> 1 + ddepth d <= MAX_DEPTH ->
  id < 18446744073709551616 -> gen < 18446744073709551616 ->
  forall R, length_entry R d (lenN data) ->
  forall allow rest p,
  exists body st s_end,
    ser (PStreamData d data) = Ok body /\
    parse_indirect_object R allow F_ANY (mkLx p (obj_text id gen body rest)) = Ok (id, gen, PStream d id gen st (lenN data), s_end) /\
    p <= st /\ take (lenN data) (drop (st - p) (obj_text id gen body rest)) = data /\
    lrest s_end = [10] ++ rest.
Check C04_numbers_normal : forall v, holdable v -> storable (norm v) /\ ser (norm v) = ser v.
Check C04_roundtrip_holdable : forall v, holdable v -> vdepth (norm v) <= MAX_DEPTH -> forall R,
  exists b, ser v = Ok b /\ parse R F_ANY b = Ok (norm v).
