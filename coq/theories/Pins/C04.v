From PdfV Require Import Base.Prelude.
