(** Pins/C15.v — the statements of the C15 theorems, pinned. *)
From PdfV Require Import Base.Prelude Gen.Generated Typed.Prim Typed.Schema Typed.Derive Typed.Hand
  Typed.DictProofs Typed.DeriveProofs Typed.HandProofs Properties.C15.

Check C15_value_rt : forall SC H allow E (hand_ok : N -> value -> Prop),
  (forall i x p, hand_ok i x -> h_write H i x = TOk p ->
     exists x', h_read H i (resolve E) p = TOk x' /\ h_write H i x' = TOk p) ->
  forall f chain t v p, val_ok SC H allow E hand_ok f chain t v -> write SC H f t v = TOk p ->
  exists v', read SC H allow E f chain t p = TOk v' /\ write SC H f t v' = TOk p.
Check C15_dict_rt : forall SC H f i s vs dw k,
  get_struct SC i = Some s -> schema_wf s = true ->
  write SC H (S f) (TStruct i) (VStruct vs) = TOk (PDict dw) ->
  key_fresh k (s_fields s) = true -> beqb k TypeKey = false ->
  forallb (fun c => negb (beqb k (fst c))) (s_checks s) = true ->
  dget k dw = dget k (other_of (s_fields s) vs).
Check C15_generated_wf :
  forallb (fun s => negb (rw s) || has_indirect s || schema_wf s) (structs gen_schemas) = true.
Check C15_generated_value_rt : forall allow E f chain t v p,
  val_ok gen_schemas hands allow E hand_ok f chain t v -> write gen_schemas hands f t v = TOk p ->
  exists v', read gen_schemas hands allow E f chain t p = TOk v' /\ write gen_schemas hands f t v' = TOk p.
Check C15_hand_Rectangle : forall rs v p, write_numbers 4 v = TOk p ->
  exists v', read_rectangle rs p = TOk v' /\ write_numbers 4 v' = TOk p.
Check C15_hand_Matrix : forall v p, write_numbers 6 v = TOk p ->
  exists v', read_matrix p = TOk v' /\ write_numbers 6 v' = TOk p.
