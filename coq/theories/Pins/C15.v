(** Pins/C15.v — the statements of the C15 theorems, pinned. *)
From PdfV Require Import Base.Prelude Gen.Generated Typed.Prim Typed.Schema Typed.Derive Typed.Hand
  Typed.DictProofs Typed.DeriveProofs Typed.HandProofs Typed.ReadProofs Typed.TopProofs Typed.EncodingProofs Properties.C15.

Check C15_value_rt : forall SC H allow E (hand_ok : N -> value -> Prop),
  (forall i x p, hand_ok i x -> h_write H i x = TOk p ->
     exists x', h_read H i (resolve E) p = TOk x' /\ h_write H i x' = TOk p) ->
  forall f chain t v p, val_ok SC H allow E hand_ok f chain t v -> write SC H f t v = TOk p ->
  exists v', read SC H allow E f chain t p = TOk v' /\ write SC H f t v' = TOk p.
Check C15_dict_rt : forall SC H f i s vs dw k,
  get_struct SC i = Some s -> schema_wf s = true ->
  write SC H (S f) (TStruct i) (VStruct vs) = TOk (PDict dw) ->
  key_fresh k (s_fields s) = true -> beqb k TypeKey = false ->
  forallb (fun c => negb (beqb k (fst c))) (s_checks s) = true ->
  dget k dw = dget k (other_of (s_fields s) vs).
Check C15_generated_wf :
  forallb (fun s => negb (rw s) || has_indirect s || schema_wf s) (structs gen_schemas) = true.
Check C15_generated_value_rt : forall allow E f chain t v p,
  val_ok gen_schemas hands allow E hand_ok f chain t v -> write gen_schemas hands f t v = TOk p ->
  exists v', read gen_schemas hands allow E f chain t p = TOk v' /\ write gen_schemas hands f t v' = TOk p.
Check C15_hand_Rectangle : forall rs v p, write_numbers 4 v = TOk p ->
  exists v', read_rectangle rs p = TOk v' /\ write_numbers 4 v' = TOk p.
Check C15_hand_Matrix : forall rs v p, write_numbers 6 v = TOk p ->
  exists v', read_matrix rs p = TOk v' /\ write_numbers 6 v' = TOk p.
Check C15_hand_Date : forall rs v p, write_date v = TOk p ->
  exists v', read_date rs p = TOk v' /\ write_date v' = TOk p.
Check C15_dict_rt_read : forall SC H allow E f chain i s d vs dw,
  get_struct SC i = Some s -> schema_wf s = true -> existsb f_other (s_fields s) = true -> nodup_keys d ->
  read SC H allow E (S f) chain (TStruct i) (PDict d) = TOk (VStruct vs) ->
  write SC H (S f) (TStruct i) (VStruct vs) = TOk (PDict dw) ->
  (forall k v, key_fresh k (s_fields s) = true -> dget k d = Some v -> dget k dw = Some v)
  /\
  (forall fd q, In fd (s_fields s) -> normal fd = true -> dget (f_key fd) d = Some q ->
     exists x val, read SC H allow E f chain (f_ty fd) q = TOk x /\ write SC H f (f_ty fd) x = TOk val
                   /\ dget (f_key fd) dw = (if is_null val then None else Some val))
  /\
  (forall k val, dget k dw = Some val -> dget k d = None ->
     (k = TypeKey /\ val = PName (s_type s))
     \/ (exists n, In (k, n) (s_checks s) /\ val = PName n)
     \/ exists fd x, In fd (s_fields s) /\ normal fd = true /\ k = f_key fd /\ write SC H f (f_ty fd) x = TOk val /\
          (match f_default fd with
           | DNone => read SC H allow E f chain (f_ty fd) PNull = TOk x
           | dv => exists acc, x = default_value dv acc
           end)).
Check C15_top_rt : forall SC H allow E1 (hand_ok : N -> value -> Prop),
  (forall i x p, hand_ok i x -> h_write H i x = TOk p ->
     exists x', h_read H i (resolve E1) p = TOk x' /\ h_write H i x' = TOk p) ->
  forall F E0 i s vs dw,
  get_struct SC i = Some s -> schema_wf_top s = true ->
  (forall fd, In fd (s_fields s) -> normal fd = true -> dget (f_key fd) (other_of (s_fields s) vs) = None) ->
  write_top SC H F E0 i (VStruct vs) = TOk (PDict dw, E1) ->
  top_ok SC H allow E1 hand_ok F (s_fields s) vs (lenN E0) ->
  (3 <= F)%nat ->
  exists vs', read SC H allow E1 (S F) [] (TStruct i) (PDict dw) = TOk (VStruct vs')
    /\ exists dw' E2, write_top SC H F E1 i (VStruct vs') = TOk (PDict dw', E2)
         /\ (exists X, E2 = E1 ++ X) /\ sim_dict E2 dw dw'.
Check C15_top_rt_maybe_ref : forall SC H allow E1 (hand_ok : N -> value -> Prop),
  (forall i x p, hand_ok i x -> h_write H i x = TOk p ->
     exists x', h_read H i (resolve E1) p = TOk x' /\ h_write H i x' = TOk p) ->
  forall F E0 i s vs dw,
  get_struct SC i = Some s -> schema_wf_top s = true ->
  (forall fd, In fd (s_fields s) -> normal fd = true -> dget (f_key fd) (other_of (s_fields s) vs) = None) ->
  write_top SC H F E0 i (VStruct vs) = TOk (PDict dw, E1) ->
  top_ok SC H allow E1 hand_ok F (s_fields s) vs (lenN E0) ->
  maybe_ref_only s = true ->
  exists vs', read SC H allow E1 (S F) [] (TStruct i) (PDict dw) = TOk (VStruct vs')
    /\ write_top SC H F E1 i (VStruct vs') = TOk (PDict dw, E1).
Check C15_generated_top_wf : forallb (fun s => negb (rw s) || schema_wf_top s) (structs gen_schemas) = true.

Check C15_hand_Action : forall rs v p, action_ok v -> write_action v = TOk p ->
  exists v', read_action rs p = TOk v' /\ write_action v' = TOk p.
Check C15_hand_Encoding : forall rs b m, base_ok b -> codes_ok 0 m = true ->
  exists p, write_encoding (enc_value b m) = TOk p
    /\ read_encoding rs p = TOk (enc_value b m)
    /\ (m <> [] -> exists bp, write_base_encoding b = TOk bp /\
                    p = PDict [(k_BaseEncoding, bp); (k_Differences, PArr (run_form (group m)))])
    /\ (m = [] -> write_base_encoding b = TOk p)
    /\ expand (group m) = m /\ maximal (group m).
Check C15_hand_NameTree : forall rs v p, write_nametree v = TOk p -> read_nametree rs p = TOk v.
