(** Pins/C13.v — the statements of the C13 theorems, pinned. *)
From PdfV Require Import Base.Prelude Gen.Generated Cache.Model Cache.Conc Cache.Proofs Cache.ConcProofs Cache.ConcLink Cache.Tables Properties.C13.

Check C13_per_thread_chain : forall c prog cells rank,
  per_thread c = true -> acyclic prog rank -> conc_statement c prog cells (lazy_seq cells (D prog rank)).
Check C13_completion : forall c prog cells rank progs sched fuel,
  per_thread c = true -> acyclic prog rank ->
  state_ok c (lazy_seq cells (D prog rank)) progs
           (complete c prog cells fuel (length progs) (run_sched c prog cells (ginit cells progs) sched)).
Check C13_terminates : forall c prog cells rank progs sched,
  per_thread c = true -> acyclic prog rank ->
  exists fuel, all_finished (complete c prog cells fuel (length progs)
                                      (run_sched c prog cells (ginit cells progs) sched)) (length progs) = true.
Check C13_sequential_answer :
  forall (prog : tytag -> ref -> comp) (filters : ref -> list filt) (raw : ref -> outcome)
         (appf : filt -> val -> outcome) (imgc : ref -> filt -> val -> outcome)
         (rank : ref -> nat) (oc sc : bool) (fuel : nat) (history : list call) (ty : tytag) (r : ref),
    acyclic prog rank -> fuel_ok rank fuel history -> (rank r < fuel)%nat ->
    let st := final_state prog filters raw appf imgc oc sc fuel history init in
    fst (get (cfg_fixed oc sc) prog fuel [] ty r st) = D prog rank ty r /\
    fst (get no_cache prog fuel [] ty r init) = D prog rank ty r.
Check C13_answers_alone : forall c prog cells rank progs sched fuel t,
  per_thread c = true -> acyclic prog rank ->
  (forall cl, In cl (nth t progs []) -> (rank (item_ref cells cl) < fuel)%nat) ->
  let g := run_sched c prog cells (ginit cells progs) sched in
  let alone := call_ans (lazy_seq cells (fun ty r => fst (get no_cache prog fuel [] ty r init))) in
  (exists k, results (threads g t) = map alone (firstn k (nth t progs []))) /\
  (finished g t = true -> results (threads g t) = map alone (nth t progs [])).
(* the shape of the statement: typed calls, typed expected answers, any number of threads and calls *)
Check (eq_refl : conc_statement = fun c prog cells seq =>
  forall (progs : list (list tcall)) (sched : list tid),
    state_ok c seq progs (run_sched c prog cells (ginit cells progs) sched)).
Check (eq_refl : lazy_seq = fun (cells : N -> tcall) (seq : tytag -> ref -> outcome) (ty : tytag) (r : ref) =>
  if ty =? LAZY then seq (fst (cells r)) (snd (cells r)) else seq ty r).
Check (eq_refl : item_ref = fun (cells : N -> tcall) (cl : tcall) => if fst cl =? LAZY then snd (cells (snd cl)) else snd cl).
Check (eq_refl : finished = fun g t => match stack (threads g t), todo (threads g t) with [], [] => true | _, _ => false end).
Check C13_cell_once : forall c prog cells rank progs sched1 sched2 i o,
  per_thread c = true -> acyclic prog rank ->
  let g1 := run_sched c prog cells (ginit cells progs) sched1 in
  cellst g1 i = CFull o ->
  o = D prog rank (fst (cells i)) (snd (cells i)) /\
  cellst (run_sched c prog cells g1 sched2) i = CFull o.
Check (eq_refl : state_ok = fun c (seq : tytag -> ref -> outcome) (progs : list (list tcall)) g =>
  aborted g = false /\ (forall rs, poisoned g rs = false) /\
  (forall t, prefix_ok seq (nth t progs []) (results (threads g t))) /\
  (forall t, finished g t = true -> results (threads g t) = map (call_ans seq) (nth t progs [])) /\
  deadlocked c g (length progs) = false).
Check (eq_refl : call_ans = fun (seq : tytag -> ref -> outcome) (cl : tcall) => seq (fst cl) (snd cl)).
Check (eq_refl : tcall = (tytag * ref)%type).
Check C13_full_refuted : ~ C13_full_statement.
Check C13_refuted_shared_chain : exists prog progs sched,
  let c := mkCcfg true false false in
  let g := complete c prog no_cells 100 (length progs) (run_sched c prog no_cells (ginit no_cells progs) sched) in
  results (threads g 1%nat) = [Err E_OTHER] /\
  (forall fuel, fst (get no_cache prog (S fuel) [] 0 1 init) = Ok 5).
Check C13_refuted_pop_assert : exists prog progs sched,
  let c := mkCcfg true false false in
  let g := complete c prog no_cells 100 (length progs) (run_sched c prog no_cells (ginit no_cells progs) sched) in
  poisoned g 0 = true /\ results (threads g 0%nat) = [Panic 1] /\ results (threads g 1%nat) = [Panic 1].
Check C13_refuted_abort : exists prog progs sched,
  let c := mkCcfg true false false in
  aborted (complete c prog no_cells 100 (length progs) (run_sched c prog no_cells (ginit no_cells progs) sched)) = true.
Check C13_cyclic_deadlock : exists prog progs sched,
  let c := mkCcfg true true true in
  deadlocked c (complete c prog no_cells 100 (length progs) (run_sched c prog no_cells (ginit no_cells progs) sched)) (length progs) = true.
Check C13_chain_table : cache_chain_per_thread = true.
Check (eq_refl : C13_full_statement = conc_full_statement).
Check (eq_refl : conc_full_statement = (forall c prog cells fuel, conc_statement c prog cells (lazy_seq cells (fun ty r => fst (get no_cache prog fuel [] ty r init))))).
Check C13_serving_cached_errors_refuted : forall k : N, In k error_kinds ->
  let serve := fun e : N => e =? k in
  let prog := kind_prog k in
  let c := mkCcfg true true true in
  let g := fold_left (step_gen c prog no_cells serve) [0; 0; 1; 1; 0; 0; 0; 1; 1; 1; 1; 1]%nat (ginit no_cells [[(1, 3)]; [(2, 3)]]) in
  acyclic prog (fun _ => O) /\ finished g 1%nat = true /\
  results (threads g 1%nat) = [Err k] /\ fst (get no_cache prog 2 [] 2 3 init) = Ok 7.
Check (eq_refl : step = fun c prog cells => step_gen c prog cells (fun _ => false)).
Check (eq_refl : error_kinds = [1; 2; 3; 4; 5; 6; 7; 8; 9; 10; 11]).
