(** Pins/C13.v — the statements of the C13 theorems, pinned. *)
From PdfV Require Import Base.Prelude Gen.Generated Cache.Model Cache.Conc Cache.ConcProofs Cache.ConcLink Cache.Tables Properties.C13.

Check C13_per_thread_chain : forall c prog rank,
  per_thread c = true -> acyclic1 prog rank -> conc_statement c prog (D1 prog rank).
Check C13_completion : forall c prog rank progs sched fuel,
  per_thread c = true -> acyclic1 prog rank ->
  state_ok c (D1 prog rank) progs (complete c prog fuel (length progs) (run_sched c prog (ginit progs) sched)).
Check C13_terminates : forall c prog rank progs sched,
  per_thread c = true -> acyclic1 prog rank ->
  exists fuel, all_finished (complete c prog fuel (length progs) (run_sched c prog (ginit progs) sched)) (length progs) = true.
Check C13_sequential_answer : forall (prog : ref -> comp) (rank : ref -> nat) (oc sc : bool) (fuel : nat)
    (r : ref) (o : outcome) (st' : state),
  acyclic1 prog rank -> (rank r < fuel)%nat ->
  get (cfg_fixed oc sc) (fun _ => prog) fuel [] 0 r init = (o, st') -> o = D1 prog rank r.
Check C13_full_refuted : ~ C13_full_statement.
Check C13_refuted_shared_chain : exists prog progs sched,
  let c := mkCcfg true false false in
  let g := complete c prog 100 (length progs) (run_sched c prog (ginit progs) sched) in
  results (threads g 1%nat) = [Err E_OTHER] /\
  (forall fuel, fst (get no_cache (fun _ => prog) (S fuel) [] 0 1 init) = Ok 5).
Check C13_refuted_pop_assert : exists prog progs sched,
  let c := mkCcfg true false false in
  let g := complete c prog 100 (length progs) (run_sched c prog (ginit progs) sched) in
  poisoned g 0 = true /\ results (threads g 0%nat) = [Panic 1] /\ results (threads g 1%nat) = [Panic 1].
Check C13_refuted_abort : exists prog progs sched,
  let c := mkCcfg true false false in
  aborted (complete c prog 100 (length progs) (run_sched c prog (ginit progs) sched)) = true.
Check C13_cyclic_deadlock : exists prog progs sched,
  let c := mkCcfg true true true in
  deadlocked c (complete c prog 100 (length progs) (run_sched c prog (ginit progs) sched)) (length progs) = true.
Check C13_chain_table : cache_chain_per_thread = true.
Check (eq_refl : C13_full_statement = conc_full_statement).
Check (eq_refl : conc_full_statement = (forall c prog fuel, conc_statement c prog (fun r => fst (get no_cache (fun _ => prog) fuel [] 0 r init)))).
