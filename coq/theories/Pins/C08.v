(** Pins/C08.v — the statements of the C08 theorems, pinned. *)
From PdfV Require Import Base.Prelude Gen.Generated Content.Model Content.Canon Content.Proofs Content.TableProofs Content.Bytes Content.BytesProofs Properties.C08.

Check C08_roundtrip_tokens : forall ops, accepted ops ->
  exists ts, ser_toks ops = Ok ts /\ parse_ops_toks ts = Ok ops.
Check C08_roundtrip : forall lex ops, accepted ops -> lex_reads_back lex ops ->
  forall b, ser_ops ops = Ok b -> parse_ops lex b = Ok ops.
Check C08_roundtrip_bytes : forall img ops, accepted ops -> writable ops ->
  forall b, ser_ops ops = Ok b -> parse_bytes_with img b = Ok ops.
Check C08_lex_reads_back : forall img ts b,
  toks_okb ts = true -> render_toks ts = Ok b -> parse_bytes_with img b = parse_ops_toks ts.
Check C08_ser_defined : forall ops, accepted ops -> writable ops -> exists b, ser_ops ops = Ok b.
Check C08_cur_point_sync :
  sync None (fst st0) /\
  forall cur last o rest args k cur2 n,
    op_okb o = true -> td_okb o rest = true -> sync cur last ->
    ser_head cur o rest = Ok (args, k, cur2, n) ->
    exists last2, add k args (last, false) = (o :: firstn n rest, Ok (last2, false)) /\ sync cur2 last2.
Check C08_writer_current_point :
  below None None /\
  (forall cur (st : option point * option point) o rest args k cur2 n,
     below cur (fst st) -> ser_head cur o rest = Ok (args, k, cur2, n) ->
     below cur2 (fst (fold_left iso_cp_step (o :: firstn n rest) st))) /\
  (forall cur (st : option point * option point) c1 c2 p rest args cur2 n,
     below cur (fst st) -> ser_head cur (OCurveTo c1 c2 p) rest = Ok (args, Kv, cur2, n) ->
     exists q, fst st = Some q /\ pt_eqb c1 q = true /\ args = num2 c2 ++ num2 p).
Check C08_table_yields : forall kw, In kw iso_keywords -> existsb (beqb kw) silent_ok = false ->
  is_d0_d1 kw = false -> yields kw = true.
Check C08_table_d0_d1_refuted : ~ C08_table_full_statement.
Check C08_table_Tr : forall m, m < 8 -> forall st, pushed KTr [PInt (Z.of_N m)] st = [OTextRenderMode m].
Check C08_no_leak_buffer : forall st buf w args r, beqb w (kw_name KBI) = false ->
  parse_toks st buf None (TWord w :: List.map TObj args ++ r) =
  match add_word w buf st with
  | (pushed, Ok st') => do rest <- parse_toks st' args None r; Ok (pushed ++ rest)
  | (pushed, Err _) => do rest <- parse_toks st args None r; Ok (pushed ++ rest)
  | (_, Panic s) => Panic s
  | (_, OutOfFuel) => OutOfFuel
  end.
Check C08_keywords_cover_iso :
  forallb (fun kw => existsb (beqb kw) (List.map fst op_read_table) &&
                     match lookup_kw kw with Some _ => true | None => false end) iso_keywords = true.
Check C08_reader_matches_source : forallb check_read_entry op_read_table = true.
Check C08_writer_reader_agree :
  forallb check_write_entry op_write_table = true /\
  forallb (fun i => existsb (fun e : N * (list N * (bytes * (list N * N))) => fst e =? i) op_write_table)
          (seqN 0 (length op_ctor_names)) = true.
Check C08_inline_abbreviations :
  same_map iso_inline_keys inline_key_abbr && same_map iso_inline_cs inline_cs_abbr &&
  same_map iso_inline_filters inline_filter_abbr = true.
(* the domain of the round trip cannot be narrowed silently *)
Check eq_refl : seq_okb demo_ops = true.
Check eq_refl : writableb demo_ops = true.
