From PdfV Require Import Base.Prelude Properties.C08.
