(** Syn/RenderProofs.v — from bytes to items (C03, assembly): a text made of separators and tokens lexes to
    its item sequence, so that the parser theorem of ParserProofs.v applies to concrete byte strings. *)
From PdfV Require Import Base.Prelude Gen.Generated Lex.Lexer Lex.StrLexer Lex.LexProofs Syn.Prim Syn.Parser Syn.Spells Syn.ParserProofs.

(* [renders its text tl]: [text] consists of the items [its], each preceded by any white-space/comments,
   followed by the unconsumed remainder [tl].  Tokens that end in a regular character must be followed by
   a non-regular character or the end of the text ([boundary]). *)
Inductive renders : list item -> bytes -> bytes -> Prop :=
| rn_nil tl : renders [] tl tl
| rn_reg sp w its text tl :
    sep sp -> w <> [] -> Forall (fun b => is_reg b = true) w -> boundary text ->
    renders its text tl -> renders (IWord w :: its) (sp ++ w ++ text) tl
| rn_name sp enc its text tl :
    sep sp -> Forall (fun b => is_reg b = true) enc -> boundary text ->
    renders its text tl -> renders (IWord (SLASH :: enc) :: its) (sp ++ (SLASH :: enc) ++ text) tl
| rn_delim1 sp d its text tl :
    sep sp -> is_delim d = true -> (d =? SLASH) = false -> (d =? lex_comment) = false ->
    (d =? LPAREN) = false -> (d =? LT) = false ->
    match text with b2 :: _ => ((d =? GT) && (b2 =? GT)) = false | [] => True end ->
    renders its text tl -> renders (IWord [d] :: its) (sp ++ d :: text) tl
| rn_delim2 sp d its text tl :
    sep sp -> d = LT \/ d = GT ->
    renders its text tl -> renders (IWord [d; d] :: its) (sp ++ d :: d :: text) tl
| rn_str sp body bs its text tl :
    sep sp -> string_lex (body ++ text) = Ok (bs, lenN body) ->
    renders its text tl -> renders (IStr bs :: its) (sp ++ LPAREN :: body ++ text) tl
| rn_hex sp body bs its text tl :
    sep sp -> hexstring_lex (body ++ text) = Ok (bs, lenN body) ->
    match body ++ text with b :: _ => (b =? LT) = false | [] => True end ->
    renders its text tl -> renders (IHex bs :: its) (sp ++ LT :: body ++ text) tl.

Lemma drop_app_exact {A} (a b : list A) : drop (lenN a) (a ++ b) = b.
Proof.
  unfold drop, lenN. rewrite Nat2N.id. induction a as [|x a IH]; [reflexivity|exact IH].
Qed.

Lemma next_of_next_word s tok st s' : next_word s = Ok (tok, st, s') -> next s = Ok (tok, s').
Proof. intros H. unfold next. rewrite H. reflexivity. Qed.

Lemma lenN_app {A} (a b : list A) : lenN (a ++ b) = lenN a + lenN b.
Proof. unfold lenN. rewrite app_length. lia. Qed.
Lemma lenN_cons {A} (x : A) (a : list A) : lenN (x :: a) = 1 + lenN a.
Proof. unfold lenN. cbn [length]. lia. Qed.

Theorem renders_Lexes its text tl : renders its text tl ->
  forall p, exists p', Lexes (mkLx p text) its (mkLx p' tl) /\ p' + lenN tl = p + lenN text.
Proof.
  induction 1 as [tl|sp w its text tl Hsp Hne Hreg Hb Hr IH|sp enc its text tl Hsp Hreg Hb Hr IH
                 |sp d its text tl Hsp Hd Hs Hc Hlp Hlt Hpair Hr IH|sp d its text tl Hsp Hd Hr IH
                 |sp body bs its text tl Hsp Hlex Hr IH|sp body bs its text tl Hsp Hlex Hfirst Hr IH]; intros p.
  - exists p. split; [constructor|reflexivity].
  - destruct (IH (p + lenN sp + lenN w)) as (p' & HL & Hp).
    exists p'. split.
    + eapply L_word; [|exact HL]. apply (next_of_next_word _ _ (p + lenN sp)).
      apply next_word_regular; assumption.
    + rewrite !lenN_app. lia.
  - destruct (IH (p + lenN sp + 1 + lenN enc)) as (p' & HL & Hp).
    exists p'. split.
    + eapply L_word; [|exact HL]. apply (next_of_next_word _ _ (p + lenN sp)).
      apply next_word_name; assumption.
    + rewrite !lenN_app, lenN_cons. lia.
  - destruct (IH (p + lenN sp + 1)) as (p' & HL & Hp).
    exists p'. split.
    + eapply L_word; [|exact HL]. apply (next_of_next_word _ _ (p + lenN sp)).
      apply next_word_delim1; try assumption.
      destruct text as [|b2 t2]; [exact I|]. rewrite Hlt. cbn [andb orb]. exact Hpair.
    + rewrite lenN_app, lenN_cons. lia.
  - destruct (IH (p + lenN sp + 2)) as (p' & HL & Hp).
    exists p'. split.
    + eapply L_word; [|exact HL]. apply (next_of_next_word _ _ (p + lenN sp)).
      apply next_word_delim2; assumption.
    + rewrite lenN_app, !lenN_cons. lia.
  - destruct (IH (p + lenN sp + 1 + lenN body)) as (p' & HL & Hp).
    exists p'. split.
    + eapply (L_str _ (mkLx (p + lenN sp + 1) (body ++ text)) bs (lenN body)).
      * apply (next_of_next_word _ _ (p + lenN sp)).
        apply (next_word_delim1 sp LPAREN (body ++ text) p Hsp); try reflexivity.
        destruct (body ++ text); [exact I|reflexivity].
      * exact Hlex.
      * unfold advance. cbn [lpos lrest]. rewrite drop_app_exact. exact HL.
    + rewrite lenN_app, lenN_cons, lenN_app. lia.
  - destruct (IH (p + lenN sp + 1 + lenN body)) as (p' & HL & Hp).
    exists p'. split.
    + eapply (L_hex _ (mkLx (p + lenN sp + 1) (body ++ text)) bs (lenN body)).
      * apply (next_of_next_word _ _ (p + lenN sp)).
        apply (next_word_delim1 sp LT (body ++ text) p Hsp); try reflexivity.
        destruct (body ++ text) as [|b t]; [exact I|]. rewrite Hfirst. reflexivity.
      * exact Hlex.
      * unfold advance. cbn [lpos lrest]. rewrite drop_app_exact. exact HL.
    + rewrite lenN_app, lenN_cons, lenN_app. lia.
Qed.

Lemma renders_length its text tl : renders its text tl -> (length its + length tl <= length text)%nat.
Proof.
  induction 1; cbn [length]; rewrite ?app_length; cbn [length]; rewrite ?app_length; try lia.
  - destruct w; [contradiction|]. cbn [length]. lia.
Qed.

Lemma renders_app its1 : forall its2 text mid tl,
  renders its1 text mid -> renders its2 mid tl -> renders (its1 ++ its2) text tl.
Proof.
  intros its2 text mid tl H1 H2. induction H1; cbn [app]; try (econstructor; eauto; fail). exact H2.
Qed.

(* ------------------------------------------------------------------ the parser on bytes *)
Theorem parse_rendered v its text tl R cx p :
  spells v its -> vdepth v <= MAX_DEPTH -> renders its text tl ->
  forall p', p' + lenN tl = p + lenN text ->
  follow_ok [] (mkLx p' tl) -> nostream_at [] (mkLx p' tl) ->
  parse_ctx R cx F_ANY MAX_DEPTH (mkLx p text) = Ok (v, mkLx p' tl).
Proof.
  intros Hs Hd Hr p' Hp HF HN.
  destruct (renders_Lexes _ _ _ Hr p) as (q & HL & Hq).
  assert (q = p') by lia. subst q.
  destruct (proj1 parse_spelled_mut v its Hs (fuel_for (mkLx p text)) R cx MAX_DEPTH (mkLx p text) [] (mkLx p' tl))
    as (s1 & E & HL1).
  - unfold fuel_for. cbn [lrest]. pose proof (renders_length _ _ _ Hr). lia.
  - exact Hd.
  - rewrite app_nil_r. exact HL.
  - exact HF.
  - exact HN.
  - inversion HL1; subst. exact E.
Qed.

(* the remainder conditions hold at the end of the buffer … *)
Lemma follow_eof p : follow_ok [] (mkLx p []) /\ nostream_at [] (mkLx p []).
Proof.
  split.
  - cbn. intros t s' H. discriminate.
  - cbn. exists []. split; reflexivity.
Qed.

(* … and, more generally, whenever the remainder starts (after separators) with a token that is neither an integer
   nor the keyword `stream` *)
Lemma follow_word sp w rest p :
  next (mkLx p (sp ++ w ++ rest)) = Ok (w, mkLx (p + lenN sp + lenN w) rest) ->
  is_integer w = false -> bytes_eqb w kw_stream = false ->
  follow_ok [] (mkLx p (sp ++ w ++ rest)) /\ nostream_at [] (mkLx p (sp ++ w ++ rest)).
Proof.
  intros Hn Hi Hs. split.
  - cbn. intros t s' H Hit. rewrite Hn in H. inversion H; subst. congruence.
  - cbn. exists w. split; [eapply next_peek; exact Hn|exact Hs].
Qed.

(* white-space only after the value *)
Lemma skip_while_all_ws tl p : Forall (fun b => is_ws b = true) tl -> skip_while is_ws p tl = (p + lenN tl, []).
Proof.
  intros H. revert p. induction H as [|b tl Hb Ht IH]; intros p; cbn [skip_while].
  - change (lenN (@nil N)) with 0. f_equal. lia.
  - rewrite Hb, IH. f_equal. rewrite lenN_cons. lia.
Qed.
Lemma next_all_ws tl p : Forall (fun b => is_ws b = true) tl -> next (mkLx p tl) = Err E_EOF.
Proof.
  intros H. unfold next, next_word. cbn [lrest]. destruct tl as [|b tl']; [reflexivity|].
  unfold skip_ws. cbn [lpos lrest]. rewrite (skip_while_all_ws _ _ H). reflexivity.
Qed.
Lemma follow_ws_tail_any tl p : Forall (fun b => is_ws b = true) tl ->
  follow_ok [] (mkLx p tl) /\ nostream_at [] (mkLx p tl).
Proof.
  intros H. split.
  - cbn. intros t s' E. rewrite (next_all_ws _ _ H) in E. discriminate.
  - cbn. exists []. split; [|reflexivity]. unfold peek.
    pose proof (next_all_ws _ p H) as E. unfold next in E.
    destruct (next_word (mkLx p tl)) as [[[t q] s']|e| |]; cbn [bind] in E; try discriminate.
    inversion E; subst. reflexivity.
Qed.
