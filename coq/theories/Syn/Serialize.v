(** Syn/Serialize.v — executable model of the serializer in pdf/src/primitive.rs:
    Primitive::serialize, serialize_list, serialize_name, Dictionary::serialize, PdfString::serialize,
    PdfStream::serialize.  A real is printed as the decimal text Rust's `{}` produces for the f32
    (carried in PReal; DESIGN §4). *)
From PdfV Require Import Base.Prelude Gen.Generated Lex.Lexer Syn.Prim.

Definition hexdig_upper (v : N) : N := if v <? 10 then 48 + v else 55 + v.
Definition hexdig_lower (v : N) : N := if v <? 10 then 48 + v else 87 + v.

(* primitive.rs: serialize_name — over the UTF-8 bytes of the name *)
Definition ser_name_byte (b : N) : bytes :=
  if (name_ser_raw_lo <=? b) && (b <=? name_ser_raw_hi) && negb (memN b name_ser_raw_except)
  then [b] else [35; hexdig_upper (b / 16); hexdig_upper (b mod 16)].
Definition ser_name (s : bytes) : bytes := 47 :: flat_map ser_name_byte s.

(* primitive.rs: PdfString::serialize *)
Definition ser_str_byte (b : N) : bytes :=
  if memN b str_ser_escaped then [92; b]
  else if b =? str_ser_cr then [92; 114]
  else [b].
Definition ser_string (s : bytes) : bytes :=
  if existsb (fun b => str_ser_hex_from <=? b) s
  then 60 :: flat_map (fun b => [hexdig_lower (b / 16); hexdig_lower (b mod 16)]) s ++ [62]
  else 40 :: flat_map ser_str_byte s ++ [41].

Definition E_UNIMPL : N := 19.

(* Primitive::serialize, Number arm.  [exact] = sign? digits ('.' digits)? is the exact decimal expansion of the f32;
   n.fract() == 0.0 && n.abs() < 2^31  →  `*n as i64` printed; otherwise `{}` (oracle text [short]) plus "." when it has none *)
Definition all_zero (l : bytes) : bool := forallb (fun b => b =? 48) l.
Definition ser_num (exact short : bytes) : bytes :=
  let neg := match exact with c :: _ => c =? 45 | [] => false end in
  let body := if neg then tl exact else exact in
  let '(ip, fp) := match split_dot body with Some (a, b) => (a, b) | None => (body, []) end in
  let iv := N_of_dec ip in
  if all_zero fp && (iv <? 2147483648) then
    (if neg && negb (iv =? 0) then [45] else []) ++ dec_of_N iv
  else short ++ (if existsb (fun b => b =? 46) short then [] else [46]).

Definition dict_open : bytes := [60; 60; 10].
Definition dict_close : bytes := [62; 62; 10].
Definition stream_open : bytes := [115; 116; 114; 101; 97; 109; 10].
Definition stream_close : bytes := [10; 101; 110; 100; 115; 116; 114; 101; 97; 109; 10].

(* Primitive::serialize *)
Fixpoint ser (v : prim) : res bytes :=
  let fix ser_items (l : list prim) (first : bool) : res bytes :=
      (* serialize_list: first item, then " " item … *)
      match l with
      | [] => Ok []
      | x :: t => do a <- ser x; do r <- ser_items t false; Ok ((if first then [] else [32]) ++ a ++ r)
      end in
  let fix ser_entries (d : dict) : res bytes :=
      (* Dictionary::serialize: name " " value "\n" per entry *)
      match d with
      | [] => Ok []
      | (k, x) :: t => do a <- ser x; do r <- ser_entries t; Ok (ser_name k ++ [32] ++ a ++ [10] ++ r)
      end in
  match v with
  | PNull => Ok [110; 117; 108; 108]
  | PInt z => Ok (dec_of_Z z)
  | PReal t => Ok t
  | PNum e t => Ok (ser_num e t)
  | PBool true => Ok [116; 114; 117; 101]
  | PBool false => Ok [102; 97; 108; 115; 101]
  | PStr s => Ok (ser_string s)
  | PName s => Ok (ser_name s)
  | PRef i g => Ok (dec_of_N i ++ [32] ++ dec_of_N g ++ [32; 82])
  | PArr l => do body <- ser_items l true; Ok ([91] ++ body ++ [93])
  | PDict d => do body <- ser_entries d; Ok (dict_open ++ body ++ dict_close)
  | PStream _ _ _ _ _ => Err E_UNIMPL         (* StreamInner::InFile: unimplemented!() (an Err in this crate) *)
  | PStreamData d data =>
      do body <- ser_entries d;
      Ok (dict_open ++ body ++ dict_close ++ stream_open ++ data ++ stream_close)
  end.

(* file.rs: write_revision — one changed object: `<id> <gen> obj` NL, the serialised value, the terminator; both literals are
   regenerated from the source (sto_obj_header_fmt = the format string without its two `{}`, sto_obj_end) *)
Definition obj_text (id gen : N) (body rest : bytes) : bytes :=
  dec_of_N id ++ firstn 1 sto_obj_header_fmt ++ dec_of_N gen ++ skipn 1 sto_obj_header_fmt ++ body ++ sto_obj_end ++ rest.
