(** Syn/StreamSerProofs.v — C04, streams: a stream with pending data, written by `PdfStream::serialize` as the body of an
    indirect object by `write_revision`, is read back by `parse_indirect_object` as the stream with the same dictionary whose data
    window is exactly the data written — for any data bytes (the window is /Length-driven), whatever way /Length is stored. *)
From PdfV Require Import Base.Prelude Base.DecProofs Gen.Generated Lex.Lexer Lex.LexProofs Lex.StrLexer Syn.Prim Syn.Utf8 Syn.Parser Syn.Serialize
  Syn.Spells Syn.ParserProofs Syn.RenderProofs Syn.SerProofs Syn.StreamProofs Syn.IndirectSerProofs.

Lemma ser_streamdata d data :
  ser (PStreamData d data) = (do body <- ser_entries d; Ok (dict_open ++ body ++ dict_close ++ stream_open ++ data ++ stream_close)).
Proof. reflexivity. Qed.

Lemma next_expect_word sp w rest p :
  sep sp -> w <> [] -> Forall (fun b => is_reg b = true) w -> boundary rest ->
  next_expect (mkLx p (sp ++ w ++ rest)) w = Ok (mkLx (p + lenN sp + lenN w) rest).
Proof.
  intros Hs Hn Hr Hb. unfold next_expect, next. rewrite (next_word_regular sp w rest p Hs Hn Hr Hb). cbn [bind].
  rewrite bytes_eqb_refl. reflexivity.
Qed.

Lemma next_word_of sp w rest p :
  sep sp -> w <> [] -> Forall (fun b => is_reg b = true) w -> boundary rest ->
  next (mkLx p (sp ++ w ++ rest)) = Ok (w, mkLx (p + lenN sp + lenN w) rest).
Proof. intros Hs Hn Hr Hb. unfold next. rewrite (next_word_regular sp w rest p Hs Hn Hr Hb). reflexivity. Qed.

Lemma kw_stream_regular : Forall (fun b => is_reg b = true) kw_stream /\ kw_stream <> [].
Proof. split; [repeat constructor|discriminate]. Qed.
Lemma kw_endstream_regular : Forall (fun b => is_reg b = true) kw_endstream /\ kw_endstream <> [].
Proof. split; [repeat constructor|discriminate]. Qed.

Definition entries_storable (d : dict) : Prop :=
  Forall (fun kv => wf_bytes (fst kv) /\ is_utf8 (fst kv) = true /\ storable (snd kv)) d.

Theorem ser_stream_indirect d data id gen :
  NoDup (keys d) -> entries_storable d -> 1 + ddepth d <= MAX_DEPTH ->
  id < 18446744073709551616 -> gen < 18446744073709551616 ->
  forall R, length_entry R d (lenN data) ->
  forall allow rest p,
  exists body st s_end,
    ser (PStreamData d data) = Ok body /\
    parse_indirect_object R allow F_ANY (mkLx p (obj_text id gen body rest)) = Ok (id, gen, PStream d id gen st (lenN data), s_end) /\
    p <= st /\ take (lenN data) (drop (st - p) (obj_text id gen body rest)) = data /\
    lrest s_end = [10] ++ rest.
Proof.
  intros Hnd Hfd Hdep Hid Hgen R Hlen allow rest p.
  assert (Hok : Forall (fun kv => ser_ok (snd kv)) d).
  { apply Forall_forall. intros kv Hin. apply ser_spells. unfold entries_storable in Hfd. rewrite Forall_forall in Hfd.
    apply (Hfd kv Hin). }
  destruct (ser_entries_ok d Hok Hfd) as (eb & Heb & Hsd & Hre).
  destruct (dec_of_N_u64 id Hid) as [Pid _]. destruct (dec_of_N_u64 gen Hgen) as [Pgen _].
  destruct (dec_of_N_regular id) as [Rid Nid]. destruct (dec_of_N_regular gen) as [Rgen Ngen].
  destruct kw_obj_regular as [Ro No]. destruct kw_endobj_regular as [Re Ne].
  destruct kw_stream_regular as [Rs Ns]. destruct kw_endstream_regular as [Res Nes].
  set (body := dict_open ++ eb ++ dict_close ++ stream_open ++ data ++ stream_close).
  exists body.
  (* the text behind the dictionary's `>>` *)
  set (after_obj := [10] ++ rest).
  set (after_es := [10] ++ ([10] ++ kw_endobj ++ after_obj)).
  set (after_data := [10] ++ kw_endstream ++ after_es).
  set (tl2 := [10] ++ kw_stream ++ ([10] ++ data ++ after_data)).
  set (pre0 := dec_of_N id ++ [32] ++ dec_of_N gen ++ [32] ++ kw_obj ++ [10] ++ [60; 60] ++ [10] ++ eb ++ [62; 62]).
  assert (T0 : obj_text id gen body rest = pre0 ++ tl2).
  { unfold obj_text, body, pre0, tl2, after_data, after_es, after_obj, dict_open, dict_close, stream_open, stream_close.
    rewrite obj_header_fmt_shape, obj_end_shape. cbn [firstn skipn app]. unfold kw_obj, kw_endobj, kw_stream, kw_endstream.
    repeat first [rewrite <- app_assoc | progress cbn [app]]. reflexivity. }
  assert (T : obj_text id gen body rest =
              [] ++ dec_of_N id ++ ([32] ++ dec_of_N gen ++ ([32] ++ kw_obj ++ ([10] ++ 60 :: 60 :: ([10] ++ eb ++ 62 :: 62 :: tl2))))).
  { rewrite T0. unfold pre0. repeat first [rewrite <- app_assoc | progress cbn [app]]. reflexivity. }
  assert (Rall : renders (IWord (dec_of_N id) :: IWord (dec_of_N gen) :: IWord kw_obj :: IWord kw_dict_open :: items_dict d ++ [IWord kw_dict_close])
                   (obj_text id gen body rest) tl2).
  { rewrite T.
    apply rn_reg; [constructor|exact Nid|exact Rid|reflexivity|].
    apply rn_reg; [apply sep_of_ws, ws_sp|exact Ngen|exact Rgen|reflexivity|].
    apply rn_reg; [apply sep_of_ws, ws_sp|exact No|exact Ro|reflexivity|].
    apply (rn_delim2 [10] 60); [apply sep_of_ws, ws_nl|left; reflexivity|].
    apply renders_ws_prefix; [apply ws_nl|destruct (items_dict d); discriminate|apply Hre]. }
  destruct (renders_Lexes _ _ _ Rall p) as (q & HL & Hq).
  (* the keyword, the end-of-line, the data, `endstream`, `endobj` *)
  assert (N1 : next (mkLx q tl2) = Ok (kw_stream, mkLx (q + 1 + 6) ([10] ++ data ++ after_data))).
  { unfold tl2. rewrite (next_word_of [10] kw_stream _ q); [reflexivity|apply sep_of_ws, ws_nl|exact Ns|exact Rs|reflexivity]. }
  set (s3 := mkLx (q + 1 + 6) ([10] ++ data ++ after_data)).
  assert (N2 : next_expect (mkLx (lpos s3 + lenN [10] + lenN data) after_data) kw_endstream =
               Ok (mkLx (lpos s3 + lenN [10] + lenN data + 1 + 9) after_es)).
  { unfold after_data. rewrite (next_expect_word [10] kw_endstream after_es); [reflexivity|apply sep_of_ws, ws_nl|exact Nes|exact Res|reflexivity]. }
  assert (N3 : next_expect (mkLx (lpos s3 + lenN [10] + lenN data + 1 + 9) after_es) kw_endobj =
               Ok (mkLx (lpos s3 + lenN [10] + lenN data + 1 + 9 + 2 + 6) after_obj)).
  { unfold after_es. rewrite app_assoc.
    rewrite (next_expect_word ([10] ++ [10]) kw_endobj after_obj); [reflexivity| |exact Ne|exact Re|reflexivity].
    apply sep_of_ws. repeat constructor. }
  exists (lpos s3 + lenN [10]), (mkLx (lpos s3 + lenN [10] + lenN data + 1 + 9 + 2 + 6) after_obj).
  split; [rewrite ser_streamdata, Heb; reflexivity|]. split.
  - apply (parse_indirect_stream_spelled_len d (items_dict d) (dec_of_N id) (dec_of_N gen) id gen Hsd Hnd Pid Pgen R allow
             (mkLx p (obj_text id gen body rest)) (mkLx q tl2) s3
             (mkLx (lpos s3 + lenN [10] + lenN data + 1 + 9) after_es)
             (mkLx (lpos s3 + lenN [10] + lenN data + 1 + 9 + 2 + 6) after_obj) [10] data after_data Hdep HL N1);
      [left; reflexivity|reflexivity|exact Hlen|exact N2|exact N3].
  - assert (Hq' : q = p + lenN pre0).
    { rewrite T0 in Hq. rewrite lenN_app in Hq. lia. }
    split; [|split; [|reflexivity]].
    + unfold s3. cbn [lpos]. lia.
    + (* the window *)
      set (pre := pre0 ++ [10] ++ kw_stream ++ [10]).
      assert (E : obj_text id gen body rest = pre ++ data ++ after_data).
      { rewrite T0. unfold pre, tl2. repeat first [rewrite <- app_assoc | progress cbn [app]]. reflexivity. }
      assert (Hp : lenN pre = lpos s3 + lenN [10] - p).
      { unfold pre, s3. cbn [lpos]. rewrite !lenN_app. change (lenN [10]) with 1. change (lenN kw_stream) with 6. lia. }
      rewrite E, <- Hp. unfold take.
      rewrite drop_app_exact. unfold lenN. rewrite Nat2N.id. rewrite firstn_app, firstn_all, Nat.sub_diag. cbn [firstn]. apply app_nil_r.
Qed.
