(** Syn/Parser.v — executable model of pdf/src/parser/mod.rs and parse_object.rs:
    parse_with_lexer_ctx / _parse_with_lexer_ctx, parse_dictionary_object, parse_stream_object, decode_name,
    parse_indirect_object.  String decryption (Context::decrypt) is the identity here (no decoder). *)
From PdfV Require Import Base.Prelude Gen.Generated Lex.Lexer Lex.StrLexer Syn.Prim Syn.Utf8 Codec.Model.

Definition E_DEPTH : N := 14.      (* PdfError::MaxDepth *)
Definition E_FLAGS : N := 15.      (* PrimitiveNotAllowed *)
Definition E_UNKNOWN : N := 16.    (* UnknownType *)
Definition E_REF : N := 17.        (* PdfError::Reference (NoResolve) *)
Definition E_PRIM : N := 18.       (* UnexpectedPrimitive / MissingEntry *)

(* Resolve::resolve_flags as far as the parser uses it *)
Definition resolver := N -> N -> N -> res prim.
Definition no_resolve : resolver := fun _ _ _ => Err E_REF.

(* mod.rs: check(flags, allowed) = flags.intersects(allowed) *)
Definition check (flags allowed : N) : res unit :=
  if N.land flags allowed =? 0 then Err E_FLAGS else Ok tt.

Definition kw_dict_open : bytes := [60; 60].
Definition kw_dict_close : bytes := [62; 62].
Definition kw_arr_open : bytes := [91].
Definition kw_arr_close : bytes := [93].
Definition kw_lparen : bytes := [40].
Definition kw_lt : bytes := [60].
Definition kw_R : bytes := [82].
Definition kw_true : bytes := [116; 114; 117; 101].
Definition kw_false : bytes := [102; 97; 108; 115; 101].
Definition kw_null : bytes := [110; 117; 108; 108].
Definition kw_stream : bytes := [115; 116; 114; 101; 97; 109].
Definition kw_endstream : bytes := [101; 110; 100; 115; 116; 114; 101; 97; 109].
Definition kw_obj : bytes := [111; 98; 106].
Definition kw_endobj : bytes := [101; 110; 100; 111; 98; 106].
Definition key_Length : bytes := [76; 101; 110; 103; 116; 104].
Definition HASH : N := 35.

(* mod.rs: decode_name — `#xx` escapes; Err when fewer than two bytes follow '#' or a digit is bad *)
Fixpoint decode_name_go (fuel : nat) (l : bytes) : res bytes :=
  match fuel with
  | O => OutOfFuel
  | S f =>
    match l with
    | [] => Ok []
    | b :: t =>
      if b =? HASH then
        match t with
        | hi :: lo :: t' =>
            match decode_nibble lo, decode_nibble hi with
            | Some l4, Some h4 =>
                do r <- decode_name_go f t'; Ok (N.lor l4 ((h4 * 16) mod 256) :: r)
            | _, _ => Err E_HEX
            end
        | _ => Err E_EOF
        end
      else do r <- decode_name_go f t; Ok (b :: r)
    end
  end.
Definition decode_name (l : bytes) : res bytes :=
  do s <- decode_name_go (S (length l)) l;
  if is_utf8 s then Ok s else Err E_PARSE.

(* Primitive::as_usize *)
Definition as_usize_prim (p : prim) : res N :=
  match p with
  | PInt z => if (0 <=? z)%Z then Ok (Z.to_N z) else Err E_PRIM
  | _ => Err E_PRIM
  end.

(* mod.rs: parse_stream_object *)
Definition parse_stream_object (R : resolver) (d : dict) (id gen : N) (s : lx) : res (prim * lx) :=
  do s1 <- next_stream s;
  do len <- match dict_get key_Length d with
            | Some (PInt n) => if (0 <=? n)%Z then Ok (Z.to_N n) else Err E_PRIM
            | Some (PRef i g) => do p <- R i g F_INTEGER; as_usize_prim p
            | Some _ => Err E_PRIM
            | None => Err E_PRIM
            end;
  let '(start, got, s2) := read_n s1 len in
  if negb (got =? len) then Err E_EOF else
  do s3 <- next_expect s2 kw_endstream;
  Ok (PStream d id gen start len, s3).

Definition starts_slash (t : bytes) : option bytes :=
  match t with b :: r => if b =? SLASH then Some r else None | [] => None end.

(* mod.rs: _parse_with_lexer_ctx, parse_dictionary_object and the array loop, mutually recursive on one fuel.
   On Err the caller keeps its own (older) lexer state: that is parse_with_lexer_ctx's set_pos(pos). *)
Fixpoint parse_fuel (fuel : nat) (R : resolver) (cx : option (N * N)) (flags depth : N) (s : lx) {struct fuel}
  : res (prim * lx) :=
  match fuel with
  | O => OutOfFuel
  | S f =>
    do (tok, s1) <- next s;
    if bytes_eqb tok kw_dict_open then
      do _ <- check flags F_DICT;
      if depth =? 0 then Err E_DEPTH else
      do (d, s2) <- parse_dict_fuel f R cx (depth - 1) s1 [];
      do pk <- peek s2;
      if bytes_eqb pk kw_stream then
        match cx with
        | None => Err E_FLAGS
        | Some (id, gen) => parse_stream_object R d id gen s2
        end
      else Ok (PDict d, s2)
    else if is_integer tok then
      do _ <- check flags (N.lor F_INTEGER F_REF);
      let is_ref :=
        match next s1 with
        | Ok (tok2, s2) =>
            if is_integer tok2 then
              match next s2 with
              | Ok (tok3, s3) => if bytes_eqb tok3 kw_R then Some (tok2, s3) else None
              | _ => None
              end
            else None
        | _ => None
        end in
      match is_ref with
      | Some (tok2, s3) =>
          do _ <- check flags F_REF;
          do id <- parse_u64 tok; do gen <- parse_u64 tok2; Ok (PRef id gen, s3)
      | None =>
          do _ <- check flags F_INTEGER;
          match parse_i32 tok with
          | Ok v => Ok (PInt v, s1)
          | _ => do _ <- check flags F_NUMBER; Ok (PReal tok, s1)      (* out of range: converted to a real *)
          end
      end
    else
      match real_number tok with
      | Some txt =>
          do _ <- check flags F_NUMBER;
          if f32_parsable txt then Ok (PReal txt, s1) else Err E_PARSE
      | None =>
        match starts_slash tok with
        | Some rest =>
            do _ <- check flags F_NAME;
            do n <- decode_name rest; Ok (PName n, s1)
        | None =>
          if bytes_eqb tok kw_arr_open then
            do _ <- check flags F_ARRAY;
            if depth =? 0 then Err E_DEPTH else parse_array_fuel f R cx (depth - 1) s1 []
          else if bytes_eqb tok kw_lparen then
            do _ <- check flags F_STRING;
            do (str, off) <- string_lex (lrest s1); Ok (PStr str, advance s1 off)
          else if bytes_eqb tok kw_lt then
            do _ <- check flags F_STRING;
            do (str, off) <- hexstring_lex (lrest s1); Ok (PStr str, advance s1 off)
          else if bytes_eqb tok kw_true then do _ <- check flags F_BOOL; Ok (PBool true, s1)
          else if bytes_eqb tok kw_false then do _ <- check flags F_BOOL; Ok (PBool false, s1)
          else if bytes_eqb tok kw_null then do _ <- check flags F_NULL; Ok (PNull, s1)
          else Err E_UNKNOWN
        end
      end
  end
with parse_dict_fuel (fuel : nat) (R : resolver) (cx : option (N * N)) (depth : N) (s : lx) (acc : dict) {struct fuel}
  : res (dict * lx) :=
  match fuel with
  | O => OutOfFuel
  | S f =>
    do (tok, s1) <- next s;
    match starts_slash tok with
    | Some rest =>
        do key <- decode_name rest;
        do (v, s2) <- parse_fuel f R cx F_ANY depth s1;
        parse_dict_fuel f R cx depth s2 (dict_insert key v acc)
    | None => if bytes_eqb tok kw_dict_close then Ok (acc, s1) else Err E_LEX
    end
  end
with parse_array_fuel (fuel : nat) (R : resolver) (cx : option (N * N)) (depth : N) (s : lx) (acc : list prim) {struct fuel}
  : res (prim * lx) :=
  match fuel with
  | O => OutOfFuel
  | S f =>
    do pk <- peek s;
    if bytes_eqb pk kw_arr_close then
      do (_, s1) <- next s; Ok (PArr (rev acc), s1)
    else
      do (v, s1) <- parse_fuel f R cx F_ANY depth s;
      parse_array_fuel f R cx depth s1 (v :: acc)
  end.

Definition fuel_for (s : lx) : nat := (2 * length (lrest s) + 4)%nat.

(* mod.rs: parse_with_lexer_ctx *)
Definition parse_ctx (R : resolver) (cx : option (N * N)) (flags depth : N) (s : lx) : res (prim * lx) :=
  parse_fuel (fuel_for s) R cx flags depth s.

(* mod.rs: parse (data, r, flags) *)
Definition parse (R : resolver) (flags : N) (data : bytes) : res prim :=
  do (v, _) <- parse_ctx R None flags MAX_DEPTH (mkLx 0 data); Ok v.

(* parse_object.rs: parse_indirect_object *)
Definition parse_indirect_object (R : resolver) (allow_missing_endobj : bool) (flags : N) (s : lx)
  : res (N * N * prim * lx) :=
  do (t1, s1) <- next s; do id <- parse_u64 t1;
  do (t2, s2) <- next s1; do gen <- parse_u64 t2;
  do s3 <- next_expect s2 kw_obj;
  do (v, s4) <- parse_ctx R (Some (id, gen)) flags MAX_DEPTH s3;
  if allow_missing_endobj then
    match next_expect s4 kw_endobj with
    | Ok s5 => Ok (id, gen, v, s5)
    | Err _ => Ok (id, gen, v, s4)
    | Panic p => Panic p
    | OutOfFuel => OutOfFuel
    end
  else do s5 <- next_expect s4 kw_endobj; Ok (id, gen, v, s5).
