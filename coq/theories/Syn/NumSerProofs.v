(** Syn/NumSerProofs.v — C04, "any finite real": `Primitive::Number(f32)` is given to the model as `PNum exact short`
    (the exact decimal expansion of the f32 and the text Rust's `{}` prints for it).  The Number arm of the serializer writes
    either the integer the value is (integral, magnitude below 2^31) or `short` with a decimal point; the parser reads the first as
    the integer of equal value and the second as the real lexeme just written.  [norm] is that identification; the theorem is
    that the serialisation of a value with numbers in it is the serialisation of its normal form, which is storable, so the round
    trip of C04 applies:  parse (ser v) = norm v. *)
From PdfV Require Import Base.Prelude Base.DecProofs Gen.Generated Lex.Lexer Lex.LexProofs Lex.NumProofs Lex.StrLexer Syn.Prim Syn.Utf8
  Syn.Parser Syn.Serialize Syn.Spells Syn.ParserProofs Syn.RenderProofs Syn.SerProofs.

(* what `{}` prints for a finite f32, as far as it matters here: an optional minus, digits, optionally a point and more digits
   (Rust never prints an exponent or a leading `+` for `{}`) *)
Definition short_form (t : bytes) : Prop :=
  exists sg ip fp, (sg = [] \/ sg = [MINUS]) /\ ip <> [] /\ all_digits ip = true /\ all_digits fp = true /\
    (t = sg ++ ip \/ (fp <> [] /\ t = sg ++ ip ++ DOT :: fp)).

(* the integral branch of the Number arm: Some z when the exact expansion is integral with magnitude below 2^31 *)
Definition num_int (exact : bytes) : option Z :=
  let neg := match exact with c :: _ => c =? 45 | [] => false end in
  let body := if neg then tl exact else exact in
  let '(ip, fp) := match split_dot body with Some (a, b) => (a, b) | None => (body, []) end in
  let iv := N_of_dec ip in
  if all_zero fp && (iv <? 2147483648) then Some (if neg then Z.opp (Z.of_N iv) else Z.of_N iv) else None.

Definition with_point (short : bytes) : bytes := short ++ (if existsb (fun b => b =? 46) short then [] else [46]).

Lemma ser_num_cases e t :
  ser_num e t = match num_int e with Some z => dec_of_Z z | None => with_point t end.
Proof.
  unfold ser_num, num_int, with_point.
  set (neg := match e with c :: _ => c =? 45 | [] => false end).
  set (body := if neg then tl e else e).
  destruct (match split_dot body with Some (a, b) => (a, b) | None => (body, []) end) as [ip fp].
  destruct (all_zero fp && (N_of_dec ip <? 2147483648)) eqn:E; [|reflexivity].
  unfold dec_of_Z. destruct neg; cbn [andb negb].
  - destruct (N.eqb_spec (N_of_dec ip) 0) as [Ez|Hnz].
    + rewrite Ez. reflexivity.
    + assert ((- Z.of_N (N_of_dec ip) <? 0)%Z = true) as -> by (apply Z.ltb_lt; lia).
      rewrite Z.opp_involutive, N2Z.id. reflexivity.
  - assert ((Z.of_N (N_of_dec ip) <? 0)%Z = false) as -> by (apply Z.ltb_ge; lia).
    rewrite N2Z.id. reflexivity.
Qed.

Lemma num_int_range e z : num_int e = Some z -> (-2147483648 <= z <= 2147483647)%Z.
Proof.
  unfold num_int.
  destruct (match split_dot _ with Some (a, b) => (a, b) | None => _ end) as [ip fp].
  destruct (all_zero fp && (N_of_dec ip <? 2147483648)) eqn:E; [|discriminate].
  apply andb_true_iff in E. destruct E as [_ E]. apply N.ltb_lt in E.
  intros H. injection H as <-. destruct (match e with c :: _ => c =? 45 | [] => false end); lia.
Qed.

Lemma existsb_dot_digits l : all_digits l = true -> existsb (fun b => b =? 46) l = false.
Proof.
  induction l as [|d l IH]; [reflexivity|]. cbn [all_digits forallb existsb]. intros H. apply andb_true_iff in H. destruct H as [Hd Hl].
  destruct (digit_not_sign _ Hd) as (_ & Hdot & _). change 46 with DOT. rewrite Hdot. apply IH. exact Hl.
Qed.

Lemma with_point_real t : short_form t ->
  real_word (with_point t) /\ with_point t <> [] /\ Forall (fun b => is_reg b = true) (with_point t).
Proof.
  intros (sg & ip & fp & Hsg & Hne & Hi & Hf & Ht).
  assert (Hsg' : sign_ok sg) by (destruct Hsg as [->| ->]; [left|right; right]; reflexivity).
  assert (Hreg : forall l, all_digits l = true -> Forall (fun b => is_reg b = true) l).
  { intros l Hl. apply Forall_forall. intros b Hb. apply digit_regular. unfold all_digits in Hl. rewrite forallb_forall in Hl. apply Hl. exact Hb. }
  assert (Hsreg : Forall (fun b => is_reg b = true) sg) by (destruct Hsg as [->| ->]; repeat constructor).
  assert (E : exists fp', all_digits fp' = true /\ with_point t = sg ++ ip ++ DOT :: fp').
  { unfold with_point. destruct Ht as [-> | [Hfn ->]].
    - exists []. split; [reflexivity|].
      assert (existsb (fun b => b =? 46) (sg ++ ip) = false) as ->.
      { rewrite existsb_app, (existsb_dot_digits ip Hi). destruct Hsg as [->| ->]; reflexivity. }
      rewrite <- app_assoc. reflexivity.
    - exists fp. split; [exact Hf|].
      assert (existsb (fun b => b =? 46) (sg ++ ip ++ DOT :: fp) = true) as ->.
      { rewrite !existsb_app. cbn [existsb]. change (DOT =? 46) with true. rewrite !orb_true_r. reflexivity. }
      apply app_nil_r. }
  destruct E as (fp' & Hf' & ->). split; [|split].
  - apply real_spelling; try assumption. destruct ip; [contradiction|discriminate].
  - destruct sg; destruct ip; try contradiction; discriminate.
  - apply Forall_app. split; [exact Hsreg|]. apply Forall_app. split; [apply Hreg; exact Hi|].
    constructor; [reflexivity|apply Hreg; exact Hf'].
Qed.

(* ------------------------------------------------------------------ normal form *)
Fixpoint norm (v : prim) : prim :=
  match v with
  | PNum e t => match num_int e with Some z => PInt z | None => PReal (with_point t) end
  | PArr l => PArr (map norm l)
  | PDict d => PDict (map (fun kv => match kv with (k, x) => (k, norm x) end) d)
  | _ => v
  end.

(* values the object model holds: as [storable], with numbers given as PNum *)
Inductive holdable : prim -> Prop :=
| ho_null : holdable PNull
| ho_bool b : holdable (PBool b)
| ho_int z : (-2147483648 <= z <= 2147483647)%Z -> holdable (PInt z)
| ho_num e t : short_form t -> holdable (PNum e t)
| ho_str s : wf_bytes s -> holdable (PStr s)
| ho_name s : wf_bytes s -> is_utf8 s = true -> holdable (PName s)
| ho_ref i g : i < 18446744073709551616 -> g < 18446744073709551616 -> holdable (PRef i g)
| ho_arr l : Forall holdable l -> holdable (PArr l)
| ho_dict d : NoDup (keys d) -> Forall (fun kv => wf_bytes (fst kv) /\ is_utf8 (fst kv) = true /\ holdable (snd kv)) d ->
    holdable (PDict d).

Lemma keys_norm d : keys (map (fun kv => match kv with (k, x) => (k, norm x) end) d) = keys d.
Proof. unfold keys. rewrite map_map. apply map_ext. intros [k x]. reflexivity. Qed.

Theorem norm_storable : forall v, holdable v -> storable (norm v).
Proof.
  induction v using prim_ind'; intros Hh; inversion Hh; subst; cbn [norm]; try (constructor; assumption).
  - (* num *) destruct (num_int e) as [z|] eqn:E.
    + apply st_int. exact (num_int_range _ _ E).
    + match goal with Hs : short_form t |- _ => destruct (with_point_real t Hs) as (Hr & Hn & Hg) end.
      apply st_real; assumption.
  - (* array *) apply st_arr. apply Forall_forall. intros y Hy. apply in_map_iff in Hy. destruct Hy as (x & <- & Hx).
    rewrite Forall_forall in H. apply H; [exact Hx|].
    match goal with Hf : Forall holdable l |- _ => rewrite Forall_forall in Hf; apply Hf; exact Hx end.
  - (* dict *) apply st_dict; [rewrite keys_norm; assumption|].
    apply Forall_forall. intros kv Hkv. apply in_map_iff in Hkv. destruct Hkv as ([k x] & <- & Hx). cbn [fst snd].
    match goal with Hf : Forall _ d |- _ => rewrite Forall_forall in Hf; destruct (Hf _ Hx) as (W & U & Hho) end.
    cbn [fst snd] in *. split; [exact W|]. split; [exact U|].
    rewrite Forall_forall in H. apply (H _ Hx). exact Hho.
Qed.

Lemma ser_items_norm l : Forall (fun v => ser (norm v) = ser v) l -> forall first, ser_items (map norm l) first = ser_items l first.
Proof.
  induction 1 as [|x t Hx _ IH]; intros first; [reflexivity|].
  cbn [map ser_items]. rewrite Hx, (IH false). reflexivity.
Qed.

Lemma ser_entries_norm d : Forall (fun kv => ser (norm (snd kv)) = ser (snd kv)) d ->
  ser_entries (map (fun kv => match kv with (k, x) => (k, norm x) end) d) = ser_entries d.
Proof.
  induction 1 as [|[k x] t Hx _ IH]; [reflexivity|].
  cbn [map ser_entries fst snd] in *. rewrite Hx, IH. reflexivity.
Qed.

Theorem ser_norm : forall v, ser (norm v) = ser v.
Proof.
  induction v using prim_ind'; cbn [norm]; try reflexivity.
  - (* num *) cbn [ser]. rewrite ser_num_cases. destruct (num_int e); reflexivity.
  - (* array *) rewrite !ser_arr. rewrite (ser_items_norm l H true). reflexivity.
  - (* dict *) rewrite !ser_dict. rewrite (ser_entries_norm d H). reflexivity.
Qed.

(** the round trip for every value the object model holds, numbers included: the parser returns the normal form *)
Theorem ser_parse_roundtrip_num v : holdable v -> vdepth (norm v) <= MAX_DEPTH -> forall R,
  exists b, ser v = Ok b /\ parse R F_ANY b = Ok (norm v).
Proof.
  intros Hh Hd R. destruct (ser_parse_eof (norm v) (norm_storable v Hh) Hd R) as (b & Hs & Hp).
  exists b. split; [rewrite <- ser_norm; exact Hs|exact Hp].
Qed.
