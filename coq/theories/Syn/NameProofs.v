(** Syn/NameProofs.v — names (ISO 32000-1 §7.3.5): any byte may be written as #xx (either case), regular
    characters other than '#' may be written as they are; the parser's name decoding returns the denoted bytes. *)
From PdfV Require Import Base.Prelude Gen.Generated Lex.Lexer Codec.Model Codec.HexProofs Syn.Prim Syn.Utf8 Syn.Parser Syn.Spells.

Inductive name_enc : bytes -> bytes -> Prop :=
| ne_nil : name_enc [] []
| ne_raw b s e : is_reg b = true -> (b =? HASH) = false -> name_enc s e -> name_enc (b :: s) (b :: e)
| ne_hash b h l s e : b < 256 -> hexdigit_of (b / 16) h -> hexdigit_of (b mod 16) l ->
    name_enc s e -> name_enc (b :: s) (HASH :: h :: l :: e).

Lemma name_byte_combine : forallb (fun b => N.lor (b mod 16) (((b / 16) * 16) mod 256) =? b) all_bytes = true.
Proof. vm_compute. reflexivity. Qed.

Lemma decode_name_go_enc s e : name_enc s e -> forall fuel, (length e < fuel)%nat -> decode_name_go fuel e = Ok s.
Proof.
  induction 1 as [|b s e Hr Hh Hn IH|b h l s e Hb Hhi Hlo Hn IH]; intros fuel Hf;
    (destruct fuel as [|f]; [cbn [length] in Hf; lia|]); cbn [decode_name_go].
  - reflexivity.
  - rewrite Hh. rewrite (IH f) by (cbn [length] in Hf; lia). reflexivity.
  - rewrite N.eqb_refl.
    assert (H1 : b / 16 < 16) by (apply N.div_lt_upper_bound; lia).
    assert (H2 : b mod 16 < 16) by (apply N.mod_lt; lia).
    destruct (hexdigit_decodes _ _ H1 Hhi) as [_ ->].
    destruct (hexdigit_decodes _ _ H2 Hlo) as [_ ->].
    rewrite (IH f) by (cbn [length] in Hf; lia). cbn [bind].
    pose proof (forall_bytes _ name_byte_combine b Hb) as Hc. apply N.eqb_eq in Hc. rewrite Hc. reflexivity.
Qed.

(* a name whose bytes are valid UTF-8 (the limitation recorded as finding C03-h) *)
Theorem name_spelling s e : name_enc s e -> is_utf8 s = true -> name_word (SLASH :: e) s.
Proof.
  intros He Hu. exists e. split; [reflexivity|]. unfold decode_name.
  rewrite (decode_name_go_enc _ _ He) by lia. cbn [bind]. rewrite Hu. reflexivity.
Qed.

(* C03-h: the statement without the UTF-8 premise is false of the code *)
Theorem C03_name_not_utf8_refuted :
  name_enc [255] [HASH; 102; 102] /\ decode_name [HASH; 102; 102] = Err E_PARSE.
Proof.
  split; [|vm_compute; reflexivity].
  apply (ne_hash 255 102 102 [] []); [reflexivity| | |constructor]; right; split; try (vm_compute; split; congruence); left; reflexivity.
Qed.

(* the characters of an encoded name are regular, so the name is one token *)
Lemma hash_hex_regular : forallb is_reg ([35] ++ seqN 48 10 ++ seqN 65 6 ++ seqN 97 6) = true.
Proof. vm_compute. reflexivity. Qed.

Lemma hexdigit_regular n c : n < 16 -> hexdigit_of n c -> is_reg c = true.
Proof.
  intros Hn Hd. pose proof hash_hex_regular as H. rewrite forallb_forall in H. apply H.
  apply in_or_app. right. destruct Hd as [[H1 ->]|[H1 [-> | ->]]].
  - apply in_or_app. left. apply seqN_In. cbn. lia.
  - apply in_or_app. right. apply in_or_app. right. apply seqN_In. cbn. lia.
  - apply in_or_app. right. apply in_or_app. left. apply seqN_In. cbn. lia.
Qed.

Lemma name_enc_regular s e : name_enc s e -> Forall (fun b => is_reg b = true) e.
Proof.
  induction 1 as [|b s e Hr Hh Hn IH|b h l s e Hb Hhi Hlo Hn IH]; [constructor|constructor; assumption|].
  constructor; [reflexivity|]. constructor; [|constructor; [|exact IH]].
  - eapply hexdigit_regular; [|exact Hhi]. apply N.div_lt_upper_bound; lia.
  - eapply hexdigit_regular; [|exact Hlo]. apply N.mod_lt; lia.
Qed.
