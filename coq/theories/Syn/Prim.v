(** Syn/Prim.v — the object model (pdf/src/primitive.rs: Primitive, Dictionary = IndexMap, PdfString, Name, PlainRef).
    A real number is carried as the decimal text that is handed to / produced by Rust's f32 parser / printer
    (binary32 rounding is outside the Coq model: the harness compares bit patterns, see DESIGN §4). *)
From PdfV Require Import Base.Prelude Lex.Lexer.

Inductive prim : Type :=
| PNull
| PInt (z : Z)
| PReal (txt : bytes)
| PNum (exact short : bytes)   (* an f32 given by its exact decimal expansion and by what `{}` prints for it (oracle) *)
| PBool (b : bool)
| PStr (s : bytes)
| PName (s : bytes)
| PArr (l : list prim)
| PDict (d : list (bytes * prim))
| PRef (id gen : N)
| PStream (d : list (bytes * prim)) (id gen : N) (start len : N)   (* StreamInner::InFile { id, file_range } *)
| PStreamData (d : list (bytes * prim)) (data : bytes).             (* StreamInner::Pending { data } *)

Definition dict := list (bytes * prim).

(* IndexMap::insert: an existing key keeps its position and gets the new value *)
Fixpoint dict_insert (k : bytes) (v : prim) (d : dict) : dict :=
  match d with
  | [] => [(k, v)]
  | (k', v') :: t => if bytes_eqb k k' then (k, v) :: t else (k', v') :: dict_insert k v t
  end.

Fixpoint dict_get (k : bytes) (d : dict) : option prim :=
  match d with
  | [] => None
  | (k', v) :: t => if bytes_eqb k k' then Some v else dict_get k t
  end.

(* nested induction principle *)
Section PrimInd.
  Variable P : prim -> Prop.
  Hypothesis Hnull : P PNull.
  Hypothesis Hint : forall z, P (PInt z).
  Hypothesis Hreal : forall t, P (PReal t).
  Hypothesis Hnum : forall e t, P (PNum e t).
  Hypothesis Hbool : forall b, P (PBool b).
  Hypothesis Hstr : forall s, P (PStr s).
  Hypothesis Hname : forall s, P (PName s).
  Hypothesis Harr : forall l, Forall P l -> P (PArr l).
  Hypothesis Hdict : forall d, Forall (fun kv => P (snd kv)) d -> P (PDict d).
  Hypothesis Href : forall i g, P (PRef i g).
  Hypothesis Hstream : forall d i g s n, Forall (fun kv => P (snd kv)) d -> P (PStream d i g s n).
  Hypothesis Hsdata : forall d x, Forall (fun kv => P (snd kv)) d -> P (PStreamData d x).

  Fixpoint prim_ind' (v : prim) : P v :=
    let fix go_l (l : list prim) : Forall P l :=
        match l with [] => Forall_nil _ | x :: t => Forall_cons _ (prim_ind' x) (go_l t) end in
    let fix go_d (d : dict) : Forall (fun kv => P (snd kv)) d :=
        match d with [] => Forall_nil _ | (k, x) :: t => Forall_cons (k, x) (prim_ind' x) (go_d t) end in
    match v with
    | PNull => Hnull
    | PInt z => Hint z
    | PReal t => Hreal t
    | PNum e t => Hnum e t
    | PBool b => Hbool b
    | PStr s => Hstr s
    | PName s => Hname s
    | PArr l => Harr l (go_l l)
    | PDict d => Hdict d (go_d d)
    | PRef i g => Href i g
    | PStream d i g s n => Hstream d i g s n (go_d d)
    | PStreamData d x => Hsdata d x (go_d d)
    end.
End PrimInd.
