(** Syn/IndirectSerProofs.v — C04, placement "indirect-object body": what `Storage::write_revision` writes for a changed object —
    `<id> <gen> obj` NL, the value's serialisation, the terminator the source writes after it (`sto_obj_end`, regenerated from
    file.rs on every run) — is read back by `parse_indirect_object` as exactly (id, gen, value), for every storable value,
    scalars included (a number, keyword, name or reference must not touch the keyword `endobj`). *)
From PdfV Require Import Base.Prelude Base.DecProofs Gen.Generated Lex.Lexer Lex.LexProofs Lex.StrLexer Syn.Prim Syn.Parser Syn.Serialize
  Syn.Spells Syn.ParserProofs Syn.RenderProofs Syn.SerProofs.

(* the two literals of write_revision, as the translator read them *)
Lemma obj_header_fmt_shape : sto_obj_header_fmt = [32] ++ [32] ++ kw_obj ++ [10].
Proof. reflexivity. Qed.
Lemma obj_end_shape : sto_obj_end = [10] ++ kw_endobj ++ [10].
Proof. reflexivity. Qed.

Lemma sep_of_ws w : Forall (fun b => is_ws b = true) w -> sep w.
Proof. induction 1 as [|b w Hb _ IH]; [constructor|apply sep_ws; assumption]. Qed.

Lemma dec_of_N_regular n : Forall (fun b => is_reg b = true) (dec_of_N n) /\ dec_of_N n <> [].
Proof.
  destruct (dec_of_N_spec n) as (Hd & Hne & _). split; [|exact Hne].
  apply Forall_forall. intros b Hb. rewrite forallb_forall in Hd. specialize (Hd b Hb).
  apply digit_regular. unfold isdig in Hd. unfold is_digit. exact Hd.
Qed.

Lemma kw_obj_regular : Forall (fun b => is_reg b = true) kw_obj /\ kw_obj <> [].
Proof. split; [repeat constructor|discriminate]. Qed.
Lemma kw_endobj_regular : Forall (fun b => is_reg b = true) kw_endobj /\ kw_endobj <> [].
Proof. split; [repeat constructor|discriminate]. Qed.

Theorem ser_indirect_roundtrip v id gen :
  storable v -> vdepth v <= MAX_DEPTH -> id < 18446744073709551616 -> gen < 18446744073709551616 ->
  forall R allow rest p,
  exists body, ser v = Ok body /\
    parse_indirect_object R allow F_ANY (mkLx p (obj_text id gen body rest)) =
      Ok (id, gen, v, mkLx (p + lenN (obj_text id gen body rest) - lenN ([10] ++ rest)) ([10] ++ rest)).
Proof.
  intros Hst Hd Hid Hgen R allow rest p.
  destruct (ser_spells v Hst) as (core & Hs & Hsp & Hr).
  exists (core ++ trail v). split; [exact Hs|].
  destruct (dec_of_N_u64 id Hid) as [Pid _]. destruct (dec_of_N_u64 gen Hgen) as [Pgen _].
  destruct (dec_of_N_regular id) as [Rid Nid]. destruct (dec_of_N_regular gen) as [Rgen Ngen].
  destruct kw_obj_regular as [Ro No]. destruct kw_endobj_regular as [Re Ne].
  set (tl := [10] ++ rest).
  assert (Btl : boundary tl) by reflexivity.
  (* the text, token by token *)
  assert (T : obj_text id gen (core ++ trail v) rest =
              [] ++ dec_of_N id ++ ([32] ++ dec_of_N gen ++ ([32] ++ kw_obj ++ ([10] ++ (core ++ trail v ++ ([10] ++ kw_endobj ++ tl)))))).
  { unfold obj_text, tl. rewrite obj_header_fmt_shape, obj_end_shape. cbn [firstn skipn app]. rewrite <- !app_assoc. reflexivity. }
  assert (Rend : renders [IWord kw_endobj] (trail v ++ [10] ++ kw_endobj ++ tl) tl).
  { rewrite app_assoc. apply rn_reg; [|exact Ne|exact Re|exact Btl|constructor].
    apply sep_of_ws. apply Forall_app. split; [apply trail_ws|apply ws_nl]. }
  assert (Rv : renders (items_of v ++ [IWord kw_endobj]) (core ++ trail v ++ [10] ++ kw_endobj ++ tl) tl).
  { eapply renders_app; [|exact Rend]. apply Hr. reflexivity. }
  assert (Rall : renders (IWord (dec_of_N id) :: IWord (dec_of_N gen) :: IWord kw_obj :: items_of v ++ [IWord kw_endobj])
                   (obj_text id gen (core ++ trail v) rest) tl).
  { rewrite T.
    apply rn_reg; [constructor|exact Nid|exact Rid|reflexivity|].
    apply rn_reg; [apply sep_of_ws, ws_sp|exact Ngen|exact Rgen|reflexivity|].
    apply rn_reg; [apply sep_of_ws, ws_sp|exact No|exact Ro|reflexivity|].
    apply renders_ws_prefix; [apply ws_nl| |exact Rv].
    intros E. apply app_eq_nil in E. destruct E as [_ E]. discriminate. }
  destruct (renders_Lexes _ _ _ Rall p) as (q & HL & Hq).
  destruct (parse_indirect_spelled v (items_of v) (dec_of_N id) (dec_of_N gen) id gen Hsp Pid Pgen R allow
              (mkLx p (obj_text id gen (core ++ trail v) rest)) [] (mkLx q tl) Hd HL) as (s1 & E & HL1).
  inversion HL1; subst. rewrite E. f_equal. f_equal. f_equal. unfold tl in *. lia.
Qed.
