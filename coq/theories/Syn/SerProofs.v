(** Syn/SerProofs.v — C04: what the serializer writes is a conforming spelling (in the sense of Syn/Spells.v, Lex/*Proofs.v),
    so that the parser theorems of C03 give the round trip. *)
From PdfV Require Import Base.Prelude Base.DecProofs Gen.Generated Lex.Lexer Lex.StrLexer Lex.LexProofs Lex.NumProofs Lex.StrProofs
  Codec.Model Codec.HexProofs Syn.Prim Syn.Utf8 Syn.Parser Syn.Serialize Syn.Spells Syn.ParserProofs Syn.NameProofs Syn.RenderProofs.

(* ------------------------------------------------------------------ integers *)
Lemma all_digits_isdig l : forallb isdig l = true -> all_digits l = true.
Proof. intros H. exact H. Qed.

Theorem ser_int_word z : (-2147483648 <= z <= 2147483647)%Z -> int_word (dec_of_Z z) z.
Proof.
  intros Hr. unfold dec_of_Z. destruct (Z.ltb_spec z 0) as [Hneg|Hpos].
  - destruct (dec_of_N_spec (Z.to_N (- z))) as (Hd & Hne & Hv).
    pose proof (int_spelling [MINUS] (dec_of_N (Z.to_N (- z))) (or_intror (or_intror eq_refl)) Hne (all_digits_isdig _ Hd)) as H.
    cbn zeta in H. rewrite Hv in H. change (MINUS =? MINUS) with true in H. cbv iota in H.
    rewrite Z2N.id in H by lia. rewrite Z.opp_involutive in H. apply H. exact Hr.
  - destruct (dec_of_N_spec (Z.to_N z)) as (Hd & Hne & Hv).
    pose proof (int_spelling [] (dec_of_N (Z.to_N z)) (or_introl eq_refl) Hne (all_digits_isdig _ Hd)) as H.
    cbn zeta in H. rewrite Hv in H. cbv iota in H. rewrite Z2N.id in H by lia. apply H. exact Hr.
Qed.

Lemma digit_regular d : is_digit d = true -> is_reg d = true.
Proof.
  intros H. pose proof number_chars_regular as T. rewrite forallb_forall in T. apply T.
  unfold is_digit in H. apply andb_true_iff in H. destruct H as [H1 H2]. apply N.leb_le in H1. apply N.leb_le in H2.
  assert (d = 48 \/ d = 49 \/ d = 50 \/ d = 51 \/ d = 52 \/ d = 53 \/ d = 54 \/ d = 55 \/ d = 56 \/ d = 57) as Hd by lia.
  cbn [In]. repeat (destruct Hd as [Hd|Hd]; [subst; tauto|]). subst. tauto.
Qed.

Lemma dec_of_Z_regular z : Forall (fun b => is_reg b = true) (dec_of_Z z) /\ dec_of_Z z <> [].
Proof.
  unfold dec_of_Z. destruct (z <? 0)%Z.
  - destruct (dec_of_N_spec (Z.to_N (- z))) as (Hd & Hne & _). split; [|discriminate].
    constructor; [reflexivity|]. apply Forall_forall. intros d Hin. apply digit_regular.
    rewrite forallb_forall in Hd. apply Hd. exact Hin.
  - destruct (dec_of_N_spec (Z.to_N z)) as (Hd & Hne & _). split; [|exact Hne].
    apply Forall_forall. intros d Hin. apply digit_regular. rewrite forallb_forall in Hd. apply Hd. exact Hin.
Qed.

Lemma dec_of_N_u64 n : n < 18446744073709551616 -> parse_u64 (dec_of_N n) = Ok n /\ is_integer (dec_of_N n) = true.
Proof.
  intros Hn. destruct (dec_of_N_spec n) as (Hd & Hne & Hv).
  destruct (dec_of_N n) as [|d ds] eqn:E; [contradiction|].
  assert (Hd0 : is_digit d = true) by (cbn [forallb] in Hd; apply andb_true_iff in Hd; tauto).
  destruct (digit_not_sign _ Hd0) as (Hs & _ & _ & Hp).
  split.
  - unfold parse_u64. rewrite Hp. change (all_digits (d :: ds)) with (forallb isdig (d :: ds)). rewrite Hd, Hv.
    apply N.ltb_lt in Hn. rewrite Hn. reflexivity.
  - unfold is_integer. rewrite Hs. exact Hd.
Qed.

(* ------------------------------------------------------------------ names *)
Lemma ser_name_byte_table :
  forallb (fun b =>
    if (name_ser_raw_lo <=? b) && (b <=? name_ser_raw_hi) && negb (memN b name_ser_raw_except)
    then is_reg b && negb (b =? HASH)
    else true) all_bytes = true.
Proof. vm_compute. reflexivity. Qed.

Lemma hexdig_upper_ok v : v < 16 -> hexdigit_of v (hexdig_upper v).
Proof.
  intros H. unfold hexdigit_of, hexdig_upper. destruct (N.ltb_spec v 10); [left|right]; split; lia.
Qed.

Theorem ser_name_enc s : wf_bytes s -> name_enc s (flat_map ser_name_byte s).
Proof.
  induction 1 as [|b s Hb Hs IH]; cbn [flat_map]; [constructor|].
  unfold ser_name_byte at 1.
  pose proof (forall_bytes _ ser_name_byte_table b Hb) as T. cbv beta in T.
  destruct ((name_ser_raw_lo <=? b) && (b <=? name_ser_raw_hi) && negb (memN b name_ser_raw_except)).
  - apply andb_true_iff in T. destruct T as [T1 T2]. apply negb_true_iff in T2. cbn [app]. apply ne_raw; assumption.
  - cbn [app]. apply ne_hash; [exact Hb| | |exact IH].
    + apply hexdig_upper_ok. apply N.div_lt_upper_bound; [lia|]. unfold wf_byte in Hb. lia.
    + apply hexdig_upper_ok. apply N.mod_lt. lia.
Qed.

(* ------------------------------------------------------------------ strings *)
Lemma str_ser_table :
  str_ser_hex_from = 128 /\ str_ser_cr = CR /\
  forallb (fun b => if memN b str_ser_escaped
                    then match assocN b str_escapes with Some v => v =? b | None => false end
                    else if b =? str_ser_cr then match assocN 114 str_escapes with Some v => v =? CR | None => false end
                    else negb (special b)) (seqN 0 128) = true.
Proof. repeat split; vm_compute; reflexivity. Qed.

Theorem ser_string_literal_run closing s : Forall (fun b => b < 128) s ->
  spell_run closing 0 s (flat_map ser_str_byte s) 0.
Proof.
  destruct str_ser_table as (_ & Ecr & T). rewrite forallb_forall in T.
  induction 1 as [|b s Hb Hs IH]; cbn [flat_map]; [constructor|].
  specialize (T b ltac:(apply seqN_In; cbn; lia)). cbv beta in T. unfold ser_str_byte at 1.
  destruct (memN b str_ser_escaped).
  - destruct (assocN b str_escapes) as [v|] eqn:Ea; [|discriminate]. apply N.eqb_eq in T. subst v.
    cbn [app]. change 92 with BACKSLASH. apply run_esc; assumption.
  - destruct (b =? str_ser_cr) eqn:Eb.
    + apply N.eqb_eq in Eb. rewrite Ecr in Eb. subst b.
      destruct (assocN 114 str_escapes) as [v|] eqn:Ea; [|discriminate]. apply N.eqb_eq in T. subst v.
      cbn [app]. change 92 with BACKSLASH. apply (run_esc closing 0 0 114 CR); assumption.
    + apply negb_true_iff in T. cbn [app]. apply run_raw; assumption.
Qed.

Lemma hexdig_lower_digit v : v < 16 -> hexdig_lower v < 256 /\ hex_digit (hexdig_lower v) = Some v.
Proof.
  intros H. assert (forallb (fun v => (hexdig_lower v <? 256) && match hex_digit (hexdig_lower v) with Some x => x =? v | None => false end) (seqN 0 16) = true) as T
    by (vm_compute; reflexivity).
  rewrite forallb_forall in T. specialize (T v ltac:(apply seqN_In; cbn; lia)). apply andb_true_iff in T. destruct T as [T1 T2].
  apply N.ltb_lt in T1. destruct (hex_digit (hexdig_lower v)); [|discriminate]. apply N.eqb_eq in T2. subst. split; [exact T1|reflexivity].
Qed.

Theorem ser_string_hex_run s : wf_bytes s ->
  hex_run s (flat_map (fun b => [hexdig_lower (b / 16); hexdig_lower (b mod 16)]) s).
Proof.
  induction 1 as [|b s Hb Hs IH]; cbn [flat_map]; [apply (hx_nil []); constructor|].
  unfold wf_byte in Hb.
  assert (H1 : b / 16 < 16) by (apply N.div_lt_upper_bound; lia).
  assert (H2 : b mod 16 < 16) by (apply N.mod_lt; lia).
  destruct (hexdig_lower_digit _ H1) as [B1 D1]. destruct (hexdig_lower_digit _ H2) as [B2 D2].
  cbn [app].
  replace (b :: s) with ((b / 16) * 16 + b mod 16 :: s) by (f_equal; pose proof (N.div_mod b 16 ltac:(lia)); lia).
  apply (hx_byte [] _ [] _ (b / 16) (b mod 16) s _); try assumption; constructor.
Qed.

(* ------------------------------------------------------------------ structure *)
(* the nested loops of [ser] as standalone functions (convertible with the nested fixes) *)
Definition ser_items : list prim -> bool -> res bytes :=
  fix ser_items (l : list prim) (first : bool) : res bytes :=
    match l with
    | [] => Ok []
    | x :: t => do a <- ser x; do r <- ser_items t false; Ok ((if first then [] else [32]) ++ a ++ r)
    end.
Definition ser_entries : dict -> res bytes :=
  fix ser_entries (d : dict) : res bytes :=
    match d with
    | [] => Ok []
    | (k, x) :: t => do a <- ser x; do r <- ser_entries t; Ok (ser_name k ++ [32] ++ a ++ [10] ++ r)
    end.
Lemma ser_arr l : ser (PArr l) = (do body <- ser_items l true; Ok ([91] ++ body ++ [93])).
Proof. reflexivity. Qed.
Lemma ser_dict d : ser (PDict d) = (do body <- ser_entries d; Ok (dict_open ++ body ++ dict_close)).
Proof. reflexivity. Qed.

(* what a value is written as, item by item *)
Fixpoint items_of (v : prim) : list item :=
  let fix li (l : list prim) : list item := match l with [] => [] | x :: t => items_of x ++ li t end in
  let fix di (d : dict) : list item :=
      match d with [] => [] | (k, x) :: t => IWord (ser_name k) :: items_of x ++ di t end in
  match v with
  | PNull => [IWord kw_null]
  | PBool true => [IWord kw_true]
  | PBool false => [IWord kw_false]
  | PInt z => [IWord (dec_of_Z z)]
  | PReal w => [IWord w]
  | PStr s => if existsb (fun b => str_ser_hex_from <=? b) s then [IHex s] else [IStr s]
  | PName s => [IWord (ser_name s)]
  | PRef i g => [IWord (dec_of_N i); IWord (dec_of_N g); IWord kw_R]
  | PArr l => IWord kw_arr_open :: li l ++ [IWord kw_arr_close]
  | PDict d => IWord kw_dict_open :: di d ++ [IWord kw_dict_close]
  | _ => []
  end.
Definition items_list : list prim -> list item :=
  fix li (l : list prim) : list item := match l with [] => [] | x :: t => items_of x ++ li t end.
Definition items_dict : dict -> list item :=
  fix di (d : dict) : list item :=
    match d with [] => [] | (k, x) :: t => IWord (ser_name k) :: items_of x ++ di t end.
Lemma items_arr l : items_of (PArr l) = IWord kw_arr_open :: items_list l ++ [IWord kw_arr_close].
Proof. reflexivity. Qed.
Lemma items_dict_eq d : items_of (PDict d) = IWord kw_dict_open :: items_dict d ++ [IWord kw_dict_close].
Proof. reflexivity. Qed.

(* the white-space a value's text ends with (a dictionary ends with a newline) *)
Definition trail (v : prim) : bytes := match v with PDict _ => [10] | _ => [] end.

(* values the object model can hold and the serializer can write (streams are written inside an indirect object: C09/C10) *)
Inductive storable : prim -> Prop :=
| st_null : storable PNull
| st_bool b : storable (PBool b)
| st_int z : (-2147483648 <= z <= 2147483647)%Z -> storable (PInt z)
| st_real w : real_word w -> w <> [] -> Forall (fun b => is_reg b = true) w -> storable (PReal w)
| st_str s : wf_bytes s -> storable (PStr s)
| st_name s : wf_bytes s -> is_utf8 s = true -> storable (PName s)
| st_ref i g : i < 18446744073709551616 -> g < 18446744073709551616 -> storable (PRef i g)
| st_arr l : Forall storable l -> storable (PArr l)
| st_dict d : NoDup (keys d) -> Forall (fun kv => wf_bytes (fst kv) /\ is_utf8 (fst kv) = true /\ storable (snd kv)) d ->
    storable (PDict d).

Lemma renders_ws_prefix w its text tl :
  Forall (fun b => is_ws b = true) w -> its <> [] -> renders its text tl -> renders its (w ++ text) tl.
Proof.
  intros Hw Hne Hr.
  assert (Hsep : forall sp, sep sp -> sep (w ++ sp)).
  { intros sp Hsp. induction Hw as [|b w Hb Hw IH]; [exact Hsp|]. cbn [app]. apply sep_ws; assumption. }
  destruct Hr; [contradiction| | | | | |]; rewrite app_assoc.
  - apply rn_reg; auto.
  - apply rn_name; auto.
  - apply rn_delim1; auto.
  - apply rn_delim2; auto.
  - apply rn_str; auto.
  - apply rn_hex; auto.
Qed.

Lemma hexdig_lower_not_lt : forallb (fun v => negb (hexdig_lower v =? LT)) (seqN 0 16) = true.
Proof. vm_compute. reflexivity. Qed.

Definition bnd (tl : bytes) : Prop := boundary tl.

Lemma items_nonempty v : storable v -> items_of v <> [].
Proof.
  intros H. destruct H; cbn [items_of]; try discriminate.
  - destruct b; discriminate.
  - destruct (existsb _ s); discriminate.
Qed.

Definition ser_ok (v : prim) : Prop :=
  exists core, ser v = Ok (core ++ trail v) /\ spells v (items_of v) /\
    forall tl, boundary tl -> renders (items_of v) (core ++ trail v ++ tl) (trail v ++ tl).

Lemma ws_nl : Forall (fun b => is_ws b = true) [10].
Proof. repeat constructor. Qed.
Lemma ws_sp : Forall (fun b => is_ws b = true) [32].
Proof. repeat constructor. Qed.

Lemma word_case v w :
  ser v = Ok w -> trail v = [] -> items_of v = [IWord w] -> spells v [IWord w] ->
  w <> [] -> Forall (fun b => is_reg b = true) w -> ser_ok v.
Proof.
  intros Hs Ht Hi Hsp Hne Hreg. exists w. rewrite Ht, app_nil_r, Hi. split; [exact Hs|]. split; [exact Hsp|].
  intros tl Hb. cbn [app]. apply (rn_reg [] w [] tl tl); [constructor|exact Hne|exact Hreg|exact Hb|constructor].
Qed.

Lemma trail_ws v : Forall (fun b => is_ws b = true) (trail v).
Proof. destruct v; cbn [trail]; try constructor. reflexivity. constructor. Qed.

(* the elements of an array, up to and including the closing bracket *)
Lemma ser_items_ok l : Forall ser_ok l -> Forall storable l -> forall first,
  exists body, ser_items l first = Ok body /\ spells_list l (items_list l) /\
    (forall tl, renders (items_list l ++ [IWord kw_arr_close]) (body ++ 93 :: tl) tl) /\
    (first = false -> forall tl, boundary (body ++ 93 :: tl)).
Proof.
  induction 1 as [|x t Hx Ht IH]; intros Hst first.
  - exists []. split; [reflexivity|]. split; [constructor|]. split.
    + intros tl. cbn [app items_list]. apply (rn_delim1 [] 93 [] tl tl); try reflexivity; [constructor|destruct tl; [exact I|reflexivity]|constructor].
    + intros _ tl. reflexivity.
  - inversion Hst as [|? ? Sx St]; subst.
    destruct Hx as (core & Hs & Hsp & Hr). destruct (IH St false) as (bt & Hbt & Hspt & Hrt & Hbnd).
    exists ((if first then [] else [32]) ++ (core ++ trail x) ++ bt).
    split; [cbn [ser_items]; rewrite Hs; cbn [bind]; rewrite Hbt; reflexivity|].
    split; [change (items_list (x :: t)) with (items_of x ++ items_list t); constructor; assumption|]. split.
    + intros tl. change (items_list (x :: t)) with (items_of x ++ items_list t). rewrite <- app_assoc.
      assert (Hx' : renders (items_of x) (core ++ trail x ++ bt ++ 93 :: tl) (trail x ++ bt ++ 93 :: tl))
        by (apply Hr; apply Hbnd; reflexivity).
      assert (Ht' : renders (items_list t ++ [IWord kw_arr_close]) (trail x ++ bt ++ 93 :: tl) tl).
      { apply renders_ws_prefix; [apply trail_ws|destruct (items_list t); discriminate|apply Hrt]. }
      pose proof (renders_app _ _ _ _ _ Hx' Ht') as Hall.
      match goal with |- renders _ ?T _ =>
        replace T with ((if first then [] else [32]) ++ (core ++ trail x ++ bt ++ 93 :: tl))
          by (rewrite <- !app_assoc; reflexivity) end.
      destruct first; [exact Hall|].
      apply renders_ws_prefix; [apply ws_sp| |exact Hall].
      intros E. apply app_eq_nil in E. destruct E as [E _]. exact (items_nonempty _ Sx E).
    + intros -> tl. reflexivity.
Qed.

(* the entries of a dictionary, up to and including the closing `>>` *)
Lemma ser_entries_ok d :
  Forall (fun kv => ser_ok (snd kv)) d ->
  Forall (fun kv => wf_bytes (fst kv) /\ is_utf8 (fst kv) = true /\ storable (snd kv)) d ->
  exists body, ser_entries d = Ok body /\ spells_dict d (items_dict d) /\
    forall tl, renders (items_dict d ++ [IWord kw_dict_close]) (body ++ 62 :: 62 :: tl) tl.
Proof.
  induction 1 as [|[k x] t Hx Ht IH]; intros Hst.
  - exists []. split; [reflexivity|]. split; [constructor|].
    intros tl. cbn [app items_dict]. apply (rn_delim2 [] 62 [] tl tl); [constructor|right; reflexivity|constructor].
  - inversion Hst as [|? ? (Wk & Uk & Sx) St]; subst. cbn [fst snd] in *.
    destruct Hx as (core & Hs & Hsp & Hr). destruct (IH St) as (bt & Hbt & Hspt & Hrt).
    exists (ser_name k ++ [32] ++ (core ++ trail x) ++ [10] ++ bt).
    split; [cbn [ser_entries]; rewrite Hs; cbn [bind]; rewrite Hbt; reflexivity|].
    pose proof (ser_name_enc k Wk) as He.
    split.
    + change (items_dict ((k, x) :: t)) with (IWord (ser_name k) :: items_of x ++ items_dict t).
      constructor; [apply name_spelling; assumption|assumption|assumption].
    + intros tl. change (items_dict ((k, x) :: t)) with (IWord (ser_name k) :: items_of x ++ items_dict t).
      cbn [app]. rewrite <- app_assoc.
      set (rest := 62 :: 62 :: tl).
      assert (Hx' : renders (items_of x) (core ++ trail x ++ [10] ++ bt ++ rest) (trail x ++ [10] ++ bt ++ rest))
        by (apply Hr; reflexivity).
      assert (Ht' : renders (items_dict t ++ [IWord kw_dict_close]) (trail x ++ [10] ++ bt ++ rest) tl).
      { rewrite app_assoc. apply renders_ws_prefix; [|destruct (items_dict t); discriminate|apply Hrt].
        apply Forall_app. split; [apply trail_ws|apply ws_nl]. }
      pose proof (renders_app _ _ _ _ _ Hx' Ht') as Hall.
      match goal with |- renders _ ?T _ =>
        replace T with ([] ++ (SLASH :: flat_map ser_name_byte k) ++ ([32] ++ core ++ trail x ++ [10] ++ bt ++ rest))
          by (unfold ser_name; cbn [app]; rewrite <- !app_assoc; cbn [app]; rewrite <- !app_assoc; reflexivity) end.
      change (ser_name k) with (SLASH :: flat_map ser_name_byte k).
      apply rn_name; [constructor|eapply name_enc_regular; exact He|reflexivity|].
      apply renders_ws_prefix; [apply ws_sp| |exact Hall].
      intros E. apply app_eq_nil in E. destruct E as [E _]. exact (items_nonempty _ Sx E).
Qed.

Theorem ser_spells : forall v, storable v -> ser_ok v.
Proof.
  induction v using prim_ind'; intros Hst; inversion Hst; subst.
  - (* null *) apply (word_case _ kw_null); try reflexivity; [constructor|discriminate|repeat constructor].
  - (* int *) destruct (dec_of_Z_regular z) as [Hr Hne].
    apply (word_case _ (dec_of_Z z)); try reflexivity; [constructor; apply ser_int_word; assumption|exact Hne|exact Hr].
  - (* real *) apply (word_case _ t); try reflexivity; [constructor|..]; assumption.
  - (* bool *) destruct b.
    + apply (word_case _ kw_true); try reflexivity; [constructor|discriminate|repeat constructor].
    + apply (word_case _ kw_false); try reflexivity; [constructor|discriminate|repeat constructor].
  - (* string *)
    unfold ser_ok. cbn [ser trail items_of]. unfold ser_string.
    destruct (existsb (fun b => str_ser_hex_from <=? b) s) eqn:Eh.
    + (* hexadecimal form *)
      set (digs := flat_map (fun b => [hexdig_lower (b / 16); hexdig_lower (b mod 16)]) s).
      exists (60 :: digs ++ [62]). rewrite app_nil_r. split; [reflexivity|]. split; [constructor|].
      intros tl Hb. cbn [app]. rewrite <- app_assoc. cbn [app].
      pose proof (hexstring_lex_spelled s digs tl (ser_string_hex_run s H0)) as HL.
      replace (60 :: digs ++ 62 :: tl) with ([] ++ LT :: (digs ++ [62]) ++ tl) by (rewrite <- app_assoc; reflexivity).
      apply (rn_hex [] (digs ++ [62]) s [] tl tl); [constructor| | |constructor].
      * rewrite <- app_assoc. exact HL.
      * rewrite <- app_assoc. cbn [app]. unfold digs. destruct s as [|b0 s']; [reflexivity|]. cbn [flat_map app].
        pose proof hexdig_lower_not_lt as T. rewrite forallb_forall in T.
        assert (Hb0 : b0 < 256) by (inversion H0; assumption).
        assert (Hq : b0 / 16 < 16) by (apply N.div_lt_upper_bound; lia).
        set (q := b0 / 16) in *.
        assert (Hin : In q (seqN 0 16)) by (apply seqN_In; cbn; lia).
        specialize (T q Hin).
        apply negb_true_iff in T. exact T.
    + (* literal form *)
      set (body := flat_map ser_str_byte s).
      exists (40 :: body ++ [41]). rewrite app_nil_r. split; [reflexivity|]. split; [constructor|].
      intros tl Hb. cbn [app]. rewrite <- app_assoc. cbn [app].
      assert (Hsmall : Forall (fun b => b < 128) s).
      { apply Forall_forall. intros b Hin. destruct str_ser_table as (E128 & _). rewrite E128 in Eh.
        destruct (N.ltb_spec b 128) as [|Hge]; [assumption|]. exfalso.
        assert (existsb (fun b0 => 128 <=? b0) s = true); [|congruence].
        apply existsb_exists. exists b. split; [exact Hin|apply N.leb_le; exact Hge]. }
      pose proof (string_lex_spelled s body tl (ser_string_literal_run (RPAREN :: tl) s Hsmall)) as HL.
      replace (40 :: body ++ 41 :: tl) with ([] ++ LPAREN :: (body ++ [41]) ++ tl) by (rewrite <- app_assoc; reflexivity).
      apply (rn_str [] (body ++ [41]) s [] tl tl); [constructor| |constructor].
      rewrite <- app_assoc. exact HL.
  - (* name *)
    unfold ser_ok. cbn [ser trail items_of]. exists (ser_name s). rewrite app_nil_r. split; [reflexivity|].
    pose proof (ser_name_enc s H0) as He. split.
    + constructor. apply name_spelling; assumption.
    + intros tl Hb. cbn [app]. unfold ser_name.
      apply (rn_name [] (flat_map ser_name_byte s) [] tl tl); [constructor|eapply name_enc_regular; exact He|exact Hb|constructor].
  - (* array *)
    unfold ser_ok. rewrite ser_arr, items_arr. cbn [trail].
    match goal with Hf : Forall storable l |- _ => rename Hf into Hfl end.
    assert (Hok : Forall ser_ok l).
    { apply Forall_forall. intros x Hin. rewrite Forall_forall in H. apply H; [exact Hin|].
      rewrite Forall_forall in Hfl. apply Hfl. exact Hin. }
    destruct (ser_items_ok l Hok Hfl true) as (body & Hb & Hsp & Hr & _).
    exists ([91] ++ body ++ [93]). rewrite app_nil_r, Hb. split; [reflexivity|]. split; [constructor; exact Hsp|].
    intros tl _. cbn [app]. rewrite <- app_assoc. cbn [app].
    apply (rn_delim1 [] 91 _ (body ++ 93 :: tl) tl); try reflexivity; [constructor|destruct (body ++ 93 :: tl); [exact I|reflexivity]|apply Hr].
  - (* dict *)
    unfold ser_ok. rewrite ser_dict, items_dict_eq. cbn [trail].
    match goal with Hn : NoDup (keys d), Hf : Forall _ d |- _ => rename Hn into Hnd; rename Hf into Hfd end.
    assert (Hok : Forall (fun kv => ser_ok (snd kv)) d).
    { apply Forall_forall. intros kv Hin. rewrite Forall_forall in H. apply H; [exact Hin|].
      rewrite Forall_forall in Hfd. apply Hfd. exact Hin. }
    destruct (ser_entries_ok d Hok Hfd) as (body & Hb & Hsp & Hr).
    exists ([60; 60; 10] ++ body ++ [62; 62]). rewrite Hb. split.
    { cbn [bind]. unfold dict_open, dict_close. f_equal. rewrite <- !app_assoc. reflexivity. }
    split; [constructor; assumption|].
    intros tl _. cbn [app]. rewrite <- app_assoc. cbn [app].
    apply (rn_delim2 [] 60 _ (10 :: body ++ 62 :: 62 :: 10 :: tl) (10 :: tl)); [constructor|left; reflexivity|].
    apply (renders_ws_prefix [10]); [apply ws_nl|destruct (items_dict d); discriminate|apply Hr].
  - (* ref *)
    match goal with Hi : i < 18446744073709551616, Hg : g < 18446744073709551616 |- _ =>
      destruct (dec_of_N_u64 i Hi) as [Pi Ii]; destruct (dec_of_N_u64 g Hg) as [Pg Ig] end.
    destruct (dec_of_N_spec i) as (Di & Ni & _). destruct (dec_of_N_spec g) as (Dg & Ng & _).
    assert (Ri : Forall (fun b => is_reg b = true) (dec_of_N i)).
    { apply Forall_forall. intros d Hin. apply digit_regular. rewrite forallb_forall in Di. apply Di. exact Hin. }
    assert (Rg : Forall (fun b => is_reg b = true) (dec_of_N g)).
    { apply Forall_forall. intros d Hin. apply digit_regular. rewrite forallb_forall in Dg. apply Dg. exact Hin. }
    unfold ser_ok. cbn [ser trail items_of]. exists (dec_of_N i ++ [32] ++ dec_of_N g ++ [32; 82]). rewrite app_nil_r.
    split; [reflexivity|]. split; [constructor; repeat split; assumption|].
    intros tl Hb. cbn [app].
    replace ((dec_of_N i ++ 32 :: dec_of_N g ++ [32; 82]) ++ tl) with ([] ++ dec_of_N i ++ ([32] ++ dec_of_N g ++ ([32] ++ [82] ++ tl)))
      by (cbn [app]; rewrite <- !app_assoc; cbn [app]; rewrite <- app_assoc; reflexivity).
    apply rn_reg; [constructor|exact Ni|exact Ri|reflexivity|].
    apply rn_reg; [repeat constructor|exact Ng|exact Rg|reflexivity|].
    apply rn_reg; [repeat constructor|discriminate|repeat constructor|exact Hb|constructor].
Qed.

(* ------------------------------------------------------------------ the round trip *)
Theorem ser_parse_roundtrip v : storable v -> vdepth v <= MAX_DEPTH ->
  forall R cx tl, boundary tl ->
  exists core, ser v = Ok (core ++ trail v) /\
    (follow_ok [] (mkLx (lenN core) (trail v ++ tl)) -> nostream_at [] (mkLx (lenN core) (trail v ++ tl)) ->
     parse_ctx R cx F_ANY MAX_DEPTH (mkLx 0 ((core ++ trail v) ++ tl)) = Ok (v, mkLx (lenN core) (trail v ++ tl))).
Proof.
  intros Hst Hd R cx tl Hb. destruct (ser_spells v Hst) as (core & Hs & Hsp & Hr).
  exists core. split; [exact Hs|]. intros HF HN. rewrite <- app_assoc.
  apply (parse_rendered v (items_of v) _ _ R cx 0 Hsp Hd (Hr tl Hb)); [|exact HF|exact HN].
  rewrite !lenN_app. lia.
Qed.

(* at the end of the buffer (nothing, or the newline a dictionary ends with, follows) *)
Corollary ser_parse_eof v : storable v -> vdepth v <= MAX_DEPTH -> forall R,
  exists b, ser v = Ok b /\ parse R F_ANY b = Ok v.
Proof.
  intros Hst Hd R. destruct (ser_parse_roundtrip v Hst Hd R None [] I) as (core & Hs & Hp).
  exists (core ++ trail v). split; [exact Hs|]. unfold parse. rewrite app_nil_r in Hp. 
  destruct (follow_ws_tail_any (trail v) (lenN core) (trail_ws v)) as [HF HN].
  rewrite app_nil_r in Hp. rewrite (Hp HF HN). reflexivity.
Qed.

(* the serializer never panics, whatever the value *)
Lemma ser_items_no_panic l : Forall (fun v => forall s, ser v <> Panic s) l -> forall first s, ser_items l first <> Panic s.
Proof.
  induction 1 as [|x t Hx Ht IH]; intros first s; cbn [ser_items]; [discriminate|].
  destruct (ser x) as [a|e|p|] eqn:E; cbn [bind]; try discriminate; [|exfalso; exact (Hx p eq_refl)].
  specialize (IH false). destruct (ser_items t false) as [r|e|p|]; cbn [bind]; try discriminate.
  exfalso. exact (IH p eq_refl).
Qed.
Lemma ser_entries_no_panic d : Forall (fun kv => forall s, ser (snd kv) <> Panic s) d -> forall s, ser_entries d <> Panic s.
Proof.
  induction 1 as [|[k x] t Hx Ht IH]; intros s; cbn [ser_entries]; [discriminate|]. cbn [snd] in Hx.
  destruct (ser x) as [a|e|p|] eqn:E; cbn [bind]; try discriminate; [|exfalso; exact (Hx p eq_refl)].
  destruct (ser_entries t) as [r|e|p|]; cbn [bind]; try discriminate.
  exfalso. exact (IH p eq_refl).
Qed.

Theorem ser_no_panic : forall v s, ser v <> Panic s.
Proof.
  induction v using prim_ind'; intros s0; try (cbn [ser]; discriminate).
  - destruct b; discriminate.
  - rewrite ser_arr. pose proof (ser_items_no_panic l H true) as Hn.
    destruct (ser_items l true) as [r|e|p|]; cbn [bind]; try discriminate. exfalso. exact (Hn p eq_refl).
  - rewrite ser_dict. pose proof (ser_entries_no_panic d H) as Hn.
    destruct (ser_entries d) as [r|e|p|]; cbn [bind]; try discriminate. exfalso. exact (Hn p eq_refl).
  - change (ser (PStreamData d x)) with (do body <- ser_entries d; Ok (dict_open ++ body ++ dict_close ++ stream_open ++ x ++ stream_close)).
    pose proof (ser_entries_no_panic d H) as Hn.
    destruct (ser_entries d) as [r|e|p|]; cbn [bind]; try discriminate. exfalso. exact (Hn p eq_refl).
Qed.
