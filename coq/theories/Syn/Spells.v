(** Syn/Spells.v — the specification object for C03/C04 at the token level: which item sequences
    (lexemes and string bodies) denote which value (ISO 32000-1 §7.3), independent of the parser.
    [Lexes] ties an item sequence to a lexer state; it only mentions [next] and the two string lexers,
    whose conformance is the subject of Lex/LexProofs.v and Lex/StrProofs.v. *)
From PdfV Require Import Base.Prelude Gen.Generated Lex.Lexer Lex.StrLexer Syn.Prim Syn.Parser.

Inductive item := IWord (w : bytes) | IStr (bs : bytes) | IHex (bs : bytes).

(* the word [next] returns where the item begins *)
Definition word_of (i : item) : bytes :=
  match i with IWord w => w | IStr _ => kw_lparen | IHex _ => kw_lt end.

Inductive Lexes : lx -> list item -> lx -> Prop :=
| L_nil s : Lexes s [] s
| L_word s w s1 its s2 : next s = Ok (w, s1) -> Lexes s1 its s2 -> Lexes s (IWord w :: its) s2
| L_str s s1 bs off its s2 :
    next s = Ok (kw_lparen, s1) -> string_lex (lrest s1) = Ok (bs, off) ->
    Lexes (advance s1 off) its s2 -> Lexes s (IStr bs :: its) s2
| L_hex s s1 bs off its s2 :
    next s = Ok (kw_lt, s1) -> hexstring_lex (lrest s1) = Ok (bs, off) ->
    Lexes (advance s1 off) its s2 -> Lexes s (IHex bs :: its) s2.

(* lexeme classes, stated through the functions the standard's grammar fixes *)
Definition int_word (w : bytes) (z : Z) : Prop := is_integer w = true /\ parse_i32 w = Ok z.
Definition real_word (w : bytes) : Prop :=
  (is_integer w = false /\ real_number w = Some w /\ f32_parsable w = true)
  \/ (is_integer w = true /\ (forall z, parse_i32 w <> Ok z)).       (* an integer beyond 32 bits denotes a real *)
Definition name_word (w s : bytes) : Prop := exists enc, w = SLASH :: enc /\ decode_name enc = Ok s.
Definition ref_words (a b : bytes) (i g : N) : Prop :=
  is_integer a = true /\ is_integer b = true /\ parse_u64 a = Ok i /\ parse_u64 b = Ok g.

Definition keys (d : dict) : list bytes := map fst d.

(* [spells v its]: the item sequence [its] is a way of writing [v] *)
Inductive spells : prim -> list item -> Prop :=
| sp_null : spells PNull [IWord kw_null]
| sp_true : spells (PBool true) [IWord kw_true]
| sp_false : spells (PBool false) [IWord kw_false]
| sp_int w z : int_word w z -> spells (PInt z) [IWord w]
| sp_real w : real_word w -> spells (PReal w) [IWord w]
| sp_name w s : name_word w s -> spells (PName s) [IWord w]
| sp_str bs : spells (PStr bs) [IStr bs]
| sp_hex bs : spells (PStr bs) [IHex bs]
| sp_ref a b i g : ref_words a b i g -> spells (PRef i g) [IWord a; IWord b; IWord kw_R]
| sp_arr vs body : spells_list vs body -> spells (PArr vs) (IWord kw_arr_open :: body ++ [IWord kw_arr_close])
| sp_dict d body : NoDup (keys d) -> spells_dict d body ->
    spells (PDict d) (IWord kw_dict_open :: body ++ [IWord kw_dict_close])
with spells_list : list prim -> list item -> Prop :=
| sl_nil : spells_list [] []
| sl_cons v vs its body : spells v its -> spells_list vs body -> spells_list (v :: vs) (its ++ body)
with spells_dict : dict -> list item -> Prop :=
| sd_nil : spells_dict [] []
| sd_cons k w v d its body : name_word w k -> spells v its -> spells_dict d body ->
    spells_dict ((k, v) :: d) (IWord w :: its ++ body).

Scheme spells_mut := Minimality for spells Sort Prop
  with spells_list_mut := Minimality for spells_list Sort Prop
  with spells_dict_mut := Minimality for spells_dict Sort Prop.
Combined Scheme spells_mutind from spells_mut, spells_list_mut, spells_dict_mut.

(* nesting depth of containers, as counted by the parser's max_depth *)
Fixpoint vdepth (v : prim) : N :=
  let fix dl (l : list prim) : N := match l with [] => 0 | x :: t => N.max (vdepth x) (dl t) end in
  let fix dd (d : dict) : N := match d with [] => 0 | (_, x) :: t => N.max (vdepth x) (dd t) end in
  match v with
  | PArr l => 1 + dl l
  | PDict d => 1 + dd d
  | _ => 0
  end.
Definition ldepth (l : list prim) : N := fold_right (fun x a => N.max (vdepth x) a) 0 l.
Definition ddepth (d : dict) : N := fold_right (fun kv a => N.max (vdepth (snd kv)) a) 0 d.
