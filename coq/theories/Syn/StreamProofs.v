(** Syn/StreamProofs.v — C03, streams: a stream object  `<< … /Length n … >> stream EOL data EOL? endstream`  inside an indirect
    object parses to the stream with exactly the n bytes after the end-of-line as its data, LF or CR LF after the keyword. *)
From PdfV Require Import Base.Prelude Gen.Generated Lex.Lexer Lex.StrLexer Syn.Prim Syn.Parser Syn.Spells Syn.ParserProofs Syn.RenderProofs.

Lemma stream_consts : stream_lf = 10 /\ stream_after_lf = 1 /\ stream_cr = 13 /\ stream_cr_lf = 10 /\ stream_after_crlf = 2.
Proof. repeat split; reflexivity. Qed.

Definition stream_eol (eol : bytes) : Prop := eol = [10] \/ eol = [13; 10].

Lemma next_stream_ok s2 s3 eol tail :
  next s2 = Ok (kw_stream, s3) -> stream_eol eol -> lrest s3 = eol ++ tail ->
  next_stream s2 = Ok (mkLx (lpos s3 + lenN eol) tail).
Proof.
  intros Hn He Hr. unfold next_stream. rewrite Hn. cbn [bind]. rewrite Hr.
  destruct stream_consts as (-> & -> & -> & -> & ->).
  destruct He as [-> | ->]; cbn [app].
  - rewrite N.eqb_refl. unfold advance. rewrite Hr. reflexivity.
  - change (13 =? 10) with false. rewrite !N.eqb_refl. unfold advance. rewrite Hr. reflexivity.
Qed.

Lemma read_n_exact p data rest : read_n (mkLx p (data ++ rest)) (lenN data) = (p, lenN data, mkLx (p + lenN data) rest).
Proof.
  unfold read_n. cbn [lrest lpos]. rewrite lenN_app.
  replace (N.min (lenN data) (lenN data + lenN rest)) with (lenN data) by lia.
  unfold advance. cbn [lpos lrest]. rewrite drop_app_exact. reflexivity.
Qed.

Lemma dict_fuel s0 body s2 : Lexes s0 (IWord kw_dict_open :: body ++ [IWord kw_dict_close]) s2 -> (length body + 2 <= fuel_for s0)%nat.
Proof. intros H. pose proof (Lexes_fuel _ _ _ H) as Hf. cbn [length] in Hf. rewrite app_length in Hf. cbn [length] in Hf. lia. Qed.

(** the /Length entry: a direct non-negative integer, or a reference that the resolver (asked for an integer) resolves to one —
    whichever way that integer object is stored (ordinary indirect object or member of an object stream: C11_member) *)
Definition length_entry (R : resolver) (d : dict) (len : N) : Prop :=
  dict_get key_Length d = Some (PInt (Z.of_N len)) \/
  exists i g, dict_get key_Length d = Some (PRef i g) /\ R i g F_INTEGER = Ok (PInt (Z.of_N len)).

(** the dictionary followed by the keyword `stream`: the parser takes the stream branch *)
Theorem parse_stream_spelled_len d body :
  spells_dict d body -> NoDup (keys d) ->
  forall fuel R id gen depth s s2 s3 s4 eol data rest,
    (length body + 2 <= fuel)%nat -> 1 + ddepth d <= depth ->
    Lexes s (IWord kw_dict_open :: body ++ [IWord kw_dict_close]) s2 ->
    next s2 = Ok (kw_stream, s3) -> stream_eol eol -> lrest s3 = eol ++ data ++ rest ->
    length_entry R d (lenN data) ->
    next_expect (mkLx (lpos s3 + lenN eol + lenN data) rest) kw_endstream = Ok s4 ->
    parse_fuel fuel R (Some (id, gen)) F_ANY depth s = Ok (PStream d id gen (lpos s3 + lenN eol) (lenN data), s4).
Proof.
  intros Hsd Hnd fuel R id gen depth s s2 s3 s4 eol data rest Hf Hd HL Hn He Hr Hlen Hend.
  destruct flags_any as (FD & _).
  destruct fuel as [|f]; [lia|].
  destruct (Lexes_word_inv _ _ _ _ HL) as [s1 [E1 HL1]].
  rewrite (parse_step _ _ _ _ _ _ _ _ E1). unfold parse_body.
  change (bytes_eqb kw_dict_open kw_dict_open) with true. cbv iota. rewrite FD. cbn [bind].
  assert (depth =? 0 = false) as -> by (apply N.eqb_neq; lia).
  pose proof (proj2 (proj2 parse_spelled_mut) d body Hsd) as PD. unfold P_dict in PD.
  destruct (PD f R (Some (id, gen)) (depth - 1) s1 [] s2 [] ltac:(lia) ltac:(lia) Hnd HL1) as [s2' [E2 HL2]].
  assert (Es : s2' = s2) by (inversion HL2; reflexivity). subst s2'. rewrite E2. cbn [bind app].
  rewrite (next_peek _ _ _ Hn). cbn [bind]. rewrite bytes_eqb_refl.
  unfold parse_stream_object. rewrite (next_stream_ok s2 s3 eol (data ++ rest) Hn He Hr). cbn [bind].
  assert (Hz : (0 <=? Z.of_N (lenN data))%Z = true) by (apply Z.leb_le; lia).
  destruct Hlen as [Hlen | (i & g & Hlen & HR)].
  - rewrite Hlen, Hz, N2Z.id. cbn [bind].
    rewrite read_n_exact. rewrite N.eqb_refl. cbn [negb]. rewrite Hend. reflexivity.
  - rewrite Hlen, HR. cbn [bind as_usize_prim]. rewrite Hz, N2Z.id. cbn [bind].
    rewrite read_n_exact. rewrite N.eqb_refl. cbn [negb]. rewrite Hend. reflexivity.
Qed.

Theorem parse_stream_spelled d body :
  spells_dict d body -> NoDup (keys d) ->
  forall fuel R id gen depth s s2 s3 s4 eol data rest,
    (length body + 2 <= fuel)%nat -> 1 + ddepth d <= depth ->
    Lexes s (IWord kw_dict_open :: body ++ [IWord kw_dict_close]) s2 ->
    next s2 = Ok (kw_stream, s3) -> stream_eol eol -> lrest s3 = eol ++ data ++ rest ->
    dict_get key_Length d = Some (PInt (Z.of_N (lenN data))) ->
    next_expect (mkLx (lpos s3 + lenN eol + lenN data) rest) kw_endstream = Ok s4 ->
    parse_fuel fuel R (Some (id, gen)) F_ANY depth s = Ok (PStream d id gen (lpos s3 + lenN eol) (lenN data), s4).
Proof.
  intros Hsd Hnd fuel R id gen depth s s2 s3 s4 eol data rest Hf Hd HL Hn He Hr Hlen Hend.
  eapply parse_stream_spelled_len; eauto. left. exact Hlen.
Qed.

(** … inside `n g obj … endobj` *)
Theorem parse_indirect_stream_spelled d body a b id gen :
  spells_dict d body -> NoDup (keys d) -> parse_u64 a = Ok id -> parse_u64 b = Ok gen ->
  forall R allow s s2 s3 s4 s5 eol data rest,
    1 + ddepth d <= MAX_DEPTH ->
    Lexes s (IWord a :: IWord b :: IWord kw_obj :: IWord kw_dict_open :: body ++ [IWord kw_dict_close]) s2 ->
    next s2 = Ok (kw_stream, s3) -> stream_eol eol -> lrest s3 = eol ++ data ++ rest ->
    dict_get key_Length d = Some (PInt (Z.of_N (lenN data))) ->
    next_expect (mkLx (lpos s3 + lenN eol + lenN data) rest) kw_endstream = Ok s4 ->
    next_expect s4 kw_endobj = Ok s5 ->
    parse_indirect_object R allow F_ANY s = Ok (id, gen, PStream d id gen (lpos s3 + lenN eol) (lenN data), s5).
Proof.
  intros Hsd Hnd Ha Hb R allow s s2 s3 s4 s5 eol data rest Hd HL Hn He Hr Hlen Hend Hobj.
  destruct (Lexes_word_inv _ _ _ _ HL) as [t1 [E1 HL1]].
  destruct (Lexes_word_inv _ _ _ _ HL1) as [t2 [E2 HL2]].
  destruct (Lexes_word_inv _ _ _ _ HL2) as [t3 [E3 HL3]].
  unfold parse_indirect_object. rewrite E1. cbn [bind]. rewrite Ha. cbn [bind]. rewrite E2. cbn [bind]. rewrite Hb. cbn [bind].
  unfold next_expect at 1. rewrite E3. cbn [bind]. rewrite bytes_eqb_refl. cbv iota. cbn [bind].
  unfold parse_ctx.
  rewrite (parse_stream_spelled d body Hsd Hnd (fuel_for t3) R id gen MAX_DEPTH t3 s2 s3 s4 eol data rest
             (dict_fuel t3 _ _ HL3) Hd HL3 Hn He Hr Hlen Hend).
  cbn [bind]. rewrite Hobj. destruct allow; reflexivity.
Qed.

Theorem parse_indirect_stream_spelled_len d body a b id gen :
  spells_dict d body -> NoDup (keys d) -> parse_u64 a = Ok id -> parse_u64 b = Ok gen ->
  forall R allow s s2 s3 s4 s5 eol data rest,
    1 + ddepth d <= MAX_DEPTH ->
    Lexes s (IWord a :: IWord b :: IWord kw_obj :: IWord kw_dict_open :: body ++ [IWord kw_dict_close]) s2 ->
    next s2 = Ok (kw_stream, s3) -> stream_eol eol -> lrest s3 = eol ++ data ++ rest ->
    length_entry R d (lenN data) ->
    next_expect (mkLx (lpos s3 + lenN eol + lenN data) rest) kw_endstream = Ok s4 ->
    next_expect s4 kw_endobj = Ok s5 ->
    parse_indirect_object R allow F_ANY s = Ok (id, gen, PStream d id gen (lpos s3 + lenN eol) (lenN data), s5).
Proof.
  intros Hsd Hnd Ha Hb R allow s s2 s3 s4 s5 eol data rest Hd HL Hn He Hr Hlen Hend Hobj.
  destruct (Lexes_word_inv _ _ _ _ HL) as [t1 [E1 HL1]].
  destruct (Lexes_word_inv _ _ _ _ HL1) as [t2 [E2 HL2]].
  destruct (Lexes_word_inv _ _ _ _ HL2) as [t3 [E3 HL3]].
  unfold parse_indirect_object. rewrite E1. cbn [bind]. rewrite Ha. cbn [bind]. rewrite E2. cbn [bind]. rewrite Hb. cbn [bind].
  unfold next_expect at 1. rewrite E3. cbn [bind]. rewrite bytes_eqb_refl. cbv iota. cbn [bind].
  unfold parse_ctx.
  rewrite (parse_stream_spelled_len d body Hsd Hnd (fuel_for t3) R id gen MAX_DEPTH t3 s2 s3 s4 eol data rest
             (dict_fuel t3 _ _ HL3) Hd HL3 Hn He Hr Hlen Hend).
  cbn [bind]. rewrite Hobj. destruct allow; reflexivity.
Qed.

(** C11, second sentence: the data window of a stream is the same whether /Length is written directly or as a reference that
    resolves to the same integer — the two dictionaries differ only in that entry, the bytes after the keyword are the same. *)
Theorem stream_data_independent_of_length_storage d1 body1 d2 body2 a b id gen :
  spells_dict d1 body1 -> NoDup (keys d1) -> spells_dict d2 body2 -> NoDup (keys d2) ->
  parse_u64 a = Ok id -> parse_u64 b = Ok gen ->
  forall R allow i g data eol rest,
    dict_get key_Length d1 = Some (PInt (Z.of_N (lenN data))) ->
    dict_get key_Length d2 = Some (PRef i g) -> R i g F_INTEGER = Ok (PInt (Z.of_N (lenN data))) ->
    1 + ddepth d1 <= MAX_DEPTH -> 1 + ddepth d2 <= MAX_DEPTH -> stream_eol eol ->
    forall s s2 s3 s4 s5 t t2 t3 t4 t5,
    Lexes s (IWord a :: IWord b :: IWord kw_obj :: IWord kw_dict_open :: body1 ++ [IWord kw_dict_close]) s2 ->
    next s2 = Ok (kw_stream, s3) -> lrest s3 = eol ++ data ++ rest ->
    next_expect (mkLx (lpos s3 + lenN eol + lenN data) rest) kw_endstream = Ok s4 -> next_expect s4 kw_endobj = Ok s5 ->
    Lexes t (IWord a :: IWord b :: IWord kw_obj :: IWord kw_dict_open :: body2 ++ [IWord kw_dict_close]) t2 ->
    next t2 = Ok (kw_stream, t3) -> lrest t3 = eol ++ data ++ rest ->
    next_expect (mkLx (lpos t3 + lenN eol + lenN data) rest) kw_endstream = Ok t4 -> next_expect t4 kw_endobj = Ok t5 ->
    exists st1 st2,
      parse_indirect_object R allow F_ANY s = Ok (id, gen, PStream d1 id gen st1 (lenN data), s5) /\
      parse_indirect_object R allow F_ANY t = Ok (id, gen, PStream d2 id gen st2 (lenN data), t5) /\
      firstn (length data) (skipn (N.to_nat (st1 - lpos s3)) (lrest s3)) = data /\
      firstn (length data) (skipn (N.to_nat (st2 - lpos t3)) (lrest t3)) = data.
Proof.
  intros H1 N1 H2 N2 Ha Hb R allow i g data eol rest L1 L2 HR D1 D2 He
         s s2 s3 s4 s5 t t2 t3 t4 t5 LS Ns Rs Es Os LT Nt Rt Et Ot.
  exists (lpos s3 + lenN eol), (lpos t3 + lenN eol). split; [|split; [|split]].
  - eapply parse_indirect_stream_spelled_len; eauto. left. exact L1.
  - eapply parse_indirect_stream_spelled_len; eauto. right. exists i, g. split; assumption.
  - rewrite Rs. replace (N.to_nat (lpos s3 + lenN eol - lpos s3)) with (length eol) by (unfold lenN; lia).
    rewrite skipn_app, skipn_all, Nat.sub_diag. cbn [app skipn]. rewrite firstn_app, firstn_all, Nat.sub_diag. cbn [firstn]. apply app_nil_r.
  - rewrite Rt. replace (N.to_nat (lpos t3 + lenN eol - lpos t3)) with (length eol) by (unfold lenN; lia).
    rewrite skipn_app, skipn_all, Nat.sub_diag. cbn [app skipn]. rewrite firstn_app, firstn_all, Nat.sub_diag. cbn [firstn]. apply app_nil_r.
Qed.
