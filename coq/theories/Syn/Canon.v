(** Syn/Canon.v — canonical text form of a [prim] used on the harness protocol (same grammar as
    harness/src/util.rs::canon and tools/oracle/canon.py):
      n t f i<dec> D<decimal text>; N<hex>; S<hex>; R<id>,<gen> [v v] {<hexkey>:v …}
      s{dict}<hex of the data>;   (on input: p{dict}<hex>; = stream with pending data)
    Printer and reader; not part of the modelled code. *)
From PdfV Require Import Base.Prelude Lex.Lexer Syn.Prim Syn.Serialize.

Definition hex_of (l : bytes) : bytes := flat_map (fun b => [hexdig_lower (b / 16); hexdig_lower (b mod 16)]) l.

Fixpoint canon_in (buf : bytes) (v : prim) : bytes :=
  let fix items (l : list prim) (first : bool) : bytes :=
      match l with [] => [] | x :: t => (if first then [] else [32]) ++ canon_in buf x ++ items t false end in
  let fix entries (d : dict) (first : bool) : bytes :=
      match d with
      | [] => []
      | (k, x) :: t => (if first then [] else [32]) ++ hex_of k ++ [58] ++ canon_in buf x ++ entries t false
      end in
  match v with
  | PNull => [110]
  | PBool true => [116]
  | PBool false => [102]
  | PInt z => 105 :: dec_of_Z z
  | PReal t => 68 :: t ++ [59]
  | PNum e t => 69 :: e ++ [126] ++ t ++ [59]
  | PName s => 78 :: hex_of s ++ [59]
  | PStr s => 83 :: hex_of s ++ [59]
  | PRef i g => 82 :: dec_of_N i ++ [44] ++ dec_of_N g
  | PArr l => [91] ++ items l true ++ [93]
  | PDict d => [123] ++ entries d true ++ [125]
  | PStream d i g st ln => [115; 123] ++ entries d true ++ [125] ++ hex_of (take ln (drop st buf)) ++ [59]
  | PStreamData d x => [115; 123] ++ entries d true ++ [125] ++ hex_of x ++ [59]
  end.
Definition canon (v : prim) : bytes := canon_in [] v.

(* ---- reader *)
Definition hexval (c : N) : option N :=
  if (48 <=? c) && (c <=? 57) then Some (c - 48)
  else if (97 <=? c) && (c <=? 102) then Some (c - 87) else None.

Fixpoint unhex (l : bytes) : bytes * bytes :=     (* decoded bytes, rest after the last full pair *)
  match l with
  | a :: b :: t =>
      match hexval a, hexval b with
      | Some h, Some lo => let '(r, rest) := unhex t in (h * 16 + lo :: r, rest)
      | _, _ => ([], l)
      end
  | _ => ([], l)
  end.

Fixpoint span_until (stop : N) (l : bytes) : bytes * bytes :=   (* text before stop, rest after stop *)
  match l with
  | [] => ([], [])
  | b :: t => if b =? stop then ([], t) else let '(a, r) := span_until stop t in (b :: a, r)
  end.

Fixpoint span_num (l : bytes) : bytes * bytes :=
  match l with
  | b :: t => if is_digit b || (b =? 45) then let '(a, r) := span_num t in (b :: a, r) else ([], l)
  | [] => ([], [])
  end.

Definition E_CANON : N := 99.

Fixpoint read_canon (fuel : nat) (l : bytes) : res (prim * bytes) :=
  match fuel with
  | O => OutOfFuel
  | S f =>
    let fix items (n : nat) (l : bytes) (acc : list prim) : res (list prim * bytes) :=
        match n with
        | O => OutOfFuel
        | S n' =>
          match l with
          | c :: t => if c =? 93 then Ok (rev acc, t)
                      else if c =? 32 then items n' t acc
                      else do (v, r) <- read_canon f l; items n' r (v :: acc)
          | [] => Err E_CANON
          end
        end in
    let fix entries (n : nat) (l : bytes) (acc : dict) : res (dict * bytes) :=
        match n with
        | O => OutOfFuel
        | S n' =>
          match l with
          | c :: t => if c =? 125 then Ok (rev acc, t)
                      else if c =? 32 then entries n' t acc
                      else let '(k, r) := unhex l in
                           match r with
                           | c2 :: r2 => if c2 =? 58 then do (v, r3) <- read_canon f r2; entries n' r3 ((k, v) :: acc)
                                         else Err E_CANON
                           | [] => Err E_CANON
                           end
          | [] => Err E_CANON
          end
        end in
    match l with
    | [] => Err E_CANON
    | c :: t =>
      if c =? 110 then Ok (PNull, t)
      else if c =? 116 then Ok (PBool true, t)
      else if c =? 102 then Ok (PBool false, t)
      else if c =? 105 then let '(a, r) := span_num t in Ok (PInt (Z_of_dec a), r)
      else if c =? 68 then let '(a, r) := span_until 59 t in Ok (PReal a, r)
      else if c =? 69 then let '(a, r) := span_until 126 t in let '(b, r2) := span_until 59 r in Ok (PNum a b, r2)
      else if c =? 78 then let '(a, r) := unhex t in match r with x :: r' => Ok (PName a, r') | [] => Err E_CANON end
      else if c =? 83 then let '(a, r) := unhex t in match r with x :: r' => Ok (PStr a, r') | [] => Err E_CANON end
      else if c =? 82 then
        let '(a, r) := span_num t in
        match r with
        | x :: r' => let '(b, r2) := span_num r' in Ok (PRef (N_of_dec a) (N_of_dec b), r2)
        | [] => Err E_CANON
        end
      else if c =? 91 then do (vs, r) <- items (S (length t)) t []; Ok (PArr vs, r)
      else if c =? 123 then do (d, r) <- entries (S (length t)) t []; Ok (PDict d, r)
      else if c =? 112 then
        match t with
        | x :: t' =>
            do (d, r) <- entries (S (length t')) t' [];
            let '(data, r2) := unhex r in
            match r2 with y :: r3 => Ok (PStreamData d data, r3) | [] => Err E_CANON end
        | [] => Err E_CANON
        end
      else Err E_CANON
    end
  end.

Definition of_canon (l : bytes) : res prim :=
  do (v, _) <- read_canon (S (length l)) l; Ok v.
