(** Syn/Run.v — harness entry points for the lexer / parser / serializer models. *)
From PdfV Require Import Base.Prelude Gen.Generated Lex.Lexer Lex.StrLexer Syn.Prim Syn.Parser Syn.Serialize Syn.Canon.

Definition field (fs : list bytes) (i : nat) : bytes := nth i fs [].

(* resolver from a field "id:value,id:value" (integer objects only; generation ignored) *)
Fixpoint parse_pairs (fuel : nat) (l : bytes) : list (N * Z) :=
  match fuel with
  | O => []
  | S f =>
    match l with
    | [] => []
    | _ =>
      let '(a, r) := span_until 58 l in
      let '(b, r2) := span_until 44 r in
      (N_of_dec a, Z_of_dec b) :: parse_pairs f r2
    end
  end.
Definition resolver_of (tbl : list (N * Z)) : resolver :=
  fun id _ _ => match find (fun p => fst p =? id) tbl with
                | Some p => Ok (PInt (snd p))
                | None => Err E_REF
                end.
Definition table_of (f : bytes) := parse_pairs (S (length f)) f.

(* lex: data -> every lexeme until EOF *)
Fixpoint lex_all (fuel : nat) (s : lx) : res (list bytes) :=
  match fuel with
  | O => OutOfFuel
  | S f =>
    match next s with
    | Ok (tok, s') => do r <- lex_all f s'; Ok (tok :: r)
    | Err _ => Ok []
    | Panic p => Panic p
    | OutOfFuel => OutOfFuel
    end
  end.
Definition run_lex (fs : list bytes) : res (list bytes) :=
  let d := field fs 0 in lex_all (S (length d)) (mkLx 0 d).

Definition run_strlex (fs : list bytes) : res (list bytes) :=
  do (s, off) <- string_lex (field fs 0); Ok [s; dec_of_N off].
Definition run_hexlex (fs : list bytes) : res (list bytes) :=
  do (s, off) <- hexstring_lex (field fs 0); Ok [s; dec_of_N off].

(* parse: flags data [lenmap] -> canon, position after *)
Definition run_parse (fs : list bytes) : res (list bytes) :=
  let R := resolver_of (table_of (field fs 2)) in
  do (v, s) <- parse_ctx R None (N_of_dec (field fs 0)) MAX_DEPTH (mkLx 0 (field fs 1));
  Ok [canon_in (field fs 1) v; dec_of_N (lpos s)].

(* parse_seq: data -> (canon, position) of every object until the first error *)
Fixpoint parse_all (fuel : nat) (buf : bytes) (s : lx) : res (list bytes) :=
  match fuel with
  | O => OutOfFuel
  | S f =>
    match parse_ctx no_resolve None F_ANY MAX_DEPTH s with
    | Ok (v, s') => do r <- parse_all f buf s'; Ok (canon_in buf v :: dec_of_N (lpos s') :: r)
    | Err _ => Ok []
    | Panic p => Panic p
    | OutOfFuel => OutOfFuel
    end
  end.
Definition run_parse_seq (fs : list bytes) : res (list bytes) :=
  let d := field fs 0 in parse_all (S (length d)) d (mkLx 0 d).

(* parse_indirect: opts("s"|"t") data [lenmap] -> id gen canon position *)
Definition run_parse_indirect (fs : list bytes) : res (list bytes) :=
  let tolerant := match field fs 0 with c :: _ => c =? 116 | [] => false end in
  let R := resolver_of (table_of (field fs 2)) in
  do (id, gen, v, s) <- parse_indirect_object R tolerant F_ANY (mkLx 0 (field fs 1));
  Ok [dec_of_N id; dec_of_N gen; canon_in (field fs 1) v; dec_of_N (lpos s)].

(* serialize: canon -> bytes *)
Definition run_serialize (fs : list bytes) : res (list bytes) :=
  do v <- of_canon (field fs 0); do b <- ser v; Ok [b].

(* serialize then parse back (the C04 round trip inside the model) *)
Definition run_ser_parse (fs : list bytes) : res (list bytes) :=
  do v <- of_canon (field fs 0); do b <- ser v;
  let buf := b ++ field fs 1 in
  do (v', s) <- parse_ctx no_resolve None F_ANY MAX_DEPTH (mkLx 0 buf);
  Ok [canon_in buf v'; dec_of_N (lpos s); dec_of_N (lenN b); drop (lpos s) b].

(* save_value: value id gen -> the object as write_revision writes it, read back by parse_indirect_object (C04, placement
   "indirect-object body") *)
Definition run_save_value (fs : list bytes) : res (list bytes) :=
  do v <- of_canon (field fs 0); do b <- ser v;
  let buf := obj_text (N_of_dec (field fs 1)) (N_of_dec (field fs 2)) b [] in
  match parse_indirect_object no_resolve false F_ANY (mkLx 0 buf) with
  | Ok (i, g, v', _) => Ok [canon_in buf v'; dec_of_N i; dec_of_N g; buf]
  | Err e => Err e
  | Panic q => Panic q
  | OutOfFuel => OutOfFuel
  end.
