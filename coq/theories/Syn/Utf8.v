(** Syn/Utf8.v — std::str::from_utf8 as a validity check (RFC 3629 / the Unicode well-formedness table:
    no overlong forms, no surrogates, nothing above U+10FFFF). *)
From PdfV Require Import Base.Prelude.

Definition in_rng (lo hi b : N) : bool := (lo <=? b) && (b <=? hi).
Definition cont (b : N) : bool := in_rng 128 191 b.

Fixpoint utf8_valid (fuel : nat) (l : bytes) : bool :=
  match fuel with
  | O => false
  | S f =>
    match l with
    | [] => true
    | b0 :: t =>
      if b0 <? 128 then utf8_valid f t
      else if in_rng 194 223 b0 then
        match t with b1 :: t' => cont b1 && utf8_valid f t' | _ => false end
      else if b0 =? 224 then
        match t with b1 :: b2 :: t' => in_rng 160 191 b1 && cont b2 && utf8_valid f t' | _ => false end
      else if in_rng 225 236 b0 || in_rng 238 239 b0 then
        match t with b1 :: b2 :: t' => cont b1 && cont b2 && utf8_valid f t' | _ => false end
      else if b0 =? 237 then
        match t with b1 :: b2 :: t' => in_rng 128 159 b1 && cont b2 && utf8_valid f t' | _ => false end
      else if b0 =? 240 then
        match t with b1 :: b2 :: b3 :: t' => in_rng 144 191 b1 && cont b2 && cont b3 && utf8_valid f t' | _ => false end
      else if in_rng 241 243 b0 then
        match t with b1 :: b2 :: b3 :: t' => cont b1 && cont b2 && cont b3 && utf8_valid f t' | _ => false end
      else if b0 =? 244 then
        match t with b1 :: b2 :: b3 :: t' => in_rng 128 143 b1 && cont b2 && cont b3 && utf8_valid f t' | _ => false end
      else false
    end
  end.
Definition is_utf8 (l : bytes) : bool := utf8_valid (S (length l)) l.
