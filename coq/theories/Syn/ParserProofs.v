(** Syn/ParserProofs.v — the parser returns the denoted value for every token-level spelling (C03, stage V).
    Statement: if the lexer, started at [s], yields the items [its ++ k] and [spells v its], then
    [parse_fuel] returns [v] and leaves the lexer exactly in front of [k] — "each parse consumes exactly its own text". *)
From PdfV Require Import Base.Prelude Gen.Generated Lex.Lexer Lex.Progress Lex.StrLexer Syn.Prim Syn.Utf8 Syn.Parser Syn.Spells.

(* ------------------------------------------------------------------ basics *)
Lemma bytes_eqb_eq a b : bytes_eqb a b = true <-> a = b.
Proof.
  revert b. induction a as [|x a IH]; intros [|y b]; cbn [bytes_eqb]; split; intros H; try discriminate; try reflexivity.
  - apply andb_true_iff in H. destruct H as [H1 H2]. apply N.eqb_eq in H1. apply IH in H2. subst. reflexivity.
  - inversion H; subst. rewrite N.eqb_refl. cbn. apply IH. reflexivity.
Qed.
Lemma bytes_eqb_refl a : bytes_eqb a a = true.
Proof. apply bytes_eqb_eq. reflexivity. Qed.
Lemma bytes_eqb_neq a b : a <> b -> bytes_eqb a b = false.
Proof. intros H. destruct (bytes_eqb a b) eqn:E; [apply bytes_eqb_eq in E; contradiction|reflexivity]. Qed.

Lemma bind_ok {A B} (a : A) (f : A -> res B) : bind (Ok a) f = f a.
Proof. reflexivity. Qed.

(* generated-table facts used below (re-checked against the Rust source on every run) *)
Lemma flags_any :
  check F_ANY F_DICT = Ok tt /\ check F_ANY (N.lor F_INTEGER F_REF) = Ok tt /\ check F_ANY F_REF = Ok tt /\
  check F_ANY F_INTEGER = Ok tt /\ check F_ANY F_NUMBER = Ok tt /\ check F_ANY F_NAME = Ok tt /\
  check F_ANY F_ARRAY = Ok tt /\ check F_ANY F_STRING = Ok tt /\ check F_ANY F_BOOL = Ok tt /\ check F_ANY F_NULL = Ok tt.
Proof. repeat split; vm_compute; reflexivity. Qed.

(* ------------------------------------------------------------------ Lexes *)
Lemma Lexes_app s a b s2 : Lexes s (a ++ b) s2 -> exists s1, Lexes s a s1 /\ Lexes s1 b s2.
Proof.
  revert s. induction a as [|i a IH]; intros s H; cbn [app] in H.
  - exists s. split; [constructor|exact H].
  - inversion H; subst.
    + destruct (IH _ H5) as [m [A B]]. exists m. split; [econstructor; eassumption|exact B].
    + destruct (IH _ H6) as [m [A B]]. exists m. split; [econstructor; eassumption|exact B].
    + destruct (IH _ H6) as [m [A B]]. exists m. split; [eapply L_hex; eassumption|exact B].
Qed.

Lemma Lexes_head s i k s2 : Lexes s (i :: k) s2 -> exists s1, next s = Ok (word_of i, s1).
Proof. intros H. inversion H; subst; eexists; eassumption. Qed.

Lemma next_peek s w s1 : next s = Ok (w, s1) -> peek s = Ok w.
Proof.
  unfold next, peek. destruct (next_word s) as [[[t p] s']| | |]; cbn [bind]; intros H; inversion H; subst. reflexivity.
Qed.

(* ------------------------------------------------------------------ what may follow a value *)
Definition notR_at (k : list item) (s_end : lx) : Prop :=
  match k with
  | i :: _ => bytes_eqb (word_of i) kw_R = false
  | [] => forall t s', next s_end = Ok (t, s') -> bytes_eqb t kw_R = false
  end.
(* [follow_ok k s_end]: after a value that ends in an integer lexeme, the following text does not read `int R` *)
Definition follow_ok (k : list item) (s_end : lx) : Prop :=
  match k with
  | i :: k' => is_integer (word_of i) = true -> notR_at k' s_end
  | [] => forall t s', next s_end = Ok (t, s') -> is_integer t = true ->
                       forall t2 s2, next s' = Ok (t2, s2) -> bytes_eqb t2 kw_R = false
  end.

(* the look-ahead of the integer branch finds no reference *)
Lemma lookahead_none s1 k s_end :
  Lexes s1 k s_end -> follow_ok k s_end ->
  match next s1 with
  | Ok (tok2, s2) => if is_integer tok2 then match next s2 with
                                              | Ok (tok3, s3) => if bytes_eqb tok3 kw_R then Some (tok2, s3) else None
                                              | _ => None end
                     else None
  | _ => None
  end = None.
Proof.
  intros HL HF. destruct k as [|i k'].
  - inversion HL; subst. cbn in HF.
    destruct (next s_end) as [[t s']| | |] eqn:E1; try reflexivity.
    destruct (is_integer t) eqn:Ei; [|reflexivity].
    destruct (next s') as [[t2 s2]| | |] eqn:E2; try reflexivity.
    rewrite (HF t s' eq_refl Ei t2 s2 E2). reflexivity.
  - destruct i as [w|bs|bs].
    2:{ destruct (Lexes_head _ _ _ _ HL) as [s2 E1]. rewrite E1. reflexivity. }
    2:{ destruct (Lexes_head _ _ _ _ HL) as [s2 E1]. rewrite E1. reflexivity. }
    inversion HL as [|? ? s2 ? ? E1 HL2| |]; subst. rewrite E1.
    destruct (is_integer w) eqn:Ei; [|reflexivity].
    cbn [follow_ok word_of] in HF. specialize (HF Ei).
    destruct k' as [|i2 k''].
    + inversion HL2; subst. cbn in HF.
      destruct (next s_end) as [[t3 s3]| | |] eqn:E3; try reflexivity. rewrite (HF _ _ eq_refl). reflexivity.
    + destruct (Lexes_head _ _ _ _ HL2) as [s3 E3]. rewrite E3. cbn in HF. rewrite HF. reflexivity.
Qed.

(* ------------------------------------------------------------------ lexeme classes are disjoint where the parser tests them *)
Lemma is_integer_not_kw w : is_integer w = true ->
  bytes_eqb w kw_dict_open = false /\ bytes_eqb w kw_R = false.
Proof.
  intros H. split; apply bytes_eqb_neq; intros ->; vm_compute in H; discriminate.
Qed.

(* words that no value starts with *)
Definition first_ok (w : bytes) : Prop :=
  bytes_eqb w kw_R = false /\ bytes_eqb w kw_stream = false /\ bytes_eqb w kw_arr_close = false.

Lemma is_integer_first_ok w : is_integer w = true -> first_ok w.
Proof. intros H. repeat split; apply bytes_eqb_neq; intros ->; vm_compute in H; discriminate. Qed.
Lemma real_number_first_ok w : real_number w = Some w -> first_ok w.
Proof. intros H. repeat split; apply bytes_eqb_neq; intros ->; vm_compute in H; discriminate. Qed.

Lemma real_not_dict w : real_number w = Some w -> bytes_eqb w kw_dict_open = false.
Proof. intros H. apply bytes_eqb_neq. intros ->. vm_compute in H. discriminate. Qed.

Lemma slash_not_number enc :
  bytes_eqb (SLASH :: enc) kw_dict_open = false /\ is_integer (SLASH :: enc) = false /\ real_number (SLASH :: enc) = None.
Proof.
  split; [reflexivity|]. split; [reflexivity|].
  unfold real_number. change (is_sign SLASH) with false. cbn [andb].
  destruct (split_dot (SLASH :: enc)) as [[before after]|] eqn:E.
  - cbn [split_dot] in E. change (SLASH =? DOT) with false in E.
    destruct (split_dot enc) as [[a c]|]; [|discriminate]. inversion E; subst. reflexivity.
  - reflexivity.
Qed.

(* ------------------------------------------------------------------ unfolding lemmas *)
Lemma parse_array_fuel_S f R cx depth s acc :
  parse_array_fuel (S f) R cx depth s acc =
    (do pk <- peek s;
     if bytes_eqb pk kw_arr_close then do (_, s1) <- next s; Ok (PArr (rev acc), s1)
     else do (v, s1) <- parse_fuel f R cx F_ANY depth s; parse_array_fuel f R cx depth s1 (v :: acc)).
Proof. reflexivity. Qed.

Lemma parse_dict_fuel_S f R cx depth s acc :
  parse_dict_fuel (S f) R cx depth s acc =
    (do (tok, s1) <- next s;
     match starts_slash tok with
     | Some rest =>
         do key <- decode_name rest;
         do (v, s2) <- parse_fuel f R cx F_ANY depth s1;
         parse_dict_fuel f R cx depth s2 (dict_insert key v acc)
     | None => if bytes_eqb tok kw_dict_close then Ok (acc, s1) else Err E_LEX
     end).
Proof. reflexivity. Qed.

(* ------------------------------------------------------------------ first words *)
Lemma name_word_first w s : name_word w s -> first_ok w /\ is_integer w = false.
Proof. intros [enc [-> _]]. repeat split; reflexivity. Qed.

Lemma real_word_first w : real_word w -> first_ok w.
Proof.
  intros [[_ [H _]]|[H _]]; [apply real_number_first_ok|apply is_integer_first_ok]; exact H.
Qed.

(* every spelling starts with an item whose word starts no other construct; and when that word is an integer
   and a second item exists, the second word is not R *)
Lemma spells_first v its : spells v its ->
  exists i its', its = i :: its' /\ first_ok (word_of i) /\
    (is_integer (word_of i) = true -> match its' with i2 :: _ => bytes_eqb (word_of i2) kw_R = false | [] => True end).
Proof.
  intros H. destruct H; eexists; eexists; (split; [reflexivity|]); cbn [word_of].
  - split; [repeat split|intros _; exact I].
  - split; [repeat split|intros _; exact I].
  - split; [repeat split|intros _; exact I].
  - destruct H as [Hi _]. split; [apply is_integer_first_ok; exact Hi|intros _; exact I].
  - split; [apply real_word_first; assumption|intros _; exact I].
  - split; [eapply name_word_first; eassumption|intros _; exact I].
  - split; [repeat split|intros _; exact I].
  - split; [repeat split|intros _; exact I].
  - destruct H as (Ha & Hb & _). split; [apply is_integer_first_ok; exact Ha|]. intros _. cbn [word_of].
    apply is_integer_not_kw. exact Hb.
  - split; [repeat split|]. intros Hc. vm_compute in Hc. discriminate.
  - split; [repeat split|]. intros Hc. vm_compute in Hc. discriminate.
Qed.

(* a spelled value may be followed by anything whose first word is not R *)
Lemma follow_ok_value v its k s_end : spells v its -> notR_at k s_end -> follow_ok (its ++ k) s_end.
Proof.
  intros Hs Hk. destruct (spells_first _ _ Hs) as (i & its' & -> & _ & H2).
  cbn [app follow_ok]. intros Hi. specialize (H2 Hi). destruct its' as [|i2 its'']; cbn [app notR_at]; assumption.
Qed.

Lemma notR_value v its k s_end : spells v its -> notR_at (its ++ k) s_end.
Proof. intros Hs. destruct (spells_first _ _ Hs) as (i & its' & -> & H1 & _). apply H1. Qed.

(* after a dictionary the parser looks for the keyword `stream` *)
Definition nostream_at (k : list item) (s_end : lx) : Prop :=
  match k with
  | i :: _ => bytes_eqb (word_of i) kw_stream = false
  | [] => exists w, peek s_end = Ok w /\ bytes_eqb w kw_stream = false
  end.
Lemma nostream_value v its k s_end : spells v its -> nostream_at (its ++ k) s_end.
Proof. intros Hs. destruct (spells_first _ _ Hs) as (i & its' & -> & H1 & _). apply H1. Qed.

Lemma follow_ok_nonint i k s_end : is_integer (word_of i) = false -> follow_ok (i :: k) s_end.
Proof. intros H. cbn [follow_ok]. rewrite H. discriminate. Qed.

(* ------------------------------------------------------------------ depth *)
Lemma vdepth_arr l : vdepth (PArr l) = 1 + ldepth l.
Proof. cbn [vdepth]. f_equal. Qed.
Lemma vdepth_dict d : vdepth (PDict d) = 1 + ddepth d.
Proof.
  cbn [vdepth]. f_equal. induction d as [|[k x] t IH]; [reflexivity|].
  cbn [ddepth fold_right snd]. f_equal. exact IH.
Qed.

(* ------------------------------------------------------------------ IndexMap insertion of a fresh key appends *)
Lemma dict_insert_fresh k v d : ~ In k (keys d) -> dict_insert k v d = d ++ [(k, v)].
Proof.
  induction d as [|[k' v'] t IH]; intros H; [reflexivity|].
  cbn [dict_insert]. cbn [keys map fst In] in H.
  rewrite bytes_eqb_neq by (intros ->; apply H; left; reflexivity).
  rewrite IH by (intros Hin; apply H; right; exact Hin). reflexivity.
Qed.

(* ------------------------------------------------------------------ one step of parse_fuel, named *)
Definition parse_body (f : nat) (R : resolver) (cx : option (N * N)) (flags depth : N) (tok : bytes) (s1 : lx)
  : res (prim * lx) :=
    if bytes_eqb tok kw_dict_open then
      do _ <- check flags F_DICT;
      if depth =? 0 then Err E_DEPTH else
      do (d, s2) <- parse_dict_fuel f R cx (depth - 1) s1 [];
      do pk <- peek s2;
      if bytes_eqb pk kw_stream then
        match cx with
        | None => Err E_FLAGS
        | Some (id, gen) => parse_stream_object R d id gen s2
        end
      else Ok (PDict d, s2)
    else if is_integer tok then
      do _ <- check flags (N.lor F_INTEGER F_REF);
      let is_ref :=
        match next s1 with
        | Ok (tok2, s2) =>
            if is_integer tok2 then
              match next s2 with
              | Ok (tok3, s3) => if bytes_eqb tok3 kw_R then Some (tok2, s3) else None
              | _ => None
              end
            else None
        | _ => None
        end in
      match is_ref with
      | Some (tok2, s3) =>
          do _ <- check flags F_REF;
          do id <- parse_u64 tok; do gen <- parse_u64 tok2; Ok (PRef id gen, s3)
      | None =>
          do _ <- check flags F_INTEGER;
          match parse_i32 tok with
          | Ok v => Ok (PInt v, s1)
          | _ => do _ <- check flags F_NUMBER; Ok (PReal tok, s1)
          end
      end
    else
      match real_number tok with
      | Some txt =>
          do _ <- check flags F_NUMBER;
          if f32_parsable txt then Ok (PReal txt, s1) else Err E_PARSE
      | None =>
        match starts_slash tok with
        | Some rest =>
            do _ <- check flags F_NAME;
            do n <- decode_name rest; Ok (PName n, s1)
        | None =>
          if bytes_eqb tok kw_arr_open then
            do _ <- check flags F_ARRAY;
            if depth =? 0 then Err E_DEPTH else parse_array_fuel f R cx (depth - 1) s1 []
          else if bytes_eqb tok kw_lparen then
            do _ <- check flags F_STRING;
            do (str, off) <- string_lex (lrest s1); Ok (PStr str, advance s1 off)
          else if bytes_eqb tok kw_lt then
            do _ <- check flags F_STRING;
            do (str, off) <- hexstring_lex (lrest s1); Ok (PStr str, advance s1 off)
          else if bytes_eqb tok kw_true then do _ <- check flags F_BOOL; Ok (PBool true, s1)
          else if bytes_eqb tok kw_false then do _ <- check flags F_BOOL; Ok (PBool false, s1)
          else if bytes_eqb tok kw_null then do _ <- check flags F_NULL; Ok (PNull, s1)
          else Err E_UNKNOWN
        end
      end.

Lemma parse_fuel_S f R cx flags depth s :
  parse_fuel (S f) R cx flags depth s = (do (tok, s1) <- next s; parse_body f R cx flags depth tok s1).
Proof. reflexivity. Qed.

Lemma parse_step f R cx flags depth s tok s1 :
  next s = Ok (tok, s1) -> parse_fuel (S f) R cx flags depth s = parse_body f R cx flags depth tok s1.
Proof. intros H. rewrite parse_fuel_S, H. reflexivity. Qed.


(* the cascade of tests in parse_body on the fixed keywords, by computation *)
Definition tests7 (w : bytes) (r : bool * bool * option bytes * option bytes * bool * bool * bool * bool * bool * bool) : Prop :=
  let '(a, b, c, d, e, f, g, h, i, j) := r in
  bytes_eqb w kw_dict_open = a /\ is_integer w = b /\ real_number w = c /\ starts_slash w = d /\
  bytes_eqb w kw_arr_open = e /\ bytes_eqb w kw_lparen = f /\ bytes_eqb w kw_lt = g /\
  bytes_eqb w kw_true = h /\ bytes_eqb w kw_false = i /\ bytes_eqb w kw_null = j.
Lemma tests_arr : tests7 kw_arr_open (false, false, None, None, true, false, false, false, false, false).
Proof. repeat split. Qed.
Lemma tests_lparen : tests7 kw_lparen (false, false, None, None, false, true, false, false, false, false).
Proof. repeat split. Qed.
Lemma tests_lt : tests7 kw_lt (false, false, None, None, false, false, true, false, false, false).
Proof. repeat split. Qed.
Lemma tests_true : tests7 kw_true (false, false, None, None, false, false, false, true, false, false).
Proof. repeat split. Qed.
Lemma tests_false : tests7 kw_false (false, false, None, None, false, false, false, false, true, false).
Proof. repeat split. Qed.
Lemma tests_null : tests7 kw_null (false, false, None, None, false, false, false, false, false, true).
Proof. repeat split. Qed.
Ltac use_tests T :=
  let H := fresh in pose proof T as H; unfold tests7 in H;
  destruct H as (?T1 & ?T2 & ?T3 & ?T4 & ?T5 & ?T6 & ?T7 & ?T8 & ?T9 & ?T10);
  rewrite ?T1, ?T2, ?T3, ?T4, ?T5, ?T6, ?T7, ?T8, ?T9, ?T10.

(* ------------------------------------------------------------------ the main induction *)
Definition P_value (v : prim) (its : list item) : Prop :=
  forall fuel R cx depth s k s_end,
    (length its <= fuel)%nat -> vdepth v <= depth ->
    Lexes s (its ++ k) s_end -> follow_ok k s_end -> nostream_at k s_end ->
    exists s1, parse_fuel fuel R cx F_ANY depth s = Ok (v, s1) /\ Lexes s1 k s_end.

Definition P_list (vs : list prim) (body : list item) : Prop :=
  forall fuel R cx depth s k s_end acc,
    (length body + 1 <= fuel)%nat -> ldepth vs <= depth ->
    Lexes s (body ++ IWord kw_arr_close :: k) s_end ->
    exists s1, parse_array_fuel fuel R cx depth s acc = Ok (PArr (rev acc ++ vs), s1) /\ Lexes s1 k s_end.

Definition P_dict (d : dict) (body : list item) : Prop :=
  forall fuel R cx depth s k s_end acc,
    (length body + 1 <= fuel)%nat -> ddepth d <= depth -> NoDup (keys acc ++ keys d) ->
    Lexes s (body ++ IWord kw_dict_close :: k) s_end ->
    exists s1, parse_dict_fuel fuel R cx depth s acc = Ok (acc ++ d, s1) /\ Lexes s1 k s_end.

Ltac fuel_S fuel Hf := destruct fuel as [|fuel]; [cbn [length app] in Hf; rewrite ?app_length in Hf; cbn [length] in Hf; lia|].

Lemma Lexes_word_inv s w k s2 : Lexes s (IWord w :: k) s2 -> exists s1, next s = Ok (w, s1) /\ Lexes s1 k s2.
Proof. intros H. inversion H; subst. eexists; split; eassumption. Qed.

(* an item sequence that lexes from [s] to [s2] is no longer than the bytes consumed: the fuel the parser is started with
   ([fuel_for]) always suffices *)
Lemma Lexes_length s its s2 : Lexes s its s2 -> (length its + length (lrest s2) <= length (lrest s))%nat.
Proof.
  induction 1 as [s|s w s1 its s2 Hn _ IH|s s1 bs off its s2 Hn _ _ IH|s s1 bs off its s2 Hn _ _ IH]; cbn [length].
  - lia.
  - pose proof (next_progress _ _ _ Hn). lia.
  - pose proof (next_progress _ _ _ Hn). pose proof (advance_len s1 off). lia.
  - pose proof (next_progress _ _ _ Hn). pose proof (advance_len s1 off). lia.
Qed.
Lemma Lexes_fuel s its s2 : Lexes s its s2 -> (length its <= fuel_for s)%nat.
Proof. intros H. pose proof (Lexes_length _ _ _ H). unfold fuel_for. lia. Qed.

Lemma atom_case v w fuel R cx depth s k s_end :
  (1 <= fuel)%nat -> Lexes s (IWord w :: k) s_end ->
  (forall f s1, parse_body f R cx F_ANY depth w s1 = Ok (v, s1)) ->
  exists s1, parse_fuel fuel R cx F_ANY depth s = Ok (v, s1) /\ Lexes s1 k s_end.
Proof.
  intros Hf HL Hb. destruct fuel as [|f]; [lia|].
  destruct (Lexes_word_inv _ _ _ _ HL) as [s1 [E HL1]].
  exists s1. split; [|exact HL1]. rewrite (parse_step _ _ _ _ _ _ _ _ E). apply Hb.
Qed.

Theorem parse_spelled_mut :
  (forall v its, spells v its -> P_value v its) /\
  (forall vs body, spells_list vs body -> P_list vs body) /\
  (forall d body, spells_dict d body -> P_dict d body).
Proof.
  destruct flags_any as (FD & FIR & FR & FI & FN & FNa & FA & FS & FB & FNu).
  apply spells_mutind.
  - (* null *) intros fuel R cx depth s k s_end Hf _ HL _ _. cbn [app] in HL.
    eapply atom_case; [exact Hf|exact HL|]. intros f s1. unfold parse_body. use_tests tests_null. rewrite FNu. reflexivity.
  - (* true *) intros fuel R cx depth s k s_end Hf _ HL _ _. cbn [app] in HL.
    eapply atom_case; [exact Hf|exact HL|]. intros f s1. unfold parse_body. use_tests tests_true. rewrite FB. reflexivity.
  - (* false *) intros fuel R cx depth s k s_end Hf _ HL _ _. cbn [app] in HL.
    eapply atom_case; [exact Hf|exact HL|]. intros f s1. unfold parse_body. use_tests tests_false. rewrite FB. reflexivity.
  - (* integer *) intros w z [Hi Hp] fuel R cx depth s k s_end Hf _ HL HF _. cbn [app length] in *.
    destruct fuel as [|f]; [lia|].
    destruct (Lexes_word_inv _ _ _ _ HL) as [s1 [E HL1]].
    exists s1. split; [|exact HL1]. rewrite (parse_step _ _ _ _ _ _ _ _ E). unfold parse_body.
    destruct (is_integer_not_kw _ Hi) as [-> _]. rewrite Hi, FIR. cbn [bind].
    rewrite (lookahead_none _ _ _ HL1 HF). rewrite FI. cbn [bind]. rewrite Hp. reflexivity.
  - (* real *) intros w Hw fuel R cx depth s k s_end Hf _ HL HF _. cbn [app length] in *.
    destruct fuel as [|f]; [lia|].
    destruct (Lexes_word_inv _ _ _ _ HL) as [s1 [E HL1]].
    exists s1. split; [|exact HL1]. rewrite (parse_step _ _ _ _ _ _ _ _ E). unfold parse_body.
    destruct Hw as [(Hi & Hr & Hp)|(Hi & Hp)].
    + rewrite (real_not_dict _ Hr), Hi, Hr, FN. cbn [bind]. rewrite Hp. reflexivity.
    + destruct (is_integer_not_kw _ Hi) as [-> _]. rewrite Hi, FIR. cbn [bind].
      rewrite (lookahead_none _ _ _ HL1 HF). rewrite FI. cbn [bind].
      destruct (parse_i32 w) as [z| | |] eqn:Ez; [exfalso; apply (Hp z); reflexivity| | |]; rewrite FN; reflexivity.
  - (* name *) intros w nm [enc [-> Hd]] fuel R cx depth s k s_end Hf _ HL _ _. cbn [app] in HL.
    eapply atom_case; [exact Hf|exact HL|]. intros f s1. unfold parse_body.
    destruct (slash_not_number enc) as (-> & -> & ->). cbn [starts_slash]. rewrite N.eqb_refl, FNa. cbn [bind]. rewrite Hd. reflexivity.
  - (* literal string *) intros bs fuel R cx depth s k s_end Hf _ HL _ _. cbn [app length] in *.
    destruct fuel as [|f]; [lia|]. inversion HL as [| |? s1 ? off ? ? E Hs HL1|]; subst.
    exists (advance s1 off). split; [|exact HL1]. rewrite (parse_step _ _ _ _ _ _ _ _ E). unfold parse_body.
    use_tests tests_lparen. rewrite FS. cbn [bind]. rewrite Hs. reflexivity.
  - (* hex string *) intros bs fuel R cx depth s k s_end Hf _ HL _ _. cbn [app length] in *.
    destruct fuel as [|f]; [lia|]. inversion HL as [| | |? s1 ? off ? ? E Hs HL1]; subst.
    exists (advance s1 off). split; [|exact HL1]. rewrite (parse_step _ _ _ _ _ _ _ _ E). unfold parse_body.
    use_tests tests_lt. rewrite FS. cbn [bind]. rewrite Hs. reflexivity.
  - (* reference *) intros a b i g (Ha & Hb & Hpa & Hpb) fuel R cx depth s k s_end Hf _ HL _ _. cbn [app length] in *.
    destruct fuel as [|f]; [lia|].
    destruct (Lexes_word_inv _ _ _ _ HL) as [s1 [E1 HL1]].
    destruct (Lexes_word_inv _ _ _ _ HL1) as [s2 [E2 HL2]].
    destruct (Lexes_word_inv _ _ _ _ HL2) as [s3 [E3 HL3]].
    exists s3. split; [|exact HL3]. rewrite (parse_step _ _ _ _ _ _ _ _ E1). unfold parse_body.
    destruct (is_integer_not_kw _ Ha) as [-> _]. rewrite Ha, FIR. cbn [bind].
    rewrite E2, Hb, E3. cbn [bytes_eqb kw_R]. rewrite N.eqb_refl. cbn [andb].
    rewrite FR. cbn [bind]. rewrite Hpa, Hpb. reflexivity.
  - (* array *) intros vs body Hsl IH fuel R cx depth s k s_end Hf Hd HL HF _.
    cbn [app length] in *. rewrite app_length in Hf. cbn [length] in Hf.
    destruct fuel as [|f]; [lia|].
    destruct (Lexes_word_inv _ _ _ _ HL) as [s1 [E1 HL1]].
    rewrite (parse_step _ _ _ _ _ _ _ _ E1). unfold parse_body. use_tests tests_arr. rewrite FA. cbn [bind].
    rewrite vdepth_arr in Hd.
    assert (depth =? 0 = false) as -> by (apply N.eqb_neq; lia).
    rewrite <- app_assoc in HL1. cbn [app] in HL1.
    destruct (IH f R cx (depth - 1) s1 k s_end [] ltac:(lia) ltac:(lia) HL1) as [s2 [E2 HL2]].
    exists s2. split; [|exact HL2]. exact E2.
  - (* dictionary *) intros d body Hnd Hsd IH fuel R cx depth s k s_end Hf Hd HL HF HNS.
    cbn [app length] in *. rewrite app_length in Hf. cbn [length] in Hf.
    destruct fuel as [|f]; [lia|].
    destruct (Lexes_word_inv _ _ _ _ HL) as [s1 [E1 HL1]].
    rewrite (parse_step _ _ _ _ _ _ _ _ E1). unfold parse_body.
    change (bytes_eqb kw_dict_open kw_dict_open) with true. cbv iota. rewrite FD. cbn [bind].
    rewrite vdepth_dict in Hd.
    assert (depth =? 0 = false) as -> by (apply N.eqb_neq; lia).
    rewrite <- app_assoc in HL1. cbn [app] in HL1.
    destruct (IH f R cx (depth - 1) s1 k s_end [] ltac:(lia) ltac:(lia) Hnd HL1) as [s2 [E2 HL2]].
    rewrite E2. cbn [bind app].
    (* the word after the dictionary is not `stream`: the caller's follow condition *)
    assert (Hpk : exists w, peek s2 = Ok w /\ bytes_eqb w kw_stream = false).
    { destruct k as [|i k'].
      - inversion HL2; subst. exact HNS.
      - destruct (Lexes_head _ _ _ _ HL2) as [s3 E3]. exists (word_of i). split; [eapply next_peek; exact E3|exact HNS]. }
    destruct Hpk as (w & -> & Hw). cbn [bind]. rewrite Hw.
    exists s2. split; [reflexivity|exact HL2].
  - (* list nil *) intros fuel R cx depth s k s_end acc Hf _ HL. cbn [app length] in *.
    destruct fuel as [|f]; [lia|].
    destruct (Lexes_word_inv _ _ _ _ HL) as [s1 [E1 HL1]].
    exists s1. split; [|exact HL1]. rewrite parse_array_fuel_S, (next_peek _ _ _ E1). cbn [bind].
    rewrite bytes_eqb_refl, E1. cbn [bind]. rewrite app_nil_r. reflexivity.
  - (* list cons *) intros v vs its body Hs IHv Hsl IHl fuel R cx depth s k s_end acc Hf Hd HL.
    rewrite app_length in Hf. cbn [ldepth fold_right] in Hd. fold (ldepth vs) in Hd.
    destruct (spells_first _ _ Hs) as (i & its' & Eits & (HnR & HnS & HnC) & _).
    destruct fuel as [|f]; [lia|].
    rewrite <- app_assoc in HL.
    assert (Hpk : exists s0, next s = Ok (word_of i, s0)).
    { rewrite Eits in HL. cbn [app] in HL. eapply Lexes_head. exact HL. }
    destruct Hpk as [s0 Es0].
    rewrite parse_array_fuel_S, (next_peek _ _ _ Es0). cbn [bind].
    rewrite HnC.
    assert (HFk : follow_ok (body ++ IWord kw_arr_close :: k) s_end).
    { destruct Hsl as [|v2 vs2 its2 body2 Hs2 Hsl2].
      - cbn [app]. apply follow_ok_nonint. reflexivity.
      - rewrite <- app_assoc. eapply follow_ok_value; [exact Hs2|].
        destruct Hsl2 as [|v3 vs3 its3 body3 Hs3 _].
        + cbn [app notR_at word_of]. reflexivity.
        + rewrite <- app_assoc. eapply notR_value. exact Hs3. }
    assert (length its >= 1)%nat by (rewrite Eits; cbn [length]; lia).
    assert (HNk : nostream_at (body ++ IWord kw_arr_close :: k) s_end).
    { destruct Hsl as [|v2 vs2 its2 body2 Hs2 _].
      - reflexivity.
      - rewrite <- app_assoc. eapply nostream_value. exact Hs2. }
    destruct (IHv f R cx depth s _ s_end ltac:(lia) ltac:(lia) HL HFk HNk) as [s1 [E1 HL1]].
    rewrite E1. cbn [bind].
    destruct (IHl f R cx depth s1 k s_end (v :: acc) ltac:(lia) ltac:(lia) HL1) as [s2 [E2 HL2]].
    exists s2. split; [|exact HL2]. rewrite E2. cbn [rev]. rewrite <- app_assoc. reflexivity.
  - (* dict nil *) intros fuel R cx depth s k s_end acc Hf _ _ HL. cbn [app length] in *.
    destruct fuel as [|f]; [lia|].
    destruct (Lexes_word_inv _ _ _ _ HL) as [s1 [E1 HL1]].
    exists s1. split; [|exact HL1]. rewrite parse_dict_fuel_S, E1. cbn [bind].
    change (starts_slash kw_dict_close) with (@None bytes). rewrite bytes_eqb_refl, app_nil_r. reflexivity.
  - (* dict cons *) intros key w v d its body [enc [-> Hdn]] Hs IHv Hsd IHd fuel R cx depth s k s_end acc Hf Hd Hnd HL.
    cbn [app length] in *. rewrite app_length in Hf. cbn [ddepth fold_right snd] in Hd. fold (ddepth d) in Hd.
    destruct fuel as [|f]; [lia|].
    destruct (Lexes_word_inv _ _ _ _ HL) as [s1 [E1 HL1]].
    rewrite parse_dict_fuel_S, E1. cbn [bind starts_slash]. rewrite N.eqb_refl, Hdn. cbn [bind].
    rewrite <- app_assoc in HL1.
    assert (HFk : follow_ok (body ++ IWord kw_dict_close :: k) s_end).
    { destruct Hsd as [|k2 w2 v2 d2 its2 body2 [enc2 [-> _]] _ _].
      - cbn [app]. apply follow_ok_nonint. reflexivity.
      - cbn [app]. apply follow_ok_nonint. reflexivity. }
    destruct (spells_first _ _ Hs) as (i & its' & Eits & _ & _).
    assert (length its >= 1)%nat by (rewrite Eits; cbn [length]; lia).
    assert (HNk : nostream_at (body ++ IWord kw_dict_close :: k) s_end).
    { destruct Hsd as [|k2 w2 v2 d2 its2 body2 [enc2 [-> _]] _ _]; reflexivity. }
    destruct (IHv f R cx depth s1 _ s_end ltac:(lia) ltac:(lia) HL1 HFk HNk) as [s2 [E2 HL2]].
    rewrite E2. cbn [bind].
    cbn [keys map fst] in Hnd.
    assert (Hfresh : ~ In key (keys acc)).
    { apply NoDup_remove_2 in Hnd. intros Hin. apply Hnd. apply in_or_app. left. exact Hin. }
    rewrite (dict_insert_fresh _ _ _ Hfresh).
    assert (Hnd2 : NoDup (keys (acc ++ [(key, v)]) ++ keys d)).
    { unfold keys. rewrite map_app. cbn [map fst]. rewrite <- app_assoc. cbn [app]. exact Hnd. }
    destruct (IHd f R cx depth s2 k s_end (acc ++ [(key, v)]) ltac:(lia) ltac:(lia) Hnd2 HL2) as [s3 [E3 HL3]].
    exists s3. split; [|exact HL3]. rewrite E3. rewrite <- app_assoc. reflexivity.
Qed.

(* ------------------------------------------------------------------ corollaries *)
Theorem parse_spelled v its : spells v its -> P_value v its.
Proof. exact (proj1 parse_spelled_mut v its). Qed.

(* a sequence of objects: each parse consumes exactly its own text *)
Fixpoint parse_n (n : nat) (fuel : nat) (R : resolver) (cx : option (N * N)) (depth : N) (s : lx) : res (list prim * lx) :=
  match n with
  | O => Ok ([], s)
  | S n' => do (v, s1) <- parse_fuel fuel R cx F_ANY depth s;
            do (vs, s2) <- parse_n n' fuel R cx depth s1; Ok (v :: vs, s2)
  end.

Theorem parse_sequence vs body : spells_list vs body ->
  forall fuel R cx depth s k s_end,
    (length body <= fuel)%nat -> ldepth vs <= depth ->
    Lexes s (body ++ k) s_end -> follow_ok k s_end -> nostream_at k s_end -> notR_at k s_end ->
    exists s1, parse_n (length vs) fuel R cx depth s = Ok (vs, s1) /\ Lexes s1 k s_end.
Proof.
  induction 1 as [|v vs its body Hs Hsl IH]; intros fuel R cx depth s k s_end Hf Hd HL HF HN HR.
  - exists s. split; [reflexivity|exact HL].
  - cbn [length parse_n]. rewrite app_length in Hf. cbn [ldepth fold_right] in Hd. fold (ldepth vs) in Hd.
    rewrite <- app_assoc in HL.
    assert (HFk : follow_ok (body ++ k) s_end).
    { destruct Hsl as [|v2 vs2 its2 body2 Hs2 Hsl2]; [exact HF|].
      rewrite <- app_assoc. eapply follow_ok_value; [exact Hs2|].
      destruct Hsl2 as [|v3 vs3 its3 body3 Hs3 _]; [exact HR|]. rewrite <- app_assoc. eapply notR_value. exact Hs3. }
    assert (HNk : nostream_at (body ++ k) s_end).
    { destruct Hsl as [|v2 vs2 its2 body2 Hs2 _]; [exact HN|]. rewrite <- app_assoc. eapply nostream_value. exact Hs2. }
    destruct (parse_spelled _ _ Hs fuel R cx depth s _ s_end ltac:(lia) ltac:(lia) HL HFk HNk) as [s1 [E1 HL1]].
    rewrite E1. cbn [bind].
    destruct (IH fuel R cx depth s1 k s_end ltac:(lia) ltac:(lia) HL1 HF HN HR) as [s2 [E2 HL2]].
    rewrite E2. cbn [bind]. exists s2. split; [reflexivity|exact HL2].
Qed.

(* an indirect object  `n g obj  value  endobj` *)
Theorem parse_indirect_spelled v its a b id gen : spells v its ->
  parse_u64 a = Ok id -> parse_u64 b = Ok gen ->
  forall R allow s k s_end,
    vdepth v <= MAX_DEPTH ->
    Lexes s (IWord a :: IWord b :: IWord kw_obj :: its ++ IWord kw_endobj :: k) s_end ->
    exists s1, parse_indirect_object R allow F_ANY s = Ok (id, gen, v, s1) /\ Lexes s1 k s_end.
Proof.
  intros Hs Ha Hb R allow s k s_end Hd HL.
  destruct (Lexes_word_inv _ _ _ _ HL) as [s1 [E1 HL1]].
  destruct (Lexes_word_inv _ _ _ _ HL1) as [s2 [E2 HL2]].
  destruct (Lexes_word_inv _ _ _ _ HL2) as [s3 [E3 HL3]].
  unfold parse_indirect_object. rewrite E1. cbn [bind]. rewrite Ha. cbn [bind]. rewrite E2. cbn [bind]. rewrite Hb. cbn [bind].
  unfold next_expect. rewrite E3. cbn [bind]. rewrite bytes_eqb_refl. cbv iota. cbn [bind].
  assert (Hfuel : (length its <= fuel_for s3)%nat).
  { pose proof (Lexes_fuel _ _ _ HL3) as Hf. rewrite app_length in Hf. lia. }
  destruct (parse_spelled _ _ Hs (fuel_for s3) R (Some (id, gen)) MAX_DEPTH s3 (IWord kw_endobj :: k) s_end
              Hfuel Hd HL3) as [s4 [E4 HL4]].
  - apply follow_ok_nonint. reflexivity.
  - reflexivity.
  - unfold parse_ctx. rewrite E4. cbn [bind].
    destruct (Lexes_word_inv _ _ _ _ HL4) as [s5 [E5 HL5]].
    exists s5. split; [|exact HL5]. rewrite E5. cbn [bind]. rewrite bytes_eqb_refl. cbv iota.
    destruct allow; reflexivity.
Qed.

