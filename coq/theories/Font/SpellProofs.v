(** Font/SpellProofs.v — the CMap reader on every spelling the standard allows for bfchar / bfrange sections
    (ISO 32000-1 §9.10.3, Adobe TN 5014 §1.4, PostScript token syntax):

      * any white-space (NUL TAB LF FF CR SP) and any number of comments between tokens, also none at all
        where a delimiter separates the tokens ([Lex.LexProofs.sep]);
      * hexadecimal strings in either digit case, with white-space inside, with an odd digit count
        ([Lex.StrProofs.hex_run]; the token-level facts are those of the shared lexer models, through Font/LexEq.v);
      * source codes of one or two bytes;
      * bfrange in the array form  <lo> <hi> [<d0> … ]  and in the string form  <lo> <hi> <dst>  (the last byte
        of dst is incremented for each code);
      * anything else between the sections (prologue, codespace ranges, `usecmap`-free header lines, counts):
        regular words, names, delimiters; `endcmap` ends the reading.

    [sp_text t s]: the bytes [s] are a spelling of the abstract text [t] (Font/Spec.v: [cmap_text], whose meaning
    [cmap_denote] is unchanged: a bfrange entry (lo, hi, us) lists the destination strings, whichever form spells them).
    Theorem [cmap_read_spelled]: parse_cmap s = Ok (cmap_denote t). *)
From PdfV Require Import Base.Prelude Gen.Generated Lex.Lexer Lex.StrLexer Lex.LexProofs Lex.StrProofs
  Font.Model Font.Spec Font.UtfProofs Font.CmapProofs Font.LexEq.

Module L := PdfV.Lex.Lexer.
Module M := PdfV.Font.Model.
Notation hexd := PdfV.Lex.StrLexer.hex_digit.

(* ------------------------------------------------------------------ *)
(** * the specification: spellings *)

(** a hexadecimal string: separator, `<`, digits, `>` *)
Inductive sp_hex : bytes -> bytes -> Prop :=
| sp_hex_intro sp text out : sep sp -> hex_run out text -> sp_hex out (sp ++ 60 :: text ++ [62]).

(** a source code: one byte, or two bytes big-endian *)
Inductive sp_code : N -> bytes -> Prop :=
| sp_code1 c s : c < 256 -> sp_hex [c] s -> sp_code c s
| sp_code2 c s : c < 65536 -> sp_hex (cid_bytes c) s -> sp_code c s.

Inductive sp_list {A} (P : A -> bytes -> Prop) : list A -> bytes -> Prop :=
| spl_nil : sp_list P [] []
| spl_cons x xs s1 s2 : P x s1 -> sp_list P xs s2 -> sp_list P (x :: xs) (s1 ++ s2).

(** a destination string: UTF-16BE *)
Definition sp_dst (u : ustr) (s : bytes) : Prop := wf_ustr u /\ sp_hex (utf16be_bytes u) s.

(** <src> <dst> *)
Inductive sp_char : N * ustr -> bytes -> Prop :=
| sp_char_intro c u s1 s2 : sp_code c s1 -> sp_dst u s2 -> sp_char (c, u) (s1 ++ s2).

(** a byte string with its last byte incremented by i *)
Fixpoint bump (i : N) (b : bytes) : bytes :=
  match b with
  | [] => []
  | [x] => [x + i]
  | x :: t => x :: bump i t
  end.

(** the destinations of the string form: the i-th string is the first one with its last byte incremented by i,
    and the last byte never passes 255 *)
Definition str_range (us : list ustr) : Prop :=
  match us with
  | [] => False
  | u0 :: _ =>
    utf16be_bytes u0 <> [] /\ last (utf16be_bytes u0) 0 + lenN us <= 256 /\
    forall i u, nth_error us i = Some u -> wf_ustr u /\ utf16be_bytes u = bump (N.of_nat i) (utf16be_bytes u0)
  end.

(** <lo> <hi> [<d0> … <dn>]   and   <lo> <hi> <d0> *)
Inductive sp_range : rentry -> bytes -> Prop :=
| sp_range_arr lo hi us s1 s2 sp1 s3 sp2 :
    sp_code lo s1 -> sp_code hi s2 -> sep sp1 -> sp_list sp_dst us s3 -> sep sp2 ->
    sp_range (lo, hi, us) (s1 ++ s2 ++ sp1 ++ 91 :: s3 ++ sp2 ++ [93])
| sp_range_str lo hi us s1 s2 s3 :
    sp_code lo s1 -> sp_code hi s2 -> str_range us -> length us = N.to_nat (hi + 1 - lo) ->
    sp_hex (utf16be_bytes (hd [] us)) s3 ->
    sp_range (lo, hi, us) (s1 ++ s2 ++ s3).

(** begin… entries end… ; a keyword ends at white-space, a delimiter, or the end of the data *)
Inductive sp_section : csection -> bytes -> Prop :=
| sp_schar es body sp : sp_list sp_char es body -> sep sp -> boundary (body ++ sp ++ kw_endbfchar) ->
    sp_section (SChar es) (kw_beginbfchar ++ body ++ sp ++ kw_endbfchar)
| sp_srange rs body sp : sp_list sp_range rs body -> sep sp -> boundary (body ++ sp ++ kw_endbfrange) ->
    sp_section (SRange rs) (kw_beginbfrange ++ body ++ sp ++ kw_endbfrange).

Definition kw_endcmap : bytes := [101;110;100;99;109;97;112].

(** a word between the sections: regular characters, none of the three keywords the reader acts on *)
Definition filler_word (w : bytes) : Prop :=
  w <> [] /\ forallb M.is_reg w = true /\ w <> kw_beginbfchar /\ w <> kw_beginbfrange /\ w <> kw_endcmap.

(** a lone delimiter ( ) < > [ ] { } — not `/` (names), not `%` (comments), not the first half of << or >> *)
Definition lone_delim (d : N) (rest : bytes) : Prop :=
  M.is_delim d = true /\ d <> 47 /\ d <> 37 /\
  match rest with b :: _ => (d = 60 \/ d = 62) -> b <> d | [] => True end.

Inductive sp_text : cmap_text -> bytes -> Prop :=
| spt_eof sp : sep sp -> sp_text [] sp
| spt_open_comment sp body : sep sp -> Forall (fun c => memN c lex_comment_ends = false) body ->
    sp_text [] (sp ++ 37 :: body)                                      (* the data end inside a comment *)
| spt_endcmap sp rest : sep sp -> boundary rest -> sp_text [] (sp ++ kw_endcmap ++ rest)     (* anything may follow *)
| spt_word t sp w rest : sep sp -> filler_word w -> boundary rest -> sp_text t rest -> sp_text t (sp ++ w ++ rest)
| spt_name t sp w rest : sep sp -> forallb M.is_reg w = true -> boundary rest -> sp_text t rest ->
    sp_text t (sp ++ 47 :: w ++ rest)
| spt_delim t sp d rest : sep sp -> lone_delim d rest -> sp_text t rest -> sp_text t (sp ++ d :: rest)
| spt_delim2 t sp d rest : sep sp -> d = 60 \/ d = 62 -> sp_text t rest -> sp_text t (sp ++ d :: d :: rest)
| spt_section s t sp b rest : sep sp -> sp_section s b -> boundary rest -> sp_text t rest ->
    sp_text (s :: t) (sp ++ b ++ rest).

(* ------------------------------------------------------------------ *)
(** * separators *)

Lemma skip_wc_body body : forall e r,
  Forall (fun c => memN c lex_comment_ends = false) body -> memN e lex_comment_ends = true ->
  skip_wc true (body ++ e :: r) = skip_wc false r.
Proof.
  induction body as [|c t IH]; intros e r Hb He.
  - cbn [app skip_wc]. change font_comment_ends with lex_comment_ends. rewrite He. reflexivity.
  - inversion Hb as [|? ? Hc Ht]; subst. cbn [app skip_wc]. change font_comment_ends with lex_comment_ends.
    rewrite Hc. exact (IH e r Ht He).
Qed.

Lemma skip_wc_sep sp : sep sp -> forall X, skip_wc false (sp ++ X) = skip_wc false X.
Proof.
  induction 1 as [|b r Hb Hr IH|body e r Hbody He Hr IH]; intros X.
  - reflexivity.
  - cbn [app skip_wc]. change (M.is_ws b) with (L.is_ws b). rewrite Hb. apply IH.
  - cbn [app]. rewrite <- app_assoc. cbn [app skip_wc].
    change (M.is_ws lex_comment) with false. change (lex_comment =? font_comment_start) with true. cbv iota.
    rewrite (skip_wc_body body e (r ++ X) Hbody He). apply IH.
Qed.

(** white-space and comments in front of a token are invisible *)
Lemma next_word_sep sp X : sep sp -> M.next_word (sp ++ X) = M.next_word X.
Proof. intros H. unfold M.next_word. rewrite (skip_wc_sep sp H X). reflexivity. Qed.

Lemma next_word_eof sp : sep sp -> M.next_word sp = Err 2.
Proof. intros H. rewrite <- (app_nil_r sp), (next_word_sep sp [] H). reflexivity. Qed.

Lemma skip_wc_open_comment body : Forall (fun c => memN c lex_comment_ends = false) body -> skip_wc true body = [].
Proof.
  induction 1 as [|c t Hc Ht IH]; [reflexivity|]. cbn [skip_wc]. change font_comment_ends with lex_comment_ends.
  rewrite Hc. exact IH.
Qed.

(* ------------------------------------------------------------------ *)
(** * tokens without a separator in front *)

Definition nolt (rest : bytes) : Prop := match rest with b :: _ => (b =? 60) = false | [] => True end.

Lemma next_word_lt rest : nolt rest -> M.next_word (60 :: rest) = Ok ([60], rest).
Proof.
  intros H. unfold M.next_word. cbn [skip_wc].
  change (M.is_ws 60) with false. change (60 =? font_comment_start) with false. cbv iota.
  change (M.is_delim 60) with true. change (60 =? font_name_start) with false. cbv iota.
  destruct rest as [|b t]; [reflexivity|]. cbn [nolt] in H.
  change (memN 60 font_double_delims) with true. cbn [andb]. rewrite H. reflexivity.
Qed.

Lemma span_reg_word w : forall rest, forallb M.is_reg w = true -> boundary rest -> M.span_reg (w ++ rest) = (w, rest).
Proof.
  induction w as [|x t IH]; intros rest Hw Hb.
  - cbn [app]. destruct rest as [|b r]; [reflexivity|]. cbn [boundary] in Hb. cbn [M.span_reg].
    change (M.is_reg b) with (L.is_reg b). rewrite Hb. reflexivity.
  - cbn [forallb] in Hw. apply andb_true_iff in Hw. destruct Hw as [Hx Ht].
    cbn [app M.span_reg]. rewrite Hx, (IH rest Ht Hb). reflexivity.
Qed.

Lemma reg_first x : M.is_reg x = true -> M.is_ws x = false /\ M.is_delim x = false /\ (x =? font_comment_start) = false.
Proof.
  intros H. unfold M.is_reg in H. apply andb_true_iff in H. destruct H as [H1 H2]. apply negb_true_iff in H1, H2.
  repeat split; try assumption.
  destruct (N.eqb_spec x font_comment_start) as [->|]; [|reflexivity]. vm_compute in H2. discriminate.
Qed.

Lemma next_word_reg w rest : w <> [] -> forallb M.is_reg w = true -> boundary rest ->
  M.next_word (w ++ rest) = Ok (w, rest).
Proof.
  intros Hne Hw Hb. destruct w as [|x t]; [congruence|].
  pose proof Hw as Hw'. cbn [forallb] in Hw'. apply andb_true_iff in Hw'. destruct Hw' as [Hx _].
  destruct (reg_first x Hx) as [H1 [H2 H3]].
  unfold M.next_word. cbn [app skip_wc]. rewrite H1, H3, H2.
  change (x :: t ++ rest) with ((x :: t) ++ rest). rewrite (span_reg_word _ rest Hw Hb). reflexivity.
Qed.

Lemma next_word_slash w rest : forallb M.is_reg w = true -> boundary rest ->
  M.next_word (47 :: w ++ rest) = Ok (47 :: w, rest).
Proof.
  intros Hw Hb. unfold M.next_word. cbn [skip_wc].
  change (M.is_ws 47) with false. change (47 =? font_comment_start) with false. cbv iota.
  change (M.is_delim 47) with true. change (47 =? font_name_start) with true. cbv iota.
  rewrite (span_reg_word w rest Hw Hb). reflexivity.
Qed.

Lemma delim_not_ws d : M.is_delim d = true -> M.is_ws d = false.
Proof.
  intros H. unfold M.is_delim in H. apply memN_In in H. unfold font_delims in H. cbn [In] in H.
  repeat (destruct H as [<-|H]; [reflexivity|]). contradiction.
Qed.

Lemma next_word_lone d rest : lone_delim d rest -> M.next_word (d :: rest) = Ok ([d], rest).
Proof.
  intros [Hd [H47 [H37 Hr]]]. unfold M.next_word. cbn [skip_wc].
  rewrite (delim_not_ws d Hd).
  replace (d =? font_comment_start) with false by (symmetry; apply N.eqb_neq; exact H37).
  rewrite Hd. replace (d =? font_name_start) with false by (symmetry; apply N.eqb_neq; exact H47).
  destruct rest as [|b t]; [reflexivity|].
  destruct (memN d font_double_delims) eqn:E; [|reflexivity]. cbn [andb].
  replace (b =? d) with false; [reflexivity|]. symmetry. apply N.eqb_neq. apply Hr.
  apply memN_In in E. unfold font_double_delims in E. cbn [In] in E. intuition.
Qed.

Lemma next_word_double d rest : d = 60 \/ d = 62 -> M.next_word (d :: d :: rest) = Ok ([d; d], rest).
Proof. intros [->| ->]; reflexivity. Qed.

Lemma boundary_app X rest : X <> [] -> boundary X -> boundary (X ++ rest).
Proof. destruct X as [|b t]; [congruence|]. intros _ H. exact H. Qed.

(* ------------------------------------------------------------------ *)
(** * hexadecimal strings *)

Lemma tbl_not_lt : memN 60 hexstr_ws = false /\ hexd 60 = None.
Proof. split; reflexivity. Qed.

Lemma hws_not_lt w : hws w -> (w =? 60) = false.
Proof.
  intros H. destruct (N.eqb_spec w 60) as [->|]; [|reflexivity].
  unfold hws in H. rewrite (proj1 tbl_not_lt) in H. discriminate.
Qed.

Lemma digit_not_lt c h : hexd c = Some h -> (c =? 60) = false.
Proof.
  intros H. destruct (N.eqb_spec c 60) as [->|]; [|reflexivity]. rewrite (proj2 tbl_not_lt) in H. discriminate.
Qed.

Lemma ws_head_nolt ws c X : Forall hws ws -> (c =? 60) = false -> nolt (ws ++ c :: X).
Proof.
  intros Hw Hc. destruct Hw as [|w t Hw _]; cbn [app nolt]; [exact Hc|exact (hws_not_lt w Hw)].
Qed.

Lemma hex_run_nolt out text rest : hex_run out text -> nolt (text ++ 62 :: rest).
Proof.
  intros H. destruct H as [ws Hws|ws1 c1 ws2 c2 h l out text Hw1 Hw2 _ _ D1 _ _|ws1 c1 ws2 h Hw1 Hw2 _ D1].
  - apply ws_head_nolt; [exact Hws|reflexivity].
  - rewrite <- app_assoc. cbn [app]. apply ws_head_nolt; [exact Hw1|exact (digit_not_lt _ _ D1)].
  - rewrite <- app_assoc. cbn [app]. apply ws_head_nolt; [exact Hw1|exact (digit_not_lt _ _ D1)].
Qed.

Lemma hex_flat sp text rest : (sp ++ 60 :: text ++ [62]) ++ rest = sp ++ 60 :: (text ++ 62 :: rest).
Proof. rewrite <- app_assoc. cbn [app]. rewrite <- app_assoc. reflexivity. Qed.

(** the two steps of reading a hex string: the lexeme `<`, then HexStringLexer up to `>` *)
Lemma hex_token out s rest : sp_hex out s ->
  exists X, M.next_word (s ++ rest) = Ok ([60], X) /\ hexstr None X = Ok (out, rest).
Proof.
  intros H. destruct H as [sp text out Hsp Hrun].
  exists (text ++ 62 :: rest). rewrite hex_flat. split.
  - rewrite (next_word_sep sp _ Hsp). apply next_word_lt. exact (hex_run_nolt out text rest Hrun).
  - change 62 with hexstr_end. exact (hexstr_spelled out text rest Hrun).
Qed.

(** parse_with_lexer(STRING) / (STRING | ARRAY) on any spelling of a hex string *)
Lemma parse_prim_hex aa fu out s rest : sp_hex out s -> parse_prim aa fu (s ++ rest) = Ok (CStr out, rest).
Proof.
  intros H. destruct (hex_token out s rest H) as [X [E1 E2]].
  unfold parse_prim. rewrite E1. cbn [bind fst snd].
  change (bytes_eqb [60] [font_hexstr_open]) with true. cbv iota. rewrite E2. reflexivity.
Qed.

Lemma sp_hex_len out s : sp_hex out s -> (2 <= length s)%nat.
Proof. intros H. destruct H. rewrite app_length. cbn [length]. rewrite app_length. cbn [length]. lia. Qed.

Lemma sp_code_cid c s : sp_code c s -> exists b, sp_hex b s /\ parse_cid b = Ok c.
Proof.
  intros H. destruct H as [c s Hc Hs|c s Hc Hs].
  - exists [c]. split; [exact Hs|reflexivity].
  - exists (cid_bytes c). split; [exact Hs|apply parse_cid_bytes].
Qed.

Lemma sp_code_len c s : sp_code c s -> (2 <= length s)%nat.
Proof. intros H. destruct (sp_code_cid c s H) as [b [Hb _]]. exact (sp_hex_len _ _ Hb). Qed.

(* ------------------------------------------------------------------ *)
(** * arrays *)

Lemma next_word_close sp rest : sep sp -> M.next_word (sp ++ 93 :: rest) = Ok ([93], rest).
Proof.
  intros H. rewrite (next_word_sep sp _ H). apply next_word_lone.
  repeat split; try discriminate. destruct rest; [exact I|]. intros [E|E]; discriminate.
Qed.

Lemma parse_array_sp us s : sp_list sp_dst us s -> forall fu sp rest, sep sp -> (length us < fu)%nat ->
  parse_array fu (s ++ sp ++ 93 :: rest) = Ok (map utf16be_bytes us, rest).
Proof.
  induction 1 as [|u us s1 s2 [Hu Hs1] Hs2 IH]; intros fu sp rest Hsp Hfu.
  - destruct fu as [|fu]; [cbn [length] in Hfu; lia|]. cbn [app parse_array].
    rewrite (next_word_close sp rest Hsp). reflexivity.
  - destruct fu as [|fu]; [cbn [length] in Hfu; lia|]. cbn [length] in Hfu.
    rewrite <- app_assoc. cbn [parse_array].
    destruct (hex_token _ s1 (s2 ++ sp ++ 93 :: rest) Hs1) as [X [E1 E2]]. rewrite E1. cbn [bind fst snd].
    change (bytes_eqb [60] [font_array_close]) with false.
    change (bytes_eqb [60] [font_hexstr_open]) with true. cbv iota.
    rewrite E2. cbn [bind fst snd].
    rewrite (IH fu sp rest Hsp ltac:(lia)). reflexivity.
Qed.

Lemma parse_prim_arr fu us s sp1 sp2 rest : sep sp1 -> sp_list sp_dst us s -> sep sp2 -> (length us < fu)%nat ->
  parse_prim true fu ((sp1 ++ 91 :: s ++ sp2 ++ [93]) ++ rest) = Ok (CArr (map utf16be_bytes us), rest).
Proof.
  intros H1 Hs H2 Hfu.
  replace ((sp1 ++ 91 :: s ++ sp2 ++ [93]) ++ rest) with (sp1 ++ 91 :: (s ++ sp2 ++ 93 :: rest)).
  2: { rewrite <- !app_assoc. cbn [app]. rewrite <- !app_assoc. reflexivity. }
  unfold parse_prim. rewrite (next_word_sep sp1 _ H1).
  rewrite (next_word_lone 91).
  2: { repeat split; try discriminate. destruct (s ++ sp2 ++ 93 :: rest); [exact I|]. intros [E|E]; discriminate. }
  cbn [bind fst snd].
  change (bytes_eqb [91] [font_hexstr_open]) with false.
  change (bytes_eqb [91] [font_litstr_open]) with false.
  change (bytes_eqb [91] [font_array_open]) with true. cbv iota.
  rewrite (parse_array_sp us s Hs fu sp2 rest H2 Hfu). reflexivity.
Qed.

Lemma sp_list_len {A} (P : A -> bytes -> Prop) k xs s :
  (forall x s, P x s -> (k <= length s)%nat) -> sp_list P xs s -> (k * length xs <= length s)%nat.
Proof.
  intros Hk H. induction H as [|x xs s1 s2 Hx Hxs IH]; [cbn; lia|].
  cbn [length]. rewrite app_length. specialize (Hk x s1 Hx). lia.
Qed.

Lemma sp_dst_len u s : sp_dst u s -> (2 <= length s)%nat.
Proof. intros [_ H]. exact (sp_hex_len _ _ H). Qed.

(* ------------------------------------------------------------------ *)
(** * the string form of bfrange *)

Lemma tbl_last_max : font_range_last_max = 255.
Proof. reflexivity. Qed.

Lemma bump_0 d : bump 0 d = d.
Proof.
  induction d as [|x t IH]; [reflexivity|]. destruct t as [|y t']; [cbn [bump]; rewrite N.add_0_r; reflexivity|].
  change (bump 0 (x :: y :: t')) with (x :: bump 0 (y :: t')). rewrite IH. reflexivity.
Qed.

Lemma inc_last_bump d : forall i, d <> [] -> last d 0 + i < 255 -> inc_last (bump i d) = Some (bump (i + 1) d).
Proof.
  induction d as [|x t IH]; intros i Hne Hl; [congruence|].
  destruct t as [|y t'].
  - cbn [last] in Hl. cbn [bump inc_last]. rewrite tbl_last_max.
    replace (x + i <? 255) with true by (symmetry; apply N.ltb_lt; exact Hl).
    rewrite N.add_assoc. reflexivity.
  - change (last (x :: y :: t') 0) with (last (y :: t') 0) in Hl.
    change (bump i (x :: y :: t')) with (x :: bump i (y :: t')).
    change (bump (i + 1) (x :: y :: t')) with (x :: bump (i + 1) (y :: t')).
    specialize (IH i ltac:(discriminate) Hl).
    destruct (bump i (y :: t')) as [|z zs] eqn:E.
    { destruct t'; discriminate. }
    change (inc_last (x :: z :: zs)) with (match inc_last (z :: zs) with Some t0 => Some (x :: t0) | None => None end).
    rewrite IH. reflexivity.
Qed.

Lemma range_str_zip d0 : d0 <> [] -> forall us i cid m,
  (forall j u, nth_error us j = Some u -> wf_ustr u /\ utf16be_bytes u = bump (N.of_nat (i + j)) d0) ->
  last d0 0 + N.of_nat (i + length us) <= 256 ->
  range_str (length us) cid (bump (N.of_nat i) d0) m = zip_insert cid us (length us) m.
Proof.
  intros Hne. induction us as [|u t IH]; intros i cid m Hus Hl; [reflexivity|].
  cbn [length range_str zip_insert].
  destruct (Hus O u eq_refl) as [Hu Eu]. rewrite Nat.add_0_r in Eu.
  rewrite <- Eu, (insert_decoded_utf cid u m Hu), Eu.
  destruct t as [|u' t'].
  - cbn [length range_str zip_insert]. destruct (inc_last (bump (N.of_nat i) d0)); reflexivity.
  - rewrite (inc_last_bump d0 (N.of_nat i) Hne) by (cbn [length] in Hl; lia).
    replace (N.of_nat i + 1) with (N.of_nat (S i)) by lia.
    apply IH.
    + intros j u0 Hj. replace (S i + j)%nat with (i + S j)%nat by lia. exact (Hus (S j) u0 Hj).
    + cbn [length] in *. lia.
Qed.

Lemma range_str_denote us cid m : str_range us ->
  range_str (length us) cid (utf16be_bytes (hd [] us)) m = zip_insert cid us (length us) m.
Proof.
  intros H. destruct us as [|u0 t]; [contradiction|]. cbn [str_range hd] in *. destruct H as [Hne [Hl Hus]].
  rewrite <- (bump_0 (utf16be_bytes u0)) at 1.
  apply (range_str_zip (utf16be_bytes u0) Hne (u0 :: t) O cid m).
  - intros j u Hj. cbn [plus]. exact (Hus j u Hj).
  - unfold lenN in Hl. cbn [plus]. exact Hl.
Qed.

(* ------------------------------------------------------------------ *)
(** * entries *)

Lemma char_step_sp f e s rest m : sp_char e s ->
  cmap_loop (S f) MChar (s ++ rest) m = cmap_loop f MChar rest (map_insert (fst e) (snd e) m).
Proof.
  intros H. destruct H as [c u s1 s2 Hc [Hu Hd]].
  destruct (sp_code_cid c s1 Hc) as [b [Hb Eb]].
  rewrite <- app_assoc. cbn [cmap_loop].
  rewrite (parse_prim_hex false f b s1 _ Hb). cbv beta iota.
  rewrite (parse_prim_hex false f _ s2 rest Hd). cbv beta iota.
  rewrite Eb. cbn [bind fst snd]. rewrite (insert_decoded_utf _ _ _ Hu). reflexivity.
Qed.

Lemma sp_dsts_wf us s : sp_list sp_dst us s -> Forall wf_ustr us.
Proof. induction 1 as [|u us s1 s2 [Hu _] _ IH]; constructor; assumption. Qed.

Lemma range_step_sp f r s rest m : sp_range r s -> (length s <= f)%nat ->
  cmap_loop (S f) MRange (s ++ rest) m = cmap_loop f MRange rest (denote_range r m).
Proof.
  intros H Hf. destruct H as [lo hi us s1 s2 sp1 s3 sp2 H1 H2 Hsp1 H3 Hsp2|lo hi us s1 s2 s3 H1 H2 Hs Hn H3].
  - destruct (sp_code_cid lo s1 H1) as [b1 [Hb1 E1]]. destruct (sp_code_cid hi s2 H2) as [b2 [Hb2 E2]].
    pose proof (sp_list_len sp_dst 2 us s3 sp_dst_len H3) as Hlen.
    assert (Hfu : (length us < f)%nat).
    { revert Hf. repeat (rewrite app_length; cbn [length]). lia. }
    rewrite <- !app_assoc. cbn [cmap_loop].
    rewrite (parse_prim_hex false f b1 s1 _ Hb1). cbv beta iota zeta.
    rewrite (parse_prim_hex false f b2 s2 _ Hb2). cbv beta iota zeta.
    rewrite app_assoc.
    rewrite (parse_prim_arr f us s3 sp1 sp2 rest Hsp1 H3 Hsp2 Hfu). cbv beta iota zeta.
    rewrite E1, E2. cbn [bind]. unfold denote_range, range_count.
    rewrite (range_arr_zip _ _ _ _ (sp_dsts_wf us s3 H3)). reflexivity.
  - destruct (sp_code_cid lo s1 H1) as [b1 [Hb1 E1]]. destruct (sp_code_cid hi s2 H2) as [b2 [Hb2 E2]].
    rewrite <- !app_assoc. cbn [cmap_loop].
    rewrite (parse_prim_hex false f b1 s1 _ Hb1). cbv beta iota zeta.
    rewrite (parse_prim_hex false f b2 s2 _ Hb2). cbv beta iota zeta.
    rewrite (parse_prim_hex true f _ s3 rest H3). cbv beta iota zeta.
    assert (Hne : utf16be_bytes (hd [] us) <> []).
    { destruct us as [|u0 t]; [contradiction|]. exact (proj1 Hs). }
    destruct (utf16be_bytes (hd [] us)) as [|x xs] eqn:Ed; [congruence|].
    rewrite E1, E2. cbn [bind]. unfold denote_range, range_count. rewrite <- Hn, <- Ed.
    rewrite (range_str_denote us lo m Hs). reflexivity.
Qed.

(* ------------------------------------------------------------------ *)
(** * sections *)

Lemma chars_loop_sp es body : sp_list sp_char es body -> forall f rest m,
  cmap_loop (length es + f) MChar (body ++ rest) m = cmap_loop f MChar rest (fold_left ins_char es m).
Proof.
  induction 1 as [|e es s1 s2 He Hes IH]; intros f rest m; [reflexivity|].
  cbn [length plus fold_left]. rewrite <- app_assoc. rewrite (char_step_sp _ e s1 _ m He). apply IH.
Qed.

Lemma ranges_loop_sp rs body : sp_list sp_range rs body -> forall f rest m, (length body <= f)%nat ->
  cmap_loop (length rs + f) MRange (body ++ rest) m
  = cmap_loop f MRange rest (fold_left (fun m r => denote_range r m) rs m).
Proof.
  induction 1 as [|r rs s1 s2 Hr Hrs IH]; intros f rest m Hf; [reflexivity|].
  rewrite app_length in Hf.
  cbn [length plus fold_left]. rewrite <- app_assoc. rewrite (range_step_sp _ r s1 _ m Hr) by lia.
  apply IH. lia.
Qed.

Lemma tbl_end_kw :
  forallb M.is_reg kw_endbfchar = true /\ forallb M.is_reg kw_endbfrange = true /\
  forallb M.is_reg kw_beginbfchar = true /\ forallb M.is_reg kw_beginbfrange = true /\
  forallb M.is_reg kw_endcmap = true /\ font_kw_endcmap = kw_endcmap.
Proof. vm_compute. repeat split. Qed.

(** leaving an inner loop: the next token is a regular word, not a string *)
Lemma parse_prim_word aa fu sp kw rest : sep sp -> kw <> [] -> forallb M.is_reg kw = true -> boundary rest ->
  parse_prim aa fu (sp ++ kw ++ rest) = Err 4.
Proof.
  intros Hsp Hne Hreg Hb. unfold parse_prim.
  rewrite (next_word_sep sp _ Hsp), (next_word_reg kw rest Hne Hreg Hb). cbn [bind fst snd].
  destruct kw as [|x t]; [congruence|].
  cbn [forallb] in Hreg. apply andb_true_iff in Hreg. destruct Hreg as [Hx _].
  destruct (reg_first x Hx) as [_ [Hd _]].
  assert (G : forall d, M.is_delim d = true -> bytes_eqb (x :: t) [d] = false).
  { intros d Hdd. cbn [bytes_eqb]. destruct (N.eqb_spec x d) as [->|]; [congruence|reflexivity]. }
  rewrite (G font_hexstr_open eq_refl), (G font_litstr_open eq_refl), (G font_array_open eq_refl). reflexivity.
Qed.

Lemma outer_tok f s w r m : M.next_word s = Ok (w, r) ->
  bytes_eqb w font_kw_bfchar = false -> bytes_eqb w font_kw_bfrange = false -> bytes_eqb w font_kw_endcmap = false ->
  cmap_loop (S f) MOuter s m = cmap_loop f MOuter r m.
Proof. intros E E1 E2 E3. cbn [cmap_loop]. rewrite E, E1, E2, E3. reflexivity. Qed.

Lemma char_exit_sp f sp rest m : sep sp -> boundary rest ->
  cmap_loop (S (S f)) MChar (sp ++ kw_endbfchar ++ rest) m = cmap_loop f MOuter rest m.
Proof.
  intros Hsp Hb. destruct tbl_end_kw as [T _].
  rewrite (char_break (S f)) by (apply parse_prim_word; [exact Hsp|discriminate|exact T|exact Hb]).
  apply (outer_tok f _ kw_endbfchar); try reflexivity.
  rewrite (next_word_sep sp _ Hsp). apply next_word_reg; [discriminate|exact T|exact Hb].
Qed.

Lemma range_exit_sp f sp rest m : sep sp -> boundary rest ->
  cmap_loop (S (S f)) MRange (sp ++ kw_endbfrange ++ rest) m = cmap_loop f MOuter rest m.
Proof.
  intros Hsp Hb. destruct tbl_end_kw as [_ [T _]].
  rewrite (range_break (S f)) by (apply parse_prim_word; [exact Hsp|discriminate|exact T|exact Hb]).
  apply (outer_tok f _ kw_endbfrange); try reflexivity.
  rewrite (next_word_sep sp _ Hsp). apply next_word_reg; [discriminate|exact T|exact Hb].
Qed.

Lemma outer_begin_char f sp X m : sep sp -> boundary X ->
  cmap_loop (S f) MOuter (sp ++ kw_beginbfchar ++ X) m = cmap_loop f MChar X m.
Proof.
  intros Hsp Hb. destruct tbl_end_kw as [_ [_ [T _]]]. cbn [cmap_loop].
  rewrite (next_word_sep sp _ Hsp), (next_word_reg kw_beginbfchar X ltac:(discriminate) T Hb).
  destruct tbl_kw_eqb as [E _]. rewrite E. reflexivity.
Qed.

Lemma outer_begin_range f sp X m : sep sp -> boundary X ->
  cmap_loop (S f) MOuter (sp ++ kw_beginbfrange ++ X) m = cmap_loop f MRange X m.
Proof.
  intros Hsp Hb. destruct tbl_end_kw as [_ [_ [_ [T _]]]]. cbn [cmap_loop].
  rewrite (next_word_sep sp _ Hsp), (next_word_reg kw_beginbfrange X ltac:(discriminate) T Hb).
  destruct tbl_kw_eqb as [_ [E1 E2]]. rewrite E1, E2. reflexivity.
Qed.

Definition sec_cost (s : csection) : nat :=
  match s with SChar es => 3 + length es | SRange rs => 3 + length rs end.

Lemma section_loop_sp s b : sp_section s b -> forall f sp0 rest m, sep sp0 -> boundary rest -> (length b <= f)%nat ->
  cmap_loop (sec_cost s + f) MOuter (sp0 ++ b ++ rest) m = cmap_loop f MOuter rest (denote_section s m).
Proof.
  intros H. destruct H as [es body sp Hes Hsp Hbd|rs body sp Hrs Hsp Hbd]; intros f sp0 rest m Hsp0 Hb Hf.
  - cbn [sec_cost denote_section].
    replace ((kw_beginbfchar ++ body ++ sp ++ kw_endbfchar) ++ rest)
      with (kw_beginbfchar ++ (body ++ sp ++ kw_endbfchar ++ rest)) by (rewrite <- !app_assoc; reflexivity).
    replace (3 + length es + f)%nat with (S (length es + S (S f))) by lia.
    rewrite (outer_begin_char _ sp0 _ m Hsp0).
    2: { replace (body ++ sp ++ kw_endbfchar ++ rest) with ((body ++ sp ++ kw_endbfchar) ++ rest)
           by (rewrite <- !app_assoc; reflexivity).
         apply boundary_app; [|exact Hbd]. destruct body; [destruct sp|]; discriminate. }
    rewrite (chars_loop_sp es body Hes). apply (char_exit_sp f sp rest _ Hsp Hb).
  - cbn [sec_cost denote_section].
    replace ((kw_beginbfrange ++ body ++ sp ++ kw_endbfrange) ++ rest)
      with (kw_beginbfrange ++ (body ++ sp ++ kw_endbfrange ++ rest)) by (rewrite <- !app_assoc; reflexivity).
    replace (3 + length rs + f)%nat with (S (length rs + S (S f))) by lia.
    rewrite (outer_begin_range _ sp0 _ m Hsp0).
    2: { replace (body ++ sp ++ kw_endbfrange ++ rest) with ((body ++ sp ++ kw_endbfrange) ++ rest)
           by (rewrite <- !app_assoc; reflexivity).
         apply boundary_app; [|exact Hbd]. destruct body; [destruct sp|]; discriminate. }
    rewrite (ranges_loop_sp rs body Hrs).
    2: { revert Hf. repeat (rewrite app_length; cbn [length]). lia. }
    apply (range_exit_sp f sp rest _ Hsp Hb).
Qed.

Lemma sp_char_len e s : sp_char e s -> (4 <= length s)%nat.
Proof.
  intros H. destruct H as [c u s1 s2 Hc Hd]. pose proof (sp_code_len _ _ Hc). pose proof (sp_dst_len _ _ Hd).
  rewrite app_length. lia.
Qed.

Lemma sp_range_len4 r s : sp_range r s -> (4 <= length s)%nat.
Proof.
  intros H. destruct H as [lo hi us s1 s2 sp1 s3 sp2 H1 H2 _ _ _|lo hi us s1 s2 s3 H1 H2 _ _ _];
    pose proof (sp_code_len _ _ H1); pose proof (sp_code_len _ _ H2); repeat (rewrite app_length; cbn [length]); lia.
Qed.

(** what a section costs is covered by its length *)
Lemma sp_section_len s b : sp_section s b -> (sec_cost s + 17 <= length b)%nat.
Proof.
  intros H. destruct H as [es body sp Hes _ _|rs body sp Hrs _ _]; cbn [sec_cost].
  - pose proof (sp_list_len sp_char 4 es body sp_char_len Hes).
    repeat (rewrite app_length; cbn [length]). change (length kw_beginbfchar) with 11%nat. change (length kw_endbfchar) with 9%nat. lia.
  - pose proof (sp_list_len sp_range 4 rs body sp_range_len4 Hrs).
    repeat (rewrite app_length; cbn [length]). change (length kw_beginbfrange) with 12%nat. change (length kw_endbfrange) with 10%nat. lia.
Qed.

(* ------------------------------------------------------------------ *)
(** * the whole text, on parse_cmap's own fuel *)

Lemma not_kw_eqb w k : w <> k -> bytes_eqb w k = false.
Proof.
  revert k. induction w as [|x t IH]; intros k Hne; destruct k as [|y k']; try reflexivity; [congruence|].
  cbn [bytes_eqb]. destruct (N.eqb_spec x y) as [->|]; [|reflexivity]. cbn [andb]. apply IH. congruence.
Qed.

Lemma single_not_kw d k : (2 <= length k)%nat -> bytes_eqb [d] k = false.
Proof.
  destruct k as [|a [|b k']]; cbn [length]; try lia. intros _. cbn [bytes_eqb]. apply andb_false_r.
Qed.

Theorem cmap_loop_spelled t s : sp_text t s -> forall f m, (2 * length s + 2 <= f)%nat ->
  cmap_loop f MOuter s m = Ok (denote_sections t m).
Proof.
  destruct tbl_end_kw as [_ [_ [_ [_ [Tend Eend]]]]].
  induction 1 as [sp Hsp|sp body Hsp Hbody|sp rest Hsp Hb|t sp w rest Hsp Hw Hb Ht IH|t sp w rest Hsp Hw Hb Ht IH
                 |t sp d rest Hsp Hd Ht IH|t sp d rest Hsp Hd Ht IH|s t sp b rest Hsp Hs Hb Ht IH]; intros f m Hf.
  - destruct f as [|f]; [lia|]. cbn [cmap_loop]. rewrite (next_word_eof sp Hsp). reflexivity.
  - destruct f as [|f]; [lia|]. cbn [cmap_loop]. rewrite (next_word_sep sp _ Hsp).
    unfold M.next_word. cbn [skip_wc]. change (M.is_ws 37) with false. change (37 =? font_comment_start) with true. cbv iota.
    rewrite (skip_wc_open_comment body Hbody). reflexivity.
  - destruct f as [|f]; [lia|]. cbn [cmap_loop].
    rewrite (next_word_sep sp _ Hsp), (next_word_reg kw_endcmap rest ltac:(discriminate) Tend Hb).
    rewrite Eend. reflexivity.
  - destruct Hw as [Hne [Hreg [N1 [N2 N3]]]].
    destruct f as [|f]; [lia|].
    rewrite (outer_tok f _ w rest m).
    + apply IH. revert Hf. repeat (rewrite app_length; cbn [length]). destruct w; [congruence|cbn [length]; lia].
    + rewrite (next_word_sep sp _ Hsp). apply next_word_reg; assumption.
    + apply not_kw_eqb. rewrite (proj1 tbl_keywords). exact N1.
    + apply not_kw_eqb. rewrite (proj1 (proj2 tbl_keywords)). exact N2.
    + apply not_kw_eqb. rewrite Eend. exact N3.
  - destruct f as [|f]; [lia|].
    rewrite (outer_tok f _ (47 :: w) rest m); try reflexivity.
    + apply IH. revert Hf. repeat (rewrite app_length; cbn [length]). lia.
    + rewrite (next_word_sep sp _ Hsp). apply next_word_slash; assumption.
  - destruct f as [|f]; [lia|].
    rewrite (outer_tok f _ [d] rest m).
    + apply IH. revert Hf. repeat (rewrite app_length; cbn [length]). lia.
    + rewrite (next_word_sep sp _ Hsp). apply next_word_lone. exact Hd.
    + apply single_not_kw. cbn. lia.
    + apply single_not_kw. cbn. lia.
    + apply single_not_kw. cbn. lia.
  - destruct f as [|f]; [lia|].
    assert (Hd' : d = 60 \/ d = 62) by exact Hd.
    rewrite (outer_tok f _ [d; d] rest m); try (destruct Hd as [-> | ->]; reflexivity).
    + apply IH. revert Hf. repeat (rewrite app_length; cbn [length]). lia.
    + rewrite (next_word_sep sp _ Hsp). apply next_word_double. exact Hd'.
  - pose proof (sp_section_len s b Hs) as Hlen.
    rewrite !app_length in Hf.
    replace f with (sec_cost s + (f - sec_cost s))%nat by lia.
    rewrite (section_loop_sp s b Hs _ sp rest m Hsp Hb) by lia.
    unfold denote_sections. cbn [fold_left]. apply IH. lia.
Qed.

(** DESIGN §12.C19 [C19_cmap_read_spelled]: every spelling of a CMap text is read as the map the text denotes *)
Theorem cmap_read_spelled t s : sp_text t s -> parse_cmap s = Ok (cmap_denote t).
Proof. intros H. unfold parse_cmap, cmap_denote. apply (cmap_loop_spelled t s H). lia. Qed.

(* ------------------------------------------------------------------ *)
(** * non-vacuity: a text with a comment, form feed, no space between strings, lower-case digits, white-space inside a
      string, one-byte codes, and the string form of bfrange *)

Definition ex_text : cmap_text := [SRange [(26, 27, [[97]; [98]])]].
(*  beginbfrange%x\n<1a>\f<1B><00 61> endbfrange  *)
Definition ex_s1 : bytes := [37;120;10] ++ 60 :: [49;97] ++ [62].
Definition ex_s2 : bytes := [12] ++ 60 :: [49;66] ++ [62].
Definition ex_s3 : bytes := [] ++ 60 :: [48;48;32;54;49] ++ [62].
Definition ex_bytes : bytes := [] ++ (kw_beginbfrange ++ ((ex_s1 ++ ex_s2 ++ ex_s3) ++ []) ++ [32] ++ kw_endbfrange) ++ [].

Lemma ex_hws w : memN w hexstr_ws = true -> hws w.
Proof. intros H. exact H. Qed.

Example ex_spelled : sp_text ex_text ex_bytes.
Proof.
  unfold ex_text, ex_bytes.
  apply (spt_section _ [] [] _ []); [constructor| |exact I|apply spt_eof; constructor].
  apply (sp_srange _ ((ex_s1 ++ ex_s2 ++ ex_s3) ++ []) [32]); [|apply sep_ws; [reflexivity|constructor]|reflexivity].
  apply spl_cons; [|constructor].
  apply (sp_range_str 26 27 [[97]; [98]] ex_s1 ex_s2 ex_s3).
  - apply sp_code1; [reflexivity|]. unfold ex_s1. apply sp_hex_intro.
    + apply (sep_comment [120] 10 []); [repeat constructor|reflexivity|constructor].
    + exact (hx_byte [] 49 [] 97 1 10 [] [] (Forall_nil _) (Forall_nil _) eq_refl eq_refl eq_refl eq_refl (hx_nil [] (Forall_nil _))).
  - apply sp_code1; [reflexivity|]. unfold ex_s2. apply sp_hex_intro.
    + apply sep_ws; [reflexivity|constructor].
    + exact (hx_byte [] 49 [] 66 1 11 [] [] (Forall_nil _) (Forall_nil _) eq_refl eq_refl eq_refl eq_refl (hx_nil [] (Forall_nil _))).
  - cbn [str_range]. split; [discriminate|]. split; [vm_compute; discriminate|].
    intros i u Hi. destruct i as [|[|i]]; cbn [nth_error] in Hi; [| |destruct i; discriminate];
      inversion Hi; subst; split; reflexivity.
  - reflexivity.
  - unfold ex_s3. apply sp_hex_intro; [constructor|].
    exact (hx_byte [] 48 [] 48 0 0 [97] [32;54;49] (Forall_nil _) (Forall_nil _) eq_refl eq_refl eq_refl eq_refl
             (hx_byte [32] 54 [] 49 6 1 [] [] (Forall_cons _ (ex_hws 32 eq_refl) (Forall_nil _)) (Forall_nil _)
                eq_refl eq_refl eq_refl eq_refl (hx_nil [] (Forall_nil _)))).
Qed.

Example ex_read : parse_cmap ex_bytes = Ok [(26, [97]); (27, [98])].
Proof. rewrite (cmap_read_spelled _ _ ex_spelled). reflexivity. Qed.

(** where the reader deviates from the token syntax (finding C19-f): the outer loop looks at bare lexemes, so a section
    keyword inside a PostScript literal string is acted on.  The text below is one string token and denotes the empty
    map; the reader returns an entry.  [sp_text] excludes it: `(` must be followed by filler up to `)`. *)
Example cmap_keyword_in_string_refuted :
  (*  (beginbfchar <01> <0041> endbfchar)  *)
  parse_cmap ([40] ++ kw_beginbfchar ++ [32;60;48;49;62;32;60;48;48;52;49;62;32] ++ kw_endbfchar ++ [41]) <> Ok [].
Proof. vm_compute. discriminate. Qed.
