(** Font/WidthProofs.v — the width table (font.rs: Widths) and the interpretation of /W and /Widths. *)
From PdfV Require Import Base.Prelude Gen.Generated Font.Model Font.Spec.

(* ------------------------------------------------------------------ *)
(** * generated constants this file relies on (re-checked against the Rust source on every run) *)

Lemma tbl_max_cid : font_max_cid = 65535.
Proof. vm_compute. reflexivity. Qed.
Lemma tbl_new_first : font_widths_new_first = 0.
Proof. vm_compute. reflexivity. Qed.

(* ------------------------------------------------------------------ *)
(** * list facts *)

Lemma nth_N_nth l : forall i d, nth_N l i d = nth (N.to_nat i) l d.
Proof.
  induction l as [|x t IH]; intros i d; cbn [nth_N].
  - destruct (N.to_nat i); reflexivity.
  - destruct (N.eqb_spec i 0) as [->|Hn]; [reflexivity|].
    rewrite IH. replace (N.to_nat i) with (S (N.to_nat (i - 1))) by lia. reflexivity.
Qed.

Lemma nth_app_if {A} (a b : list A) d i :
  nth i (a ++ b) d = if Nat.ltb i (length a) then nth i a d else nth (i - length a) b d.
Proof.
  destruct (Nat.ltb_spec i (length a)) as [H|H].
  - apply app_nth1. exact H.
  - apply app_nth2. lia.
Qed.

Lemma length_repeatN {A} (x : A) n : length (repeatN x n) = n.
Proof. induction n as [|n IH]; cbn [repeatN length]; congruence. Qed.

Lemma nth_repeatN {A} (x : A) n i : nth i (repeatN x n) x = x.
Proof.
  revert i. induction n as [|n IH]; intros i; cbn [repeatN].
  - destruct i; reflexivity.
  - destruct i; [reflexivity|]. cbn [nth]. apply IH.
Qed.

Lemma nth_single {A} (x d : A) i : nth i [x] d = if Nat.eqb i 0 then x else d.
Proof. destruct i as [|[|i]]; reflexivity. Qed.

Lemma upd_some l : forall i x, (i < length l)%nat -> exists l', upd l i x = Some l'.
Proof.
  induction l as [|h t IH]; intros i x Hi; cbn [length] in Hi; [lia|].
  destruct i as [|i]; cbn [upd]; [eauto|].
  destruct (IH i x) as [l' E]; [lia|]. rewrite E. eauto.
Qed.

Lemma upd_nth l : forall i x l' d j, upd l i x = Some l' ->
  nth j l' d = if Nat.eqb j i then x else nth j l d.
Proof.
  induction l as [|h t IH]; intros i x l' d j E; cbn [upd] in E; [discriminate|].
  destruct i as [|i].
  - inversion E; subst. destruct j; reflexivity.
  - destruct (upd t i x) as [r|] eqn:Er; [|discriminate]. inversion E; subst.
    destruct j as [|j]; [reflexivity|]. cbn [nth Nat.eqb]. eapply IH. exact Er.
Qed.

Lemma upd_length l : forall i x l', upd l i x = Some l' -> length l' = length l.
Proof.
  induction l as [|h t IH]; intros i x l' E; cbn [upd] in E; [discriminate|].
  destruct i as [|i].
  - inversion E; subst. reflexivity.
  - destruct (upd t i x) as [r|] eqn:Er; [|discriminate]. inversion E; subst.
    cbn [length]. f_equal. eapply IH. exact Er.
Qed.

(* ------------------------------------------------------------------ *)
(** * get / _set : all five growth cases *)

Ltac bool_facts :=
  repeat match goal with
  | H : (_ <? _) = true |- _ => apply N.ltb_lt in H
  | H : (_ <? _) = false |- _ => apply N.ltb_ge in H
  | H : (_ =? _) = true |- _ => apply N.eqb_eq in H
  | H : (_ =? _) = false |- _ => apply N.eqb_neq in H
  | H : Nat.ltb _ _ = true |- _ => apply Nat.ltb_lt in H
  | H : Nat.ltb _ _ = false |- _ => apply Nat.ltb_ge in H
  | H : Nat.eqb _ _ = true |- _ => apply Nat.eqb_eq in H
  | H : Nat.eqb _ _ = false |- _ => apply Nat.eqb_neq in H
  end.

Ltac split_ifs :=
  repeat match goal with
  | |- context [if ?b then _ else _] => let E := fresh "E" in destruct b eqn:E
  end.

Definition getn (vs : list width) (d : width) (fc c : N) : width :=
  if c <? fc then d else nth (N.to_nat (c - fc)) vs d.

Lemma get_getn w c : get w c = getn (w_values w) (w_default w) (w_first w) c.
Proof. unfold get, getn. rewrite nth_N_nth. reflexivity. Qed.

Lemma nth_beyond (vs : list width) d i : (length vs <= i)%nat -> nth i vs d = d.
Proof. apply nth_overflow. Qed.

Lemma set_spec w c x :
  exists w', _set w c x = Ok w' /\ w_default w' = w_default w /\
    forall c', get w' c' = if c' =? c then x else get w c'.
Proof.
  destruct w as [vs d fc]. unfold _set. cbn [w_values w_default w_first].
  destruct vs as [|v0 vt].
  - (* empty *)
    eexists. split; [reflexivity|]. split; [reflexivity|].
    intros c'. rewrite !get_getn. unfold getn. cbn [w_values w_default w_first].
    rewrite nth_single.
    destruct (N.eqb_spec c' c) as [->|Hne].
    + rewrite N.ltb_irrefl. replace (N.to_nat (c - c)) with 0%nat by lia. reflexivity.
    + split_ifs; bool_facts; try reflexivity; try lia.
      all: destruct (N.to_nat (c' - fc)); reflexivity.
  - set (vs := v0 :: vt).
    assert (Hlen : lenN vs = N.of_nat (length vs)) by reflexivity.
    destruct (N.eqb_spec c (fc + lenN vs)) as [Happ|Hnapp].
    + (* append *)
      eexists. split; [reflexivity|]. split; [reflexivity|].
      intros c'. rewrite !get_getn. unfold getn. cbn [w_values w_default w_first].
      rewrite nth_app_if, nth_single.
      split_ifs; bool_facts; try reflexivity; try lia.
      symmetry. apply nth_beyond. lia.
    + destruct (N.ltb_spec c fc) as [Hpre|Hnpre].
      * (* prepend *)
        destruct (upd_some (repeatN d (N.to_nat (fc - c)) ++ vs) 0 x) as [vs' Evs'].
        { rewrite app_length, length_repeatN. lia. }
        rewrite Evs'. eexists. split; [reflexivity|]. split; [reflexivity|].
        intros c'. rewrite !get_getn. unfold getn. cbn [w_values w_default w_first].
        rewrite (upd_nth _ _ _ _ d _ Evs'), nth_app_if, length_repeatN, nth_repeatN.
        split_ifs; bool_facts; try reflexivity; try lia.
        f_equal. lia.
      * destruct (N.ltb_spec (lenN vs + fc) c) as [Hgap|Hngap].
        -- (* gap *)
           eexists. split; [reflexivity|]. split; [reflexivity|].
           intros c'. rewrite !get_getn. unfold getn. cbn [w_values w_default w_first].
           rewrite !nth_app_if, length_repeatN, nth_repeatN, nth_single.
           split_ifs; bool_facts; try reflexivity; try lia.
           all: symmetry; apply nth_beyond; lia.
        -- (* overwrite *)
           destruct (upd_some vs (N.to_nat (c - fc)) x) as [vs' Evs']; [lia|].
           rewrite Evs'. eexists. split; [reflexivity|]. split; [reflexivity|].
           intros c'. rewrite !get_getn. unfold getn. cbn [w_values w_default w_first].
           rewrite (upd_nth _ _ _ _ d _ Evs').
           split_ifs; bool_facts; try reflexivity; try lia.
Qed.

(** DESIGN §9 C19 [get_set], with the growth function total (never a Panic) *)
Lemma get_set w c x : exists w', _set w c x = Ok w' /\
  forall c', get w' c' = if c' =? c then x else get w c'.
Proof. destruct (set_spec w c x) as [w' [E [_ H]]]. eauto. Qed.

(** Widths::set: the debug assertion never fires *)
Lemma set_ok w c x : exists w', set w c x = Ok w' /\ w_default w' = w_default w /\
  forall c', get w' c' = if c' =? c then x else get w c'.
Proof.
  destruct (set_spec w c x) as [w' [E [Hd H]]]. exists w'. unfold set. rewrite E. cbn [bind].
  rewrite H, N.eqb_refl, N.eqb_refl. auto.
Qed.

(* ------------------------------------------------------------------ *)
(** * the loops of Font::widths *)

Lemma as_number_ok n : num_ok n = true -> as_number n = Ok (num_bits n).
Proof. destruct n; cbn; intros H; [reflexivity|reflexivity|discriminate]. Qed.

Lemma set_list_spec a : forall w c, forallb num_ok a = true ->
  exists w', set_list w c a = Ok w' /\ w_default w' = w_default w /\
    forall c', get w' c' =
      if (c <=? c') && (c' <? c + lenN a) then num_bits (nth (N.to_nat (c' - c)) a NOther) else get w c'.
Proof.
  induction a as [|n t IH]; intros w c Hok.
  - exists w. split; [reflexivity|]. split; [reflexivity|]. intros c'.
    unfold lenN. cbn [length]. destruct (N.leb_spec c c'), (N.ltb_spec c' (c + N.of_nat 0)); cbn [andb]; try reflexivity; lia.
  - cbn [forallb] in Hok. apply andb_true_iff in Hok. destruct Hok as [Hn Ht].
    cbn [set_list]. rewrite (as_number_ok _ Hn). cbn [bind].
    destruct (set_ok w c (num_bits n)) as [w1 [E1 [D1 G1]]]. rewrite E1. cbn [bind].
    destruct (IH w1 (c + 1) Ht) as [w2 [E2 [D2 G2]]]. exists w2.
    split; [exact E2|]. split; [congruence|]. intros c'. rewrite G2, G1.
    unfold lenN. cbn [length]. rewrite Nat2N.inj_succ.
    destruct (N.leb_spec (c + 1) c'), (N.ltb_spec c' (c + 1 + N.of_nat (length t))),
             (N.leb_spec c c'), (N.ltb_spec c' (c + N.succ (N.of_nat (length t)))), (N.eqb_spec c' c);
      cbn [andb]; try lia; try reflexivity.
    + replace (N.to_nat (c' - c)) with (S (N.to_nat (c' - (c + 1)))) by lia. reflexivity.
    + subst c'. replace (N.to_nat (c - c)) with 0%nat by lia. reflexivity.
Qed.

Lemma set_list_total a : forall w c, exists r, set_list w c a = r /\ (forall s, r <> Panic s) /\ r <> OutOfFuel.
Proof.
  induction a as [|n t IH]; intros w c; cbn [set_list].
  - eexists; split; [reflexivity|]; split; [intros s|]; discriminate.
  - destruct n as [z b|b|]; cbn [as_number bind].
    3: { eexists; split; [reflexivity|]; split; [intros s|]; discriminate. }
    all: destruct (set_ok w c b) as [w1 [E1 _]]; rewrite E1; cbn [bind]; apply IH.
Qed.

Lemma set_range_spec n : forall w c x,
  exists w', set_range w c n x = Ok w' /\ w_default w' = w_default w /\
    forall c', get w' c' = if (c <=? c') && (c' <? c + N.of_nat n) then x else get w c'.
Proof.
  induction n as [|n IH]; intros w c x.
  - exists w. split; [reflexivity|]. split; [reflexivity|]. intros c'.
    destruct (N.leb_spec c c'), (N.ltb_spec c' (c + N.of_nat 0)); cbn [andb]; try reflexivity; lia.
  - cbn [set_range]. destruct (set_ok w c x) as [w1 [E1 [D1 G1]]]. rewrite E1. cbn [bind].
    destruct (IH w1 (c + 1) x) as [w2 [E2 [D2 G2]]]. exists w2.
    split; [exact E2|]. split; [congruence|]. intros c'. rewrite G2, G1. rewrite Nat2N.inj_succ.
    destruct (N.leb_spec (c + 1) c'), (N.ltb_spec c' (c + 1 + N.of_nat n)),
             (N.leb_spec c c'), (N.ltb_spec c' (c + N.succ (N.of_nat n))), (N.eqb_spec c' c);
      cbn [andb]; try lia; reflexivity.
Qed.

(* ------------------------------------------------------------------ *)
(** * C19: composite fonts *)

Lemma check_cid_ok c : c <= 65535 -> check_cid c = Ok c.
Proof. intros H. unfold check_cid. rewrite tbl_max_cid. destruct (N.ltb_spec 65535 c); [lia|reflexivity]. Qed.

Lemma check_cid_cases c : check_cid c = Ok c \/ check_cid c = Err 1.
Proof. unfold check_cid. destruct (font_max_cid <? c); auto. Qed.

Lemma covers_GList f ws byref c : covers (GList f ws byref) c = (f <=? c) && (c <? f + lenN ws).
Proof. reflexivity. Qed.

(** one group: the loop body on the rendering of a well-formed group *)
Lemma cid_loop_group g rest w : wf_group g ->
  exists w1, (forall r, cid_loop w1 rest = r -> cid_loop w (render_group g ++ rest) = r) /\
    w_default w1 = w_default w /\
    forall c, get w1 c = if covers g c then gwidth g c else get w c.
Proof.
  intros Hwf. destruct g as [f ws byref|f l x].
  - destruct Hwf as [Hf [Hlast Hnum]].
    destruct (set_list_spec ws w f Hnum) as [w1 [E1 [D1 G1]]].
    exists w1. split; [|split; [exact D1|]].
    + intros r Hr. cbn [render_group app].
      destruct byref; cbn [cid_loop as_usize bind].
      all: replace (0 <=? Z.of_N f)%Z with true by (symmetry; apply Z.leb_le; lia).
      all: rewrite N2Z.id; cbn [bind]; rewrite (check_cid_ok f) by lia; cbn [bind].
      all: rewrite (check_cid_ok (f + lenN ws - 1)) by lia; cbn [bind].
      all: rewrite E1; cbn [bind]; exact Hr.
    + intros c. rewrite G1. rewrite covers_GList. reflexivity.
  - destruct Hwf as [Hf [Hl Hnum]].
    destruct (set_range_spec (N.to_nat (l + 1 - f)) w f (num_bits x)) as [w1 [E1 [D1 G1]]].
    exists w1. split; [|split; [exact D1|]].
    + intros r Hr. cbn [render_group app cid_loop as_usize bind].
      replace (0 <=? Z.of_N f)%Z with true by (symmetry; apply Z.leb_le; lia).
      rewrite N2Z.id. cbn [bind]. rewrite (check_cid_ok f) by lia. cbn [bind].
      assert (Ex : as_number_item (item_of_num x) = Ok (num_bits x)).
      { destruct x; cbn in Hnum |- *; try reflexivity; discriminate. }
      rewrite Ex. cbn [bind]. unfold i32_as_usize.
      replace (0 <=? Z.of_N l)%Z with true by (symmetry; apply Z.leb_le; lia).
      rewrite N2Z.id, (check_cid_ok l) by lia. cbn [bind].
      rewrite E1. cbn [bind]. exact Hr.
    + intros c. rewrite G1. cbn [covers gwidth].
      destruct (N.leb_spec f c), (N.ltb_spec c (f + N.of_nat (N.to_nat (l + 1 - f)))), (N.leb_spec c l);
        cbn [andb]; try reflexivity; lia.
Qed.

(** any sequence of well-formed groups: the table answers with the LAST group covering the code *)
Lemma cid_loop_groups gs : forall w, Forall wf_group gs ->
  exists w', cid_loop w (render_groups gs) = Ok w' /\
    forall c, get w' c = w_spec (rev gs) (get w c) c.
Proof.
  induction gs as [|g t IH]; intros w Hwf.
  - exists w. split; [reflexivity|]. intros c. reflexivity.
  - inversion Hwf as [|? ? Hg Ht]; subst.
    destruct (cid_loop_group g (render_groups t) w Hg) as [w1 [Hstep [D1 G1]]].
    destruct (IH w1 Ht) as [w' [E' G']].
    exists w'. split.
    + cbn [render_groups]. apply Hstep. exact E'.
    + intros c. rewrite G'. cbn [rev]. rewrite w_spec_app, G1. cbn [w_spec].
      destruct (covers g c); reflexivity.
Qed.

Lemma get_new dw c : get (new dw) c = dw.
Proof. unfold get, new. cbn [w_first w_values w_default nth_N]. destruct (c <? font_widths_new_first); reflexivity. Qed.

Theorem cid_widths_last_wins gs dw : Forall wf_group gs ->
  exists w, cid_widths dw (render_groups gs) = Ok w /\ forall c, get w c = w_spec (rev gs) dw c.
Proof.
  intros Hwf. unfold cid_widths. destruct (cid_loop_groups gs (new dw) Hwf) as [w [E G]].
  exists w. split; [exact E|]. intros c. rewrite G, get_new. reflexivity.
Qed.

(** disjoint groups: the order does not matter — first = last = the covering group *)
Lemma w_spec_not_covered gs d c : (forall g, In g gs -> covers g c = false) -> w_spec gs d c = d.
Proof.
  induction gs as [|g t IH]; intros H; cbn [w_spec]; [reflexivity|].
  rewrite (H g (or_introl eq_refl)). apply IH. intros g' Hg'. apply H. right. exact Hg'.
Qed.

Lemma w_spec_rev gs d c : disjoint_groups gs -> w_spec (rev gs) d c = w_spec gs d c.
Proof.
  induction gs as [|g t IH]; intros Hd; [reflexivity|].
  cbn [rev]. rewrite w_spec_app. cbn [w_spec]. cbn [disjoint_groups] in Hd. destruct Hd as [Hg Ht].
  destruct (covers g c) eqn:Ec.
  - rewrite w_spec_not_covered; [reflexivity|].
    intros g' Hg'. apply in_rev in Hg'. apply (Hg g' Hg' c). exact Ec.
  - apply IH. exact Ht.
Qed.

Theorem cid_widths_correct gs dw : wf_groups gs ->
  exists w, cid_widths dw (render_groups gs) = Ok w /\ forall c, get w c = w_spec gs dw c.
Proof.
  intros [Hwf Hd]. destruct (cid_widths_last_wins gs dw Hwf) as [w [E G]].
  exists w. split; [exact E|]. intros c. rewrite G. apply w_spec_rev. exact Hd.
Qed.

(* ------------------------------------------------------------------ *)
(** * hostile arrays: the interpretation never panics (and has no fuel) *)

Definition clean {A} (r : res A) : Prop := (forall s, r <> Panic s) /\ r <> OutOfFuel.

Lemma clean_err {A} e : clean (@Err A e).
Proof. split; [intros s|]; discriminate. Qed.
Lemma clean_ok {A} (a : A) : clean (Ok a).
Proof. split; [intros s|]; discriminate. Qed.

Lemma set_range_total n w c x : exists w', set_range w c n x = Ok w'.
Proof. destruct (set_range_spec n w c x) as [w' [E _]]. eauto. Qed.

Lemma cid_loop_clean : forall n items w, (length items <= n)%nat -> clean (cid_loop w items).
Proof.
  induction n as [|n IH]; intros items w Hn.
  - destruct items; [apply clean_ok|cbn [length] in Hn; lia].
  - destruct items as [|p rest]; [apply clean_ok|]. cbn [length] in Hn.
    cbn [cid_loop].
    destruct (as_usize p) as [c1u| | |] eqn:Eu; cbn [bind];
      try apply clean_err; try (destruct p; cbn in Eu; try discriminate; destruct (0 <=? z)%Z; discriminate).
    destruct (check_cid_cases c1u) as [Ec|Ec]; rewrite Ec; cbn [bind]; [|apply clean_err].
    destruct rest as [|q rest']; [apply clean_err|]. cbn [length] in Hn.
    destruct q as [c2 b2|b|a|a| |]; try apply clean_err.
    + (* range *)
      destruct rest' as [|wv rest'']; [apply clean_err|]. cbn [length] in Hn.
      destruct (as_number_item wv) as [x| | |] eqn:Ex; cbn [bind];
        try apply clean_err; try (destruct wv; discriminate).
      destruct (check_cid_cases (i32_as_usize c2)) as [Ec2|Ec2]; rewrite Ec2; cbn [bind]; [|apply clean_err].
      destruct (set_range_total (N.to_nat (i32_as_usize c2 + 1 - c1u)) w c1u x) as [w' E]. rewrite E. cbn [bind].
      apply IH. lia.
    + destruct (check_cid_cases (c1u + lenN a - 1)) as [Ec2|Ec2]; rewrite Ec2; cbn [bind]; [|apply clean_err].
      destruct (set_list_total a w c1u) as [r [Er [Hp Hf]]]. rewrite Er.
      destruct r as [w'| | |]; cbn [bind]; [apply IH; lia|apply clean_err|exfalso; eapply Hp; reflexivity|exfalso; apply Hf; reflexivity].
    + destruct (check_cid_cases (c1u + lenN a - 1)) as [Ec2|Ec2]; rewrite Ec2; cbn [bind]; [|apply clean_err].
      destruct (set_list_total a w c1u) as [r [Er [Hp Hf]]]. rewrite Er.
      destruct r as [w'| | |]; cbn [bind]; [apply IH; lia|apply clean_err|exfalso; eapply Hp; reflexivity|exfalso; apply Hf; reflexivity].
Qed.

Theorem cid_widths_no_panic dw items : clean (cid_widths dw items).
Proof. unfold cid_widths. eapply cid_loop_clean. apply le_n. Qed.

(** every code the table was given is at most MAX_CID: the table never holds more than 65536 values *)
Theorem type0_no_panic {A} (ds : list A) f : (forall d, clean (f d)) -> clean (type0_widths ds f).
Proof. intros H. destruct ds; cbn [type0_widths]; [apply clean_ok|apply H]. Qed.

(* ------------------------------------------------------------------ *)
(** * C19: simple fonts *)

Theorem simple_widths_correct first ws missing c : (0 <= first)%Z ->
  exists w, simple_widths (Some first) (Some ws) missing = Some w /\
    get w c = simple_spec (Z.to_N first) ws (match missing with Some d => d | None => 0 end) c.
Proof.
  intros Hf. eexists. split; [reflexivity|].
  rewrite get_getn. unfold getn, simple_spec, i32_as_usize. cbn [w_values w_default w_first].
  replace (0 <=? first)%Z with true by (symmetry; apply Z.leb_le; lia).
  set (f := Z.to_N first). set (d := match missing with Some d => d | None => 0 end).
  destruct (N.ltb_spec c f), (N.leb_spec f c), (N.ltb_spec c (f + lenN ws)); cbn [andb]; try lia; try reflexivity.
  apply nth_beyond. unfold lenN in *. lia.
Qed.

Theorem simple_widths_none ws missing : simple_widths None ws missing = None.
Proof. reflexivity. Qed.

(* ------------------------------------------------------------------ *)
(** * C19: simple fonts whose dictionaries are ill-formed (negative /FirstChar, /Widths absent or shorter or longer
      than /LastChar - /FirstChar + 1, /FirstChar > /LastChar).  font.rs never reads /LastChar: the table is /Widths
      itself, placed at `first as usize`; there is no arithmetic that can overflow and no index that can be out of
      bounds ([simple_widths] and [get] are total), and every code has the width below. *)

Theorem simple_widths_any first ws missing c :
  exists w, simple_widths (Some first) ws missing = Some w /\
    get w c = simple_spec (i32_as_usize first) (match ws with Some l => l | None => [] end)
                          (match missing with Some d => d | None => 0 end) c.
Proof.
  eexists. split; [reflexivity|].
  rewrite get_getn. unfold getn, simple_spec. cbn [w_values w_default w_first].
  set (f := i32_as_usize first). set (d := match missing with Some d => d | None => 0 end).
  set (l := match ws with Some l => l | None => [] end).
  destruct (N.ltb_spec c f), (N.leb_spec f c), (N.ltb_spec c (f + lenN l)); cbn [andb]; try lia; try reflexivity.
  apply nth_beyond. unfold lenN in *. lia.
Qed.

(** a negative /FirstChar (an i32 cast to usize) puts the table above every code a content stream can produce:
    all codes get /MissingWidth *)
Corollary simple_widths_negative first ws missing c : (-2147483648 <= first < 0)%Z -> c < 18446744071562067968 ->
  exists w, simple_widths (Some first) ws missing = Some w /\ get w c = match missing with Some d => d | None => 0 end.
Proof.
  intros Hf Hc. destruct (simple_widths_any first ws missing c) as [w [E G]]. exists w. split; [exact E|].
  rewrite G. unfold simple_spec, i32_as_usize.
  replace (0 <=? first)%Z with false by (symmetry; apply Z.leb_gt; lia).
  replace (Z.to_N (18446744073709551616 + first) <=? c) with false; [reflexivity|].
  symmetry. apply N.leb_gt. lia.
Qed.

(** /Widths shorter than the declared range: the codes beyond it get /MissingWidth; without /Widths: all codes *)
Corollary simple_widths_short first ws missing c : (0 <= first)%Z -> Z.to_N first + lenN ws <= c ->
  exists w, simple_widths (Some first) (Some ws) missing = Some w /\ get w c = match missing with Some d => d | None => 0 end.
Proof.
  intros Hf Hc. destruct (simple_widths_any first (Some ws) missing c) as [w [E G]]. exists w. split; [exact E|].
  rewrite G. unfold simple_spec, i32_as_usize.
  replace (0 <=? first)%Z with true by (symmetry; apply Z.leb_le; lia).
  replace (c <? Z.to_N first + lenN ws) with false by (symmetry; apply N.ltb_ge; lia).
  rewrite andb_false_r. reflexivity.
Qed.

Example simple_widths_illformed_examples :
  (* /FirstChar -3 /Widths [1 2 3 4 5], no descriptor *)
  (exists w, simple_widths (Some (-3)%Z) (Some [1; 2; 3; 4; 5]) None = Some w /\ map (get w) [0; 1; 2; 255; 4294967295] = [0; 0; 0; 0; 0]) /\
  (* /FirstChar 65 /LastChar 70 /Widths [7 8] /MissingWidth 9 *)
  (exists w, simple_widths (Some 65%Z) (Some [7; 8]) (Some 9) = Some w /\ map (get w) [64; 65; 66; 67; 70] = [9; 7; 8; 9; 9]) /\
  (* /FirstChar 70 /LastChar 65 /Widths [7 8]: /LastChar is not read *)
  (exists w, simple_widths (Some 70%Z) (Some [7; 8]) (Some 9) = Some w /\ map (get w) [65; 69; 70; 71; 72] = [9; 9; 7; 8; 9]) /\
  (* /FirstChar 2147483647 *)
  (exists w, simple_widths (Some 2147483647%Z) (Some [7]) None = Some w /\ map (get w) [0; 2147483647; 2147483648] = [0; 7; 0]).
Proof. repeat split; eexists; split; reflexivity. Qed.
