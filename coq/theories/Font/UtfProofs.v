(** Font/UtfProofs.v — UTF-16BE: decoding inverts encoding on every string of scalar values,
    surrogate pairs included (font.rs: utf16be_to_string, write_unicode's char::encode_utf16). *)
From PdfV Require Import Base.Prelude Font.Model Font.Spec.

Lemma encode_utf16_units c : encode_utf16 c = utf16_units c.
Proof. reflexivity. Qed.

Lemma units_be (us : list N) : Forall (fun x => x < 65536) us ->
  units (flat_map (fun x => [x / 256; x mod 256]) us) = us.
Proof.
  induction 1 as [|x t Hx Ht IH]; [reflexivity|].
  cbn [flat_map app units]. rewrite IH. f_equal.
  pose proof (N.div_mod x 256). lia.
Qed.

Lemma utf16_units_u16 c : is_scalar c = true -> Forall (fun x => x < 65536) (utf16_units c).
Proof.
  intros Hs. unfold utf16_units. destruct (N.ltb_spec c 65536) as [Hc|Hc].
  - constructor; [exact Hc|constructor].
  - unfold is_scalar in Hs. apply orb_true_iff in Hs. destruct Hs as [Hs|Hs].
    { apply N.ltb_lt in Hs. lia. }
    apply andb_true_iff in Hs. destruct Hs as [_ Hs]. apply N.ltb_lt in Hs.
    assert (Hq : (c - 65536) / 1024 < 1024) by (apply N.div_lt_upper_bound; lia).
    assert (Hr : (c - 65536) mod 1024 < 1024) by (apply N.mod_lt; lia).
    constructor; [lia|]. constructor; [lia|constructor].
Qed.

Lemma all_units_u16 u : forallb is_scalar u = true -> Forall (fun x => x < 65536) (flat_map utf16_units u).
Proof.
  induction u as [|c t IH]; intros H; [constructor|].
  cbn [forallb] in H. apply andb_true_iff in H. destruct H as [Hc Ht].
  cbn [flat_map]. apply Forall_app. split; [apply utf16_units_u16; exact Hc|apply IH; exact Ht].
Qed.

Lemma decode_encode u : forallb is_scalar u = true -> decode_utf16 (flat_map utf16_units u) = Ok u.
Proof.
  induction u as [|c t IH]; intros H; [reflexivity|].
  cbn [forallb] in H. apply andb_true_iff in H. destruct H as [Hc Ht]. specialize (IH Ht).
  cbn [flat_map]. unfold utf16_units at 1. destruct (N.ltb_spec c 65536) as [Hlt|Hge].
  - cbn [app decode_utf16].
    assert (E : (c <? 55296) || (57343 <? c) = true).
    { unfold is_scalar in Hc. apply orb_true_iff in Hc. apply orb_true_iff. destruct Hc as [Hc|Hc]; [left; exact Hc|].
      right. apply andb_true_iff in Hc. tauto. }
    rewrite E, IH. reflexivity.
  - unfold is_scalar in Hc. apply orb_true_iff in Hc. destruct Hc as [Hc|Hc].
    { apply N.ltb_lt in Hc. lia. }
    apply andb_true_iff in Hc. destruct Hc as [_ Hc]. apply N.ltb_lt in Hc.
    set (x := c - 65536) in *.
    assert (Hq : x / 1024 < 1024) by (apply N.div_lt_upper_bound; unfold x; lia).
    assert (Hr : x mod 1024 < 1024) by (apply N.mod_lt; lia).
    pose proof (N.div_mod x 1024) as Hdm.
    set (q := x / 1024) in *. set (r := x mod 1024) in *.
    cbn [app decode_utf16].
    replace ((55296 + q <? 55296) || (57343 <? 55296 + q)) with false.
    2: { symmetry. apply orb_false_iff. split; [apply N.ltb_ge|apply N.ltb_ge]; lia. }
    replace (56320 <=? 55296 + q) with false by (symmetry; apply N.leb_gt; lia).
    replace ((56320 + r <? 56320) || (57343 <? 56320 + r)) with false.
    2: { symmetry. apply orb_false_iff. split; [apply N.ltb_ge|apply N.ltb_ge]; lia. }
    rewrite IH. cbn [bind]. f_equal. f_equal. unfold x in *. lia.
Qed.

(** DESIGN §9 C19 [utf16_rt] *)
Theorem utf16_rt u : forallb is_scalar u = true -> utf16be_to_string (utf16be_bytes u) = Ok u.
Proof.
  intros H. unfold utf16be_to_string, utf16be_bytes.
  rewrite units_be by (apply all_units_u16; exact H). apply decode_encode. exact H.
Qed.

(** an unpaired surrogate is an error, never a wrong string *)
Example utf16_lone_high : utf16be_to_string [216; 0; 0; 65] = Err 7.
Proof. vm_compute. reflexivity. Qed.
Example utf16_lone_low : utf16be_to_string [220; 0] = Err 7.
Proof. vm_compute. reflexivity. Qed.
Example utf16_pair : utf16be_to_string [216; 61; 222; 0] = Ok [128512].
Proof. vm_compute. reflexivity. Qed.
