(** Font/LexEq.v — the lexer pieces of Font/Model.v ARE the shared lexer models: on every input,
    [Model.next_word] equals [Lex.Lexer.next_word] (lexeme and remaining slice; positions dropped) and
    [Model.hexstr None] equals [Lex.StrLexer.hexstring_lex] (decoded bytes; bytes traversed = what was consumed).
    Hence the token-level theorems of Lex/LexProofs.v (separators = any white-space and comments) and
    Lex/StrProofs.v ([hex_run_lex]: any digit case, white-space inside, odd digit count) hold for the reader of
    [parse_cmap].  The byte classes of the two models come from two extractor anchors; they are compared here by
    conversion, so a divergence of the generated tables breaks this file. *)
From PdfV Require Import Base.Prelude Gen.Generated Lex.Lexer Lex.StrLexer Lex.LexProofs Lex.StrProofs Font.Model.

Module L := PdfV.Lex.Lexer.
Module M := PdfV.Font.Model.
Notation hexd := PdfV.Lex.StrLexer.hex_digit.

(* ------------------------------------------------------------------ *)
(** * the generated tables of the two models agree *)

Lemma tbl_lexer_same :
  font_lexer_ws = lex_ws /\ font_delims = lex_delims /\ font_comment_start = lex_comment /\
  font_comment_ends = lex_comment_ends /\ font_name_start = L.SLASH /\ font_double_delims = [L.LT; L.GT].
Proof. repeat split; reflexivity. Qed.

Lemma tbl_hex_same :
  font_hex_ranges = hexstr_digits /\ font_hex_end = hexstr_end /\ font_hex_shift = 4 /\
  forallb (fun b => Bool.eqb (memN b font_hex_ws) (memN b hexstr_ws)) all_bytes = true /\
  forallb (fun b => b <? 256) (font_hex_ws ++ hexstr_ws) = true.
Proof. repeat split; vm_compute; reflexivity. Qed.

Lemma is_ws_same b : M.is_ws b = L.is_ws b.
Proof. reflexivity. Qed.
Lemma is_delim_same b : M.is_delim b = L.is_delim b.
Proof. reflexivity. Qed.
Lemma is_reg_same b : M.is_reg b = L.is_reg b.
Proof. reflexivity. Qed.

Lemma hex_ws_same b : memN b font_hex_ws = memN b hexstr_ws.
Proof.
  destruct tbl_hex_same as [_ [_ [_ [T B]]]].
  destruct (N.ltb_spec b 256) as [Hb|Hb].
  - apply eqb_prop. exact (forall_bytes _ T b Hb).
  - (* no byte class contains a value above 255 *)
    assert (G : forall l, forallb (fun x => x <? 256) l = true -> memN b l = false).
    { induction l as [|x t IH]; intros H; [reflexivity|].
      cbn [forallb] in H. apply andb_true_iff in H. destruct H as [Hx Ht]. apply N.ltb_lt in Hx.
      unfold memN. cbn [existsb]. replace (b =? x) with false by (symmetry; apply N.eqb_neq; lia).
      exact (IH Ht). }
    rewrite forallb_app in B. apply andb_true_iff in B. destruct B as [B1 B2].
    rewrite (G _ B1), (G _ B2). reflexivity.
Qed.

(* ------------------------------------------------------------------ *)
(** * next_word *)

Lemma span_reg_same l : M.span_reg l = L.span_reg l.
Proof.
  induction l as [|b t IH]; [reflexivity|].
  cbn [M.span_reg L.span_reg]. rewrite is_reg_same, IH. destruct (L.is_reg b); [destruct (L.span_reg t)|]; reflexivity.
Qed.

Definition nonws_head (s : bytes) : Prop := match s with b :: _ => L.is_ws b = false | [] => False end.

(** Lexer::skip_whitespace *)
Lemma skip_ws_same s : forall p,
  skip_wc false s = skip_wc false (snd (skip_while L.is_ws p s)) /\
  (snd (skip_while L.is_ws p s) = [] \/ nonws_head (snd (skip_while L.is_ws p s))) /\
  (length (snd (skip_while L.is_ws p s)) <= length s)%nat.
Proof.
  induction s as [|b t IH]; intros p; [cbn; auto|].
  cbn [skip_while]. destruct (L.is_ws b) eqn:E.
  - destruct (IH (p + 1)) as [H1 [H2 H3]]. split; [|split; [exact H2|cbn [length]; lia]].
    cbn [skip_wc]. rewrite is_ws_same, E. exact H1.
  - cbn [snd]. split; [reflexivity|]. split; [right; exact E|lia].
Qed.

(** the rest of a comment: up to and including the first CR or LF *)
Lemma skip_comment_same t : forall p,
  skip_wc true t = skip_wc false (snd (after_eol p t)) /\ (length (snd (after_eol p t)) <= length t)%nat.
Proof.
  induction t as [|b t IH]; intros p; [cbn; auto|].
  cbn [skip_wc after_eol]. change font_comment_ends with lex_comment_ends.
  destruct (memN b lex_comment_ends).
  - cbn [snd length]. split; [reflexivity|lia].
  - destruct (IH (p + 1)) as [H1 H2]. split; [exact H1|cbn [length]; lia].
Qed.

Definition tok_head (s : bytes) : Prop :=
  match s with b :: _ => L.is_ws b = false /\ (b =? lex_comment) = false | [] => False end.

(** the `while buf[pos] == '%'` loop *)
Lemma skip_comments_same fuel : forall s p, (length s < fuel)%nat -> nonws_head s ->
  match skip_comments fuel (mkLx p s) with
  | Ok s2 => lrest s2 = skip_wc false s /\ tok_head (lrest s2)
  | Err _ => skip_wc false s = []
  | Panic _ => False
  | OutOfFuel => False
  end.
Proof.
  induction fuel as [|f IH]; intros s p Hf Hh; [lia|].
  destruct s as [|b t]; [contradiction|]. cbn [nonws_head] in Hh.
  cbn [skip_comments lrest lpos].
  destruct (N.eqb_spec b lex_comment) as [Eb|Eb].
  - destruct (after_eol (p + 1) t) as [p1 r1] eqn:Ea.
    destruct (skip_comment_same t (p + 1)) as [H1 H2]. rewrite Ea in H1, H2. cbn [snd] in H1, H2.
    assert (E0 : skip_wc false (b :: t) = skip_wc false r1).
    { cbn [skip_wc]. rewrite is_ws_same, Hh. change font_comment_start with lex_comment.
      rewrite (proj2 (N.eqb_eq _ _) Eb). exact H1. }
    unfold skip_ws. cbn [lpos lrest].
    destruct (skip_while L.is_ws p1 r1) as [p2 r2] eqn:Es.
    destruct (skip_ws_same r1 p1) as [G1 [G2 G3]]. rewrite Es in G1, G2, G3. cbn [snd] in G1, G2, G3.
    destruct r2 as [|b2 t2].
    + rewrite E0, G1. reflexivity.
    + destruct G2 as [G2|G2]; [discriminate|].
      specialize (IH (b2 :: t2) p2 ltac:(cbn [length] in *; lia) G2).
      rewrite E0, G1. exact IH.
  - split; [|split; [exact Hh|apply N.eqb_neq; exact Eb]].
    cbn [lrest skip_wc]. rewrite is_ws_same, Hh. change font_comment_start with lex_comment.
    rewrite (proj2 (N.eqb_neq _ _) Eb). reflexivity.
Qed.

(** what is kept of the shared lexer's answer: the lexeme and the remaining slice *)
Definition proj_word (r : res (bytes * N * lx)) : res (bytes * bytes) :=
  match r with
  | Ok (tok, _, s') => Ok (tok, lrest s')
  | Err _ => Err 2
  | Panic p => Panic p
  | OutOfFuel => OutOfFuel
  end.

Lemma double_delim_same b b2 :
  memN b font_double_delims && (b2 =? b) = ((b =? L.LT) && (b2 =? L.LT)) || ((b =? L.GT) && (b2 =? L.GT)).
Proof.
  unfold memN, font_double_delims, L.LT, L.GT. cbn [existsb].
  destruct (N.eqb_spec b 60) as [->|H1]; [cbn [orb andb]; destruct (b2 =? 60); reflexivity|].
  destruct (N.eqb_spec b 62) as [->|H2]; [cbn [orb andb]; reflexivity|]. reflexivity.
Qed.

(** font.rs's reader runs on Lexer::next_word *)
Theorem next_word_shared s p : M.next_word s = proj_word (L.next_word (mkLx p s)).
Proof.
  unfold M.next_word, L.next_word. cbn [lrest lpos].
  destruct s as [|b0 t0]; [reflexivity|].
  unfold skip_ws. cbn [lpos lrest].
  destruct (skip_while L.is_ws p (b0 :: t0)) as [p1 r1] eqn:Es.
  destruct (skip_ws_same (b0 :: t0) p) as [G1 [G2 G3]]. rewrite Es in G1, G2, G3. cbn [snd] in G1, G2, G3.
  rewrite G1. destruct r1 as [|b1 t1]; [reflexivity|].
  destruct G2 as [G2|G2]; [discriminate|].
  cbn [lrest].
  pose proof (skip_comments_same (S (length (b1 :: t1))) (b1 :: t1) p1 ltac:(lia) G2) as H.
  destruct (skip_comments (S (length (b1 :: t1))) (mkLx p1 (b1 :: t1))) as [s2|e|pp|]; try contradiction.
  2: { rewrite H. reflexivity. }
  destruct H as [E2 Ht]. rewrite <- E2. cbn [bind].
  destruct (lrest s2) as [|b t]; [contradiction|].
  rewrite is_delim_same. destruct (L.is_delim b).
  - change font_name_start with L.SLASH. destruct (b =? L.SLASH).
    + rewrite span_reg_same. destruct (L.span_reg t). reflexivity.
    + destruct t as [|b2 t2]; [reflexivity|]. rewrite double_delim_same.
      destruct (((b =? L.LT) && (b2 =? L.LT)) || ((b =? L.GT) && (b2 =? L.GT))); reflexivity.
  - rewrite span_reg_same. destruct (L.span_reg (b :: t)). reflexivity.
Qed.

(** in the form used by the CMap proofs: a lexeme found by the shared lexer is found by the reader *)
Corollary next_word_of_shared s p tok st s' :
  L.next_word (mkLx p s) = Ok (tok, st, s') -> M.next_word s = Ok (tok, lrest s').
Proof. intros H. rewrite (next_word_shared s p), H. reflexivity. Qed.

(* ------------------------------------------------------------------ *)
(** * hex strings *)

Lemma hex_nibble_same c : hex_nibble c = hexd c.
Proof.
  unfold hex_nibble, hexd. change font_hex_ranges with hexstr_digits.
  induction hexstr_digits as [|[[lo hi] base] t IH]; [reflexivity|].
  cbn [find_range3 find3]. rewrite IH. reflexivity.
Qed.

Lemma tbl_nibbles :
  forallb (fun c => match hexd c with Some v => v <? 16 | None => true end) all_bytes = true /\
  forallb (fun h => forallb (fun l => N.lor ((h * 2 ^ font_hex_shift) mod 256) l =? (h * 16 + l) mod 256) (seqN 0 16)) (seqN 0 16) = true /\
  hexd hexstr_end = None /\ memN hexstr_end hexstr_ws = false.
Proof. repeat split; vm_compute; reflexivity. Qed.

Lemma hex_digit_lt16 c v : hexd c = Some v -> v < 16.
Proof.
  intros H. destruct (N.ltb_spec c 256) as [Hc|Hc].
  - destruct tbl_nibbles as [T _]. pose proof (forall_bytes _ T c Hc) as G. cbv beta in G. rewrite H in G.
    apply N.ltb_lt. exact G.
  - exfalso. revert H. unfold hexd, hexstr_digits. cbn [find3].
    repeat match goal with |- context [(?a <=? c) && (c <=? ?b)] =>
      replace ((a <=? c) && (c <=? b)) with false
        by (symmetry; apply andb_false_iff; right; apply N.leb_gt; lia) end.
    discriminate.
Qed.

Lemma nibble_combine h l : h < 16 -> l < 16 -> N.lor ((h * 2 ^ font_hex_shift) mod 256) l = (h * 16 + l) mod 256.
Proof.
  intros Hh Hl. destruct tbl_nibbles as [_ [T _]].
  rewrite forallb_forall in T. specialize (T h ltac:(apply seqN_In; cbn; lia)).
  rewrite forallb_forall in T. specialize (T l ltac:(apply seqN_In; cbn; lia)).
  apply N.eqb_eq. exact T.
Qed.

(** HexStringLexer::next_non_whitespace_char *)
Lemma hex_next_same l : forall off,
  match hex_next off l with
  | None => forall hi, hexstr hi l = Err 2
  | Some (c, off', t) =>
      memN c hexstr_ws = false /\ off' + lenN t = off + lenN l /\ (length t < length l)%nat /\
      forall hi, hexstr hi l = hexstr hi (c :: t)
  end.
Proof.
  induction l as [|b t IH]; intros off; [cbn; reflexivity|].
  cbn [hex_next]. destruct (memN b hexstr_ws) eqn:E.
  - specialize (IH (off + 1)). destruct (hex_next (off + 1) t) as [[[c off'] t']|].
    + destruct IH as [H1 [H2 [H3 H4]]]. split; [exact H1|]. split; [unfold lenN in *; cbn [length]; lia|].
      split; [cbn [length]; lia|]. intros hi. cbn [hexstr]. rewrite hex_ws_same, E.
      rewrite H4. cbn [hexstr]. rewrite hex_ws_same, H1. reflexivity.
    + intros hi. cbn [hexstr]. rewrite hex_ws_same, E. apply IH.
  - split; [exact E|]. split; [unfold lenN; cbn [length]; lia|]. split; [cbn [length]; lia|]. reflexivity.
Qed.

Lemma hexstr_nows hi c t : memN c hexstr_ws = false ->
  hexstr hi (c :: t) =
    if c =? hexstr_end then
      match hi with None => Ok ([], t) | Some h => Ok ([(h * 2 ^ font_hex_shift) mod 256], t) end
    else match hexd c with
         | None => Err 3
         | Some v => match hi with
                     | None => hexstr (Some v) t
                     | Some h => do br <- hexstr None t; Ok (N.lor ((h * 2 ^ font_hex_shift) mod 256) v :: fst br, snd br)
                     end
         end.
Proof. intros E. cbn [hexstr]. rewrite hex_ws_same, E, hex_nibble_same. reflexivity. Qed.

(** HexStringLexer iterated to `>`: the same bytes, and the count of bytes traversed is what was consumed *)
Lemma hex_loop_same fuel : forall l off acc, (length l < fuel)%nat ->
  match hexstr None l with
  | Ok (b, rest) => hex_loop fuel off l acc = Ok (rev acc ++ b, off + lenN l - lenN rest) /\ (length rest <= length l)%nat
  | Err _ => exists e, hex_loop fuel off l acc = Err e
  | Panic _ => False
  | OutOfFuel => False
  end.
Proof.
  destruct tbl_nibbles as [_ [_ [Tend Tendws]]].
  induction fuel as [|f IH]; intros l off acc Hf; [lia|].
  cbn [hex_loop].
  pose proof (hex_next_same l off) as H1.
  destruct (hex_next off l) as [[[c1 off1] l1]|].
  2: { rewrite (H1 None). eexists. reflexivity. }
  destruct H1 as [W1 [O1 [L1 E1]]]. rewrite (E1 None), (hexstr_nows None c1 l1 W1).
  destruct (N.eqb_spec c1 hexstr_end) as [Ec|Ec].
  { subst c1. rewrite Tend. split; [|lia]. rewrite app_nil_r. f_equal. f_equal. lia. }
  destruct (hexd c1) as [h|] eqn:D1.
  2: { eexists. reflexivity. }
  pose proof (hex_next_same l1 off1) as H2.
  destruct (hex_next off1 l1) as [[[c2 off2] l2]|].
  2: { rewrite (H2 (Some h)). eexists. reflexivity. }
  destruct H2 as [W2 [O2 [L2 E2]]]. rewrite (E2 (Some h)), (hexstr_nows (Some h) c2 l2 W2).
  destruct (N.eqb_spec c2 hexstr_end) as [Ec2|Ec2].
  - subst c2. rewrite Tend.
    (* back(): the `>` is read again by the next iteration *)
    specialize (IH (hexstr_end :: l2) (off2 - 1) ((h * 16) mod 256 :: acc) ltac:(cbn [length]; lia)).
    rewrite (hexstr_nows None hexstr_end l2 Tendws), N.eqb_refl in IH. destruct IH as [IH _].
    rewrite IH. split; [|lia].
    change (2 ^ font_hex_shift) with 16. cbn [rev]. rewrite <- app_assoc. f_equal. f_equal.
    unfold lenN in *. cbn [length] in *. lia.
  - destruct (hexd c2) as [lo|] eqn:D2.
    2: { eexists. reflexivity. }
    specialize (IH l2 off2 ((h * 16 + lo) mod 256 :: acc) ltac:(lia)).
    destruct (hexstr None l2) as [[b rest]|e|pp|]; try contradiction.
    + destruct IH as [IH Hr]. cbn [bind fst snd]. rewrite IH. split; [|lia].
      rewrite (nibble_combine h lo (hex_digit_lt16 _ _ D1) (hex_digit_lt16 _ _ D2)).
      cbn [rev]. rewrite <- app_assoc. f_equal. f_equal. unfold lenN in *. lia.
    + destruct IH as [e' IH]. cbn [bind]. rewrite IH. eexists. reflexivity.
Qed.

Lemma skipn_suffix {A} (l rest : list A) pre : l = pre ++ rest -> skipn (length l - length rest) l = rest.
Proof.
  intros ->. rewrite app_length. replace (length pre + length rest - length rest)%nat with (length pre) by lia.
  rewrite skipn_app, skipn_all, Nat.sub_diag. reflexivity.
Qed.

(** the remaining slice of [hexstr] is a suffix of its input *)
Lemma hexstr_suffix l : forall hi b rest, hexstr hi l = Ok (b, rest) -> exists pre, l = pre ++ rest.
Proof.
  induction l as [|c t IH]; intros hi b rest H; [discriminate|].
  cbn [hexstr] in H. destruct (memN c font_hex_ws).
  { destruct (IH _ _ _ H) as [pre E]. exists (c :: pre). rewrite E. reflexivity. }
  destruct (c =? font_hex_end).
  { exists [c]. destruct hi; inversion H; reflexivity. }
  destruct (hex_nibble c) as [v|]; [|discriminate].
  destruct hi as [h|].
  - destruct (hexstr None t) as [[b' r']|e|pp|] eqn:E; try discriminate.
    cbn [bind fst snd] in H. inversion H; subst.
    destruct (IH _ _ _ E) as [pre Ep]. exists (c :: pre). rewrite Ep. reflexivity.
  - destruct (IH _ _ _ H) as [pre E]. exists (c :: pre). rewrite E. reflexivity.
Qed.

(** font.rs's reader runs on HexStringLexer *)
Theorem hexstr_shared l :
  match hexstring_lex l with
  | Ok (b, n) => hexstr None l = Ok (b, skipn (N.to_nat n) l)
  | Err _ => exists e, hexstr None l = Err e
  | Panic _ => False
  | OutOfFuel => False
  end.
Proof.
  unfold hexstring_lex.
  pose proof (hex_loop_same (S (length l)) l 0 [] ltac:(lia)) as H.
  destruct (hexstr None l) as [[b rest]|e|pp|] eqn:E; try contradiction.
  - destruct H as [H Hr]. rewrite H. cbn [rev app]. f_equal. f_equal.
    destruct (hexstr_suffix l None b rest E) as [pre Ep].
    replace (N.to_nat (0 + lenN l - lenN rest)) with (length l - length rest)%nat by (unfold lenN; lia).
    symmetry. exact (skipn_suffix l rest pre Ep).
  - destruct H as [e' H]. rewrite H. eexists. reflexivity.
Qed.

(** in the form used by the CMap proofs: [StrProofs.hexstring_lex_spelled] for the reader's hex strings —
    any spelling [hex_run] (either digit case, white-space anywhere, odd digit count) of the bytes [out] *)
Corollary hexstr_spelled out text rest : hex_run out text -> hexstr None (text ++ hexstr_end :: rest) = Ok (out, rest).
Proof.
  intros H. pose proof (hexstr_shared (text ++ hexstr_end :: rest)) as G.
  rewrite (hexstring_lex_spelled out text rest H) in G. rewrite G. f_equal. f_equal.
  unfold lenN. rewrite Nnat.Nat2N.id, app_length. cbn [length].
  replace (text ++ hexstr_end :: rest) with ((text ++ [hexstr_end]) ++ rest) by (rewrite <- app_assoc; reflexivity).
  replace (length text + 1)%nat with (length (text ++ [hexstr_end])) by (rewrite app_length; reflexivity).
  rewrite skipn_app, skipn_all, Nat.sub_diag. reflexivity.
Qed.
