(** Font/Spec.v — specification objects of property C19, written from ISO 32000-1 (§9.7.4.3 W arrays,
    §9.6.2.1 / Table 122 simple-font widths, §9.10.3 ToUnicode CMaps) and not from the code.
    The only things shared with the model are the syntax trees of the inputs ([wnum], [witem]) . *)
From PdfV Require Import Base.Prelude Font.Model.

(* ------------------------------------------------------------------ *)
(** * Widths of composite fonts *)

Definition num_ok (n : wnum) : bool := match n with NOther => false | _ => true end.
(* the value of a number is the f32 it denotes (its bit pattern travels with it) *)
Definition num_bits (n : wnum) : width := match n with NInt _ b => b | NReal b => b | NOther => 0 end.

(** the two group forms of a W array:  c [w1 … wn]   and   cfirst clast w *)
Inductive group :=
| GList (first : N) (ws : list wnum) (byref : bool)
| GRange (first last : N) (w : wnum).

Definition covers (g : group) (c : N) : bool :=
  match g with
  | GList f ws _ => (f <=? c) && (c <? f + lenN ws)
  | GRange f l _ => (f <=? c) && (c <=? l)
  end.

Definition gwidth (g : group) (c : N) : width :=
  match g with
  | GList f ws _ => num_bits (nth (N.to_nat (c - f)) ws NOther)
  | GRange _ _ w => num_bits w
  end.

(** the width of code c: the one its group assigns, the default elsewhere *)
Fixpoint w_spec (gs : list group) (dw : width) (c : N) : width :=
  match gs with
  | [] => dw
  | g :: t => if covers g c then gwidth g c else w_spec t dw c
  end.

(** codes are CIDs (at most 65535), widths are numbers *)
Definition wf_group (g : group) : Prop :=
  match g with
  | GList f ws _ => f <= 65535 /\ f + lenN ws - 1 <= 65535 /\ forallb num_ok ws = true
  | GRange f l w => f <= 65535 /\ l <= 65535 /\ num_ok w = true
  end.

Fixpoint disjoint_groups (gs : list group) : Prop :=
  match gs with
  | [] => True
  | g :: t => (forall g', In g' t -> forall c, covers g c = true -> covers g' c = false) /\ disjoint_groups t
  end.

Definition wf_groups (gs : list group) : Prop := Forall wf_group gs /\ disjoint_groups gs.

(** how a group is written in the /W vector (the f32 bits carried by a code are irrelevant: 0) *)
Definition item_of_num (x : wnum) : witem :=
  match x with NInt z b => IInt z b | NReal b => IReal b | NOther => IOther end.

Definition render_group (g : group) : list witem :=
  match g with
  | GList f ws byref => [IInt (Z.of_N f) 0; if byref then IRefArr ws else IArr ws]
  | GRange f l w => [IInt (Z.of_N f) 0; IInt (Z.of_N l) 0; item_of_num w]
  end.

Fixpoint render_groups (gs : list group) : list witem :=
  match gs with
  | [] => []
  | g :: t => render_group g ++ render_groups t
  end.

Lemma w_spec_app a b d c : w_spec (a ++ b) d c = w_spec a (w_spec b d c) c.
Proof.
  induction a as [|g t IH]; cbn [app w_spec]; [reflexivity|].
  destruct (covers g c); [reflexivity|exact IH].
Qed.

(* ------------------------------------------------------------------ *)
(** * Widths of simple fonts: Widths[c - FirstChar] inside the table, MissingWidth outside *)

Definition simple_spec (first : N) (ws : list width) (missing : width) (c : N) : width :=
  if (first <=? c) && (c <? first + lenN ws) then nth (N.to_nat (c - first)) ws missing else missing.

(* ------------------------------------------------------------------ *)
(** * UTF-16BE (Unicode §3.9, D91): arithmetic on scalar values *)

Definition is_scalar (c : N) : bool := (c <? 55296) || ((57343 <? c) && (c <? 1114112)).

(** the UTF-16 code units of a scalar value *)
Definition utf16_units (c : N) : list N :=
  if c <? 65536 then [c]
  else [55296 + (c - 65536) / 1024; 56320 + (c - 65536) mod 1024].

(** big-endian serialisation of the code units of a string *)
Definition utf16be_bytes (u : ustr) : bytes :=
  flat_map (fun x => [x / 256; x mod 256]) (flat_map utf16_units u).
