(** Font/Spec.v — specification objects of property C19, written from ISO 32000-1 (§9.7.4.3 W arrays,
    §9.6.2.1 / Table 122 simple-font widths, §9.10.3 ToUnicode CMaps) and not from the code.
    The only things shared with the model are the syntax trees of the inputs ([wnum], [witem]) . *)
From PdfV Require Import Base.Prelude Font.Model.

(* ------------------------------------------------------------------ *)
(** * Widths of composite fonts *)

Definition num_ok (n : wnum) : bool := match n with NOther => false | _ => true end.
(* the value of a number is the f32 it denotes (its bit pattern travels with it) *)
Definition num_bits (n : wnum) : width := match n with NInt _ b => b | NReal b => b | NOther => 0 end.

(** the two group forms of a W array:  c [w1 … wn]   and   cfirst clast w *)
Inductive group :=
| GList (first : N) (ws : list wnum) (byref : bool)
| GRange (first last : N) (w : wnum).

Definition covers (g : group) (c : N) : bool :=
  match g with
  | GList f ws _ => (f <=? c) && (c <? f + lenN ws)
  | GRange f l _ => (f <=? c) && (c <=? l)
  end.

Definition gwidth (g : group) (c : N) : width :=
  match g with
  | GList f ws _ => num_bits (nth (N.to_nat (c - f)) ws NOther)
  | GRange _ _ w => num_bits w
  end.

(** the width of code c: the one its group assigns, the default elsewhere *)
Fixpoint w_spec (gs : list group) (dw : width) (c : N) : width :=
  match gs with
  | [] => dw
  | g :: t => if covers g c then gwidth g c else w_spec t dw c
  end.

(** codes are CIDs (at most 65535), widths are numbers *)
Definition wf_group (g : group) : Prop :=
  match g with
  | GList f ws _ => f <= 65535 /\ f + lenN ws - 1 <= 65535 /\ forallb num_ok ws = true
  | GRange f l w => f <= 65535 /\ l <= 65535 /\ num_ok w = true
  end.

Fixpoint disjoint_groups (gs : list group) : Prop :=
  match gs with
  | [] => True
  | g :: t => (forall g', In g' t -> forall c, covers g c = true -> covers g' c = false) /\ disjoint_groups t
  end.

Definition wf_groups (gs : list group) : Prop := Forall wf_group gs /\ disjoint_groups gs.

(** how a group is written in the /W vector (the f32 bits carried by a code are irrelevant: 0) *)
Definition item_of_num (x : wnum) : witem :=
  match x with NInt z b => IInt z b | NReal b => IReal b | NOther => IOther end.

Definition render_group (g : group) : list witem :=
  match g with
  | GList f ws byref => [IInt (Z.of_N f) 0; if byref then IRefArr ws else IArr ws]
  | GRange f l w => [IInt (Z.of_N f) 0; IInt (Z.of_N l) 0; item_of_num w]
  end.

Fixpoint render_groups (gs : list group) : list witem :=
  match gs with
  | [] => []
  | g :: t => render_group g ++ render_groups t
  end.

Lemma w_spec_app a b d c : w_spec (a ++ b) d c = w_spec a (w_spec b d c) c.
Proof.
  induction a as [|g t IH]; cbn [app w_spec]; [reflexivity|].
  destruct (covers g c); [reflexivity|exact IH].
Qed.

(* ------------------------------------------------------------------ *)
(** * Widths of simple fonts: Widths[c - FirstChar] inside the table, MissingWidth outside *)

Definition simple_spec (first : N) (ws : list width) (missing : width) (c : N) : width :=
  if (first <=? c) && (c <? first + lenN ws) then nth (N.to_nat (c - first)) ws missing else missing.

(* ------------------------------------------------------------------ *)
(** * UTF-16BE (Unicode §3.9, D91): arithmetic on scalar values *)

Definition is_scalar (c : N) : bool := (c <? 55296) || ((57343 <? c) && (c <? 1114112)).

(** the UTF-16 code units of a scalar value *)
Definition utf16_units (c : N) : list N :=
  if c <? 65536 then [c]
  else [55296 + (c - 65536) / 1024; 56320 + (c - 65536) mod 1024].

(** big-endian serialisation of the code units of a string *)
Definition utf16be_bytes (u : ustr) : bytes :=
  flat_map (fun x => [x / 256; x mod 256]) (flat_map utf16_units u).

(* ------------------------------------------------------------------ *)
(** * ToUnicode CMaps (ISO 32000-1 §9.10.3, Adobe TN 5014 §1.4.1 / TN 5411): bfchar and bfrange sections *)

(** upper-case hexadecimal, two digits per byte, between < and > *)
Definition hexdig (d : N) : N := if d <? 10 then 48 + d else 55 + d.
Definition hexU (b : bytes) : bytes := flat_map (fun x => [hexdig (x / 16); hexdig (x mod 16)]) b.
Definition hstr (b : bytes) : bytes := 60 :: hexU b ++ [62].

(** a source code: two bytes, big endian *)
Definition cid_bytes (c : N) : bytes := [c / 256; c mod 256].

Definition kw_beginbfchar : bytes := [98;101;103;105;110;98;102;99;104;97;114].
Definition kw_endbfchar : bytes := [101;110;100;98;102;99;104;97;114].
Definition kw_beginbfrange : bytes := [98;101;103;105;110;98;102;114;97;110;103;101].
Definition kw_endbfrange : bytes := [101;110;100;98;102;114;97;110;103;101].

(** <src> <dst>            : src -> dst
    <lo> <hi> [<d0> … ]   : lo + i -> d_i    (the string form <lo> <hi> <dst> is outside this text type: it is judged by the
                             python specification oracle on every run and by CmapProofs.cmap_range_string_example) *)
Definition rentry := (N * N * list ustr)%type.
Inductive csection := SChar (es : list (N * ustr)) | SRange (rs : list rentry).
Definition cmap_text := list csection.

(** one spelling of the text: every entry on its own line, one space between the operands *)
Definition render_char (e : N * ustr) : bytes :=
  10 :: hstr (cid_bytes (fst e)) ++ 32 :: hstr (utf16be_bytes (snd e)).
Definition render_items (bs : list bytes) : bytes :=
  match bs with
  | [] => []
  | b :: t => hstr b ++ flat_map (fun x => 32 :: hstr x) t
  end.
Definition render_range (r : rentry) : bytes :=
  let '(lo, hi, us) := r in
  10 :: hstr (cid_bytes lo) ++ 32 :: hstr (cid_bytes hi) ++ 32 :: 91 :: render_items (map utf16be_bytes us) ++ [93].
Definition render_section (s : csection) : bytes :=
  match s with
  | SChar es => kw_beginbfchar ++ flat_map render_char es ++ 10 :: kw_endbfchar ++ [10]
  | SRange rs => kw_beginbfrange ++ flat_map render_range rs ++ 10 :: kw_endbfrange ++ [10]
  end.
Definition render_cmap (t : cmap_text) : bytes := flat_map render_section t.

(** meaning: a finite map from codes to strings; a later entry replaces an earlier one
    (finite maps are association lists sorted by code: [map_insert]) *)
Fixpoint zip_insert (c : N) (us : list ustr) (n : nat) (m : cmap) : cmap :=
  match n, us with
  | S k, u :: t => zip_insert (c + 1) t k (map_insert c u m)
  | _, _ => m
  end.
Definition denote_range (r : rentry) (m : cmap) : cmap :=
  let '(lo, hi, us) := r in zip_insert lo us (N.to_nat (hi + 1 - lo)) m.
Definition denote_section (s : csection) (m : cmap) : cmap :=
  match s with
  | SChar es => fold_left (fun m e => map_insert (fst e) (snd e) m) es m
  | SRange rs => fold_left (fun m r => denote_range r m) rs m
  end.
Definition denote_sections (t : cmap_text) (m : cmap) : cmap := fold_left (fun m s => denote_section s m) t m.
Definition cmap_denote (t : cmap_text) : cmap := denote_sections t [].

Definition wf_ustr (u : ustr) : Prop := forallb is_scalar u = true.
Definition wf_char (e : N * ustr) : Prop := fst e < 65536 /\ wf_ustr (snd e).
Definition wf_range (r : rentry) : Prop := let '(lo, hi, us) := r in lo < 65536 /\ hi < 65536 /\ Forall wf_ustr us.
Definition wf_section (s : csection) : Prop :=
  match s with SChar es => Forall wf_char es | SRange rs => Forall wf_range rs end.
Definition wf_cmap (t : cmap_text) : Prop := Forall wf_section t.
