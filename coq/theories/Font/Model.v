(** Font/Model.v — executable models of pdf/src/font.rs (glyph widths, UTF-16BE, ToUnicode CMap
    writer and reader) and of exactly those pieces of the crate's lexer/parser that [parse_cmap]
    runs on.  Every definition names its Rust anchor.  Tables and constants come from
    Gen.Generated, i.e. from the Rust source as it is now.  No proofs in this file.

    Conventions: a width is an [f32]; the model carries its bit pattern ([N]).  Conversions
    integer -> f32 and decimal -> f32 are oracles: every number of the input arrives together
    with the bit pattern of its f32 value (computed by tools/oracle/cmap.py with exact
    round-to-nearest-even arithmetic, and compared with the implementation on every case).
    Panic sites: 1901 [values[0]] after splice, 1902 [values[cid - first_char]],
    1903 [debug_assert_eq!] in [Widths::set], 1905 u16 addition in [write_cmap]. *)
From PdfV Require Import Base.Prelude Gen.Generated.

(* ------------------------------------------------------------------ *)
(** * Widths *)

Definition width := N.

(* font.rs: struct Widths { values, default, first_char } *)
Record Widths := mkW { w_values : list width; w_default : width; w_first : N }.

(* slice::get(i).cloned().unwrap_or(d) — indexed by N so that huge indices cost nothing *)
Fixpoint nth_N (l : list width) (i : N) (d : width) : width :=
  match l with
  | [] => d
  | x :: t => if i =? 0 then x else nth_N t (i - 1) d
  end.

(* font.rs: Widths::get *)
Definition get (w : Widths) (cid : N) : width :=
  if cid <? w_first w then w_default w
  else nth_N (w_values w) (cid - w_first w) (w_default w).

(* font.rs: Widths::new *)
Definition new (d : width) : Widths := mkW [] d font_widths_new_first.

(* Vec<f32> IndexMut: values[i] = x (None = index out of bounds, a panic) *)
Fixpoint upd (l : list width) (i : nat) (x : width) : option (list width) :=
  match l, i with
  | [], _ => None
  | _ :: t, O => Some (x :: t)
  | h :: t, S k => match upd t k x with Some r => Some (h :: r) | None => None end
  end.

(* font.rs: Widths::_set — the five growth cases.
   font.rs: Widths::ensure_cid only calls Vec::reserve: it has no effect on the value; its
   argument is at most MAX_CID - first_char because Font::widths checks every code first. *)
Definition _set (w : Widths) (cid : N) (x : width) : res Widths :=
  let vs := w_values w in let fc := w_first w in let d := w_default w in
  match vs with
  | [] => Ok (mkW [x] d cid)                                             (* empty *)
  | _ :: _ =>
    if cid =? fc + lenN vs then Ok (mkW (vs ++ [x]) d fc)                (* append *)
    else if cid <? fc then                                               (* prepend *)
      match upd (repeatN d (N.to_nat (fc - cid)) ++ vs) 0 x with
      | Some vs' => Ok (mkW vs' d cid)
      | None => Panic 1901
      end
    else if lenN vs + fc <? cid then                                     (* gap *)
      Ok (mkW (vs ++ repeatN d (N.to_nat (cid - fc - lenN vs)) ++ [x]) d fc)
    else match upd vs (N.to_nat (cid - fc)) x with                       (* overwrite *)
         | Some vs' => Ok (mkW vs' d fc)
         | None => Panic 1902
         end
  end.

(* font.rs: Widths::set — _set followed by debug_assert_eq!(self.get(cid), width)
   (bit patterns are compared; they differ from f32 equality only on NaN, which no PDF number denotes) *)
Definition set (w : Widths) (cid : N) (x : width) : res Widths :=
  do w' <- _set w cid x;
  if get w' cid =? x then Ok w' else Panic 1903.

(* elements of an inner width list: Primitive::Integer / Primitive::Number / anything else *)
Inductive wnum := NInt (z : Z) (bits : N) | NReal (bits : N) | NOther.
(* elements of the /W vector; a Reference is given together with what it resolves to *)
Inductive witem :=
| IInt (z : Z) (bits : N) | IReal (bits : N)
| IArr (l : list wnum) | IRefArr (l : list wnum) | IRefBad | IOther.

(* primitive.rs: Primitive::as_number *)
Definition as_number (n : wnum) : res width :=
  match n with NInt _ b => Ok b | NReal b => Ok b | NOther => Err 1 end.
Definition as_number_item (i : witem) : res width :=
  match i with IInt _ b => Ok b | IReal b => Ok b | _ => Err 1 end.
(* primitive.rs: Primitive::as_usize *)
Definition as_usize (i : witem) : res N :=
  match i with
  | IInt z _ => if (0 <=? z)%Z then Ok (Z.to_N z) else Err 1
  | _ => Err 1
  end.
(* `c2 as usize` for an i32 (sign extension on a 64-bit target) *)
Definition i32_as_usize (z : Z) : N :=
  if (0 <=? z)%Z then Z.to_N z else Z.to_N (18446744073709551616 + z).

(* font.rs: check_cid *)
Definition check_cid (c : N) : res N := if font_max_cid <? c then Err 1 else Ok c.

(* font.rs: Font::widths — for (i, w) in array.iter().enumerate() { widths.set(c1 + i, w.as_number()?) } *)
Fixpoint set_list (w : Widths) (c : N) (a : list wnum) : res Widths :=
  match a with
  | [] => Ok w
  | n :: t => do x <- as_number n; do w' <- set w c x; set_list w' (c + 1) t
  end.

(* font.rs: Font::widths — for c in c1 ..= c2 { widths.set(c, w) } *)
Fixpoint set_range (w : Widths) (c : N) (n : nat) (x : width) : res Widths :=
  match n with
  | O => Ok w
  | S k => do w' <- set w c x; set_range w' (c + 1) k x
  end.

(* font.rs: Font::widths, arm FontData::CIDFontType0 | CIDFontType2 — the while-let loop over /W *)
Fixpoint cid_loop (w : Widths) (items : list witem) : res Widths :=
  match items with
  | [] => Ok w
  | p :: rest =>
    do c1u <- as_usize p;
    do c1 <- check_cid c1u;
    match rest with
    | IArr a :: rest' =>
        do _ <- check_cid (c1 + lenN a - 1);
        do w' <- set_list w c1 a;
        cid_loop w' rest'
    | IRefArr a :: rest' =>
        do _ <- check_cid (c1 + lenN a - 1);
        do w' <- set_list w c1 a;
        cid_loop w' rest'
    | IInt c2 _ :: rest' =>
        match rest' with
        | [] => Err 1                                            (* try_opt!(iter.next()) *)
        | wv :: rest'' =>
            do x <- as_number_item wv;
            do c2' <- check_cid (i32_as_usize c2);
            do w' <- set_range w c1 (N.to_nat (c2' + 1 - c1)) x;
            cid_loop w' rest''
        end
    | _ => Err 1
    end
  end.

Definition cid_widths (dw : width) (items : list witem) : res Widths := cid_loop (new dw) items.

(* font.rs: Font::widths, arm FontData::Type1 | TrueType.
   first: /FirstChar (i32), ws: /Widths, missing: FontDescriptor.missing_width if a descriptor is present *)
Definition simple_widths (first : option Z) (ws : option (list width)) (missing : option width) : option Widths :=
  match first with
  | Some f => Some (mkW (match ws with Some l => l | None => [] end)
                        (match missing with Some d => d | None => 0 end)
                        (i32_as_usize f))
  | None => None
  end.

(* font.rs: Font::widths, arm FontData::Type0 — descendant_fonts.get(0) *)
Definition type0_widths {A} (ds : list A) (f : A -> res (option Widths)) : res (option Widths) :=
  match ds with
  | [] => Ok None
  | d :: _ => f d
  end.

(* ------------------------------------------------------------------ *)
(** * UTF-16BE *)

Definition ustr := list N.     (* Unicode scalar values *)

(* slice::chunks_exact(2).map(u16::from_be_bytes): a trailing odd byte is dropped *)
Fixpoint units (b : bytes) : list N :=
  match b with
  | h :: l :: t => (h * 256 + l) :: units t
  | _ => []
  end.

(* core::char::decode_utf16 collected into Result: the first unpaired surrogate is an error *)
Fixpoint decode_utf16 (us : list N) : res ustr :=
  match us with
  | [] => Ok []
  | u :: t =>
    if (u <? 55296) || (57343 <? u) then
      do r <- decode_utf16 t; Ok (u :: r)
    else if 56320 <=? u then Err 7
    else match t with
         | [] => Err 7
         | u2 :: t' =>
           if (u2 <? 56320) || (57343 <? u2) then Err 7
           else do r <- decode_utf16 t';
                Ok (65536 + (u - 55296) * 1024 + (u2 - 56320) :: r)
         end
  end.

(* font.rs: utf16be_to_string *)
Definition utf16be_to_string (b : bytes) : res ustr := decode_utf16 (units b).

(* char::encode_utf16 *)
Definition encode_utf16 (c : N) : list N :=
  if c <? 65536 then [c]
  else [55296 + (c - 65536) / 1024; 56320 + (c - 65536) mod 1024].

(* {:X} / {:x} digit *)
Definition hex_digit (upper : bool) (d : N) : N :=
  if d <? 10 then 48 + d else (if upper then 55 else 87) + d.
(* {:0wX} of a value below 16^w: exactly w digits *)
Fixpoint hexw (upper : bool) (w : nat) (n : N) : bytes :=
  match w with
  | O => []
  | S k => hexw upper k (n / 16) ++ [hex_digit upper (n mod 16)]
  end.

(* font.rs: write_cid — "<{:04X}>" *)
Definition write_cid (cid : N) : bytes :=
  [font_wcid_open] ++ hexw (font_wcid_upper =? 1) (N.to_nat font_wcid_digits) cid ++ [font_wcid_close].

(* font.rs: write_unicode *)
Definition write_unicode (u : ustr) : bytes :=
  [font_wuni_open]
  ++ flat_map (fun c => flat_map (hexw (font_wuni_upper =? 1) (N.to_nat font_wuni_digits)) (encode_utf16 c)) u
  ++ [font_wuni_close].

(* ------------------------------------------------------------------ *)
(** * ToUnicodeMap: HashMap<u16, SmallString>, represented by its content sorted by key *)

Definition entry := (N * ustr)%type.
Definition cmap := list entry.

(* font.rs: ToUnicodeMap::insert / HashMap::insert (replaces) *)
Fixpoint map_insert (k : N) (v : ustr) (m : cmap) : cmap :=
  match m with
  | [] => [(k, v)]
  | (k', v') :: t =>
    if k <? k' then (k, v) :: m
    else if k =? k' then (k, v) :: t
    else (k', v') :: map_insert k v t
  end.

(* font.rs: ToUnicodeMap::create (collect: a later pair replaces an earlier one) *)
Definition map_create (l : list entry) : cmap :=
  fold_left (fun m e => map_insert (fst e) (snd e) m) l [].

(* ------------------------------------------------------------------ *)
(** * write_cmap *)

(* font.rs: write_cmap —
   remaining.iter().enumerate().take_while(|&(i, &(cid, _))| cid == first_cid + i as u16).count()
   (u16 addition: overflow is a panic in the profile the harness is built with) *)
Fixpoint run_len (first i : N) (l : list entry) : res nat :=
  match l with
  | [] => Ok O
  | (cid, _) :: t =>
    let j := i mod 65536 in
    if 65536 <=? first + j then Panic 1905
    else if cid =? first + j then do n <- run_len first (i + 1) t; Ok (S n)
    else Ok O
  end.

(* font.rs: write_cmap — the from_fn closure: split_at(seq_len) until nothing remains *)
Fixpoint blocks (fuel : nat) (l : list entry) : res (list (list entry)) :=
  match l with
  | [] => Ok []
  | (first, _) :: _ =>
    match fuel with
    | O => OutOfFuel
    | S f =>
      do n <- run_len first 0 l;
      do r <- blocks f (skipn n l);
      Ok (firstn n l :: r)
    end
  end.

Definition is_single (b : list entry) : bool := lenN b =? font_wr_single_len.

(* itertools group_by(|b| b.len() == 1): maximal runs of consecutive blocks with the same key *)
Fixpoint group_blocks (bs : list (list entry)) : list (bool * list (list entry)) :=
  match bs with
  | [] => []
  | b :: t =>
    let k := is_single b in
    match group_blocks t with
    | (k', g) :: r => if Bool.eqb k k' then (k, b :: g) :: r else (k, [b]) :: (k', g) :: r
    | [] => [(k, [b])]
    end
  end.

(* font.rs: write_cmap — one line of a bfchar section *)
Definition char_line (e : entry) : bytes :=
  write_cid (fst e) ++ font_wr_char_sep ++ write_unicode (snd e) ++ font_wr_char_end.

(* the items of a bfrange array, separated *)
Fixpoint array_items (l : list entry) (i : nat) : bytes :=
  match l with
  | [] => []
  | e :: t => (match i with O => [] | S _ => font_wr_item_sep end) ++ write_unicode (snd e) ++ array_items t (S i)
  end.

(* font.rs: write_cmap — one line of a bfrange section; block[0] / block.last().unwrap() exist
   because every block has at least one element *)
Definition range_line (b : list entry) : res bytes :=
  match b with
  | [] => Panic 1906
  | e0 :: _ =>
    Ok (write_cid (fst e0) ++ font_wr_range_sep ++ write_cid (fst (last b e0)) ++ font_wr_array_open
        ++ array_items b O ++ font_wr_array_close)
  end.

Fixpoint range_lines (bs : list (list entry)) : res bytes :=
  match bs with
  | [] => Ok []
  | b :: t => do x <- range_line b; do r <- range_lines t; Ok (x ++ r)
  end.

Definition section (g : bool * list (list entry)) : res bytes :=
  if fst g then
    Ok (font_wr_bfchar_open ++ flat_map (fun b => flat_map char_line b) (snd g) ++ font_wr_bfchar_close)
  else
    do x <- range_lines (snd g); Ok (font_wr_bfrange_open ++ x ++ font_wr_bfrange_close).

Fixpoint sections (gs : list (bool * list (list entry))) : res bytes :=
  match gs with
  | [] => Ok []
  | g :: t => do x <- section g; do r <- sections t; Ok (x ++ r)
  end.

(* font.rs: write_cmap; [m] is the map's content sorted by key = `list` after list.sort() *)
Definition write_cmap (m : cmap) : res bytes :=
  do bs <- blocks (length m) m;
  sections (group_blocks bs).

(* ------------------------------------------------------------------ *)
(** * The lexer pieces parse_cmap runs on (state: the remaining slice) *)

(* lexer/mod.rs: is_whitespace, Lexer::is_delimiter *)
Definition is_ws (b : N) : bool := memN b font_lexer_ws.
Definition is_delim (b : N) : bool := memN b font_delims.
Definition is_reg (b : N) : bool := negb (is_ws b) && negb (is_delim b).

Definition has_byte (x : N) (s : bytes) : bool := existsb (N.eqb x) s.

(* lexer/mod.rs: Lexer::next_word — skip_whitespace and the `while buf[pos] == '%'` loop.
   A comment ends at the first CR or LF, or at the end of the buffer.
   Result []: the end was reached (PdfError::EOF). *)
Fixpoint skip_wc (incomment : bool) (s : bytes) : bytes :=
  match s with
  | [] => []
  | b :: t =>
    if incomment then (if memN b font_comment_ends then skip_wc false t else skip_wc true t)
    else if is_ws b then skip_wc false t
    else if b =? font_comment_start then skip_wc true t
    else s
  end.

(* `while !is_whitespace(pos) && !is_delimiter(pos) { advance }` (stops at the end of the buffer) *)
Fixpoint span_reg (s : bytes) : bytes * bytes :=
  match s with
  | [] => ([], [])
  | b :: t => if is_reg b then let (w, r) := span_reg t in (b :: w, r) else ([], s)
  end.

(* lexer/mod.rs: Lexer::next_word / Lexer::next: (lexeme, remaining slice) *)
Definition next_word (s : bytes) : res (bytes * bytes) :=
  match skip_wc false s with
  | [] => Err 2
  | b :: t =>
    if is_delim b then
      if b =? font_name_start then let (w, r) := span_reg t in Ok (b :: w, r)
      else match t with
           | b2 :: t2 => if memN b font_double_delims && (b2 =? b) then Ok ([b; b2], t2) else Ok ([b], t)
           | [] => Ok ([b], t)
           end
    else let (w, r) := span_reg (b :: t) in Ok (w, r)
  end.

Fixpoint bytes_eqb (a b : bytes) : bool :=
  match a, b with
  | [], [] => true
  | x :: a', y :: b' => (x =? y) && bytes_eqb a' b'
  | _, _ => false
  end.

(* lexer/str.rs: HexStringLexer::next_hex_byte arms *)
Fixpoint find_range3 (c : N) (rs : list (N * N * N)) : option N :=
  match rs with
  | [] => None
  | (lo, hi, base) :: t => if (lo <=? c) && (c <=? hi) then Some (c - lo + base) else find_range3 c t
  end.
Definition hex_nibble (c : N) : option N := find_range3 c font_hex_ranges.

(* lexer/str.rs: HexStringLexer iterator, started right after '<': (bytes, slice after '>').
   hi = the pending high nibble.  '>' after a single nibble: low nibble 0. *)
Fixpoint hexstr (hi : option N) (s : bytes) : res (bytes * bytes) :=
  match s with
  | [] => Err 2
  | b :: t =>
    if memN b font_hex_ws then hexstr hi t
    else if b =? font_hex_end then
      match hi with
      | None => Ok ([], t)
      | Some h => Ok ([(h * 2 ^ font_hex_shift) mod 256], t)
      end
    else match hex_nibble b with
         | None => Err 3
         | Some v =>
           match hi with
           | None => hexstr (Some v) t
           | Some h => do br <- hexstr None t; Ok (N.lor ((h * 2 ^ font_hex_shift) mod 256) v :: fst br, snd br)
           end
         end
  end.

(* what parse_with_lexer can return here *)
Inductive cprim := CStr (b : bytes) | CArr (l : list bytes).

(* constructs outside this model (literal strings, array elements other than hex strings):
   reported as Err 99 and never compared with the implementation *)
Definition unsupported {A} : res A := Err 99.

(* parser/mod.rs: _parse_with_lexer_ctx, arm "[" with elements restricted to hex strings *)
Fixpoint parse_array (fuel : nat) (s : bytes) : res (list bytes * bytes) :=
  match fuel with
  | O => OutOfFuel
  | S f =>
    do wr <- next_word s;
    if bytes_eqb (fst wr) [font_array_close] then Ok ([], snd wr)
    else if bytes_eqb (fst wr) [font_hexstr_open] then
      do br <- hexstr None (snd wr);
      do lr <- parse_array f (snd br);
      Ok (fst br :: fst lr, snd lr)
    else unsupported
  end.

(* parser/mod.rs: parse_with_lexer(lexer, &NoResolve, STRING) / (…, STRING | ARRAY).
   On Err the lexer position is restored by parse_with_lexer_ctx: the caller keeps [s]. *)
Definition parse_prim (allow_array : bool) (fuel : nat) (s : bytes) : res (cprim * bytes) :=
  do wr <- next_word s;
  if bytes_eqb (fst wr) [font_hexstr_open] then
    do br <- hexstr None (snd wr); Ok (CStr (fst br), snd br)
  else if bytes_eqb (fst wr) [font_litstr_open] then unsupported
  else if bytes_eqb (fst wr) [font_array_open] then
    (if allow_array then do lr <- parse_array fuel (snd wr); Ok (CArr (fst lr), snd lr) else Err 4)
  else Err 4.

(* font.rs: parse_cid *)
Definition parse_cid (b : bytes) : res N :=
  match b with
  | [x] => Ok x
  | [h; l] => Ok (h * 256 + l)
  | _ => Err 5
  end.

(* font.rs: parse_cmap — map.insert or warn!("invalid unicode …") *)
Definition insert_decoded (cid : N) (ub : bytes) (m : cmap) : cmap :=
  match utf16be_to_string ub with
  | Ok u => map_insert cid u m
  | _ => m
  end.

(* `if *last < 255 { *last += 1 } else { break }` *)
Fixpoint inc_last (b : bytes) : option bytes :=
  match b with
  | [] => None
  | [x] => if x <? font_range_last_max then Some [x + 1] else None
  | x :: t => match inc_last t with Some t' => Some (x :: t') | None => None end
  end.

(* font.rs: parse_cmap, bfrange with a string: for cid in cid_start ..= cid_end *)
Fixpoint range_str (n : nat) (cid : N) (ud : bytes) (m : cmap) : cmap :=
  match n with
  | O => m
  | S k =>
    let m' := insert_decoded cid ud m in
    match inc_last ud with
    | Some ud' => range_str k (cid + 1) ud' m'
    | None => m'
    end
  end.

(* font.rs: parse_cmap, bfrange with an array: (cid_start ..= cid_end).zip(array) *)
Fixpoint range_arr (n : nat) (cid : N) (arr : list bytes) (m : cmap) : cmap :=
  match n, arr with
  | S k, ub :: t => range_arr k (cid + 1) t (insert_decoded cid ub m)
  | _, _ => m
  end.

Definition range_count (lo hi : N) : nat := N.to_nat (hi + 1 - lo).

Inductive pmode := MOuter | MChar | MRange.

(* a parse that failed in a way the model does not cover aborts the whole run *)
Definition is_unsupported (e : N) : bool := e =? 99.

(* font.rs: parse_cmap — the outer `while let Ok(substr) = lexer.next()` and the two inner loops,
   as one loop with a mode; one unit of fuel per iteration *)
Fixpoint cmap_loop (fuel : nat) (mode : pmode) (s : bytes) (m : cmap) : res cmap :=
  match fuel with
  | O => OutOfFuel
  | S f =>
    match mode with
    | MOuter =>
      match next_word s with
      | Ok (w, r) =>
        if bytes_eqb w font_kw_bfchar then cmap_loop f MChar r m
        else if bytes_eqb w font_kw_bfrange then cmap_loop f MRange r m
        else if bytes_eqb w font_kw_endcmap then Ok m
        else cmap_loop f MOuter r m
      | Err _ => Ok m
      | Panic p => Panic p
      | OutOfFuel => OutOfFuel
      end
    | MChar =>
      match parse_prim false f s with
      | Ok (CStr ca, r) =>
        match parse_prim false f r with
        | Ok (CStr ub, r') =>
          do cid <- parse_cid ca;
          cmap_loop f MChar r' (insert_decoded cid ub m)
        | Ok (CArr _, r') => cmap_loop f MOuter r' m
        | Err e => if is_unsupported e then unsupported else cmap_loop f MOuter r m
        | Panic p => Panic p
        | OutOfFuel => OutOfFuel
        end
      | Ok (CArr _, r) => cmap_loop f MOuter r m
      | Err e => if is_unsupported e then unsupported else cmap_loop f MOuter s m
      | Panic p => Panic p
      | OutOfFuel => OutOfFuel
      end
    | MRange =>
      match parse_prim false f s with
      | Ok (a, r) =>
        (* b and c are both attempted; a failed parse leaves the position where it was *)
        let pb := parse_prim false f r in
        let r1 := match pb with Ok (_, r1) => r1 | _ => r end in
        let pc := parse_prim true f r1 in
        let r2 := match pc with Ok (_, r2) => r2 | _ => r1 end in
        match pb, pc with
        | Err e, _ => if is_unsupported e then unsupported else
                      match pc with
                      | Err e' => if is_unsupported e' then unsupported else cmap_loop f MOuter r2 m
                      | Ok _ => cmap_loop f MOuter r2 m
                      | Panic p => Panic p
                      | OutOfFuel => OutOfFuel
                      end
        | Panic p, _ => Panic p
        | OutOfFuel, _ => OutOfFuel
        | Ok (b, _), Err e => if is_unsupported e then unsupported else cmap_loop f MOuter r2 m
        | Ok _, Panic p => Panic p
        | Ok _, OutOfFuel => OutOfFuel
        | Ok (b, _), Ok (c, _) =>
          match a, b, c with
          | CStr ca, CStr cb, CStr ud =>
            match ud with
            | [] => cmap_loop f MOuter r2 m                       (* the guard `len() > 0` fails: `_ => break` *)
            | _ :: _ =>
              do lo <- parse_cid ca;
              do hi <- parse_cid cb;
              cmap_loop f MRange r2 (range_str (range_count lo hi) lo ud m)
            end
          | CStr ca, CStr cb, CArr arr =>
            do lo <- parse_cid ca;
            do hi <- parse_cid cb;
            cmap_loop f MRange r2 (range_arr (range_count lo hi) lo arr m)
          | _, _, _ => cmap_loop f MOuter r2 m
          end
        end
      | Err e => if is_unsupported e then unsupported else cmap_loop f MOuter s m
      | Panic p => Panic p
      | OutOfFuel => OutOfFuel
      end
    end
  end.

(* font.rs: parse_cmap *)
Definition parse_cmap (data : bytes) : res cmap :=
  cmap_loop (2 * length data + 2) MOuter data [].
