(** Font/WriterProofs.v — the CMap writer (font.rs: write_cmap) on every map: the u16 addition of the
    block splitter never overflows on strictly sorted codes, the splitter partitions the sorted list
    into runs of consecutive codes, the text written is [render_cmap] of the sections those blocks
    form, and that text denotes the map.  Composed with [CmapProofs.cmap_read]:
    parse_cmap (write_cmap m) = m. *)
From Coq Require Import Sorted.
From PdfV Require Import Base.Prelude Gen.Generated Font.Model Font.Spec Font.UtfProofs Font.CmapProofs.

(* ------------------------------------------------------------------ *)
(** * generated tables of the writer (re-checked against the Rust source on every run) *)

Lemma tbl_writer_format :
  font_wcid_open = 60 /\ font_wcid_close = 62 /\ (font_wcid_upper =? 1) = true /\ N.to_nat font_wcid_digits = 4%nat /\
  font_wuni_open = 60 /\ font_wuni_close = 62 /\ (font_wuni_upper =? 1) = true /\ N.to_nat font_wuni_digits = 4%nat.
Proof. vm_compute. repeat split. Qed.

Lemma tbl_writer_literals :
  font_wr_bfchar_open = kw_beginbfchar ++ [10] /\ font_wr_char_sep = [32] /\ font_wr_char_end = [10] /\
  font_wr_bfchar_close = kw_endbfchar ++ [10] /\
  font_wr_bfrange_open = kw_beginbfrange ++ [10] /\ font_wr_range_sep = [32] /\ font_wr_array_open = [32; 91] /\
  font_wr_item_sep = [32] /\ font_wr_array_close = [93; 10] /\ font_wr_bfrange_close = kw_endbfrange ++ [10].
Proof. vm_compute. repeat split. Qed.

(* ------------------------------------------------------------------ *)
(** * the domain: the content of a ToUnicodeMap, sorted by code *)

Definition key_lt (a b : entry) : Prop := fst a < fst b.
Definition wf_entry (e : entry) : Prop := fst e < 65536 /\ wf_ustr (snd e).

Lemma sorted_tail x l : StronglySorted key_lt (x :: l) -> StronglySorted key_lt l.
Proof. intros H. inversion H; assumption. Qed.

Lemma sorted_head x l : StronglySorted key_lt (x :: l) -> Forall (key_lt x) l.
Proof. intros H. inversion H; assumption. Qed.

Lemma sorted_skipn n : forall l, StronglySorted key_lt l -> StronglySorted key_lt (skipn n l).
Proof.
  induction n as [|n IH]; intros l H; [exact H|]. destruct l as [|x t]; [exact H|].
  cbn [skipn]. apply IH. exact (sorted_tail _ _ H).
Qed.

Lemma Forall_skipn {A} (P : A -> Prop) n : forall l, Forall P l -> Forall P (skipn n l).
Proof.
  induction n as [|n IH]; intros l H; [exact H|]. destruct l as [|x t]; [exact H|].
  cbn [skipn]. apply IH. inversion H; assumption.
Qed.

Lemma Forall_firstn {A} (P : A -> Prop) n : forall l, Forall P l -> Forall P (firstn n l).
Proof.
  induction n as [|n IH]; intros l H; [constructor|]. destruct l as [|x t]; [constructor|].
  cbn [firstn]. inversion H; subst. constructor; [assumption|apply IH; assumption].
Qed.

Lemma sorted_app_l a : forall b, StronglySorted key_lt (a ++ b) -> StronglySorted key_lt a.
Proof.
  induction a as [|x t IH]; intros b H; [constructor|].
  cbn [app] in H. inversion H as [|? ? Ht Hx]; subst. constructor; [exact (IH _ Ht)|].
  apply Forall_app in Hx. tauto.
Qed.

(** everything in front of an element of a sorted list has a smaller code *)
Lemma sorted_app_lt a : forall x b, StronglySorted key_lt (a ++ x :: b) -> Forall (fun e => fst e < fst x) a.
Proof.
  induction a as [|y t IH]; intros x b H; [constructor|].
  cbn [app] in H. inversion H as [|? ? Ht Hy]; subst. constructor; [|exact (IH _ _ Ht)].
  apply Forall_app in Hy. destruct Hy as [_ Hy]. inversion Hy; assumption.
Qed.

(* ------------------------------------------------------------------ *)
(** * run_len: the u16 addition never overflows, and the count is the length of the run *)

(** the number of leading entries whose codes are next, next+1, … *)
Fixpoint run_spec (next : N) (l : list entry) : nat :=
  match l with
  | [] => O
  | e :: t => if fst e =? next then S (run_spec (next + 1) t) else O
  end.

Definition head_ge (l : list entry) (k : N) : Prop :=
  match l with [] => True | e :: _ => k <= fst e end.

Lemma run_len_spec l : forall first i,
  Forall (fun e => fst e < 65536) l -> StronglySorted key_lt l -> head_ge l (first + i) ->
  run_len first i l = Ok (run_spec (first + i) l).
Proof.
  induction l as [|[cid u] t IH]; intros first i Hk Hs Hh; [reflexivity|].
  cbn [head_ge fst] in Hh. inversion Hk as [|? ? Hc Hkt]; subst. cbn [fst] in Hc.
  cbn [run_len run_spec fst].
  rewrite (N.mod_small i 65536) by lia.
  replace (65536 <=? first + i) with false by (symmetry; apply N.leb_gt; lia).
  destruct (N.eqb_spec cid (first + i)) as [E|E]; [|reflexivity].
  rewrite (IH first (i + 1) Hkt (sorted_tail _ _ Hs)).
  - cbn [bind]. rewrite N.add_assoc. reflexivity.
  - destruct t as [|e t']; [exact I|]. cbn [head_ge].
    pose proof (sorted_head _ _ Hs) as Hlt. inversion Hlt as [|? ? He _]; subst.
    unfold key_lt in He. cbn [fst] in He. lia.
Qed.

(** codes k, k+1, k+2, … *)
Fixpoint consec (k : N) (b : list entry) : Prop :=
  match b with
  | [] => True
  | e :: t => fst e = k /\ consec (k + 1) t
  end.

Lemma consec_run k : forall l, consec k (firstn (run_spec k l) l).
Proof.
  intros l. revert k. induction l as [|e t IH]; intros k; [exact I|].
  cbn [run_spec]. destruct (N.eqb_spec (fst e) k) as [E|E]; [|exact I].
  cbn [firstn consec]. split; [exact E|apply IH].
Qed.

(* ------------------------------------------------------------------ *)
(** * blocks: a partition of the list into non-empty runs *)

Definition is_block (b : list entry) : Prop :=
  match b with [] => False | e :: _ => consec (fst e) b end.

Lemma blocks_partition fuel : forall l, (length l <= fuel)%nat ->
  Forall (fun e => fst e < 65536) l -> StronglySorted key_lt l ->
  exists bs, blocks fuel l = Ok bs /\ concat bs = l /\ Forall is_block bs.
Proof.
  induction fuel as [|f IH]; intros l Hlen Hk Hs.
  - destruct l as [|e t]; [|cbn [length] in Hlen; lia]. exists []. repeat split. constructor.
  - destruct l as [|[first u] t]; [exists []; repeat split; constructor|].
    cbn [blocks].
    rewrite (run_len_spec _ first 0 Hk Hs) by (cbn [head_ge fst]; lia).
    rewrite N.add_0_r. cbn [bind].
    set (l := (first, u) :: t) in *.
    assert (En : run_spec first l = S (run_spec (first + 1) t)).
    { unfold l. cbn [run_spec fst]. rewrite N.eqb_refl. reflexivity. }
    destruct (IH (@skipn entry (run_spec first l) l)) as [r [Er [Ec Hb]]].
    + rewrite En. unfold l in Hlen |- *. cbn [skipn]. cbn [length] in Hlen.
      pose proof (skipn_length (run_spec (first + 1) t) t). unfold entry in *. lia.
    + apply Forall_skipn. exact Hk.
    + apply sorted_skipn. exact Hs.
    + rewrite Er. cbn [bind]. eexists. split; [reflexivity|]. split.
      * cbn [concat]. rewrite Ec. apply firstn_skipn.
      * constructor; [|exact Hb].
        pose proof (consec_run first l) as Hc. rewrite En in *. unfold l in *. cbn [firstn] in *.
        cbn [is_block fst]. exact Hc.
Qed.

(* ------------------------------------------------------------------ *)
(** * group_by: a regrouping of the same blocks *)

Lemma group_blocks_concat bs : concat (map snd (group_blocks bs)) = bs.
Proof.
  induction bs as [|b t IH]; [reflexivity|].
  cbn [group_blocks]. destruct (group_blocks t) as [|[k' g] r].
  - cbn [map concat snd] in *. rewrite <- IH. reflexivity.
  - destruct (Bool.eqb (is_single b) k'); cbn [map concat snd app] in *; rewrite <- IH; reflexivity.
Qed.

Lemma Forall_concat_inv {A} (P : A -> Prop) (ls : list (list A)) : Forall P (concat ls) -> Forall (Forall P) ls.
Proof.
  induction ls as [|l t IH]; intros H; [constructor|].
  cbn [concat] in H. apply Forall_app in H. destruct H as [H1 H2]. constructor; [exact H1|exact (IH H2)].
Qed.

Lemma Forall_concat_intro {A} (P : A -> Prop) (ls : list (list A)) : Forall (Forall P) ls -> Forall P (concat ls).
Proof.
  induction 1 as [|l t Hl Ht IH]; [constructor|]. cbn [concat]. apply Forall_app. split; assumption.
Qed.

(* ------------------------------------------------------------------ *)
(** * the spelling of codes and strings: {:04X} is the two-digit spelling of the two big-endian bytes *)

Lemma hex_digit_upper d : hex_digit true d = hexdig d.
Proof. reflexivity. Qed.

Lemma nib_split x : (x / 16) mod 16 = (x mod 256) / 16 /\ x mod 16 = (x mod 256) mod 16.
Proof.
  pose proof (N.div_mod x 256 ltac:(lia)) as H1.
  pose proof (N.mod_lt x 256 ltac:(lia)) as H2.
  set (q := x / 256) in *. set (r := x mod 256) in *.
  pose proof (N.div_mod r 16 ltac:(lia)) as H3.
  pose proof (N.mod_lt r 16 ltac:(lia)) as H4.
  set (a := r / 16) in *. set (b := r mod 16) in *.
  assert (Ha : a < 16) by (unfold a; apply N.div_lt_upper_bound; lia).
  assert (E1 : x / 16 = 16 * q + a) by (symmetry; apply (N.div_unique x 16 (16 * q + a) b); lia).
  split.
  - rewrite E1. symmetry. apply (N.mod_unique (16 * q + a) 16 q a); lia.
  - symmetry. apply (N.mod_unique x 16 (16 * q + a) b); lia.
Qed.

Lemma hexw2 y : y < 256 -> hexw true 2 y = hexU [y].
Proof.
  intros Hy. cbn [hexw app hexU flat_map]. rewrite !hex_digit_upper.
  assert (Hq : y / 16 < 16) by (apply N.div_lt_upper_bound; lia).
  rewrite (N.mod_small (y / 16) 16) by exact Hq. reflexivity.
Qed.

Lemma hexw4 x : x < 65536 -> hexw true 4 x = hexU [x / 256; x mod 256].
Proof.
  intros Hx.
  change (hexw true 4 x) with ((hexw true 2 (x / 16 / 16) ++ [hex_digit true ((x / 16) mod 16)]) ++ [hex_digit true (x mod 16)]).
  rewrite N.div_div by lia. change (16 * 16) with 256.
  rewrite hexw2 by (apply N.div_lt_upper_bound; lia).
  destruct (nib_split x) as [E1 E2]. rewrite E1, E2, !hex_digit_upper.
  cbn [hexU flat_map app]. reflexivity.
Qed.

Lemma hexU_app a b : hexU (a ++ b) = hexU a ++ hexU b.
Proof. unfold hexU. apply flat_map_app. Qed.

Lemma write_cid_hstr c : c < 65536 -> write_cid c = hstr (cid_bytes c).
Proof.
  intros Hc. destruct tbl_writer_format as [E1 [E2 [E3 [E4 _]]]].
  unfold write_cid, hstr, cid_bytes. rewrite E1, E2, E3, E4, (hexw4 c Hc). reflexivity.
Qed.

Lemma flat_map_flat_map {A B C} (f : B -> list C) (g : A -> list B) l :
  flat_map (fun x => flat_map f (g x)) l = flat_map f (flat_map g l).
Proof.
  induction l as [|x t IH]; [reflexivity|]. cbn [flat_map]. rewrite flat_map_app, IH. reflexivity.
Qed.

Lemma hexw4_units us : Forall (fun x => x < 65536) us ->
  flat_map (hexw true 4) us = hexU (flat_map (fun x => [x / 256; x mod 256]) us).
Proof.
  induction 1 as [|x t Hx Ht IH]; [reflexivity|].
  cbn [flat_map]. rewrite hexU_app, IH, (hexw4 x Hx). reflexivity.
Qed.

Lemma write_unicode_hstr u : wf_ustr u -> write_unicode u = hstr (utf16be_bytes u).
Proof.
  intros Hu. destruct tbl_writer_format as [_ [_ [_ [_ [E1 [E2 [E3 E4]]]]]]].
  unfold write_unicode, hstr, utf16be_bytes. rewrite E1, E2, E3, E4.
  change (fun c => flat_map (hexw true 4) (encode_utf16 c)) with (fun c => flat_map (hexw true 4) (utf16_units c)).
  rewrite (flat_map_flat_map (hexw true 4) utf16_units u).
  rewrite (hexw4_units _ (all_units_u16 u Hu)). reflexivity.
Qed.

(* ------------------------------------------------------------------ *)
(** * the text of the writer is render_cmap of the sections its blocks form *)

Definition range_of (b : list entry) : rentry :=
  match b with
  | [] => (0, 0, [])
  | e0 :: _ => (fst e0, fst (last b e0), map snd b)
  end.

Definition section_of (g : bool * list (list entry)) : csection :=
  if fst g then SChar (concat (snd g)) else SRange (map range_of (snd g)).

Definition text_of (gs : list (bool * list (list entry))) : cmap_text := map section_of gs.

(** a line break in front of every entry = a line break after every entry *)
Lemma nl_shift {A} (f : A -> bytes) l X :
  flat_map (fun e => 10 :: f e) l ++ 10 :: X = 10 :: flat_map (fun e => f e ++ [10]) l ++ X.
Proof.
  induction l as [|e t IH]; [reflexivity|].
  cbn [flat_map app]. rewrite <- !app_assoc, IH. reflexivity.
Qed.

Definition char_body (e : entry) : bytes := hstr (cid_bytes (fst e)) ++ 32 :: hstr (utf16be_bytes (snd e)).

Lemma char_line_body e : wf_entry e -> char_line e = char_body e ++ [10].
Proof.
  intros [Hc Hu]. destruct tbl_writer_literals as [_ [E1 [E2 _]]].
  unfold char_line, char_body. rewrite E1, E2, (write_cid_hstr _ Hc), (write_unicode_hstr _ Hu).
  rewrite <- !app_assoc. reflexivity.
Qed.

Lemma char_lines_body es : Forall wf_entry es -> flat_map char_line es = flat_map (fun e => char_body e ++ [10]) es.
Proof.
  induction 1 as [|e t He Ht IH]; [reflexivity|]. cbn [flat_map]. rewrite IH, (char_line_body e He). reflexivity.
Qed.

Lemma flat_map_concat {A B} (f : A -> list B) ls : flat_map (fun l => flat_map f l) ls = flat_map f (concat ls).
Proof.
  induction ls as [|l t IH]; [reflexivity|]. cbn [flat_map concat]. rewrite flat_map_app, IH. reflexivity.
Qed.

Lemma section_chars bs : Forall (Forall wf_entry) bs ->
  section (true, bs) = Ok (render_section (SChar (concat bs))).
Proof.
  intros Hwf. destruct tbl_writer_literals as [E1 [_ [_ [E2 _]]]].
  unfold section. cbn [fst snd render_section]. rewrite E1, E2. f_equal.
  rewrite flat_map_concat, (char_lines_body _ (Forall_concat_intro _ _ Hwf)).
  change render_char with (fun e => 10 :: char_body e).
  pose proof (nl_shift char_body (concat bs) (kw_endbfchar ++ [10])) as Hsh.
  unfold entry in *. rewrite Hsh.
  rewrite <- !app_assoc. reflexivity.
Qed.

Definition range_body (r : rentry) : bytes :=
  let '(lo, hi, us) := r in
  hstr (cid_bytes lo) ++ 32 :: hstr (cid_bytes hi) ++ 32 :: 91 :: render_items (map utf16be_bytes us) ++ [93].

Lemma render_range_body r : render_range r = 10 :: range_body r.
Proof. destruct r as [[lo hi] us]. reflexivity. Qed.

Lemma array_items_tail l : forall i, Forall wf_entry l ->
  array_items l (S i) = flat_map (fun x => 32 :: hstr x) (map utf16be_bytes (map snd l)).
Proof.
  destruct tbl_writer_literals as [_ [_ [_ [_ [_ [_ [_ [E _]]]]]]]].
  induction l as [|e t IH]; intros i Hwf; [reflexivity|].
  inversion Hwf as [|? ? [_ Hu] Ht]; subst.
  cbn [array_items map flat_map]. rewrite E, (write_unicode_hstr _ Hu), (IH (S i) Ht). reflexivity.
Qed.

Lemma array_items_render l : Forall wf_entry l ->
  array_items l O = render_items (map utf16be_bytes (map snd l)).
Proof.
  intros Hwf. destruct l as [|e t]; [reflexivity|].
  inversion Hwf as [|? ? [_ Hu] Ht]; subst.
  cbn [array_items map render_items app]. rewrite (write_unicode_hstr _ Hu), (array_items_tail t O Ht). reflexivity.
Qed.

Lemma Forall_last {A} (P : A -> Prop) l d : P d -> Forall P l -> P (last l d).
Proof.
  intros Hd H. induction H as [|x t Hx Ht IH]; [exact Hd|].
  destruct t as [|y t']; [exact Hx|]. exact IH.
Qed.

Lemma range_line_body b : b <> [] -> Forall wf_entry b -> range_line b = Ok (range_body (range_of b) ++ [10]).
Proof.
  intros Hne Hwf. destruct b as [|e0 t]; [congruence|].
  destruct tbl_writer_literals as [_ [_ [_ [_ [_ [E1 [E2 [_ [E3 _]]]]]]]]].
  assert (H0 : wf_entry e0) by (inversion Hwf; assumption).
  assert (Hl : wf_entry (last (e0 :: t) e0)) by (apply Forall_last; assumption).
  unfold range_line, range_of, range_body. rewrite E1, E2, E3.
  rewrite (write_cid_hstr _ (proj1 H0)), (write_cid_hstr _ (proj1 Hl)), (array_items_render _ Hwf).
  f_equal. rewrite <- !app_assoc. cbn [app]. rewrite <- !app_assoc. cbn [app].
  f_equal. f_equal. rewrite <- !app_assoc. reflexivity.
Qed.

Lemma range_lines_body bs : Forall (fun b => b <> []) bs -> Forall (Forall wf_entry) bs ->
  range_lines bs = Ok (flat_map (fun r => range_body r ++ [10]) (map range_of bs)).
Proof.
  induction bs as [|b t IH]; intros Hne Hwf; [reflexivity|].
  inversion Hne; inversion Hwf; subst.
  cbn [range_lines map flat_map]. rewrite (range_line_body b), IH by assumption. reflexivity.
Qed.

Lemma flat_map_ext_all {A B} (f g : A -> list B) l : (forall x, f x = g x) -> flat_map f l = flat_map g l.
Proof. intros H. induction l as [|x t IH]; [reflexivity|]. cbn [flat_map]. rewrite H, IH. reflexivity. Qed.

Lemma section_ranges bs : Forall (fun b => b <> []) bs -> Forall (Forall wf_entry) bs ->
  section (false, bs) = Ok (render_section (SRange (map range_of bs))).
Proof.
  intros Hne Hwf. destruct tbl_writer_literals as [_ [_ [_ [_ [E1 [_ [_ [_ [_ E2]]]]]]]]].
  unfold section. cbn [fst snd render_section]. rewrite (range_lines_body bs Hne Hwf). cbn [bind].
  rewrite E1, E2. f_equal.
  rewrite (flat_map_ext_all render_range (fun r => 10 :: range_body r) _ render_range_body).
  rewrite (nl_shift range_body (map range_of bs) (kw_endbfrange ++ [10])).
  rewrite <- !app_assoc. reflexivity.
Qed.

Definition wf_bgroup (g : bool * list (list entry)) : Prop :=
  Forall (fun b => b <> []) (snd g) /\ Forall (Forall wf_entry) (snd g).

Lemma section_text g : wf_bgroup g -> section g = Ok (render_section (section_of g)).
Proof.
  intros [Hne Hwf]. destruct g as [k bs]. cbn [snd] in *. unfold section_of. cbn [fst snd].
  destruct k; [apply section_chars; exact Hwf|apply section_ranges; assumption].
Qed.

Lemma sections_text gs : Forall wf_bgroup gs -> sections gs = Ok (render_cmap (text_of gs)).
Proof.
  induction 1 as [|g t Hg Ht IH]; [reflexivity|].
  cbn [sections text_of map render_cmap flat_map]. rewrite (section_text g Hg), IH. reflexivity.
Qed.

(* ------------------------------------------------------------------ *)
(** * the text is well formed *)

Lemma wf_range_of b : b <> [] -> Forall wf_entry b -> wf_range (range_of b).
Proof.
  intros Hne Hwf. destruct b as [|e0 t]; [congruence|].
  assert (H0 : wf_entry e0) by (inversion Hwf; assumption).
  assert (Hl : wf_entry (last (e0 :: t) e0)) by (apply Forall_last; assumption).
  unfold range_of, wf_range. split; [exact (proj1 H0)|]. split; [exact (proj1 Hl)|].
  apply Forall_map. eapply Forall_impl; [|exact Hwf]. intros e He. exact (proj2 He).
Qed.

Lemma wf_section_of g : wf_bgroup g -> wf_section (section_of g).
Proof.
  intros [Hne Hwf]. destruct g as [k bs]. cbn [snd] in *. unfold section_of. cbn [fst snd].
  destruct k; cbn [wf_section].
  - apply Forall_concat_intro. exact Hwf.
  - apply Forall_map. revert Hne Hwf. induction bs as [|b t IH]; intros Hne Hwf; [constructor|].
    inversion Hne; inversion Hwf; subst. constructor; [apply wf_range_of; assumption|apply IH; assumption].
Qed.

Lemma wf_text_of gs : Forall wf_bgroup gs -> wf_cmap (text_of gs).
Proof.
  induction 1 as [|g t Hg Ht IH]; [constructor|]. constructor; [apply wf_section_of; exact Hg|exact IH].
Qed.

(* ------------------------------------------------------------------ *)
(** * the text denotes the map: entries arrive in ascending order of code, so every insertion appends *)

Lemma map_insert_snoc k v m : Forall (fun e => fst e < k) m -> map_insert k v m = m ++ [(k, v)].
Proof.
  induction 1 as [|[k' v'] t Hk Ht IH]; [reflexivity|].
  cbn [fst] in Hk. cbn [map_insert app].
  replace (k <? k') with false by (symmetry; apply N.ltb_ge; lia).
  replace (k =? k') with false by (symmetry; apply N.eqb_neq; lia).
  rewrite IH. reflexivity.
Qed.

Lemma app_snoc {A} (a : list A) x b : a ++ x :: b = (a ++ [x]) ++ b.
Proof. rewrite <- app_assoc. reflexivity. Qed.

Lemma chars_denote es : forall acc, StronglySorted key_lt (acc ++ es) ->
  fold_left (fun m e => map_insert (fst e) (snd e) m) es acc = acc ++ es.
Proof.
  induction es as [|[k v] t IH]; intros acc Hs; [rewrite app_nil_r; reflexivity|].
  cbn [fold_left fst snd].
  rewrite (map_insert_snoc k v acc) by exact (sorted_app_lt _ _ _ Hs).
  rewrite app_snoc in Hs. etransitivity; [exact (IH _ Hs)|]. rewrite <- app_snoc. reflexivity.
Qed.

Lemma zip_insert_block b : forall k n acc, consec k b -> (length b <= n)%nat -> StronglySorted key_lt (acc ++ b) ->
  zip_insert k (map snd b) n acc = acc ++ b.
Proof.
  induction b as [|[k' v] t IH]; intros k n acc Hc Hn Hs.
  - rewrite app_nil_r. destruct n; reflexivity.
  - cbn [consec fst] in Hc. destruct Hc as [-> Hc].
    destruct n as [|n]; [cbn [length] in Hn; lia|]. cbn [length] in Hn.
    cbn [map snd zip_insert].
    rewrite (map_insert_snoc k v acc) by exact (sorted_app_lt _ _ _ Hs).
    rewrite app_snoc in Hs. etransitivity; [exact (IH (k + 1) n _ Hc ltac:(lia) Hs)|]. rewrite <- app_snoc. reflexivity.
Qed.

Lemma consec_last b : forall k d, consec k b -> b <> [] -> fst (last b d) + 1 = k + lenN b.
Proof.
  induction b as [|e t IH]; intros k d Hc Hne; [congruence|].
  cbn [consec] in Hc. destruct Hc as [E Hc].
  destruct t as [|e' t'].
  - cbn [last]. unfold lenN. cbn [length]. lia.
  - change (last (e :: e' :: t') d) with (last (e' :: t') d).
    rewrite (IH (k + 1) d Hc ltac:(discriminate)). unfold lenN. cbn [length]. lia.
Qed.

Lemma range_denote b acc : is_block b -> StronglySorted key_lt (acc ++ b) ->
  denote_range (range_of b) acc = acc ++ b.
Proof.
  intros Hb Hs. destruct b as [|e0 t]; [contradiction|]. cbn [is_block] in Hb.
  unfold range_of, denote_range.
  apply zip_insert_block; [exact Hb| |exact Hs].
  pose proof (consec_last (e0 :: t) (fst e0) e0 Hb ltac:(discriminate)) as E.
  replace (fst (last (e0 :: t) e0) + 1 - fst e0) with (lenN (e0 :: t)) by lia.
  unfold lenN. rewrite Nnat.Nat2N.id. lia.
Qed.

Lemma ranges_denote bs : forall acc, Forall is_block bs -> StronglySorted key_lt (acc ++ concat bs) ->
  fold_left (fun m r => denote_range r m) (map range_of bs) acc = acc ++ concat bs.
Proof.
  induction bs as [|b t IH]; intros acc Hb Hs; [cbn [concat]; rewrite app_nil_r; reflexivity|].
  inversion Hb as [|? ? Hb0 Hbt]; subst.
  cbn [concat] in *. cbn [map fold_left].
  rewrite app_assoc in Hs.
  rewrite (range_denote b acc Hb0 (sorted_app_l _ _ Hs)).
  rewrite (IH _ Hbt Hs), <- app_assoc. reflexivity.
Qed.

Lemma section_denote g acc : Forall is_block (snd g) -> StronglySorted key_lt (acc ++ concat (snd g)) ->
  denote_section (section_of g) acc = acc ++ concat (snd g).
Proof.
  intros Hb Hs. destruct g as [k bs]. cbn [snd] in *. unfold section_of. cbn [fst snd].
  destruct k; cbn [denote_section]; [apply chars_denote; exact Hs|apply ranges_denote; assumption].
Qed.

Lemma sections_denote gs : forall acc, Forall (fun g => Forall is_block (snd g)) gs ->
  StronglySorted key_lt (acc ++ concat (concat (map snd gs))) ->
  denote_sections (text_of gs) acc = acc ++ concat (concat (map snd gs)).
Proof.
  induction gs as [|g t IH]; intros acc Hb Hs; [cbn; rewrite app_nil_r; reflexivity|].
  inversion Hb as [|? ? Hb0 Hbt]; subst.
  cbn [map concat] in *. rewrite concat_app in *.
  unfold denote_sections, text_of. cbn [map fold_left].
  rewrite app_assoc in Hs.
  rewrite (section_denote g acc Hb0 (sorted_app_l _ _ Hs)).
  fold (text_of t). fold (denote_sections (text_of t) (acc ++ concat (snd g))).
  rewrite (IH _ Hbt Hs), <- app_assoc. reflexivity.
Qed.

(* ------------------------------------------------------------------ *)
(** * write_cmap *)

Lemma block_nonempty b : is_block b -> b <> [].
Proof. destruct b; [contradiction|discriminate]. Qed.

(** the writer never panics (no u16 overflow, no empty block), and its text is the rendering of a
    well-formed CMap text that denotes the map *)
Theorem write_cmap_text m : Forall wf_entry m -> StronglySorted key_lt m ->
  exists t, write_cmap m = Ok (render_cmap t) /\ wf_cmap t /\ cmap_denote t = m.
Proof.
  intros Hwf Hs.
  assert (Hk : Forall (fun e => fst e < 65536) m) by (eapply Forall_impl; [|exact Hwf]; intros e He; exact (proj1 He)).
  destruct (blocks_partition (length m) m (le_n _) Hk Hs) as [bs [Eb [Ec Hb]]].
  set (gs := group_blocks bs).
  assert (Eg : concat (map snd gs) = bs) by apply group_blocks_concat.
  assert (Hgb : Forall (fun g => Forall is_block (snd g)) gs).
  { assert (H : Forall (Forall is_block) (map snd gs)) by (apply Forall_concat_inv; rewrite Eg; exact Hb).
    exact (proj1 (Forall_map _ _ _) H). }
  assert (Hwfb : Forall (Forall wf_entry) bs) by (apply Forall_concat_inv; rewrite Ec; exact Hwf).
  assert (Hgw : Forall wf_bgroup gs).
  { assert (H : Forall (Forall (Forall wf_entry)) (map snd gs)) by (apply Forall_concat_inv; rewrite Eg; exact Hwfb).
    apply (proj1 (Forall_map _ _ _)) in H.
    apply Forall_forall. intros g Hin. rewrite Forall_forall in H, Hgb. split.
    - eapply Forall_impl; [|exact (Hgb g Hin)]. intros b. apply block_nonempty.
    - exact (H g Hin). }
  exists (text_of gs). split; [|split].
  - unfold write_cmap. rewrite Eb. cbn [bind]. apply sections_text. exact Hgw.
  - apply wf_text_of. exact Hgw.
  - unfold cmap_denote. rewrite (sections_denote gs [] Hgb); cbn [app]; rewrite Eg, Ec; [reflexivity|exact Hs].
Qed.

(** DESIGN §9 C19 [C19_cmap_rt]: reading what was written returns the map — for every map *)
Theorem cmap_rt m : Forall wf_entry m -> StronglySorted key_lt m ->
  exists t, write_cmap m = Ok t /\ parse_cmap t = Ok m.
Proof.
  intros Hwf Hs. destruct (write_cmap_text m Hwf Hs) as [t [Ew [Ht Ed]]].
  exists (render_cmap t). split; [exact Ew|]. rewrite (cmap_read t Ht), Ed. reflexivity.
Qed.

(** the writer alone: no panic on any map *)
Corollary write_cmap_no_panic m : Forall wf_entry m -> StronglySorted key_lt m -> exists t, write_cmap m = Ok t.
Proof. intros Hwf Hs. destruct (write_cmap_text m Hwf Hs) as [t [Ew _]]. eauto. Qed.

(** without the order of the codes the u16 addition does overflow: the sort in write_cmap is load-bearing *)
Example write_cmap_unsorted_panics : write_cmap [(65535, [65]); (0, [66])] = Panic 1905.
Proof. vm_compute. reflexivity. Qed.

(** the same statement with the domain spelled out (Properties/C19.v) *)
Theorem cmap_rt_full (m : cmap) : (forall e, In e m -> fst e < 65536 /\ wf_ustr (snd e)) ->
  StronglySorted (fun a b => fst a < fst b) m ->
  exists t, write_cmap m = Ok t /\ parse_cmap t = Ok m.
Proof. intros H Hs. apply cmap_rt; [apply Forall_forall; exact H|exact Hs]. Qed.

(* ------------------------------------------------------------------ *)
(** * every ToUnicodeMap is in the domain: the content of a map built by insertions is strictly sorted *)

Lemma map_insert_Forall (P : entry -> Prop) k v m : P (k, v) -> Forall P m -> Forall P (map_insert k v m).
Proof.
  intros Hk H. induction H as [|[k' v'] t Hx Ht IH]; [repeat constructor; exact Hk|].
  cbn [map_insert]. destruct (k <? k'); [repeat constructor; assumption|].
  destruct (k =? k'); constructor; assumption.
Qed.

Lemma map_insert_sorted k v m : StronglySorted key_lt m -> StronglySorted key_lt (map_insert k v m).
Proof.
  induction 1 as [|[k' v'] t Hs IH Hlt]; [repeat constructor|].
  cbn [map_insert]. destruct (N.ltb_spec k k') as [H1|H1].
  - constructor; [constructor; assumption|]. constructor; [exact H1|].
    eapply Forall_impl; [|exact Hlt]. unfold key_lt. cbn [fst]. intros e He. lia.
  - destruct (N.eqb_spec k k') as [H2|H2].
    + subst k'. constructor; assumption.
    + constructor; [exact IH|]. apply map_insert_Forall; [unfold key_lt; cbn [fst]; lia|exact Hlt].
Qed.

Lemma map_create_wf l : Forall wf_entry l -> Forall wf_entry (map_create l) /\ StronglySorted key_lt (map_create l).
Proof.
  unfold map_create. intros H.
  assert (G : forall acc, Forall wf_entry acc /\ StronglySorted key_lt acc ->
              Forall wf_entry (fold_left (fun m e => map_insert (fst e) (snd e) m) l acc) /\
              StronglySorted key_lt (fold_left (fun m e => map_insert (fst e) (snd e) m) l acc)).
  { induction H as [|[k v] t He Ht IH]; intros acc [Ha Hs]; [split; assumption|].
    cbn [fold_left fst snd]. apply IH. split; [apply map_insert_Forall; assumption|apply map_insert_sorted; exact Hs]. }
  apply G. split; constructor.
Qed.

(** font.rs: ToUnicodeMap::create then write_cmap then parse_cmap: the map comes back *)
Theorem cmap_rt_created l : Forall wf_entry l ->
  exists t, write_cmap (map_create l) = Ok t /\ parse_cmap t = Ok (map_create l).
Proof. intros H. destruct (map_create_wf l H) as [Hw Hs]. exact (cmap_rt _ Hw Hs). Qed.
