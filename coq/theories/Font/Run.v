(** Font/Run.v — harness entry points of the font models (one per mode).  Only decoding of the
    case fields and printing of results happens here. *)
From PdfV Require Import Base.Prelude Gen.Generated Font.Model.

Definition field (fs : list bytes) (i : nat) : bytes := nth i fs [].

Definition be_val (l : bytes) : N := fold_left (fun a b => a * 256 + b) l 0.
Definition be4 (n : N) : bytes := [n / 16777216; (n / 65536) mod 256; (n / 256) mod 256; n mod 256].
Definition be3 (n : N) : bytes := [n / 65536; (n / 256) mod 256; n mod 256].
Definition be2 (n : N) : bytes := [n / 256; n mod 256].

(* split into chunks of k bytes (an incomplete tail is dropped) *)
Fixpoint chunks (fuel : nat) (k : nat) (l : bytes) : list bytes :=
  match fuel with
  | O => []
  | S f => if Nat.ltb (length l) k then [] else firstn k l :: chunks f k (skipn k l)
  end.
Definition chunk (k : nat) (l : bytes) : list bytes := match k with O => [] | _ => chunks (length l) k l end.

(* record: tag sign mag4 bits4 *)
Definition wnum_of (r : bytes) : wnum :=
  match r with
  | tag :: sg :: rest =>
    let mag := be_val (firstn 4 rest) in
    let bits := be_val (skipn 4 rest) in
    if tag =? 105 then NInt (if sg =? 0 then Z.of_N mag else Z.opp (Z.of_N mag)) bits
    else if tag =? 114 then NReal bits
    else NOther
  | _ => NOther
  end.

Definition witem_of (f : bytes) : witem :=
  match f with
  | tag :: rest =>
    if tag =? 105 then match wnum_of f with NInt z b => IInt z b | _ => IOther end
    else if tag =? 114 then IReal (be_val rest)
    else if tag =? 97 then IArr (map wnum_of (chunk 10 rest))
    else if tag =? 82 then IRefArr (map wnum_of (chunk 10 rest))
    else if tag =? 81 then IRefBad
    else IOther
  | [] => IOther
  end.

Definition opt_field (f : bytes) : option bytes := match f with [] => None | _ => Some f end.

Definition print_widths (codes : list N) (r : res (option Widths)) : res (list bytes) :=
  match r with
  | Ok None => Ok [[78]]
  | Ok (Some w) => Ok [[83]; flat_map (fun c => be4 (get w c)) codes]
  | Err e => Err e
  | Panic p => Panic p
  | OutOfFuel => OutOfFuel
  end.

(* kind: "c" CID font, "s" simple font; fields: kind default codes first widths items… *)
Definition widths_of_kind (kind : bytes) (fs : list bytes) : res (option Widths) :=
  match kind with
  | k :: _ =>
    if k =? 99 then
      rmap Some (cid_widths (N_of_dec (field fs 1)) (map witem_of (skipn 5 fs)))
    else if k =? 115 then
      Ok (simple_widths
            (match field fs 3 with [] => None | f => Some (Z_of_dec f) end)
            (match field fs 4 with [] => None | _ :: ws => Some (map be_val (chunk 4 ws)) end)
            (match field fs 1 with [] => None | f => Some (N_of_dec f) end))
    else Ok None                                  (* FontData::Other, Type3, MMType1: `_ => Ok(None)` *)
  | [] => Ok None
  end.

Definition run_widths (fs : list bytes) : res (list bytes) :=
  let codes := map be_val (chunk 4 (field fs 2)) in
  print_widths codes
    (match field fs 0 with
     | k :: rest =>
         if k =? 84 then                           (* 'T': Type0 font; rest = kind of the first descendant, if any *)
           type0_widths (match rest with [] => [] | _ => [rest] end) (fun kd => widths_of_kind kd fs)
         else widths_of_kind (k :: rest) fs
     | [] => Ok None
     end).

(* entries: 2 bytes code + 3 bytes per scalar value *)
Definition entry_of (f : bytes) : entry := (be_val (firstn 2 f), map be_val (chunk 3 (skipn 2 f))).
Definition print_entry (e : entry) : bytes := be2 (fst e) ++ flat_map be3 (snd e).

Definition run_cmap_write (fs : list bytes) : res (list bytes) :=
  rmap (fun t => [t]) (write_cmap (map_create (map entry_of fs))).

Definition run_cmap_read (fs : list bytes) : res (list bytes) :=
  rmap (map print_entry) (parse_cmap (field fs 0)).

Definition run_cmap_rt (fs : list bytes) : res (list bytes) :=
  do t <- write_cmap (map_create (map entry_of fs));
  rmap (map print_entry) (parse_cmap t).

Definition run_utf16dec (fs : list bytes) : res (list bytes) :=
  rmap (fun u => [flat_map be3 u]) (utf16be_to_string (field fs 0)).
