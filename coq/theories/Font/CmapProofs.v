(** Font/CmapProofs.v — the CMap reader (font.rs: parse_cmap on the crate's lexer) reads every well-formed
    bfchar / bfrange text as the map the specification defines; the writer never panics and its
    output is such a text; hence write -> read is the identity. *)
From PdfV Require Import Base.Prelude Gen.Generated Font.Model Font.Spec Font.UtfProofs.

(* ------------------------------------------------------------------ *)
(** * generated tables (re-checked against the Rust source on every run) *)

Lemma tbl_keywords :
  font_kw_bfchar = kw_beginbfchar /\ font_kw_bfrange = kw_beginbfrange /\ font_kw_endcmap = [101;110;100;99;109;97;112].
Proof. vm_compute. repeat split. Qed.

(* every ISO 32000 white-space byte the spelling uses is white-space for the lexer; '<' '>' '[' ']' are delimiters *)
Lemma tbl_classes :
  is_ws 10 = true /\ is_ws 32 = true /\ is_delim 60 = true /\ is_delim 62 = true /\ is_delim 91 = true /\ is_delim 93 = true
  /\ forallb (fun b => negb (is_ws b) && negb (is_delim b))
       (kw_beginbfchar ++ kw_endbfchar ++ kw_beginbfrange ++ kw_endbfrange) = true.
Proof. vm_compute. repeat split. Qed.

Lemma forall_lt16 (P : N -> bool) : forallb P (seqN 0 16) = true -> forall d, d < 16 -> P d = true.
Proof.
  intros H d Hd. rewrite forallb_forall in H. apply H. apply seqN_In. cbn. lia.
Qed.

Definition hexdig_ok (d : N) : bool :=
  let c := hexdig d in
  negb (memN c font_hex_ws) && negb (c =? font_hex_end) && negb (c =? 60)
  && match hex_nibble c with Some v => v =? d | None => false end.

Lemma tbl_hexdig : forall d, d < 16 -> hexdig_ok d = true.
Proof. apply forall_lt16. vm_compute. reflexivity. Qed.

Lemma tbl_hex_combine : forall x, x < 256 ->
  N.lor (((x / 16) * 2 ^ font_hex_shift) mod 256) (x mod 16) = x.
Proof.
  intros x Hx.
  apply N.eqb_eq. revert x Hx.
  apply (forall_bytes (fun x => N.lor (((x / 16) * 2 ^ font_hex_shift) mod 256) (x mod 16) =? x)).
  vm_compute. reflexivity.
Qed.

(* ------------------------------------------------------------------ *)
(** * hex strings *)

Lemma hexdig_facts d : d < 16 ->
  memN (hexdig d) font_hex_ws = false /\ (hexdig d =? font_hex_end) = false /\ (hexdig d =? 60) = false
  /\ hex_nibble (hexdig d) = Some d.
Proof.
  intros Hd. pose proof (tbl_hexdig d Hd) as H. unfold hexdig_ok in H. cbv zeta in H.
  apply andb_true_iff in H. destruct H as [H H4].
  apply andb_true_iff in H. destruct H as [H H3].
  apply andb_true_iff in H. destruct H as [H1 H2].
  apply negb_true_iff in H1, H2, H3.
  repeat split; try assumption.
  destruct (hex_nibble (hexdig d)) as [v|]; [|discriminate]. apply N.eqb_eq in H4. congruence.
Qed.

Lemma nib_bounds x : x < 256 -> x / 16 < 16 /\ x mod 16 < 16.
Proof. intros H. split; [apply N.div_lt_upper_bound; lia|apply N.mod_lt; lia]. Qed.

(** the hex-string lexer inverts the two-digit spelling of every byte string *)
Lemma hexstr_hexU b : forall rest, wf_bytes b -> hexstr None (hexU b ++ 62 :: rest) = Ok (b, rest).
Proof.
  induction b as [|x t IH]; intros rest Hwf.
  - reflexivity.
  - apply wf_bytes_cons in Hwf. destruct Hwf as [Hx Ht].
    destruct (nib_bounds x Hx) as [Hh Hl].
    destruct (hexdig_facts _ Hh) as [A1 [A2 [_ A4]]].
    destruct (hexdig_facts _ Hl) as [B1 [B2 [_ B4]]].
    cbn [hexU flat_map app]. change (flat_map (fun x0 => [hexdig (x0 / 16); hexdig (x0 mod 16)]) t) with (hexU t).
    cbn [hexstr]. rewrite A1, A2, A4. cbn [hexstr]. rewrite B1, B2, B4.
    rewrite (IH rest Ht). cbn [bind fst snd]. rewrite tbl_hex_combine by exact Hx. reflexivity.
Qed.

Lemma hexU_head b rest : wf_bytes b -> exists h s, hexU b ++ 62 :: rest = h :: s /\ (h =? 60) = false.
Proof.
  intros Hwf. destruct b as [|x t].
  - exists 62, rest. split; reflexivity.
  - apply wf_bytes_cons in Hwf. destruct Hwf as [Hx _]. destruct (nib_bounds x Hx) as [Hh _].
    destruct (hexdig_facts _ Hh) as [_ [_ [A3 _]]].
    eexists _, _. split; [cbn [hexU flat_map app]; reflexivity|exact A3].
Qed.

(* ------------------------------------------------------------------ *)
(** * tokens *)

Lemma next_word_lt0 b rest : wf_bytes b ->
  next_word (60 :: hexU b ++ 62 :: rest) = Ok ([60], hexU b ++ 62 :: rest).
Proof.
  intros Hwf. destruct (hexU_head b rest Hwf) as [h [s [E Hh]]]. rewrite E.
  unfold next_word. cbn [skip_wc].
  change (is_ws 60) with false. change (60 =? font_comment_start) with false. cbv iota.
  change (is_delim 60) with true. change (60 =? font_name_start) with false. cbv iota.
  change (memN 60 font_double_delims) with true. cbn [andb]. rewrite Hh. reflexivity.
Qed.

Lemma next_word_lt w b rest : is_ws w = true -> wf_bytes b ->
  next_word (w :: 60 :: hexU b ++ 62 :: rest) = Ok ([60], hexU b ++ 62 :: rest).
Proof.
  intros Hw Hwf. rewrite <- (next_word_lt0 b rest Hwf). unfold next_word. cbn [skip_wc]. rewrite Hw. reflexivity.
Qed.

(** parse_with_lexer(STRING) / (STRING | ARRAY) on a hex string preceded by one white-space byte *)
Lemma parse_prim_hstr aa fu w b rest : is_ws w = true -> wf_bytes b ->
  parse_prim aa fu (w :: hstr b ++ rest) = Ok (CStr b, rest).
Proof.
  intros Hw Hwf. unfold parse_prim, hstr. cbn [app]. rewrite <- app_assoc. cbn [app].
  rewrite (next_word_lt w b rest Hw Hwf). cbn [bind fst snd].
  change (bytes_eqb [60] [font_hexstr_open]) with true. cbv iota.
  rewrite (hexstr_hexU b rest Hwf). reflexivity.
Qed.

(** the items of an array, each preceded by a space, up to the closing bracket *)
Lemma parse_array_items bs : forall f rest, Forall wf_bytes bs -> (length bs < f)%nat ->
  parse_array f (flat_map (fun x => 32 :: hstr x) bs ++ 93 :: rest) = Ok (bs, rest).
Proof.
  induction bs as [|b t IH]; intros f rest Hwf Hf.
  - destruct f as [|f]; [cbn [length] in Hf; lia|]. cbn [flat_map app parse_array].
    unfold next_word. cbn [skip_wc].
    change (is_ws 93) with false. change (93 =? font_comment_start) with false. cbv iota.
    change (is_delim 93) with true. change (93 =? font_name_start) with false. cbv iota.
    destruct rest as [|r0 rest]; reflexivity.
  - destruct f as [|f]; [cbn [length] in Hf; lia|]. cbn [length] in Hf.
    inversion Hwf as [|? ? Hb Ht]; subst.
    cbn [flat_map parse_array]. unfold hstr at 1. cbn [app]. rewrite <- !app_assoc. cbn [app].
    rewrite (next_word_lt 32 b _ eq_refl Hb). cbn [bind fst snd].
    change (bytes_eqb [60] [font_array_close]) with false.
    change (bytes_eqb [60] [font_hexstr_open]) with true. cbv iota.
    rewrite (hexstr_hexU b _ Hb). cbn [bind fst snd].
    rewrite (IH f rest Ht) by lia. reflexivity.
Qed.

Lemma parse_array_render bs f rest : Forall wf_bytes bs -> (length bs < f)%nat ->
  parse_array f (render_items bs ++ 93 :: rest) = Ok (bs, rest).
Proof.
  intros Hwf Hf. destruct bs as [|b t].
  - apply (parse_array_items [] f rest Hwf Hf).
  - destruct f as [|f]; [cbn [length] in Hf; lia|]. cbn [length] in Hf.
    inversion Hwf as [|? ? Hb Ht]; subst.
    cbn [render_items parse_array]. unfold hstr at 1. cbn [app]. rewrite <- !app_assoc. cbn [app].
    rewrite (next_word_lt0 b _ Hb). cbn [bind fst snd].
    change (bytes_eqb [60] [font_array_close]) with false.
    change (bytes_eqb [60] [font_hexstr_open]) with true. cbv iota.
    rewrite (hexstr_hexU b _ Hb). cbn [bind fst snd].
    rewrite (parse_array_items t f rest Ht) by lia. reflexivity.
Qed.

Lemma parse_prim_array fu bs rest : Forall wf_bytes bs -> (length bs < fu)%nat ->
  parse_prim true fu (32 :: 91 :: render_items bs ++ 93 :: rest) = Ok (CArr bs, rest).
Proof.
  intros Hwf Hf. unfold parse_prim.
  assert (E : next_word (32 :: 91 :: render_items bs ++ 93 :: rest) = Ok ([91], render_items bs ++ 93 :: rest)).
  { unfold next_word. cbn [skip_wc]. change (is_ws 32) with true. cbv iota. cbn [skip_wc].
    change (is_ws 91) with false. change (91 =? font_comment_start) with false. cbv iota.
    change (is_delim 91) with true. change (91 =? font_name_start) with false. cbv iota.
    destruct (render_items bs ++ 93 :: rest); reflexivity. }
  rewrite E. cbn [bind fst snd].
  change (bytes_eqb [91] [font_hexstr_open]) with false.
  change (bytes_eqb [91] [font_litstr_open]) with false.
  change (bytes_eqb [91] [font_array_open]) with true. cbv iota.
  rewrite (parse_array_render bs fu rest Hwf Hf). reflexivity.
Qed.

(* ------------------------------------------------------------------ *)
(** * bridging the specification's strings and the reader's byte strings *)

Lemma wf_cid_bytes c : c < 65536 -> wf_bytes (cid_bytes c).
Proof.
  intros H. unfold cid_bytes. apply wf_bytes_cons. split; [apply N.div_lt_upper_bound; lia|].
  apply wf_bytes_cons. split; [apply N.mod_lt; lia|constructor].
Qed.

Lemma parse_cid_bytes c : parse_cid (cid_bytes c) = Ok c.
Proof. unfold cid_bytes, parse_cid. f_equal. pose proof (N.div_mod c 256). lia. Qed.

Lemma wf_be_units us : Forall (fun x => x < 65536) us -> wf_bytes (flat_map (fun x => [x / 256; x mod 256]) us).
Proof.
  induction 1 as [|x t Hx Ht IH]; [constructor|].
  cbn [flat_map app]. apply wf_bytes_cons. split; [apply N.div_lt_upper_bound; lia|].
  apply wf_bytes_cons. split; [apply N.mod_lt; lia|exact IH].
Qed.

Lemma wf_utf16be_bytes u : wf_ustr u -> wf_bytes (utf16be_bytes u).
Proof. intros H. apply wf_be_units. apply all_units_u16. exact H. Qed.

Lemma insert_decoded_utf c u m : wf_ustr u -> insert_decoded c (utf16be_bytes u) m = map_insert c u m.
Proof. intros H. unfold insert_decoded. rewrite (utf16_rt u H). reflexivity. Qed.

Lemma range_arr_zip n : forall c us m, Forall wf_ustr us ->
  range_arr n c (map utf16be_bytes us) m = zip_insert c us n m.
Proof.
  induction n as [|n IH]; intros c us m Hwf; [destruct us; reflexivity|].
  destruct us as [|u t]; [reflexivity|]. inversion Hwf as [|? ? Hu Ht]; subst.
  cbn [map range_arr zip_insert]. rewrite (insert_decoded_utf c u m Hu). apply IH. exact Ht.
Qed.

(* ------------------------------------------------------------------ *)
(** * the loops of parse_cmap, one step at a time *)

Lemma tbl_kw_eqb :
  bytes_eqb kw_beginbfchar font_kw_bfchar = true /\
  bytes_eqb kw_beginbfrange font_kw_bfchar = false /\ bytes_eqb kw_beginbfrange font_kw_bfrange = true.
Proof. vm_compute. repeat split. Qed.

Lemma outer_skip_nl f s m : cmap_loop f MOuter (10 :: s) m = cmap_loop f MOuter s m.
Proof.
  destruct f as [|f]; [reflexivity|]. cbn [cmap_loop].
  replace (next_word (10 :: s)) with (next_word s); [reflexivity|].
  unfold next_word. cbn [skip_wc]. change (is_ws 10) with true. reflexivity.
Qed.

Lemma next_word_kw kw rest : forallb is_reg kw = true -> kw <> [] ->
  next_word (kw ++ 10 :: rest) = Ok (kw, 10 :: rest).
Proof.
  intros Hreg Hne.
  assert (Hspan : forall k, forallb is_reg k = true -> span_reg (k ++ 10 :: rest) = (k, 10 :: rest)).
  { induction k as [|x t IH]; intros Hk.
    - cbn [app span_reg]. change (is_reg 10) with false. reflexivity.
    - cbn [forallb] in Hk. apply andb_true_iff in Hk. destruct Hk as [Hx Ht].
      cbn [app span_reg]. rewrite Hx, (IH Ht). reflexivity. }
  destruct kw as [|k0 kt]; [congruence|].
  pose proof Hreg as Hreg'. cbn [forallb] in Hreg'. apply andb_true_iff in Hreg'. destruct Hreg' as [H0 _].
  unfold is_reg in H0. apply andb_true_iff in H0. destruct H0 as [Hws Hdl].
  apply negb_true_iff in Hws, Hdl.
  assert (Hpc : (k0 =? font_comment_start) = false).
  { destruct (N.eqb_spec k0 font_comment_start) as [->|]; [|reflexivity]. vm_compute in Hdl. discriminate. }
  unfold next_word. cbn [app skip_wc]. rewrite Hws, Hpc, Hdl.
  change (k0 :: kt ++ 10 :: rest) with ((k0 :: kt) ++ 10 :: rest). rewrite (Hspan _ Hreg). reflexivity.
Qed.

Lemma outer_beginbfchar f rest m :
  cmap_loop (S f) MOuter (kw_beginbfchar ++ 10 :: rest) m = cmap_loop f MChar (10 :: rest) m.
Proof.
  cbn [cmap_loop]. rewrite next_word_kw; [|vm_compute; reflexivity|discriminate].
  destruct tbl_kw_eqb as [E _]. rewrite E. reflexivity.
Qed.

Lemma outer_beginbfrange f rest m :
  cmap_loop (S f) MOuter (kw_beginbfrange ++ 10 :: rest) m = cmap_loop f MRange (10 :: rest) m.
Proof.
  cbn [cmap_loop]. rewrite next_word_kw; [|vm_compute; reflexivity|discriminate].
  destruct tbl_kw_eqb as [_ [E1 E2]]. rewrite E1, E2. reflexivity.
Qed.

Lemma outer_other f kw rest m : forallb is_reg kw = true -> kw <> [] ->
  bytes_eqb kw font_kw_bfchar = false -> bytes_eqb kw font_kw_bfrange = false -> bytes_eqb kw font_kw_endcmap = false ->
  cmap_loop (S f) MOuter (kw ++ 10 :: rest) m = cmap_loop f MOuter (10 :: rest) m.
Proof.
  intros H1 H2 E1 E2 E3. cbn [cmap_loop]. rewrite next_word_kw by assumption. rewrite E1, E2, E3. reflexivity.
Qed.

(* leaving an inner loop: the next token is a keyword, not a string *)
Lemma parse_prim_kw aa fu kw rest : forallb is_reg kw = true -> kw <> [] ->
  bytes_eqb kw [font_hexstr_open] = false -> bytes_eqb kw [font_litstr_open] = false -> bytes_eqb kw [font_array_open] = false ->
  parse_prim aa fu (10 :: kw ++ 10 :: rest) = Err 4.
Proof.
  intros H1 H2 E1 E2 E3. unfold parse_prim.
  replace (next_word (10 :: kw ++ 10 :: rest)) with (next_word (kw ++ 10 :: rest)).
  2: { unfold next_word. cbn [skip_wc]. change (is_ws 10) with true. reflexivity. }
  rewrite next_word_kw by assumption. cbn [bind fst snd]. rewrite E1, E2, E3. reflexivity.
Qed.

Lemma char_break f s m : parse_prim false f s = Err 4 -> cmap_loop (S f) MChar s m = cmap_loop f MOuter s m.
Proof. intros E. cbn [cmap_loop]. rewrite E. reflexivity. Qed.
Lemma range_break f s m : parse_prim false f s = Err 4 -> cmap_loop (S f) MRange s m = cmap_loop f MOuter s m.
Proof. intros E. cbn [cmap_loop]. rewrite E. reflexivity. Qed.

Lemma char_exit f rest m :
  cmap_loop (S (S f)) MChar (10 :: kw_endbfchar ++ 10 :: rest) m = cmap_loop f MOuter (10 :: rest) m.
Proof.
  rewrite (char_break (S f)).
  2: { apply parse_prim_kw; try (vm_compute; reflexivity). discriminate. }
  rewrite (outer_skip_nl (S f)). apply outer_other; try (vm_compute; reflexivity). discriminate.
Qed.

Lemma range_exit f rest m :
  cmap_loop (S (S f)) MRange (10 :: kw_endbfrange ++ 10 :: rest) m = cmap_loop f MOuter (10 :: rest) m.
Proof.
  rewrite (range_break (S f)).
  2: { apply parse_prim_kw; try (vm_compute; reflexivity). discriminate. }
  rewrite (outer_skip_nl (S f)). apply outer_other; try (vm_compute; reflexivity). discriminate.
Qed.

Lemma char_step f e rest m : wf_char e ->
  cmap_loop (S f) MChar (render_char e ++ rest) m = cmap_loop f MChar rest (map_insert (fst e) (snd e) m).
Proof.
  intros [Hc Hu]. unfold render_char. cbn [app]. rewrite <- app_assoc. cbn [app cmap_loop].
  rewrite (parse_prim_hstr false f 10 (cid_bytes (fst e)) _ eq_refl (wf_cid_bytes _ Hc)). cbv beta iota.
  rewrite (parse_prim_hstr false f 32 (utf16be_bytes (snd e)) rest eq_refl (wf_utf16be_bytes _ Hu)). cbv beta iota.
  rewrite parse_cid_bytes. cbn [bind]. rewrite (insert_decoded_utf _ _ _ Hu). reflexivity.
Qed.

Lemma range_step f lo hi us rest m : wf_range (lo, hi, us) -> (length us < f)%nat ->
  cmap_loop (S f) MRange (render_range (lo, hi, us) ++ rest) m = cmap_loop f MRange rest (denote_range (lo, hi, us) m).
Proof.
  intros [Hlo [Hhi Hus]] Hf. unfold render_range. cbn [app]. repeat rewrite <- app_assoc. cbn [app].
  rewrite <- app_assoc. cbn [app cmap_loop].
  assert (Hbs : Forall wf_bytes (map utf16be_bytes us)).
  { apply Forall_map. eapply Forall_impl; [|exact Hus]. intros u Hu. apply wf_utf16be_bytes. exact Hu. }
  rewrite (parse_prim_hstr false f 10 (cid_bytes lo) _ eq_refl (wf_cid_bytes _ Hlo)). cbv beta iota zeta.
  rewrite (parse_prim_hstr false f 32 (cid_bytes hi) _ eq_refl (wf_cid_bytes _ Hhi)). cbv beta iota zeta.
  replace ((render_items (map utf16be_bytes us) ++ [93]) ++ rest)
    with (render_items (map utf16be_bytes us) ++ 93 :: rest) by (rewrite <- app_assoc; reflexivity).
  rewrite (parse_prim_array f (map utf16be_bytes us) rest Hbs) by (rewrite map_length; exact Hf). cbv beta iota zeta.
  rewrite !parse_cid_bytes. cbn [bind]. unfold denote_range, range_count.
  rewrite (range_arr_zip _ _ _ _ Hus). reflexivity.
Qed.

(* ------------------------------------------------------------------ *)
(** * sections *)

Definition ins_char (m : cmap) (e : N * ustr) : cmap := map_insert (fst e) (snd e) m.

Lemma chars_loop es : forall f rest m, Forall wf_char es ->
  cmap_loop (length es + f) MChar (flat_map render_char es ++ rest) m
  = cmap_loop f MChar rest (fold_left ins_char es m).
Proof.
  induction es as [|e t IH]; intros f rest m Hwf; [reflexivity|].
  inversion Hwf as [|? ? He Ht]; subst.
  cbn [length flat_map fold_left plus]. rewrite <- app_assoc.
  rewrite (char_step _ e _ m He). apply IH. exact Ht.
Qed.

Definition arr_sum (rs : list rentry) : nat := fold_right (fun r a => (length (snd r) + a)%nat) O rs.

Lemma ranges_loop rs : forall f rest m, Forall wf_range rs -> (arr_sum rs < f)%nat ->
  cmap_loop (length rs + f) MRange (flat_map render_range rs ++ rest) m
  = cmap_loop f MRange rest (fold_left (fun m r => denote_range r m) rs m).
Proof.
  induction rs as [|r t IH]; intros f rest m Hwf Hf; [reflexivity|].
  inversion Hwf as [|? ? Hr Ht]; subst. destruct r as [[lo hi] us].
  cbn [arr_sum fold_right snd] in Hf. fold (arr_sum t) in Hf.
  cbn [length flat_map fold_left plus]. rewrite <- app_assoc.
  rewrite (range_step _ lo hi us _ m Hr) by lia. apply IH; [exact Ht|lia].
Qed.

Definition cost_section (s : csection) : nat :=
  match s with SChar es => 3 + length es | SRange rs => 3 + length rs end.
Definition arr_section (s : csection) : nat :=
  match s with SChar _ => O | SRange rs => arr_sum rs end.

Lemma chars_head es X : exists T, flat_map render_char es ++ 10 :: X = 10 :: T.
Proof. destruct es; cbn [flat_map app]; [eauto|]. unfold render_char at 1. cbn [app]. eauto. Qed.

Lemma ranges_head rs X : exists T, flat_map render_range rs ++ 10 :: X = 10 :: T.
Proof. destruct rs as [|[[lo hi] us] t]; cbn [flat_map app]; [eauto|]. unfold render_range at 1. cbn [app]. eauto. Qed.

Lemma section_loop s f rest m : wf_section s -> (arr_section s < f)%nat ->
  cmap_loop (cost_section s + f) MOuter (render_section s ++ rest) m
  = cmap_loop f MOuter rest (denote_section s m).
Proof.
  intros Hwf Hf. destruct s as [es|rs]; cbn [cost_section render_section denote_section arr_section wf_section] in *.
  - assert (ET0 : (kw_beginbfchar ++ flat_map render_char es ++ 10 :: kw_endbfchar ++ [10]) ++ rest
                  = kw_beginbfchar ++ (flat_map render_char es ++ 10 :: kw_endbfchar ++ 10 :: rest)).
    { rewrite <- !app_assoc. cbn [app]. rewrite <- app_assoc. reflexivity. }
    rewrite ET0. clear ET0.
    destruct (chars_head es (kw_endbfchar ++ 10 :: rest)) as [T ET].
    replace (3 + length es + f)%nat with (S (length es + (S (S f)))) by lia.
    rewrite ET, outer_beginbfchar, <- ET.
    rewrite (chars_loop es _ _ m Hwf). rewrite char_exit. apply outer_skip_nl.
  - assert (ET0 : (kw_beginbfrange ++ flat_map render_range rs ++ 10 :: kw_endbfrange ++ [10]) ++ rest
                  = kw_beginbfrange ++ (flat_map render_range rs ++ 10 :: kw_endbfrange ++ 10 :: rest)).
    { rewrite <- !app_assoc. cbn [app]. rewrite <- app_assoc. reflexivity. }
    rewrite ET0. clear ET0.
    destruct (ranges_head rs (kw_endbfrange ++ 10 :: rest)) as [T ET].
    replace (3 + length rs + f)%nat with (S (length rs + (S (S f)))) by lia.
    rewrite ET, outer_beginbfrange, <- ET.
    rewrite (ranges_loop rs _ _ m Hwf) by lia. rewrite range_exit. apply outer_skip_nl.
Qed.

Definition cost_text (t : cmap_text) : nat := fold_right (fun s a => (cost_section s + a)%nat) O t.
Definition arr_text (t : cmap_text) : nat := fold_right (fun s a => (arr_section s + a)%nat) O t.

Lemma sections_loop t : forall f rest m, wf_cmap t -> (arr_text t < f)%nat ->
  cmap_loop (cost_text t + f) MOuter (render_cmap t ++ rest) m
  = cmap_loop f MOuter rest (denote_sections t m).
Proof.
  induction t as [|s t IH]; intros f rest m Hwf Hf; [reflexivity|].
  inversion Hwf as [|? ? Hs Ht]; subst.
  cbn [arr_text fold_right] in Hf. fold (arr_text t) in Hf.
  cbn [cost_text fold_right render_cmap flat_map denote_sections fold_left].
  fold (cost_text t). fold (render_cmap t). rewrite <- app_assoc.
  replace (cost_section s + cost_text t + f)%nat with (cost_section s + (cost_text t + f))%nat by lia.
  rewrite (section_loop s _ _ m Hs) by lia.
  apply IH; [exact Ht|lia].
Qed.

(** the reader on any sufficient amount of fuel *)
Lemma cmap_loop_render t f : wf_cmap t -> (cost_text t + arr_text t + 1 < f)%nat ->
  cmap_loop f MOuter (render_cmap t) [] = Ok (cmap_denote t).
Proof.
  intros Hwf Hf.
  replace f with (cost_text t + (f - cost_text t))%nat by lia.
  rewrite <- (app_nil_r (render_cmap t)).
  rewrite (sections_loop t _ [] [] Hwf) by lia.
  destruct (f - cost_text t)%nat as [|k] eqn:E; [lia|]. reflexivity.
Qed.

(* ------------------------------------------------------------------ *)
(** * parse_cmap's own fuel (2·len + 2) is always enough for a rendered text *)

Lemma flat_map_weight {A} (f : A -> bytes) (g : A -> nat) l :
  (forall x, (g x <= length (f x))%nat) ->
  (fold_right (fun x a => (g x + a)%nat) O l <= length (flat_map f l))%nat.
Proof.
  intros H. induction l as [|x t IH]; cbn [fold_right flat_map length]; [lia|].
  rewrite app_length. specialize (H x). lia.
Qed.

Lemma flat_map_len_ge {A} (f : A -> bytes) l :
  (forall x, (1 <= length (f x))%nat) -> (length l <= length (flat_map f l))%nat.
Proof.
  intros H. induction l as [|x t IH]; cbn [flat_map length]; [lia|].
  rewrite app_length. specialize (H x). lia.
Qed.

Lemma hstr_len b : (2 <= length (hstr b))%nat.
Proof. unfold hstr. cbn [length]. rewrite app_length. cbn [length]. lia. Qed.

Lemma items_len bs : (length bs <= length (render_items bs))%nat.
Proof.
  destruct bs as [|b t]; [cbn; lia|]. cbn [render_items length]. rewrite app_length.
  pose proof (hstr_len b).
  pose proof (flat_map_len_ge (fun x => 32 :: hstr x) t (fun x => ltac:(cbn [length]; lia))). lia.
Qed.

Lemma render_range_len r : (1 + length (snd r) <= length (render_range r))%nat.
Proof.
  destruct r as [[lo hi] us]. cbn [snd render_range length]. rewrite !app_length. cbn [length]. rewrite !app_length.
  pose proof (items_len (map utf16be_bytes us)) as H. rewrite map_length in H. cbn [length]. rewrite !app_length. cbn [length]. lia.
Qed.

Lemma section_weight s : (cost_section s + arr_section s <= length (render_section s))%nat.
Proof.
  destruct s as [es|rs]; cbn [cost_section arr_section render_section].
  - repeat (rewrite app_length; cbn [length]).
    change (length kw_beginbfchar) with 11%nat. change (length kw_endbfchar) with 9%nat.
    pose proof (flat_map_len_ge render_char es (fun x => ltac:(cbn [render_char length]; lia))). lia.
  - repeat (rewrite app_length; cbn [length]).
    change (length kw_beginbfrange) with 12%nat. change (length kw_endbfrange) with 10%nat.
    pose proof (flat_map_weight render_range (fun r => (1 + length (snd r))%nat) rs render_range_len) as H1.
    assert (E : fold_right (fun (r : rentry) a => (1 + length (snd r) + a)%nat) O rs = (length rs + arr_sum rs)%nat).
    { clear. induction rs as [|r t IH]; cbn [fold_right length arr_sum]; [reflexivity|]. fold (arr_sum t). lia. }
    cbv beta in H1. rewrite E in H1. lia.
Qed.

Lemma text_weight t : (cost_text t + arr_text t <= length (render_cmap t))%nat.
Proof.
  induction t as [|s t IH]; [cbn; lia|].
  cbn [cost_text arr_text fold_right render_cmap flat_map]. fold (cost_text t). fold (arr_text t). fold (render_cmap t).
  rewrite app_length. pose proof (section_weight s). lia.
Qed.

(** DESIGN §9 C19 [C19_cmap_read]: every well-formed bfchar / bfrange text reads as the map it denotes *)
Theorem cmap_read t : wf_cmap t -> parse_cmap (render_cmap t) = Ok (cmap_denote t).
Proof.
  intros Hwf. unfold parse_cmap. apply cmap_loop_render; [exact Hwf|].
  pose proof (text_weight t). lia.
Qed.

(* ------------------------------------------------------------------ *)
(** * writer -> reader on concrete maps, and the repaired defect *)

(** write_cmap -> parse_cmap on concrete maps (singles, runs, supplementary planes, empty strings, top of the
    code space); the universal statement is validated by correspondence (mode cmap_rt) — see DESIGN §12.C19 *)
Example cmap_rt_example :
  let m := [(0, [65]); (1, [66; 128512]); (2, []); (7, [1114111]); (9, [97]); (10, [98]); (300, [55295]);
            (65534, [57344]); (65535, [65535])] in
  exists t, write_cmap m = Ok t /\ parse_cmap t = Ok m.
Proof. eexists. split; vm_compute; reflexivity. Qed.

(** the string form of bfrange: <lo> <hi> <dst>, last byte of dst incremented per code *)
Example cmap_range_string_example :
  (* beginbfrange <0010> <0012> <D834DD1E> <41> <43> <0061> endbfrange *)
  parse_cmap ([98;101;103;105;110;98;102;114;97;110;103;101;10;
               60;48;48;49;48;62;32;60;48;48;49;50;62;32;60;68;56;51;52;68;68;49;69;62;10;
               60;52;49;62;32;60;52;51;62;32;60;48;48;54;49;62;10;
               101;110;100;98;102;114;97;110;103;101;10])
  = Ok [(16, [119070]); (17, [119071]); (18, [119072]); (65, [97]); (66, [98]); (67, [99])].
Proof. vm_compute. reflexivity. Qed.

(** the defect that was repaired (C19-a): with ", " between array items the reader loses the block *)
Example cmap_comma_refuted :
  parse_cmap ([98;101;103;105;110;98;102;114;97;110;103;101;10;
               60;48;48;48;49;62;32;60;48;48;48;50;62;32;91;60;48;48;52;49;62;44;32;60;48;48;52;50;62;93;10;
               101;110;100;98;102;114;97;110;103;101;10])
  <> Ok [(1, [65]); (2, [66])].
Proof. vm_compute. discriminate. Qed.
