(** XRef/AtExample.v — non-vacuity of C02_resolve_latest: a concrete one-revision classic-table file
    ("%PDF-1.4", object 1 = 5, a table with a free and an in-use row, trailer <</Size 2>>, startxref 26)
    satisfies every premise of the theorem, and the functions compute the result the theorem states. *)
From PdfV Require Import Base.Prelude Gen.Generated XRef.Model XRef.Spec XRef.TableProofs XRef.At XRef.AtProofs XRef.HeaderProofs XRef.FrontProofs XRef.MergeProofs.
From PdfV Require Import Base.DecProofs Lex.LexProofs Syn.Prim Syn.Parser Syn.Spells Syn.ParserProofs Syn.RenderProofs Syn.SerProofs.


Definition ex1_file : bytes := [37; 80; 68; 70; 45; 49; 46; 52; 10; 49; 32; 48; 32; 111; 98; 106; 10; 53; 10; 101; 110; 100; 111; 98; 106; 10; 120; 114; 101; 102; 10; 48; 32; 50; 10; 48; 48; 48; 48; 48; 48; 48; 48; 48; 48; 32; 54; 53; 53; 51; 53; 32; 102; 32; 10; 48; 48; 48; 48; 48; 48; 48; 48; 48; 57; 32; 48; 48; 48; 48; 48; 32; 110; 32; 10; 116; 114; 97; 105; 108; 101; 114; 10; 60; 60; 47; 83; 105; 122; 101; 32; 50; 62; 62; 10; 115; 116; 97; 114; 116; 120; 114; 101; 102; 10; 50; 54; 10; 37; 37; 69; 79; 70; 10].
Definition ex1_text : bytes := [10; 60; 60; 47; 83; 105; 122; 101; 32; 50; 62; 62; 10; 115; 116; 97; 114; 116; 120; 114; 101; 102; 10; 50; 54; 10; 37; 37; 69; 79; 70; 10].
Definition ex1_tail : bytes := [10; 115; 116; 97; 114; 116; 120; 114; 101; 102; 10; 50; 54; 10; 37; 37; 69; 79; 70; 10].
Definition ex1_layout : layout :=
  {| l_first := [10]; l_subs := [ {| l_pre := []; l_mid := [32]; l_heol := [10]; l_eols := [SpLf; SpLf] |} ]; l_end := [] |}.
Definition ex1_secs : list section := [ {| first_id := 0; entries := [XFree 0 65535; XRaw 9 0] |} ].
Definition ex1_dict : dict := [([83; 105; 122; 101], PInt 2)].
Definition ex1_update : update := fun n => if n =? 0 then Some (Freed 65535 0) else if n =? 1 then Some (Direct 0 9) else None.
Definition ex1_h : history := [ex1_update].
Definition ex1_its : list item := [IWord kw_dict_open; IWord [47; 83; 105; 122; 101]; IWord [50]; IWord kw_dict_close].

Lemma ex1_section : section_at ex1_file 26 ex1_secs ex1_dict.
Proof.
  exists ex1_layout, ex1_its, ex1_text, ex1_tail. split; [vm_compute; reflexivity|]. split; [|split; [|split; [|split]]].
  - unfold layout_ok, ex1_layout, ex1_secs, sub_ok, gap, iso_white, row_fits. cbn [l_first l_end l_subs l_pre l_mid l_heol l_eols entries first_id].
    repeat match goal with
           | |- _ /\ _ => split
           | |- Forall2 _ _ _ => constructor
           | |- Forall _ _ => constructor
           | |- _ <> _ => discriminate
           | |- In _ _ => cbn [In]; tauto
           | |- _ < _ => reflexivity
           | |- _ = _ => reflexivity
           end.
  - unfold ex1_dict, ex1_its.
    apply (sp_dict [([83; 105; 122; 101], PInt 2)] [IWord [47; 83; 105; 122; 101]; IWord [50]]).
    + repeat constructor. intros [].
    + apply (sd_cons [83; 105; 122; 101] [47; 83; 105; 122; 101] (PInt 2) [] [IWord [50]] []).
      * exists [83; 105; 122; 101]. split; [reflexivity|vm_compute; reflexivity].
      * apply sp_int. split; vm_compute; reflexivity.
      * constructor.
  - vm_compute. discriminate.
  - unfold ex1_its, ex1_text.
    apply (rn_delim2 [10] LT _ _ ex1_tail); [repeat constructor|left; reflexivity|].
    apply (rn_name [] [83; 105; 122; 101] _ ([32; 50; 62; 62] ++ ex1_tail) ex1_tail); [constructor|repeat constructor|reflexivity|].
    apply (rn_reg [32] [50] _ ([62; 62] ++ ex1_tail) ex1_tail); [repeat constructor|discriminate|repeat constructor|reflexivity|].
    apply (rn_delim2 [] GT _ ex1_tail ex1_tail); [constructor|right; reflexivity|constructor].
  - unfold ex1_tail.
    apply (tail_ok_word [10] xr_startxref_kw [10; 50; 54; 10; 37; 37; 69; 79; 70; 10]); [repeat constructor|discriminate|repeat constructor|reflexivity|reflexivity|reflexivity].
Qed.

Lemma ex1_object : object_at ex1_file 9 1 0 (PInt 5).
Proof.
  exists [], [32], [32], [IWord [53]], [10; 53; 10; 101; 110; 100; 111; 98; 106; 10; 120; 114; 101; 102; 10; 48; 32; 50; 10; 48; 48; 48; 48; 48; 48; 48; 48; 48; 48; 32; 54; 53; 53; 51; 53; 32; 102; 32; 10; 48; 48; 48; 48; 48; 48; 48; 48; 48; 57; 32; 48; 48; 48; 48; 48; 32; 110; 32; 10; 116; 114; 97; 105; 108; 101; 114; 10; 60; 60; 47; 83; 105; 122; 101; 32; 50; 62; 62; 10; 115; 116; 97; 114; 116; 120; 114; 101; 102; 10; 50; 54; 10; 37; 37; 69; 79; 70; 10], [10; 120; 114; 101; 102; 10; 48; 32; 50; 10; 48; 48; 48; 48; 48; 48; 48; 48; 48; 48; 32; 54; 53; 53; 51; 53; 32; 102; 32; 10; 48; 48; 48; 48; 48; 48; 48; 48; 48; 57; 32; 48; 48; 48; 48; 48; 32; 110; 32; 10; 116; 114; 97; 105; 108; 101; 114; 10; 60; 60; 47; 83; 105; 122; 101; 32; 50; 62; 62; 10; 115; 116; 97; 114; 116; 120; 114; 101; 102; 10; 50; 54; 10; 37; 37; 69; 79; 70; 10].
  split; [vm_compute; reflexivity|].
  split; [constructor|]. split; [repeat constructor|]. split; [discriminate|]. split; [repeat constructor|]. split; [discriminate|].
  split; [reflexivity|]. split; [reflexivity|]. split; [reflexivity|].
  split; [apply sp_int; split; vm_compute; reflexivity|]. split; [vm_compute; discriminate|].
  cbn [app].
    apply (rn_reg [10] [53] _ [10; 101; 110; 100; 111; 98; 106; 10; 120; 114; 101; 102; 10; 48; 32; 50; 10; 48; 48; 48; 48; 48; 48; 48; 48; 48; 48; 32; 54; 53; 53; 51; 53; 32; 102; 32; 10; 48; 48; 48; 48; 48; 48; 48; 48; 48; 57; 32; 48; 48; 48; 48; 48; 32; 110; 32; 10; 116; 114; 97; 105; 108; 101; 114; 10; 60; 60; 47; 83; 105; 122; 101; 32; 50; 62; 62; 10; 115; 116; 97; 114; 116; 120; 114; 101; 102; 10; 50; 54; 10; 37; 37; 69; 79; 70; 10] [10; 120; 114; 101; 102; 10; 48; 32; 50; 10; 48; 48; 48; 48; 48; 48; 48; 48; 48; 48; 32; 54; 53; 53; 51; 53; 32; 102; 32; 10; 48; 48; 48; 48; 48; 48; 48; 48; 48; 57; 32; 48; 48; 48; 48; 48; 32; 110; 32; 10; 116; 114; 97; 105; 108; 101; 114; 10; 60; 60; 47; 83; 105; 122; 101; 32; 50; 62; 62; 10; 115; 116; 97; 114; 116; 120; 114; 101; 102; 10; 50; 54; 10; 37; 37; 69; 79; 70; 10]); [repeat constructor|discriminate|repeat constructor|reflexivity|].
    apply (rn_reg [10] kw_endobj _ [10; 120; 114; 101; 102; 10; 48; 32; 50; 10; 48; 48; 48; 48; 48; 48; 48; 48; 48; 48; 32; 54; 53; 53; 51; 53; 32; 102; 32; 10; 48; 48; 48; 48; 48; 48; 48; 48; 48; 57; 32; 48; 48; 48; 48; 48; 32; 110; 32; 10; 116; 114; 97; 105; 108; 101; 114; 10; 60; 60; 47; 83; 105; 122; 101; 32; 50; 62; 62; 10; 115; 116; 97; 114; 116; 120; 114; 101; 102; 10; 50; 54; 10; 37; 37; 69; 79; 70; 10] [10; 120; 114; 101; 102; 10; 48; 32; 50; 10; 48; 48; 48; 48; 48; 48; 48; 48; 48; 48; 32; 54; 53; 53; 51; 53; 32; 102; 32; 10; 48; 48; 48; 48; 48; 48; 48; 48; 48; 57; 32; 48; 48; 48; 48; 48; 32; 110; 32; 10; 116; 114; 97; 105; 108; 101; 114; 10; 60; 60; 47; 83; 105; 122; 101; 32; 50; 62; 62; 10; 115; 116; 97; 114; 116; 120; 114; 101; 102; 10; 50; 54; 10; 37; 37; 69; 79; 70; 10]); [repeat constructor|discriminate|repeat constructor|reflexivity|constructor].
Qed.

Lemma ex1_represents : Forall2 represents [ex1_secs] ex1_h.
Proof.
  repeat constructor. intros n. unfold picks, ex1_secs, ex1_update. cbn [flat_map first_id entries pick_es app].
  destruct (N.eqb_spec 0 n) as [<-|H0]; [reflexivity|].
  assert (E0 : n =? 0 = false) by (apply N.eqb_neq; lia). rewrite E0. cbn [N.add app].
  destruct (N.eqb_spec (0 + 1) n) as [<-|H1]; [reflexivity|].
  assert (E1 : n =? 1 = false) by (apply N.eqb_neq; lia). rewrite E1. reflexivity.
Qed.

Lemma ex1_wf : wf_history ex1_h.
Proof.
  intros n. unfold ex1_h, trace, ex1_update. cbn [flat_map app].
  destruct (n =? 0); [split; [exact I|repeat constructor; vm_compute; discriminate]|].
  destruct (n =? 1); [split; [exact I|repeat constructor; vm_compute; discriminate]|].
  split; [exact I|constructor].
Qed.

Lemma ex1_startxref : startxref_at ex1_file 26.
Proof.
  exists [37; 80; 68; 70; 45; 49; 46; 52; 10; 49; 32; 48; 32; 111; 98; 106; 10; 53; 10; 101; 110; 100; 111; 98; 106; 10; 120; 114; 101; 102; 10; 48; 32; 50; 10; 48; 48; 48; 48; 48; 48; 48; 48; 48; 48; 32; 54; 53; 53; 51; 53; 32; 102; 32; 10; 48; 48; 48; 48; 48; 48; 48; 48; 48; 57; 32; 48; 48; 48; 48; 48; 32; 110; 32; 10; 116; 114; 97; 105; 108; 101; 114; 10; 60; 60; 47; 83; 105; 122; 101; 32; 50; 62; 62; 10], [10], [10; 37; 37; 69; 79; 70; 10].
  split; [vm_compute; reflexivity|]. split; [repeat constructor|]. split; [reflexivity|]. split; [reflexivity|].
  split; repeat constructor; discriminate.
Qed.

Example resolve_latest_example :
  exists t, load (xref_at_tables no_resolve (fun _ => 0)) ex1_file = Ok (0, t, 0) /\
    forall n fuel, n < 2 ->
      stored ex1_file 0 n (latest ex1_h n)
        (resolve_ref prim (obj_at_parse no_resolve false F_ANY) (fun _ _ _ => Err E_OTHER) (S fuel) ex1_file 0 t n).
Proof.
  apply (resolve_latest_tables_file no_resolve (fun _ => 0) false (fun _ _ _ => Err E_OTHER) ex1_file ex1_h [ex1_secs] 26 ex1_secs ex1_dict [] 2).
  - exact ex1_represents.
  - exact ex1_wf.
  - reflexivity.
  - reflexivity.
  - exact ex1_startxref.
  - exact ex1_section.
  - reflexivity.
  - vm_compute. discriminate.
  - constructor.
  - constructor.
  - vm_compute. reflexivity.
  - intros n g pos. unfold ex1_h, latest, ex1_update.
    destruct (n =? 0); [discriminate|]. destruct (N.eqb_spec n 1) as [->|]; [|discriminate].
    intros H. inversion H; subst. exists (PInt 5). exact ex1_object.
  - intros n s i. unfold ex1_h, latest, ex1_update. destruct (n =? 0); [discriminate|]. destruct (n =? 1); discriminate.
Qed.

(** … and the functions compute what the theorem says on that file *)
Example resolve_latest_example_computed :
  exists t, load (xref_at_tables no_resolve (fun _ => 0)) ex1_file = Ok (0, t, 0) /\
    resolve_ref prim (obj_at_parse no_resolve false F_ANY) (fun _ _ _ => Err E_OTHER) 2 ex1_file 0 t 1 = Ok (PInt 5) /\
    resolve_ref prim (obj_at_parse no_resolve false F_ANY) (fun _ _ _ => Err E_OTHER) 2 ex1_file 0 t 0 = Err E_FREE.
Proof. eexists. repeat split; vm_compute; reflexivity. Qed.
