(** XRef/MergeProofs.v — C02: merging the sections newest first yields, for every number, the
    entry of the most recent update that mentions it. *)
From PdfV Require Import Base.Prelude Gen.Generated XRef.Model XRef.Spec.

(* ------------------------------------------------------------------ *)
(** * list plumbing *)

Lemma nth_set_nth {A} (l : list A) i j x :
  nth_error (set_nth l i x) j =
  if Nat.eqb j i then match nth_error l j with Some _ => Some x | None => None end else nth_error l j.
Proof.
  revert i j. induction l as [|a l IH]; intros i j; cbn [set_nth].
  - destruct (Nat.eqb j i); destruct j; reflexivity.
  - destruct i as [|i]; destruct j as [|j]; cbn; try reflexivity.
    apply IH.
Qed.

Lemma length_set_nth {A} (l : list A) i x : length (set_nth l i x) = length l.
Proof. revert i. induction l as [|a l IH]; intros [|i]; cbn; auto. Qed.

Lemma nthN_set_nth {A} (l : list A) i j x :
  nthN (set_nth l (N.to_nat i) x) j =
  if j =? i then match nthN l j with Some _ => Some x | None => None end else nthN l j.
Proof.
  unfold nthN. rewrite nth_set_nth.
  destruct (N.eqb_spec j i) as [->|Hne].
  - rewrite Nat.eqb_refl. reflexivity.
  - destruct (Nat.eqb_spec (N.to_nat j) (N.to_nat i)) as [He|_]; [|reflexivity].
    apply N2Nat.inj in He. contradiction.
Qed.

(* ------------------------------------------------------------------ *)
(** * pointwise meaning of add_entries_from *)

Definition plain (x : xref) : bool :=
  match x with XFree _ _ | XRaw _ _ | XStream _ _ => true | _ => false end.
Definition clean (x : xref) : bool :=
  match x with XPromised => false | _ => true end.

(** the generation an existing entry is compared with *)
Definition dst_gen (d : xref) : option N :=
  match d with XRaw _ g | XFree _ g => Some g | XStream _ _ => Some 0 | _ => None end.

(** one step of the merge at one index *)
Definition upd (dst e : xref) : xref :=
  match dst with
  | XInvalid => e
  | XPromised => dst
  | _ => match dst_gen dst, get_gen_nr e with
         | Some g, Ok eg => if g <? eg then e else dst
         | _, _ => dst
         end
  end.

Lemma should_update_upd dst e : plain e = true -> clean dst = true ->
  exists b, should_update dst e = Ok b /\ (if b then e else dst) = upd dst e.
Proof.
  intros He Hd. destruct e; try discriminate; destruct dst; try discriminate;
    cbn; eexists; (split; [reflexivity|]); try reflexivity;
    match goal with |- context [?a <? ?b] => destruct (a <? b); reflexivity end.
Qed.

Lemma upd_clean dst e : plain e = true -> clean dst = true -> clean (upd dst e) = true.
Proof.
  intros He Hd. destruct e; try discriminate; destruct dst; try discriminate; cbn; try reflexivity;
    match goal with |- context [?a <? ?b] => destruct (a <? b); reflexivity end.
Qed.

Definition tclean (t : table) : Prop := Forall (fun x => clean x = true) t.

Lemma tclean_nth t n d : tclean t -> nthN t n = Some d -> clean d = true.
Proof.
  intros Ht Hn. unfold tclean in Ht. rewrite Forall_forall in Ht. apply Ht.
  eapply nth_error_In. exact Hn.
Qed.

Lemma tclean_set t i x : tclean t -> clean x = true -> tclean (set_nth t i x).
Proof.
  unfold tclean. revert i. induction t as [|a t IH]; intros i Ht Hx; cbn [set_nth]; [constructor|].
  inversion Ht; subst. destruct i; constructor; auto.
Qed.

Lemma add_entries_spec es : Forall (fun e => plain e = true) es ->
  forall t i, tclean t ->
  exists t', add_entries t i es = Ok t' /\ tclean t' /\ length t' = length t /\
    forall n, nthN t' n = option_map (fun d => fold_left upd (pick_es n i es) d) (nthN t n).
Proof.
  induction 1 as [|e es He Hes IH]; intros t i Ht.
  - exists t. cbn. repeat split; auto. intros n. destruct (nthN t n); reflexivity.
  - cbn [add_entries pick_es]. destruct (nthN t i) as [dst|] eqn:Hd.
    + pose proof (tclean_nth _ _ _ Ht Hd) as Hcd.
      destruct (should_update_upd dst e He Hcd) as [b [Hb Hu]]. rewrite Hb. cbn [bind].
      assert (Ht2 : tclean (if b then set_nth t (N.to_nat i) e else t)).
      { destruct b; [apply tclean_set; auto; destruct e; try discriminate; reflexivity|exact Ht]. }
      destruct (IH _ (i + 1) Ht2) as [t' [Ha [Hc [Hl Hn]]]].
      exists t'. split; [exact Ha|]. split; [exact Hc|]. split.
      { rewrite Hl. destruct b; [apply length_set_nth|reflexivity]. }
      intros n. rewrite Hn.
      destruct (N.eqb_spec i n) as [->|Hne].
      * cbn [app fold_left].
        match goal with |- context [nthN ?x n] => assert (Hnn : nthN x n = Some (upd dst e)) end.
        { destruct b.
          - rewrite nthN_set_nth, N.eqb_refl, Hd. f_equal. exact Hu.
          - rewrite Hd. f_equal. exact Hu. }
        rewrite Hnn, Hd. reflexivity.
      * cbn [app].
        match goal with |- context [nthN ?x n] => assert (Hnn : nthN x n = nthN t n) end.
        { destruct b; [|reflexivity]. rewrite nthN_set_nth.
          destruct (N.eqb_spec n i) as [->|_]; [contradiction|reflexivity]. }
        rewrite Hnn. reflexivity.
    + destruct (IH t (i + 1) Ht) as [t' [Ha [Hc [Hl Hn]]]].
      exists t'. repeat split; auto. intros n. rewrite Hn.
      destruct (N.eqb_spec i n) as [->|Hne]; [|reflexivity].
      rewrite Hd. reflexivity.
Qed.

Definition splain (s : section) : Prop := Forall (fun e => plain e = true) (entries s).

Lemma add_sections_spec ss : Forall splain ss ->
  forall t, tclean t ->
  exists t', add_sections t ss = Ok t' /\ tclean t' /\ length t' = length t /\
    forall n, nthN t' n = option_map (fun d => fold_left upd (picks n ss) d) (nthN t n).
Proof.
  induction 1 as [|s ss Hs Hss IH]; intros t Ht.
  - exists t. cbn. repeat split; auto. intros n. destruct (nthN t n); reflexivity.
  - cbn [add_sections]. unfold add_entries_from.
    destruct (add_entries_spec (entries s) Hs t (first_id s) Ht) as [t1 [Ha [Hc [Hl Hn]]]].
    rewrite Ha. cbn [bind].
    destruct (IH t1 Hc) as [t2 [Ha2 [Hc2 [Hl2 Hn2]]]].
    exists t2. split; [exact Ha2|]. split; [exact Hc2|]. split; [congruence|].
    intros n. rewrite Hn2, Hn. unfold picks. cbn [flat_map].
    destruct (nthN t n); [|reflexivity]. cbn [option_map]. rewrite fold_left_app. reflexivity.
Qed.

(* ------------------------------------------------------------------ *)
(** * XRefTable::new *)

Lemma repeatN_length {A} (x : A) n : length (repeatN x n) = n.
Proof. induction n; cbn; auto. Qed.

Lemma nth_repeatN {A} (x : A) n i : (i < n)%nat -> nth_error (repeatN x n) i = Some x.
Proof. revert i. induction n; intros i Hi; [lia|]. destruct i; cbn; [reflexivity|apply IHn; lia]. Qed.

Lemma table_new_lt size n : n < size -> nthN (table_new size) n = Some XInvalid.
Proof.
  intros H. unfold table_new, nthN. rewrite nth_error_app1 by (rewrite repeatN_length; lia).
  apply nth_repeatN. lia.
Qed.

Lemma table_new_eq size : nthN (table_new size) size = Some (XFree xr_new_free_next xr_new_free_gen).
Proof.
  unfold table_new, nthN. rewrite nth_error_app2 by (rewrite repeatN_length; lia).
  rewrite repeatN_length, Nat.sub_diag. reflexivity.
Qed.

Lemma table_new_gt size n : size < n -> nthN (table_new size) n = None.
Proof.
  intros H. unfold table_new, nthN. apply nth_error_None.
  rewrite app_length, repeatN_length. cbn. lia.
Qed.

Lemma table_new_clean size : tclean (table_new size).
Proof.
  unfold tclean, table_new. apply Forall_app. split; [|repeat constructor].
  induction (N.to_nat size); cbn; constructor; auto.
Qed.

(* ------------------------------------------------------------------ *)
(** * histories *)

Lemma xent_plain m : plain (xent_of m) = true.
Proof. destruct m; reflexivity. Qed.

Lemma get_gen_xent m : get_gen_nr (xent_of m) = Ok (gen_of m).
Proof. destruct m; reflexivity. Qed.

Lemma dst_gen_xent m : dst_gen (xent_of m) = Some (gen_of m).
Proof. destruct m; reflexivity. Qed.

Lemma upd_keep m m' : gen_of m' <= gen_of m -> upd (xent_of m) (xent_of m') = xent_of m.
Proof.
  intros H. unfold upd. rewrite dst_gen_xent, get_gen_xent.
  assert (Hlt : gen_of m <? gen_of m' = false) by (apply N.ltb_ge; exact H).
  rewrite Hlt. destruct m; reflexivity.
Qed.

Lemma fold_keep m l : Forall (fun m' => gen_of m' <= gen_of m) l ->
  fold_left upd (map xent_of l) (xent_of m) = xent_of m.
Proof.
  induction 1 as [|m' l Hm Hl IH]; [reflexivity|]. cbn [map fold_left]. rewrite upd_keep by exact Hm. exact IH.
Qed.

Lemma step_mono a b : step_ok a b -> gen_of a <= gen_of b.
Proof. destruct a, b; cbn; lia. Qed.

(** generations never decrease along a well-formed trace: everything is below the last mention *)
Lemma chain_below l m : chain_ok (l ++ [m]) -> Forall (fun m' => gen_of m' <= gen_of m) l.
Proof.
  induction l as [|a l IH]; intros H; [constructor|].
  assert (Hr : chain_ok (l ++ [m])).
  { cbn [app chain_ok] in H. destruct (l ++ [m]) eqn:E; [destruct l; discriminate|]. tauto. }
  specialize (IH Hr). constructor; [|exact IH].
  destruct l as [|b l'].
  - cbn in H. apply step_mono. tauto.
  - cbn [app chain_ok] in H. destruct H as [Hs _]. apply step_mono in Hs.
    inversion IH; subst. lia.
Qed.

Definition last_opt {A} (l : list A) : option A :=
  match rev l with [] => None | a :: _ => Some a end.

Lemma latest_trace h n : latest h n = last_opt (trace h n).
Proof.
  unfold last_opt. induction h as [|u h IH]; [reflexivity|].
  cbn [latest]. unfold trace in *. cbn [flat_map]. rewrite rev_app_distr, IH.
  destruct (rev (flat_map _ h)) as [|a r]; [|reflexivity].
  cbn [app]. destruct (u n); reflexivity.
Qed.

(** merging the mentions of [n] newest first keeps the newest *)
Lemma fold_trace l : chain_ok l ->
  fold_left upd (map xent_of (rev l)) XInvalid = xent_opt (last_opt l).
Proof.
  intros Hc. unfold last_opt. destruct (rev l) as [|m r] eqn:E; [reflexivity|].
  cbn [map fold_left upd xent_opt].
  apply fold_keep.
  assert (El : l = rev r ++ [m]).
  { rewrite <- (rev_involutive l), E. reflexivity. }
  rewrite El in Hc. apply chain_below in Hc.
  apply Forall_rev in Hc. rewrite rev_involutive in Hc. exact Hc.
Qed.

Lemma picks_app n a b : picks n (a ++ b) = picks n a ++ picks n b.
Proof. unfold picks. apply flat_map_app. Qed.

(** the sections of a history, newest update first, list the trace of [n] newest first *)
Lemma picks_history secss h : Forall2 represents secss h ->
  forall n, picks n (concat (rev secss)) = map xent_of (rev (trace h n)).
Proof.
  induction 1 as [|secs u secss h Hr Hf IH]; intros n; [reflexivity|].
  cbn [rev]. rewrite concat_app, picks_app, IH. cbn [concat]. rewrite app_nil_r.
  unfold trace. cbn [flat_map]. rewrite rev_app_distr, map_app. f_equal.
  rewrite (Hr n). destruct (u n); reflexivity.
Qed.

Lemma represents_plain secs u : represents secs u -> Forall splain secs.
Proof.
  intros Hr. apply Forall_forall. intros s Hs. unfold splain. apply Forall_forall. intros e He.
  (* e is listed for some number n *)
  assert (Hex : exists n, In e (picks n secs)).
  { apply In_nth_error in He. destruct He as [k Hk].
    exists (first_id s + N.of_nat k). unfold picks. apply in_flat_map. exists s. split; [exact Hs|].
    clear Hs Hr. generalize (first_id s) as i. revert k Hk.
    induction (entries s) as [|a es IH]; intros k Hk i; [destruct k; discriminate|].
    cbn [pick_es]. apply in_or_app. destruct k as [|k].
    - left. cbn in Hk. inversion Hk; subst. replace (i + N.of_nat 0) with i by lia.
      rewrite N.eqb_refl. left. reflexivity.
    - right. cbn in Hk. replace (i + N.of_nat (S k)) with (i + 1 + N.of_nat k) by lia. apply IH. exact Hk. }
  destruct Hex as [n Hn]. rewrite (Hr n) in Hn. destruct (u n) as [m|]; [|destruct Hn].
  destruct Hn as [<-|[]]. apply xent_plain.
Qed.

Lemma history_plain secss h : Forall2 represents secss h -> Forall splain (concat (rev secss)).
Proof.
  induction 1 as [|secs u secss h Hr Hf IH]; [constructor|].
  cbn [rev]. rewrite concat_app. apply Forall_app. split; [exact IH|].
  cbn [concat]. rewrite app_nil_r. eapply represents_plain. exact Hr.
Qed.

(** C02, table level *)
Theorem merge_latest : forall (h : history) (secss : list (list section)) (size n : N),
  Forall2 represents secss h -> wf_history h -> n < size ->
  exists t, merge size (concat (rev secss)) = Ok t /\ table_get t n = Ok (xent_opt (latest h n)).
Proof.
  intros h secss size n Hr Hwf Hn. unfold merge.
  destruct (add_sections_spec _ (history_plain _ _ Hr) _ (table_new_clean size)) as [t [Ha [_ [_ Hp]]]].
  exists t. split; [exact Ha|]. unfold table_get. rewrite Hp, (table_new_lt _ _ Hn). cbn [option_map].
  rewrite (picks_history _ _ Hr), fold_trace by (apply Hwf). rewrite latest_trace. reflexivity.
Qed.

(** numbers at or beyond /Size: never an older value *)
Lemma fold_free_top l : Forall (fun m => gen_of m <= max_gen) l -> xr_new_free_gen = max_gen ->
  fold_left upd (map xent_of l) (XFree xr_new_free_next xr_new_free_gen) = XFree xr_new_free_next xr_new_free_gen.
Proof.
  intros Hl Hg. induction Hl as [|m l Hm Hl IH]; [reflexivity|]. cbn [map fold_left].
  replace (upd (XFree xr_new_free_next xr_new_free_gen) (xent_of m)) with (XFree xr_new_free_next xr_new_free_gen); [exact IH|].
  unfold upd. cbn [dst_gen]. rewrite get_gen_xent.
  assert (Hlt : xr_new_free_gen <? gen_of m = false) by (apply N.ltb_ge; rewrite Hg; exact Hm).
  rewrite Hlt. reflexivity.
Qed.

Lemma new_free_gen_is_max : xr_new_free_gen = max_gen.
Proof. vm_compute. reflexivity. Qed.

Theorem merge_beyond_size : forall (h : history) (secss : list (list section)) (size n : N),
  Forall2 represents secss h -> wf_history h -> size <= n ->
  exists t, merge size (concat (rev secss)) = Ok t /\
    table_get t n = if n =? size then Ok (XFree xr_new_free_next xr_new_free_gen) else Err E_UNSPEC.
Proof.
  intros h secss size n Hr Hwf Hn. unfold merge.
  destruct (add_sections_spec _ (history_plain _ _ Hr) _ (table_new_clean size)) as [t [Ha [_ [_ Hp]]]].
  exists t. split; [exact Ha|]. unfold table_get. rewrite Hp.
  destruct (N.eqb_spec n size) as [->|Hne].
  - rewrite table_new_eq. cbn [option_map]. rewrite (picks_history _ _ Hr), fold_free_top; [reflexivity| |apply new_free_gen_is_max].
    apply Forall_rev. apply Hwf.
  - rewrite table_new_gt by lia. reflexivity.
Qed.

(** before the repair (xref.rs:116) an existing Stream entry was replaced unconditionally: the
    statement was false.  [should_update_old] is the old rule; witness: object 1 direct in the first
    update, compressed in the second. *)
Definition should_update_old (dst entry : xref) : res bool :=
  match dst with
  | XStream _ _ => Ok true
  | _ => should_update dst entry
  end.
Lemma old_rule_refuted :
  exists dst e older newer, step_ok older newer /\ dst = xent_of newer /\ e = xent_of older /\
    should_update_old dst e = Ok true /\ should_update dst e = Ok false.
Proof.
  exists (XStream 7 0), (XRaw 100 0), (Direct 0 100), (Compressed 7 0). cbn. repeat split; reflexivity.
Qed.

(* non-vacuity: a three-update history with a direct -> compressed -> freed number *)
Definition ex_h : history :=
  [ (fun n => if n =? 1 then Some (Direct 0 100) else if n =? 2 then Some (Direct 0 200) else None);
    (fun n => if n =? 1 then Some (Compressed 7 0) else None);
    (fun n => if n =? 2 then Some (Freed 1 0) else None) ].
Definition ex_secss : list (list section) :=
  [ [ {| first_id := 1; entries := [XRaw 100 0; XRaw 200 0] |} ];
    [ {| first_id := 1; entries := [XStream 7 0] |} ];
    [ {| first_id := 2; entries := [XFree 0 1] |} ] ].
Example ex_merge : rmap (fun t => (table_get t 1, table_get t 2, table_get t 3))
                        (merge 4 (concat (rev ex_secss)))
                   = Ok (Ok (XStream 7 0), Ok (XFree 0 1), Ok XInvalid).
Proof. vm_compute. reflexivity. Qed.
