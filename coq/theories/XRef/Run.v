(** XRef/Run.v — harness entry points of the cross-reference models (one per mode) and the text
    form of entries / sections / tables shared with harness/src/modes/xref.rs:
      entry   = f<next>,<gen> | n<pos>,<gen> | c<stream>,<index> | P | I
      section = <first> entry entry …        table = entry entry … *)
From PdfV Require Import Base.Prelude Gen.Generated XRef.Model.

Definition field (fs : list bytes) (i : nat) : bytes := nth i fs [].

(* split on a separator byte, dropping empty pieces *)
Fixpoint split_acc (sep : N) (l : bytes) (cur : bytes) : list bytes :=
  match l with
  | [] => match cur with [] => [] | _ => [rev cur] end
  | c :: r => if c =? sep then match cur with [] => split_acc sep r [] | _ => rev cur :: split_acc sep r [] end
              else split_acc sep r (c :: cur)
  end.
Definition split (sep : N) (l : bytes) : list bytes := split_acc sep l [].

Definition nums (sep : N) (l : bytes) : list N := map N_of_dec (split sep l).

Definition entry_of_text (tk : bytes) : xref :=
  match tk with
  | k :: r =>
      match nums 44 r with
      | [a; b] => if k =? 102 then XFree a b else if k =? 110 then XRaw a b else if k =? 99 then XStream a b else XInvalid
      | _ => if k =? 80 then XPromised else XInvalid
      end
  | [] => XInvalid
  end.

Definition text_of_entry (e : xref) : bytes :=
  match e with
  | XFree a b => 102 :: dec_of_N a ++ 44 :: dec_of_N b
  | XRaw a b => 110 :: dec_of_N a ++ 44 :: dec_of_N b
  | XStream a b => 99 :: dec_of_N a ++ 44 :: dec_of_N b
  | XPromised => [80]
  | XInvalid => [73]
  end.

Fixpoint join (sep : N) (ls : list bytes) : bytes :=
  match ls with
  | [] => []
  | [a] => a
  | a :: r => a ++ sep :: join sep r
  end.

Definition section_of_text (l : bytes) : section :=
  match split 32 l with
  | f :: es => {| first_id := N_of_dec f; entries := map entry_of_text es |}
  | [] => {| first_id := 0; entries := [] |}
  end.
Definition text_of_section (s : section) : bytes :=
  join 32 (dec_of_N (first_id s) :: map text_of_entry (entries s)).
Definition text_of_table (t : table) : bytes := join 32 (map text_of_entry t).

(* mode xr_merge: size, then one field per section (in the order they are merged) *)
Definition run_xr_merge (fs : list bytes) : res (list bytes) :=
  match fs with
  | sz :: secs => rmap (fun t => [text_of_table t]) (merge (N_of_dec sz) (map section_of_text secs))
  | [] => Err 0
  end.

(* mode xr_stream: options ('t' = tolerant: allow_xref_error), /W, /Index (comma separated), decoded data *)
Definition run_xr_stream (fs : list bytes) : res (list bytes) :=
  let allow := match field fs 0 with c :: _ => c =? 116 | [] => false end in
  rmap (map text_of_section)
       (parse_xref_stream_sections (nums 44 (field fs 2)) (nums 44 (field fs 1)) (field fs 3) allow).

(* mode xr_table: the text after the `xref` keyword up to (not including) the `trailer` keyword;
   the harness appends "trailer" and a dictionary, the model appends the keyword *)
Definition run_xr_table (fs : list bytes) : res (list bytes) :=
  rmap (fun r => map text_of_section (fst r)) (parse_xref_table (mkLx 0 (field fs 0 ++ 10 :: xr_kw_trailer))).

Definition text_of_resN (r : res N) : res bytes :=
  match r with
  | Ok n => Ok (dec_of_N n)
  | Err _ => Ok [69]
  | Panic s => Panic s
  | OutOfFuel => OutOfFuel
  end.

(* mode xr_locate: file -> header position, startxref value ("E" for an error) *)
Definition run_xr_locate (fs : list bytes) : res (list bytes) :=
  do a <- text_of_resN (locate_start_offset (field fs 0));
  do b <- text_of_resN (locate_xref_offset (field fs 0));
  Ok [a; b].

(* mode xr_walk (model side): "start len startxref", then per section of the file two fields:
   "pos size|- prev|-|! id" and the sections separated by ';'.  The implementation side gets the
   file bytes these describe. *)
Definition opt_num (tk : bytes) : option N :=
  match tk with c :: _ => if is_digit c then Some (N_of_dec tk) else None | [] => None end.
Definition prev_of (tk : bytes) : option (option N) :=
  match tk with
  | c :: _ => if is_digit c then Some (Some (N_of_dec tk)) else if c =? 33 then Some None else None
  | [] => None
  end.
Fixpoint revs_of (fs : list bytes) : list (N * (list section * tinfo)) :=
  match fs with
  | h :: s :: r =>
      match split 32 h with
      | [p; sz; pv; id] =>
          (N_of_dec p, (map section_of_text (split 59 s),
                        {| t_size := opt_num sz; t_prev := prev_of pv; t_id := N_of_dec id |})) :: revs_of r
      | _ => revs_of r
      end
  | _ => []
  end.
Fixpoint assoc_at (l : list (N * (list section * tinfo))) (pos : N) : res (list section * tinfo) :=
  match l with
  | [] => Err E_OTHER
  | (p, v) :: r => if p =? pos then Ok v else assoc_at r pos
  end.
Definition run_xr_walk (fs : list bytes) : res (list bytes) :=
  match fs with
  | h :: r =>
      match nums 32 h with
      | [start; len; xoff] =>
          let revs := revs_of r in
          do (t, id) <- read_xref_table_and_trailer (assoc_at revs) len (S (length revs)) start xoff;
          Ok [text_of_table t; dec_of_N id]
      | _ => Err 0
      end
  | [] => Err 0
  end.
