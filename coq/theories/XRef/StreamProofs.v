(** XRef/StreamProofs.v — cross-reference stream sections: the reader inverts the §7.5.8 printer for
    every /W in 0..8 (w0 = 0: default type 1), never panics, and cannot produce more entries than
    the data has bytes. *)
From PdfV Require Import Base.Prelude Gen.Generated XRef.Model XRef.Spec.

Lemma byte_bits : xr_byte_bits = 8. Proof. reflexivity. Qed.
Lemma u64_width : xr_u64_width = 8. Proof. reflexivity. Qed.
Lemma default_type : xr_default_type = 1. Proof. reflexivity. Qed.

Lemma be_length w v : length (be w v) = w.
Proof. induction w; cbn [be length]; auto. Qed.

Lemma pow8_S k : 2 ^ (8 * N.of_nat (S k)) = 2 ^ (8 * N.of_nat k) * 256.
Proof.
  replace (8 * N.of_nat (S k)) with (8 * N.of_nat k + 8) by lia.
  rewrite N.pow_add_r. reflexivity.
Qed.

Lemma read_be_be w : forall v rest acc,
  read_be w (be w v ++ rest) acc = Some (acc + v mod 2 ^ (8 * N.of_nat w), rest).
Proof.
  induction w as [|k IH]; intros v rest acc.
  - cbn. rewrite N.mod_1_r. f_equal. f_equal. lia.
  - cbn [be app read_be]. rewrite byte_bits, IH. f_equal. f_equal.
    rewrite pow8_S.
    assert (Hp : 2 ^ (8 * N.of_nat k) <> 0) by (apply N.pow_nonzero; lia).
    rewrite (N.mod_mul_r v _ 256) by (auto; lia). lia.
Qed.

Lemma read_u64_be w v rest : w <= 8 -> fits w v ->
  read_u64_from_stream w (be (N.to_nat w) v ++ rest) = Ok (v, rest).
Proof.
  intros Hw Hv. unfold read_u64_from_stream. rewrite u64_width.
  assert (H1 : 8 <? w = false) by (apply N.ltb_ge; exact Hw). rewrite H1.
  assert (H2 : lenN (be (N.to_nat w) v ++ rest) <? w = false).
  { apply N.ltb_ge. unfold lenN. rewrite app_length, be_length. lia. }
  rewrite H2, read_be_be. rewrite N2Nat.id. unfold fits in Hv. rewrite N.mod_small by exact Hv.
  reflexivity.
Qed.

Lemma make_entry_fields e t a b : fields_of e = Some (t, a, b) -> make_entry t a b = Ok e.
Proof. destruct e; cbn [fields_of]; intros H; inversion H; subst; reflexivity. Qed.

Lemma fits_0 v : fits 0 v -> v = 0.
Proof. unfold fits. cbn. lia. Qed.

Lemma read_entry w0 w1 w2 e rest : w0 <= 8 -> w1 <= 8 -> w2 <= 8 -> entry_fits w0 w1 w2 e ->
  exists t a b, fields_of e = Some (t, a, b) /\
    (if w0 =? 0 then @Ok (N * bytes) (xr_default_type, print_entry w0 w1 w2 e ++ rest) else read_u64_from_stream w0 (print_entry w0 w1 w2 e ++ rest))
      = Ok (t, be (N.to_nat w1) a ++ be (N.to_nat w2) b ++ rest).
Proof.
  intros H0 H1 H2 Hf. unfold entry_fits in Hf. unfold print_entry.
  destruct (fields_of e) as [[[t a] b]|] eqn:E; [|contradiction].
  exists t, a, b. split; [reflexivity|].
  destruct Hf as [Ht [Ha Hb]].
  destruct (N.eqb_spec w0 0) as [->|Hne].
  - subst t. cbn [N.to_nat be app]. rewrite default_type, <- app_assoc. reflexivity.
  - rewrite <- !app_assoc. apply read_u64_be; assumption.
Qed.

Lemma stream_entries_print w0 w1 w2 : w0 <= 8 -> w1 <= 8 -> w2 <= 8 ->
  forall es rest acc, Forall (entry_fits w0 w1 w2) es ->
  stream_entries (length es) w0 w1 w2 (print_rows w0 w1 w2 es ++ rest) acc = Ok (rev acc ++ es, rest).
Proof.
  intros H0 H1 H2. induction es as [|e es IH]; intros rest acc Hf.
  - cbn. rewrite app_nil_r. reflexivity.
  - inversion Hf as [|? ? He Hes]; subst.
    cbn [length stream_entries print_rows flat_map]. rewrite <- app_assoc.
    destruct (read_entry w0 w1 w2 e (flat_map (print_entry w0 w1 w2) es ++ rest) H0 H1 H2 He) as [t [a [b [Ef Hr]]]].
    match goal with |- bind ?x ?f = ?r =>
      transitivity (bind (Ok (t, be (N.to_nat w1) a ++ be (N.to_nat w2) b ++ flat_map (print_entry w0 w1 w2) es ++ rest)) f);
      [f_equal; exact Hr|] end.
    cbn [bind].
    assert (Ha : fits w1 a /\ fits w2 b).
    { unfold entry_fits in He. rewrite Ef in He. tauto. }
    rewrite read_u64_be by tauto. cbn [bind]. rewrite read_u64_be by tauto. cbn [bind].
    rewrite (make_entry_fields _ _ _ _ Ef). cbn [bind].
    fold (print_rows w0 w1 w2 es). rewrite IH by exact Hes. cbn [rev]. rewrite <- app_assoc. reflexivity.
Qed.

Lemma print_entry_length w0 w1 w2 e : entry_fits w0 w1 w2 e ->
  lenN (print_entry w0 w1 w2 e) = w0 + w1 + w2.
Proof.
  unfold entry_fits, print_entry. destruct (fields_of e) as [[[t a] b]|]; [|contradiction].
  intros _. unfold lenN. rewrite !app_length, !be_length. lia.
Qed.

Lemma print_rows_length w0 w1 w2 es : Forall (entry_fits w0 w1 w2) es ->
  lenN (print_rows w0 w1 w2 es) = lenN es * (w0 + w1 + w2).
Proof.
  induction 1 as [|e es He Hes IH]; [reflexivity|].
  cbn [print_rows flat_map]. unfold lenN in *. rewrite app_length. cbn [length].
  fold (print_rows w0 w1 w2 es).
  pose proof (print_entry_length w0 w1 w2 e He) as Hl. unfold lenN in Hl. lia.
Qed.

(** one subsection: the reader returns exactly the entries that were printed and leaves the rest *)
Theorem stream_section_roundtrip : forall w0 w1 w2 first es rest allow,
  w0 <= 8 -> w1 <= 8 -> w2 <= 8 -> 0 < w0 + w1 + w2 ->
  Forall (entry_fits w0 w1 w2) es ->
  lenN (print_rows w0 w1 w2 es ++ rest) < usize_max ->
  parse_xref_section_from_stream first (lenN es) [w0; w1; w2] (print_rows w0 w1 w2 es ++ rest) allow
  = Ok ({| first_id := first; entries := es |}, rest).
Proof.
  intros w0 w1 w2 first es rest allow H0 H1 H2 Hpos Hf Hlen.
  unfold parse_xref_section_from_stream.
  assert (Hu : usize_max = 18446744073709551616) by reflexivity.
  assert (Ha : (usize_max <=? w0 + w1) || (usize_max <=? w0 + w1 + w2) = false).
  { apply orb_false_iff. split; apply N.leb_gt; rewrite Hu; lia. }
  rewrite Ha.
  assert (Hz : w0 + w1 + w2 =? 0 = false) by (apply N.eqb_neq; lia). rewrite Hz.
  pose proof (print_rows_length w0 w1 w2 es Hf) as Hl.
  assert (Hd : lenN (print_rows w0 w1 w2 es ++ rest) = lenN es * (w0 + w1 + w2) + lenN rest).
  { unfold lenN in *. rewrite app_length. lia. }
  assert (Hb : (usize_max <=? lenN es * (w0 + w1 + w2)) || (lenN (print_rows w0 w1 w2 es ++ rest) <? lenN es * (w0 + w1 + w2)) = false).
  { apply orb_false_iff. split; [apply N.leb_gt|apply N.ltb_ge]; lia. }
  rewrite Hb. cbn [bind].
  unfold lenN at 1. rewrite Nat2N.id.
  rewrite stream_entries_print by assumption. reflexivity.
Qed.

Definition section_fits (w0 w1 w2 : N) (s : section) : Prop := Forall (entry_fits w0 w1 w2) (entries s).

Lemma print_stream_app_length w0 w1 w2 s secs rest :
  lenN (print_rows w0 w1 w2 (entries s) ++ print_stream w0 w1 w2 secs ++ rest) < usize_max ->
  lenN (print_stream w0 w1 w2 secs ++ rest) < usize_max.
Proof. unfold lenN. rewrite !app_length. lia. Qed.

(** a whole stream: /Index pairs and data of any list of subsections *)
Lemma stream_sections_print w0 w1 w2 allow :
  w0 <= 8 -> w1 <= 8 -> w2 <= 8 -> 0 < w0 + w1 + w2 ->
  forall secs, Forall (section_fits w0 w1 w2) secs ->
  forall rest : bytes, lenN (print_stream w0 w1 w2 secs ++ rest) < usize_max ->
  stream_sections (index_of secs) [w0; w1; w2] (print_stream w0 w1 w2 secs ++ rest) allow = Ok secs.
Proof.
  intros H0 H1 H2 Hpos secs Hf. induction Hf as [|s secs Hs Hss IH]; intros rest Hlen; [reflexivity|].
  cbn [index_of flat_map app stream_sections print_stream] in *. rewrite <- app_assoc in *.
  fold (print_stream w0 w1 w2 secs) in *. fold (index_of secs).
  rewrite stream_section_roundtrip by assumption. cbn [bind].
  rewrite IH by (eapply print_stream_app_length; exact Hlen). cbn [bind].
  destruct s; reflexivity.
Qed.

Theorem stream_sections_roundtrip : forall w0 w1 w2 secs allow,
  w0 <= 8 -> w1 <= 8 -> w2 <= 8 -> 0 < w0 + w1 + w2 ->
  Forall (section_fits w0 w1 w2) secs ->
  lenN (print_stream w0 w1 w2 secs) < usize_max ->
  parse_xref_stream_sections (index_of secs) [w0; w1; w2] (print_stream w0 w1 w2 secs) allow = Ok secs.
Proof.
  intros w0 w1 w2 secs allow H0 H1 H2 Hpos Hf Hlen. unfold parse_xref_stream_sections.
  assert (He : N.even (lenN (index_of secs)) = true).
  { unfold lenN, index_of. clear. induction secs as [|s secs IH]; [reflexivity|].
    cbn [flat_map app length]. rewrite !Nat2N.inj_succ, N.even_succ_succ. exact IH. }
  rewrite He. clear He.
  rewrite <- (app_nil_r (print_stream w0 w1 w2 secs)).
  apply stream_sections_print; try assumption. rewrite app_nil_r. exact Hlen.
Qed.

(* ------------------------------------------------------------------ *)
(** * no panic, bounded work (the xref-stream numeric sites C01-b, C01-c) *)

Lemma read_be_some w : forall data acc, (w <= length data)%nat -> exists v, read_be w data acc = Some (v, skipn w data).
Proof.
  induction w as [|k IH]; intros data acc Hl; [eexists; reflexivity|].
  destruct data as [|c r]; [cbn in Hl; lia|]. cbn [read_be skipn]. apply IH. cbn in Hl. lia.
Qed.

Lemma read_u64_cases w data :
  (exists e, read_u64_from_stream w data = Err e) \/
  (exists v, read_u64_from_stream w data = Ok (v, skipn (N.to_nat w) data) /\ (N.to_nat w <= length data)%nat).
Proof.
  unfold read_u64_from_stream. destruct (xr_u64_width <? w); [left; eexists; reflexivity|].
  destruct (N.ltb_spec (lenN data) w) as [Hl|Hl]; [left; eexists; reflexivity|].
  right. unfold lenN in Hl. assert (Hn : (N.to_nat w <= length data)%nat) by lia.
  destruct (read_be_some _ data 0 Hn) as [v Hv]. rewrite Hv. exists v. split; [reflexivity|exact Hn].
Qed.

Lemma make_entry_cases t a b : (exists e, make_entry t a b = Err e) \/ (exists x, make_entry t a b = Ok x).
Proof.
  unfold make_entry. destruct (entry_kind t xr_type_codes) as [k|]; [|left; eexists; reflexivity].
  right. destruct (k =? 0); [eexists; reflexivity|]. destruct (k =? 1); eexists; reflexivity.
Qed.

(** [stream_entries] either fails with an error value or returns [n] more entries, having consumed
    n * (w0+w1+w2) bytes *)
Lemma stream_entries_cases w0 w1 w2 : forall n data acc,
  (exists e, stream_entries n w0 w1 w2 data acc = Err e) \/
  (exists es rest, stream_entries n w0 w1 w2 data acc = Ok (es, rest) /\
     length es = (length acc + n)%nat /\ (length data = length rest + n * N.to_nat (w0 + w1 + w2))%nat).
Proof.
  induction n as [|n IH]; intros data acc.
  - right. exists (rev acc), data. cbn. rewrite rev_length. repeat split; lia.
  - cbn [stream_entries].
    assert (H0 : (exists e, (if w0 =? 0 then Ok (xr_default_type, data) else read_u64_from_stream w0 data) = Err e) \/
                 (exists v, (if w0 =? 0 then Ok (xr_default_type, data) else read_u64_from_stream w0 data) = Ok (v, skipn (N.to_nat w0) data)
                            /\ (N.to_nat w0 <= length data)%nat)).
    { destruct (N.eqb_spec w0 0) as [->|_]; [right; eexists; split; [reflexivity|cbn; lia]|apply read_u64_cases]. }
    destruct H0 as [[e He]|[t [Ht Hl0]]]; [left; rewrite He; eexists; reflexivity|]. rewrite Ht. cbn [bind].
    destruct (read_u64_cases w1 (skipn (N.to_nat w0) data)) as [[e He]|[a [Ha Hl1]]]; [left; rewrite He; eexists; reflexivity|].
    rewrite Ha. cbn [bind].
    destruct (read_u64_cases w2 (skipn (N.to_nat w1) (skipn (N.to_nat w0) data))) as [[e He]|[b [Hb Hl2]]]; [left; rewrite He; eexists; reflexivity|].
    rewrite Hb. cbn [bind].
    destruct (make_entry_cases t a b) as [[e He]|[x Hx]]; [left; rewrite He; eexists; reflexivity|]. rewrite Hx. cbn [bind].
    destruct (IH (skipn (N.to_nat w2) (skipn (N.to_nat w1) (skipn (N.to_nat w0) data))) (x :: acc)) as [[e He]|[es [rest [Hs [Hle Hld]]]]];
      [left; rewrite He; eexists; reflexivity|].
    right. exists es, rest. split; [exact Hs|]. cbn [length] in Hle. split; [lia|].
    rewrite !skipn_length in *. lia.
Qed.

(** the section reader never panics and never runs out of fuel, whatever the widths, counts and data *)
Theorem stream_section_no_panic : forall first num width data allow,
  no_panic (parse_xref_section_from_stream first num width data allow).
Proof.
  intros first num width data allow. unfold parse_xref_section_from_stream.
  destruct width as [|w0 [|w1 [|w2 [|? ?]]]]; cbn [no_panic]; auto.
  destruct ((usize_max <=? w0 + w1) || (usize_max <=? w0 + w1 + w2)); cbn [no_panic]; auto.
  destruct (w0 + w1 + w2 =? 0); cbn [no_panic]; auto.
  match goal with |- context [bind ?x _] => destruct x as [num'| | |] eqn:En end; cbn [bind no_panic]; auto.
  - destruct (stream_entries_cases w0 w1 w2 (N.to_nat num') data []) as [[e He]|[es [rest [Hs _]]]]; rewrite ?He, ?Hs; cbn; auto.
  - destruct ((usize_max <=? num * (w0 + w1 + w2)) || (lenN data <? num * (w0 + w1 + w2))); [destruct allow|]; discriminate.
  - destruct ((usize_max <=? num * (w0 + w1 + w2)) || (lenN data <? num * (w0 + w1 + w2))); [destruct allow|]; discriminate.
Qed.

(** … and a successful read has consumed (w0+w1+w2) >= 1 bytes per entry: the number of entries (and the
    allocation) is bounded by the length of the data *)
Theorem stream_section_bounded : forall first num w0 w1 w2 data allow s rest,
  parse_xref_section_from_stream first num [w0; w1; w2] data allow = Ok (s, rest) ->
  0 < w0 + w1 + w2 /\ lenN data = lenN rest + lenN (entries s) * (w0 + w1 + w2) /\ lenN (entries s) <= lenN data.
Proof.
  intros first num w0 w1 w2 data allow s rest. unfold parse_xref_section_from_stream.
  destruct ((usize_max <=? w0 + w1) || (usize_max <=? w0 + w1 + w2)); [discriminate|].
  destruct (N.eqb_spec (w0 + w1 + w2) 0) as [|Hne]; [discriminate|].
  match goal with |- context [bind ?x _] => destruct x as [num'| | |] end; cbn [bind]; try discriminate.
  destruct (stream_entries_cases w0 w1 w2 (N.to_nat num') data []) as [[e He]|[es [rest' [Hs [Hle Hld]]]]]; rewrite ?He, ?Hs; cbn [bind]; [discriminate|].
  intros H. inversion H; subst. cbn [entries length] in *.
  assert (Hpos : 0 < w0 + w1 + w2) by lia. split; [exact Hpos|].
  assert (Hd : lenN data = lenN rest + lenN es * (w0 + w1 + w2)).
  { unfold lenN. rewrite Hld, Hle. cbn [plus]. lia. }
  split; [exact Hd|]. nia.
Qed.
