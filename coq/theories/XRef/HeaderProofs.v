(** XRef/HeaderProofs.v — C17: the header marker has no proper border, hence the first occurrence of
    the marker in prefix ++ file is at |prefix|; locate_start_offset and locate_xref_offset on
    prefixed files. *)
From PdfV Require Import Base.Prelude Gen.Generated XRef.Model XRef.Spec XRef.LexShift.

Lemma bytes_eqb_refl a : bytes_eqb a a = true.
Proof. induction a as [|x a IH]; cbn; [reflexivity|]. rewrite N.eqb_refl. exact IH. Qed.

Lemma bytes_eqb_eq a b : bytes_eqb a b = true <-> a = b.
Proof.
  split; [|intros ->; apply bytes_eqb_refl].
  revert b. induction a as [|x a IH]; intros [|y b]; cbn; try discriminate; auto.
  intros H. apply andb_true_iff in H. destruct H as [H1 H2]. apply N.eqb_eq in H1. f_equal; auto.
Qed.

Lemma starts_with_app pat l : starts_with pat l = true <-> exists r, l = pat ++ r.
Proof.
  revert l. induction pat as [|c pat IH]; intros l; cbn [starts_with].
  - split; [intros _; exists l; reflexivity|reflexivity].
  - destruct l as [|d l].
    + split; [discriminate|intros [r Hr]; discriminate].
    + rewrite andb_true_iff, N.eqb_eq, IH. split.
      * intros [-> [r ->]]. exists r. reflexivity.
      * intros [r Hr]. cbn in Hr. inversion Hr; subst. split; [reflexivity|exists r; reflexivity].
Qed.

(** an occurrence that starts inside [q] and does not fit into [q] overlaps the start of [s] *)
Lemma starts_with_straddle pat : forall q s, starts_with pat (q ++ s) = true -> (length q < length pat)%nat ->
  exists r, pat = q ++ r /\ starts_with r s = true.
Proof.
  induction pat as [|c pat IH]; intros q s H Hl; [cbn in Hl; lia|].
  destruct q as [|d q].
  - exists (c :: pat). split; [reflexivity|exact H].
  - cbn [app starts_with] in H. apply andb_true_iff in H. destruct H as [H1 H2]. apply N.eqb_eq in H1. subst d.
    cbn [length] in Hl. destruct (IH q s H2 ltac:(lia)) as [r [-> Hr]]. exists r. split; [reflexivity|exact Hr].
Qed.

Lemma starts_with_inside pat : forall q s, starts_with pat (q ++ s) = true -> (length pat <= length q)%nat ->
  starts_with pat q = true.
Proof.
  induction pat as [|c pat IH]; intros q s H Hl; [reflexivity|].
  destruct q as [|d q]; [cbn in Hl; lia|].
  cbn [app starts_with] in *. apply andb_true_iff in H. destruct H as [H1 H2]. rewrite H1. cbn [andb].
  apply (IH q s H2). cbn in Hl. lia.
Qed.

Lemma find_sub_none_cons pat a l : find_sub pat (a :: l) = None ->
  starts_with pat (a :: l) = false /\ find_sub pat l = None.
Proof.
  cbn [find_sub]. destruct (starts_with pat (a :: l)); [discriminate|].
  destruct (find_sub pat l); [discriminate|]. auto.
Qed.

(** general: a marker without proper border cannot straddle the end of a prefix that does not contain it *)
Theorem find_sub_prefix : forall pat p s, pat <> [] -> no_border pat = true ->
  find_sub pat p = None -> starts_with pat s = true -> find_sub pat (p ++ s) = Some (lenN p).
Proof.
  intros pat p s Hne Hnb. induction p as [|a p IH]; intros Hp Hs.
  - cbn [app]. destruct s as [|c s]; [destruct pat; [contradiction|discriminate]|].
    cbn [find_sub]. rewrite Hs. reflexivity.
  - destruct (find_sub_none_cons _ _ _ Hp) as [Hno Hp'].
    cbn [app find_sub].
    assert (Hf : starts_with pat (a :: p ++ s) = false).
    { destruct (starts_with pat (a :: p ++ s)) eqn:E; [|reflexivity]. exfalso.
      change (a :: p ++ s) with ((a :: p) ++ s) in E.
      destruct (Nat.le_gt_cases (length pat) (length (a :: p))) as [Hle|Hgt].
      - rewrite (starts_with_inside _ _ _ E Hle) in Hno. discriminate.
      - destruct (starts_with_straddle _ _ _ E Hgt) as [r [Hpat Hr]].
        (* r is a proper suffix of pat and, being a prefix of s like pat, a prefix of pat *)
        apply starts_with_app in Hr. destruct Hr as [s1 Hs1].
        apply starts_with_app in Hs. destruct Hs as [s2 Hs2].
        assert (Hk : (1 <= length (a :: p) < length pat)%nat) by (cbn [length] in *; lia).
        unfold no_border in Hnb. rewrite forallb_forall in Hnb.
        specialize (Hnb (length (a :: p))).
        assert (Hin : In (length (a :: p)) (seq 1 (length pat - 1))) by (apply in_seq; lia).
        specialize (Hnb Hin). apply negb_true_iff in Hnb.
        assert (Hsk : skipn (length (a :: p)) pat = r).
        { rewrite Hpat at 1. rewrite skipn_app, skipn_all, Nat.sub_diag. reflexivity. }
        assert (Hfi : firstn (length pat - length (a :: p)) pat = r).
        { assert (Hlr : (length pat - length (a :: p) = length r)%nat).
          { rewrite Hpat at 1. rewrite app_length. lia. }
          rewrite Hlr.
          assert (Hz : (length r - length pat = 0)%nat) by (rewrite Hpat, app_length; lia).
          assert (Hp1 : firstn (length r) s = r).
          { rewrite Hs1, firstn_app, Nat.sub_diag, firstn_all. cbn [firstn]. apply app_nil_r. }
          assert (Hp2 : firstn (length r) s = firstn (length r) pat).
          { rewrite Hs2, firstn_app, Hz. cbn [firstn]. apply app_nil_r. }
          congruence. }
        rewrite Hsk, Hfi, bytes_eqb_refl in Hnb. discriminate. }
    rewrite Hf, (IH Hp' Hs). f_equal. unfold lenN. cbn [length]. lia.
Qed.

(** by computation on the marker the code uses now *)
Lemma header_no_border : no_border xr_header = true.
Proof. vm_compute. reflexivity. Qed.
Lemma header_nonempty : xr_header <> [].
Proof. discriminate. Qed.
Lemma header_fits_window : lenN xr_header <= xr_header_window.
Proof. vm_compute. discriminate. Qed.

Lemma starts_with_firstn pat l n : starts_with pat l = true -> (length pat <= n)%nat ->
  starts_with pat (firstn n l) = true.
Proof.
  intros H Hn. apply starts_with_app in H. destruct H as [r ->]. apply starts_with_app.
  exists (firstn (n - length pat) r). rewrite firstn_app. f_equal. apply firstn_all2. exact Hn.
Qed.

Lemma find_sub_firstn_none pat l n : find_sub pat l = None -> (length l <= n)%nat -> find_sub pat (firstn n l) = None.
Proof. intros H Hn. rewrite firstn_all2 by exact Hn. exact H. Qed.

(** the header search finds the header behind any prefix that leaves it inside the window *)
Theorem locate_start_prefix : forall p f,
  find_sub xr_header p = None -> starts_with xr_header f = true ->
  lenN p + lenN xr_header <= xr_header_window ->
  locate_start_offset (p ++ f) = Ok (lenN p).
Proof.
  intros p f Hp Hf Hw. unfold locate_start_offset, take.
  set (n := N.to_nat (N.min xr_header_window (lenN (p ++ f)))).
  assert (Hlf : (length xr_header <= length f)%nat).
  { apply starts_with_app in Hf. destruct Hf as [r ->]. rewrite app_length. lia. }
  assert (Hn : (length p + length xr_header <= n)%nat).
  { unfold n, lenN in *. rewrite app_length. lia. }
  rewrite firstn_app.
  rewrite (firstn_all2 p) by lia.
  rewrite (find_sub_prefix xr_header p _ header_nonempty header_no_border Hp); [reflexivity|].
  apply starts_with_firstn; [exact Hf|lia].
Qed.

Corollary locate_start_plain : forall f, starts_with xr_header f = true -> locate_start_offset f = Ok 0.
Proof.
  intros f Hf. change f with ([] ++ f). apply (locate_start_prefix [] f); [reflexivity|exact Hf|].
  cbn. apply header_fits_window.
Qed.

(* ------------------------------------------------------------------ *)
(** * startxref *)

Lemma rfind_sub_app pat l1 l2 i : rfind_sub pat l2 = Some i -> rfind_sub pat (l1 ++ l2) = Some (lenN l1 + i).
Proof.
  intros H. induction l1 as [|a l1 IH]; [cbn; rewrite H; f_equal; unfold lenN; cbn; lia|].
  cbn [app rfind_sub]. rewrite IH. f_equal. unfold lenN. cbn [length]. lia.
Qed.

Lemma rfind_sub_some_nonempty pat l i : rfind_sub pat l = Some i -> l <> [].
Proof. destruct l; [discriminate|discriminate]. Qed.

(** the last `startxref` of a file that has one is found behind any prefix, and the number after it
    is read from the same bytes *)
Theorem locate_xref_prefix : forall p f x, locate_xref_offset f = Ok x -> locate_xref_offset (p ++ f) = Ok x.
Proof.
  intros p f x. unfold locate_xref_offset.
  destruct (rfind_sub xr_startxref_kw (take (lenN f - xr_from_end - 1) f)) as [i|] eqn:E; [|discriminate].
  intros H.
  assert (Hfe : xr_from_end = 0) by reflexivity. rewrite Hfe in *.
  assert (Hne : f <> []).
  { intros ->. cbn in E. discriminate. }
  assert (Hlen : (1 <= length f)%nat) by (destruct f; [contradiction|cbn; lia]).
  assert (Ht : take (lenN (p ++ f) - 0 - 1) (p ++ f) = p ++ take (lenN f - 0 - 1) f).
  { unfold take, lenN. rewrite app_length.
    replace (N.to_nat (N.of_nat (length p + length f) - 0 - 1)) with (length p + (length f - 1))%nat by lia.
    replace (N.to_nat (N.of_nat (length f) - 0 - 1)) with (length f - 1)%nat by lia.
    rewrite firstn_app. replace (length p + (length f - 1) - length p)%nat with (length f - 1)%nat by lia.
    rewrite firstn_all2 by lia. reflexivity. }
  rewrite Ht, (rfind_sub_app _ p _ _ E).
  assert (Hd : drop (lenN p + i + lenN xr_startxref_kw) (p ++ f) = drop (i + lenN xr_startxref_kw) f).
  { unfold drop, lenN. rewrite skipn_app.
    replace (N.to_nat (N.of_nat (length p) + i + N.of_nat (length xr_startxref_kw)) - length p)%nat
      with (N.to_nat (i + N.of_nat (length xr_startxref_kw))) by lia.
    rewrite skipn_all2 by lia. reflexivity. }
  cbv zeta in *. rewrite Hd.
  (* the lexeme after the keyword does not depend on the lexer position (XRef/LexShift.v) *)
  pose proof (next_lexeme_pos (lenN p + i + lenN xr_startxref_kw) (i + lenN xr_startxref_kw)
                (drop (i + lenN xr_startxref_kw) f)) as Hpos.
  destruct (next (mkLx (i + lenN xr_startxref_kw) (drop (i + lenN xr_startxref_kw) f))) as [[w s']| | |];
    cbn [bind rmap] in *; try discriminate.
  destruct (next (mkLx (lenN p + i + lenN xr_startxref_kw) (drop (i + lenN xr_startxref_kw) f))) as [[w2 s2]| | |];
    cbn [bind rmap] in *; try discriminate.
  inversion Hpos; subst. exact H.
Qed.
