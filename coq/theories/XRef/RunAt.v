(** XRef/RunAt.v — harness entry points of the composed readers of XRef/At.v (classic-table files):
    xr_section (one section + trailer at a position) and xr_open (load + resolve every number). *)
From PdfV Require Import Base.Prelude Gen.Generated XRef.Model XRef.Run XRef.At Syn.Prim Syn.Parser Syn.Canon.

Definition tolerant_of (f : bytes) : bool := match f with c :: _ => c =? 116 | [] => false end.

Definition text_of_size (o : option N) : bytes := match o with Some n => dec_of_N n | None => [45] end.
Definition text_of_prev (o : option (option N)) : bytes :=
  match o with None => [45] | Some None => [33] | Some (Some n) => dec_of_N n end.

(* mode xr_section: position, text, optional "q" (do not print the dictionary) — the text is lexed at that absolute position (Lexer::with_offset);
   output: the sections, then "/Size|- /Prev|-|!" , then the trailer dictionary *)
Definition run_xr_section (fs : list bytes) : res (list bytes) :=
  let pos := N_of_dec (field fs 0) in
  let text := field fs 1 in
  do (secs, d, _) <- read_xref_and_trailer_at no_resolve (mkLx pos text);
  let ti := tinfo_of (fun _ => 0) d in
  let quiet := match field fs 2 with c :: _ => c =? 113 | [] => false end in
  Ok (map text_of_section secs ++ [text_of_size (t_size ti) ++ 32 :: text_of_prev (t_prev ti)]
      ++ (if quiet then [] else [canon (PDict d)])).

Fixpoint resolve_all (fuel : nat) (allow : bool) (file : bytes) (start : N) (t : table) (n : N) : res (list bytes) :=
  match fuel with
  | O => Ok []
  | S f =>
      let one := resolve_ref prim (obj_at_parse no_resolve allow F_ANY) (fun _ _ _ => Err E_OTHER) 2 file start t n in
      do r <- resolve_all f allow file start t (n + 1);
      match one with
      | Ok v => Ok (canon_in file v :: r)
      | Err _ => Ok ([33] :: r)
      | Panic s => Panic s
      | OutOfFuel => OutOfFuel
      end
  end.

(* mode xr_open: opts count file — Storage::with_cache + load_storage_and_trailer, then resolve 0..count;
   output: one field per number (canon | "!"), then the trailer returned by the walk (the newest one) *)
Definition run_xr_open (fs : list bytes) : res (list bytes) :=
  let allow := tolerant_of (field fs 0) in
  let cnt := N_of_dec (field fs 1) in
  let file := field fs 2 in
  do (start, t, _) <- load (xref_at_tables no_resolve (fun _ => 0)) file;
  do xoff <- locate_xref_offset file;
  do (_, d, _) <- read_xref_and_trailer_at no_resolve (mkLx (start + xoff) (drop (start + xoff) file));
  do objs <- resolve_all (N.to_nat cnt) allow file start t 0;
  Ok (objs ++ [canon (PDict d)]).
