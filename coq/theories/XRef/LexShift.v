(** XRef/LexShift.v — the lexer position only labels: lexing the same bytes at another absolute
    position gives the same lexemes, every reported position moved by the difference. *)
From PdfV Require Import Base.Prelude Gen.Generated Lex.Lexer.

Definition shift_lx (d : N) (s : lx) : lx := mkLx (lpos s + d) (lrest s).

Lemma skip_while_shift P l : forall p d,
  skip_while P (p + d) l = (fst (skip_while P p l) + d, snd (skip_while P p l)).
Proof.
  induction l as [|b t IH]; intros p d; cbn [skip_while]; [reflexivity|].
  destruct (P b); [|reflexivity]. replace (p + d + 1) with (p + 1 + d) by lia. apply IH.
Qed.

Lemma after_eol_shift l : forall p d,
  after_eol (p + d) l = (fst (after_eol p l) + d, snd (after_eol p l)).
Proof.
  induction l as [|b t IH]; intros p d; cbn [after_eol]; [reflexivity|].
  destruct (memN b lex_comment_ends); cbn [fst snd].
  - f_equal. lia.
  - replace (p + d + 1) with (p + 1 + d) by lia. apply IH.
Qed.

Lemma skip_ws_shift d s : skip_ws (shift_lx d s) = option_map (shift_lx d) (skip_ws s).
Proof.
  unfold skip_ws, shift_lx. cbn [lpos lrest]. rewrite skip_while_shift.
  destruct (skip_while is_ws (lpos s) (lrest s)) as [q r]. cbn [fst snd].
  destruct r; reflexivity.
Qed.

Lemma skip_comments_shift d : forall fuel s,
  skip_comments fuel (shift_lx d s) = rmap (shift_lx d) (skip_comments fuel s).
Proof.
  induction fuel as [|f IH]; intros s; [reflexivity|].
  cbn [skip_comments]. change (lrest (shift_lx d s)) with (lrest s). change (lpos (shift_lx d s)) with (lpos s + d).
  destruct (lrest s) as [|b t] eqn:E; [reflexivity|].
  destruct (b =? lex_comment); [|reflexivity].
  replace (lpos s + d + 1) with (lpos s + 1 + d) by lia. rewrite after_eol_shift.
  destruct (after_eol (lpos s + 1) t) as [q r]. cbn [fst snd].
  change (mkLx (q + d) r) with (shift_lx d (mkLx q r)). rewrite skip_ws_shift.
  destruct (skip_ws (mkLx q r)) as [s2|]; cbn [option_map]; [apply IH|reflexivity].
Qed.

Definition shift_word (d : N) (r : bytes * N * lx) : bytes * N * lx :=
  let '(tok, st, s') := r in (tok, st + d, shift_lx d s').

Theorem next_word_shift d s : next_word (shift_lx d s) = rmap (shift_word d) (next_word s).
Proof.
  unfold next_word. unfold shift_lx at 1. cbn [lrest].
  destruct (lrest s) as [|b0 t0] eqn:E; [reflexivity|].
  replace (mkLx (lpos s + d) (b0 :: t0)) with (shift_lx d s) by (unfold shift_lx; rewrite E; reflexivity).
  rewrite skip_ws_shift. destruct (skip_ws s) as [s1|]; cbn [option_map]; [|reflexivity].
  change (lrest (shift_lx d s1)) with (lrest s1). rewrite skip_comments_shift.
  destruct (skip_comments (S (length (lrest s1))) s1) as [s2| | |]; cbn [rmap bind]; try reflexivity.
  change (lrest (shift_lx d s2)) with (lrest s2). change (lpos (shift_lx d s2)) with (lpos s2 + d).
  destruct (lrest s2) as [|b t]; [reflexivity|].
  destruct (is_delim b).
  - destruct (b =? SLASH).
    + destruct (span_reg t) as [tok r]. cbn [rmap shift_word]. unfold shift_lx. cbn [lpos lrest]. repeat (f_equal; try lia).
    + destruct t as [|b2 t2].
      * cbn [rmap shift_word]. unfold shift_lx. cbn [lpos lrest]. repeat (f_equal; try lia).
      * destruct (((b =? LT) && (b2 =? LT)) || ((b =? GT) && (b2 =? GT)));
          cbn [rmap shift_word]; unfold shift_lx; cbn [lpos lrest]; repeat (f_equal; try lia).
  - destruct (span_reg (b :: t)) as [tok r]. cbn [rmap shift_word]. unfold shift_lx. cbn [lpos lrest]. repeat (f_equal; try lia).
Qed.

Definition shift_tok (d : N) (r : bytes * lx) : bytes * lx := (fst r, shift_lx d (snd r)).

Theorem next_shift d s : next (shift_lx d s) = rmap (shift_tok d) (next s).
Proof.
  unfold next. rewrite next_word_shift. destruct (next_word s) as [[[tok st] s']| | |]; reflexivity.
Qed.

Theorem peek_shift d s : peek (shift_lx d s) = peek s.
Proof.
  unfold peek. rewrite next_word_shift. destruct (next_word s) as [[[tok st] s']| | |]; reflexivity.
Qed.

(** the lexeme does not depend on the position at all *)
Corollary next_lexeme_pos p q l : rmap fst (next (mkLx p l)) = rmap fst (next (mkLx q l)).
Proof.
  assert (H : forall a, rmap fst (next (mkLx a l)) = rmap fst (next (mkLx 0 l))).
  { intros a. change (mkLx a l) with (mkLx (0 + a) l). change (mkLx (0 + a) l) with (shift_lx a (mkLx 0 l)).
    rewrite next_shift. destruct (next (mkLx 0 l)) as [[t s']| | |]; reflexivity. }
  rewrite (H p), (H q). reflexivity.
Qed.
