(** XRef/Spec.v — specification objects of C02 / C17, written from ISO 32000-1 (§7.5.4 cross-reference
    table, §7.5.6 incremental updates, §7.5.8 cross-reference streams, implementation note on bytes
    before the header), independent of the code.  The only thing shared with the model is the
    vocabulary of entries ([xref]) and sections. *)
From PdfV Require Import Base.Prelude XRef.Model.

(* ------------------------------------------------------------------ *)
(** * update histories *)

(** what one update says about one object number *)
Inductive mention :=
| Direct (gen pos : N)          (* the object is written at byte offset [pos] (relative to the header) *)
| Compressed (sid idx : N)      (* the object is member [idx] of object stream [sid]; generation 0 by definition *)
| Freed (gen next : N).         (* the number is free; [gen] is the generation a reuse must take *)

Definition update := N -> option mention.
Definition history := list update.            (* oldest first *)

(** the mention of the most recent update that mentions [n] *)
Fixpoint latest (h : history) (n : N) : option mention :=
  match h with
  | [] => None
  | u :: r => match latest r n with Some m => Some m | None => u n end
  end.

Definition gen_of (m : mention) : N :=
  match m with Direct g _ => g | Compressed _ _ => 0 | Freed g _ => g end.

(** §7.5.4: freeing increments the generation, a reuse takes the generation of the free entry, a redefinition
    keeps it; §7.5.8: an object in an object stream has generation 0. *)
Definition step_ok (older newer : mention) : Prop :=
  match newer with
  | Freed g _ => match older with Freed g0 _ => g = g0 | _ => g = gen_of older + 1 end
  | Direct g _ => g = gen_of older
  | Compressed _ _ => gen_of older = 0
  end.

Fixpoint chain_ok (l : list mention) : Prop :=
  match l with
  | a :: r => match r with b :: _ => step_ok a b /\ chain_ok r | [] => True end
  | [] => True
  end.

(** all mentions of [n], oldest first *)
Definition trace (h : history) (n : N) : list mention :=
  flat_map (fun u : update => match u n with Some m => [m] | None => [] end) h.

Definition max_gen : N := 65535.

Definition wf_history (h : history) : Prop :=
  forall n, chain_ok (trace h n) /\ Forall (fun m => gen_of m <= max_gen) (trace h n).

(** the cross-reference entry that describes a mention *)
Definition xent_of (m : mention) : xref :=
  match m with
  | Direct g p => XRaw p g
  | Compressed s i => XStream s i
  | Freed g nx => XFree nx g
  end.
Definition xent_opt (o : option mention) : xref :=
  match o with Some m => xent_of m | None => XInvalid end.

(** the entries a list of (sub)sections gives for number [n], in order *)
Fixpoint pick_es (n i : N) (es : list xref) : list xref :=
  match es with
  | [] => []
  | e :: r => (if i =? n then [e] else []) ++ pick_es n (i + 1) r
  end.
Definition picks (n : N) (secs : list section) : list xref :=
  flat_map (fun s => pick_es n (first_id s) (entries s)) secs.

(** the sections of one update (any subsection split) list exactly its mentions, each number once *)
Definition represents (secs : list section) (u : update) : Prop :=
  forall n, picks n secs = match u n with Some m => [xent_of m] | None => [] end.

(* ------------------------------------------------------------------ *)
(** * the two section formats as printers *)

(** big-endian field of [w] bytes (§7.5.8.2) *)
Fixpoint be (w : nat) (v : N) : bytes :=
  match w with
  | O => []
  | S k => (v / 2 ^ (8 * N.of_nat k)) mod 256 :: be k v
  end.

Definition fits (w : N) (v : N) : Prop := v < 2 ^ (8 * w).

(** type / field 2 / field 3 of an entry (§7.5.8.3 table 18) *)
Definition fields_of (e : xref) : option (N * N * N) :=
  match e with
  | XFree nx g => Some (0, nx, g)
  | XRaw p g => Some (1, p, g)
  | XStream s i => Some (2, s, i)
  | _ => None
  end.

(** an entry can be written with widths w0 w1 w2: every field fits; a missing type field (w0 = 0)
    means type 1 *)
Definition entry_fits (w0 w1 w2 : N) (e : xref) : Prop :=
  match fields_of e with
  | Some (t, a, b) => (if w0 =? 0 then t = 1 else fits w0 t) /\ fits w1 a /\ fits w2 b
  | None => False
  end.

Definition print_entry (w0 w1 w2 : N) (e : xref) : bytes :=
  match fields_of e with
  | Some (t, a, b) => be (N.to_nat w0) t ++ be (N.to_nat w1) a ++ be (N.to_nat w2) b
  | None => []
  end.

Definition print_rows (w0 w1 w2 : N) (es : list xref) : bytes :=
  flat_map (print_entry w0 w1 w2) es.

(** the /Index array and the data of a list of subsections *)
Definition index_of (secs : list section) : list N :=
  flat_map (fun s => [first_id s; lenN (entries s)]) secs.
Definition print_stream (w0 w1 w2 : N) (secs : list section) : bytes :=
  flat_map (fun s => print_rows w0 w1 w2 (entries s)) secs.

(* ------------------------------------------------------------------ *)
(** * the classic cross-reference table as a printer (§7.5.4) *)

(** the three 2-byte end-of-line forms of a 20-byte entry: SP LF, SP CR, CR LF *)
Inductive eol := SpLf | SpCr | CrLf.
Definition eol_bytes (e : eol) : bytes :=
  match e with SpLf => [32; 10] | SpCr => [32; 13] | CrLf => [13; 10] end.

(** [k] decimal digits, most significant first, zero padded *)
Fixpoint digits (k : nat) (v : N) : bytes :=
  match k with
  | O => []
  | S j => (48 + (v / 10 ^ N.of_nat j) mod 10) :: digits j v
  end.

(** an entry a classic table can describe: in use or free, 10-digit offset / next free number, 5-digit generation *)
Definition row_fits (e : xref) : Prop :=
  match e with
  | XFree a g => a < 10 ^ 10 /\ g < 10 ^ 5
  | XRaw a g => a < 10 ^ 10 /\ g < 10 ^ 5
  | _ => False
  end.

(** "nnnnnnnnnn ggggg n eol" / "nnnnnnnnnn ggggg f eol" *)
Definition print_row (e : xref) (el : eol) : bytes :=
  match e with
  | XFree nx g => digits 10 nx ++ 32 :: digits 5 g ++ 32 :: 102 :: eol_bytes el
  | XRaw p g => digits 10 p ++ 32 :: digits 5 g ++ 32 :: 110 :: eol_bytes el
  | _ => []
  end.

Definition print_rows_t (es : list xref) (els : list eol) : bytes :=
  concat (map (fun x => print_row (fst x) (snd x)) (combine es els)).

(** white-space (ISO 32000-1 Table 1) *)
Definition iso_white : list N := [0; 9; 10; 12; 13; 32].
Definition gap (g : bytes) : Prop := Forall (fun b => In b iso_white) g.
(** delimiters (Table 2); a keyword ends at the end of the text, at white-space or at a delimiter *)
Definition iso_delim : list N := [40; 41; 60; 62; 91; 93; 123; 125; 47; 37].
Definition token_end (rest : bytes) : Prop :=
  match rest with b :: _ => In b iso_white \/ In b iso_delim | [] => True end.

(** the free choices of a writer: white-space before a subsection header, between its two numbers,
    after it, and the end-of-line form of every row; white-space after `xref` and before `trailer` *)
Record sub_layout := { l_pre : bytes; l_mid : bytes; l_heol : bytes; l_eols : list eol }.
Record layout := { l_first : bytes; l_subs : list sub_layout; l_end : bytes }.

Definition print_sub (L : sub_layout) (s : section) : bytes :=
  l_pre L ++ dec_of_N (first_id s) ++ l_mid L ++ dec_of_N (lenN (entries s)) ++ l_heol L
  ++ print_rows_t (entries s) (l_eols L).

Definition kw_xref : bytes := [120; 114; 101; 102].
Definition kw_trailer : bytes := [116; 114; 97; 105; 108; 101; 114].

Definition print_subs (Ls : list sub_layout) (secs : list section) : bytes :=
  concat (map (fun x => print_sub (fst x) (snd x)) (combine Ls secs)).

(** `xref` … subsections … `trailer` (the trailer dictionary follows) *)
Definition print_table_spec (L : layout) (secs : list section) : bytes :=
  kw_xref ++ l_first L ++ print_subs (l_subs L) secs ++ l_end L ++ kw_trailer.

Definition sub_ok (L : sub_layout) (s : section) : Prop :=
  gap (l_pre L) /\ gap (l_mid L) /\ l_mid L <> [] /\ gap (l_heol L) /\ l_heol L <> [] /\
  length (l_eols L) = length (entries s) /\ Forall row_fits (entries s) /\
  first_id s < 2 ^ 32 /\ lenN (entries s) < 2 ^ 32.

Definition layout_ok (L : layout) (secs : list section) : Prop :=
  gap (l_first L) /\ l_first L <> [] /\ gap (l_end L) /\ Forall2 sub_ok (l_subs L) secs.

(* ------------------------------------------------------------------ *)
(** * bytes before the header *)

(** [pat] has no proper border: no proper non-empty suffix is a prefix *)
Definition no_border (pat : bytes) : bool :=
  forallb (fun k => negb (bytes_eqb (skipn k pat) (firstn (length pat - k) pat))) (seq 1 (length pat - 1)).
