(** XRef/At.v — "read one cross-reference section at a position" and "read one object at a position",
    composed from the table reader of XRef/Model.v and the shared object parser model (Syn/Parser.v):
    pdf/src/parser/parse_xref.rs (read_xref_and_trailer_at, classic branch; parse_xref_table_and_trailer),
    pdf/src/backend.rs (what read_xref_table_and_trailer reads in a trailer), pdf/src/file.rs (resolve_ref,
    Raw branch).  These are the concrete functions behind the oracles [xref_at] / [obj_at] of the Walk and
    Front sections of XRef/Model.v for classic-table files.  No proofs in this file. *)
From PdfV Require Import Base.Prelude Gen.Generated XRef.Model Syn.Prim Syn.Parser.

Definition key_Size : bytes := [83; 105; 122; 101].
Definition key_Prev : bytes := [80; 114; 101; 118].

Section At.
  (* the resolver handed to the parser (only consulted for an indirect /Length of a stream) *)
  Variable R : resolver.
  (* what identifies a trailer dictionary to the caller (the dictionary itself is returned by the code) *)
  Variable tid : dict -> N.

  (* backend.rs: read_xref_table_and_trailer — trailer.get("Size")….as_u32(), trailer.get("Prev") … p.as_usize() *)
  Definition tinfo_of (d : dict) : tinfo :=
    {| t_size := match dict_get key_Size d with
                 | Some (PInt z) => if (0 <=? z)%Z then Some (Z.to_N z) else None
                 | _ => None
                 end;
       t_prev := match dict_get key_Prev d with
                 | None => None
                 | Some (PInt z) => if (0 <=? z)%Z then Some (Some (Z.to_N z)) else Some None
                 | Some _ => Some None
                 end;
       t_id := tid d |}.

  (* parse_xref.rs: parse_xref_table_and_trailer — the table, next_expect("trailer") (inside parse_xref_table),
     parse_with_lexer(lexer, resolve, ParseFlags::DICT), into_dictionary *)
  Definition parse_xref_table_and_trailer (s : lx) : res (list section * dict * lx) :=
    do (secs, s1) <- parse_xref_table s;
    do (v, s2) <- parse_ctx R None F_DICT MAX_DEPTH s1;
    match v with
    | PDict d => Ok (secs, d, s2)
    | _ => Err E_PRIM
    end.

  (* parse_xref.rs: read_xref_and_trailer_at — `lexer.next()? == "xref"`: the classic table.  Otherwise the
     code goes back and reads a cross-reference stream object (parse_xref_stream_and_trailer: filters, XRefInfo);
     that branch is not composed here and reports an error value. *)
  Definition read_xref_and_trailer_at (s : lx) : res (list section * dict * lx) :=
    do (w, s1) <- next s;
    if bytes_eqb w xr_kw_xref then parse_xref_table_and_trailer s1 else Err E_OTHER.

  (* backend.rs: Lexer::with_offset(self.read(pos..), pos); read_xref_and_trailer_at — the oracle [xref_at]
     of XRef/Model.v (callers have checked pos <= len) *)
  Definition xref_at_tables (file : bytes) (pos : N) : res (list section * tinfo) :=
    do (secs, d, _) <- read_xref_and_trailer_at (mkLx pos (drop pos file));
    Ok (secs, tinfo_of d).

  (* file.rs: resolve_ref, XRef::Raw — Lexer::with_offset(read(pos..), pos); parse_indirect_object(..).1 :
     the oracle [obj_at] of XRef/Model.v *)
  Definition obj_at_parse (allow_missing_endobj : bool) (flags : N) (file : bytes) (pos : N) : res prim :=
    do (_, _, v, _) <- parse_indirect_object R allow_missing_endobj flags (mkLx pos (drop pos file));
    Ok v.
End At.
