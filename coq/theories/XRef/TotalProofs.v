(** XRef/TotalProofs.v — C02 / C01-style totality of the classic-table reader on the shared lexer: for ALL
    inputs next_word, read_xref_table_at and locate_xref_offset end in a value or an error value — no panic
    site, and the fuel the model hands to its loops always suffices (every iteration consumes input). *)
From PdfV Require Import Base.Prelude Gen.Generated XRef.Model.

(** * the lexer always makes progress and never runs out of fuel *)
Definition head_nonws (l : bytes) : Prop := match l with b :: _ => is_ws b = false | [] => False end.

Lemma skip_while_len P l : forall p, (length (snd (skip_while P p l)) <= length l)%nat.
Proof.
  induction l as [|b t IH]; intros p; cbn [skip_while]; [cbn; lia|].
  destruct (P b); [specialize (IH (p + 1)); cbn [length]; lia|cbn [snd length]; lia].
Qed.

Lemma skip_while_head P l : forall p, match snd (skip_while P p l) with b :: _ => P b = false | [] => True end.
Proof.
  induction l as [|b t IH]; intros p; cbn [skip_while]; [exact I|].
  destruct (P b) eqn:E; [apply IH|cbn [snd]; exact E].
Qed.

Lemma skip_ws_spec s s1 : skip_ws s = Some s1 -> (length (lrest s1) <= length (lrest s))%nat /\ head_nonws (lrest s1).
Proof.
  unfold skip_ws. pose proof (skip_while_len is_ws (lrest s) (lpos s)) as Hl.
  pose proof (skip_while_head is_ws (lrest s) (lpos s)) as Hh.
  destruct (skip_while is_ws (lpos s) (lrest s)) as [q r]. cbn [snd] in *.
  destruct r as [|b r']; [discriminate|]. intros H. inversion H; subst. cbn [lrest]. split; [exact Hl|exact Hh].
Qed.

Lemma after_eol_len l : forall p, (length (snd (after_eol p l)) <= length l)%nat.
Proof.
  induction l as [|b t IH]; intros p; cbn [after_eol]; [cbn; lia|].
  destruct (memN b lex_comment_ends); [cbn [snd length]; lia|specialize (IH (p + 1)); cbn [length]; lia].
Qed.

Lemma skip_comments_spec : forall fuel s, head_nonws (lrest s) -> (length (lrest s) < fuel)%nat ->
  match skip_comments fuel s with
  | Ok s2 => (length (lrest s2) <= length (lrest s))%nat /\ head_nonws (lrest s2)
  | Err _ => True
  | _ => False
  end.
Proof.
  induction fuel as [|f IH]; intros s Hh Hf; [lia|].
  cbn [skip_comments]. destruct (lrest s) as [|b t] eqn:E; [contradiction|].
  destruct (b =? lex_comment).
  - pose proof (after_eol_len t (lpos s + 1)) as Hl. destruct (after_eol (lpos s + 1) t) as [q r]. cbn [snd] in Hl.
    destruct (skip_ws (mkLx q r)) as [s2|] eqn:Es; [|exact I].
    destruct (skip_ws_spec _ _ Es) as [Hl2 Hh2]. cbn [lrest] in Hl2.
    specialize (IH s2 Hh2 ltac:(cbn [length] in Hf; lia)).
    destruct (skip_comments f s2) as [s3| | |]; try exact IH.
    destruct IH as [Hl3 Hh3]. split; [cbn [length]; lia|exact Hh3].
  - rewrite E. split; [lia|exact Hh].
Qed.

Lemma span_reg_len l : (length (snd (span_reg l)) <= length l)%nat.
Proof.
  induction l as [|b t IH]; [cbn; lia|]. cbn [span_reg]. destruct (is_reg b); [|cbn [snd length]; lia].
  destruct (span_reg t) as [tok r]. cbn [snd length] in *. lia.
Qed.

(** next_word: a value or an error value — never a panic, never out of fuel — and a success consumed input *)
Lemma next_word_total s :
  match next_word s with
  | Ok (_, _, s') => (length (lrest s') < length (lrest s))%nat
  | Err _ => True
  | _ => False
  end.
Proof.
  unfold next_word. destruct (lrest s) as [|b0 t0] eqn:E0; [exact I|].
  destruct (skip_ws s) as [s1|] eqn:E1; [|exact I].
  destruct (skip_ws_spec _ _ E1) as [Hl1 Hh1]. rewrite E0 in Hl1.
  pose proof (skip_comments_spec (S (length (lrest s1))) s1 Hh1 ltac:(lia)) as Hc.
  destruct (skip_comments (S (length (lrest s1))) s1) as [s2| | |]; cbn [bind]; try exact Hc.
  destruct Hc as [Hl2 Hh2]. destruct (lrest s2) as [|b t] eqn:E2; [exact I|]. cbn [head_nonws] in Hh2.
  cbn [length] in *.
  destruct (is_delim b) eqn:Ed.
  - destruct (b =? SLASH).
    + pose proof (span_reg_len t) as Hs. destruct (span_reg t) as [tok r]. cbn [snd lrest] in *. lia.
    + destruct t as [|b2 t2]; [cbn [lrest length]; lia|].
      destruct (((b =? LT) && (b2 =? LT)) || ((b =? GT) && (b2 =? GT))); cbn [lrest length] in *; lia.
  - assert (Hr : is_reg b = true) by (unfold is_reg; rewrite Hh2, Ed; reflexivity).
    pose proof (span_reg_len t) as Hs. cbn [span_reg]. rewrite Hr. destruct (span_reg t) as [tok r]. cbn [snd lrest] in *. lia.
Qed.

Lemma next_total s :
  match next s with
  | Ok (_, s') => (length (lrest s') < length (lrest s))%nat
  | Err _ => True
  | _ => False
  end.
Proof.
  unfold next. pose proof (next_word_total s) as H. destruct (next_word s) as [[[t p] s']| | |]; cbn [bind]; exact H.
Qed.

Lemma peek_total s : match peek s with Ok _ => True | Err _ => True | _ => False end.
Proof.
  unfold peek. pose proof (next_word_total s) as H. destruct (next_word s) as [[[t p] s']|e| |]; try exact H; try exact I.
  destruct (e =? E_EOF); exact I.
Qed.

Lemma parse_uint_total bits w : match parse_uint bits w with Ok _ => True | Err _ => True | _ => False end.
Proof.
  unfold parse_uint. destruct (match w with c :: r => if c =? 43 then r else w | [] => [] end) as [|c0 l0]; [exact I|].
  destruct (forallb is_digit (c0 :: l0)); [|exact I]. destruct (N_of_dec (c0 :: l0) <? 2 ^ bits); exact I.
Qed.

(** * the table reader is total: the fuel it is given always suffices *)
Lemma table_entries_total : forall fuel cnt s acc, (length (lrest s) < fuel)%nat ->
  match table_entries fuel cnt s acc with
  | Ok (_, s') => (length (lrest s') <= length (lrest s))%nat
  | Err _ => True
  | _ => False
  end.
Proof.
  induction fuel as [|f IH]; intros cnt s acc Hf; [lia|].
  cbn [table_entries]. destruct (cnt =? 0); [lia|].
  pose proof (next_total s) as H1. destruct (next s) as [[w1 s1]| | |]; cbn [bind]; try exact H1.
  destruct (bytes_eqb w1 xr_kw_trailer); [exact I|].
  pose proof (next_total s1) as H2. destruct (next s1) as [[w2 s2]| | |]; cbn [bind]; try exact H2.
  pose proof (next_total s2) as H3. destruct (next s2) as [[w3 s3]| | |]; cbn [bind]; try exact H3.
  destruct (bytes_eqb w3 xr_kw_f).
  - pose proof (parse_uint_total xr_bits_free_next w1) as P1. destruct (parse_uint xr_bits_free_next w1) as [a| | |]; cbn [bind]; try exact P1.
    pose proof (parse_uint_total xr_bits_free_gen w2) as P2. destruct (parse_uint xr_bits_free_gen w2) as [g| | |]; cbn [bind]; try exact P2.
    specialize (IH (cnt - 1) s3 (XFree a g :: acc) ltac:(lia)).
    destruct (table_entries f (cnt - 1) s3 (XFree a g :: acc)) as [[es s']| | |]; try exact IH. lia.
  - destruct (bytes_eqb w3 xr_kw_n); [|exact I].
    pose proof (parse_uint_total xr_bits_pos w1) as P1. destruct (parse_uint xr_bits_pos w1) as [a| | |]; cbn [bind]; try exact P1.
    pose proof (parse_uint_total xr_bits_gen w2) as P2. destruct (parse_uint xr_bits_gen w2) as [g| | |]; cbn [bind]; try exact P2.
    specialize (IH (cnt - 1) s3 (XRaw a g :: acc) ltac:(lia)).
    destruct (table_entries f (cnt - 1) s3 (XRaw a g :: acc)) as [[es s']| | |]; try exact IH. lia.
Qed.

Lemma table_sections_total : forall fuel s acc, (length (lrest s) < fuel)%nat ->
  match table_sections fuel s acc with
  | Ok (_, s') => (length (lrest s') < length (lrest s))%nat
  | Err _ => True
  | _ => False
  end.
Proof.
  induction fuel as [|f IH]; intros s acc Hf; [lia|].
  cbn [table_sections]. pose proof (peek_total s) as Hp. destruct (peek s) as [pk| | |]; cbn [bind]; try exact Hp.
  pose proof (next_total s) as H1.
  destruct (bytes_eqb pk xr_kw_trailer).
  - destruct (next s) as [[w s1]| | |]; cbn [bind]; exact H1.
  - destruct (next s) as [[ws s1]| | |]; cbn [bind]; try exact H1.
    pose proof (parse_uint_total xr_bits_first ws) as P1. destruct (parse_uint xr_bits_first ws) as [start| | |]; cbn [bind]; try exact P1.
    pose proof (next_total s1) as H2. destruct (next s1) as [[wn s2]| | |]; cbn [bind]; try exact H2.
    pose proof (parse_uint_total xr_bits_count wn) as P2. destruct (parse_uint xr_bits_count wn) as [num| | |]; cbn [bind]; try exact P2.
    pose proof (table_entries_total (S (length (lrest s2))) num s2 [] ltac:(lia)) as H3.
    destruct (table_entries (S (length (lrest s2))) num s2 []) as [[es s3]| | |]; cbn [bind]; try exact H3.
    specialize (IH s3 ({| first_id := start; entries := es |} :: acc) ltac:(lia)).
    destruct (table_sections f s3 ({| first_id := start; entries := es |} :: acc)) as [[secs s']| | |]; try exact IH. lia.
Qed.

(** for ALL inputs the classic-table reader ends in a value or an error value (no panic site, the fuel of the
    model always suffices), and a success consumed input *)
Theorem read_xref_table_at_total : forall s, no_panic (read_xref_table_at s).
Proof.
  intros s. unfold read_xref_table_at.
  pose proof (next_total s) as H1. destruct (next s) as [[w s1]| | |]; cbn [bind no_panic]; try exact H1; try exact I.
  destruct (bytes_eqb w xr_kw_xref); [|exact I].
  unfold parse_xref_table. pose proof (table_sections_total (S (length (lrest s1))) s1 [] ltac:(lia)) as H.
  destruct (table_sections (S (length (lrest s1))) s1 []) as [[secs s']| | |]; try exact H; exact I.
Qed.

(** … and so is locate_xref_offset *)
Theorem locate_xref_offset_total : forall file, no_panic (locate_xref_offset file).
Proof.
  intros file. unfold locate_xref_offset.
  destruct (rfind_sub xr_startxref_kw (take (lenN file - xr_from_end - 1) file)) as [i|]; [|exact I]. cbv zeta.
  pose proof (next_total (mkLx (i + lenN xr_startxref_kw) (drop (i + lenN xr_startxref_kw) file))) as H.
  destruct (next (mkLx (i + lenN xr_startxref_kw) (drop (i + lenN xr_startxref_kw) file))) as [[w s']| | |]; cbn [bind no_panic]; try exact H; try exact I.
  pose proof (parse_uint_total xr_startxref_bits w) as P. destruct (parse_uint xr_startxref_bits w); try exact P; exact I.
Qed.
