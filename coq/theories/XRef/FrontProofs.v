(** XRef/FrontProofs.v — the /Prev walk (C02) and invariance of reading under bytes before the
    header (C17).  The object parser is a family of Section oracles; what is assumed about it is
    stated as explicit premises of the theorems (nothing is assumed globally). *)
From PdfV Require Import Base.Prelude Gen.Generated XRef.Model XRef.Spec XRef.MergeProofs XRef.HeaderProofs.

Lemma add_sections_app a : forall t b,
  add_sections t (a ++ b) = (do t1 <- add_sections t a; add_sections t1 b).
Proof.
  induction a as [|s a IH]; intros t b; [reflexivity|].
  cbn [app add_sections]. destruct (add_entries_from t s); cbn [bind]; auto.
Qed.

Lemma memN_false x l : ~ In x l -> memN x l = false.
Proof.
  intros H. destruct (memN x l) eqn:E; [|reflexivity]. apply memN_In in E. contradiction.
Qed.

(* ------------------------------------------------------------------ *)
(** * C02: the walk along /Prev merges every section of the chain, newest first *)
Section WalkChain.
  Variable xref_at : N -> res (list section * tinfo).
  Variable file_len : N.
  Variable start : N.

  (** the sections older than the current one, as the /Prev entries link them *)
  Inductive linked : option (option N) -> list (N * list section) -> Prop :=
  | linked_nil : linked None []
  | linked_cons q secs tr rest :
      xref_at (start + q) = Ok (secs, tr) -> linked (t_prev tr) rest ->
      linked (Some (Some q)) ((q, secs) :: rest).

  Lemma walk_chain : forall older prev, linked prev older ->
    forall fuel t seen t',
    NoDup (map fst older) -> (forall q, In q (map fst older) -> ~ In q seen) ->
    (forall q, In q (map fst older) -> start + q < file_len) -> file_len < usize_max ->
    (length older <= fuel)%nat ->
    add_sections t (concat (map snd older)) = Ok t' ->
    walk xref_at file_len fuel start t seen prev = Ok t'.
  Proof.
    induction 1 as [|q secs tr rest Hx Hl IH]; intros fuel t seen t' Hnd Hseen Hb Hfl Hfuel Hadd.
    - cbn in Hadd. inversion Hadd; subst. destruct fuel; reflexivity.
    - cbn [map fst snd concat length] in *. destruct fuel as [|fuel]; [lia|].
      cbn [walk]. rewrite memN_false by (apply Hseen; left; reflexivity).
      assert (Hq : start + q < file_len) by (apply Hb; left; reflexivity).
      assert (H1 : usize_max <=? start + q = false) by (apply N.leb_gt; lia). rewrite H1.
      assert (H2 : file_len <? start + q = false) by (apply N.ltb_ge; lia). rewrite H2.
      rewrite Hx. cbn [bind].
      rewrite add_sections_app in Hadd. destruct (add_sections t secs) as [t1| | |]; cbn [bind] in *; try discriminate.
      inversion Hnd as [|? ? Hnotin Hnd']; subst.
      apply IH; auto; try lia.
      + intros q' Hq' [<-|Hs]; [contradiction|]. apply (Hseen q'); [right; exact Hq'|exact Hs].
      + intros q' Hq'. apply Hb. right. exact Hq'.
  Qed.

  Theorem walk_merges : forall q0 secs0 tr0 older size fuel t,
    xref_at (start + q0) = Ok (secs0, tr0) -> t_size tr0 = Some size -> size <= xr_max_id ->
    linked (t_prev tr0) older -> NoDup (map fst older) ->
    (forall q, In q (q0 :: map fst older) -> start + q < file_len) -> file_len < usize_max ->
    (length older <= fuel)%nat ->
    merge size (secs0 ++ concat (map snd older)) = Ok t ->
    read_xref_table_and_trailer xref_at file_len fuel start q0 = Ok (t, t_id tr0).
  Proof.
    intros q0 secs0 tr0 older size fuel t Hx Hs Hm Hl Hnd Hb Hfl Hfuel Hmerge.
    unfold read_xref_table_and_trailer.
    assert (Hq : start + q0 < file_len) by (apply Hb; left; reflexivity).
    assert (H1 : usize_max <=? start + q0 = false) by (apply N.leb_gt; lia). rewrite H1.
    assert (H2 : file_len <=? start + q0 = false) by (apply N.leb_gt; lia). rewrite H2.
    rewrite Hx. cbn [bind]. rewrite Hs.
    assert (H3 : xr_max_id <? size = false) by (apply N.ltb_ge; exact Hm). rewrite H3.
    unfold merge in Hmerge. rewrite add_sections_app in Hmerge.
    destruct (add_sections (table_new size) secs0) as [t1| | |]; cbn [bind] in *; try discriminate.
    rewrite (walk_chain older (t_prev tr0) Hl fuel t1 [] t); auto.
    intros q Hq'. apply Hb. right. exact Hq'.
  Qed.
End WalkChain.

(** C02 on the whole chain: after the walk every number below /Size has the entry of the most recent
    update that mentions it, and the trailer returned is the newest one *)
Theorem walk_latest : forall xref_at file_len start (h : history) secss q0 secs0 tr0 older size fuel n,
  Forall2 represents secss h -> wf_history h ->
  map snd ((q0, secs0) :: older) = rev secss ->
  xref_at (start + q0) = Ok (secs0, tr0) -> t_size tr0 = Some size -> size <= xr_max_id ->
  linked xref_at start (t_prev tr0) older -> NoDup (map fst older) ->
  (forall q, In q (q0 :: map fst older) -> start + q < file_len) -> file_len < usize_max ->
  (length older <= fuel)%nat -> n < size ->
  exists t, read_xref_table_and_trailer xref_at file_len fuel start q0 = Ok (t, t_id tr0) /\
            table_get t n = Ok (xent_opt (latest h n)).
Proof.
  intros xref_at file_len start h secss q0 secs0 tr0 older size fuel n Hr Hwf Hmap Hx Hs Hm Hl Hnd Hb Hfl Hfuel Hn.
  destruct (merge_latest h secss size n Hr Hwf Hn) as [t [Hmerge Hget]].
  exists t. split; [|exact Hget].
  eapply walk_merges; eauto.
  rewrite <- Hmap in Hmerge. cbn [map snd concat] in Hmerge. exact Hmerge.
Qed.

(* ------------------------------------------------------------------ *)
(** * C17: bytes before the header *)

Lemma rmap_id {A} (r : res A) : rmap (fun x => x) r = r.
Proof. destruct r; reflexivity. Qed.

Section Prefix.
  Variable value : Type.
  Variable xref_at : bytes -> N -> res (list section * tinfo).
  Variable obj_at : bytes -> N -> res value.
  Variable member : bytes -> value -> N -> res value.
  Variable scan_slice : bytes -> bytes -> N -> list (res value).
  (** moving every absolute file range inside a value by k *)
  Variable shift : N -> value -> value.

  Variables p f : bytes.
  Let k := lenN p.

  (** premises about the object parser: it looks at the slice it is given, and the lexer offset
      (Lexer::with_offset) only labels the file ranges it reports *)
  Hypothesis Hx : forall pos, xref_at (p ++ f) (k + pos) = xref_at f pos.
  Hypothesis Ho : forall pos, obj_at (p ++ f) (k + pos) = rmap (shift k) (obj_at f pos).
  Hypothesis Hm : forall v i, member (p ++ f) (shift k v) i = rmap (shift k) (member f v i).
  Hypothesis Hsc : forall s o, scan_slice (p ++ f) s (k + o) = map (rmap (shift k)) (scan_slice f s o).

  Hypothesis Hlen : lenN (p ++ f) < usize_max.

  Lemma len_pf : lenN (p ++ f) = k + lenN f.
  Proof. unfold k, lenN. rewrite app_length. lia. Qed.

  Lemma walk_fuel_mono xa fl : forall fuel start t seen prev t',
    walk xa fl fuel start t seen prev = Ok t' -> forall fuel', (fuel <= fuel')%nat ->
    walk xa fl fuel' start t seen prev = Ok t'.
  Proof.
    induction fuel as [|fuel IH]; intros start t seen prev t' H fuel' Hle.
    - destruct prev as [[q|]|]; cbn in H; try discriminate. destruct fuel'; exact H.
    - destruct fuel' as [|fuel']; [lia|]. destruct prev as [[q|]|]; cbn [walk] in *; try exact H.
      destruct (memN q seen); [discriminate|]. destruct (usize_max <=? start + q); [discriminate|].
      destruct (fl <? start + q); [discriminate|].
      destruct (xa (start + q)) as [[ss tr]| | |]; cbn [bind] in *; try discriminate.
      destruct (add_sections t ss) as [t1| | |]; cbn [bind] in *; try discriminate.
      apply (IH _ _ _ _ _ H). lia.
  Qed.

  (** a successful walk on the file is the same walk on the prefixed file, every offset moved by k *)
  Lemma walk_prefix : forall fuel t seen prev t',
    walk (xref_at f) (lenN f) fuel 0 t seen prev = Ok t' ->
    walk (xref_at (p ++ f)) (lenN (p ++ f)) fuel k t seen prev = Ok t'.
  Proof.
    induction fuel as [|fuel IH]; intros t seen prev t' H.
    - destruct prev as [[q|]|]; cbn in *; try discriminate; exact H.
    - destruct prev as [[q|]|]; cbn [walk] in *; try discriminate; try exact H.
      destruct (memN q seen); [discriminate|].
      destruct (usize_max <=? 0 + q); [discriminate|].
      destruct (N.ltb_spec (lenN f) (0 + q)) as [|Hq]; [discriminate|].
      pose proof len_pf as Hl.
      assert (H1 : usize_max <=? k + q = false) by (apply N.leb_gt; lia). rewrite H1.
      assert (H2 : lenN (p ++ f) <? k + q = false) by (apply N.ltb_ge; lia). rewrite H2.
      rewrite Hx. replace (0 + q) with q in H by lia.
      destruct (xref_at f q) as [[ss tr]| | |]; cbn [bind] in *; try discriminate.
      destruct (add_sections t ss) as [t1| | |]; cbn [bind] in *; try discriminate.
      apply IH. exact H.
  Qed.

  Hypothesis Hhdr : starts_with xr_header f = true.
  Hypothesis Hnop : find_sub xr_header p = None.
  Hypothesis Hwin : lenN p + lenN xr_header <= xr_header_window.

  (** loading: the same cross-reference table and the same trailer; the header is found at |p| *)
  Theorem load_prefix : forall s t tid,
    load xref_at f = Ok (s, t, tid) -> s = 0 /\ load xref_at (p ++ f) = Ok (k, t, tid).
  Proof.
    intros s t tid. unfold load.
    rewrite (locate_start_plain f Hhdr), (locate_start_prefix p f Hnop Hhdr Hwin). cbn [bind].
    destruct (locate_xref_offset f) as [xoff| | |] eqn:Ex; cbn [bind]; try discriminate.
    rewrite (locate_xref_prefix p f xoff Ex). cbn [bind].
    unfold read_xref_table_and_trailer. fold k.
    destruct (usize_max <=? 0 + xoff); [discriminate|].
    destruct (N.leb_spec (lenN f) (0 + xoff)) as [|Hq]; [discriminate|].
    pose proof len_pf as Hl.
    assert (H1 : usize_max <=? k + xoff = false) by (apply N.leb_gt; lia). rewrite H1.
    assert (H2 : lenN (p ++ f) <=? k + xoff = false) by (apply N.leb_gt; lia). rewrite H2.
    rewrite Hx. replace (0 + xoff) with xoff by lia.
    destruct (xref_at f xoff) as [[ss tr]| | |]; cbn [bind]; try discriminate.
    destruct (t_size tr) as [size|]; [|discriminate].
    destruct (xr_max_id <? size); [discriminate|].
    destruct (add_sections (table_new size) ss) as [t1| | |]; cbn [bind]; try discriminate.
    destruct (walk (xref_at f) (lenN f) (S (length f)) 0 t1 [] (t_prev tr)) as [t2| | |] eqn:Ew; cbn [bind]; try discriminate.
    intros H. inversion H; subst. split; [reflexivity|].
    apply walk_prefix in Ew.
    rewrite (walk_fuel_mono _ _ _ _ _ _ _ _ Ew (S (length (p ++ f)))) by (rewrite app_length; lia).
    reflexivity.
  Qed.

  (** resolving: the same outcome for every table and every object number, absolute ranges moved by k.
      An offset with k + pos >= 2^64 (file.rs: checked_add) is beyond the end of both files, because
      |p ++ f| < 2^64: both report ContentReadPastBoundary. *)
  Theorem resolve_prefix : forall t fuel id,
    resolve_ref value obj_at member fuel (p ++ f) k t id = rmap (shift k) (resolve_ref value obj_at member fuel f 0 t id).
  Proof.
    clear Hhdr Hnop Hwin. intros t. induction fuel as [|fuel IH]; intros id; [reflexivity|].
    cbn [resolve_ref]. unfold table_get.
    destruct (nthN t id) as [e|] eqn:En; cbn [bind rmap]; [|reflexivity].
    destruct e as [nx g|pos g|sid idx| |]; try reflexivity.
    - pose proof len_pf as Hl. rewrite Hl in Hlen. rewrite Hl.
      destruct (N.leb_spec usize_max (k + pos)) as [Hov|Hov].
      + (* the sum does not fit: pos lies beyond the end of f as well *)
        destruct (N.leb_spec usize_max (0 + pos)) as [H0|H0]; [reflexivity|].
        assert (H3 : lenN f <? 0 + pos = true) by (apply N.ltb_lt; lia). rewrite H3. reflexivity.
      + assert (H2 : usize_max <=? 0 + pos = false) by (apply N.leb_gt; lia). rewrite H2.
        destruct (N.ltb_spec (lenN f) (0 + pos)) as [Hb|Hb].
        * assert (H3 : k + lenN f <? k + pos = true) by (apply N.ltb_lt; lia). rewrite H3. reflexivity.
        * assert (H3 : k + lenN f <? k + pos = false) by (apply N.ltb_ge; lia). rewrite H3.
          rewrite Ho. replace (0 + pos) with pos by lia. reflexivity.
    - rewrite IH. destruct (resolve_ref value obj_at member fuel f 0 t sid); cbn [rmap bind]; try reflexivity.
      apply Hm.
  Qed.

  (** the recovery scan lists the same items *)
  Theorem scan_prefix : forall items,
    scan value scan_slice f 0 = Ok items ->
    scan value scan_slice (p ++ f) k = Ok (map (rmap (shift k)) items).
  Proof.
    intros items. unfold scan.
    destruct (locate_xref_offset f) as [xoff| | |] eqn:Ex; cbn [bind]; try discriminate.
    rewrite (locate_xref_prefix p f xoff Ex). cbn [bind].
    destruct (usize_max <=? 0 + xoff); [discriminate|].
    unfold read_range. replace (0 + xoff) with xoff by lia.
    assert (H0 : 0 <=? xoff = true) by (apply N.leb_le; lia). rewrite H0. cbn [andb].
    destruct (N.leb_spec xoff (lenN f)) as [Hb|]; [|discriminate]. cbn [bind].
    pose proof len_pf as Hl.
    assert (H1 : usize_max <=? k + xoff = false) by (apply N.leb_gt; lia). rewrite H1.
    assert (H2 : (k <=? k + xoff) && (k + xoff <=? lenN (p ++ f)) = true).
    { apply andb_true_iff. split; apply N.leb_le; lia. }
    rewrite H2. cbn [bind].
    intros H. inversion H; subst. f_equal.
    assert (Hd : take (k + xoff - k) (drop k (p ++ f)) = take (xoff - 0) (drop 0 f)).
    { unfold take, drop, k, lenN. rewrite skipn_app, Nat2N.id, Nat.sub_diag, skipn_all. cbn [app skipn N.to_nat].
      f_equal. lia. }
    rewrite Hd, <- Hsc. f_equal. lia.
  Qed.
End Prefix.

(* ------------------------------------------------------------------ *)
(** * the statements that are false, with witnesses *)

(** file.rs:247 before the repair — `self.start_offset + pos` was an unchecked addition: for an entry
    whose offset is close to 2^64 the prefixed file panicked (debug; wrap-around in release) where the
    plain file reports an error value.  Oracles instantiated with constants. *)
Fixpoint resolve_ref_old (value : Type) (obj_at : bytes -> N -> res value) (member : bytes -> value -> N -> res value)
    (fuel : nat) (file : bytes) (start : N) (t : table) (id : N) : res value :=
  match fuel with
  | O => OutOfFuel
  | S f =>
      do e <- table_get t id;
      match e with
      | XRaw pos _ =>
          if usize_max <=? start + pos then Panic 204 else     (* attempt to add with overflow *)
          if lenN file <? start + pos then Err E_BOUNDS else
          obj_at file (start + pos)
      | XStream sid idx =>
          do sv <- resolve_ref_old value obj_at member f file start t sid;
          member file sv idx
      | XFree _ _ => Err E_FREE
      | XPromised => Err E_OTHER
      | XInvalid => Err E_NULLREF
      end
  end.

Lemma resolve_prefix_overflow_refuted :
  exists (t : table) (p f : bytes) (id : N),
    resolve_ref_old N (fun _ _ => Ok 0) (fun _ _ _ => Ok 0) 2 f 0 t id = Err E_BOUNDS /\
    resolve_ref_old N (fun _ _ => Ok 0) (fun _ _ _ => Ok 0) 2 (p ++ f) (lenN p) t id = Panic 204 /\
    resolve_ref N (fun _ _ => Ok 0) (fun _ _ _ => Ok 0) 2 (p ++ f) (lenN p) t id = Err E_BOUNDS.
Proof.
  exists [XRaw 18446744073709551615 0], [0], xr_header, 0. repeat split; vm_compute; reflexivity.
Qed.

(** the repaired resolve_ref has no panic site of its own: it ends in whatever the oracles return *)
Lemma resolve_ref_no_panic (value : Type) obj_at member :
  (forall fl pos, no_panic (obj_at fl pos) \/ obj_at fl pos = OutOfFuel) ->
  (forall fl v i, no_panic (member fl v i) \/ member fl v i = OutOfFuel) ->
  forall fuel file start t id,
  match resolve_ref value obj_at member fuel file start t id with Panic _ => False | _ => True end.
Proof.
  intros Ho Hm. induction fuel as [|fuel IH]; intros file start t id; [exact I|].
  cbn [resolve_ref]. unfold table_get. destruct (nthN t id) as [e|]; cbn [bind]; [|exact I].
  destruct e as [nx g|pos g|sid idx| |]; try exact I.
  - destruct (usize_max <=? start + pos); [exact I|]. destruct (lenN file <? start + pos); [exact I|].
    destruct (Ho file (start + pos)) as [H|H]; [|rewrite H; exact I].
    destruct (obj_at file (start + pos)); try exact I; contradiction.
  - specialize (IH file start t sid).
    destruct (resolve_ref value obj_at member fuel file start t sid) as [sv| | |]; cbn [bind]; try exact I; try contradiction.
    destruct (Hm file sv idx) as [H|H]; [|rewrite H; exact I].
    destruct (member file sv idx); try exact I; contradiction.
Qed.

(** file.rs:198-201 before the repair: scan read start_offset .. xref_offset (end not shifted) with
    lexer offset 0; with a prefix longer than the startxref value the range is invalid (unwrap
    panicked), otherwise the scan stops short. *)
Definition scan_old (value : Type) (scan_slice : bytes -> bytes -> N -> list (res value)) (file : bytes) (start : N)
  : res (list (res value)) :=
  match locate_xref_offset file with
  | Ok xoff => match read_range file start xoff with
               | Ok slice => Ok (scan_slice file slice 0)
               | _ => Panic 205                  (* .unwrap() *)
               end
  | _ => Panic 205
  end.

Definition ex_file : bytes := xr_header ++ [49; 10] ++ xr_startxref_kw ++ [10; 51; 10; 37; 37; 69; 79; 70; 10].
Lemma scan_old_refuted :
  exists p, find_sub xr_header p = None /\
    scan_old N (fun _ s o => [Ok (lenN s + o)]) ex_file 0 = Ok [Ok 3] /\
    scan_old N (fun _ s o => [Ok (lenN s + o)]) (p ++ ex_file) (lenN p) = Panic 205 /\
    scan N (fun _ s o => [Ok (lenN s)]) (p ++ ex_file) (lenN p) = Ok [Ok 3].
Proof. exists [65; 65; 65; 65]. repeat split; vm_compute; reflexivity. Qed.
