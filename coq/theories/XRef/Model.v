(** XRef/Model.v — executable models of the cross-reference reader of pdf-rs:
    pdf/src/xref.rs (XRef, XRefTable, XRefSection), pdf/src/parser/parse_xref.rs (both section
    readers), pdf/src/backend.rs (header / startxref location, ranges) and the part of
    pdf/src/parser/lexer/mod.rs they use (Lexer::next, peek — the shared model PdfV.Lex.Lexer — and
    Substr::to::<uN>).
    Every definition names its Rust anchor; constants come from Gen.Generated (i.e. from the
    Rust source as it is now).  No proofs in this file. *)
From PdfV Require Import Base.Prelude Gen.Generated.
From PdfV Require Export Lex.Lexer.     (* the shared lexer model: lx, next, peek, bytes_eqb, is_digit, E_EOF *)

Definition usize_max : N := 18446744073709551616.   (* 2^64: usize / u64 on the verified target *)

(* error kinds (coarse; compared by tag only) *)
Definition E_OTHER : N := 3.
Definition E_UNSPEC : N := 8.      (* PdfError::UnspecifiedXRefEntry *)
Definition E_BOUNDS : N := 9.      (* PdfError::ContentReadPastBoundary *)
Definition E_NOTFOUND : N := 10.   (* PdfError::NotFound *)
Definition E_FREE : N := 11.       (* PdfError::FreeObject *)
Definition E_NULLREF : N := 12.    (* PdfError::NullRef *)

(* ------------------------------------------------------------------ *)
(** * xref.rs *)

(* xref.rs: enum XRef *)
Inductive xref :=
| XFree (next gen : N)
| XRaw (pos gen : N)
| XStream (sid idx : N)
| XPromised
| XInvalid.

(* xref.rs: XRef::get_gen_nr *)
Definition get_gen_nr (x : xref) : res N :=
  match x with
  | XFree _ g => Ok g
  | XRaw _ g => Ok g
  | XStream _ _ => Ok 0
  | _ => Panic 201            (* panic!() *)
  end.

Definition table := list xref.

(* xref.rs: XRefTable::new — num_objects Invalid entries followed by one Free entry *)
Definition table_new (n : N) : table :=
  repeatN XInvalid (N.to_nat n) ++ [XFree xr_new_free_next xr_new_free_gen].

(* xref.rs: XRefTable::get *)
Definition table_get (t : table) (id : N) : res xref :=
  match nthN t id with
  | Some e => Ok e
  | None => Err E_UNSPEC
  end.

Fixpoint set_nth {A} (l : list A) (i : nat) (x : A) : list A :=
  match l, i with
  | [], _ => []
  | _ :: t, O => x :: t
  | a :: t, S k => a :: set_nth t k x
  end.

(* xref.rs: XRefTable::set — indexing panics when out of range *)
Definition table_set (t : table) (id : N) (x : xref) : res table :=
  if id <? lenN t then Ok (set_nth t (N.to_nat id) x) else Panic 202.

(* xref.rs: XRefTable::push *)
Definition table_push (t : table) (x : xref) : table := t ++ [x].

(* xref.rs: struct XRefSection *)
Record section := { first_id : N; entries : list xref }.

(* xref.rs: add_entries_from — `should_be_updated` *)
Definition should_update (dst entry : xref) : res bool :=
  match dst with
  | XRaw _ g => do eg <- get_gen_nr entry; Ok (g <? eg)
  | XFree _ g => do eg <- get_gen_nr entry; Ok (g <? eg)
  | XStream _ _ => do eg <- get_gen_nr entry; Ok (0 <? eg)
  | XInvalid => Ok true
  | XPromised => Err 1          (* bail!("found {:?}") *)
  end.

(* xref.rs: add_entries_from — the loop over section.entries(); i = index + first_id *)
Fixpoint add_entries (t : table) (i : N) (es : list xref) : res table :=
  match es with
  | [] => Ok t
  | e :: r =>
      match nthN t i with
      | Some dst =>
          do b <- should_update dst e;
          add_entries (if b then set_nth t (N.to_nat i) e else t) (i + 1) r
      | None => add_entries t (i + 1) r
      end
  end.

(* xref.rs: XRefTable::add_entries_from *)
Definition add_entries_from (t : table) (s : section) : res table :=
  add_entries t (first_id s) (entries s).

(* backend.rs: read_xref_table_and_trailer — `for section in xref_sections { refs.add_entries_from(section)? }` *)
Fixpoint add_sections (t : table) (ss : list section) : res table :=
  match ss with
  | [] => Ok t
  | s :: r => do t' <- add_entries_from t s; add_sections t' r
  end.

(* XRefTable::new(size) followed by the sections in the order they are read (newest first) *)
Definition merge (size : N) (ss : list section) : res table := add_sections (table_new size) ss.

(* ------------------------------------------------------------------ *)
(** * parse_xref.rs: cross-reference streams *)

(* parse_xref.rs: read_u64_from_stream — the loop `for i in (0..width).rev()`;
   result += u64::from(c) << (8 * i) *)
Fixpoint read_be (w : nat) (data : bytes) (acc : N) : option (N * bytes) :=
  match w with
  | O => Some (acc, data)
  | S k =>
      match data with
      | c :: r => read_be k r (acc + c * 2 ^ (xr_byte_bits * N.of_nat k))
      | [] => None
      end
  end.

(* parse_xref.rs: read_u64_from_stream *)
Definition read_u64_from_stream (width : N) (data : bytes) : res (N * bytes) :=
  if xr_u64_width <? width then Err E_OTHER
  else if lenN data <? width then Err E_OTHER
  else match read_be (N.to_nat width) data 0 with
       | Some r => Ok r
       | None => Panic 203        (* data[0] out of range: unreachable after the length test *)
       end.

(* parse_xref.rs: the `match _type` of parse_xref_section_from_stream; table from the source *)
Fixpoint entry_kind (t : N) (codes : list (N * N * N * N)) : option N :=
  match codes with
  | [] => None
  | (c, k, _, _) :: r => if t =? c then Some k else entry_kind t r
  end.
Definition make_entry (t f1 f2 : N) : res xref :=
  match entry_kind t xr_type_codes with
  | Some k => if k =? 0 then Ok (XFree f1 f2) else if k =? 1 then Ok (XRaw f1 f2) else Ok (XStream f1 f2)
  | None => Err 4                (* PdfError::XRefStreamType *)
  end.

(* parse_xref.rs: parse_xref_section_from_stream — the loop `for _ in 0..num_entries`;
   fuel = number of entries (bounded by the data length, see below) *)
Fixpoint stream_entries (n : nat) (w0 w1 w2 : N) (data : bytes) (acc : list xref) : res (list xref * bytes) :=
  match n with
  | O => Ok (rev acc, data)
  | S k =>
      do (ty, d0) <- (if w0 =? 0 then Ok (xr_default_type, data) else read_u64_from_stream w0 data);
      do (f1, d1) <- read_u64_from_stream w1 d0;
      do (f2, d2) <- read_u64_from_stream w2 d1;
      do e <- make_entry ty f1 f2;
      stream_entries k w0 w1 w2 d2 (e :: acc)
  end.

(* parse_xref.rs: parse_xref_section_from_stream (usize arithmetic is checked: no panic site left) *)
Definition parse_xref_section_from_stream (first num : N) (width : list N) (data : bytes) (allow_xref_error : bool)
  : res (section * bytes) :=
  match width with
  | [w0; w1; w2] =>
      if (usize_max <=? w0 + w1) || (usize_max <=? w0 + w1 + w2) then Err E_OTHER else
      let entry_len := w0 + w1 + w2 in
      if entry_len =? 0 then Err E_OTHER else
      do num' <- (if (usize_max <=? num * entry_len) || (lenN data <? num * entry_len)
                  then if allow_xref_error then Ok (lenN data / entry_len) else Err E_OTHER
                  else Ok num);
      do (es, rest) <- stream_entries (N.to_nat num') w0 w1 w2 data [];
      Ok ({| first_id := first; entries := es |}, rest)
  | _ => Err E_OTHER
  end.

(* parse_xref.rs: parse_xref_stream_and_trailer — from the decoded data on:
   the /Index pairs (chunks_exact(2)) consume the data one after the other *)
Fixpoint stream_sections (index : list N) (width : list N) (data : bytes) (allow : bool) : res (list section) :=
  match index with
  | first :: num :: r =>
      do (s, rest) <- parse_xref_section_from_stream first num width data allow;
      do ss <- stream_sections r width rest allow;
      Ok (s :: ss)
  | _ => Ok []
  end.
Definition parse_xref_stream_sections (index width : list N) (data : bytes) (allow : bool) : res (list section) :=
  if N.even (lenN index) then stream_sections index width data allow else Err E_OTHER.

(* ------------------------------------------------------------------ *)
(** * lexer/mod.rs — the table reader and locate_xref_offset use the shared lexer model
    (PdfV.Lex.Lexer: state [lx] = absolute position + not yet consumed suffix; [next], [peek]), so the
    lexer theorems of Lex/LexProofs.v apply to them directly. *)

(* lexer/mod.rs: Substr::to::<uN> = str::parse::<uN>: optional '+', at least one digit, no overflow *)
Definition parse_uint (bits : N) (tok : bytes) : res N :=
  let ds := match tok with c :: r => if c =? 43 then r else tok | [] => [] end in
  match ds with
  | [] => Err E_OTHER
  | _ => if forallb is_digit ds
         then let v := N_of_dec ds in if v <? 2 ^ bits then Ok v else Err E_OTHER
         else Err E_OTHER
  end.

(* ------------------------------------------------------------------ *)
(** * parse_xref.rs: classic tables *)

(* parse_xref.rs: parse_xref_table_and_trailer — `for i in 0..num_ids`; every iteration consumes
   input, fuel = remaining bytes *)
Fixpoint table_entries (fuel : nat) (cnt : N) (s : lx) (acc : list xref) : res (list xref * lx) :=
  if cnt =? 0 then Ok (rev acc, s) else
  match fuel with
  | O => OutOfFuel
  | S f =>
      do (w1, s1) <- next s;
      if bytes_eqb w1 xr_kw_trailer then Err E_OTHER else
      do (w2, s2) <- next s1;
      do (w3, s3) <- next s2;
      if bytes_eqb w3 xr_kw_f then
        do a <- parse_uint xr_bits_free_next w1;
        do g <- parse_uint xr_bits_free_gen w2;
        table_entries f (cnt - 1) s3 (XFree a g :: acc)
      else if bytes_eqb w3 xr_kw_n then
        do a <- parse_uint xr_bits_pos w1;
        do g <- parse_uint xr_bits_gen w2;
        table_entries f (cnt - 1) s3 (XRaw a g :: acc)
      else Err E_OTHER
  end.

(* parse_xref.rs: parse_xref_table_and_trailer — `while lexer.peek()? != "trailer"`, then
   next_expect("trailer"); returns the sections and the lexer state after the keyword *)
Fixpoint table_sections (fuel : nat) (s : lx) (acc : list section) : res (list section * lx) :=
  match fuel with
  | O => OutOfFuel
  | S f =>
      do p <- peek s;
      if bytes_eqb p xr_kw_trailer then
        do (_, s') <- next s;
        Ok (rev acc, s')
      else
        do (ws, s1) <- next s;
        do start <- parse_uint xr_bits_first ws;
        do (wn, s2) <- next s1;
        do num <- parse_uint xr_bits_count wn;
        do (es, s3) <- table_entries (S (length (lrest s2))) num s2 [];
        table_sections f s3 ({| first_id := start; entries := es |} :: acc)
  end.
Definition parse_xref_table (s : lx) : res (list section * lx) :=
  table_sections (S (length (lrest s))) s [].

(* parse_xref.rs: read_xref_and_trailer_at — the classic branch: `lexer.next()? == "xref"`, then the
   table; the other branch (cross-reference stream object) is the shared object parser, see XRef/AtProofs.v *)
Definition read_xref_table_at (s : lx) : res (list section * lx) :=
  do (w, s1) <- next s;
  if bytes_eqb w xr_kw_xref then parse_xref_table s1 else Err E_OTHER.

(* ------------------------------------------------------------------ *)
(** * backend.rs *)

Fixpoint starts_with (pat l : bytes) : bool :=
  match pat, l with
  | [], _ => true
  | p :: pt, c :: r => (p =? c) && starts_with pt r
  | _ :: _, [] => false
  end.

(* slice.windows(n).position(|w| w == pat) — index of the first occurrence (pat non-empty) *)
Fixpoint find_sub (pat l : bytes) : option N :=
  match l with
  | [] => None
  | _ :: r => if starts_with pat l then Some 0
              else match find_sub pat r with Some i => Some (i + 1) | None => None end
  end.

(* slice.windows(n).rposition(|w| w == pat) — index of the last occurrence *)
Fixpoint rfind_sub (pat l : bytes) : option N :=
  match l with
  | [] => None
  | _ :: r => match rfind_sub pat r with
              | Some i => Some (i + 1)
              | None => if starts_with pat l then Some 0 else None
              end
  end.

(* backend.rs: Backend::locate_start_offset *)
Definition locate_start_offset (file : bytes) : res N :=
  match find_sub xr_header (take (N.min xr_header_window (lenN file)) file) with
  | Some i => Ok i
  | None => Err E_OTHER
  end.

(* backend.rs: Backend::locate_xref_offset — Lexer::new(all); set_pos_from_end(0) puts the position
   on the last byte (len.saturating_sub(0).saturating_sub(1)); seek_substr_back searches buf[..pos] *)
Definition locate_xref_offset (file : bytes) : res N :=
  let pos := lenN file - xr_from_end - 1 in
  match rfind_sub xr_startxref_kw (take pos file) with
  | Some i =>
      let after := i + lenN xr_startxref_kw in
      do (w, _) <- next (mkLx after (drop after file));
      parse_uint xr_startxref_bits w
  | None => Err E_NOTFOUND
  end.

(* backend.rs: IndexRange::to_range + Backend::read for `start..` *)
Definition read_from (file : bytes) (start : N) : res bytes :=
  if start <=? lenN file then Ok (drop start file) else Err E_BOUNDS.
(* backend.rs: read for `start..end` *)
Definition read_range (file : bytes) (s e : N) : res bytes :=
  if (s <=? e) && (e <=? lenN file) then Ok (take (e - s) (drop s file)) else Err E_BOUNDS.

(* ------------------------------------------------------------------ *)
(** * backend.rs: the /Prev walk.  The object parser is outside this model: reading one
    cross-reference section at a position is a Section variable (an oracle, no assumption). *)

(* what read_xref_table_and_trailer looks at in a trailer dictionary *)
Record tinfo := {
  t_size : option N;            (* /Size through as_u32(): None = missing or not a non-negative integer *)
  t_prev : option (option N);   (* /Prev through as_usize(): None = absent, Some None = present but an error *)
  t_id : N                      (* which trailer this is (returned to the caller unchanged) *)
}.

Section Walk.
  (* Lexer::with_offset(read(pos..), pos) ; read_xref_and_trailer_at *)
  Variable xref_at : N -> res (list section * tinfo).
  Variable file_len : N.

  (* backend.rs: read_xref_table_and_trailer — `while let Some(prev_xref_offset) = prev_trailer` *)
  Fixpoint walk (fuel : nat) (start : N) (t : table) (seen : list N) (prev : option (option N)) : res table :=
    match prev with
    | None => Ok t
    | Some None => Err E_OTHER                      (* t!(p.as_usize()) *)
    | Some (Some p) =>
        match fuel with
        | O => OutOfFuel
        | S f =>
            if memN p seen then Err E_OTHER else     (* "xref offsets loop" *)
            if usize_max <=? start + p then Err E_OTHER else     (* checked_add *)
            let pos := start + p in
            if file_len <? pos then Err E_BOUNDS else            (* self.read(pos..) *)
            do (ss, tr) <- xref_at pos;
            do t' <- add_sections t ss;
            walk f start t' (p :: seen) (t_prev tr)
        end
    end.

  (* backend.rs: read_xref_table_and_trailer (after locate_xref_offset); returns the table and
     the trailer of the newest section *)
  Definition read_xref_table_and_trailer (fuel : nat) (start xref_offset : N) : res (table * N) :=
    if usize_max <=? start + xref_offset then Err E_OTHER else
    let pos := start + xref_offset in
    if file_len <=? pos then Err E_OTHER else        (* "XRef offset outside file bounds" *)
    do (ss, tr) <- xref_at pos;
    match t_size tr with
    | None => Err E_OTHER
    | Some size =>
        if xr_max_id <? size then Err E_OTHER else   (* "too many objects" *)
        do t <- add_sections (table_new size) ss;
        do t' <- walk fuel start t [] (t_prev tr);
        Ok (t', t_id tr)
    end.
End Walk.

(* ------------------------------------------------------------------ *)
(** * file.rs: Storage::with_cache, load_storage_and_trailer, resolve_ref, scan — with the object
    parser as Section oracles (functions of the whole file and an absolute position, because
    stream data is fetched from the backend by absolute range). *)
Section Front.
  Variable value : Type.
  Variable xref_at : bytes -> N -> res (list section * tinfo).
  (* Lexer::with_offset(read(pos..), pos) ; parse_indirect_object *)
  Variable obj_at : bytes -> N -> res value.
  (* ObjectStream::from_primitive ; get_object_slice(index) ; parse *)
  Variable member : bytes -> value -> N -> res value.
  (* the iterator of Storage::scan over a slice lexed with a given file offset *)
  Variable scan_slice : bytes -> bytes -> N -> list (res value).

  (* file.rs: Storage::with_cache + load_storage_and_trailer (unencrypted) *)
  Definition load (file : bytes) : res (N * table * N) :=
    do start <- locate_start_offset file;
    do xoff <- locate_xref_offset file;
    do (t, tid) <- read_xref_table_and_trailer (xref_at file) (lenN file) (S (length file)) start xoff;
    Ok (start, t, tid).

  (* file.rs: resolve_ref (changes empty).  `self.start_offset.checked_add(pos)` — an offset that does
     not fit behind the header position is reported like any other offset beyond the end of the file
     (ContentReadPastBoundary).  The recursion through resolve.get::<ObjectStream> is cut by fuel (the
     implementation reports "Recursive reference" there). *)
  Fixpoint resolve_ref (fuel : nat) (file : bytes) (start : N) (t : table) (id : N) : res value :=
    match fuel with
    | O => OutOfFuel
    | S f =>
        do e <- table_get t id;
        match e with
        | XRaw pos _ =>
            if usize_max <=? start + pos then Err E_BOUNDS else  (* checked_add(..).ok_or(ContentReadPastBoundary) *)
            if lenN file <? start + pos then Err E_BOUNDS else
            obj_at file (start + pos)
        | XStream sid idx =>
            do sv <- resolve_ref f file start t sid;
            member file sv idx
        | XFree _ _ => Err E_FREE
        | XPromised => Err E_OTHER                                (* unimplemented!() is an Err in this crate *)
        | XInvalid => Err E_NULLREF
        end
    end.

  (* file.rs: Storage::scan *)
  Definition scan (file : bytes) (start : N) : res (list (res value)) :=
    do xoff <- locate_xref_offset file;
    if usize_max <=? start + xoff then Err E_OTHER else
    do slice <- read_range file start (start + xoff);
    Ok (scan_slice file slice start).
End Front.
