(** XRef/TableProofs.v — C02: the reader of the classic cross-reference table
    (parse_xref.rs: read_xref_and_trailer_at / parse_xref_table_and_trailer, on the shared lexer model)
    inverts the §7.5.4 printer of XRef/Spec.v: 20-byte rows in all three end-of-line forms, any
    subsection split, any white-space between `xref`, the subsection headers and `trailer`. *)
From PdfV Require Import Base.Prelude Gen.Generated Base.DecProofs XRef.Model XRef.Spec Lex.LexProofs.

Lemma lenN_app {A} (a b : list A) : lenN (a ++ b) = lenN a + lenN b.
Proof. unfold lenN. rewrite app_length. lia. Qed.
Lemma lenN_cons {A} (x : A) l : lenN (x :: l) = 1 + lenN l.
Proof. unfold lenN. cbn [length]. lia. Qed.

(* ---- separators *)
Lemma sep_app a : sep a -> forall b, sep b -> sep (a ++ b).
Proof.
  induction 1 as [|c r Hc Hr IH|body e r Hbody He Hr IH]; intros b Hb; cbn [app].
  - exact Hb.
  - apply sep_ws; [exact Hc|apply IH; exact Hb].
  - rewrite <- app_assoc. cbn [app]. apply sep_comment; auto.
Qed.

Lemma iso_white_ws b : In b iso_white -> is_ws b = true.
Proof. unfold iso_white. cbn [In]. intros H. repeat (destruct H as [<-|H]; [reflexivity|]). contradiction. Qed.

Lemma gap_sep g : gap g -> sep g.
Proof. induction 1 as [|b g Hb Hg IH]; [apply sep_nil|apply sep_ws; [apply iso_white_ws; exact Hb|exact IH]]. Qed.

Lemma sep_boundary g : sep g -> g <> [] -> forall r, boundary (g ++ r).
Proof.
  intros H Hne r. destruct H as [|c t Hc Ht|body e t Hbody He Ht]; [contradiction| |]; cbn [app boundary].
  - unfold is_reg. rewrite Hc. reflexivity.
  - reflexivity.
Qed.

Lemma token_end_boundary rest : token_end rest -> boundary rest.
Proof.
  destruct rest as [|b r]; [exact (fun H => H)|]. unfold token_end, boundary, iso_white, iso_delim. cbn [In].
  intros [H|H]; repeat (destruct H as [<-|H]; [reflexivity|]); contradiction.
Qed.

Lemma eol_sep el : sep (eol_bytes el) /\ eol_bytes el <> [].
Proof. destruct el; (split; [repeat (apply sep_ws; [reflexivity|]); apply sep_nil|discriminate]). Qed.

(* ---- one regular token *)
Lemma next_tok sp tok rest p :
  sep sp -> tok <> [] -> Forall (fun b => is_reg b = true) tok -> boundary rest ->
  next (mkLx p (sp ++ tok ++ rest)) = Ok (tok, mkLx (p + lenN sp + lenN tok) rest).
Proof.
  intros Hs Hne Hr Hb. unfold next. rewrite (next_word_regular sp tok rest p Hs Hne Hr Hb). reflexivity.
Qed.

Lemma peek_tok sp tok rest p :
  sep sp -> tok <> [] -> Forall (fun b => is_reg b = true) tok -> boundary rest ->
  peek (mkLx p (sp ++ tok ++ rest)) = Ok tok.
Proof.
  intros Hs Hne Hr Hb. unfold peek. rewrite (next_word_regular sp tok rest p Hs Hne Hr Hb). reflexivity.
Qed.

(* ---- digits *)
Lemma digit_reg_table : forallb (fun b => implb (is_digit b) (is_reg b)) all_bytes = true.
Proof. vm_compute. reflexivity. Qed.
Lemma digit_is_reg b : is_digit b = true -> is_reg b = true.
Proof.
  intros H. assert (Hb : b < 256).
  { unfold is_digit in H. apply andb_true_iff in H. destruct H as [_ H]. apply N.leb_le in H. lia. }
  pose proof (forall_bytes _ digit_reg_table b Hb) as Ht. cbv beta in Ht. rewrite H in Ht. exact Ht.
Qed.
Lemma digits_reg ds : forallb is_digit ds = true -> Forall (fun b => is_reg b = true) ds.
Proof.
  induction ds as [|c ds IH]; cbn [forallb]; intros H; [constructor|].
  apply andb_true_iff in H. destruct H as [Hc Hd]. constructor; [apply digit_is_reg; exact Hc|apply IH; exact Hd].
Qed.

Lemma is_digit_of d : d < 10 -> is_digit (48 + d) = true.
Proof. intros H. unfold is_digit. apply andb_true_iff. split; apply N.leb_le; lia. Qed.

Lemma digits_all k v : forallb is_digit (digits k v) = true.
Proof.
  induction k as [|j IH]; [reflexivity|]. cbn [digits forallb]. rewrite IH, is_digit_of; [reflexivity|].
  apply N.mod_lt. lia.
Qed.
Lemma digits_length k v : length (digits k v) = k.
Proof. induction k as [|j IH]; [reflexivity|]. cbn [digits length]. rewrite IH. reflexivity. Qed.
Lemma digits_lenN k v : lenN (digits k v) = N.of_nat k.
Proof. unfold lenN. rewrite digits_length. reflexivity. Qed.

Lemma digits_value k v : forall a, dec_acc a (digits k v) = a * 10 ^ N.of_nat k + v mod 10 ^ N.of_nat k.
Proof.
  induction k as [|j IH]; intros a.
  - cbn [digits dec_acc]. change (N.of_nat 0) with 0. rewrite N.pow_0_r, N.mod_1_r. lia.
  - cbn [digits dec_acc]. rewrite IH.
    replace (N.of_nat (S j)) with (N.succ (N.of_nat j)) by lia. rewrite N.pow_succ_r'.
    set (P := 10 ^ N.of_nat j). assert (HP : P <> 0) by (apply N.pow_nonzero; lia).
    replace (10 * P) with (P * 10) by lia. rewrite (N.mod_mul_r v P 10 HP ltac:(lia)).
    set (d := (v / P) mod 10). replace (48 + d - 48) with d by lia. lia.
Qed.
Lemma digits_dec k v : v < 10 ^ N.of_nat k -> N_of_dec (digits k v) = v.
Proof. intros H. unfold N_of_dec. rewrite digits_value, N.mod_small by exact H. lia. Qed.

(* ---- Substr::to::<uN> on digit strings *)
Lemma parse_uint_digits bits tok :
  forallb is_digit tok = true -> tok <> [] -> N_of_dec tok < 2 ^ bits -> parse_uint bits tok = Ok (N_of_dec tok).
Proof.
  intros Hd Hne Hv. destruct tok as [|c r]; [contradiction|]. unfold parse_uint.
  assert (Hc : c =? 43 = false).
  { cbn [forallb] in Hd. apply andb_true_iff in Hd. destruct Hd as [Hc _].
    destruct (N.eqb_spec c 43) as [->|]; [discriminate|reflexivity]. }
  rewrite Hc, Hd. apply N.ltb_lt in Hv. rewrite Hv. reflexivity.
Qed.

Lemma parse_uint_pad bits k v :
  (0 < k)%nat -> v < 10 ^ N.of_nat k -> 10 ^ N.of_nat k <= 2 ^ bits -> parse_uint bits (digits k v) = Ok v.
Proof.
  intros Hk Hv Hb. rewrite parse_uint_digits; [rewrite digits_dec by exact Hv; reflexivity|apply digits_all| |].
  - destruct k; [lia|discriminate].
  - rewrite digits_dec by exact Hv. lia.
Qed.

Lemma parse_uint_dec bits n : n < 2 ^ bits -> parse_uint bits (dec_of_N n) = Ok n.
Proof.
  intros H. destruct (dec_of_N_spec n) as (Hd & Hne & Hv).
  rewrite parse_uint_digits; [rewrite Hv; reflexivity|exact Hd|exact Hne|rewrite Hv; exact H].
Qed.

Lemma digits_not_trailer w : forallb is_digit w = true -> w <> [] -> bytes_eqb w xr_kw_trailer = false.
Proof.
  intros Hd Hne. destruct w as [|c r]; [contradiction|]. cbn [forallb] in Hd. apply andb_true_iff in Hd. destruct Hd as [Hc _].
  unfold xr_kw_trailer. cbn [bytes_eqb]. destruct (N.eqb_spec c 116) as [->|]; [discriminate|reflexivity].
Qed.

(* ---- rows *)
Lemma print_rows_cons e es el els : print_rows_t (e :: es) (el :: els) = print_row e el ++ print_rows_t es els.
Proof. reflexivity. Qed.

Lemma print_row_len e el : row_fits e -> lenN (print_row e el) = 20.
Proof. destruct e as [a g|a g| | |]; cbn [row_fits]; try contradiction; intros _; destruct el; reflexivity || (unfold print_row; rewrite !lenN_app, !lenN_cons, !digits_lenN; cbn; try lia). Qed.

Lemma print_rows_len es : forall els, length els = length es -> Forall row_fits es ->
  lenN (print_rows_t es els) = 20 * lenN es.
Proof.
  induction es as [|e es IH]; intros els Hl Hf; destruct els as [|el els]; try discriminate; [reflexivity|].
  inversion Hf; subst. rewrite print_rows_cons, lenN_app, print_row_len, IH, lenN_cons by auto. lia.
Qed.

(** the three tokens of one row, behind any separator *)
Lemma row_tokens pend a g k tail p :
  sep pend -> is_reg k = true -> boundary tail ->
  exists s1 s2,
    next (mkLx p (pend ++ digits 10 a ++ 32 :: digits 5 g ++ 32 :: k :: tail)) = Ok (digits 10 a, s1) /\
    next s1 = Ok (digits 5 g, s2) /\
    next s2 = Ok ([k], mkLx (p + lenN pend + 18) tail).
Proof.
  intros Hp Hk Ht.
  exists (mkLx (p + lenN pend + 10) (32 :: digits 5 g ++ 32 :: k :: tail)),
         (mkLx (p + lenN pend + 16) (32 :: k :: tail)).
  split; [|split].
  - rewrite (next_tok pend (digits 10 a) _ p Hp); [rewrite digits_lenN; reflexivity|discriminate|apply digits_reg, digits_all|reflexivity].
  - change (32 :: digits 5 g ++ 32 :: k :: tail) with ([32] ++ digits 5 g ++ 32 :: k :: tail).
    rewrite next_tok; [rewrite digits_lenN; f_equal; f_equal; f_equal; unfold lenN; cbn; lia| | | |reflexivity].
    + apply sep_ws; [reflexivity|apply sep_nil].
    + discriminate.
    + apply digits_reg, digits_all.
  - change (32 :: k :: tail) with ([32] ++ [k] ++ tail).
    rewrite next_tok; [f_equal; f_equal; f_equal; unfold lenN; cbn; lia| | | |exact Ht].
    + apply sep_ws; [reflexivity|apply sep_nil].
    + discriminate.
    + constructor; [exact Hk|constructor].
Qed.

Lemma pow10_64 : 10 ^ N.of_nat 10 <= 2 ^ 64 /\ 10 ^ N.of_nat 5 <= 2 ^ 64.
Proof. split; vm_compute; discriminate. Qed.

Lemma table_entries_rows : forall es els, length els = length es -> Forall row_fits es ->
  forall pend p rest fuel acc, sep pend -> (length es <= fuel)%nat ->
  exists pend' p',
    table_entries fuel (lenN es) (mkLx p (pend ++ print_rows_t es els ++ rest)) acc
      = Ok (rev acc ++ es, mkLx p' (pend' ++ rest)) /\
    sep pend' /\ (pend <> [] \/ es <> [] -> pend' <> []) /\
    p' + lenN pend' = p + lenN pend + lenN (print_rows_t es els).
Proof.
  induction es as [|e es IH]; intros els Hl Hf pend p rest fuel acc Hp Hfuel; destruct els as [|el els]; try discriminate.
  - exists pend, p. split; [|split; [exact Hp|split]].
    + destruct fuel; cbn [table_entries lenN length N.of_nat]; rewrite app_nil_r; reflexivity.
    + intros [H|H]; [exact H|contradiction].
    + unfold print_rows_t. cbn. lia.
  - inversion Hf as [|? ? He Hf']; subst. destruct fuel as [|f]; [cbn in Hfuel; lia|].
    destruct (eol_sep el) as [Hes Hene].
    assert (Hcnt : lenN (e :: es) =? 0 = false) by (apply N.eqb_neq; rewrite lenN_cons; lia).
    assert (Hcnt1 : lenN (e :: es) - 1 = lenN es) by (rewrite lenN_cons; lia).
    destruct (IH els ltac:(cbn in Hl; lia) Hf' (eol_bytes el) (p + lenN pend + 18) rest f (e :: acc) Hes ltac:(cbn in Hfuel; lia))
      as (pend' & p' & Hrun & Hsep' & Hne' & Hpos).
    exists pend', p'.
    assert (Hb : boundary (eol_bytes el ++ print_rows_t es els ++ rest)) by (apply sep_boundary; assumption).
    destruct pow10_64 as [P10 P5].
    split; [|split; [exact Hsep'|split]].
    + rewrite print_rows_cons. cbn [table_entries]. rewrite Hcnt.
      destruct e as [a g|a g| | |]; cbn [row_fits] in He; try contradiction; destruct He as [Ha Hg]; cbn [print_row].
      * rewrite <- !app_assoc. cbn [app]. rewrite <- !app_assoc. cbn [app].
        destruct (row_tokens pend a g 102 (eol_bytes el ++ print_rows_t es els ++ rest) p Hp eq_refl Hb) as (s1 & s2 & N1 & N2 & N3).
        rewrite N1. cbn [bind]. rewrite (digits_not_trailer _ (digits_all 10 a)) by discriminate.
        rewrite N2. cbn [bind]. rewrite N3. cbn [bind].
        change (bytes_eqb [102] xr_kw_f) with true. cbv iota.
        rewrite (parse_uint_pad xr_bits_free_next 10 a) by (try exact Ha; try exact P10; lia). cbn [bind].
        rewrite (parse_uint_pad xr_bits_free_gen 5 g) by (try exact Hg; try exact P5; lia). cbn [bind].
        rewrite Hcnt1, Hrun. cbn [rev]. rewrite <- app_assoc. reflexivity.
      * rewrite <- !app_assoc. cbn [app]. rewrite <- !app_assoc. cbn [app].
        destruct (row_tokens pend a g 110 (eol_bytes el ++ print_rows_t es els ++ rest) p Hp eq_refl Hb) as (s1 & s2 & N1 & N2 & N3).
        rewrite N1. cbn [bind]. rewrite (digits_not_trailer _ (digits_all 10 a)) by discriminate.
        rewrite N2. cbn [bind]. rewrite N3. cbn [bind].
        change (bytes_eqb [110] xr_kw_f) with false. change (bytes_eqb [110] xr_kw_n) with true. cbv iota.
        rewrite (parse_uint_pad xr_bits_pos 10 a) by (try exact Ha; try exact P10; lia). cbn [bind].
        rewrite (parse_uint_pad xr_bits_gen 5 g) by (try exact Hg; try exact P5; lia). cbn [bind].
        rewrite Hcnt1, Hrun. cbn [rev]. rewrite <- app_assoc. reflexivity.
    + intros _. apply Hne'. left. exact Hene.
    + rewrite print_rows_cons, lenN_app, (print_row_len e el He). 
      assert (lenN (eol_bytes el) = 2) by (destruct el; reflexivity). lia.
Qed.

Lemma dec_reg n : Forall (fun b => is_reg b = true) (dec_of_N n) /\ dec_of_N n <> [] /\ forallb is_digit (dec_of_N n) = true.
Proof. destruct (dec_of_N_spec n) as (Hd & Hne & _). split; [apply digits_reg; exact Hd|split; [exact Hne|exact Hd]]. Qed.

Lemma print_subs_cons L Ls s secs : print_subs (L :: Ls) (s :: secs) = print_sub L s ++ print_subs Ls secs.
Proof. reflexivity. Qed.

Lemma kw_trailer_reg : Forall (fun b => is_reg b = true) kw_trailer.
Proof. repeat constructor. Qed.
Lemma kw_xref_reg : Forall (fun b => is_reg b = true) kw_xref.
Proof. repeat constructor. Qed.

Lemma bits32 : 2 ^ 32 = 2 ^ xr_bits_first /\ 2 ^ 32 = 2 ^ xr_bits_count.
Proof. split; reflexivity. Qed.

(** the loop of parse_xref_table_and_trailer over any list of subsections, up to and including `trailer` *)
Lemma table_sections_subs : forall Ls secs, Forall2 sub_ok Ls secs ->
  forall pend gend rest p fuel acc, sep pend -> gap gend -> boundary rest -> (length secs < fuel)%nat ->
  table_sections fuel (mkLx p (pend ++ print_subs Ls secs ++ gend ++ kw_trailer ++ rest)) acc
  = Ok (rev acc ++ secs, mkLx (p + lenN pend + lenN (print_subs Ls secs) + lenN gend + lenN kw_trailer) rest).
Proof.
  induction 1 as [|L s Ls secs Hok Hall IH]; intros pend gend rest p fuel acc Hp Hg Hb Hfuel;
    (destruct fuel as [|f]; [cbn in Hfuel; lia|]).
  - change (print_subs [] []) with (@nil N). cbn [app]. cbn [table_sections].
    assert (Hs : sep (pend ++ gend)) by (apply sep_app; [exact Hp|apply gap_sep; exact Hg]).
    rewrite app_assoc.
    rewrite (peek_tok _ kw_trailer rest p Hs ltac:(discriminate) kw_trailer_reg Hb). cbn [bind].
    change (bytes_eqb kw_trailer xr_kw_trailer) with true. cbv iota.
    rewrite (next_tok _ kw_trailer rest p Hs ltac:(discriminate) kw_trailer_reg Hb). cbn [bind].
    rewrite app_nil_r, lenN_app. change (lenN (@nil N)) with 0. do 3 f_equal. lia.
  - destruct Hok as (Gpre & Gmid & Nmid & Gheol & Nheol & Hlen & Hfit & Hfirst & Hcount).
    destruct s as [first es]. cbn [first_id entries] in *.
    rewrite print_subs_cons. unfold print_sub. cbn [first_id entries].
    set (more := print_subs Ls secs ++ gend ++ kw_trailer ++ rest).
    destruct (dec_reg first) as (R1 & N1 & D1). destruct (dec_reg (lenN es)) as (R2 & N2 & D2).
    assert (Hs1 : sep (pend ++ l_pre L)) by (apply sep_app; [exact Hp|apply gap_sep; exact Gpre]).
    assert (Hsm : sep (l_mid L)) by (apply gap_sep; exact Gmid).
    assert (Hsh : sep (l_heol L)) by (apply gap_sep; exact Gheol).
    (* regroup:  (pend ++ pre) ++ first ++ (mid ++ count ++ heol ++ rows ++ more) *)
    replace (pend ++ ((l_pre L ++ dec_of_N first ++ l_mid L ++ dec_of_N (lenN es) ++ l_heol L ++ print_rows_t es (l_eols L))
                      ++ print_subs Ls secs) ++ gend ++ kw_trailer ++ rest)
      with ((pend ++ l_pre L) ++ dec_of_N first ++ (l_mid L ++ dec_of_N (lenN es) ++ (l_heol L ++ print_rows_t es (l_eols L) ++ more)))
      by (unfold more; rewrite <- !app_assoc; reflexivity).
    assert (B1 : boundary (l_mid L ++ dec_of_N (lenN es) ++ (l_heol L ++ print_rows_t es (l_eols L) ++ more)))
      by (apply sep_boundary; assumption).
    assert (B2 : boundary (l_heol L ++ print_rows_t es (l_eols L) ++ more)) by (apply sep_boundary; assumption).
    cbn [table_sections].
    rewrite (peek_tok _ _ _ p Hs1 N1 R1 B1). cbn [bind].
    rewrite (digits_not_trailer _ D1 N1).
    rewrite (next_tok _ _ _ p Hs1 N1 R1 B1). cbn [bind].
    destruct bits32 as [B32a B32b].
    rewrite (parse_uint_dec xr_bits_first first) by (rewrite <- B32a; exact Hfirst). cbn [bind].
    rewrite (next_tok _ _ _ _ Hsm N2 R2 B2). cbn [bind].
    rewrite (parse_uint_dec xr_bits_count (lenN es)) by (rewrite <- B32b; exact Hcount). cbn [bind].
    cbn [lrest].
    set (p2 := p + lenN (pend ++ l_pre L) + lenN (dec_of_N first) + lenN (l_mid L) + lenN (dec_of_N (lenN es))).
    assert (Hf2 : (length es <= S (length (l_heol L ++ print_rows_t es (l_eols L) ++ more)))%nat).
    { pose proof (print_rows_len es (l_eols L) Hlen Hfit) as Hl. unfold lenN in Hl. rewrite !app_length. lia. }
    destruct (table_entries_rows es (l_eols L) Hlen Hfit (l_heol L) p2 more _ [] Hsh Hf2) as (pend' & p' & Hrun & Hsep' & Hne' & Hpos).
    rewrite Hrun. cbn [bind rev app].
    unfold more. rewrite (IH pend' gend rest p' f _ Hsep' Hg Hb ltac:(cbn in Hfuel; lia)).
    cbn [rev]. rewrite <- app_assoc. cbn [app]. do 3 f_equal.
    unfold p2 in Hpos. rewrite !lenN_app in *. lia.
Qed.

(** C02_table_roundtrip: the reader of the classic table inverts the printer — every end-of-line form,
    every subsection split, any white-space between the keywords and the subsection headers *)
Theorem table_roundtrip_b : forall L secs rest p,
  layout_ok L secs -> boundary rest ->
  read_xref_table_at (mkLx p (print_table_spec L secs ++ rest))
  = Ok (secs, mkLx (p + lenN (print_table_spec L secs)) rest).
Proof.
  intros L secs rest p (G1 & N1 & Gend & Hall) Hb.
  unfold read_xref_table_at, print_table_spec.
  assert (Hs1 : sep (l_first L)) by (apply gap_sep; exact G1).
  replace ((kw_xref ++ l_first L ++ print_subs (l_subs L) secs ++ l_end L ++ kw_trailer) ++ rest)
    with ([] ++ kw_xref ++ (l_first L ++ print_subs (l_subs L) secs ++ l_end L ++ kw_trailer ++ rest))
    by (cbn [app]; rewrite <- !app_assoc; reflexivity).
  rewrite (next_tok [] kw_xref _ p sep_nil ltac:(discriminate) kw_xref_reg (sep_boundary _ Hs1 N1 _)). cbn [bind].
  change (bytes_eqb kw_xref xr_kw_xref) with true. cbv iota.
  unfold parse_xref_table. cbn [lrest].
  rewrite (table_sections_subs _ _ Hall (l_first L) (l_end L) rest _ _ [] Hs1 Gend Hb).
  - cbn [rev app]. do 3 f_equal. rewrite !lenN_app. change (lenN (@nil N)) with 0. lia.
  - (* fuel: every subsection prints at least one byte *)
    assert (Hlen : (length secs <= length (print_subs (l_subs L) secs))%nat).
    { clear -Hall. induction Hall as [|L0 s Ls secs Hok Hall IH]; [cbn; lia|].
      rewrite print_subs_cons, app_length. cbn [length].
      destruct (dec_of_N_spec (first_id s)) as (_ & Hne & _).
      unfold print_sub. rewrite !app_length. destruct (dec_of_N (first_id s)); [contradiction|cbn [length]; lia]. }
    rewrite !app_length. lia.
Qed.

Theorem table_roundtrip : forall L secs rest p,
  layout_ok L secs -> token_end rest ->
  read_xref_table_at (mkLx p (print_table_spec L secs ++ rest))
  = Ok (secs, mkLx (p + lenN (print_table_spec L secs)) rest).
Proof. intros L secs rest p HL Hb. apply table_roundtrip_b; [exact HL|apply token_end_boundary; exact Hb]. Qed.
