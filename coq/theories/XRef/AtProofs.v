(** XRef/AtProofs.v — C02: the oracle premises of the /Prev walk and of resolve_ref discharged for
    classic-table files, by composing the table round trip (XRef/TableProofs.v) with the theorems of the
    shared parser model (Syn/ParserProofs.v, Syn/RenderProofs.v): a section written in any layout with its
    trailer dictionary in any conforming spelling is read back; an indirect object written in any
    conforming spelling is read back; hence open + resolve give the newest mention's object. *)
From PdfV Require Import Base.Prelude Gen.Generated XRef.Model XRef.Spec XRef.TableProofs XRef.At XRef.HeaderProofs XRef.FrontProofs XRef.MergeProofs.
From PdfV Require Import Base.DecProofs Lex.LexProofs Syn.Prim Syn.Parser Syn.Spells Syn.ParserProofs Syn.RenderProofs Syn.SerProofs.

(** flags only matter for the outermost value: a dictionary read with ParseFlags::DICT is read as with ANY *)
Lemma parse_fuel_dict_flags f R cx depth s s1 :
  next s = Ok (kw_dict_open, s1) ->
  parse_fuel (S f) R cx F_DICT depth s = parse_fuel (S f) R cx F_ANY depth s.
Proof. intros H. rewrite !(parse_step _ _ _ _ _ _ _ _ H). reflexivity. Qed.

Lemma renders_dict_head its text tl :
  renders (IWord kw_dict_open :: its) text tl ->
  boundary text /\ forall p, exists s1, next (mkLx p text) = Ok (kw_dict_open, s1).
Proof.
  intros H. split.
  - inversion H; subst.
    + (* regular word: impossible, '<' is a delimiter *)
      match goal with Hr : Forall _ kw_dict_open |- _ => inversion Hr; subst; discriminate end.
    + destruct sp as [|c sp']; [reflexivity|]. apply (sep_boundary (c :: sp')); [assumption|discriminate].
  - intros p. destruct (renders_Lexes _ _ _ H p) as (p' & HL & _).
    destruct (Lexes_word_inv _ _ _ _ HL) as (s1 & E & _). exists s1. exact E.
Qed.

(* ---------------------------------------------------------------- startxref *)
(** no occurrence of a pattern in a text that does not contain the pattern's first byte *)
Lemma rfind_sub_no_first c pr l : Forall (fun b => b <> c) l -> rfind_sub (c :: pr) l = None.
Proof.
  induction 1 as [|b l Hb Hl IH]; [reflexivity|].
  cbn [rfind_sub]. rewrite IH. cbn [starts_with]. destruct (N.eqb_spec c b) as [->|]; [contradiction|reflexivity].
Qed.

Lemma starts_with_self pat t : starts_with pat (pat ++ t) = true.
Proof. apply starts_with_app. exists t. reflexivity. Qed.

(** the last occurrence of [c :: pr] in  a ++ (c :: pr) ++ t  is at |a| when [c] occurs neither in [pr] nor in [t] *)
Lemma rfind_sub_last c pr a t :
  Forall (fun b => b <> c) pr -> Forall (fun b => b <> c) t ->
  rfind_sub (c :: pr) (a ++ (c :: pr) ++ t) = Some (lenN a).
Proof.
  intros Hpr Ht.
  assert (H0 : rfind_sub (c :: pr) ((c :: pr) ++ t) = Some 0).
  { cbn [app rfind_sub]. rewrite (rfind_sub_no_first c pr (pr ++ t)) by (apply Forall_app; split; assumption).
    change (c :: pr ++ t) with ((c :: pr) ++ t). rewrite starts_with_self. reflexivity. }
  rewrite (rfind_sub_app _ a _ _ H0). f_equal. lia.
Qed.

Lemma firstn_app_exact {A} (a b : list A) n : n = length a -> firstn n (a ++ b) = a.
Proof. intros ->. rewrite firstn_app, Nat.sub_diag, firstn_all. cbn. apply app_nil_r. Qed.

Lemma kw_startxref_shape : exists pr, xr_startxref_kw = 115 :: pr /\ Forall (fun b => b <> 115) pr.
Proof. eexists. split; [reflexivity|]. repeat constructor; discriminate. Qed.

(** the end of a file as §7.5.5 writes it: `startxref`, the offset in decimal, then a tail (`%%EOF`) —
    nothing after the keyword contains the letter `s` *)
Definition startxref_at (file : bytes) (q : N) : Prop :=
  exists body sp tail,
    file = body ++ xr_startxref_kw ++ sp ++ dec_of_N q ++ tail /\
    sep sp /\ boundary tail /\ q < 2 ^ 64 /\
    Forall (fun b => b <> 115) sp /\ Forall (fun b => b <> 115) tail.

Lemma removelast_forall {A} (P : A -> Prop) l : Forall P l -> Forall P (removelast l).
Proof.
  induction 1 as [|x l Hx Hl IH]; [constructor|]. cbn [removelast]. destruct l; [constructor|]. constructor; assumption.
Qed.

Lemma firstn_removelast {A} (l : list A) : firstn (length l - 1) l = removelast l.
Proof.
  induction l as [|x l IH]; [reflexivity|]. cbn [length removelast]. destruct l as [|y l]; [reflexivity|].
  replace (S (length (y :: l)) - 1)%nat with (S (length (y :: l) - 1)) by (cbn [length]; lia).
  cbn [firstn]. f_equal. exact IH.
Qed.

Lemma digits_not_s l : forallb isdig l = true -> Forall (fun b => b <> 115) l.
Proof.
  induction l as [|c l IH]; cbn [forallb]; intros H; [constructor|].
  apply andb_true_iff in H. destruct H as [Hc Hl]. constructor; [|apply IH; exact Hl].
  intros ->. discriminate.
Qed.

Theorem locate_xref_startxref : forall file q, startxref_at file q -> locate_xref_offset file = Ok q.
Proof.
  intros file q (body & sp & tail & -> & Hsp & Hb & Hq & Nsp & Ntail).
  destruct kw_startxref_shape as (pr & Ekw & Hpr).
  destruct (dec_of_N_spec q) as (Hd & Hne & Hv).
  set (rest := sp ++ dec_of_N q ++ tail).
  assert (Hrest : rest <> []).
  { unfold rest. destruct sp; [|discriminate]. destruct (dec_of_N q); [contradiction|discriminate]. }
  assert (Nrest : Forall (fun b => b <> 115) rest).
  { unfold rest. apply Forall_app. split; [exact Nsp|]. apply Forall_app. split; [apply digits_not_s; exact Hd|exact Ntail]. }
  unfold locate_xref_offset. change xr_from_end with 0.
  replace (body ++ xr_startxref_kw ++ sp ++ dec_of_N q ++ tail) with (body ++ xr_startxref_kw ++ rest) by reflexivity.
  assert (Htake : take (lenN (body ++ xr_startxref_kw ++ rest) - 0 - 1) (body ++ xr_startxref_kw ++ rest)
                  = body ++ xr_startxref_kw ++ removelast rest).
  { unfold take, lenN.
    replace (N.to_nat (N.of_nat (length (body ++ xr_startxref_kw ++ rest)) - 0 - 1)) with (length (body ++ xr_startxref_kw ++ rest) - 1)%nat by lia.
    rewrite firstn_removelast. rewrite app_assoc, removelast_app by exact Hrest. rewrite <- app_assoc. reflexivity. }
  rewrite Htake, Ekw. rewrite (rfind_sub_last 115 pr body (removelast rest) Hpr (removelast_forall _ _ Nrest)).
  rewrite <- Ekw. cbv zeta.
  assert (Hdrop : drop (lenN body + lenN xr_startxref_kw) (body ++ xr_startxref_kw ++ rest) = rest).
  { rewrite app_assoc. rewrite <- lenN_app. apply drop_app_exact. }
  rewrite Hdrop. unfold rest.
  rewrite (next_tok sp (dec_of_N q) tail _ Hsp Hne (digits_reg _ Hd) Hb). cbn [bind].
  apply parse_uint_dec. exact Hq.
Qed.

(** what may follow the trailer dictionary: the parser looks one token ahead for `stream` (and, after an
    integer, for `R`); at the end of the text, before white-space only, or before a word that is neither an
    integer nor `stream` (in a file: `startxref`) nothing is found *)
Definition tail_ok (tl : bytes) : Prop := forall p, follow_ok [] (mkLx p tl) /\ nostream_at [] (mkLx p tl).

Lemma tail_ok_eof : tail_ok [].
Proof. intros p. apply follow_eof. Qed.
Lemma tail_ok_ws tl : Forall (fun b => is_ws b = true) tl -> tail_ok tl.
Proof. intros H p. apply follow_ws_tail_any. exact H. Qed.
Lemma tail_ok_word sp w rest :
  sep sp -> w <> [] -> Forall (fun b => is_reg b = true) w -> boundary rest ->
  is_integer w = false -> bytes_eqb w kw_stream = false -> tail_ok (sp ++ w ++ rest).
Proof.
  intros Hs Hne Hr Hb Hi Hk p. apply follow_word; [|exact Hi|exact Hk]. apply next_tok; assumption.
Qed.

Section AtProofs.
  Variable R : resolver.
  Variable tid : dict -> N.

  (** C02: one classic section — table and trailer dictionary — is read back as written: the table in any
      layout of C02_table_roundtrip, the dictionary in any conforming spelling (Syn/Spells.v) *)
  Theorem read_section_roundtrip : forall L secs d its text tl p,
    layout_ok L secs -> spells (PDict d) its -> vdepth (PDict d) <= MAX_DEPTH ->
    renders its text tl -> tail_ok tl ->
    exists p', p' + lenN tl = p + lenN (print_table_spec L secs) + lenN text /\
      read_xref_and_trailer_at R (mkLx p (print_table_spec L secs ++ text)) = Ok (secs, d, mkLx p' tl).
  Proof.
    intros L secs d its text tl p HL Hsp Hd Hr Htl.
    assert (Hits : exists its', its = IWord kw_dict_open :: its').
    { inversion Hsp; subst. eexists. reflexivity. }
    destruct Hits as [its' ->].
    destruct (renders_dict_head _ _ _ Hr) as [Hb Hnext].
    set (p1 := p + lenN (print_table_spec L secs)).
    exists (p1 + lenN text - lenN tl).
    assert (Hlen : lenN tl <= lenN text).
    { pose proof (renders_length _ _ _ Hr) as H. unfold lenN. lia. }
    split; [unfold p1; lia|].
    pose proof (table_roundtrip_b L secs text p HL Hb) as Ht.
    unfold read_xref_table_at in Ht. unfold read_xref_and_trailer_at, parse_xref_table_and_trailer.
    destruct (next (mkLx p (print_table_spec L secs ++ text))) as [[w s1]| | |]; cbn [bind] in *; try discriminate.
    destruct (bytes_eqb w xr_kw_xref); [|discriminate]. rewrite Ht. cbn [bind]. fold p1.
    assert (Hp' : p1 + lenN text - lenN tl + lenN tl = p1 + lenN text) by lia.
    destruct (Htl (p1 + lenN text - lenN tl)) as [HF HN].
    pose proof (parse_rendered (PDict d) _ text tl R None p1 Hsp Hd Hr _ Hp' HF HN) as Hparse.
    unfold parse_ctx in *. unfold fuel_for in *. cbn [lrest] in *.
    destruct (Hnext p1) as [s2 E2].
    replace (2 * length text + 4)%nat with (S (2 * length text + 3)) in * by lia.
    rewrite (parse_fuel_dict_flags _ _ _ _ _ _ E2), Hparse. reflexivity.
  Qed.

  (** the file has, at position [pos], a classic section (table [secs] in layout [L], then the trailer
      dictionary [d] in some conforming spelling, then a tail the parser does not mistake for `stream`) *)
  Definition section_at (file : bytes) (pos : N) (secs : list section) (d : dict) : Prop :=
    exists L its text tl,
      drop pos file = print_table_spec L secs ++ text /\
      layout_ok L secs /\ spells (PDict d) its /\ vdepth (PDict d) <= MAX_DEPTH /\ renders its text tl /\ tail_ok tl.

  (** … then "read one section at a position" returns exactly that: the oracle premise of C02_walk_latest *)
  Theorem xref_at_section : forall file pos secs d,
    section_at file pos secs d -> xref_at_tables R tid file pos = Ok (secs, tinfo_of tid d).
  Proof.
    intros file pos secs d (L & its & text & tl & Hdrop & HL & Hsp & Hd & Hr & Htl).
    unfold xref_at_tables. rewrite Hdrop.
    destruct (read_section_roundtrip L secs d its text tl pos HL Hsp Hd Hr Htl) as (p' & _ & E).
    rewrite E. reflexivity.
  Qed.

  (** a chain of classic sections linked by /Prev, as found in the file *)
  Inductive chain_at (file : bytes) (start : N) : option (option N) -> list (N * list section) -> Prop :=
  | chain_nil : chain_at file start None []
  | chain_cons q secs d rest :
      section_at file (start + q) secs d -> chain_at file start (t_prev (tinfo_of tid d)) rest ->
      chain_at file start (Some (Some q)) ((q, secs) :: rest).

  Lemma chain_linked file start prev older :
    chain_at file start prev older -> linked (xref_at_tables R tid file) start prev older.
  Proof.
    induction 1 as [|q secs d rest Hs Hc IH]; [constructor|].
    econstructor; [apply xref_at_section; exact Hs|exact IH].
  Qed.

  (** C02_walk_latest without the oracle: for a file that contains a /Prev chain of classic sections, the
      walk returns, for every number below /Size, the entry of the most recent update mentioning it, and the
      newest trailer *)
  Theorem walk_latest_tables : forall file start (h : history) secss q0 secs0 d0 older size fuel n,
    Forall2 represents secss h -> wf_history h ->
    map snd ((q0, secs0) :: older) = rev secss ->
    section_at file (start + q0) secs0 d0 ->
    t_size (tinfo_of tid d0) = Some size -> size <= xr_max_id ->
    chain_at file start (t_prev (tinfo_of tid d0)) older -> NoDup (map fst older) ->
    (forall q, In q (q0 :: map fst older) -> start + q < lenN file) -> lenN file < usize_max ->
    (length older <= fuel)%nat -> n < size ->
    exists t, read_xref_table_and_trailer (xref_at_tables R tid file) (lenN file) fuel start q0 = Ok (t, tid d0) /\
              table_get t n = Ok (xent_opt (latest h n)).
  Proof.
    intros file start h secss q0 secs0 d0 older size fuel n Hr Hwf Hmap Hs Hsz Hm Hc Hnd Hb Hfl Hfuel Hn.
    exact (walk_latest (xref_at_tables R tid file) (lenN file) start h secss q0 secs0 (tinfo_of tid d0) older size fuel n
             Hr Hwf Hmap (xref_at_section _ _ _ _ Hs) Hsz Hm (chain_linked _ _ _ _ Hc) Hnd Hb Hfl Hfuel Hn).
  Qed.

  (* ---------------------------------------------------------------- objects *)
  (** the file has, at position [pos], the indirect object `id gen obj value endobj` (numbers in decimal, any
      separators, the value in any conforming spelling) *)
  Definition object_at (file : bytes) (pos : N) (id gen : N) (v : prim) : Prop :=
    exists sp1 sp2 sp3 its text tl,
      drop pos file = sp1 ++ dec_of_N id ++ sp2 ++ dec_of_N gen ++ sp3 ++ kw_obj ++ text /\
      sep sp1 /\ sep sp2 /\ sp2 <> [] /\ sep sp3 /\ sp3 <> [] /\ boundary text /\
      id < 18446744073709551616 /\ gen < 18446744073709551616 /\
      spells v its /\ vdepth v <= MAX_DEPTH /\ renders (its ++ [IWord kw_endobj]) text tl.

  Lemma kw_obj_reg : Forall (fun b => is_reg b = true) kw_obj.
  Proof. repeat constructor. Qed.

  Theorem obj_at_object : forall allow file pos id gen v,
    object_at file pos id gen v -> obj_at_parse R allow F_ANY file pos = Ok v.
  Proof.
    intros allow file pos id gen v
      (sp1 & sp2 & sp3 & its & text & tl & Hdrop & S1 & S2 & N2 & S3 & N3 & Hb & Hid & Hgen & Hsp & Hd & Hr).
    unfold obj_at_parse, parse_indirect_object. rewrite Hdrop.
    destruct (dec_reg id) as (R1 & Ne1 & _). destruct (dec_reg gen) as (Rg & Neg & _).
    destruct (dec_of_N_u64 id Hid) as [Pid _]. destruct (dec_of_N_u64 gen Hgen) as [Pgen _].
    rewrite (next_tok sp1 (dec_of_N id) _ pos S1 Ne1 R1 (sep_boundary _ S2 N2 _)). cbn [bind]. rewrite Pid. cbn [bind].
    rewrite (next_tok sp2 (dec_of_N gen) _ _ S2 Neg Rg (sep_boundary _ S3 N3 _)). cbn [bind]. rewrite Pgen. cbn [bind].
    unfold next_expect at 1.
    rewrite (next_tok sp3 kw_obj text _ S3 ltac:(discriminate) kw_obj_reg Hb). cbn [bind].
    change (bytes_eqb kw_obj kw_obj) with true. cbv iota.
    cbn [bind].
    match goal with |- context [parse_ctx _ _ _ _ (mkLx ?q text)] => set (p3 := q) end.
    destruct (renders_Lexes _ _ _ Hr p3) as (p' & HL & _).
    destruct (parse_spelled _ _ Hsp (fuel_for (mkLx p3 text)) R (Some (id, gen)) MAX_DEPTH (mkLx p3 text)
                [IWord kw_endobj] (mkLx p' tl)) as (s4 & E4 & HL4).
    - unfold fuel_for. cbn [lrest]. pose proof (renders_length _ _ _ Hr) as Hl. rewrite app_length in Hl. lia.
    - exact Hd.
    - exact HL.
    - apply follow_ok_nonint. reflexivity.
    - reflexivity.
    - unfold parse_ctx. rewrite E4. cbn [bind].
      destruct (Lexes_word_inv _ _ _ _ HL4) as (s5 & E5 & _).
      unfold next_expect. rewrite E5. cbn [bind]. change (bytes_eqb kw_endobj kw_endobj) with true. cbv iota.
      destruct allow; reflexivity.
  Qed.

  (** what a well-formed file stores for a mention *)
  Definition stored (file : bytes) (start n : N) (m : option mention) (r : res prim) : Prop :=
    match m with
    | Some (Direct g pos) => exists v, object_at file (start + pos) n g v /\ r = Ok v
    | Some (Freed _ _) => r = Err E_FREE
    | Some (Compressed _ _) => True          (* not in a classic-table file *)
    | None => r = Err E_NULLREF
    end.

  Lemma object_at_inside file pos id gen v : object_at file pos id gen v -> pos < lenN file.
  Proof.
    intros (sp1 & sp2 & sp3 & its & text & tl & Hdrop & _).
    destruct (N.lt_ge_cases pos (lenN file)) as [H|H]; [exact H|]. exfalso.
    unfold drop in Hdrop. rewrite skipn_all2 in Hdrop by (unfold lenN in H; lia).
    destruct sp1; [|discriminate]. cbn [app] in Hdrop.
    destruct (dec_of_N_spec id) as (_ & Hne & _). destruct (dec_of_N id); [contradiction|discriminate].
  Qed.

  (** resolving through a table entry that is the newest mention: the object written there, or the error
      kind of a free / missing number *)
  Theorem resolve_stored : forall allow member file start t n m fuel,
    table_get t n = Ok (xent_opt m) -> lenN file < usize_max ->
    (forall g pos, m = Some (Direct g pos) -> exists v, object_at file (start + pos) n g v) ->
    (forall s i, m <> Some (Compressed s i)) ->
    stored file start n m (resolve_ref prim (obj_at_parse R allow F_ANY) member (S fuel) file start t n).
  Proof.
    intros allow member file start t n m fuel Hget Hfl Hobj Hnc.
    cbn [resolve_ref]. rewrite Hget. cbn [bind].
    destruct m as [[g pos|sid idx|g nx]|]; cbn [xent_opt xent_of stored].
    - destruct (Hobj g pos eq_refl) as [v Hv]. exists v. split; [exact Hv|].
      pose proof (object_at_inside _ _ _ _ _ Hv) as Hin.
      assert (H1 : usize_max <=? start + pos = false) by (apply N.leb_gt; lia). rewrite H1.
      assert (H2 : lenN file <? start + pos = false) by (apply N.ltb_ge; lia). rewrite H2.
      eapply obj_at_object. exact Hv.
    - exfalso. exact (Hnc sid idx eq_refl).
    - reflexivity.
    - reflexivity.
  Qed.

  Lemma section_at_inside file pos secs d : section_at file pos secs d -> pos < lenN file.
  Proof.
    intros (L & its & text & tl & Hdrop & _).
    destruct (N.lt_ge_cases pos (lenN file)) as [H|H]; [exact H|]. exfalso.
    unfold drop in Hdrop. rewrite skipn_all2 in Hdrop by (unfold lenN in H; lia). discriminate.
  Qed.

  Lemma chain_at_inside file start prev older :
    chain_at file start prev older -> forall q, In q (map fst older) -> start + q < lenN file.
  Proof.
    induction 1 as [|q secs d rest Hs Hc IH]; intros q' Hin; cbn [map fst In] in Hin; [contradiction|].
    destruct Hin as [<-|Hin]; [eapply section_at_inside; exact Hs|apply IH; exact Hin].
  Qed.

  Lemma seqN_length a n : length (seqN a n) = n.
  Proof. revert a. induction n as [|n IH]; intros a; cbn [seqN length]; [reflexivity|rewrite IH; reflexivity]. Qed.

  Lemma nodup_below (l : list N) (b : nat) : NoDup l -> (forall q, In q l -> q < N.of_nat b) -> (length l <= b)%nat.
  Proof.
    intros Hnd Hb. rewrite <- (seqN_length 0 b). apply NoDup_incl_length; [exact Hnd|].
    intros q Hq. apply seqN_In. specialize (Hb q Hq). lia.
  Qed.

  (** C02_resolve_latest for classic-table files: opening the file (header at 0, startxref, the /Prev walk)
      and resolving any number below /Size gives the object stored by the most recent update that mentions
      the number — FreeObject / NullRef for freed / never mentioned numbers — and the newest trailer *)
  Theorem resolve_latest_tables : forall allow member file (h : history) secss q0 secs0 d0 older size,
    Forall2 represents secss h -> wf_history h ->
    map snd ((q0, secs0) :: older) = rev secss ->
    starts_with xr_header file = true -> locate_xref_offset file = Ok q0 ->
    section_at file q0 secs0 d0 -> t_size (tinfo_of tid d0) = Some size -> size <= xr_max_id ->
    chain_at file 0 (t_prev (tinfo_of tid d0)) older -> NoDup (map fst older) ->
    lenN file < usize_max ->
    (forall n g pos, latest h n = Some (Direct g pos) -> exists v, object_at file pos n g v) ->
    (forall n s i, latest h n <> Some (Compressed s i)) ->
    exists t, load (xref_at_tables R tid) file = Ok (0, t, tid d0) /\
      forall n fuel, n < size ->
        stored file 0 n (latest h n) (resolve_ref prim (obj_at_parse R allow F_ANY) member (S fuel) file 0 t n).
  Proof.
    intros allow member file h secss q0 secs0 d0 older size Hr Hwf Hmap Hhdr Hloc Hs Hsz Hm Hc Hnd Hfl Hobj Hnc.
    assert (Hs0 : section_at file (0 + q0) secs0 d0) by (replace (0 + q0) with q0 by lia; exact Hs).
    assert (Hin : forall q, In q (q0 :: map fst older) -> 0 + q < lenN file).
    { intros q [<-|Hq]; [eapply section_at_inside; exact Hs0|eapply chain_at_inside; [exact Hc|exact Hq]]. }
    assert (Hfuel : (length older <= S (length file))%nat).
    { rewrite <- (map_length fst). apply Nat.le_le_succ_r. apply nodup_below; [exact Hnd|].
      intros q Hq. specialize (Hin q (or_intror Hq)). unfold lenN in Hin. lia. }
    (* the table *)
    destruct (merge_beyond_size h secss size size Hr Hwf (N.le_refl _)) as [t [Hmerge _]].
    assert (Hread : read_xref_table_and_trailer (xref_at_tables R tid file) (lenN file) (S (length file)) 0 q0 = Ok (t, tid d0)).
    { apply (walk_merges (xref_at_tables R tid file) (lenN file) 0 q0 secs0 (tinfo_of tid d0) older size (S (length file)) t);
        auto using xref_at_section, chain_linked.
      rewrite <- Hmap in Hmerge. cbn [map snd concat] in Hmerge. exact Hmerge. }
    exists t. split.
    - unfold load. rewrite (locate_start_plain file Hhdr), Hloc. cbn [bind]. rewrite Hread. reflexivity.
    - intros n fuel Hn.
      destruct (walk_latest (xref_at_tables R tid file) (lenN file) 0 h secss q0 secs0 (tinfo_of tid d0) older size (S (length file)) n
                  Hr Hwf Hmap (xref_at_section _ _ _ _ Hs0) Hsz Hm (chain_linked _ _ _ _ Hc) Hnd Hin Hfl Hfuel Hn) as [t' [Hread' Hget]].
      rewrite Hread in Hread'. inversion Hread'; subst t'.
      apply resolve_stored; [exact Hget|exact Hfl| |apply Hnc].
      intros g pos Hl. replace (0 + pos) with pos by lia. apply (Hobj n g pos Hl).
  Qed.

  (** … with the value of `startxref` derived from the end of the file instead of assumed *)
  Corollary resolve_latest_tables_file : forall allow member file (h : history) secss q0 secs0 d0 older size,
    Forall2 represents secss h -> wf_history h ->
    map snd ((q0, secs0) :: older) = rev secss ->
    starts_with xr_header file = true -> startxref_at file q0 ->
    section_at file q0 secs0 d0 -> t_size (tinfo_of tid d0) = Some size -> size <= xr_max_id ->
    chain_at file 0 (t_prev (tinfo_of tid d0)) older -> NoDup (map fst older) ->
    lenN file < usize_max ->
    (forall n g pos, latest h n = Some (Direct g pos) -> exists v, object_at file pos n g v) ->
    (forall n s i, latest h n <> Some (Compressed s i)) ->
    exists t, load (xref_at_tables R tid) file = Ok (0, t, tid d0) /\
      forall n fuel, n < size ->
        stored file 0 n (latest h n) (resolve_ref prim (obj_at_parse R allow F_ANY) member (S fuel) file 0 t n).
  Proof.
    intros allow member file h secss q0 secs0 d0 older size Hr Hwf Hmap Hhdr Hsx.
    apply (resolve_latest_tables allow member file h secss q0 secs0 d0 older size Hr Hwf Hmap Hhdr (locate_xref_startxref _ _ Hsx)).
  Qed.
End AtProofs.
