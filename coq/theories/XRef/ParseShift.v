(** XRef/ParseShift.v — C17: the lexer offset (Lexer::with_offset) only labels.  The object parser model
    (Syn/Parser.v: parse_fuel / parse_dict_fuel / parse_array_fuel, parse_stream_object) run on the same
    bytes at another absolute position returns the same value with every reported file range
    (StreamInner::InFile) moved by the difference, and stops at the moved position. *)
From PdfV Require Import Base.Prelude Gen.Generated Lex.Lexer Lex.StrLexer Syn.Prim Syn.Parser Syn.Spells Syn.ParserProofs XRef.LexShift.

(** moving every absolute file position inside a value *)
Fixpoint shift_prim (d : N) (v : prim) : prim :=
  match v with
  | PArr l => PArr (map (shift_prim d) l)
  | PDict e => PDict (map (fun kv => let '(k, x) := kv in (k, shift_prim d x)) e)
  | PStream e i g st ln => PStream (map (fun kv => let '(k, x) := kv in (k, shift_prim d x)) e) i g (st + d) ln
  | PStreamData e x => PStreamData (map (fun kv => let '(k, x) := kv in (k, shift_prim d x)) e) x
  | _ => v
  end.
Definition shift_dict (d : N) (e : dict) : dict := map (fun kv => let '(k, x) := kv in (k, shift_prim d x)) e.
Definition shift_pv (d : N) (r : prim * lx) : prim * lx := (shift_prim d (fst r), shift_lx d (snd r)).
Definition shift_dv (d : N) (r : dict * lx) : dict * lx := (shift_dict d (fst r), shift_lx d (snd r)).

Lemma advance_shift d s n : advance (shift_lx d s) n = shift_lx d (advance s n).
Proof. unfold advance, shift_lx. cbn [lpos lrest]. f_equal. lia. Qed.

Lemma next_stream_shift d s : next_stream (shift_lx d s) = rmap (shift_lx d) (next_stream s).
Proof.
  unfold next_stream. rewrite next_shift. destruct (next s) as [[t s1]| | |]; cbn [rmap bind shift_tok fst snd]; try reflexivity.
  change (lrest (shift_lx d s1)) with (lrest s1). destruct (lrest s1) as [|b0 t0]; [reflexivity|].
  destruct (b0 =? stream_lf); [cbn [rmap]; rewrite advance_shift; reflexivity|].
  destruct (b0 =? stream_cr); [|reflexivity]. destruct t0 as [|b1 t1]; [reflexivity|].
  destruct (b1 =? stream_cr_lf); [cbn [rmap]; rewrite advance_shift; reflexivity|reflexivity].
Qed.

Lemma next_expect_shift d s kw : next_expect (shift_lx d s) kw = rmap (shift_lx d) (next_expect s kw).
Proof.
  unfold next_expect. rewrite next_shift. destruct (next s) as [[t s1]| | |]; cbn [rmap bind shift_tok fst snd]; try reflexivity.
  destruct (bytes_eqb t kw); reflexivity.
Qed.

Lemma dict_get_shift d k e : dict_get k (shift_dict d e) = option_map (shift_prim d) (dict_get k e).
Proof.
  induction e as [|[k' v] e IH]; [reflexivity|]. cbn [shift_dict map dict_get]. destruct (bytes_eqb k k'); [reflexivity|exact IH].
Qed.

Lemma dict_insert_shift d k v e : dict_insert k (shift_prim d v) (shift_dict d e) = shift_dict d (dict_insert k v e).
Proof.
  induction e as [|[k' v'] e IH]; [reflexivity|]. cbn [shift_dict map dict_insert].
  destruct (bytes_eqb k k'); [reflexivity|]. cbn [map]. f_equal. exact IH.
Qed.

Lemma parse_stream_object_shift d R e id gen s :
  parse_stream_object R (shift_dict d e) id gen (shift_lx d s) = rmap (shift_pv d) (parse_stream_object R e id gen s).
Proof.
  unfold parse_stream_object. rewrite next_stream_shift.
  destruct (next_stream s) as [s1| | |]; cbn [rmap bind]; try reflexivity.
  rewrite dict_get_shift.
  assert (HL : (match option_map (shift_prim d) (dict_get key_Length e) with
                | Some (PInt n) => if (0 <=? n)%Z then Ok (Z.to_N n) else Err E_PRIM
                | Some (PRef i g) => do p <- R i g F_INTEGER; as_usize_prim p
                | Some _ => Err E_PRIM
                | None => Err E_PRIM
                end) =
               (match dict_get key_Length e with
                | Some (PInt n) => if (0 <=? n)%Z then Ok (Z.to_N n) else Err E_PRIM
                | Some (PRef i g) => do p <- R i g F_INTEGER; as_usize_prim p
                | Some _ => Err E_PRIM
                | None => Err E_PRIM
                end)).
  { destruct (dict_get key_Length e) as [[]|]; reflexivity. }
  rewrite HL. clear HL.
  destruct (match dict_get key_Length e with
            | Some (PInt n) => if (0 <=? n)%Z then Ok (Z.to_N n) else Err E_PRIM
            | Some (PRef i g) => do p <- R i g F_INTEGER; as_usize_prim p
            | Some _ => Err E_PRIM
            | None => Err E_PRIM
            end) as [len| | |]; cbn [bind]; try reflexivity.
  unfold read_n. change (lrest (shift_lx d s1)) with (lrest s1). change (lpos (shift_lx d s1)) with (lpos s1 + d).
  destruct (negb (N.min len (lenN (lrest s1)) =? len)); [reflexivity|].
  rewrite advance_shift, next_expect_shift.
  destruct (next_expect (advance s1 (N.min len (lenN (lrest s1)))) kw_endstream) as [s3| | |]; reflexivity.
Qed.

Lemma parse_dict_fuel_unfold f R cx depth s acc :
  parse_dict_fuel (S f) R cx depth s acc =
  (do (tok, s1) <- next s;
   match starts_slash tok with
   | Some rest =>
       do key <- decode_name rest;
       do (v, s2) <- parse_fuel f R cx F_ANY depth s1;
       parse_dict_fuel f R cx depth s2 (dict_insert key v acc)
   | None => if bytes_eqb tok kw_dict_close then Ok (acc, s1) else Err E_LEX
   end).
Proof. reflexivity. Qed.

Lemma parse_array_fuel_unfold f R cx depth s acc :
  parse_array_fuel (S f) R cx depth s acc =
  (do pk <- peek s;
   if bytes_eqb pk kw_arr_close then
     do (_, s1) <- next s; Ok (PArr (rev acc), s1)
   else
     do (v, s1) <- parse_fuel f R cx F_ANY depth s;
     parse_array_fuel f R cx depth s1 (v :: acc)).
Proof. reflexivity. Qed.

Definition P_shift (d : N) (f : nat) : Prop :=
  (forall R cx flags depth s,
     parse_fuel f R cx flags depth (shift_lx d s) = rmap (shift_pv d) (parse_fuel f R cx flags depth s)) /\
  (forall R cx depth s acc,
     parse_dict_fuel f R cx depth (shift_lx d s) (shift_dict d acc) = rmap (shift_dv d) (parse_dict_fuel f R cx depth s acc)) /\
  (forall R cx depth s acc,
     parse_array_fuel f R cx depth (shift_lx d s) (map (shift_prim d) acc) = rmap (shift_pv d) (parse_array_fuel f R cx depth s acc)).

Lemma parse_body_shift d f R cx flags depth tok s1 : P_shift d f ->
  parse_body f R cx flags depth tok (shift_lx d s1) = rmap (shift_pv d) (parse_body f R cx flags depth tok s1).
Proof.
  intros (IH1 & IH2 & IH3). unfold parse_body.
  destruct (bytes_eqb tok kw_dict_open).
  { destruct (check flags F_DICT); cbn [bind rmap]; try reflexivity.
    destruct (depth =? 0); [reflexivity|].
    pose proof (IH2 R cx (depth - 1) s1 []) as H2. cbn [shift_dict map] in H2. rewrite H2. clear H2.
    destruct (parse_dict_fuel f R cx (depth - 1) s1 []) as [[e s2]| | |]; cbn [rmap bind shift_dv fst snd]; try reflexivity.
    rewrite peek_shift. destruct (peek s2) as [pk| | |]; cbn [bind rmap]; try reflexivity.
    destruct (bytes_eqb pk kw_stream); [|reflexivity].
    destruct cx as [[id gen]|]; [apply parse_stream_object_shift|reflexivity]. }
  destruct (is_integer tok).
  { destruct (check flags (N.lor F_INTEGER F_REF)); cbn [bind rmap]; try reflexivity.
    rewrite next_shift.
    destruct (next s1) as [[tok2 s2]| | |]; cbn [rmap shift_tok fst snd].
    2,3,4: (destruct (check flags F_INTEGER); cbn [bind rmap]; try reflexivity;
            destruct (parse_i32 tok); try reflexivity; destruct (check flags F_NUMBER); reflexivity).
    destruct (is_integer tok2).
    2: (destruct (check flags F_INTEGER); cbn [bind rmap]; try reflexivity;
        destruct (parse_i32 tok); try reflexivity; destruct (check flags F_NUMBER); reflexivity).
    rewrite next_shift.
    destruct (next s2) as [[tok3 s3]| | |]; cbn [rmap shift_tok fst snd].
    2,3,4: (destruct (check flags F_INTEGER); cbn [bind rmap]; try reflexivity;
            destruct (parse_i32 tok); try reflexivity; destruct (check flags F_NUMBER); reflexivity).
    destruct (bytes_eqb tok3 kw_R).
    - destruct (check flags F_REF); cbn [bind rmap]; try reflexivity.
      destruct (parse_u64 tok); cbn [bind rmap]; try reflexivity.
      destruct (parse_u64 tok2); reflexivity.
    - destruct (check flags F_INTEGER); cbn [bind rmap]; try reflexivity;
        destruct (parse_i32 tok); try reflexivity; destruct (check flags F_NUMBER); reflexivity. }
  destruct (real_number tok) as [txt|].
  { destruct (check flags F_NUMBER); cbn [bind rmap]; try reflexivity. destruct (f32_parsable txt); reflexivity. }
  destruct (starts_slash tok) as [rest|].
  { destruct (check flags F_NAME); cbn [bind rmap]; try reflexivity. destruct (decode_name rest); reflexivity. }
  destruct (bytes_eqb tok kw_arr_open).
  { destruct (check flags F_ARRAY); cbn [bind rmap]; try reflexivity.
    destruct (depth =? 0); [reflexivity|].
    pose proof (IH3 R cx (depth - 1) s1 []) as H3. cbn [map] in H3. exact H3. }
  destruct (bytes_eqb tok kw_lparen).
  { destruct (check flags F_STRING); cbn [bind rmap]; try reflexivity.
    change (lrest (shift_lx d s1)) with (lrest s1).
    destruct (string_lex (lrest s1)) as [[str off]| | |]; cbn [bind rmap]; try reflexivity.
    rewrite advance_shift. reflexivity. }
  destruct (bytes_eqb tok kw_lt).
  { destruct (check flags F_STRING); cbn [bind rmap]; try reflexivity.
    change (lrest (shift_lx d s1)) with (lrest s1).
    destruct (hexstring_lex (lrest s1)) as [[str off]| | |]; cbn [bind rmap]; try reflexivity.
    rewrite advance_shift. reflexivity. }
  destruct (bytes_eqb tok kw_true); [destruct (check flags F_BOOL); reflexivity|].
  destruct (bytes_eqb tok kw_false); [destruct (check flags F_BOOL); reflexivity|].
  destruct (bytes_eqb tok kw_null); [destruct (check flags F_NULL); reflexivity|].
  reflexivity.
Qed.

Theorem parse_shift d : forall f, P_shift d f.
Proof.
  induction f as [|f IH]; [repeat split; reflexivity|].
  pose proof IH as (IH1 & IH2 & IH3).
  split; [|split].
  - intros R cx flags depth s. rewrite !parse_fuel_S, next_shift.
    destruct (next s) as [[tok s1]| | |]; cbn [rmap bind shift_tok fst snd]; try reflexivity.
    apply parse_body_shift. exact IH.
  - intros R cx depth s acc. rewrite !parse_dict_fuel_unfold, next_shift.
    destruct (next s) as [[tok s1]| | |]; cbn [rmap bind shift_tok fst snd]; try reflexivity.
    destruct (starts_slash tok) as [rest|].
    + destruct (decode_name rest) as [key| | |]; cbn [bind rmap]; try reflexivity.
      rewrite IH1. destruct (parse_fuel f R cx F_ANY depth s1) as [[v s2]| | |]; cbn [rmap bind shift_pv fst snd]; try reflexivity.
      rewrite dict_insert_shift. apply IH2.
    + destruct (bytes_eqb tok kw_dict_close); reflexivity.
  - intros R cx depth s acc. rewrite !parse_array_fuel_unfold, peek_shift.
    destruct (peek s) as [pk| | |]; cbn [bind rmap]; try reflexivity.
    destruct (bytes_eqb pk kw_arr_close).
    + rewrite next_shift. destruct (next s) as [[t s1]| | |]; cbn [rmap bind shift_tok fst snd shift_pv]; try reflexivity.
      cbn [shift_prim]. rewrite <- map_rev. reflexivity.
    + rewrite IH1. destruct (parse_fuel f R cx F_ANY depth s) as [[v s1]| | |]; cbn [rmap bind shift_pv fst snd]; try reflexivity.
      change (shift_prim d v :: map (shift_prim d) acc) with (map (shift_prim d) (v :: acc)). apply IH3.
Qed.
