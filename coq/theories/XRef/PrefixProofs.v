(** XRef/PrefixProofs.v — C17 without parser oracles for files read through classic tables: the concrete
    readers of XRef/At.v (xref_at_tables, obj_at_parse) satisfy the premises of C17_load_invariant /
    C17_resolve_invariant, by XRef/LexShift.v and XRef/ParseShift.v. *)
From PdfV Require Import Base.Prelude Gen.Generated XRef.Model XRef.Spec XRef.At XRef.LexShift XRef.HeaderProofs XRef.FrontProofs XRef.TableProofs XRef.AtProofs XRef.MergeProofs.
From PdfV Require Import Syn.Prim Syn.Parser Syn.ParserProofs.
From PdfV Require Import XRef.ParseShift.

Definition shift_snd {A} (d : N) (r : A * lx) : A * lx := (fst r, shift_lx d (snd r)).

Lemma table_entries_shift d : forall fuel cnt s acc,
  table_entries fuel cnt (shift_lx d s) acc = rmap (shift_snd d) (table_entries fuel cnt s acc).
Proof.
  induction fuel as [|f IH]; intros cnt s acc.
  - cbn [table_entries]. destruct (cnt =? 0); reflexivity.
  - cbn [table_entries]. destruct (cnt =? 0); [reflexivity|].
    rewrite next_shift. destruct (next s) as [[w1 s1]| | |]; cbn [rmap bind shift_tok fst snd]; try reflexivity.
    destruct (bytes_eqb w1 xr_kw_trailer); [reflexivity|].
    rewrite next_shift. destruct (next s1) as [[w2 s2]| | |]; cbn [rmap bind shift_tok fst snd]; try reflexivity.
    rewrite next_shift. destruct (next s2) as [[w3 s3]| | |]; cbn [rmap bind shift_tok fst snd]; try reflexivity.
    destruct (bytes_eqb w3 xr_kw_f).
    + destruct (parse_uint xr_bits_free_next w1); cbn [bind rmap]; try reflexivity.
      destruct (parse_uint xr_bits_free_gen w2); cbn [bind rmap]; try reflexivity. apply IH.
    + destruct (bytes_eqb w3 xr_kw_n); [|reflexivity].
      destruct (parse_uint xr_bits_pos w1); cbn [bind rmap]; try reflexivity.
      destruct (parse_uint xr_bits_gen w2); cbn [bind rmap]; try reflexivity. apply IH.
Qed.

Lemma table_sections_shift d : forall fuel s acc,
  table_sections fuel (shift_lx d s) acc = rmap (shift_snd d) (table_sections fuel s acc).
Proof.
  induction fuel as [|f IH]; intros s acc; [reflexivity|].
  cbn [table_sections]. rewrite peek_shift. destruct (peek s) as [pk| | |]; cbn [bind rmap]; try reflexivity.
  rewrite next_shift.
  destruct (bytes_eqb pk xr_kw_trailer).
  - destruct (next s) as [[w s1]| | |]; reflexivity.
  - destruct (next s) as [[ws s1]| | |]; cbn [rmap bind shift_tok fst snd]; try reflexivity.
    destruct (parse_uint xr_bits_first ws); cbn [bind rmap]; try reflexivity.
    rewrite next_shift. destruct (next s1) as [[wn s2]| | |]; cbn [rmap bind shift_tok fst snd]; try reflexivity.
    destruct (parse_uint xr_bits_count wn) as [num| | |]; cbn [bind rmap]; try reflexivity.
    change (lrest (shift_lx d s2)) with (lrest s2). rewrite table_entries_shift.
    destruct (table_entries (S (length (lrest s2))) num s2 []) as [[es s3]| | |]; cbn [rmap bind shift_snd fst snd]; try reflexivity.
    apply IH.
Qed.

Lemma parse_ctx_shift d R cx flags depth s :
  parse_ctx R cx flags depth (shift_lx d s) = rmap (shift_pv d) (parse_ctx R cx flags depth s).
Proof. unfold parse_ctx, fuel_for. change (lrest (shift_lx d s)) with (lrest s). apply (parse_shift d). Qed.

Definition shift_sec (d : N) (r : list section * dict * lx) : list section * dict * lx :=
  let '(secs, e, s) := r in (secs, shift_dict d e, shift_lx d s).

Lemma read_xref_and_trailer_at_shift d R s :
  read_xref_and_trailer_at R (shift_lx d s) = rmap (shift_sec d) (read_xref_and_trailer_at R s).
Proof.
  unfold read_xref_and_trailer_at. rewrite next_shift.
  destruct (next s) as [[w s1]| | |]; cbn [rmap bind shift_tok fst snd]; try reflexivity.
  destruct (bytes_eqb w xr_kw_xref); [|reflexivity].
  unfold parse_xref_table_and_trailer, parse_xref_table. change (lrest (shift_lx d s1)) with (lrest s1).
  rewrite table_sections_shift.
  destruct (table_sections (S (length (lrest s1))) s1 []) as [[secs s2]| | |]; cbn [rmap bind shift_snd fst snd]; try reflexivity.
  rewrite parse_ctx_shift.
  destruct (parse_ctx R None F_DICT MAX_DEPTH s2) as [[v s3]| | |]; cbn [rmap bind shift_pv fst snd]; try reflexivity.
  destruct v; reflexivity.
Qed.

Lemma parse_indirect_object_shift d R allow flags s :
  parse_indirect_object R allow flags (shift_lx d s)
  = rmap (fun r => let '(id, gen, v, s') := r in (id, gen, shift_prim d v, shift_lx d s')) (parse_indirect_object R allow flags s).
Proof.
  unfold parse_indirect_object. rewrite next_shift.
  destruct (next s) as [[t1 s1]| | |]; cbn [rmap bind shift_tok fst snd]; try reflexivity.
  destruct (parse_u64 t1) as [id| | |]; cbn [bind rmap]; try reflexivity.
  rewrite next_shift. destruct (next s1) as [[t2 s2]| | |]; cbn [rmap bind shift_tok fst snd]; try reflexivity.
  destruct (parse_u64 t2) as [gen| | |]; cbn [bind rmap]; try reflexivity.
  rewrite next_expect_shift. destruct (next_expect s2 kw_obj) as [s3| | |]; cbn [rmap bind]; try reflexivity.
  rewrite parse_ctx_shift.
  destruct (parse_ctx R (Some (id, gen)) flags MAX_DEPTH s3) as [[v s4]| | |]; cbn [rmap bind shift_pv fst snd]; try reflexivity.
  rewrite next_expect_shift. destruct allow; destruct (next_expect s4 kw_endobj) as [s5| | |]; reflexivity.
Qed.

Lemma tinfo_of_shift tid d e : tid (shift_dict d e) = tid e -> tinfo_of tid (shift_dict d e) = tinfo_of tid e.
Proof.
  intros Ht. unfold tinfo_of. rewrite !dict_get_shift, Ht.
  destruct (dict_get key_Size e) as [[]|]; destruct (dict_get key_Prev e) as [[]|]; reflexivity.
Qed.

Lemma drop_prefix (p f : bytes) pos : drop (lenN p + pos) (p ++ f) = drop pos f.
Proof.
  unfold drop, lenN. rewrite skipn_app.
  replace (N.to_nat (N.of_nat (length p) + pos) - length p)%nat with (N.to_nat pos) by lia.
  rewrite skipn_all2 by lia. reflexivity.
Qed.

Section Concrete.
  Variable R : resolver.
  Variable tid : dict -> N.
  Variables p f : bytes.
  Hypothesis Htid : forall e, tid (shift_dict (lenN p) e) = tid e.

  (** the oracle premises of C17_load_invariant / C17_resolve_invariant hold for the concrete readers *)
  Theorem xref_at_tables_prefix : forall pos,
    xref_at_tables R tid (p ++ f) (lenN p + pos) = xref_at_tables R tid f pos.
  Proof.
    intros pos. unfold xref_at_tables. rewrite drop_prefix.
    replace (mkLx (lenN p + pos) (drop pos f)) with (shift_lx (lenN p) (mkLx pos (drop pos f)))
      by (unfold shift_lx; cbn [lpos lrest]; f_equal; lia).
    rewrite read_xref_and_trailer_at_shift.
    destruct (read_xref_and_trailer_at R (mkLx pos (drop pos f))) as [[[secs e] s]| | |]; cbn [rmap bind shift_sec]; try reflexivity.
    rewrite tinfo_of_shift by apply Htid. reflexivity.
  Qed.

  Theorem obj_at_parse_prefix : forall allow flags pos,
    obj_at_parse R allow flags (p ++ f) (lenN p + pos) = rmap (shift_prim (lenN p)) (obj_at_parse R allow flags f pos).
  Proof.
    intros allow flags pos. unfold obj_at_parse. rewrite drop_prefix.
    replace (mkLx (lenN p + pos) (drop pos f)) with (shift_lx (lenN p) (mkLx pos (drop pos f)))
      by (unfold shift_lx; cbn [lpos lrest]; f_equal; lia).
    rewrite parse_indirect_object_shift.
    destruct (parse_indirect_object R allow flags (mkLx pos (drop pos f))) as [[[[id gen] v] s]| | |]; reflexivity.
  Qed.
End Concrete.

(** C17 for files read through classic tables, with NO parser oracle: for every file [f] whose header is at
    offset 0 and every prefix [p] without the marker that leaves the header inside the window, loading gives
    the same table and trailer, and every object number resolves to the same outcome (file ranges moved) *)
Theorem tables_prefix_invariant : forall (R : resolver) (tid : dict -> N) allow flags (p f : bytes),
  (forall e, tid (shift_dict (lenN p) e) = tid e) ->
  lenN (p ++ f) < usize_max ->
  starts_with xr_header f = true -> find_sub xr_header p = None -> lenN p + lenN xr_header <= xr_header_window ->
  (forall s t i, load (xref_at_tables R tid) f = Ok (s, t, i) -> s = 0 /\ load (xref_at_tables R tid) (p ++ f) = Ok (lenN p, t, i)) /\
  (forall t fuel id,
     resolve_ref prim (obj_at_parse R allow flags) (fun _ _ _ => Err E_OTHER) fuel (p ++ f) (lenN p) t id
     = rmap (shift_prim (lenN p)) (resolve_ref prim (obj_at_parse R allow flags) (fun _ _ _ => Err E_OTHER) fuel f 0 t id)).
Proof.
  intros R tid allow flags p f Htid Hlen Hhdr Hnop Hwin. split.
  - apply (load_prefix (xref_at_tables R tid) p f (xref_at_tables_prefix R tid p f Htid) Hlen Hhdr Hnop Hwin).
  - apply (resolve_prefix prim (obj_at_parse R allow flags) (fun _ _ _ => Err E_OTHER) shift_prim p f
             (obj_at_parse_prefix R p f allow flags) (fun _ _ => eq_refl) Hlen).
Qed.

(** C02_resolve_latest behind a prefix: what the file without the prefix stores is what the prefixed file
    yields, file ranges of streams moved by |p| *)
Definition stored_shifted (k : N) (file : bytes) (n : N) (m : option mention) (r : res prim) : Prop :=
  match m with
  | Some (Direct g pos) => exists v, object_at file pos n g v /\ r = Ok (shift_prim k v)
  | Some (Freed _ _) => r = Err E_FREE
  | Some (Compressed _ _) => True
  | None => r = Err E_NULLREF
  end.

Theorem resolve_latest_tables_prefixed : forall R tid allow (p file : bytes) (h : history) secss q0 secs0 d0 older size,
  (forall e, tid (shift_dict (lenN p) e) = tid e) ->
  find_sub xr_header p = None -> lenN p + lenN xr_header <= xr_header_window -> lenN (p ++ file) < usize_max ->
  Forall2 represents secss h -> wf_history h ->
  map snd ((q0, secs0) :: older) = rev secss ->
  starts_with xr_header file = true -> startxref_at file q0 ->
  section_at file q0 secs0 d0 -> t_size (tinfo_of tid d0) = Some size -> size <= xr_max_id ->
  chain_at tid file 0 (t_prev (tinfo_of tid d0)) older -> NoDup (map fst older) ->
  (forall n g pos, latest h n = Some (Direct g pos) -> exists v, object_at file pos n g v) ->
  (forall n s i, latest h n <> Some (Compressed s i)) ->
  exists t, load (xref_at_tables R tid) (p ++ file) = Ok (lenN p, t, tid d0) /\
    forall n fuel, n < size ->
      stored_shifted (lenN p) file n (latest h n)
        (resolve_ref prim (obj_at_parse R allow F_ANY) (fun _ _ _ => Err E_OTHER) (S fuel) (p ++ file) (lenN p) t n).
Proof.
  intros R tid allow p file h secss q0 secs0 d0 older size Htid Hnop Hwin Hlen Hr Hwf Hmap Hhdr Hsx Hs Hsz Hm Hc Hnd Hobj Hnc.
  assert (Hfl : lenN file < usize_max) by (rewrite lenN_app in Hlen; lia).
  destruct (resolve_latest_tables_file R tid allow (fun _ _ _ => Err E_OTHER) file h secss q0 secs0 d0 older size
              Hr Hwf Hmap Hhdr Hsx Hs Hsz Hm Hc Hnd Hfl Hobj Hnc) as (t & Hload & Hres).
  destruct (tables_prefix_invariant R tid allow F_ANY p file Htid Hlen Hhdr Hnop Hwin) as [Hl Hv].
  exists t. split; [apply (Hl 0 t (tid d0) Hload)|].
  intros n fuel Hn. rewrite Hv. specialize (Hres n fuel Hn).
  unfold stored in Hres. unfold stored_shifted.
  destruct (latest h n) as [[g pos|s i|g nx]|].
  - destruct Hres as [v [Ho Hr']]. exists v. split; [replace pos with (0 + pos) by lia; exact Ho|]. rewrite Hr'. reflexivity.
  - exact I.
  - rewrite Hres. reflexivity.
  - rewrite Hres. reflexivity.
Qed.
