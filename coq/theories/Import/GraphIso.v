(** Import/GraphIso.v — C20 clause (a) and (b): the memo is an isomorphism of rooted graphs between the part of the
    source the roots reach and the new document, and corresponding objects are the source objects with their
    references renamed (dictionaries entry by entry in order, stream data byte for byte). *)
From PdfV Require Import Base.Prelude Lex.Lexer Syn.Prim Gen.Generated Import.Model Import.Spec Import.ImportProofs Import.Theorems.

(** ---- the copy as a function of the original: [rename] substitutes the map for every reference and the fetched bytes
    for every in-file stream (specification object; ISO 32000-1 §7.3.10: objects are identified by their references) *)
Fixpoint rename (fetch : fetch_t) (m : memo_t) (v : prim) : option prim :=
  let fix rl (l : list prim) : option (list prim) :=
      match l with
      | [] => Some []
      | x :: t => match rename fetch m x, rl t with Some a, Some b => Some (a :: b) | _, _ => None end
      end in
  let fix rd (d : dict) : option dict :=
      match d with
      | [] => Some []
      | (k, x) :: t => match rename fetch m x, rd t with Some a, Some b => Some ((k, a) :: b) | _, _ => None end
      end in
  match v with
  | PArr l => match rl l with Some l' => Some (PArr l') | None => None end
  | PDict d => match rd d with Some d' => Some (PDict d') | None => None end
  | PRef i gn => match lookup m (i, gn) with Some x => Some (PRef (fst x) (snd x)) | None => None end
  | PStream d i gn st ln =>
      match fetch i gn st ln, rd d with Ok x, Some d' => Some (PStreamData d' x) | _, _ => None end
  | PStreamData d x => match rd d with Some d' => Some (PStreamData d' x) | None => None end
  | _ => Some v
  end.

Fixpoint rename_list fetch m (l : list prim) : option (list prim) :=
  match l with
  | [] => Some []
  | x :: t => match rename fetch m x, rename_list fetch m t with Some a, Some b => Some (a :: b) | _, _ => None end
  end.
Fixpoint rename_dict fetch m (d : dict) : option dict :=
  match d with
  | [] => Some []
  | (k, x) :: t => match rename fetch m x, rename_dict fetch m t with Some a, Some b => Some ((k, a) :: b) | _, _ => None end
  end.

Lemma rename_arr fetch m l : rename fetch m (PArr l) = match rename_list fetch m l with Some l' => Some (PArr l') | None => None end.
Proof.
  cbn [rename]. 
  assert (E : (fix rl (l0 : list prim) : option (list prim) :=
      match l0 with
      | [] => Some []
      | x :: t => match rename fetch m x, rl t with Some a, Some b => Some (a :: b) | _, _ => None end
      end) l = rename_list fetch m l).
  { induction l as [|x t IH]; [reflexivity|]. cbn [rename_list]. rewrite <- IH. reflexivity. }
  rewrite E. reflexivity.
Qed.

Lemma rename_dict_eq fetch m d :
  (fix rd (d0 : dict) : option dict :=
      match d0 with
      | [] => Some []
      | (k, x) :: t => match rename fetch m x, rd t with Some a, Some b => Some ((k, a) :: b) | _, _ => None end
      end) d = rename_dict fetch m d.
Proof. induction d as [|[k x] t IH]; [reflexivity|]. cbn [rename_dict]. rewrite <- IH. reflexivity. Qed.

Lemma rename_pdict fetch m d : rename fetch m (PDict d) = match rename_dict fetch m d with Some d' => Some (PDict d') | None => None end.
Proof. cbn [rename]. rewrite rename_dict_eq. reflexivity. Qed.
Lemma rename_stream fetch m d i gn st ln : rename fetch m (PStream d i gn st ln) =
  match fetch i gn st ln, rename_dict fetch m d with Ok x, Some d' => Some (PStreamData d' x) | _, _ => None end.
Proof. cbn [rename]. rewrite rename_dict_eq. reflexivity. Qed.
Lemma rename_sdata fetch m d x : rename fetch m (PStreamData d x) =
  match rename_dict fetch m d with Some d' => Some (PStreamData d' x) | None => None end.
Proof. cbn [rename]. rewrite rename_dict_eq. reflexivity. Qed.

(** [iso] is the graph of [rename]: the copy is determined by the original and the reference map *)
Lemma iso_rename fetch m : forall v v', iso fetch m v v' -> rename fetch m v = Some v'.
Proof.
  fix IH 3. intros v v' H. destruct H.
  - reflexivity. - reflexivity. - reflexivity. - reflexivity. - reflexivity. - reflexivity. - reflexivity.
  - rewrite rename_arr.
    assert (E : rename_list fetch m l = Some l').
    { induction H as [|a b l l' Hab Hl IHl]; [reflexivity|]. cbn [rename_list]. rewrite (IH _ _ Hab), IHl. reflexivity. }
    rewrite E. reflexivity.
  - rewrite rename_pdict.
    assert (E : rename_dict fetch m d = Some d').
    { induction H as [|a b l l' Hab Hl IHl]; [reflexivity|]. destruct a as [k x], b as [k' y]. destruct Hab as [Hk Hv].
      cbn [fst snd] in Hk, Hv. subst k'. cbn [rename_dict]. rewrite (IH _ _ Hv), IHl. reflexivity. }
    rewrite E. reflexivity.
  - cbn [rename]. rewrite H. reflexivity.
  - rewrite rename_stream. rewrite H.
    assert (E : rename_dict fetch m d = Some d').
    { induction H0 as [|a b l l' Hab Hl IHl]; [reflexivity|]. destruct a as [k x0], b as [k' y]. destruct Hab as [Hk Hv].
      cbn [fst snd] in Hk, Hv. subst k'. cbn [rename_dict]. rewrite (IH _ _ Hv), IHl. reflexivity. }
    rewrite E. reflexivity.
  - rewrite rename_sdata.
    assert (E : rename_dict fetch m d = Some d').
    { induction H as [|a b l l' Hab Hl IHl]; [reflexivity|]. destruct a as [k x0], b as [k' y]. destruct Hab as [Hk Hv].
      cbn [fst snd] in Hk, Hv. subst k'. cbn [rename_dict]. rewrite (IH _ _ Hv), IHl. reflexivity. }
    rewrite E. reflexivity.
Qed.

Corollary iso_det fetch m v a b : iso fetch m v a -> iso fetch m v b -> a = b.
Proof. intros Ha Hb. apply iso_rename in Ha. apply iso_rename in Hb. congruence. Qed.

(** what [iso] says about a dictionary and about a stream, spelt out *)
Lemma iso_entries_keys fetch m (d d' : dict) :
  Forall2 (fun a b => fst a = fst b /\ iso fetch m (snd a) (snd b)) d d' -> map fst d' = map fst d /\ length d' = length d.
Proof.
  intros H. induction H as [|a b l l' [Hk _] _ [IH1 IH2]]; [split; reflexivity|].
  cbn [map length]. rewrite Hk, IH1, IH2. split; reflexivity.
Qed.

Lemma iso_entry_get fetch m (d d' : dict) k v :
  Forall2 (fun a b => fst a = fst b /\ iso fetch m (snd a) (snd b)) d d' -> dict_get k d = Some v ->
  exists v', dict_get k d' = Some v' /\ iso fetch m v v'.
Proof.
  intros H. induction H as [|a b l l' [Hk Hv] _ IH]; cbn [dict_get]; [discriminate|].
  destruct a as [ka xa], b as [kb xb]. cbn [fst snd] in *. subst kb.
  destruct (bytes_eqb k ka); [intros E; inversion E; subst; exists xb; split; [reflexivity|exact Hv]|exact IH].
Qed.

(** ---- the memo as an isomorphism of rooted graphs *)
Section Iso.
  Variable fetch : fetch_t.
  Variable g : graph.
  Variable fuel : nat.
  Variable roots : list ref.
  Variable rs : list prim.
  Variable s : st.
  Hypothesis Himp : import_roots fetch g fuel roots st0 = Ok (rs, s).

  Lemma memo_target_form r x : lookup (memo s) r = Some x -> x = (fst x, 0).
  Proof.
    intros Hl. destruct (top_inv fetch g fuel roots rs s Himp) as [W _].
    destruct (wf_tgt _ _ _ _ W r x (lookup_In _ _ _ Hl)) as [Hs _]. destruct x; cbn in *; subst; reflexivity.
  Qed.

  (** the object stored for the image of r, read through the new document's resolver *)
  Lemma import_equal_resolve r x :
    lookup (memo s) r = Some x ->
    exists v v', resolve g r = Ok v /\ resolve (out s) x = Ok v' /\ iso fetch (memo s) v v'.
  Proof.
    intros Hl. destruct (import_equal fetch g fuel roots rs s Himp r x Hl) as [v [v' [Hr [Hf Hi]]]].
    exists v, v'. split; [exact Hr|]. split; [unfold resolve; rewrite Hf; reflexivity|exact Hi].
  Qed.

  (** forward simulation: the image of everything the roots reach is reached from the new roots
      (the copy contains no object the new roots do not reach) *)
  Theorem import_image_reachable r : reach g roots r -> forall x, lookup (memo s) r = Some x -> reach (out s) (new_refs rs) x.
  Proof.
    intros Hr. induction Hr as [r Hin|r v r2 Hr IH Hres Hhas]; intros x Hl.
    - destruct (Forall2_In_l _ _ _ _ (import_roots_mapped fetch g fuel roots rs s Himp) Hin) as [y [Hy [x0 [Hl0 Hy0]]]].
      rewrite Hl in Hl0. inversion Hl0; subst x0. apply reach_root. unfold new_refs. apply in_flat_map. exists y. split; [exact Hy|].
      subst y. destruct x. left. reflexivity.
    - destruct (import_reachable_all fetch g fuel roots rs s Himp r Hr) as [x1 Hl1].
      specialize (IH x1 Hl1).
      destruct (import_equal_resolve r x1 Hl1) as [v0 [v' [Hr0 [Hr' Hi]]]]. rewrite Hres in Hr0. inversion Hr0; subst v0.
      destruct (iso_refs_fwd _ _ _ _ _ Hi Hhas) as [r' [Hh' Hl']]. rewrite Hl in Hl'. inversion Hl'; subst r'.
      eapply reach_step; eassumption.
  Qed.

  (** backward simulation: whatever the new roots reach is the image of something the old roots reach *)
  Theorem import_reached_is_image x : reach (out s) (new_refs rs) x -> exists r, reach g roots r /\ lookup (memo s) r = Some x.
  Proof.
    destruct (top_inv fetch g fuel roots rs s Himp) as [W [P F]]. intros Hr.
    assert (Hx : exists r, lookup (memo s) r = Some x).
    { induction Hr as [x Hin|x1 v' x2 Hr IH Hres Hhas].
      - unfold new_refs in Hin. apply in_flat_map in Hin. destruct Hin as [y [Hy Hin]].
        destruct (Forall2_In_r _ _ _ _ F Hy) as [r0 [_ [x0 [Hl Hy0]]]]. subst y. cbn in Hin. destruct Hin as [Hin|[]]. subst x.
        exists r0. destruct x0; exact Hl.
      - unfold resolve in Hres. destruct (g_find (out s) (fst x1)) as [v0|] eqn:Ef; [|discriminate]. inversion Hres; subst v0.
        apply g_find_In in Ef. destruct (wf_out_iso _ _ _ _ W _ _ Ef) as [r0 [v0 [_ [_ Hi]]]].
        destruct (iso_refs _ _ _ _ _ Hi Hhas) as [r1 [_ Hl]]. exists r1. exact Hl. }
    destruct Hx as [r Hl]. exists r. split; [exact (import_reachable_only fetch g fuel roots rs s Himp r x Hl)|exact Hl].
  Qed.

  (** edges correspond in both directions, position by position ([iso] is structural); spelt out for references *)
  Theorem import_edges r x r2 :
    lookup (memo s) r = Some x ->
    forall v v', resolve g r = Ok v -> resolve (out s) x = Ok v' ->
      (has_ref v r2 -> exists x2, lookup (memo s) r2 = Some x2 /\ has_ref v' x2) /\
      (forall x2, has_ref v' x2 -> exists r3, lookup (memo s) r3 = Some x2 /\ has_ref v r3).
  Proof.
    intros Hl v v' Hv Hv'. destruct (import_equal_resolve r x Hl) as [v0 [v0' [H1 [H2 Hi]]]].
    rewrite Hv in H1. rewrite Hv' in H2. inversion H1; inversion H2; subst v0 v0'. split.
    - intros Hh. destruct (iso_refs_fwd _ _ _ _ _ Hi Hh) as [x2 [A B]]. exists x2. split; assumption.
    - intros x2 Hh. destruct (iso_refs _ _ _ _ _ Hi Hh) as [r3 [A B]]. exists r3. split; assumption.
  Qed.

  (** clause (a) of C20 in one statement *)
  Definition graph_iso (m : memo_t) (o : graph) : Prop :=
    (* a one-to-one correspondence … *)
    NoDup (map fst m) /\ NoDup (map snd m) /\
    (* … between what the roots reach in the source … *)
    (forall r, reach g roots r <-> exists x, lookup m r = Some x) /\
    (* … and what the new roots reach in the new document, which is all of it, each number defined once *)
    (forall x, reach o (new_refs rs) x <-> exists r, lookup m r = Some x) /\
    (forall i, In i (map fst o) <-> exists r, lookup m r = Some (i, 0)) /\ NoDup (map fst o) /\
    (* roots go to roots *)
    Forall2 (root_rel m) roots rs /\
    (* corresponding objects are equal up to the renaming (entries in order, stream bytes), so edges correspond *)
    (forall r x, lookup m r = Some x ->
       exists v v', resolve g r = Ok v /\ resolve o x = Ok v' /\ iso fetch m v v' /\ rename fetch m v = Some v').

  Theorem import_graph_iso : graph_iso (memo s) (out s).
  Proof.
    destruct (import_once fetch g fuel roots rs s Himp) as [A [B [C D]]].
    unfold graph_iso. split; [exact A|]. split; [exact B|]. split.
    { intros r. split; [apply (import_reachable_all fetch g fuel roots rs s Himp)|].
      intros [x Hl]. exact (import_reachable_only fetch g fuel roots rs s Himp r x Hl). }
    split.
    { intros x. split.
      - intros Hr. destruct (import_reached_is_image x Hr) as [r [_ Hl]]. exists r. exact Hl.
      - intros [r Hl]. apply (import_image_reachable r); [exact (import_reachable_only fetch g fuel roots rs s Himp r x Hl)|exact Hl]. }
    split; [exact D|]. split; [exact C|]. split; [exact (import_roots_mapped fetch g fuel roots rs s Himp)|].
    intros r x Hl. destruct (import_equal_resolve r x Hl) as [v [v' [H1 [H2 Hi]]]].
    exists v, v'. split; [exact H1|]. split; [exact H2|]. split; [exact Hi|apply iso_rename; exact Hi].
  Qed.

  (** clause (b): a stream of the source is a stream of the copy with the same bytes, the same keys in the same order and
      entry-wise equal values; a dictionary likewise *)
  Theorem import_stream_equal r x d i gn st ln :
    lookup (memo s) r = Some x -> resolve g r = Ok (PStream d i gn st ln) ->
    exists d' data, fetch i gn st ln = Ok data /\ resolve (out s) x = Ok (PStreamData d' data) /\
                    map fst d' = map fst d /\ Forall2 (iso_entry fetch (memo s)) d d'.
  Proof.
    intros Hl Hr. destruct (import_equal_resolve r x Hl) as [v [v' [H1 [H2 Hi]]]]. rewrite Hr in H1. inversion H1; subst v.
    inversion Hi; subst. exists d', x0. split; [assumption|]. split; [exact H2|].
    split; [eapply iso_entries_keys; eassumption|assumption].
  Qed.

  Theorem import_pending_stream_equal r x d data :
    lookup (memo s) r = Some x -> resolve g r = Ok (PStreamData d data) ->
    exists d', resolve (out s) x = Ok (PStreamData d' data) /\ map fst d' = map fst d /\ Forall2 (iso_entry fetch (memo s)) d d'.
  Proof.
    intros Hl Hr. destruct (import_equal_resolve r x Hl) as [v [v' [H1 [H2 Hi]]]]. rewrite Hr in H1. inversion H1; subst v.
    inversion Hi; subst. exists d'. split; [exact H2|]. split; [eapply iso_entries_keys; eassumption|assumption].
  Qed.

  Theorem import_dict_equal r x d :
    lookup (memo s) r = Some x -> resolve g r = Ok (PDict d) ->
    exists d', resolve (out s) x = Ok (PDict d') /\ map fst d' = map fst d /\ Forall2 (iso_entry fetch (memo s)) d d'.
  Proof.
    intros Hl Hr. destruct (import_equal_resolve r x Hl) as [v [v' [H1 [H2 Hi]]]]. rewrite Hr in H1. inversion H1; subst v.
    inversion Hi; subst. exists d'. split; [exact H2|]. split; [eapply iso_entries_keys; eassumption|assumption].
  Qed.
End Iso.

(** non-vacuity: a diamond with a back edge (a shared stream that points back at the root) *)
Definition diamond : graph :=
  [(4, PArr [PRef 5 0; PRef 6 0]); (5, PDict [([83], PRef 7 0)]); (6, PDict [([83], PRef 7 0)]);
   (7, PStreamData [([75], PRef 4 0)] [100; 97; 116; 97])].
Example diamond_imported :
  import_roots (fun _ _ _ _ => Err E_REF) diamond (fuel_for diamond [PRef 4 0]) [(4, 0)] st0
  = Ok ([PRef 1 0],
        mkSt [((6, 0), (4, 0)); ((7, 0), (3, 0)); ((5, 0), (2, 0)); ((4, 0), (1, 0))] 5
             [(1, PArr [PRef 2 0; PRef 4 0]); (4, PDict [([83], PRef 3 0)]); (2, PDict [([83], PRef 3 0)]);
              (3, PStreamData [([75], PRef 1 0)] [100; 97; 116; 97])]).
Proof. vm_compute. reflexivity. Qed.
