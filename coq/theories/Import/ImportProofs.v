(** Import/ImportProofs.v — the importer model copies exactly the reachable sub-graph, once, closed and equal
    (invariant proof over the fuel-bounded clone), terminates on every finite graph, never panics. *)
From PdfV Require Import Base.Prelude Lex.Lexer Syn.Prim Gen.Generated Import.Model Import.Spec.

Lemma ref_eqb_eq a b : ref_eqb a b = true <-> a = b.
Proof.
  destruct a as [a1 a2], b as [b1 b2]. unfold ref_eqb. cbn [fst snd].
  rewrite andb_true_iff, !N.eqb_eq. split; [intros [-> ->]; reflexivity|intros H; inversion H; auto].
Qed.

Lemma ref_eqb_refl a : ref_eqb a a = true.
Proof. apply ref_eqb_eq. reflexivity. Qed.

Lemma lookup_In m r x : lookup m r = Some x -> In (r, x) m.
Proof.
  induction m as [|[k y] t IH]; cbn [lookup]; [discriminate|].
  destruct (ref_eqb k r) eqn:E; intros H.
  - apply ref_eqb_eq in E. inversion H. subst. left. reflexivity.
  - right. apply IH. exact H.
Qed.

Lemma lookup_notin m r : lookup m r = None -> ~ In r (map fst m).
Proof.
  induction m as [|[k y] t IH]; cbn [lookup map fst]; intros H; [intros []|].
  destruct (ref_eqb k r) eqn:E; [discriminate|].
  intros [Hk|Hin]; [subst; rewrite ref_eqb_refl in E; discriminate|exact (IH H Hin)].
Qed.

Lemma In_lookup m r x : NoDup (map fst m) -> In (r, x) m -> lookup m r = Some x.
Proof.
  induction m as [|[k y] t IH]; cbn [lookup map fst]; intros Hnd Hin; [destruct Hin|].
  inversion Hnd as [|? ? Hk Ht]; subst.
  destruct Hin as [He|Hin].
  - inversion He; subst. rewrite ref_eqb_refl. reflexivity.
  - destruct (ref_eqb k r) eqn:E.
    + apply ref_eqb_eq in E. subst. exfalso. apply Hk. apply in_map_iff. exists (r, x). split; [reflexivity|exact Hin].
    + apply IH; assumption.
Qed.

Lemma g_find_In o i v : g_find o i = Some v -> In (i, v) o.
Proof.
  induction o as [|[k y] t IH]; cbn [g_find]; [discriminate|].
  destruct (k =? i) eqn:E; intros H.
  - apply N.eqb_eq in E. inversion H. subst. left. reflexivity.
  - right. apply IH. exact H.
Qed.

Lemma In_g_find o i v : NoDup (map fst o) -> In (i, v) o -> g_find o i = Some v.
Proof.
  induction o as [|[k y] t IH]; cbn [g_find map fst]; intros Hnd Hin; [destruct Hin|].
  inversion Hnd as [|? ? Hk Ht]; subst.
  destruct Hin as [He|Hin].
  - inversion He; subst. rewrite N.eqb_refl. reflexivity.
  - destruct (k =? i) eqn:E.
    + apply N.eqb_eq in E. subst. exfalso. apply Hk. apply in_map_iff. exists (i, v). split; [reflexivity|exact Hin].
    + apply IH; assumption.
Qed.

Lemma extends_refl m : extends m m.
Proof. intros r x H. exact H. Qed.
Lemma extends_trans a b c : extends a b -> extends b c -> extends a c.
Proof. intros H1 H2 r x H. apply H2, H1, H. Qed.

Ltac four := split; [|split; [|split]].

Section Inv.
  Variable fetch : fetch_t.
  Variable g : graph.
  Variable Q : ref -> Prop.
  Hypothesis Qstep : forall r v r2, Q r -> resolve g r = Ok v -> has_ref v r2 -> Q r2.

  (** what holds of every state the importer goes through *)
  Record wf (s : st) : Prop := {
    wf_tgt : forall r x, In (r, x) (memo s) -> snd x = 0 /\ fst x < next s;
    wf_fun : NoDup (map fst (memo s));
    wf_inj : NoDup (map snd (memo s));
    wf_out_lt : forall i v, In (i, v) (out s) -> i < next s;
    wf_out_nd : NoDup (map fst (out s));
    wf_out_iso : forall i v', In (i, v') (out s) ->
        exists r v, In (r, (i, 0)) (memo s) /\ resolve g r = Ok v /\ iso fetch (memo s) v v';
    wf_q : forall r x, In (r, x) (memo s) -> Q r }.

  (** the reserved ids whose objects are still being cloned (the recursion stack) *)
  Record pend (s : st) (P : list N) : Prop := {
    pd_done : forall r x, In (r, x) (memo s) -> In (fst x) (map fst (out s)) \/ In (fst x) P;
    pd_not : forall p, In p P -> ~ In p (map fst (out s));
    pd_lt : forall p, In p P -> p < next s }.

  Record ext (s s' : st) : Prop := {
    ex_memo : extends (memo s) (memo s');
    ex_next : next s <= next s';
    ex_out : forall e, In e (out s) -> In e (out s') }.

  Lemma ext_refl s : ext s s.
  Proof. split; [apply extends_refl|lia|auto]. Qed.
  Lemma ext_trans a b c : ext a b -> ext b c -> ext a c.
  Proof.
    intros [m1 n1 o1] [m2 n2 o2]. split; [eapply extends_trans; eassumption|lia|auto].
  Qed.

  (** generic sequential map: every element step keeps the invariant and yields a memo-monotone relation *)
  Lemma mapM_gen {A B} (G : A -> st -> res (B * st)) (R : memo_t -> A -> B -> Prop) (HR : A -> ref -> Prop) l :
    (forall m m' a b, extends m m' -> R m a b -> R m' a b) ->
    (forall x, In x l -> forall s y s' P, G x s = Ok (y, s') -> wf s -> pend s P -> (forall r, HR x r -> Q r) ->
          wf s' /\ pend s' P /\ ext s s' /\ R (memo s') x y) ->
    forall s ys s' P, mapM_st G l s = Ok (ys, s') -> wf s -> pend s P -> (forall x r, In x l -> HR x r -> Q r) ->
      wf s' /\ pend s' P /\ ext s s' /\ Forall2 (R (memo s')) l ys.
  Proof.
    intros Hmono. induction l as [|x t IH]; intros Hstep s ys s' P H Hwf Hpd Hq; cbn [mapM_st] in H.
    - inversion H; subst. four; [assumption|assumption|apply ext_refl|constructor].
    - unfold bind in H. destruct (G x s) as [[y s1]| | |] eqn:E1; try discriminate.
      destruct (mapM_st G t s1) as [[ys1 s2]| | |] eqn:E2; try discriminate.
      inversion H; subst.
      destruct (Hstep x (or_introl eq_refl) _ _ _ P E1 Hwf Hpd (fun r Hr => Hq x r (or_introl eq_refl) Hr)) as [W1 [P1 [X1 R1]]].
      assert (Hstep' : forall x0, In x0 t -> forall s y s' P, G x0 s = Ok (y, s') -> wf s -> pend s P ->
                 (forall r, HR x0 r -> Q r) -> wf s' /\ pend s' P /\ ext s s' /\ R (memo s') x0 y).
      { intros x0 Hx0. apply Hstep. right. exact Hx0. }
      destruct (IH Hstep' _ _ _ P E2 W1 P1 (fun x0 r Hx0 Hr => Hq x0 r (or_intror Hx0) Hr)) as [W2 [P2 [X2 R2]]].
      four; [assumption|assumption|eapply ext_trans; eassumption|].
      constructor; [|exact R2]. eapply Hmono; [apply (ex_memo _ _ X2)|exact R1].
  Qed.

  Definition good (F : prim -> st -> res (prim * st)) (v : prim) : Prop :=
    forall s v' s' P, F v s = Ok (v', s') -> wf s -> pend s P -> (forall r, has_ref v r -> Q r) ->
      wf s' /\ pend s' P /\ ext s s' /\ iso fetch (memo s') v v'.

  Definition iso_entry (m : memo_t) (a b : bytes * prim) : Prop := fst a = fst b /\ iso fetch m (snd a) (snd b).

  Lemma entries_good F d :
    (forall kv, In kv d -> good F (snd kv)) ->
    forall s d' s' P, mapM_st (on_entry F) d s = Ok (d', s') -> wf s -> pend s P ->
      (forall k x r, In (k, x) d -> has_ref x r -> Q r) ->
      wf s' /\ pend s' P /\ ext s s' /\ Forall2 (iso_entry (memo s')) d d'.
  Proof.
    intros HF s d' s' P H Hwf Hpd Hq.
    apply (mapM_gen (on_entry F) iso_entry (fun kv r => has_ref (snd kv) r) d) with (P := P) (s := s); try assumption.
    - intros m m' a b Hm [Hk Hi]. split; [exact Hk|eapply iso_mono; eassumption].
    - intros [k x] Hin s0 y s0' P0 Hy W0 P0' Hq0. unfold on_entry in Hy. cbn [fst snd] in *.
      unfold bind in Hy. destruct (F x s0) as [[v1 s1]| | |] eqn:E; try discriminate. inversion Hy; subst.
      destruct (HF (k, x) Hin _ _ _ P0 E W0 P0' Hq0) as [W1 [P1 [X1 I1]]].
      four; [assumption|assumption|assumption|split; [reflexivity|exact I1]].
    - intros [k x] r Hin Hr. cbn [snd] in Hr. eapply Hq; eassumption.
  Qed.

  Lemma list_good F l :
    (forall x, In x l -> good F x) ->
    forall s l' s' P, mapM_st F l s = Ok (l', s') -> wf s -> pend s P ->
      (forall x r, In x l -> has_ref x r -> Q r) ->
      wf s' /\ pend s' P /\ ext s s' /\ Forall2 (iso fetch (memo s')) l l'.
  Proof.
    intros HF s l' s' P H Hwf Hpd Hq.
    apply (mapM_gen F (iso fetch) has_ref l) with (P := P) (s := s); try assumption.
    intros m m' a b Hm Hi. eapply iso_mono; eassumption.
  Qed.

  (** the reference case: reserve, memoise, clone the object, store *)
  Lemma ref_step fuel i gn :
    (forall v, good (clone_prim fetch g fuel) v) ->
    good (clone_prim fetch g (S fuel)) (PRef i gn).
  Proof.
    intros IH s v' s' P H Hwf Hpd Hq. cbn [clone_prim] in H.
    destruct (lookup (memo s) (i, gn)) as [x|] eqn:El.
    - inversion H; subst. four; [assumption|assumption|apply ext_refl|constructor; exact El].
    - unfold bind in H. destruct (resolve g (i, gn)) as [obj| | |] eqn:Er; try discriminate.
      set (id := next s) in *.
      set (s1 := mkSt (((i, gn), (id, 0)) :: memo s) (id + 1) (out s)) in *.
      destruct (clone_prim fetch g fuel obj s1) as [[c s2]| | |] eqn:Ec; try discriminate.
      inversion H; subst v' s'. clear H.
      pose proof (lookup_notin _ _ El) as Hnotin.
      assert (W1 : wf s1).
      { destruct Hwf as [Wt Wf Wi Wl Wn Wo Wq]. split; cbn [memo next out s1].
        - intros r x [He|Hin]; [inversion He; subst; cbn; split; [reflexivity|unfold id; lia]|].
          destruct (Wt r x Hin) as [A B]. split; [exact A|unfold id; lia].
        - cbn [map fst]. constructor; assumption.
        - cbn [map snd]. constructor; [|exact Wi]. intros Hin. apply in_map_iff in Hin. destruct Hin as [[r x] [Hx Hin]].
          cbn [snd] in Hx. subst x. destruct (Wt r _ Hin) as [_ B]. cbn [fst] in B. unfold id in B. lia.
        - intros i0 v0 Hin. specialize (Wl i0 v0 Hin). unfold id. lia.
        - exact Wn.
        - intros i0 v0 Hin. destruct (Wo i0 v0 Hin) as [r [v [A [B C]]]]. exists r, v. split; [right; exact A|]. split; [exact B|].
          eapply iso_mono; [|exact C]. intros r0 x0 Hl. cbn [lookup].
          destruct (ref_eqb (i, gn) r0) eqn:E; [apply ref_eqb_eq in E; subst r0; rewrite El in Hl; discriminate|exact Hl].
        - intros r x [He|Hin]; [inversion He; subst; apply Hq; constructor|eapply Wq; eassumption]. }
      assert (P1 : pend s1 (id :: P)).
      { destruct Hpd as [Pd Pn Pl]. split; cbn [memo next out s1].
        - intros r x [He|Hin]; [inversion He; subst; right; left; reflexivity|].
          destruct (Pd r x Hin) as [A|A]; [left; exact A|right; right; exact A].
        - intros p [Hp|Hp]; [subst p; intros Hin; apply in_map_iff in Hin; destruct Hin as [[i0 v0] [Hi Hin]]; cbn in Hi; subst i0;
            pose proof (wf_out_lt _ Hwf _ _ Hin) as Hlt; unfold id in Hlt; lia|apply Pn; exact Hp].
        - intros p [Hp|Hp]; [subst p; unfold id; lia|specialize (Pl p Hp); unfold id; lia]. }
      assert (Hq1 : forall r, has_ref obj r -> Q r).
      { intros r Hr. eapply Qstep; [apply Hq; constructor|exact Er|exact Hr]. }
      destruct (IH obj s1 c s2 (id :: P) Ec W1 P1 Hq1) as [W2 [P2 [X2 I2]]].
      assert (Hl2 : lookup (memo s2) (i, gn) = Some (id, 0)).
      { apply (ex_memo _ _ X2). cbn [memo s1 lookup]. rewrite ref_eqb_refl. reflexivity. }
      assert (Hidlt : id < next s2). { pose proof (ex_next _ _ X2) as Hn. cbn [next s1] in Hn. lia. }
      assert (Hidout : ~ In id (map fst (out s2))). { apply (pd_not _ _ P2). left. reflexivity. }
      four.
      { split; cbn [memo next out].
        - exact (wf_tgt _ W2).
        - exact (wf_fun _ W2).
        - exact (wf_inj _ W2).
        - intros i0 v0 [He|Hin]; [inversion He; subst; exact Hidlt|exact (wf_out_lt _ W2 _ _ Hin)].
        - cbn [map fst]. constructor; [exact Hidout|exact (wf_out_nd _ W2)].
        - intros i0 v0 [He|Hin].
          + inversion He; subst i0 v0. exists (i, gn), obj. split; [apply lookup_In; exact Hl2|]. split; [exact Er|exact I2].
          + exact (wf_out_iso _ W2 _ _ Hin).
        - exact (wf_q _ W2). }
      { split; cbn [memo next out].
        - intros r x Hin. destruct (pd_done _ _ P2 r x Hin) as [A|[A|A]].
          + left. cbn [map fst]. right. exact A.
          + left. cbn [map fst]. left. exact A.
          + right. exact A.
        - intros p Hp Hin. cbn [map fst] in Hin. destruct Hin as [Hin|Hin].
          + subst p. pose proof (pd_lt _ _ Hpd _ Hp) as Hlt. unfold id in Hlt. lia.
          + apply (pd_not _ _ P2 p); [right; exact Hp|exact Hin].
        - intros p Hp. apply (pd_lt _ _ P2). right. exact Hp. }
      { split; cbn [memo next out].
        - intros r x Hl. apply (ex_memo _ _ X2). cbn [memo s1 lookup].
          destruct (ref_eqb (i, gn) r) eqn:E; [apply ref_eqb_eq in E; subst r; rewrite El in Hl; discriminate|exact Hl].
        - pose proof (ex_next _ _ X2) as Hn. cbn [next s1] in Hn. unfold id in Hn. lia.
        - intros e Hin. right. apply (ex_out _ _ X2). exact Hin. }
      replace (PRef id 0) with (PRef (fst (id, 0)) (snd (id, 0))) by reflexivity. constructor. exact Hl2.
  Qed.

  Lemma clone_good fuel : forall v, good (clone_prim fetch g fuel) v.
  Proof.
    induction fuel as [|f IH]; intros v; [intros s0 v' s' P H; discriminate|].
    destruct v; try (intros s0 v' s' P H Hwf Hpd Hq; cbn [clone_prim] in H; inversion H; subst;
                     four; [assumption|assumption|apply ext_refl|constructor]).
    - (* PArr *)
      intros s0 v' s' P H Hwf Hpd Hq. cbn [clone_prim] in H. unfold bind in H.
      destruct (mapM_st (clone_prim fetch g f) l s0) as [[l' s1]| | |] eqn:E; try discriminate. inversion H; subst.
      destruct (list_good (clone_prim fetch g f) l (fun x _ => IH x) _ _ _ P E Hwf Hpd
                  (fun x r Hx Hr => Hq r (hr_arr _ _ _ Hx Hr))) as [W1 [P1 [X1 F1]]].
      four; [assumption|assumption|assumption|constructor; exact F1].
    - (* PDict *)
      intros s0 v' s' P H Hwf Hpd Hq. cbn [clone_prim] in H. unfold bind in H.
      destruct (mapM_st (on_entry (clone_prim fetch g f)) d s0) as [[d' s1]| | |] eqn:E; try discriminate. inversion H; subst.
      destruct (entries_good (clone_prim fetch g f) d (fun kv _ => IH (snd kv)) _ _ _ P E Hwf Hpd
                  (fun k x r Hx Hr => Hq r (hr_dict _ _ _ _ Hx Hr))) as [W1 [P1 [X1 F1]]].
      four; [assumption|assumption|assumption|constructor; exact F1].
    - (* PRef *) apply ref_step. exact IH.
    - (* PStream *)
      intros s0 v' s' P H Hwf Hpd Hq. cbn [clone_prim] in H. unfold bind in H.
      destruct (fetch id gen start len) as [x| | |] eqn:Ef; try discriminate.
      destruct (mapM_st (on_entry (clone_prim fetch g f)) d s0) as [[d' s1]| | |] eqn:E; try discriminate. inversion H; subst.
      destruct (entries_good (clone_prim fetch g f) d (fun kv _ => IH (snd kv)) _ _ _ P E Hwf Hpd
                  (fun k x0 r Hx Hr => Hq r (hr_stream _ _ _ _ _ _ _ _ Hx Hr))) as [W1 [P1 [X1 F1]]].
      four; [assumption|assumption|assumption|constructor; [exact Ef|exact F1]].
    - (* PStreamData *)
      intros s0 v' s' P H Hwf Hpd Hq. cbn [clone_prim] in H. unfold bind in H.
      destruct (mapM_st (on_entry (clone_prim fetch g f)) d s0) as [[d' s1]| | |] eqn:E; try discriminate. inversion H; subst.
      destruct (entries_good (clone_prim fetch g f) d (fun kv _ => IH (snd kv)) _ _ _ P E Hwf Hpd
                  (fun k x0 r Hx Hr => Hq r (hr_sdata _ _ _ _ _ Hx Hr))) as [W1 [P1 [X1 F1]]].
      four; [assumption|assumption|assumption|constructor; exact F1].
  Qed.

  Lemma wf_st0 : wf st0.
  Proof.
    split; cbn [st0 memo out next]; try (intros; contradiction); try constructor.
  Qed.
  Lemma pend_st0 : pend st0 [].
  Proof. split; cbn [st0 memo out next]; intros; contradiction. Qed.

  Definition root_rel (m : memo_t) (r : ref) (v : prim) : Prop :=
    exists x, lookup m r = Some x /\ v = PRef (fst x) (snd x).

  Lemma roots_good fuel roots s rs s' P :
    import_roots fetch g fuel roots s = Ok (rs, s') -> wf s -> pend s P -> (forall r, In r roots -> Q r) ->
    wf s' /\ pend s' P /\ ext s s' /\ Forall2 (root_rel (memo s')) roots rs.
  Proof.
    intros H Hwf Hpd Hq. unfold import_roots in H.
    apply (mapM_gen (fun r => clone_prim fetch g fuel (PRef (fst r) (snd r))) root_rel (fun r r' => r = r') roots)
      with (P := P) (s := s); try assumption.
    - intros m m' a b Hm [x [Hl Hb]]. exists x. split; [apply Hm; exact Hl|exact Hb].
    - intros [i gn] Hin s0 y s0' P0 Hy W0 P0' Hq0. cbn [fst snd] in Hy.
      destruct (clone_good fuel (PRef i gn) _ _ _ P0 Hy W0 P0') as [W1 [P1 [X1 I1]]].
      { intros r Hr. inversion Hr; subst. apply Hq0. reflexivity. }
      four; [assumption|assumption|assumption|]. inversion I1; subst. eexists. split; [eassumption|reflexivity].
    - intros x r Hin ->. apply Hq. exact Hin.
  Qed.
End Inv.
