(** Import/Target.v — C20 clause (d): the document the importer writes into stays valid and re-loadable.

    The importer model's updater is abstract ([next] = the table length, [out] = the objects stored).  Here it is
    tied to the storage model of C09/C10 ([PdfV.Storage.Model]): [target s] is the storage state that
    [Storage::empty] reaches by the importer's [promise] / [fulfill] calls ([target_st0], [target_reserve],
    [target_store] — the two state changes of [clone_prim]'s reference case ARE [Storage.Model.promise] and
    [Storage.Model.fulfill]).  That state is well-formed in C09's sense, no promise is left open, and by C09's
    reload theorems a reload of the saved file reads under every new number the copy the importer stored there. *)
From PdfV Require Import Base.Prelude Lex.Lexer Syn.Prim Gen.Generated
     Import.Model Import.Spec Import.ImportProofs Import.Theorems Import.GraphIso.
From PdfV Require Storage.Prim Storage.Model Storage.Proofs Storage.Builder Storage.Syntax Storage.Reload.
From PdfV Require Syn.Serialize Syn.SerProofs Syn.Spells Syn.Parser Syn.ParserProofs.

Module SM := PdfV.Storage.Model.
Module SP := PdfV.Storage.Proofs.

(** file.rs: XRefTable of Storage::empty after (n-1) promises: the free head entry, then Promised entries *)
Definition target_refs (n : N) : list SM.xent := SM.XFree 0 65535 :: repeat SM.XPromised (N.to_nat (n - 1)).
(** file.rs: Storage::changes after the fulfils, in the order they happened ([out] lists the latest first) *)
Definition target_changes (o : list (N * prim)) : list (N * (prim * N)) := rev (map (fun iv => (fst iv, (snd iv, 0))) o).
Definition target (cached : bool) (s : st) : SM.st :=
  SM.mkSt (target_refs (next s)) (target_changes (out s)) (SM.backend Storage.Builder.empty_storage) 0 [] cached.

Lemma first_id_is_1 : import_first_id = 1.
Proof. reflexivity. Qed.

Lemma target_st0 : target false st0 = Storage.Builder.empty_storage.
Proof. reflexivity. Qed.

Lemma lenN_target_refs n : 1 <= n -> lenN (target_refs n) = n.
Proof. intros H. unfold lenN, target_refs. cbn [length]. rewrite repeat_length. lia. Qed.

Lemma target_refs_succ n : 1 <= n -> target_refs (n + 1) = target_refs n ++ [SM.XPromised].
Proof.
  intros H. unfold target_refs. replace (N.to_nat (n + 1 - 1)) with (S (N.to_nat (n - 1))) by lia.
  cbn [repeat app]. f_equal. apply repeat_cons.
Qed.

Lemma nthN_target_refs n i : 1 <= i -> i < n -> nthN (target_refs n) i = Some SM.XPromised.
Proof.
  intros H1 H2. unfold nthN, target_refs. replace (N.to_nat i) with (S (N.to_nat (i - 1))) by lia.
  cbn [nth_error]. apply nth_error_repeat. lia.
Qed.

(** the reservation step of clone_prim's reference case is Storage::promise *)
Lemma target_reserve c s m' : 1 <= next s ->
  SM.promise (target c s) = (target c (mkSt m' (next s + 1) (out s)), (next s, 0)).
Proof.
  intros H. unfold SM.promise, target. cbn [SM.refs SM.changes SM.backend SM.start SM.cache SM.cached next out].
  rewrite lenN_target_refs by exact H. rewrite target_refs_succ by exact H. reflexivity.
Qed.

Lemma cinsert_fresh c id v : ~ In id (map fst c) -> SM.cinsert c id v = c ++ [(id, v)].
Proof.
  induction c as [|[k w] t IH]; intros H; cbn [SM.cinsert app]; [reflexivity|].
  cbn [map fst In] in H. destruct (k =? id) eqn:E; [apply N.eqb_eq in E; subst; exfalso; apply H; left; reflexivity|].
  rewrite IH; [reflexivity|]. intros Hin. apply H. right. exact Hin.
Qed.

Lemma target_changes_keys o : map fst (target_changes o) = rev (map fst o).
Proof.
  unfold target_changes. rewrite map_rev, map_map. cbn [fst]. reflexivity.
Qed.

(** … and the storing step is Storage::fulfill (= update of a Promised entry) *)
Lemma target_store c s m' id v : 1 <= id -> id < next s -> ~ In id (map fst (out s)) ->
  SM.fulfill (target c s) (id, 0) v = Ok (target c (mkSt m' (next s) ((id, v) :: out s)), (id, 0)).
Proof.
  intros H1 H2 Hn. unfold SM.fulfill, SM.update, target. cbn [SM.refs SM.changes SM.backend SM.start SM.cache SM.cached next out fst snd].
  rewrite nthN_target_refs by assumption. cbn [bind]. unfold bind.
  rewrite cinsert_fresh.
  - unfold target_changes. cbn [map rev fst snd]. reflexivity.
  - rewrite target_changes_keys. intros Hin. apply in_rev in Hin. exact (Hn Hin).
Qed.

Section Target.
  Variable fetch : fetch_t.
  Variable g : graph.
  Variable Q : ref -> Prop.

  (** C09's well-formedness of the storage state *)
  Lemma target_wf c s : wf fetch g Q s -> 1 <= next s -> SP.wf_st (target c s).
  Proof.
    intros W Hn. unfold SP.wf_st, target. cbn [SM.refs SM.changes SM.backend SM.start].
    rewrite target_changes_keys, lenN_target_refs by exact Hn. split; [|split].
    - apply NoDup_rev. exact (wf_out_nd _ _ _ _ W).
    - intros i Hin. apply in_rev in Hin. apply in_map_iff in Hin. destruct Hin as [[i0 v] [Hi Hin]]. cbn [fst] in Hi. subst i0.
      exact (wf_out_lt _ _ _ _ W _ _ Hin).
    - apply N.le_0_l.
  Qed.

  Lemma In_clookup c id v : NoDup (map fst c) -> In (id, v) c -> SM.clookup c id = Some v.
  Proof.
    induction c as [|[k w] t IH]; cbn [SM.clookup map fst]; intros Hnd Hin; [destruct Hin|].
    inversion Hnd as [|? ? Hk Ht]; subst. destruct Hin as [He|Hin].
    - inversion He; subst. rewrite N.eqb_refl. reflexivity.
    - destruct (k =? id) eqn:E; [|apply IH; assumption].
      apply N.eqb_eq in E. subst. exfalso. apply Hk. apply in_map_iff. exists (id, v). split; [reflexivity|exact Hin].
  Qed.

  (** the pending changes of the storage are the objects the importer stored *)
  Lemma target_lookup c s id v : wf fetch g Q s -> g_find (out s) id = Some v -> SM.clookup (SM.changes (target c s)) id = Some (v, 0).
  Proof.
    intros W Hf. apply g_find_In in Hf. unfold target. cbn [SM.changes]. apply In_clookup.
    - rewrite target_changes_keys. apply NoDup_rev. exact (wf_out_nd _ _ _ _ W).
    - unfold target_changes. apply -> in_rev. apply in_map_iff. exists (id, v). split; [reflexivity|exact Hf].
  Qed.
End Target.

(** ---- no id is reserved without being memoised: the ids handed out are exactly the memo's targets *)
Definition dense (s : st) : Prop := forall i, import_first_id <= i -> i < next s -> exists r, In (r, (i, 0)) (memo s).

Lemma mapM_keeps {A B} (I : st -> Prop) (G : A -> st -> res (B * st)) l :
  (forall x s y s', In x l -> G x s = Ok (y, s') -> I s -> I s') ->
  forall s ys s', mapM_st G l s = Ok (ys, s') -> I s -> I s'.
Proof.
  induction l as [|x t IH]; intros HG s ys s' H Hi; cbn [mapM_st] in H; [inversion H; subst; exact Hi|].
  unfold bind in H. destruct (G x s) as [[y s1]| | |] eqn:E1; try discriminate.
  destruct (mapM_st G t s1) as [[ys1 s2]| | |] eqn:E2; try discriminate. inversion H; subst.
  eapply IH; [|exact E2|].
  - intros x0 s0 y0 s0' Hin. apply HG. right. exact Hin.
  - eapply HG; [left; reflexivity|exact E1|exact Hi].
Qed.

Lemma entry_keeps (I : st -> Prop) F (kv : bytes * prim) s y s' :
  (forall v' s1, F (snd kv) s = Ok (v', s1) -> I s1) -> on_entry F kv s = Ok (y, s') -> I s'.
Proof.
  intros HF H. unfold on_entry, bind in H. destruct (F (snd kv) s) as [[v1 s1]| | |] eqn:E; try discriminate.
  inversion H; subst. eapply HF. reflexivity.
Qed.

Lemma clone_dense fetch g fuel : forall v s v' s', clone_prim fetch g fuel v s = Ok (v', s') -> dense s -> dense s'.
Proof.
  induction fuel as [|f IH]; intros v s v' s' H Hd; [discriminate|].
  assert (Hent : forall d s0 d' s0', mapM_st (on_entry (clone_prim fetch g f)) d s0 = Ok (d', s0') -> dense s0 -> dense s0').
  { intros d. apply mapM_keeps. intros kv s0 y s0' _ Hy Hi. eapply entry_keeps; [|exact Hy].
    intros v1 s1 Hc. eapply IH; eassumption. }
  destruct v; cbn [clone_prim] in H; try (inversion H; subst; exact Hd).
  - unfold bind in H. destruct (mapM_st (clone_prim fetch g f) l s) as [[l' s1]| | |] eqn:E; try discriminate. inversion H; subst.
    eapply (mapM_keeps dense); [|exact E|exact Hd]. intros x s0 y s0' _ Hy Hi. eapply IH; eassumption.
  - unfold bind in H. destruct (mapM_st (on_entry (clone_prim fetch g f)) d s) as [[d' s1]| | |] eqn:E; try discriminate. inversion H; subst.
    eapply Hent; eassumption.
  - destruct (lookup (memo s) (id, gen)) as [x|]; [inversion H; subst; exact Hd|].
    unfold bind in H. destruct (resolve g (id, gen)) as [obj| | |]; try discriminate.
    set (s1 := mkSt (((id, gen), (next s, 0)) :: memo s) (next s + 1) (out s)) in *.
    destruct (clone_prim fetch g f obj s1) as [[c s2]| | |] eqn:Ec; try discriminate. inversion H; subst v' s'.
    assert (D1 : dense s1).
    { intros i H1 H2. cbn [next s1] in H2. cbn [memo s1]. destruct (N.eq_dec i (next s)) as [->|Hne].
      - exists (id, gen). left. reflexivity.
      - destruct (Hd i H1 ltac:(lia)) as [r Hr]. exists r. right. exact Hr. }
    pose proof (IH _ _ _ _ Ec D1) as D2. intros i H1 H2. cbn [next memo] in *. exact (D2 i H1 H2).
  - unfold bind in H. destruct (fetch id gen start len) as [x| | |]; try discriminate.
    destruct (mapM_st (on_entry (clone_prim fetch g f)) d s) as [[d' s1]| | |] eqn:E; try discriminate. inversion H; subst.
    eapply Hent; eassumption.
  - unfold bind in H. destruct (mapM_st (on_entry (clone_prim fetch g f)) d s) as [[d' s1]| | |] eqn:E; try discriminate. inversion H; subst.
    eapply Hent; eassumption.
Qed.

Lemma dense_st0 : dense st0.
Proof. intros i H1 H2. cbn [st0 next] in H2. lia. Qed.

Lemma roots_dense fetch g fuel roots s rs s' : import_roots fetch g fuel roots s = Ok (rs, s') -> dense s -> dense s'.
Proof.
  unfold import_roots. apply mapM_keeps. intros r s0 y s0' _ Hy Hi. eapply clone_dense; eassumption.
Qed.

Lemma ext_next_ge fetch g (Q : ref -> Prop) (Qs : forall r v r2, Q r -> resolve g r = Ok v -> has_ref v r2 -> Q r2) fuel roots s rs s' P :
  import_roots fetch g fuel roots s = Ok (rs, s') -> wf fetch g Q s -> pend s P -> (forall r, In r roots -> Q r) -> next s <= next s'.
Proof.
  intros H W Pd Hq. destruct (roots_good fetch g Q Qs fuel roots s rs s' P H W Pd Hq) as [_ [_ [X _]]]. exact (ex_next _ _ X).
Qed.

Section Reload.
  Variable fetch : fetch_t.
  Variable g : graph.
  Variable fuel : nat.
  Variable roots : list ref.
  Variable rs : list prim.
  Variable s : st.
  Hypothesis Himp : import_roots fetch g fuel roots st0 = Ok (rs, s).

  Let Q := reach g roots.

  Lemma import_next_ge : 1 <= next s.
  Proof.
    destruct (top_inv fetch g fuel roots rs s Himp) as [W _].
    assert (H : next st0 <= next s).
    { eapply (ext_next_ge fetch g Q (reach_step g roots)); [exact Himp|apply wf_st0|apply pend_st0|].
      intros r Hr. apply reach_root. exact Hr. }
    cbn [st0 next] in H. rewrite first_id_is_1 in H. exact H.
  Qed.

  (** the storage state after the import is well-formed in C09's sense: every theorem of C09 applies to its save *)
  Theorem import_target_wf c : SP.wf_st (target c s).
  Proof.
    destruct (top_inv fetch g fuel roots rs s Himp) as [W _]. eapply target_wf; [exact W|exact import_next_ge].
  Qed.

  (** no promise is left open: every id the importer reserved holds an object (save does not fail on a Promised entry),
      and the table holds nothing else besides the free head *)
  Theorem import_no_open_promise c : forall i, 1 <= i -> i < next s ->
    nthN (SM.refs (target c s)) i = Some SM.XPromised /\ exists v, SM.clookup (SM.changes (target c s)) i = Some (v, 0) /\ g_find (out s) i = Some v.
  Proof.
    destruct (top_inv fetch g fuel roots rs s Himp) as [W [P _]]. intros i H1 H2. split; [apply nthN_target_refs; assumption|].
    pose proof (roots_dense _ _ _ _ _ _ _ Himp dense_st0) as D.
    destruct (D i ltac:(rewrite first_id_is_1; exact H1) H2) as [r Hr].
    destruct (pd_done _ _ P r (i, 0) Hr) as [Hin|[]]. cbn [fst] in Hin.
    apply in_map_iff in Hin. destruct Hin as [[i0 v] [Hi Hin]]. cbn [fst] in Hi. subst i0.
    pose proof (In_g_find _ _ _ (wf_out_nd _ _ _ _ W) Hin) as Hf.
    exists v. split; [eapply target_lookup; eassumption|exact Hf].
  Qed.

  Lemma target_len c : lenN (SM.refs (target c s)) = next s.
  Proof. unfold target. cbn [SM.refs]. apply lenN_target_refs. exact import_next_ge. Qed.
End Reload.

(** ---- a copy is as storable as its original (C04's domain): renaming references keeps every lexical condition,
    and the new numbers are below 2^64 *)
Import Syn.SerProofs Syn.Spells Syn.ParserProofs.

Lemma iso_storable fetch m : (forall r x, lookup m r = Some x -> fst x < 18446744073709551616 /\ snd x < 18446744073709551616) ->
  forall v v', iso fetch m v v' -> storable v -> storable v'.
Proof.
  intros Hm. fix IH 3. intros v v' H Hs. destruct H; try exact Hs.
  - inversion Hs as [| | | | | | |l0 Hf|]; subst. constructor.
    clear Hs. revert Hf. induction H as [|a b l l' Hab Hl IHl]; intros Hf; [constructor|].
    inversion Hf; subst. constructor; [eapply IH; eassumption|apply IHl; assumption].
  - inversion Hs as [| | | | | | | |d0 Hnd Hf]; subst. clear Hs. constructor.
    + assert (E : keys d' = keys d).
      { clear Hnd Hf. unfold keys. induction H as [|a b l l' [Hk _] _ IHl]; [reflexivity|]. cbn [map]. rewrite Hk, IHl. reflexivity. }
      rewrite E. exact Hnd.
    + clear Hnd. revert Hf. induction H as [|a b l l' Hab Hl IHl]; intros Hf; [constructor|].
      inversion Hf as [|? ? [Hw [Hu Hsa]] Hft]; subst. destruct Hab as [Hk Hv]. constructor; [|apply IHl; assumption].
      rewrite <- Hk. split; [exact Hw|]. split; [exact Hu|]. eapply IH; eassumption.
  - destruct (Hm _ _ H) as [A B]. constructor; assumption.
  - inversion Hs.
  - inversion Hs.
Qed.

Lemma iso_vdepth fetch m : forall v v', iso fetch m v v' -> vdepth v' = vdepth v.
Proof.
  fix IH 3. intros v v' H. destruct H; try reflexivity.
  - rewrite !vdepth_arr. f_equal. unfold ldepth.
    induction H as [|a b l l' Hab Hl IHl]; [reflexivity|]. cbn [fold_right]. rewrite (IH _ _ Hab), IHl. reflexivity.
  - rewrite !vdepth_dict. f_equal. unfold ddepth.
    induction H as [|a b l l' Hab Hl IHl]; [reflexivity|]. destruct Hab as [_ Hv]. cbn [fold_right]. rewrite (IH _ _ Hv), IHl. reflexivity.
Qed.

Section Saved.
  Variable fetch : fetch_t.
  Variable g : graph.
  Variable fuel : nat.
  Variable roots : list ref.
  Variable rs : list prim.
  Variable s : st.
  Hypothesis Himp : import_roots fetch g fuel roots st0 = Ok (rs, s).
  Hypothesis Hsmall : next s < 18446744073709551616.

  (** the state is saved (C09's [save], the shared serialiser) and loaded again: [S3] is any state over the saved bytes
      whose table agrees with the saved table — what C09_load_table shows [load] to return *)
  Variable cached : bool.
  Variable member : bytes -> prim -> N -> res prim.
  Variable tr tr' : SM.trailer.
  Variable S' S3 : SM.st.
  Hypothesis Hsave : SM.save Syn.Serialize.ser (target cached s) tr = Ok (S', tr', None).
  Hypothesis R1 : SM.changes S3 = [].
  Hypothesis R2 : SM.backend S3 = SM.backend S'.
  Hypothesis R3 : SM.start S3 = 0.
  Hypothesis R4 : forall i, i < lenN (SM.refs S') -> nthN (SM.refs S3) i = nthN (SM.refs S') i.

  Lemma memo_small r x : lookup (memo s) r = Some x -> fst x < 18446744073709551616 /\ snd x < 18446744073709551616.
  Proof.
    intros Hl. destruct (top_inv fetch g fuel roots rs s Himp) as [W _].
    destruct (wf_tgt _ _ _ _ W r x (lookup_In _ _ _ Hl)) as [A B]. rewrite A. split; lia.
  Qed.

  (** every copied object that is not a stream: after save and reload the new number reads as the source object with its
      references renamed — for source objects of C04's storable domain within the parser's nesting limit *)
  Theorem import_reload_object r x v :
    lookup (memo s) r = Some x -> resolve g r = Ok v -> storable v -> vdepth v <= MAX_DEPTH ->
    exists v', iso fetch (memo s) v v' /\ rename fetch (memo s) v = Some v' /\
               forall g', SM.resolve Storage.Syntax.parse_obj member S3 (fst x, g') = Ok v'.
  Proof.
    intros Hl Hr Hst Hd. destruct (top_inv fetch g fuel roots rs s Himp) as [W _].
    destruct (import_equal fetch g fuel roots rs s Himp r x Hl) as [v0 [v' [Hr0 [Hf Hi]]]]. rewrite Hr in Hr0. inversion Hr0; subst v0.
    exists v'. split; [exact Hi|]. split; [apply iso_rename; exact Hi|]. intros g'.
    pose proof (import_target_wf fetch g fuel roots rs s Himp cached) as Wt.
    apply (Storage.Reload.reload_sees_storable member (target cached s) tr S' tr' S3 Wt Hsave R1 R2 R3 R4 (fst x) v' 0 g').
    - apply SP.save_pre_keeps; [exact Wt|]. eapply target_lookup; eassumption.
    - eapply iso_storable; [exact memo_small|exact Hi|exact Hst].
    - rewrite (iso_vdepth _ _ _ _ Hi). exact Hd.
    - exact (proj1 (memo_small r x Hl)).
    - unfold Storage.Reload.U64. lia.
  Qed.

  (** every copied stream: the new number reads as a stream with the renamed dictionary whose data, read from the saved
      bytes, is the source stream's data — for dictionaries of the storable domain whose /Length states the byte count *)
  Theorem import_reload_stream r x d i gn st ln :
    lookup (memo s) r = Some x -> resolve g r = Ok (PStream d i gn st ln) ->
    storable (PDict d) -> vdepth (PDict d) <= MAX_DEPTH -> dict_get Syn.Parser.key_Length d = Some (PInt (Z.of_N ln)) ->
    exists d' data, fetch i gn st ln = Ok data /\ Forall2 (iso_entry fetch (memo s)) d d' /\ map fst d' = map fst d /\
      (lenN data = ln -> forall g', exists st',
         SM.resolve Storage.Syntax.parse_obj member S3 (fst x, g') = Ok (PStream d' (fst x) 0 st' ln) /\
         Storage.Prim.raw_data (SM.backend S3) (PStream d' (fst x) 0 st' ln) = Some data).
  Proof.
    intros Hl Hr Hst Hd HL. destruct (top_inv fetch g fuel roots rs s Himp) as [W _].
    destruct (import_equal fetch g fuel roots rs s Himp r x Hl) as [v0 [v' [Hr0 [Hf Hi]]]]. rewrite Hr in Hr0. inversion Hr0; subst v0.
    inversion Hi as [| | | | | | | | | |d0 i0 gn0 st0' ln0 d' data Hfe Hen|]; subst.
    exists d', data. split; [exact Hfe|]. split; [exact Hen|]. split; [eapply iso_entries_keys; exact Hen|].
    intros Hlen g'. subst ln.
    pose proof (import_target_wf fetch g fuel roots rs s Himp cached) as Wt.
    assert (Hid : iso fetch (memo s) (PDict d) (PDict d')) by (constructor; exact Hen).
    apply (Storage.Reload.reload_sees_stream member (target cached s) tr S' tr' S3 Wt Hsave R1 R2 R3 R4 (fst x) d' data 0 g').
    - apply SP.save_pre_keeps; [exact Wt|]. eapply target_lookup; eassumption.
    - eapply iso_storable; [exact memo_small|exact Hid|exact Hst].
    - rewrite (iso_vdepth _ _ _ _ Hid). exact Hd.
    - destruct (iso_entry_get _ _ _ _ _ _ Hen HL) as [v' [Hg Hiv]]. inversion Hiv; subst. exact Hg.
    - exact (proj1 (memo_small r x Hl)).
    - unfold Storage.Reload.U64. lia.
  Qed.
End Saved.
