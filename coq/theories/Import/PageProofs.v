(** Import/PageProofs.v — the page level (PageBuilder::clone_page, deep_clone_op): what one operation contributes,
    the invariant over a whole page, the generated tables, and the refutation of the full statement (categories
    the code does not handle). *)
From PdfV Require Import Base.Prelude Lex.Lexer Syn.Prim Gen.Generated Import.Model Import.Spec Import.ImportProofs.

Section Page.
  Variable fetch : fetch_t.
  Variable g : graph.
  Let Q : ref -> Prop := fun _ => True.
  Let Qstep : forall r v r2, Q r -> resolve g r = Ok v -> has_ref v r2 -> Q r2 := fun _ _ _ _ _ _ => I.

  Notation wf := (wf fetch g Q).

  (** the source value a resource entry stands for, by the way `Resources` holds the category *)
  Definition src_value (cat : bytes) (v v0 : prim) : Prop :=
    if kind_of_cat cat =? 1 then v0 = v
    else if kind_of_cat cat =? 2 then v0 = v /\ exists i gn, v = PRef i gn
    else deref g 16 v = Ok v0.

  Lemma clone_res_spec fuel cat v s v' s' P :
    clone_res fetch g fuel cat v s = Ok (v', s') -> wf s -> pend s P ->
    wf s' /\ pend s' P /\ ext s s' /\ exists v0, src_value cat v v0 /\ iso fetch (memo s') v0 v'.
  Proof.
    unfold clone_res, src_value. intros H Hwf Hpd.
    destruct (kind_of_cat cat =? 1) eqn:K1.
    - destruct (clone_good fetch g Q Qstep fuel v _ _ _ P H Hwf Hpd (fun _ _ => I)) as [W [Pd [X Is]]].
      four; [assumption|assumption|assumption|exists v; split; [reflexivity|exact Is]].
    - destruct (kind_of_cat cat =? 2) eqn:K2.
      + destruct v; try discriminate.
        destruct (clone_good fetch g Q Qstep fuel _ _ _ _ P H Hwf Hpd (fun _ _ => I)) as [W [Pd [X Is]]].
        four; [assumption|assumption|assumption|eexists; split; [split; [reflexivity|eexists; eexists; reflexivity]|exact Is]].
      + unfold bind in H. destruct (deref g 16 v) as [o| | |] eqn:Ed; try discriminate.
        destruct (clone_good fetch g Q Qstep fuel o _ _ _ P H Hwf Hpd (fun _ _ => I)) as [W [Pd [X Is]]].
        four; [assumption|assumption|assumption|exists o; split; [reflexivity|exact Is]].
  Qed.

  (** one operation: nothing is added unless the operation is one of the table, the name is not yet present and the
      page's resources define it; then exactly one entry is added and its value is an [iso] copy *)
  Theorem clone_use_spec fuel old u new s new' s' P :
    clone_use fetch g fuel old u (new, s) = Ok (new', s') -> wf s -> pend s P ->
    wf s' /\ pend s' P /\ ext s s' /\
    match u with
    | UProps _ => new' = new
    | UName op name =>
        match cat_of_op op with
        | None => new' = new
        | Some cat =>
            match dict_get name (cat_get new cat), dict_get name (cat_get old cat) with
            | None, Some v => exists v0 v', src_value cat v v0 /\ iso fetch (memo s') v0 v' /\
                                            new' = cat_set new cat (cat_get new cat ++ [(name, v')])
            | _, _ => new' = new
            end
        end
    end.
  Proof.
    intros H Hwf Hpd. cbn [clone_use] in H. destruct u as [op name|p].
    - destruct (cat_of_op op) as [cat|]; [|inversion H; subst; four; [assumption|assumption|apply ext_refl|reflexivity]].
      destruct (dict_get name (cat_get new cat)); [inversion H; subst; four; [assumption|assumption|apply ext_refl|reflexivity]|].
      destruct (dict_get name (cat_get old cat)) as [v|]; [|inversion H; subst; four; [assumption|assumption|apply ext_refl|reflexivity]].
      unfold bind in H. destruct (clone_res fetch g fuel cat v s) as [[v' s1]| | |] eqn:E; try discriminate. inversion H; subst.
      destruct (clone_res_spec _ _ _ _ _ _ P E Hwf Hpd) as [W [Pd [X [v0 [Hs Is]]]]].
      four; [assumption|assumption|assumption|exists v0, v'; auto].
    - unfold bind in H. destruct (clone_prim fetch g fuel p s) as [[c s1]| | |] eqn:E; try discriminate. inversion H; subst.
      destruct (clone_good fetch g Q Qstep fuel p _ _ _ P E Hwf Hpd (fun _ _ => I)) as [W [Pd [X _]]].
      four; [assumption|assumption|assumption|reflexivity].
  Qed.

  Lemma clone_uses_inv fuel old us : forall new s new' s' P,
    clone_uses fetch g fuel old us (new, s) = Ok (new', s') -> wf s -> pend s P -> wf s' /\ pend s' P /\ ext s s'.
  Proof.
    induction us as [|u t IH]; intros new s new' s' P H Hwf Hpd; cbn [clone_uses] in H.
    - inversion H; subst. split; [assumption|split; [assumption|apply ext_refl]].
    - unfold bind in H. destruct (clone_use fetch g fuel old u (new, s)) as [[n1 s1]| | |] eqn:E; try discriminate.
      destruct (clone_use_spec _ _ _ _ _ _ _ P E Hwf Hpd) as [W [Pd [X _]]].
      destruct (IH _ _ _ _ P H W Pd) as [W2 [P2 X2]].
      split; [assumption|split; [assumption|eapply ext_trans; eassumption]].
  Qed.

  (** a whole page keeps the invariant: everything stated for [import_roots] (closure, equality, single copy)
      holds of the state after any number of pages, and the untyped tail entries are [iso] copies *)
  Theorem clone_page_inv fuel p s po s' P :
    clone_page fetch g fuel p s = Ok (po, s') -> wf s -> pend s P ->
    wf s' /\ pend s' P /\ ext s s' /\ Forall2 (iso_entry fetch (memo s')) (pg_tail p) (po_tail po).
  Proof.
    unfold clone_page. intros H Hwf Hpd. unfold bind in H.
    destruct (clone_uses fetch g fuel (pg_res p) (pg_uses p) ([], s)) as [[new s1]| | |] eqn:E1; try discriminate.
    destruct (mapM_st (on_entry (clone_prim fetch g fuel)) (pg_tail p) s1) as [[tl s2]| | |] eqn:E2; try discriminate.
    inversion H; subst. cbn [po_tail].
    destruct (clone_uses_inv _ _ _ _ _ _ _ P E1 Hwf Hpd) as [W1 [P1 X1]].
    destruct (entries_good fetch g Q (clone_prim fetch g fuel) (pg_tail p)
                (fun kv _ => clone_good fetch g Q Qstep fuel (snd kv)) _ _ _ P E2 W1 P1 (fun _ _ _ _ _ => I)) as [W2 [P2 [X2 F2]]].
    four; [assumption|assumption|eapply ext_trans; eassumption|exact F2].
  Qed.
End Page.

(** ---- generated tables (recomputed from the Rust sources on every run) *)

(** ISO 32000-1 §8.4.5 / §9.3 / §8.8 / §8.6 / §14.6: operator variant of pdf-rs -> resource category it names *)
Definition b (s : list N) := s.
Definition spec_op_cats : list (bytes * bytes) :=
  [ ([71;114;97;112;104;105;99;115;83;116;97;116;101], [69;120;116;71;83;116;97;116;101]);      (* GraphicsState (gs) -> ExtGState *)
    ([84;101;120;116;70;111;110;116], [70;111;110;116]);                                          (* TextFont (Tf) -> Font *)
    ([88;79;98;106;101;99;116], [88;79;98;106;101;99;116]);                                       (* XObject (Do) -> XObject *)
    ([70;105;108;108;67;111;108;111;114;83;112;97;99;101], [67;111;108;111;114;83;112;97;99;101]);        (* FillColorSpace (cs) -> ColorSpace *)
    ([83;116;114;111;107;101;67;111;108;111;114;83;112;97;99;101], [67;111;108;111;114;83;112;97;99;101]); (* StrokeColorSpace (CS) -> ColorSpace *)
    ([83;104;97;100;101], [83;104;97;100;105;110;103]) ].                                         (* Shade (sh) -> Shading *)

Definition pair_eqb (x y : bytes * bytes) : bool := bytes_eqb (fst x) (fst y) && bytes_eqb (snd x) (snd y).
Definition pairN_eqb (x y : bytes * N) : bool := bytes_eqb (fst x) (fst y) && (snd x =? snd y).

(** the order of clone_plainref / clone_ref / clone_rcref: 1 memo look-up, 2 resolve, 3 reserve the id, 4 memoise,
    5 descend, 6 store — memoising (4) precedes the descent (5): this is what makes [clone_total] true of the code *)
Fixpoint before (a b : N) (l : list N) : bool :=
  match l with
  | [] => false
  | x :: t => if x =? a then memN b t else if x =? b then false else before a b t
  end.

Theorem tables_ok :
  (* every arm of deep_clone_op reads and fills the category the standard assigns to the operator *)
  forallb (fun x => existsb (pair_eqb x) spec_op_cats) import_op_cats = true /\
  (* the three categories the proofs speak about are handled, each held as the model assumes *)
  forallb (fun x => existsb (pairN_eqb x) import_res_kinds)
          [([69;120;116;71;83;116;97;116;101], 0); ([70;111;110;116], 1); ([88;79;98;106;101;99;116], 2)] = true /\
  (* memo before descent, reservation before memo, look-up first, store last — in all three clone functions *)
  forallb (fun l => before 1 3 l && before 3 4 l && before 4 5 l && before 5 6 l)
          [import_plainref_order; import_ref_order; import_rcref_order] = true /\
  (* Primitive::deep_clone recurses exactly into arrays, dictionaries, references and streams *)
  import_prim_arms =
    [([65;114;114;97;121], 1); ([66;111;111;108;101;97;110], 0); ([68;105;99;116;105;111;110;97;114;121], 1);
     ([73;110;116;101;103;101;114], 0); ([78;97;109;101], 0); ([78;117;108;108], 0); ([78;117;109;98;101;114], 0);
     ([82;101;102;101;114;101;110;99;101], 1); ([83;116;114;101;97;109], 1); ([83;116;114;105;110;103], 0)] /\
  (* an empty document hands out ids from 1 (0 is the head of the free list) *)
  1 <= import_first_id.
Proof. vm_compute. repeat split; try reflexivity. discriminate. Qed.

(** ---- the full statement and its refutation *)

(** every resource the operations name (in any category of the standard's table) and the page defines is present afterwards *)
Definition full_statement : Prop :=
  forall fetch g fuel p s po s' op name cat v,
    clone_page fetch g fuel p s = Ok (po, s') ->
    In (UName op name) (pg_uses p) -> In (op, cat) spec_op_cats ->
    dict_get name (cat_get (pg_res p) cat) = Some v ->
    dict_get name (cat_get (po_res po) cat) <> None.

Definition CS : bytes := [67;111;108;111;114;83;112;97;99;101].
Definition witness_page : page :=
  mkPage [UName [70;105;108;108;67;111;108;111;114;83;112;97;99;101] [67;83;48]]           (* /CS0 cs *)
         [(CS, [([67;83;48], PArr [PName [73;67;67;66;97;115;101;100]; PRef 1 0])])]           (* /ColorSpace << /CS0 [/ICCBased 1 0 R] >> *)
         [].
Definition witness_graph : graph := [(1, PStreamData [([78], PInt 3)] [1; 2; 3])].

Theorem categories_refuted : ~ full_statement.
Proof.
  intros H.
  specialize (H (fun _ _ _ _ => Err E_REF) witness_graph 10%nat witness_page st0 (mkPageOut [] []) st0
                [70;105;108;108;67;111;108;111;114;83;112;97;99;101] [67;83;48] CS
                (PArr [PName [73;67;67;66;97;115;101;100]; PRef 1 0])).
  apply H; try (vm_compute; reflexivity).
  - left. reflexivity.
  - right. right. right. left. reflexivity.
Qed.

(** non-vacuity of the proved statement: an operation of the table does copy its resource, with the object behind it *)
Example font_is_copied :
  clone_page (fun _ _ _ _ => Err E_REF) [(7, PDict [([84], PName [70])])] 10
             (mkPage [UName [84;101;120;116;70;111;110;116] [70;49]] [([70;111;110;116], [([70;49], PRef 7 0)])] []) st0
  = Ok (mkPageOut [([70;111;110;116], [([70;49], PRef 1 0)])] [],
        mkSt [((7, 0), (1, 0))] 2 [(1, PDict [([84], PName [70])])]).
Proof. vm_compute. reflexivity. Qed.
