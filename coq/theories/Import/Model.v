(** Import/Model.v — the importer of pdf/src/build.rs as an executable function on object graphs (C20).

    Source document: [graph] = object number -> value ([Syn.Prim.prim], the shared object model).  The new
    document is the [out] component of the state (what [Storage::create/fulfill] put into [changes]), [next] is
    [refs.len()], [memo] is [Importer::map].  Stream bytes are fetched from the source through [fetch]
    ([Resolve::stream_data]); values read by the model's harness already carry their bytes ([PStreamData]).

    Every definition names the Rust code it mirrors.  No proofs in this file. *)
From PdfV Require Import Base.Prelude Lex.Lexer Syn.Prim Gen.Generated.

(** PlainRef { id, gen } *)
Definition ref := (N * N)%type.
Definition ref_eqb (a b : ref) : bool := (fst a =? fst b) && (snd a =? snd b).

(** the source document as the resolver sees it: look-up is by object number only
    (file.rs: Storage::resolve_ref uses r.id; the generation of the reference is not consulted) *)
Definition graph := list (N * prim).
Fixpoint g_find (g : graph) (id : N) : option prim :=
  match g with
  | [] => None
  | (i, v) :: t => if i =? id then Some v else g_find t id
  end.
Definition E_REF : N := 30.      (* NullRef / FreeObject / UnspecifiedXRefEntry *)
Definition E_TYPE : N := 31.     (* a typed reader refuses the value *)
Definition resolve (g : graph) (r : ref) : res prim :=
  match g_find g (fst r) with Some v => Ok v | None => Err E_REF end.

(** build.rs: Importer::map — HashMap<PlainRef, PlainRef> (key = id and generation) *)
Definition memo_t := list (ref * ref).
Fixpoint lookup (m : memo_t) (r : ref) : option ref :=
  match m with
  | [] => None
  | (k, x) :: t => if ref_eqb k r then Some x else lookup t r
  end.

(** the updater: file.rs Storage { refs (only its length matters), changes } *)
Record st := mkSt { memo : memo_t; next : N; out : list (N * prim) }.
(** file.rs: Storage::empty — XRefTable::new(0) holds the free entry 0, the first id handed out is 1 *)
Definition st0 : st := mkSt [] import_first_id [].

Definition fetch_t := N -> N -> N -> N -> res bytes.     (* object/mod.rs: Resolve::stream_data(id, range) *)

(** `.iter().map(|x| x.deep_clone(cloner)).collect::<Result<_>>()` — left to right, first error wins *)
Fixpoint mapM_st {A B : Type} (F : A -> st -> res (B * st)) (l : list A) (s : st) : res (list B * st) :=
  match l with
  | [] => Ok ([], s)
  | x :: t =>
      do (y, s1) <- F x s;
      do (ys, s2) <- mapM_st F t s1;
      Ok (y :: ys, s2)
  end.

(** primitive.rs: Dictionary::deep_clone — every value in insertion order, keys kept *)
Definition on_entry (F : prim -> st -> res (prim * st)) (kv : bytes * prim) (s : st) : res ((bytes * prim) * st) :=
  do (v, s1) <- F (snd kv) s; Ok ((fst kv, v), s1).

(** object/mod.rs: impl DeepClone for Primitive, primitive.rs: PdfStream::deep_clone / Dictionary::deep_clone,
    build.rs: Importer::clone_plainref (the [PRef] case), in the order of the code:
      memo hit -> the memoised reference;
      otherwise resolve (an error ends the import), reserve the new id ([promise]), memoise, clone the
      referenced object, store the clone under the reserved id ([fulfill]).
    [import_plainref_order] (generated from the function body) pins this order. *)
Fixpoint clone_prim (fetch : fetch_t) (g : graph) (fuel : nat) (v : prim) (s : st) {struct fuel} : res (prim * st) :=
  match fuel with
  | O => OutOfFuel
  | S f =>
    match v with
    | PArr l => do (l', s1) <- mapM_st (clone_prim fetch g f) l s; Ok (PArr l', s1)
    | PDict d => do (d', s1) <- mapM_st (on_entry (clone_prim fetch g f)) d s; Ok (PDict d', s1)
    | PRef i gn =>
        match lookup (memo s) (i, gn) with
        | Some r' => Ok (PRef (fst r') (snd r'), s)
        | None =>
            do obj <- resolve g (i, gn);
            let id := next s in
            let s1 := mkSt (((i, gn), (id, 0)) :: memo s) (id + 1) (out s) in
            do (c, s2) <- clone_prim fetch g f obj s1;
            Ok (PRef id 0, mkSt (memo s2) (next s2) ((id, c) :: out s2))
        end
    | PStream d i gn st ln =>
        do x <- fetch i gn st ln;
        do (d', s1) <- mapM_st (on_entry (clone_prim fetch g f)) d s;
        Ok (PStreamData d' x, s1)
    | PStreamData d x =>
        do (d', s1) <- mapM_st (on_entry (clone_prim fetch g f)) d s;
        Ok (PStreamData d' x, s1)
    | _ => Ok (v, s)
    end
  end.

(** build.rs: Importer::clone_plainref on a list of roots (harness mode import_graph) *)
Definition import_roots (fetch : fetch_t) (g : graph) (fuel : nat) (roots : list ref) (s : st) : res (list prim * st) :=
  mapM_st (fun r => clone_prim fetch g fuel (PRef (fst r) (snd r))) roots s.

(** ------------------------------------------------------------------------------------------------
    the page level: build.rs PageBuilder::clone_page, content.rs deep_clone_op *)

(** what an operation contributes to cloning: an operation variant naming a resource, or marked-content
    properties (cloned as a primitive); every other operation is copied as it is *)
Inductive use : Type :=
| UName (op : bytes) (name : bytes)      (* Op::<op> { name, .. } *)
| UProps (p : prim).                     (* Op::BeginMarkedContent / MarkedContentPoint { properties: Some(p) } *)

(** resources by category key (types.rs: struct Resources, `#[pdf(key=…)]`) *)
Definition res_t := list (bytes * dict).
Fixpoint cat_get (r : res_t) (cat : bytes) : dict :=
  match r with
  | [] => []
  | (c, d) :: t => if bytes_eqb c cat then d else cat_get t cat
  end.
Fixpoint cat_set (r : res_t) (cat : bytes) (d : dict) : res_t :=
  match r with
  | [] => [(cat, d)]
  | (c, d0) :: t => if bytes_eqb c cat then (c, d) :: t else (c, d0) :: cat_set t cat d
  end.

Fixpoint assoc_b {A : Type} (k : bytes) (l : list (bytes * A)) : option A :=
  match l with
  | [] => None
  | (k', a) :: t => if bytes_eqb k k' then Some a else assoc_b k t
  end.

(** which resource map an operation variant reads and fills (content.rs: deep_clone_op, generated) *)
Definition cat_of_op (op : bytes) : option bytes := assoc_b op import_op_cats.

(** how the values of a category are held by `Resources` (types.rs, generated):
    0 = typed by value (a reference is resolved when the page is read), 1 = Lazy<T> (the primitive as it is),
    2 = Ref<T> (must be a reference) *)
Definition kind_of_cat (cat : bytes) : N := match assoc_b cat import_res_kinds with Some k => k | None => 0 end.

Fixpoint deref (g : graph) (fuel : nat) (v : prim) : res prim :=
  match fuel with
  | O => Err E_REF
  | S f => match v with PRef i gn => do o <- resolve g (i, gn); deref g f o | _ => Ok v end
  end.

(** the deep_clone of one resource value; the typed clones (kind 0 and 2) are modelled by the clone of
    their dictionary form (DESIGN 12.C20: typed cloning is tied by correspondence) *)
Definition clone_res (fetch : fetch_t) (g : graph) (fuel : nat) (cat : bytes) (v : prim) (s : st) : res (prim * st) :=
  let k := kind_of_cat cat in
  if k =? 1 then clone_prim fetch g fuel v s
  else if k =? 2 then
    match v with PRef _ _ => clone_prim fetch g fuel v s | _ => Err E_TYPE end
  else do o <- deref g 16 v; clone_prim fetch g fuel o s.

(** content.rs: deep_clone_op — `if !resources.X.contains_key(name) { if let Some(v) = old.X.get(name) { insert(clone) } }` *)
Definition clone_use (fetch : fetch_t) (g : graph) (fuel : nat) (old : res_t) (u : use) (acc : res_t * st)
  : res (res_t * st) :=
  let '(new, s) := acc in
  match u with
  | UProps p => do (_, s1) <- clone_prim fetch g fuel p s; Ok (new, s1)
  | UName op name =>
      match cat_of_op op with
      | None => Ok (new, s)
      | Some cat =>
          match dict_get name (cat_get new cat) with
          | Some _ => Ok (new, s)
          | None =>
              match dict_get name (cat_get old cat) with
              | None => Ok (new, s)
              | Some v =>
                  do (v', s1) <- clone_res fetch g fuel cat v s;
                  Ok (cat_set new cat (cat_get new cat ++ [(name, v')]), s1)
              end
          end
      end
  end.

Fixpoint clone_uses (fetch : fetch_t) (g : graph) (fuel : nat) (old : res_t) (us : list use) (acc : res_t * st)
  : res (res_t * st) :=
  match us with
  | [] => Ok acc
  | u :: t => do acc1 <- clone_use fetch g fuel old u acc; clone_uses fetch g fuel old t acc1
  end.

(** a page as clone_page sees it: the resource uses of its operations in order, its (inherited) resources,
    and the entries cloned untyped after the operations: metadata, lgi, vp, other (in the order of the struct
    literal in PageBuilder::clone_page, [import_page_fields]) *)
Record page := mkPage { pg_uses : list use; pg_res : res_t; pg_tail : list (bytes * prim) }.

Record page_out := mkPageOut { po_res : res_t; po_tail : list (bytes * prim) }.

Definition clone_page (fetch : fetch_t) (g : graph) (fuel : nat) (p : page) (s : st) : res (page_out * st) :=
  do (new, s1) <- clone_uses fetch g fuel (pg_res p) (pg_uses p) ([], s);
  do (tl, s2) <- mapM_st (on_entry (clone_prim fetch g fuel)) (pg_tail p) s1;
  Ok (mkPageOut new tl, s2).

Definition import_pages (fetch : fetch_t) (g : graph) (fuel : nat) (ps : list page) (s : st) : res (list page_out * st) :=
  mapM_st (clone_page fetch g fuel) ps s.

(** ------------------------------------------------------------------------------------------------
    fuel that always suffices (ImportProofs.clone_total): one unit per nesting level of a value, and for
    every reference that can still be memoised the deepest object plus two *)
Fixpoint depth (v : prim) : nat :=
  match v with
  | PArr l => S (fold_right (fun x a => Nat.max (depth x) a) O l)
  | PDict d => S (fold_right (fun kv a => Nat.max (depth (snd kv)) a) O d)
  | PStream d _ _ _ _ => S (fold_right (fun kv a => Nat.max (depth (snd kv)) a) O d)
  | PStreamData d _ => S (fold_right (fun kv a => Nat.max (depth (snd kv)) a) O d)
  | _ => 1%nat
  end.

Fixpoint refs_of (v : prim) : list ref :=
  match v with
  | PArr l => flat_map refs_of l
  | PDict d => flat_map (fun kv => refs_of (snd kv)) d
  | PStream d _ _ _ _ => flat_map (fun kv => refs_of (snd kv)) d
  | PStreamData d _ => flat_map (fun kv => refs_of (snd kv)) d
  | PRef i gn => [(i, gn)]
  | _ => []
  end.

Definition graph_depth (g : graph) : nat := fold_right (fun kv a => Nat.max (depth (snd kv)) a) O g.
Definition graph_refs (g : graph) : list ref := flat_map (fun kv => refs_of (snd kv)) g.

Definition fuel_for (g : graph) (vs : list prim) : nat :=
  let D := Nat.max (graph_depth g) (fold_right (fun v a => Nat.max (depth v) a) O vs) in
  (S (length (graph_refs g) + length (flat_map refs_of vs)) * (D + 2))%nat.
