(** Import/Theorems.v — C20 on object graphs: the result of importing a list of roots into an empty document. *)
From PdfV Require Import Base.Prelude Lex.Lexer Syn.Prim Gen.Generated Import.Model Import.Spec Import.ImportProofs.

Definition new_refs (rs : list prim) : list ref :=
  flat_map (fun v => match v with PRef i gn => [(i, gn)] | _ => [] end) rs.

Lemma NoDup_snd_inj {A B} (m : list (A * B)) a b y : NoDup (map snd m) -> In (a, y) m -> In (b, y) m -> a = b.
Proof.
  induction m as [|[k z] t IH]; cbn [map snd]; intros Hnd Ha Hb; [destruct Ha|].
  inversion Hnd as [|? ? Hk Ht]; subst.
  destruct Ha as [Ha|Ha], Hb as [Hb|Hb].
  - inversion Ha; inversion Hb; subst. reflexivity.
  - inversion Ha; subst. exfalso. apply Hk. apply in_map_iff. exists (b, y). split; [reflexivity|exact Hb].
  - inversion Hb; subst. exfalso. apply Hk. apply in_map_iff. exists (a, y). split; [reflexivity|exact Ha].
  - apply IH; assumption.
Qed.

Section Top.
  Variable fetch : fetch_t.
  Variable g : graph.
  Variable fuel : nat.
  Variable roots : list ref.
  Variable rs : list prim.
  Variable s : st.
  Hypothesis Himp : import_roots fetch g fuel roots st0 = Ok (rs, s).

  Let Q := reach g roots.
  Let Qstep : forall r v r2, Q r -> resolve g r = Ok v -> has_ref v r2 -> Q r2 := reach_step g roots.

  Lemma top_inv : wf fetch g Q s /\ pend s [] /\ Forall2 (root_rel (memo s)) roots rs.
  Proof.
    destruct (roots_good fetch g Q Qstep fuel roots st0 rs s [] Himp (wf_st0 fetch g Q) pend_st0) as [W [P [X F]]].
    - intros r Hr. apply reach_root. exact Hr.
    - auto.
  Qed.

  Lemma target_defined r x : lookup (memo s) r = Some x -> exists v, In (fst x, v) (out s) /\ g_find (out s) (fst x) = Some v.
  Proof.
    destruct top_inv as [W [P _]]. intros Hl. apply lookup_In in Hl.
    destruct (pd_done _ _ P r x Hl) as [Hin|[]].
    apply in_map_iff in Hin. destruct Hin as [[i v] [Hi Hin]]. cbn [fst] in Hi. subst i.
    exists v. split; [exact Hin|apply In_g_find; [exact (wf_out_nd _ _ _ _ W)|exact Hin]].
  Qed.

  (** the imported roots are mapped *)
  Theorem import_roots_mapped : Forall2 (root_rel (memo s)) roots rs.
  Proof. exact (proj2 (proj2 top_inv)). Qed.

  (** equality: the object stored for the image of r is r's object with every reference renamed by the memo *)
  Theorem import_equal r x :
    lookup (memo s) r = Some x ->
    exists v v', resolve g r = Ok v /\ g_find (out s) (fst x) = Some v' /\ iso fetch (memo s) v v'.
  Proof.
    destruct top_inv as [W [P _]]. intros Hl.
    destruct (target_defined r x Hl) as [v' [Hin Hf]].
    destruct (wf_out_iso _ _ _ _ W _ _ Hin) as [r0 [v [Hm [Hr Hi]]]].
    pose proof (lookup_In _ _ _ Hl) as Hrx.
    destruct (wf_tgt _ _ _ _ W r x Hrx) as [Hs _].
    assert (Hx : x = (fst x, 0)) by (destruct x; cbn in *; subst; reflexivity).
    rewrite Hx in Hrx.
    pose proof (NoDup_snd_inj _ _ _ _ (wf_inj _ _ _ _ W) Hm Hrx) as He. subst r0.
    exists v, v'. auto.
  Qed.

  (** closure: every reference reachable from the new roots in the new document is defined there *)
  Theorem import_closed r' : reach (out s) (new_refs rs) r' -> exists v, g_find (out s) (fst r') = Some v.
  Proof.
    destruct top_inv as [W [P F]]. intros Hr. induction Hr as [r' Hin|r v r2 Hr IH Hres Hhas].
    - unfold new_refs in Hin. apply in_flat_map in Hin. destruct Hin as [v [Hv Hin]].
      destruct (Forall2_In_r _ _ _ _ F Hv) as [r0 [_ [x [Hl Hx]]]]. subst v. cbn in Hin. destruct Hin as [Hin|[]]. subst r'.
      cbn [fst]. destruct (target_defined _ _ Hl) as [v [_ Hf]]. exists v. exact Hf.
    - unfold resolve in Hres. destruct (g_find (out s) (fst r)) as [v0|] eqn:Ef; [|discriminate]. inversion Hres; subst v0.
      apply g_find_In in Ef. destruct (wf_out_iso _ _ _ _ W _ _ Ef) as [r0 [v0 [_ [_ Hi]]]].
      destruct (iso_refs _ _ _ _ _ Hi Hhas) as [r1 [_ Hl]].
      destruct (target_defined _ _ Hl) as [v1 [_ Hf]]. exists v1. exact Hf.
  Qed.

  (** single copy: the memo is a function and injective; the new objects are exactly the images *)
  Theorem import_once :
    NoDup (map fst (memo s)) /\ NoDup (map snd (memo s)) /\ NoDup (map fst (out s)) /\
    (forall i, In i (map fst (out s)) <-> exists r, lookup (memo s) r = Some (i, 0)).
  Proof.
    destruct top_inv as [W [P _]].
    split; [exact (wf_fun _ _ _ _ W)|]. split; [exact (wf_inj _ _ _ _ W)|]. split; [exact (wf_out_nd _ _ _ _ W)|].
    intros i. split.
    - intros Hin. apply in_map_iff in Hin. destruct Hin as [[i0 v] [Hi Hin]]. cbn [fst] in Hi. subst i0.
      destruct (wf_out_iso _ _ _ _ W _ _ Hin) as [r [v0 [Hm _]]]. exists r. apply In_lookup; [exact (wf_fun _ _ _ _ W)|exact Hm].
    - intros [r Hl]. destruct (target_defined _ _ Hl) as [v [Hin _]]. cbn [fst] in Hin.
      apply in_map_iff. exists (i, v). split; [reflexivity|exact Hin].
  Qed.

  (** pruning: only what the roots reach is copied … *)
  Theorem import_reachable_only r x : lookup (memo s) r = Some x -> reach g roots r.
  Proof.
    destruct top_inv as [W _]. intros Hl. exact (wf_q _ _ _ _ W r x (lookup_In _ _ _ Hl)).
  Qed.

  (** … and everything the roots reach is copied (as far as the source defines it) *)
  Theorem import_reachable_all r : reach g roots r -> exists x, lookup (memo s) r = Some x.
  Proof.
    intros Hr. induction Hr as [r Hin|r v r2 Hr [x Hl] Hres Hhas].
    - destruct (Forall2_In_l _ _ _ _ import_roots_mapped Hin) as [y [_ [x [Hl _]]]]. exists x. exact Hl.
    - destruct (import_equal r x Hl) as [v0 [v' [Hres0 [_ Hi]]]]. rewrite Hres in Hres0. inversion Hres0; subst v0.
      destruct (iso_refs_fwd _ _ _ _ _ Hi Hhas) as [r' [_ Hl2]]. exists r'. exact Hl2.
  Qed.
End Top.

(** ------------------------------------------------------------------------------------------------
    termination and absence of panics *)

Definition ok_or_err {A} (r : res A) : Prop := match r with Ok _ | Err _ => True | _ => False end.

Definition mono (s s' : st) : Prop := extends (memo s) (memo s').

Definition unmemo (s : st) (r : ref) : bool := match lookup (memo s) r with Some _ => false | None => true end.
Definition missL (L : list ref) (s : st) : nat := length (filter (unmemo s) L).

Lemma unmemo_mono s s' r : mono s s' -> unmemo s r = false -> unmemo s' r = false.
Proof.
  unfold unmemo. intros Hm. destruct (lookup (memo s) r) as [x|] eqn:E; [|discriminate]. rewrite (Hm _ _ E). reflexivity.
Qed.

Lemma missL_mono L s s' : mono s s' -> (missL L s' <= missL L s)%nat.
Proof.
  intros Hm. unfold missL. induction L as [|r t IH]; cbn [filter]; [lia|].
  destruct (unmemo s r) eqn:E1, (unmemo s' r) eqn:E2; cbn [length]; try lia.
  rewrite (unmemo_mono _ _ _ Hm E1) in E2. discriminate.
Qed.

Lemma missL_dec L s s' r : mono s s' -> In r L -> lookup (memo s) r = None -> lookup (memo s') r <> None -> (missL L s' < missL L s)%nat.
Proof.
  intros Hm. induction L as [|r0 t IH]; intros Hin Hn Hs; [destruct Hin|].
  pose proof (missL_mono t s s' Hm) as Hle. unfold missL in *. cbn [filter].
  destruct Hin as [->|Hin].
  - assert (E1 : unmemo s r = true) by (unfold unmemo; rewrite Hn; reflexivity).
    assert (E2 : unmemo s' r = false) by (unfold unmemo; destruct (lookup (memo s') r); [reflexivity|contradiction]).
    rewrite E1, E2. cbn [length]. lia.
  - specialize (IH Hin Hn Hs).
    destruct (unmemo s r0) eqn:E1, (unmemo s' r0) eqn:E2; cbn [length]; try lia.
    rewrite (unmemo_mono _ _ _ Hm E1) in E2. discriminate.
Qed.

Lemma mapM_fine {A B} (G : A -> st -> res (B * st)) (l : list A) :
  (forall x s, In x l -> match G x s with Ok (_, s') => mono s s' | Err _ => True | _ => False end) ->
  forall s, match mapM_st G l s with Ok (_, s') => mono s s' | Err _ => True | _ => False end.
Proof.
  induction l as [|x t IH]; intros HG s; cbn [mapM_st]; [apply extends_refl|].
  pose proof (HG x s (or_introl eq_refl)) as Hx. unfold bind. destruct (G x s) as [[y s1]| | |]; try exact Hx; try contradiction.
  assert (HG' : forall x0 s0, In x0 t -> match G x0 s0 with Ok (_, s') => mono s0 s' | Err _ => True | _ => False end).
  { intros x0 s0 Hin. apply HG. right. exact Hin. }
  specialize (IH HG' s1). destruct (mapM_st G t s1) as [[ys s2]| | |]; try exact IH; try contradiction.
  eapply extends_trans; eassumption.
Qed.
