(** Import/Theorems.v — C20 on object graphs: the result of importing a list of roots into an empty document. *)
From PdfV Require Import Base.Prelude Lex.Lexer Syn.Prim Gen.Generated Import.Model Import.Spec Import.ImportProofs.

Definition new_refs (rs : list prim) : list ref :=
  flat_map (fun v => match v with PRef i gn => [(i, gn)] | _ => [] end) rs.

Lemma NoDup_snd_inj {A B} (m : list (A * B)) a b y : NoDup (map snd m) -> In (a, y) m -> In (b, y) m -> a = b.
Proof.
  induction m as [|[k z] t IH]; cbn [map snd]; intros Hnd Ha Hb; [destruct Ha|].
  inversion Hnd as [|? ? Hk Ht]; subst.
  destruct Ha as [Ha|Ha], Hb as [Hb|Hb].
  - inversion Ha; inversion Hb; subst. reflexivity.
  - inversion Ha; subst. exfalso. apply Hk. apply in_map_iff. exists (b, y). split; [reflexivity|exact Hb].
  - inversion Hb; subst. exfalso. apply Hk. apply in_map_iff. exists (a, y). split; [reflexivity|exact Ha].
  - apply IH; assumption.
Qed.

Section Top.
  Variable fetch : fetch_t.
  Variable g : graph.
  Variable fuel : nat.
  Variable roots : list ref.
  Variable rs : list prim.
  Variable s : st.
  Hypothesis Himp : import_roots fetch g fuel roots st0 = Ok (rs, s).

  Let Q := reach g roots.
  Let Qstep : forall r v r2, Q r -> resolve g r = Ok v -> has_ref v r2 -> Q r2 := reach_step g roots.

  Lemma top_inv : wf fetch g Q s /\ pend s [] /\ Forall2 (root_rel (memo s)) roots rs.
  Proof.
    destruct (roots_good fetch g Q Qstep fuel roots st0 rs s [] Himp (wf_st0 fetch g Q) pend_st0) as [W [P [X F]]].
    - intros r Hr. apply reach_root. exact Hr.
    - auto.
  Qed.

  Lemma target_defined r x : lookup (memo s) r = Some x -> exists v, In (fst x, v) (out s) /\ g_find (out s) (fst x) = Some v.
  Proof.
    destruct top_inv as [W [P _]]. intros Hl. apply lookup_In in Hl.
    destruct (pd_done _ _ P r x Hl) as [Hin|[]].
    apply in_map_iff in Hin. destruct Hin as [[i v] [Hi Hin]]. cbn [fst] in Hi. subst i.
    exists v. split; [exact Hin|apply In_g_find; [exact (wf_out_nd _ _ _ _ W)|exact Hin]].
  Qed.

  (** the imported roots are mapped *)
  Theorem import_roots_mapped : Forall2 (root_rel (memo s)) roots rs.
  Proof. exact (proj2 (proj2 top_inv)). Qed.

  (** equality: the object stored for the image of r is r's object with every reference renamed by the memo *)
  Theorem import_equal r x :
    lookup (memo s) r = Some x ->
    exists v v', resolve g r = Ok v /\ g_find (out s) (fst x) = Some v' /\ iso fetch (memo s) v v'.
  Proof.
    destruct top_inv as [W [P _]]. intros Hl.
    destruct (target_defined r x Hl) as [v' [Hin Hf]].
    destruct (wf_out_iso _ _ _ _ W _ _ Hin) as [r0 [v [Hm [Hr Hi]]]].
    pose proof (lookup_In _ _ _ Hl) as Hrx.
    destruct (wf_tgt _ _ _ _ W r x Hrx) as [Hs _].
    assert (Hx : x = (fst x, 0)) by (destruct x; cbn in *; subst; reflexivity).
    rewrite Hx in Hrx.
    pose proof (NoDup_snd_inj _ _ _ _ (wf_inj _ _ _ _ W) Hm Hrx) as He. subst r0.
    exists v, v'. auto.
  Qed.

  (** closure: every reference reachable from the new roots in the new document is defined there *)
  Theorem import_closed r' : reach (out s) (new_refs rs) r' -> exists v, g_find (out s) (fst r') = Some v.
  Proof.
    destruct top_inv as [W [P F]]. intros Hr. induction Hr as [r' Hin|r v r2 Hr IH Hres Hhas].
    - unfold new_refs in Hin. apply in_flat_map in Hin. destruct Hin as [v [Hv Hin]].
      destruct (Forall2_In_r _ _ _ _ F Hv) as [r0 [_ [x [Hl Hx]]]]. subst v. cbn in Hin. destruct Hin as [Hin|[]]. subst r'.
      cbn [fst]. destruct (target_defined _ _ Hl) as [v [_ Hf]]. exists v. exact Hf.
    - unfold resolve in Hres. destruct (g_find (out s) (fst r)) as [v0|] eqn:Ef; [|discriminate]. inversion Hres; subst v0.
      apply g_find_In in Ef. destruct (wf_out_iso _ _ _ _ W _ _ Ef) as [r0 [v0 [_ [_ Hi]]]].
      destruct (iso_refs _ _ _ _ _ Hi Hhas) as [r1 [_ Hl]].
      destruct (target_defined _ _ Hl) as [v1 [_ Hf]]. exists v1. exact Hf.
  Qed.

  (** single copy: the memo is a function and injective; the new objects are exactly the images *)
  Theorem import_once :
    NoDup (map fst (memo s)) /\ NoDup (map snd (memo s)) /\ NoDup (map fst (out s)) /\
    (forall i, In i (map fst (out s)) <-> exists r, lookup (memo s) r = Some (i, 0)).
  Proof.
    destruct top_inv as [W [P _]].
    split; [exact (wf_fun _ _ _ _ W)|]. split; [exact (wf_inj _ _ _ _ W)|]. split; [exact (wf_out_nd _ _ _ _ W)|].
    intros i. split.
    - intros Hin. apply in_map_iff in Hin. destruct Hin as [[i0 v] [Hi Hin]]. cbn [fst] in Hi. subst i0.
      destruct (wf_out_iso _ _ _ _ W _ _ Hin) as [r [v0 [Hm _]]]. exists r. apply In_lookup; [exact (wf_fun _ _ _ _ W)|exact Hm].
    - intros [r Hl]. destruct (target_defined _ _ Hl) as [v [Hin _]]. cbn [fst] in Hin.
      apply in_map_iff. exists (i, v). split; [reflexivity|exact Hin].
  Qed.

  (** pruning: only what the roots reach is copied … *)
  Theorem import_reachable_only r x : lookup (memo s) r = Some x -> reach g roots r.
  Proof.
    destruct top_inv as [W _]. intros Hl. exact (wf_q _ _ _ _ W r x (lookup_In _ _ _ Hl)).
  Qed.

  (** … and everything the roots reach is copied (as far as the source defines it) *)
  Theorem import_reachable_all r : reach g roots r -> exists x, lookup (memo s) r = Some x.
  Proof.
    intros Hr. induction Hr as [r Hin|r v r2 Hr [x Hl] Hres Hhas].
    - destruct (Forall2_In_l _ _ _ _ import_roots_mapped Hin) as [y [_ [x [Hl _]]]]. exists x. exact Hl.
    - destruct (import_equal r x Hl) as [v0 [v' [Hres0 [_ Hi]]]]. rewrite Hres in Hres0. inversion Hres0; subst v0.
      destruct (iso_refs_fwd _ _ _ _ _ Hi Hhas) as [r' [_ Hl2]]. exists r'. exact Hl2.
  Qed.
End Top.

(** ------------------------------------------------------------------------------------------------
    termination and absence of panics *)

Definition ok_or_err {A} (r : res A) : Prop := match r with Ok _ | Err _ => True | _ => False end.

Definition mono (s s' : st) : Prop := extends (memo s) (memo s').

Definition unmemo (s : st) (r : ref) : bool := match lookup (memo s) r with Some _ => false | None => true end.
Definition missL (L : list ref) (s : st) : nat := length (filter (unmemo s) L).

Lemma unmemo_mono s s' r : mono s s' -> unmemo s r = false -> unmemo s' r = false.
Proof.
  unfold unmemo. intros Hm. destruct (lookup (memo s) r) as [x|] eqn:E; [|discriminate]. rewrite (Hm _ _ E). reflexivity.
Qed.

Lemma missL_mono L s s' : mono s s' -> (missL L s' <= missL L s)%nat.
Proof.
  intros Hm. unfold missL. induction L as [|r t IH]; cbn [filter]; [lia|].
  destruct (unmemo s r) eqn:E1, (unmemo s' r) eqn:E2; cbn [length]; try lia.
  rewrite (unmemo_mono _ _ _ Hm E1) in E2. discriminate.
Qed.

Lemma missL_dec L s s' r : mono s s' -> In r L -> lookup (memo s) r = None -> lookup (memo s') r <> None -> (missL L s' < missL L s)%nat.
Proof.
  intros Hm. induction L as [|r0 t IH]; intros Hin Hn Hs; [destruct Hin|].
  pose proof (missL_mono t s s' Hm) as Hle. unfold missL in *. cbn [filter].
  destruct Hin as [->|Hin].
  - assert (E1 : unmemo s r = true) by (unfold unmemo; rewrite Hn; reflexivity).
    assert (E2 : unmemo s' r = false) by (unfold unmemo; destruct (lookup (memo s') r); [reflexivity|contradiction]).
    rewrite E1, E2. cbn [length]. lia.
  - specialize (IH Hin Hn Hs).
    destruct (unmemo s r0) eqn:E1, (unmemo s' r0) eqn:E2; cbn [length]; try lia.
    rewrite (unmemo_mono _ _ _ Hm E1) in E2. discriminate.
Qed.

Definition fine_res {B} (s : st) (r : res (B * st)) : Prop :=
  match r with Ok (_, s') => mono s s' | Err _ => True | _ => False end.

Lemma mapM_fine {A B} (G : A -> st -> res (B * st)) (l : list A) :
  forall s, (forall x s1, In x l -> mono s s1 -> fine_res s1 (G x s1)) -> fine_res s (mapM_st G l s).
Proof.
  induction l as [|x t IH]; intros s HG; cbn [mapM_st]; [apply extends_refl|].
  pose proof (HG x s (or_introl eq_refl) (extends_refl _)) as Hx. unfold bind, fine_res in *.
  destruct (G x s) as [[y s1]| | |]; try exact Hx; try contradiction.
  assert (HG' : forall x0 s2, In x0 t -> mono s1 s2 -> fine_res s2 (G x0 s2)).
  { intros x0 s2 Hin Hm. apply HG; [right; exact Hin|eapply extends_trans; eassumption]. }
  specialize (IH s1 HG'). unfold fine_res in IH. destruct (mapM_st G t s1) as [[ys s2]| | |]; try exact IH; try contradiction.
  eapply extends_trans; eassumption.
Qed.

Lemma depth_in_list x l : In x l -> (depth x <= fold_right (fun x a => Nat.max (depth x) a) O l)%nat.
Proof.
  induction l as [|y t IH]; intros Hin; [destruct Hin|]. cbn [fold_right].
  destruct Hin as [->|Hin]; [lia|specialize (IH Hin); lia].
Qed.
Lemma depth_in_dict (k : bytes) x (d : list (bytes * prim)) :
  In (k, x) d -> (depth x <= fold_right (fun kv a => Nat.max (depth (snd kv)) a) O d)%nat.
Proof.
  induction d as [|y t IH]; intros Hin; [destruct Hin|]. cbn [fold_right].
  destruct Hin as [->|Hin]; [cbn [snd]; lia|specialize (IH Hin); lia].
Qed.

Section Total.
  Variable fetch : fetch_t.
  Variable g : graph.
  Hypothesis fetch_total : forall i gn st ln, ok_or_err (fetch i gn st ln).
  (** the references that can ever be memoised, and the deepest source object *)
  Variable U : list ref.
  Variable D : nat.
  Hypothesis U_closed : forall r v r2, In r U -> resolve g r = Ok v -> has_ref v r2 -> In r2 U.
  Hypothesis D_bound : forall r v, resolve g r = Ok v -> (depth v <= D)%nat.

  Lemma entry_fine F (kv : bytes * prim) s : fine_res s (F (snd kv) s) -> fine_res s (on_entry F kv s).
  Proof.
    unfold on_entry, bind, fine_res. destruct (F (snd kv) s) as [[v s1]| | |]; auto.
  Qed.

  Lemma clone_total fuel : forall v s, (forall r, has_ref v r -> In r U) ->
    (depth v + missL U s * (D + 2) < fuel)%nat -> fine_res s (clone_prim fetch g fuel v s).
  Proof.
    induction fuel as [|f IH]; intros v s0 Hu Hf; [lia|].
    assert (Hent : forall d, (forall k x r, In (k, x) d -> has_ref x r -> In r U) ->
               (fold_right (fun kv a => Nat.max (depth (snd kv)) a) O d + missL U s0 * (D + 2) < f)%nat ->
               fine_res s0 (mapM_st (on_entry (clone_prim fetch g f)) d s0)).
    { intros d Hd Hfd. apply mapM_fine. intros [k x] s1 Hin Hm. apply entry_fine. cbn [snd]. apply IH.
      - intros r Hr. eapply Hd; eassumption.
      - pose proof (depth_in_dict k x d Hin) as Hdx. pose proof (missL_mono U _ _ Hm) as Hms.
        pose proof (Nat.mul_le_mono_r _ _ (D + 2) Hms) as Hmm. lia. }
    destruct v; cbn [clone_prim]; try (unfold fine_res; apply extends_refl).
    - (* PArr *)
      cbn [depth] in Hf.
      assert (Hl : fine_res s0 (mapM_st (clone_prim fetch g f) l s0)).
      { apply mapM_fine. intros x s1 Hin Hm. apply IH.
        - intros r Hr. apply Hu. eapply hr_arr; eassumption.
        - pose proof (depth_in_list x l Hin) as Hdx. pose proof (missL_mono U _ _ Hm) as Hms.
          pose proof (Nat.mul_le_mono_r _ _ (D + 2) Hms) as Hmm. lia. }
      unfold bind, fine_res in *. destruct (mapM_st (clone_prim fetch g f) l s0) as [[l' s1]| | |]; auto.
    - (* PDict *)
      cbn [depth] in Hf.
      assert (Hl := Hent d (fun k x r Hin Hr => Hu r (hr_dict _ _ _ _ Hin Hr)) ltac:(lia)).
      unfold bind, fine_res in *. destruct (mapM_st (on_entry (clone_prim fetch g f)) d s0) as [[d' s1]| | |]; auto.
    - (* PRef *)
      destruct (lookup (memo s0) (id, gen)) as [x|] eqn:El; [unfold fine_res; apply extends_refl|].
      unfold bind. destruct (resolve g (id, gen)) as [obj| | |] eqn:Er; try exact I;
        try (unfold resolve in Er; destruct (g_find g (fst (id, gen))); discriminate).
      set (s1 := mkSt (((id, gen), (next s0, 0)) :: memo s0) (next s0 + 1) (out s0)).
      assert (Hin : In (id, gen) U) by (apply Hu; constructor).
      assert (Hm1 : mono s0 s1).
      { intros r x Hl. cbn [memo s1 lookup]. destruct (ref_eqb (id, gen) r) eqn:E; [|exact Hl].
        apply ref_eqb_eq in E. subst r. rewrite El in Hl. discriminate. }
      assert (Hdec : (missL U s1 < missL U s0)%nat).
      { apply (missL_dec U s0 s1 (id, gen) Hm1 Hin El). cbn [memo s1 lookup]. rewrite ref_eqb_refl. discriminate. }
      assert (Hrec : fine_res s1 (clone_prim fetch g f obj s1)).
      { apply IH.
        - intros r Hr. eapply U_closed; eassumption.
        - pose proof (D_bound _ _ Er) as Hd. cbn [depth] in Hf.
          assert (H1 : (missL U s1 + 1 <= missL U s0)%nat) by lia.
          pose proof (Nat.mul_le_mono_r _ _ (D + 2) H1) as H2. rewrite Nat.mul_add_distr_r, Nat.mul_1_l in H2. lia. }
      unfold fine_res in *. destruct (clone_prim fetch g f obj s1) as [[c s2]| | |]; auto.
      cbn [memo]. eapply extends_trans; eassumption.
    - (* PStream *)
      cbn [depth] in Hf. unfold bind. pose proof (fetch_total id gen start len) as Hft.
      destruct (fetch id gen start len) as [x| | |]; try exact I; try contradiction.
      assert (Hl := Hent d (fun k x0 r Hin Hr => Hu r (hr_stream _ _ _ _ _ _ _ _ Hin Hr)) ltac:(lia)).
      unfold fine_res in *. destruct (mapM_st (on_entry (clone_prim fetch g f)) d s0) as [[d' s1]| | |]; auto.
    - (* PStreamData *)
      cbn [depth] in Hf.
      assert (Hl := Hent d (fun k x0 r Hin Hr => Hu r (hr_sdata _ _ _ _ _ Hin Hr)) ltac:(lia)).
      unfold bind, fine_res in *. destruct (mapM_st (on_entry (clone_prim fetch g f)) d s0) as [[d' s1]| | |]; auto.
  Qed.
End Total.

(** ---- the concrete bound used by the runners: [fuel_for] always suffices *)
Lemma has_ref_refs_of v r : has_ref v r -> In r (refs_of v).
Proof.
  intros H. induction H as [i gn|l x r Hx Hr IH|d k x r Hx Hr IH|d i gn st ln k x r Hx Hr IH|d y k x r Hx Hr IH]; cbn [refs_of].
  - left. reflexivity.
  - apply in_flat_map. exists x. split; assumption.
  - apply in_flat_map. exists (k, x). split; assumption.
  - apply in_flat_map. exists (k, x). split; assumption.
  - apply in_flat_map. exists (k, x). split; assumption.
Qed.

Lemma missL_le L s : (missL L s <= length L)%nat.
Proof. unfold missL. induction L as [|r t IH]; cbn [filter length]; [lia|]. destruct (unmemo s r); cbn [length]; lia. Qed.

Lemma graph_depth_bound g r v : resolve g r = Ok v -> (depth v <= graph_depth g)%nat.
Proof.
  unfold resolve. destruct (g_find g (fst r)) as [v0|] eqn:E; [|discriminate]. intros H. inversion H; subst v0.
  apply g_find_In in E. unfold graph_depth. induction g as [|kv t IH]; [destruct E|]. cbn [fold_right].
  destruct E as [->|E]; [cbn [snd]; lia|specialize (IH E); lia].
Qed.

Lemma graph_refs_closed g r v r2 : resolve g r = Ok v -> has_ref v r2 -> In r2 (graph_refs g).
Proof.
  unfold resolve. destruct (g_find g (fst r)) as [v0|] eqn:E; [|discriminate]. intros H Hr. inversion H; subst v0.
  apply g_find_In in E. unfold graph_refs. apply in_flat_map. exists (fst r, v). split; [exact E|]. cbn [snd].
  apply has_ref_refs_of. exact Hr.
Qed.

Theorem import_total fetch g roots fuel :
  (forall i gn st ln, ok_or_err (fetch i gn st ln)) ->
  (fuel_for g (map (fun r => PRef (fst r) (snd r)) roots) <= fuel)%nat ->
  ok_or_err (import_roots fetch g fuel roots st0).
Proof.
  intros Hft Hfuel.
  set (U := graph_refs g ++ roots). set (D := graph_depth g).
  assert (HU : forall r v r2, In r U -> resolve g r = Ok v -> has_ref v r2 -> In r2 U).
  { intros r v r2 _ Hres Hr. apply in_or_app. left. eapply graph_refs_closed; eassumption. }
  assert (Hfin : fine_res st0 (import_roots fetch g fuel roots st0)).
  { unfold import_roots. apply mapM_fine. intros [i gn] s1 Hin _. cbn [fst snd].
    apply (clone_total fetch g Hft U D HU (graph_depth_bound g)).
    - intros r Hr. inversion Hr; subst. apply in_or_app. right. exact Hin.
    - cbn [depth]. pose proof (missL_le U s1) as Hm. pose proof (Nat.mul_le_mono_r _ _ (D + 2) Hm) as Hmm.
      unfold fuel_for in Hfuel.
      assert (Hlen : length (flat_map refs_of (map (fun r => PRef (fst r) (snd r)) roots)) = length roots).
      { clear. induction roots as [|[a b] t IH]; cbn; [reflexivity|rewrite IH; reflexivity]. }
      rewrite Hlen in Hfuel.
      assert (HU_len : length U = (length (graph_refs g) + length roots)%nat) by (unfold U; apply app_length).
      set (D' := Nat.max (graph_depth g) (fold_right (fun v a => Nat.max (depth v) a) O (map (fun r => PRef (fst r) (snd r)) roots))) in *.
      assert (HD : (D <= D')%nat) by (unfold D, D'; lia).
      assert (H1 : (S (length U) * (D + 2) <= S (length U) * (D' + 2))%nat) by (apply Nat.mul_le_mono_l; lia).
      rewrite <- HU_len in Hfuel. cbn [Nat.mul] in H1. lia. }
  unfold fine_res, ok_or_err in *. destruct (import_roots fetch g fuel roots st0) as [[a b]| | |]; auto.
Qed.

(** ---- the order before the repair (memoise after the recursive call) does not terminate on a cycle *)
Fixpoint clone_old (g : graph) (fuel : nat) (v : prim) (s : st) {struct fuel} : res (prim * st) :=
  match fuel with
  | O => OutOfFuel
  | S f =>
    match v with
    | PRef i gn =>
        match lookup (memo s) (i, gn) with
        | Some r' => Ok (PRef (fst r') (snd r'), s)
        | None =>
            do obj <- resolve g (i, gn);
            do (c, s2) <- clone_old g f obj s;
            let id := next s2 in
            Ok (PRef id 0, mkSt (((i, gn), (id, 0)) :: memo s2) (id + 1) ((id, c) :: out s2))
        end
    | PArr l => do (l', s1) <- mapM_st (clone_old g f) l s; Ok (PArr l', s1)
    | PDict d => do (d', s1) <- mapM_st (on_entry (clone_old g f)) d s; Ok (PDict d', s1)
    | _ => Ok (v, s)
    end
  end.

Definition self_loop : graph := [(1, PDict [([78], PRef 1 0)])].     (* 1 0 obj << /N 1 0 R >> endobj *)

Theorem old_order_refuted : forall fuel, clone_old self_loop fuel (PRef 1 0) st0 = OutOfFuel.
Proof.
  assert (H : forall fuel s, memo s = [] ->
            clone_old self_loop fuel (PRef 1 0) s = OutOfFuel /\
            clone_old self_loop fuel (PDict [([78], PRef 1 0)]) s = OutOfFuel).
  { induction fuel as [|f IH]; intros s Hm; [split; reflexivity|].
    destruct (IH s Hm) as [IH1 IH2]. split.
    - cbn [clone_old]. rewrite Hm. cbn [lookup]. change (resolve self_loop (1, 0)) with (Ok (A := prim) (PDict [([78], PRef 1 0)])).
      cbn [bind]. rewrite IH2. reflexivity.
    - cbn [clone_old]. cbn [mapM_st]. unfold on_entry at 1. cbn [snd fst]. unfold bind at 3. rewrite IH1. reflexivity. }
  intros fuel. apply H. reflexivity.
Qed.

(** … while the repaired order copies the same graph in two steps *)
Example self_loop_imported :
  import_roots (fun _ _ _ _ => Err E_REF) self_loop 5 [(1, 0)] st0
  = Ok ([PRef 1 0], mkSt [((1, 0), (1, 0))] 2 [(1, PDict [([78], PRef 1 0)])]).
Proof. vm_compute. reflexivity. Qed.
