(** Import/Run.v — harness entry points of the importer model.
    import_graph : graph roots              -> new roots, number of new objects, the new objects by number
    import       : graph pages              -> number of pages, per page (resources, tail), number of new objects, objects
    graph  = lines "<number> <canon>\n" (streams with their data: p{dict}hex;)
    roots  = "id,gen;id,gen"
    pages  = lines, each the canon array [ [use…] {cat:{name:value}} {key:value} ], use = [N<op>; N<name>;] | [properties] *)
From PdfV Require Import Base.Prelude Lex.Lexer Syn.Prim Syn.Canon Gen.Generated Import.Model.

Definition field (fs : list bytes) (i : nat) : bytes := nth i fs [].

Fixpoint lines_of (fuel : nat) (l : bytes) : list bytes :=
  match fuel with
  | O => []
  | S f => match l with
           | [] => []
           | _ => let '(a, r) := span_until 10 l in a :: lines_of f r
           end
  end.

Definition no_fetch : fetch_t := fun _ _ _ _ => Err E_REF.

Fixpoint read_graph (ls : list bytes) : res graph :=
  match ls with
  | [] => Ok []
  | ln :: t =>
      let '(a, r) := span_num ln in
      do v <- of_canon (match r with _ :: r' => r' | [] => [] end);
      do g <- read_graph t;
      Ok ((N_of_dec a, v) :: g)
  end.

Fixpoint read_roots (fuel : nat) (l : bytes) : list ref :=
  match fuel with
  | O => []
  | S f => match l with
           | [] => []
           | _ => let '(a, r) := span_until 44 l in
                  let '(b, r2) := span_until 59 r in
                  (N_of_dec a, N_of_dec b) :: read_roots f r2
           end
  end.

Definition ref_text (v : prim) : bytes :=
  match v with PRef i gn => dec_of_N i ++ [44] ++ dec_of_N gn | _ => [63] end.
Fixpoint join (sep : N) (l : list bytes) : bytes :=
  match l with [] => [] | [x] => x | x :: t => x ++ sep :: join sep t end.

(* the new objects in the order of their numbers first_id .. next-1 (an id without object prints as "!") *)
Fixpoint dump_out (o : list (N * prim)) (id : N) (n : nat) : list bytes :=
  match n with
  | O => []
  | S k => (match g_find o id with Some v => canon v | None => [33] end) :: dump_out o (id + 1) k
  end.
Definition dump_state (s : st) : list bytes :=
  let n := N.to_nat (next s - import_first_id) in
  dec_of_N (N.of_nat n) :: dump_out (out s) import_first_id n.

Definition run_import_graph (fs : list bytes) : res (list bytes) :=
  let gt := field fs 0 in
  do g <- read_graph (lines_of (S (length gt)) gt);
  let rt := field fs 1 in
  let roots := read_roots (S (length rt)) rt in
  let vs := map (fun r => PRef (fst r) (snd r)) roots in
  do (rs, s) <- import_roots no_fetch g (fuel_for g vs) roots st0;
  Ok (join 59 (map ref_text rs) :: dump_state s).

(* ---- pages *)
Definition E_PAGE : N := 98.
Definition name_of (v : prim) : bytes := match v with PName s => s | _ => [] end.
Definition use_of (v : prim) : res use :=
  match v with
  | PArr [PName op; PName nm] => Ok (UName op nm)
  | PArr [p] => Ok (UProps p)
  | _ => Err E_PAGE
  end.
Fixpoint uses_of (l : list prim) : res (list use) :=
  match l with [] => Ok [] | x :: t => do u <- use_of x; do us <- uses_of t; Ok (u :: us) end.
Definition res_of (d : dict) : res_t :=
  map (fun kv => (fst kv, match snd kv with PDict x => x | _ => [] end)) d.
(* the entries cloned after the operations, in the order of the struct literal of clone_page
   ([import_page_fields]; "*other" stands for every entry that is not one of the named ones) *)
Definition OTHER : bytes := [42; 111; 116; 104; 101; 114].
Definition named_fields : list bytes := filter (fun k => negb (bytes_eqb k OTHER)) import_page_fields.
Definition is_named (k : bytes) : bool := existsb (bytes_eqb k) named_fields.
Definition order_tail (tl : dict) : dict :=
  flat_map (fun f => if bytes_eqb f OTHER then filter (fun kv => negb (is_named (fst kv))) tl
                     else match dict_get f tl with Some v => [(f, v)] | None => [] end) import_page_fields.
Definition page_of (v : prim) : res page :=
  match v with
  | PArr [PArr us; PDict r; PDict tl] => do u <- uses_of us; Ok (mkPage u (res_of r) (order_tail tl))
  | _ => Err E_PAGE
  end.
Fixpoint read_pages (ls : list bytes) : res (list page) :=
  match ls with
  | [] => Ok []
  | ln :: t => do v <- of_canon ln; do p <- page_of v; do ps <- read_pages t; Ok (p :: ps)
  end.

Definition page_values (p : page) : list prim :=
  flat_map (fun u => match u with UProps v => [v] | _ => [] end) (pg_uses p)
  ++ flat_map (fun cd => map snd (snd cd)) (pg_res p) ++ map snd (pg_tail p).

Definition canon_res (r : res_t) : bytes := canon (PDict (map (fun cd => (fst cd, PDict (snd cd))) r)).
Fixpoint dump_pages (ps : list page_out) : list bytes :=
  match ps with [] => [] | p :: t => canon_res (po_res p) :: canon (PDict (po_tail p)) :: dump_pages t end.

Definition run_import (fs : list bytes) : res (list bytes) :=
  let gt := field fs 0 in
  do g <- read_graph (lines_of (S (length gt)) gt);
  let pt := field fs 1 in
  do ps <- read_pages (lines_of (S (length pt)) pt);
  let vs := flat_map page_values ps in
  (* one deref hop per resource value may precede the clone: the bound counts every object once more *)
  do (os, s) <- import_pages no_fetch g (fuel_for g vs + fuel_for g vs) ps st0;
  Ok (dec_of_N (lenN os) :: dump_pages os ++ dump_state s).
