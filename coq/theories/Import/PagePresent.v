(** Import/PagePresent.v — C20 clause (c) for a whole page: every resource that an operation of the page names, in a
    category the code's table handles, and that the page's (inherited) resources define, is present in the resources of
    the imported page under the same name, and is a copy ([iso]) of the source's value; nothing else is there. *)
From PdfV Require Import Base.Prelude Lex.Lexer Syn.Prim Gen.Generated
     Import.Model Import.Spec Import.ImportProofs Import.PageProofs.
From PdfV Require Import Syn.ParserProofs.

Lemma cat_get_set_same r c d : cat_get (cat_set r c d) c = d.
Proof.
  induction r as [|[c0 d0] t IH]; cbn [cat_set cat_get]; [rewrite bytes_eqb_refl; reflexivity|].
  destruct (bytes_eqb c0 c) eqn:E; cbn [cat_get]; rewrite E; [reflexivity|exact IH].
Qed.

Lemma cat_get_set_other r c d c' : c' <> c -> cat_get (cat_set r c d) c' = cat_get r c'.
Proof.
  intros Hne. induction r as [|[c0 d0] t IH]; cbn [cat_set cat_get].
  - rewrite bytes_eqb_neq; [reflexivity|]. intros E. apply Hne. symmetry. exact E.
  - destruct (bytes_eqb c0 c) eqn:E; cbn [cat_get].
    + apply bytes_eqb_eq in E. subst c0. rewrite bytes_eqb_neq; [reflexivity|]. intros E. apply Hne. symmetry. exact E.
    + destruct (bytes_eqb c0 c'); [reflexivity|exact IH].
Qed.

Lemma dict_get_app k (d : dict) n v :
  dict_get k (d ++ [(n, v)]) = match dict_get k d with Some x => Some x | None => if bytes_eqb k n then Some v else None end.
Proof.
  induction d as [|[k0 x0] t IH]; cbn [app dict_get]; [reflexivity|].
  destruct (bytes_eqb k k0); [reflexivity|exact IH].
Qed.

Section Present.
  Variable fetch : fetch_t.
  Variable g : graph.
  Let Q : ref -> Prop := fun _ => True.
  Notation wf := (wf fetch g Q).

  (** everything in the new resources is the copy of the page's entry of that name *)
  Definition res_ok (old new : res_t) (s : st) : Prop :=
    forall cat name v', dict_get name (cat_get new cat) = Some v' ->
      exists v v0, dict_get name (cat_get old cat) = Some v /\ src_value g cat v v0 /\ iso fetch (memo s) v0 v'.

  Definition has (r : res_t) (cat name : bytes) : Prop := dict_get name (cat_get r cat) <> None.

  Lemma res_ok_mono old new s s' : ext s s' -> res_ok old new s -> res_ok old new s'.
  Proof.
    intros X H cat name v' Hg. destruct (H cat name v' Hg) as [v [v0 [A [B C]]]]. exists v, v0. split; [exact A|]. split; [exact B|].
    eapply iso_mono; [exact (ex_memo _ _ X)|exact C].
  Qed.

  Lemma clone_use_present fuel old u new s new' s' P :
    clone_use fetch g fuel old u (new, s) = Ok (new', s') -> wf s -> pend s P -> res_ok old new s ->
    wf s' /\ pend s' P /\ ext s s' /\ res_ok old new' s' /\
    (forall cat name, has new cat name -> has new' cat name) /\
    (forall op name cat v, u = UName op name -> cat_of_op op = Some cat -> dict_get name (cat_get old cat) = Some v -> has new' cat name).
  Proof.
    intros H W Pd Ok0. destruct (clone_use_spec fetch g fuel old u new s new' s' P H W Pd) as [W' [Pd' [X Sp]]].
    split; [exact W'|]. split; [exact Pd'|]. split; [exact X|].
    destruct u as [op name|p].
    - destruct (cat_of_op op) as [cat|] eqn:Ec.
      + destruct (dict_get name (cat_get new cat)) as [y|] eqn:En.
        * subst new'. split; [eapply res_ok_mono; eassumption|]. split; [auto|].
          intros op0 name0 cat0 v E Ec0 Ho. inversion E; subst op0 name0. rewrite Ec in Ec0. inversion Ec0; subst cat0.
          unfold has. rewrite En. discriminate.
        * destruct (dict_get name (cat_get old cat)) as [v|] eqn:Eo.
          -- destruct Sp as [v0 [v' [Hs [Hi Hn]]]]. subst new'. split; [|split].
             ++ intros cat1 name1 v1 Hg. destruct (list_eq_dec N.eq_dec cat1 cat) as [->|Hne].
                ** rewrite cat_get_set_same, dict_get_app in Hg.
                   destruct (dict_get name1 (cat_get new cat)) as [y|] eqn:E1.
                   --- inversion Hg; subst y. destruct (Ok0 cat name1 v1 E1) as [a [b [A [B C]]]]. exists a, b.
                       split; [exact A|]. split; [exact B|]. eapply iso_mono; [exact (ex_memo _ _ X)|exact C].
                   --- destruct (bytes_eqb name1 name) eqn:E2; [|discriminate]. apply bytes_eqb_eq in E2. subst name1.
                       inversion Hg; subst v1. exists v, v0. split; [exact Eo|]. split; [exact Hs|exact Hi].
                ** rewrite cat_get_set_other in Hg by exact Hne. destruct (Ok0 cat1 name1 v1 Hg) as [a [b [A [B C]]]]. exists a, b.
                   split; [exact A|]. split; [exact B|]. eapply iso_mono; [exact (ex_memo _ _ X)|exact C].
             ++ intros cat1 name1 Hh. unfold has in *. destruct (list_eq_dec N.eq_dec cat1 cat) as [->|Hne].
                ** rewrite cat_get_set_same, dict_get_app. destruct (dict_get name1 (cat_get new cat)); [discriminate|contradiction].
                ** rewrite cat_get_set_other by exact Hne. exact Hh.
             ++ intros op0 name0 cat0 v1 E Ec0 Ho. inversion E; subst op0 name0. rewrite Ec in Ec0. inversion Ec0; subst cat0.
                unfold has. rewrite cat_get_set_same, dict_get_app, En, bytes_eqb_refl. discriminate.
          -- subst new'. split; [eapply res_ok_mono; eassumption|]. split; [auto|].
             intros op0 name0 cat0 v E Ec0 Ho. inversion E; subst op0 name0. rewrite Ec in Ec0. inversion Ec0; subst cat0.
             rewrite Eo in Ho. discriminate.
      + subst new'. split; [eapply res_ok_mono; eassumption|]. split; [auto|].
        intros op0 name0 cat0 v E Ec0 Ho. inversion E; subst op0 name0. rewrite Ec in Ec0. discriminate.
    - subst new'. split; [eapply res_ok_mono; eassumption|]. split; [auto|]. intros op0 name0 cat0 v E. discriminate.
  Qed.

  Lemma clone_uses_present fuel old us : forall new s new' s' P,
    clone_uses fetch g fuel old us (new, s) = Ok (new', s') -> wf s -> pend s P -> res_ok old new s ->
    wf s' /\ pend s' P /\ ext s s' /\ res_ok old new' s' /\
    (forall cat name, has new cat name -> has new' cat name) /\
    (forall op name cat v, In (UName op name) us -> cat_of_op op = Some cat -> dict_get name (cat_get old cat) = Some v -> has new' cat name).
  Proof.
    induction us as [|u t IH]; intros new s new' s' P H W Pd Ok0; cbn [clone_uses] in H.
    - inversion H; subst. split; [exact W|]. split; [exact Pd|]. split; [apply ext_refl|]. split; [exact Ok0|]. split; [auto|].
      intros op name cat v [].
    - unfold bind in H. destruct (clone_use fetch g fuel old u (new, s)) as [[n1 s1]| | |] eqn:E; try discriminate.
      destruct (clone_use_present _ _ _ _ _ _ _ P E W Pd Ok0) as [W1 [P1 [X1 [O1 [M1 A1]]]]].
      destruct (IH _ _ _ _ P H W1 P1 O1) as [W2 [P2 [X2 [O2 [M2 A2]]]]].
      split; [exact W2|]. split; [exact P2|]. split; [eapply ext_trans; eassumption|]. split; [exact O2|]. split; [auto|].
      intros op name cat v [Hu|Hin] Hc Ho.
      + apply M2. eapply A1; [exact Hu|exact Hc|exact Ho].
      + eapply A2; eassumption.
  Qed.

  (** clause (c) for a page *)
  Theorem clone_page_present fuel p s po s' P :
    clone_page fetch g fuel p s = Ok (po, s') -> wf s -> pend s P ->
    (* every resource an operation names (category of the code's table) and the page defines is there, as a copy *)
    (forall op name cat v, In (UName op name) (pg_uses p) -> cat_of_op op = Some cat ->
       dict_get name (cat_get (pg_res p) cat) = Some v ->
       exists v0 v', src_value g cat v v0 /\ dict_get name (cat_get (po_res po) cat) = Some v' /\ iso fetch (memo s') v0 v') /\
    (* and every resource of the new page is the copy of the page's resource of that name *)
    (forall cat name v', dict_get name (cat_get (po_res po) cat) = Some v' ->
       exists v v0, dict_get name (cat_get (pg_res p) cat) = Some v /\ src_value g cat v v0 /\ iso fetch (memo s') v0 v').
  Proof.
    unfold clone_page. intros H W Pd. unfold bind in H.
    destruct (clone_uses fetch g fuel (pg_res p) (pg_uses p) ([], s)) as [[new s1]| | |] eqn:E1; try discriminate.
    destruct (mapM_st (on_entry (clone_prim fetch g fuel)) (pg_tail p) s1) as [[tl s2]| | |] eqn:E2; try discriminate.
    inversion H; subst. cbn [po_res].
    assert (Ok0 : res_ok (pg_res p) [] s) by (intros cat name v' Hg; cbn [cat_get dict_get] in Hg; discriminate).
    destruct (clone_uses_present _ _ _ _ _ _ _ P E1 W Pd Ok0) as [W1 [P1 [X1 [O1 [_ A1]]]]].
    destruct (entries_good fetch g Q (clone_prim fetch g fuel) (pg_tail p)
                (fun kv _ => clone_good fetch g Q (fun _ _ _ _ _ _ => I) fuel (snd kv)) _ _ _ P E2 W1 P1 (fun _ _ _ _ _ => I)) as [W2 [P2 [X2 _]]].
    pose proof (res_ok_mono _ _ _ _ X2 O1) as O2. split.
    - intros op name cat v Hin Hc Ho. pose proof (A1 op name cat v Hin Hc Ho) as Hh. unfold has in Hh.
      destruct (dict_get name (cat_get new cat)) as [v'|] eqn:En; [|contradiction].
      destruct (O2 cat name v' En) as [a [b [A [B C]]]]. rewrite Ho in A. inversion A; subst a. exists b, v'. auto.
    - exact O2.
  Qed.
End Present.
