(** Import/Spec.v — the specification objects of C20, written from ISO 32000-1 §7.3.10 (an indirect reference
    stands for the object it names) and not from the code:
      [has_ref v r]     the reference r occurs in the value v
      [reach g roots r] r is reachable from the roots in the document g
      [iso fetch m v v'] v' is v with every reference renamed by the map m, every stream carrying its bytes
    A copy of a sub-graph is *equal and self-contained* when it is [iso] to the original under a functional,
    injective reference map and every reference of the copy is defined in the copy. *)
From PdfV Require Import Base.Prelude Lex.Lexer Syn.Prim Import.Model.

Inductive has_ref : prim -> ref -> Prop :=
| hr_ref i gn : has_ref (PRef i gn) (i, gn)
| hr_arr l x r : In x l -> has_ref x r -> has_ref (PArr l) r
| hr_dict d k x r : In (k, x) d -> has_ref x r -> has_ref (PDict d) r
| hr_stream d i gn st ln k x r : In (k, x) d -> has_ref x r -> has_ref (PStream d i gn st ln) r
| hr_sdata d y k x r : In (k, x) d -> has_ref x r -> has_ref (PStreamData d y) r.

Inductive reach (g : graph) (roots : list ref) : ref -> Prop :=
| reach_root r : In r roots -> reach g roots r
| reach_step r v r2 : reach g roots r -> resolve g r = Ok v -> has_ref v r2 -> reach g roots r2.

Section Iso.
  Variable fetch : fetch_t.
  Variable m : memo_t.

  Inductive iso : prim -> prim -> Prop :=
  | iso_null : iso PNull PNull
  | iso_int z : iso (PInt z) (PInt z)
  | iso_real t : iso (PReal t) (PReal t)
  | iso_num e t : iso (PNum e t) (PNum e t)
  | iso_bool b : iso (PBool b) (PBool b)
  | iso_str s : iso (PStr s) (PStr s)
  | iso_name s : iso (PName s) (PName s)
  | iso_arr l l' : Forall2 iso l l' -> iso (PArr l) (PArr l')
  | iso_dict d d' : Forall2 (fun a b => fst a = fst b /\ iso (snd a) (snd b)) d d' -> iso (PDict d) (PDict d')
  | iso_ref i gn x : lookup m (i, gn) = Some x -> iso (PRef i gn) (PRef (fst x) (snd x))
  | iso_stream d i gn st ln d' x :
      fetch i gn st ln = Ok x ->
      Forall2 (fun a b => fst a = fst b /\ iso (snd a) (snd b)) d d' -> iso (PStream d i gn st ln) (PStreamData d' x)
  | iso_sdata d d' x :
      Forall2 (fun a b => fst a = fst b /\ iso (snd a) (snd b)) d d' -> iso (PStreamData d x) (PStreamData d' x).
End Iso.

(** the importer's memo as a partial function *)
Definition extends (m m' : memo_t) : Prop := forall r x, lookup m r = Some x -> lookup m' r = Some x.

Lemma iso_mono fetch m m' : extends m m' -> forall v v', iso fetch m v v' -> iso fetch m' v v'.
Proof.
  intros Hm. fix IH 3. intros v v' H. destruct H.
  - constructor. - constructor. - constructor. - constructor. - constructor. - constructor. - constructor.
  - constructor. induction H as [|a b l l' Hab Hl IHl]; constructor; [apply IH; exact Hab|exact IHl].
  - constructor. induction H as [|a b l l' Hab Hl IHl]; constructor; [|exact IHl].
    destruct Hab as [Hk Hv]. split; [exact Hk|apply IH; exact Hv].
  - constructor. apply Hm. exact H.
  - constructor; [exact H|].
    induction H0 as [|a b l l' Hab Hl IHl]; constructor; [|exact IHl].
    destruct Hab as [Hk Hv]. split; [exact Hk|apply IH; exact Hv].
  - constructor. induction H as [|a b l l' Hab Hl IHl]; constructor; [|exact IHl].
    destruct Hab as [Hk Hv]. split; [exact Hk|apply IH; exact Hv].
Qed.

Lemma Forall2_In_r {A B} (R : A -> B -> Prop) l l' y : Forall2 R l l' -> In y l' -> exists x, In x l /\ R x y.
Proof.
  intros H. induction H as [|a b l l' Hab Hl IH]; intros Hy; [destruct Hy|].
  destruct Hy as [->|Hy]; [exists a; split; [left; reflexivity|exact Hab]|].
  destruct (IH Hy) as [x [Hx Hr]]. exists x. split; [right; exact Hx|exact Hr].
Qed.

Lemma Forall2_In_l {A B} (R : A -> B -> Prop) l l' x : Forall2 R l l' -> In x l -> exists y, In y l' /\ R x y.
Proof.
  intros H. induction H as [|a b l l' Hab Hl IH]; intros Hx; [destruct Hx|].
  destruct Hx as [->|Hx]; [exists b; split; [left; reflexivity|exact Hab]|].
  destruct (IH Hx) as [y [Hy Hr]]. exists y. split; [right; exact Hy|exact Hr].
Qed.

(** every reference of a copy is the image of a reference of the original *)
Lemma iso_refs fetch m v v' r' : iso fetch m v v' -> has_ref v' r' -> exists r, has_ref v r /\ lookup m r = Some r'.
Proof.
  intros H Hr. revert v H. induction Hr as [i gn|l x r Hx Hr IH|d k x r Hx Hr IH|d i gn st ln k x r Hx Hr IH|d y k x r Hx Hr IH];
    intros v H; inversion H; subst.
  - match goal with Hl : lookup _ _ = Some ?x |- _ => destruct x as [a b]; cbn in *; subst;
      eexists; split; [constructor|exact Hl] end.
  - match goal with Hf : Forall2 _ _ _ |- _ => destruct (Forall2_In_r _ _ _ _ Hf Hx) as [x0 [Hx0 Hi]] end.
    destruct (IH _ Hi) as [r0 [Hr0 Hl]]. exists r0. split; [eapply hr_arr; eassumption|exact Hl].
  - match goal with Hf : Forall2 _ _ _ |- _ => destruct (Forall2_In_r _ _ _ _ Hf Hx) as [[k0 x0] [Hx0 [Hk Hi]]] end.
    cbn in *. destruct (IH _ Hi) as [r0 [Hr0 Hl]]. exists r0. split; [eapply hr_dict; eassumption|exact Hl].
  - match goal with Hf : Forall2 _ _ _ |- _ => destruct (Forall2_In_r _ _ _ _ Hf Hx) as [[k0 x0] [Hx0 [Hk Hi]]] end.
    cbn in *. destruct (IH _ Hi) as [r0 [Hr0 Hl]]. exists r0. split; [eapply hr_stream; eassumption|exact Hl].
  - match goal with Hf : Forall2 _ _ _ |- _ => destruct (Forall2_In_r _ _ _ _ Hf Hx) as [[k0 x0] [Hx0 [Hk Hi]]] end.
    cbn in *. destruct (IH _ Hi) as [r0 [Hr0 Hl]]. exists r0. split; [eapply hr_sdata; eassumption|exact Hl].
Qed.

(** … and every reference of the original has an image (the copy loses none) *)
Lemma iso_refs_fwd fetch m v v' r : iso fetch m v v' -> has_ref v r -> exists r', has_ref v' r' /\ lookup m r = Some r'.
Proof.
  intros H Hr. revert v' H. induction Hr as [i gn|l x r Hx Hr IH|d k x r Hx Hr IH|d i gn st ln k x r Hx Hr IH|d y k x r Hx Hr IH];
    intros v' H; inversion H; subst.
  - match goal with Hl : lookup _ _ = Some ?x |- _ => exists x; split; [destruct x; constructor|exact Hl] end.
  - match goal with Hf : Forall2 _ _ _ |- _ => destruct (Forall2_In_l _ _ _ _ Hf Hx) as [y0 [Hy0 Hi]] end.
    destruct (IH _ Hi) as [r0 [Hr0 Hl]]. exists r0. split; [eapply hr_arr; eassumption|exact Hl].
  - match goal with Hf : Forall2 _ _ _ |- _ => destruct (Forall2_In_l _ _ _ _ Hf Hx) as [[k0 y0] [Hy0 [Hk Hi]]] end.
    cbn in *. destruct (IH _ Hi) as [r0 [Hr0 Hl]]. exists r0. split; [eapply hr_dict; eassumption|exact Hl].
  - match goal with Hf : Forall2 _ _ _ |- _ => destruct (Forall2_In_l _ _ _ _ Hf Hx) as [[k0 y0] [Hy0 [Hk Hi]]] end.
    cbn in *. destruct (IH _ Hi) as [r0 [Hr0 Hl]]. exists r0. split; [eapply hr_sdata; eassumption|exact Hl].
  - match goal with Hf : Forall2 _ _ _ |- _ => destruct (Forall2_In_l _ _ _ _ Hf Hx) as [[k0 y0] [Hy0 [Hk Hi]]] end.
    cbn in *. destruct (IH _ Hi) as [r0 [Hr0 Hl]]. exists r0. split; [eapply hr_sdata; eassumption|exact Hl].
Qed.
