(** ObjStm/Proofs.v — C11: the member slice of an object stream is exactly the member's own text, and parsing it gives the
    value that the same text gives as an ordinary indirect object. *)
From PdfV Require Import Base.Prelude Gen.Generated Lex.Lexer Lex.LexProofs Syn.Prim Syn.Parser Syn.Spells Syn.ParserProofs Syn.RenderProofs ObjStm.Model.

(* byte offsets of consecutive member texts, relative to /First *)
Fixpoint offs_of (texts : list bytes) (o : N) : list N :=
  match texts with [] => [] | t :: r => o :: offs_of r (o + lenN t) end.

Lemma offs_of_length texts o : length (offs_of texts o) = length texts.
Proof. revert o. induction texts as [|t r IH]; intros o; cbn [offs_of length]; [reflexivity|]. rewrite IH. reflexivity. Qed.

Lemma nth_offs texts : forall o i t, nth_error texts i = Some t ->
  exists pre, nth_error (offs_of texts o) i = Some (o + lenN (concat pre)) /\ pre = firstn i texts.
Proof.
  induction texts as [|t0 r IH]; intros o i t H; [destruct i; discriminate|].
  destruct i as [|i]; cbn [nth_error offs_of firstn] in *.
  - exists []. split; [|reflexivity]. cbn [concat]. change (lenN (@nil N)) with 0. f_equal. lia.
  - destruct (IH (o + lenN t0) i t H) as (pre & Hn & Hp). exists (t0 :: pre). split; [|rewrite Hp; reflexivity].
    rewrite Hn. cbn [concat]. rewrite lenN_app. f_equal. lia.
Qed.

Lemma concat_split {A} (l : list (list A)) i t : nth_error l i = Some t ->
  concat l = concat (firstn i l) ++ t ++ concat (skipn (S i) l).
Proof.
  revert i. induction l as [|x l IH]; intros i H; [destruct i; discriminate|].
  destruct i as [|i]; cbn [nth_error firstn skipn concat app] in *.
  - inversion H; subst. reflexivity.
  - rewrite (IH i H). rewrite <- app_assoc. reflexivity.
Qed.

Lemma concat_firstn_S {A} (l : list (list A)) : forall i t, nth_error l i = Some t ->
  concat (firstn (S i) l) = concat (firstn i l) ++ t.
Proof.
  induction l as [|x l IH]; intros i t H; [destruct i; discriminate|].
  destruct i as [|i]; cbn [nth_error] in H.
  - inversion H; subst. cbn [firstn concat app]. apply app_nil_r.
  - change (firstn (S (S i)) (x :: l)) with (x :: firstn (S i) l). change (firstn (S i) (x :: l)) with (x :: firstn i l).
    cbn [concat]. rewrite (IH i t H). apply app_assoc.
Qed.

Lemma take_drop_mid (a m b : bytes) : take (lenN m) (drop (lenN a) (a ++ m ++ b)) = m.
Proof.
  rewrite drop_app_exact. unfold take, lenN. rewrite Nat2N.id. rewrite firstn_app, Nat.sub_diag, firstn_all.
  cbn [firstn]. apply app_nil_r.
Qed.

Lemma nthN_nth {A} (l : list A) (i : nat) : nthN l (N.of_nat i) = nth_error l i.
Proof. unfold nthN. rewrite Nat2N.id. reflexivity. Qed.

(** the slice computed for member [i] is the member's text (all arithmetic within usize) *)
Theorem member_slice head texts i t :
  nth_error texts i = Some t ->
  lenN (head ++ concat texts) < USIZE ->
  let data := head ++ concat texts in
  exists st en, object_slice (lenN head) (offs_of texts 0) (lenN data) (N.of_nat i) = Ok (st, en) /\
    st <= en /\ en <= lenN data /\ take (en - st) (drop st data) = t.
Proof.
  intros Hn Hlen data. subst data.
  destruct (nth_offs texts 0 i t Hn) as (pre & Ho & Hpre).
  pose proof (concat_split texts i t Hn) as Hsplit. change (firstn i texts) with (firstn i (texts : list bytes)) in Hsplit.
  assert (Hsplit' : concat texts = concat pre ++ t ++ concat (skipn (S i) texts)) by (rewrite Hpre; exact Hsplit).
  clear Hsplit. rename Hsplit' into Hsplit.
  set (post := concat (skipn (S i) texts)) in *.
  assert (Hdata : head ++ concat texts = (head ++ concat pre) ++ t ++ post).
  { rewrite Hsplit. rewrite <- app_assoc. reflexivity. }
  assert (Hl : lenN (head ++ concat texts) = lenN head + lenN (concat pre) + lenN t + lenN post).
  { rewrite Hdata. rewrite !lenN_app. lia. }
  rewrite Hl in Hlen.
  unfold object_slice. rewrite nthN_nth, Ho.
  assert (USIZE <=? lenN head + (0 + lenN (concat pre)) = false) as -> by (apply N.leb_gt; lia).
  assert (Hlen_offs : lenN (offs_of texts 0) = N.of_nat (length texts)) by (unfold lenN; rewrite offs_of_length; reflexivity).
  destruct (Nat.eq_dec (S i) (length texts)) as [Elast|Nlast].
  - (* the last member: up to the end of the data *)
    assert (N.of_nat i + 1 =? lenN (offs_of texts 0) = true) as -> by (apply N.eqb_eq; rewrite Hlen_offs; lia).
    assert (Hpost : post = []).
    { unfold post. rewrite skipn_all2 by lia. reflexivity. }
    exists (lenN head + (0 + lenN (concat pre))), (lenN (head ++ concat texts)).
    split; [reflexivity|]. rewrite Hl. rewrite Hpost in *. change (lenN (@nil N)) with 0 in *.
    split; [lia|]. split; [lia|].
    replace (lenN head + lenN (concat pre) + lenN t + 0 - (lenN head + (0 + lenN (concat pre)))) with (lenN t) by lia.
    replace (lenN head + (0 + lenN (concat pre))) with (lenN (head ++ concat pre)) by (rewrite lenN_app; lia).
    rewrite Hdata. apply take_drop_mid.
  - (* a member followed by another one *)
    assert (Hi : (S i < length texts)%nat).
    { assert (i < length texts)%nat by (apply nth_error_Some; rewrite Hn; discriminate). lia. }
    assert (N.of_nat i + 1 =? lenN (offs_of texts 0) = false) as -> by (apply N.eqb_neq; rewrite Hlen_offs; lia).
    destruct (nth_error texts (S i)) as [t2|] eqn:En2; [|apply nth_error_None in En2; lia].
    destruct (nth_offs texts 0 (S i) t2 En2) as (pre2 & Ho2 & Hpre2).
    replace (N.of_nat i + 1) with (N.of_nat (S i)) by lia. rewrite nthN_nth, Ho2.
    assert (Hpre2' : concat pre2 = concat pre ++ t).
    { rewrite Hpre2, Hpre. apply concat_firstn_S. exact Hn. }
    assert (Hl2 : lenN (concat pre2) = lenN (concat pre) + lenN t) by (rewrite Hpre2', lenN_app; reflexivity).
    assert (USIZE <=? lenN head + (0 + lenN (concat pre2)) = false) as -> by (apply N.leb_gt; lia).
    exists (lenN head + (0 + lenN (concat pre))), (lenN head + (0 + lenN (concat pre2))).
    split; [reflexivity|]. rewrite Hl. split; [lia|]. split; [lia|].
    replace (lenN head + (0 + lenN (concat pre2)) - (lenN head + (0 + lenN (concat pre)))) with (lenN t) by lia.
    replace (lenN head + (0 + lenN (concat pre))) with (lenN (head ++ concat pre)) by (rewrite lenN_app; lia).
    rewrite Hdata. apply take_drop_mid.
Qed.

(* ---- white-space after a member is harmless *)
Lemma skip_while_ws tl p : Forall (fun b => is_ws b = true) tl -> skip_while is_ws p tl = (p + lenN tl, []).
Proof.
  intros H. revert p. induction H as [|b tl Hb Ht IH]; intros p; cbn [skip_while].
  - change (lenN (@nil N)) with 0. f_equal. lia.
  - rewrite Hb, IH. f_equal. rewrite lenN_cons. lia.
Qed.

Lemma next_ws_tail tl p : Forall (fun b => is_ws b = true) tl -> next (mkLx p tl) = Err E_EOF.
Proof.
  intros H. unfold next, next_word. cbn [lrest]. destruct tl as [|b tl']; [reflexivity|].
  unfold skip_ws. cbn [lpos lrest]. rewrite (skip_while_ws _ _ H). reflexivity.
Qed.

Lemma follow_ws_tail tl p : Forall (fun b => is_ws b = true) tl ->
  follow_ok [] (mkLx p tl) /\ nostream_at [] (mkLx p tl).
Proof.
  intros H. split.
  - cbn. intros t s' E. rewrite (next_ws_tail _ _ H) in E. discriminate.
  - cbn. exists []. split; [|reflexivity]. unfold peek.
    pose proof (next_ws_tail _ p H) as E. unfold next in E.
    destruct (next_word (mkLx p tl)) as [[[t q] s']|e| |]; cbn [bind] in E; try discriminate.
    inversion E; subst. reflexivity.
Qed.

(** C11, compressed side: member [i], spelled in any conforming way and followed by any white-space (or nothing),
    resolves to the value it denotes *)
Theorem member_resolves R head texts i v its body ws_tail n :
  header_offsets n (mkLx 0 (head ++ concat texts)) = Ok (offs_of texts 0) ->
  nth_error texts i = Some (body ++ ws_tail) ->
  spells v its -> vdepth v <= MAX_DEPTH -> renders its (body ++ ws_tail) ws_tail ->
  Forall (fun b => is_ws b = true) ws_tail ->
  lenN (head ++ concat texts) < USIZE ->
  resolve_member R F_ANY (lenN head) (N.of_nat n) (head ++ concat texts) (N.of_nat i) = Ok v.
Proof.
  intros Hh Hn Hs Hd Hr Hws Hlen. unfold resolve_member. rewrite Nat2N.id, Hh. cbn [bind].
  destruct (member_slice head texts i _ Hn Hlen) as (st & en & Hsl & H1 & H2 & Ht).
  rewrite Hsl. cbn [bind]. apply N.leb_le in H1. apply N.leb_le in H2. rewrite H1, H2. cbn [andb].
  rewrite Ht. unfold parse.
  destruct (follow_ws_tail ws_tail (lenN body) Hws) as [HF HN].
  rewrite (parse_rendered v its (body ++ ws_tail) ws_tail R None 0 Hs Hd Hr (lenN body)
             ltac:(rewrite lenN_app; lia) HF HN).
  reflexivity.
Qed.

(** the header: N pairs `object-number offset`, lexed as words *)
Fixpoint header_items (pairs : list (bytes * bytes)) : list item :=
  match pairs with [] => [] | (a, b) :: r => IWord a :: IWord b :: header_items r end.

Theorem header_offsets_ok pairs offs : 
  Forall2 (fun p o => (exists n, parse_u64 (fst p) = Ok n) /\ parse_u64 (snd p) = Ok o) pairs offs ->
  forall s k s_end, Lexes s (header_items pairs ++ k) s_end ->
  header_offsets (length pairs) s = Ok offs.
Proof.
  induction 1 as [|[a b] o pairs offs [[n Ha] Hb] Hrest IH]; intros s k s_end HL; [reflexivity|].
  cbn [header_items app length header_offsets fst snd] in *.
  destruct (Lexes_word_inv _ _ _ _ HL) as [s1 [E1 HL1]].
  destruct (Lexes_word_inv _ _ _ _ HL1) as [s2 [E2 HL2]].
  rewrite E1. cbn [bind]. rewrite Ha. cbn [bind]. rewrite E2. cbn [bind]. rewrite Hb. cbn [bind].
  rewrite (IH s2 k s_end HL2). reflexivity.
Qed.

(** no arithmetic of the slice computation can panic, whatever the header says *)
Theorem object_slice_no_panic first offsets datalen index : forall site,
  object_slice first offsets datalen index <> Panic site.
Proof.
  intros site. unfold object_slice.
  destruct (nthN offsets index); [|discriminate].
  destruct (USIZE <=? first + n); [discriminate|].
  destruct (index + 1 =? lenN offsets); [discriminate|].
  destruct (nthN offsets (index + 1)); [|discriminate].
  destruct (USIZE <=? first + n0); discriminate.
Qed.
