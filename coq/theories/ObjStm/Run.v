(** ObjStm/Run.v — harness entry point for the object-stream model. *)
From PdfV Require Import Base.Prelude Gen.Generated Lex.Lexer Syn.Prim Syn.Parser Syn.Canon Codec.Model ObjStm.Model.

Definition field (fs : list bytes) (i : nat) : bytes := nth i fs [].

(* objstm: first n index data [filter] -> canon of the member.  filter = "hex" / "a85": [data] is the object stream's raw
   (encoded) content and the model decodes it itself (Codec.Model); otherwise [data] is the decoded payload *)
Definition run_objstm (fs : list bytes) : res (list bytes) :=
  let flt := field fs 4 in
  do data <- (if bytes_eqb flt [104; 101; 120] then decode_hex (field fs 3)
              else if bytes_eqb flt [97; 56; 53] then decode_85 (field fs 3)
              else Ok (field fs 3));
  do v <- resolve_member no_resolve F_ANY (N_of_dec (field fs 0)) (N_of_dec (field fs 1)) data (N_of_dec (field fs 2));
  Ok [canon_in data v].
