(** ObjStm/Run.v — harness entry point for the object-stream model. *)
From PdfV Require Import Base.Prelude Gen.Generated Lex.Lexer Syn.Prim Syn.Parser Syn.Canon ObjStm.Model.

Definition field (fs : list bytes) (i : nat) : bytes := nth i fs [].

(* objstm: first n index payload -> canon of the member *)
Definition run_objstm (fs : list bytes) : res (list bytes) :=
  let data := field fs 3 in
  do v <- resolve_member no_resolve F_ANY (N_of_dec (field fs 0)) (N_of_dec (field fs 1)) data (N_of_dec (field fs 2));
  Ok [canon_in data v].
