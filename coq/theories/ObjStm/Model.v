(** ObjStm/Model.v — executable model of pdf/src/object/stream.rs: ObjectStream::{from_primitive (header of N pairs),
    get_object_slice} and of the compressed branch of pdf/src/file.rs: Storage::resolve_ref.  The decoded payload of the
    object stream is an input (filters are the subject of Codec/). *)
From PdfV Require Import Base.Prelude Gen.Generated Lex.Lexer Syn.Prim Syn.Parser.

Definition E_OBJSTM : N := 30.       (* ObjStmOutOfBounds / invalid range *)

(* ObjectStream::from_primitive: `for _ in 0..num_objects { lexer.next()?.to::<ObjNr>()?; lexer.next()?.to::<usize>()? }` *)
Fixpoint header_offsets (n : nat) (s : lx) : res (list N) :=
  match n with
  | O => Ok []
  | S n' =>
      do (t1, s1) <- next s; do _ <- parse_u64 t1;
      do (t2, s2) <- next s1; do off <- parse_u64 t2;
      do r <- header_offsets n' s2; Ok (off :: r)
  end.

Definition USIZE : N := 18446744073709551616.

(* ObjectStream::get_object_slice: (start, end); `first.checked_add(offsets[i])` *)
Definition object_slice (first : N) (offsets : list N) (datalen : N) (index : N) : res (N * N) :=
  match nthN offsets index with
  | None => Err E_OBJSTM
  | Some o =>
      if USIZE <=? first + o then Err E_OBJSTM else
      let start := first + o in
      if index + 1 =? lenN offsets then Ok (start, datalen)
      else match nthN offsets (index + 1) with
           | None => Err E_OBJSTM
           | Some o2 => if USIZE <=? first + o2 then Err E_OBJSTM else Ok (start, first + o2)
           end
  end.

(* file.rs: resolve_ref, XRef::Stream arm: slice = data.get(range) (None when start > end or end > len), then parse *)
Definition resolve_member (R : resolver) (flags : N) (first : N) (nobj : N) (data : bytes) (index : N) : res prim :=
  do offsets <- header_offsets (N.to_nat nobj) (mkLx 0 data);
  do (st, en) <- object_slice first offsets (lenN data) index;
  if (st <=? en) && (en <=? lenN data) then parse R flags (take (en - st) (drop st data))
  else Err E_OBJSTM.
