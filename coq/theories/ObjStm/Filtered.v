(** ObjStm/Filtered.v — C11, "with any filter on that stream": the object stream's payload goes through the stream's filter
    chain (Stream::data → enc.rs decode, modelled in Codec/) before the member is looked up; since every decoder inverts its
    encoder (C16), the member's value is the one it has in an unfiltered object stream. *)
From PdfV Require Import Base.Prelude Gen.Generated Lex.Lexer Lex.LexProofs Syn.Prim Syn.Parser Syn.Spells Syn.ParserProofs Syn.RenderProofs
  Codec.Model Codec.Dispatch Codec.HexProofs Codec.A85Proofs Codec.EncProofs ObjStm.Model ObjStm.Proofs.

Section Filtered.
  Variable inflate_zlib : bytes -> res bytes.
  Variable inflate_raw : bytes -> res bytes.
  Variable deflate_zlib : bytes -> bytes.
  Variable lzw_dec : bool -> bytes -> res bytes.
  Variable lzw_enc : bytes -> res bytes.

  (* file.rs: resolve_ref, compressed arm, with the decode step of `ObjectStream::from_primitive`'s `Stream::data` made explicit *)
  Definition resolve_member_filtered (fs : list filter) (R : resolver) (flags first nobj : N) (raw : bytes) (index : N) : res prim :=
    do data <- decode_chain inflate_zlib inflate_raw lzw_dec fs raw;
    resolve_member R flags first nobj data index.

  Lemma filtered_one f R flags first nobj payload e index :
    decode inflate_zlib inflate_raw lzw_dec f e = Ok payload ->
    resolve_member_filtered [f] R flags first nobj e index = resolve_member R flags first nobj payload index.
  Proof. intros H. unfold resolve_member_filtered. cbn [decode_chain]. rewrite H. reflexivity. Qed.

  (* the four encoders of the crate; Flate and LZW under the oracle premise of C16 *)
  Definition standard_filter (f : filter) : Prop :=
    f = FHex \/ f = FA85 \/
    (exists p, f = FFlate p /\ (p_predictor p < png_from)%Z /\ p_predictor p <> tiff_pred) \/
    (exists p, f = FLzw p /\ p_early p = 0%Z /\ (p_predictor p < png_from)%Z /\ p_predictor p <> tiff_pred).

  Theorem member_resolves_filtered f R head texts i v its body ws_tail n e :
    (forall y, inflate_zlib (deflate_zlib y) = Ok y) ->
    (forall y c, lzw_enc y = Ok c -> lzw_dec false c = Ok y) ->
    standard_filter f -> wf_bytes (head ++ concat texts) ->
    encode deflate_zlib lzw_enc f (head ++ concat texts) = Ok e ->
    header_offsets n (mkLx 0 (head ++ concat texts)) = Ok (offs_of texts 0) ->
    nth_error texts i = Some (body ++ ws_tail) ->
    spells v its -> vdepth v <= MAX_DEPTH -> renders its (body ++ ws_tail) ws_tail ->
    Forall (fun b => is_ws b = true) ws_tail ->
    lenN (head ++ concat texts) < USIZE ->
    resolve_member_filtered [f] R F_ANY (lenN head) (N.of_nat n) e (N.of_nat i) = Ok v.
  Proof.
    intros Hz Hl Hf Hwf He Hh Hn Hs Hd Hr Hws Hlen.
    rewrite (filtered_one f R F_ANY (lenN head) (N.of_nat n) (head ++ concat texts) e (N.of_nat i)).
    - eapply member_resolves; eassumption.
    - destruct Hf as [-> | [-> | [(p & -> & Hp1 & Hp2) | (p & -> & Hp0 & Hp1 & Hp2)]]].
      + destruct (enc_dec_hex inflate_zlib inflate_raw deflate_zlib lzw_dec lzw_enc _ Hwf) as (e' & E1 & E2 & _).
        rewrite He in E1. injection E1 as <-. exact E2.
      + destruct (enc_dec_a85 inflate_zlib inflate_raw deflate_zlib lzw_dec lzw_enc _ Hwf) as (e' & E1 & E2 & _).
        rewrite He in E1. injection E1 as <-. exact E2.
      + destruct (enc_dec_flate inflate_zlib inflate_raw deflate_zlib lzw_dec lzw_enc Hz p (head ++ concat texts) Hp1 Hp2) as (e' & E1 & E2).
        rewrite He in E1. injection E1 as <-. exact E2.
      + exact (enc_dec_lzw inflate_zlib inflate_raw deflate_zlib lzw_dec lzw_enc Hl p _ e Hp0 Hp1 Hp2 He).
  Qed.
End Filtered.
