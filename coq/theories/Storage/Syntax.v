(** Storage/Syntax.v — the reader of the storage model IS the shared parser model: an indirect object at an
    absolute position of the backend is read by [PdfV.Syn.Parser.parse_indirect_object] (file.rs:
    Storage::resolve_ref, `Lexer::with_offset(backend.read(start_offset + pos ..), start_offset + pos)` +
    parse_indirect_object), a member of an object stream by [PdfV.Syn.Parser.parse] (file.rs: parse(slice, ..)).
    Err 97 = an indirect /Length (outside the modelled domain of the storage checks: the resolver passed to the
    parser is the storage itself).  No proofs in this file. *)
From PdfV Require Import Base.Prelude Gen.Generated Storage.Prim.
From PdfV Require Lex.Lexer Syn.Parser.

Definition len_resolver : Parser.resolver := fun _ _ _ => Err 97.

(** file.rs: resolve_ref, the XRef::Raw arm (strict options: `endobj` is required) *)
Definition parse_obj (bk : bytes) (pos : N) : res (N * N * prim) :=
  if lenN bk <? pos then Err 9 else
  do x <- Parser.parse_indirect_object len_resolver false F_ANY (Lexer.mkLx pos (drop pos bk));
  Ok (fst x).

(** parser: parse(slice) of a member of an object stream *)
Definition parse_slice (s : bytes) : res prim := Parser.parse len_resolver F_ANY s.

(** parse_with_lexer(lexer, resolve, ParseFlags::DICT) at a cursor (the trailer dictionary of a classic table) *)
Definition parse_dict_at (c : cur) : res prim :=
  do x <- Parser.parse_ctx len_resolver None F_DICT MAX_DEPTH (Lexer.mkLx (fst c) (snd c)); Ok (fst x).
