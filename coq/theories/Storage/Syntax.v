(** Storage/Syntax.v — an executable reader for the object syntax the storage model has to re-read:
    what [ser_prim] emits and what tools/oracle/pdfwriter.py emits (parser/mod.rs: parse_with_lexer_ctx,
    parse_indirect_object, parse_stream_object on that domain).  The universally quantified theorems do
    not depend on this file: there the reader is a Section function with the round-trip premise (which
    is property C04).  Err 9 = PdfError::Other-class parse error; Err 98/97 = outside the modelled domain.
    No proofs in this file. *)
From PdfV Require Import Base.Prelude Storage.Prim.

(** number token: sign, digits, optional fraction *)
Definition parse_number (w : bytes) : res prim :=
  let '(neg, w1) := match w with c :: t => if c =? 45 then (true, t) else if c =? 43 then (false, t) else (false, w) | [] => (false, w) end in
  let '(ip, r) := span_digits w1 [] in
  match r with
  | [] => match ip with [] => Err 9 | _ => Ok (PInt (if neg then Z.opp (Z.of_N (N_of_dec ip)) else Z.of_N (N_of_dec ip))) end
  | c :: r1 =>
    if c =? 46 then
      let '(fp, r2) := span_digits r1 [] in
      match r2 with
      | [] => match f32_of_dec neg (N_of_dec (ip ++ fp)) (lenN fp) with Some b => Ok (PReal b) | None => Err 98 end
      | _ => Err 9
      end
    else Err 9
  end.

Definition octal (c : N) : bool := (48 <=? c) && (c <=? 55).

(** lexer/str.rs: literal string body after '(' *)
Fixpoint lit_string (s : bytes) (pos : N) (depth : nat) (acc : bytes) {struct s} : res (bytes * cur) :=
  match s with
  | [] => Err 9
  | c :: t =>
    if c =? 92 then
      match t with
      | [] => Err 9
      | e :: t2 =>
        if e =? 110 then lit_string t2 (pos + 2) depth (10 :: acc)
        else if e =? 114 then lit_string t2 (pos + 2) depth (13 :: acc)
        else if e =? 116 then lit_string t2 (pos + 2) depth (9 :: acc)
        else if e =? 98 then lit_string t2 (pos + 2) depth (8 :: acc)
        else if e =? 102 then lit_string t2 (pos + 2) depth (12 :: acc)
        else lit_string t2 (pos + 2) depth (e :: acc)      (* \( \) \\ ; octal escapes are outside the domain *)
      end
    else if c =? 40 then lit_string t (pos + 1) (S depth) (c :: acc)
    else if c =? 41 then
      match depth with
      | O => Ok (rev acc, (pos + 1, t))
      | S d => lit_string t (pos + 1) d (c :: acc)
      end
    else lit_string t (pos + 1) depth (c :: acc)
  end.

(** lexer/str.rs: hex string body after '<' *)
Fixpoint hex_string (s : bytes) (pos : N) (hi : option N) (acc : bytes) {struct s} : res (bytes * cur) :=
  match s with
  | [] => Err 9
  | c :: t =>
    if c =? 62 then Ok (rev (match hi with Some h => h * 16 :: acc | None => acc end), (pos + 1, t))
    else if is_ws c then hex_string t (pos + 1) hi acc
    else
      let v := if is_digit c then Some (c - 48)
               else if (97 <=? c) && (c <=? 102) then Some (c - 87)
               else if (65 <=? c) && (c <=? 70) then Some (c - 55) else None in
      match v with
      | None => Err 9
      | Some x => match hi with
                  | None => hex_string t (pos + 1) (Some x) acc
                  | Some h => hex_string t (pos + 1) None (h * 16 + x :: acc)
                  end
      end
  end.

(** parser/mod.rs: parse_with_lexer_ctx (values; streams are handled by parse_obj) *)
Fixpoint pval (fuel : nat) (c : cur) {struct fuel} : res (prim * cur) :=
  match fuel with
  | O => OutOfFuel
  | S f =>
    let '(p, s) := skip_ws (fst c) (snd c) false in
    match s with
    | [] => Err 9
    | x :: t =>
      if x =? 47 then
        let '(w, r) := span_regular t [] in Ok (PName w, (p + 1 + lenN w, r))
      else if x =? 40 then
        do sr <- lit_string t (p + 1) O []; Ok (PStr (fst sr), snd sr)
      else if x =? 91 then
        (fix items (k : nat) (c : cur) (acc : list prim) {struct k} : res (prim * cur) :=
           match k with
           | O => OutOfFuel
           | S k' =>
             let '(p1, s1) := skip_ws (fst c) (snd c) false in
             match s1 with
             | [] => Err 9
             | y :: t1 => if y =? 93 then Ok (PArr (rev acc), (p1 + 1, t1))
                          else do vr <- pval f (p1, s1); items k' (snd vr) (fst vr :: acc)
             end
           end) fuel (p + 1, t) []
      else if x =? 60 then
        match t with
        | y :: t1 =>
          if y =? 60 then
            (fix entries (k : nat) (c : cur) (acc : dict) {struct k} : res (prim * cur) :=
               match k with
               | O => OutOfFuel
               | S k' =>
                 let '(p1, s1) := skip_ws (fst c) (snd c) false in
                 match s1 with
                 | a :: ((b :: t2) as t1') =>
                   if (a =? 62) && (b =? 62) then Ok (PDict acc, (p1 + 2, t2))
                   else if a =? 47 then
                     let '(w, r) := span_regular t1' [] in
                     do vr <- pval f (p1 + 1 + lenN w, r);
                     entries k' (snd vr) (dinsert acc w (fst vr))
                   else Err 9
                 | _ => Err 9
                 end
               end) fuel (p + 2, t1) []
          else do sr <- hex_string t (p + 1) None []; Ok (PStr (fst sr), snd sr)
        | [] => Err 9
        end
      else
        let '(w, r) := span_regular s [] in
        let c1 := (p + lenN w, r) in
        if beq_bytes w [116; 114; 117; 101] then Ok (PBool true, c1)
        else if beq_bytes w [102; 97; 108; 115; 101] then Ok (PBool false, c1)
        else if beq_bytes w [110; 117; 108; 108] then Ok (PNull, c1)
        else if all_digits w then
          (* integer integer R ? *)
          let '(w2, c2) := next_word c1 in
          if all_digits w2 then
            let '(w3, c3) := next_word c2 in
            if beq_bytes w3 [82] then Ok (PRef (N_of_dec w) (N_of_dec w2), c3)
            else Ok (PInt (Z.of_N (N_of_dec w)), c1)
          else Ok (PInt (Z.of_N (N_of_dec w)), c1)
        else match w with
             | [] => Err 9
             | _ => do v <- parse_number w; Ok (v, c1)
             end
    end
  end.

Definition kw_obj := [111; 98; 106].
Definition kw_endobj := [101; 110; 100; 111; 98; 106].
Definition kw_stream := [115; 116; 114; 101; 97; 109].
Definition kw_Length := [76; 101; 110; 103; 116; 104].

(** parser/parse_object.rs: parse_indirect_object at an absolute position: ((id, gen), value) *)
Definition parse_obj (bk : bytes) (pos : N) : res (N * N * prim) :=
  if lenN bk <? pos then Err 9 else
  let c0 := (pos, drop pos bk) in
  let fuel := S (length (snd c0)) in
  let '(w1, c1) := next_word c0 in
  let '(w2, c2) := next_word c1 in
  let '(w3, c3) := next_word c2 in
  if negb (all_digits w1 && all_digits w2 && beq_bytes w3 kw_obj) then Err 9 else
  do vr <- pval fuel c3;
  let '(v, c4) := vr in
  let '(w4, c5) := next_word c4 in
  if beq_bytes w4 kw_endobj then Ok (N_of_dec w1, N_of_dec w2, v)
  else if beq_bytes w4 kw_stream then
    match v with
    | PDict d =>
      (* end of line after the keyword: CR LF or LF *)
      let c6 := match snd c5 with
                | a :: t => if a =? 13 then match t with b :: t2 => if b =? 10 then (fst c5 + 2, t2) else (fst c5 + 1, t) | [] => (fst c5 + 1, t) end
                            else if a =? 10 then (fst c5 + 1, t) else c5
                | [] => c5 end in
      match dget d kw_Length with
      | Some (PInt z) =>
        let lo := fst c6 in
        let hi := lo + Z.to_N z in
        if (0 <=? z)%Z && (hi <=? lenN bk) then Ok (N_of_dec w1, N_of_dec w2, PStream d (SInFile lo hi)) else Err 9
      | Some _ => Err 97
      | None => Err 9
      end
    | _ => Err 9
    end
  else Err 9.

(** parser: parse(slice) of a member of an object stream *)
Definition parse_slice (s : bytes) : res prim :=
  do vr <- pval (S (length s)) (0, s); Ok (fst vr).
