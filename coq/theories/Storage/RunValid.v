(** Storage/RunValid.v — harness entry point of the structural validator (Valid.v): mode `accepts`.
    The implementation side of the mode asks the library whether it can open the bytes and enumerate the
    pages ("0"); the model side is the independent reading of the bytes. *)
From PdfV Require Import Base.Prelude Storage.Valid.

Definition run_accepts (fs : list bytes) : res (list bytes) :=
  Ok [dec_of_N (valid_code (nth 0 fs []))].
