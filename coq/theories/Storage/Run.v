(** Storage/Run.v — harness entry points of the storage model: the Section functions of Model.v are
    instantiated with the shared serialiser model (Syn.Serialize.ser) and the shared parser model
    (Syntax.parse_obj = Syn.Parser.parse_indirect_object at a position of the backend).
    Mirrors harness/src/modes/storage.rs.  No proofs in this file. *)
From PdfV Require Import Base.Prelude Storage.Prim Storage.Syntax Storage.Model.
From PdfV Require Syn.Serialize.

Definition field (fs : list bytes) (i : nat) : bytes := nth i fs [].

Definition k_N := [78].
Definition k_First := [70; 105; 114; 115; 116].
Definition kw_trailer := [116; 114; 97; 105; 108; 101; 114].

(** stream.rs: ObjectStream::from_primitive (header pairs) *)
Fixpoint read_offsets (n : nat) (c : cur) (acc : list N) : res (list N) :=
  match n with
  | O => Ok (rev acc)
  | S k =>
    let '(w1, c1) := next_word c in
    let '(w2, c2) := next_word c1 in
    if all_digits w1 && all_digits w2 then read_offsets k c2 (N_of_dec w2 :: acc) else Err 9
  end.

(** stream.rs: ObjectStream::get_object_slice + file.rs: parse(slice) — unfiltered containers only *)
Definition member_c (bk : bytes) (c : prim) (idx : N) : res prim :=
  match c with
  | PStream d _ _ _ _ =>
    match dget d k_Filter with
    | Some _ => Err 96
    | None =>
      match dget d k_N, dget d k_First, raw_data bk c with
      | Some pn, Some pf, Some data =>
        match as_N pn, as_N pf with
        | Some n, Some first =>
          do offs <- read_offsets (N.to_nat n) (0, data) [];
          match nthN offs idx with
          | None => Err 9
          | Some o =>
            let lo := first + o in
            let hi := match nthN offs (idx + 1) with Some o2 => first + o2 | None => lenN data end in
            match read_range data lo hi with
            | Some sl => parse_slice sl
            | None => Err 9
            end
          end
        | _, _ => Err 9
        end
      | _, _, _ => Err 9
      end
    end
  | _ => Err 9
  end.

(** parse_xref.rs: parse_xref_table_and_trailer *)
Fixpoint classic_rows (n : nat) (c : cur) (acc : list xent) : res (list xent * cur) :=
  match n with
  | O => Ok (rev acc, c)
  | S k =>
    let '(w1, c1) := next_word c in
    let '(w2, c2) := next_word c1 in
    let '(w3, c3) := next_word c2 in
    if negb (all_digits w1 && all_digits w2) then Err 9
    else if beq_bytes w3 [102] then classic_rows k c3 (XFree (N_of_dec w1) (N_of_dec w2) :: acc)
    else if beq_bytes w3 [110] then classic_rows k c3 (XRaw (N_of_dec w1) (N_of_dec w2) :: acc)
    else Err 9
  end.

Fixpoint classic_sections (fuel : nat) (c : cur) (acc : list section) : res (list section * dict) :=
  match fuel with
  | O => OutOfFuel
  | S f =>
    let '(w, c1) := next_word c in
    if beq_bytes w kw_trailer then
      do v <- parse_dict_at c1;
      match v with PDict d => Ok (rev acc, d) | _ => Err 9 end
    else
      let '(w2, c2) := next_word c1 in
      if negb (all_digits w && all_digits w2) then Err 9 else
      do r <- classic_rows (N.to_nat (N_of_dec w2)) c2 [];
      classic_sections f (snd r) ((N_of_dec w, fst r) :: acc)
  end.

Definition read_classic_c (b : bytes) (pos : N) : res (list section * dict) :=
  let '(w, c1) := next_word (pos, drop pos b) in
  if beq_bytes w kw_xref then classic_sections (S (length b)) c1 [] else Err 9.

(* ---- the concrete machine ---------------------------------------------------------------- *)
Definition c_resolve := resolve parse_obj member_c.
Definition c_get := get parse_obj member_c.
Definition c_save := save Serialize.ser.
Definition c_load := load parse_obj read_classic_c.
Definition c_trailer_of := trailer_of parse_obj member_c.

(** harness/src/util.rs: ekind *)
Definition etext (e : N) : bytes :=
  33 :: (if e =? 1 then [70; 114; 101; 101; 79; 98; 106; 101; 99; 116]
         else if e =? 2 then [78; 117; 108; 108; 82; 101; 102]
         else if e =? 8 then [85; 110; 115; 112; 101; 99; 105; 102; 105; 101; 100; 88; 82; 101; 102; 69; 110; 116; 114; 121]
         else if e =? 10 then [69; 79; 70]
         else if e =? 14 then [77; 97; 120; 68; 101; 112; 116; 104]
         else if (e =? 9) || ((11 <=? e) && (e <=? 19)) then [79; 116; 104; 101; 114]
         else [68; 79; 77; 65; 73; 78] ++ dec_of_N e).

Definition rtext (r : N * N) : bytes := [82] ++ dec_of_N (fst r) ++ [44] ++ dec_of_N (snd r).

(** canon_res; a panic or fuel exhaustion inside a read ends the case *)
Definition canon_res (bk : bytes) (r : res prim) : res bytes :=
  match r with
  | Ok p => Ok (canon bk p)
  | Err e => Ok (etext e)
  | Panic k => Panic k
  | OutOfFuel => OutOfFuel
  end.

Fixpoint split_on (c : N) (s : bytes) (cur : bytes) : list bytes :=
  match s with
  | [] => [rev cur]
  | x :: t => if x =? c then rev cur :: split_on c t [] else split_on c t (x :: cur)
  end.

(** the first space-separated token and the rest *)
Fixpoint tok (s : bytes) (acc : bytes) : bytes * bytes :=
  match s with
  | [] => (rev acc, [])
  | x :: t => if x =? 32 then (rev acc, t) else tok t (x :: acc)
  end.

(** storage.rs: refd *)
Definition refd (t : bytes) (handed : list (N * N)) : option (N * N) :=
  match t with
  | c :: r =>
    if c =? 104 then (if all_digits r then nth_error handed (N.to_nat (N_of_dec r)) else None)
    else match split_on 44 t [] with
         | [a; b] => if all_digits a && all_digits b then Some (N_of_dec a, N_of_dec b) else None
         | _ => None
         end
  | [] => None
  end.

(** storage.rs: val — Err 90 = badref/badvalue (never produced by the generators) *)
Definition valof (s : st) (t : bytes) (handed : list (N * N)) : res prim :=
  match t with
  | c :: r =>
    if c =? 64 then match refd r handed with Some x => c_resolve s x | None => Err 90 end
    else match uncanon t with Some v => Ok v | None => Err 90 end
  | [] => Err 90
  end.

Definition k_keep := [k_Root; k_Info; k_ID; k_Prev].

(** storage.rs: listing *)
Definition listing (b : bytes) (c : bool) : res (list bytes) :=
  match c_load b c with
  | Ok (s, td) =>
    match dget td k_Size with
    | Some (PInt z) =>
      let size := Z.to_N z in
      do rows <- (fix go (n : nat) (id : N) : res (list bytes) :=
                    match n with
                    | O => Ok []
                    | S k => do x <- canon_res b (c_resolve s (id, 0)); do r <- go k (id + 1); Ok (x :: r)
                    end) (N.to_nat size) 0;
      let tdk := flat_map (fun k => match dget td k with Some v => [(k, v)] | None => [] end) k_keep in
      Ok ([dec_of_N size] ++ rows ++ [canon b (PDict tdk)])
    | _ => Ok [etext 9]
    end
  | Err e => Ok [etext e]
  | Panic k => Panic k
  | OutOfFuel => OutOfFuel
  end.

Record hstate := mkH { h_st : st; h_tr : trailer; h_handed : list (N * N); h_prom : list (N * N); h_prev : bytes }.

Definition is_prefix_b (a b : bytes) : bool := prefixb a b.

Definition remove_ref (r : N * N) (l : list (N * N)) : list (N * N) :=
  (fix go (l : list (N * N)) (done : bool) : list (N * N) :=
     match l with
     | [] => []
     | x :: t => if negb done && (fst x =? fst r) && (snd x =? snd r) then go t true else x :: go t done
     end) l false.

(** storage.rs: history, one op *)
Definition step (h : hstate) (line : bytes) : res (hstate * list bytes) :=
  let '(op, rest) := tok line [] in
  let s := h_st h in
  let hd := h_handed h in
  let with_ref (r : res (st * (N * N))) : res (hstate * list bytes) :=
    match r with
    | Ok (s', x) => Ok (mkH s' (h_tr h) (hd ++ [x]) (h_prom h) (h_prev h), [rtext x])
    | Err e => Ok (h, [etext e])
    | Panic k => Panic k
    | OutOfFuel => OutOfFuel
    end in
  if beq_bytes op [67] then
    do v <- valof s rest hd;
    let '(s', x) := create s v in with_ref (Ok (s', x))
  else if beq_bytes op [78] then
    do v <- valof s rest hd;
    match create_nested s v with
    | Ok (s', (p, c)) => Ok (mkH s' (h_tr h) (hd ++ [p; c]) (h_prom h) (h_prev h), [rtext p; rtext c])
    | Err e => Ok (h, [etext e])
    | Panic k => Panic k
    | OutOfFuel => OutOfFuel
    end
  else if beq_bytes op [77] then
    do v <- valof s rest hd;
    match create_nested2 s v with
    | Ok (s', (p, m, c)) => Ok (mkH s' (h_tr h) (hd ++ [p; m; c]) (h_prom h) (h_prev h), [rtext p; rtext m; rtext c])
    | Err e => Ok (h, [etext e])
    | Panic k => Panic k
    | OutOfFuel => OutOfFuel
    end
  else if beq_bytes op [85] then
    let '(t1, t2) := tok rest [] in
    match refd t1 hd with
    | None => Err 90
    | Some r => do v <- valof s t2 hd; with_ref (update s r v)
    end
  else if beq_bytes op [80] then
    let '(s', x) := promise s in
    Ok (mkH s' (h_tr h) (hd ++ [x]) (h_prom h ++ [x]) (h_prev h), [rtext x])
  else if beq_bytes op [70] then
    let '(t1, t2) := tok rest [] in
    match refd t1 hd with
    | None => Err 90
    | Some r =>
      do v <- valof s t2 hd;
      if existsb (fun x => (fst x =? fst r) && (snd x =? snd r)) (h_prom h) then
        match fulfill s r v with
        | Ok (s', x) => Ok (mkH s' (h_tr h) (hd ++ [x]) (remove_ref r (h_prom h)) (h_prev h), [rtext x])
        | Err e => Ok (mkH s (h_tr h) hd (remove_ref r (h_prom h)) (h_prev h), [etext e])
        | Panic k => Panic k
        | OutOfFuel => OutOfFuel
        end
      else Err 90
    end
  else if beq_bytes op [82] then
    match refd rest hd with
    | None => Err 90
    | Some r => do x <- canon_res (backend s) (c_resolve s r); Ok (h, [x])
    end
  else if beq_bytes op [71] then
    match refd rest hd with
    | None => Err 90
    | Some r =>
      let '(s', v) := c_get s r in
      do x <- canon_res (backend s) v;
      Ok (mkH s' (h_tr h) hd (h_prom h) (h_prev h), [x])
    end
  else if beq_bytes op [83] then
    do r <- c_save s (h_tr h);
    let '(s', tr', fail) := r in
    match fail with
    | Some e => Ok (mkH s' tr' hd (h_prom h) (h_prev h), [etext e])
    | None =>
      let b := backend s' in
      do ls <- listing b (cached s');
      Ok (mkH s' tr' hd (h_prom h) b,
          [[111; 107]; (if is_prefix_b (h_prev h) b then [49] else [48])] ++ ls)
    end
  else Err 90.

Fixpoint steps (h : hstate) (lines : list bytes) : res (list bytes) :=
  match lines with
  | [] => Ok []
  | l :: t =>
    match l with
    | [] => steps h t
    | _ => do r <- step h l; do o <- steps (fst r) t; Ok (snd r ++ o)
    end
  end.

(** mode storage_history: opts base ops *)
Definition run_storage_history (fs : list bytes) : res (list bytes) :=
  let c := match field fs 0 with x :: _ => x =? 99 | [] => false end in
  let base := field fs 1 in
  do l <- c_load base c;
  let '(s, td) := l in
  do tr <- c_trailer_of s td;
  steps (mkH s tr [] [] base) (split_on 10 (field fs 2) []).
